/-
Field-generic model of the isometry constructors of `geometry_tools/hyperbolic.py`,
`lie/core.py: sl2_to_so21` and of composition / inverse in `projective.Transformation`.

Conventions of the library that the model keeps:
* an `Isometry` stores a **row matrix** `M` acting on row vectors on the right, `x ↦ x M`
  (`Transformation._apply_to_data = matrix_product(data, matrix)`);
* a constructor called with `column_vectors=True` stores the transpose of what it computed;
* `A @ B = A.apply(B)` stores `B.matrix · A.matrix`.

Transcendental functions never occur: an angle enters as `(c, s)` with `c² + s² = 1`, a
translation length as `u = eᵗ ≠ 0`.  `utils.invert` (LAPACK) of the two *constant* matrices
used by the constructors is modelled by explicit matrices that are proved to be the inverses
(`loxBinv_eq_inv`, `killingConjInv_eq_inv` in `GT.Lemmas.Isometry`); `utils.invert` of a
*variable* matrix is Mathlib's `⁻¹` (the driver computes it by Gauss–Jordan over ℚ and checks
the certificate `M * B = 1`, which determines `B = M⁻¹`).
-/
import GT.Model.Charts
import GT.Base.DMat
import Mathlib.Data.Matrix.Block
import Mathlib.Data.Matrix.Diagonal
import Mathlib.LinearAlgebra.Matrix.Notation
import Mathlib.LinearAlgebra.Matrix.NonsingularInverse
import Mathlib.Data.Nat.Choose.Basic
import Mathlib.Algebra.BigOperators.Intervals
import Mathlib.Logic.Equiv.Fin.Basic

open Finset BigOperators Matrix

namespace GT.Iso

variable {K : Type*} [Field K] {n m : ℕ}

/-- diagonal of `hyperbolic.minkowski(n+1)` -/
def minkDiag (n : ℕ) : Fin (n + 1) → K := Fin.cons (-1) fun _ => 1

/-- `hyperbolic.minkowski(n+1)`: `identity` with entry `[0,0]` negated -/
def minkJ (n : ℕ) : Matrix (Fin (n + 1)) (Fin (n + 1)) K := Matrix.diagonal (minkDiag n)

/-- a row matrix preserves the Minkowski form: `⟨xM, yM⟩ = ⟨x, y⟩` for all `x y`
(`isIso_iff_preserves`) -/
def IsIso (M : Matrix (Fin (n + 1)) (Fin (n + 1)) K) : Prop := M * minkJ n * Mᵀ = minkJ n

/-- `Transformation._apply_to_data` on one row vector: `x ↦ x M` -/
def applyRow {p : ℕ} (M : Matrix (Fin p) (Fin p) K) (x : Fin p → K) : Fin p → K := Matrix.vecMul x M

/-- `A @ B` (= `A.apply(B)`): stored matrix `matrix_product(B.matrix, A.matrix)` -/
def compose {p : ℕ} (A B : Matrix (Fin p) (Fin p) K) : Matrix (Fin p) (Fin p) K := B * A

/-- `Transformation.inv`: `utils.invert(self.matrix)` -/
noncomputable def tinv {p : ℕ} (A : Matrix (Fin p) (Fin p) K) : Matrix (Fin p) (Fin p) K := A⁻¹

/-- a letter of a word of isometries: a matrix, or (`true`) its `.inv()` -/
noncomputable def letterMat {p : ℕ} (l : Matrix (Fin p) (Fin p) K × Bool) : Matrix (Fin p) (Fin p) K :=
  if l.2 then tinv l.1 else l.1

/-- `l₁ @ l₂ @ … @ l_k` (Python's `@` associates to the left), starting from
`hyperbolic.identity`: stored matrix `l_k · … · l₁` -/
def evalWord {p : ℕ} (w : List (Matrix (Fin p) (Fin p) K)) : Matrix (Fin p) (Fin p) K :=
  w.foldl (fun acc l => compose acc l) 1

/-- `evalWord` on array-backed matrices, materialising every partial product (what the driver
runs; `evalWordD_toMatrix`: it denotes `evalWord` of the denoted letters) -/
def evalWordD {p : ℕ} {K : Type} [Field K] [Inhabited K] (w : List (DMat p p K)) : DMat p p K :=
  w.foldl (fun acc l => DMat.ofMatrix (compose acc.toMatrix l.toMatrix)) (DMat.ofMatrix 1)

/-! ### block embeddings -/

/-- `mat = zeros; mat[0,0] = 1; mat[1:,1:] = O` in `Isometry.elliptic` -/
def ellipticMat (O : Matrix (Fin n) (Fin n) K) : Matrix (Fin (n + 1)) (Fin (n + 1)) K :=
  Matrix.of (Fin.cons (Fin.cons 1 fun _ => 0) fun i => Fin.cons 0 (O i))

/-- `Isometry.elliptic(n, O)` with the default `column_vectors=True`: the transpose is stored -/
def elliptic (O : Matrix (Fin n) (Fin n) K) : Matrix (Fin (n + 1)) (Fin (n + 1)) K := (ellipticMat O)ᵀ

/-- `Isometry.elliptic(n, O, column_vectors=False)` -/
def ellipticRow (O : Matrix (Fin n) (Fin n) K) : Matrix (Fin (n + 1)) (Fin (n + 1)) K := ellipticMat O

/-- index split `{0,1} ⊔ {2,…,m+1}` -/
def split2 (m : ℕ) : Fin (m + 2) ≃ Fin 2 ⊕ Fin m :=
  (finCongr (Nat.add_comm m 2)).trans finSumFinEquiv.symm

/-- `I = identity(m+2); I[0:2,0:2] = A` -/
def block2 (A : Matrix (Fin 2) (Fin 2) K) : Matrix (Fin (m + 2)) (Fin (m + 2)) K :=
  (Matrix.fromBlocks A 0 0 (1 : Matrix (Fin m) (Fin m) K)).submatrix (split2 m) (split2 m)

/-- `utils.rotation_matrix(angle)` with `c = cos angle`, `s = sin angle` -/
def rotation2 (c s : K) : Matrix (Fin 2) (Fin 2) K := !![c, -s; s, c]

/-- `Isometry.standard_rotation(angle, dimension=m+2)`:
`affine = identity; affine[0:2,0:2] = rotation_matrix(angle); elliptic(dimension, affine)` -/
def rotation (c s : K) : Matrix (Fin (m + 3)) (Fin (m + 3)) K :=
  elliptic (block2 (m := m) (rotation2 c s))

/-- `hyperbolic._loxodromic_basis_change(m+1)` -/
def loxB : Matrix (Fin (m + 2)) (Fin (m + 2)) K := block2 !![1, 1; 1, -1]

/-- `utils.invert(_loxodromic_basis_change(m+1))` (explicit; `loxBinv_eq_inv`) -/
def loxBinv : Matrix (Fin (m + 2)) (Fin (m + 2)) K := block2 !![1 / 2, 1 / 2; 1 / 2, -(1 / 2)]

/-- `np.diag(concatenate(([u, 1/u], ones(m))))` -/
def loxDiag (u : K) : Matrix (Fin (m + 2)) (Fin (m + 2)) K :=
  Matrix.diagonal (Fin.cons u (Fin.cons (1 / u) fun _ => 1))

/-- the matrix computed by `Isometry.standard_loxodromic(m+1, u)`:
`basis_change @ diagonal_loxodromic @ invert(basis_change)` -/
def loxodromicMat (u : K) : Matrix (Fin (m + 2)) (Fin (m + 2)) K := loxB * loxDiag u * loxBinv

/-- `Isometry.standard_loxodromic(m+1, u)` (`column_vectors=True`: transpose stored) -/
def loxodromic (u : K) : Matrix (Fin (m + 2)) (Fin (m + 2)) K := (loxodromicMat u)ᵀ

/-! ### `SL^±(2) → O(2,1)` -/

/-- entry `(j,k)` of `lie.sl2_irrep(A, n)`; the Python exponent `r - k - j + i` is written
`r + i - k - j` (the summation range makes it non-negative; ℕ-subtraction truncates) -/
def sl2IrrepEntry (a b c d : K) (n j k : ℕ) : K :=
  let r := n - 1
  ∑ i ∈ Finset.Ico (max 0 (j + k - r)) (min (j + 1) (k + 1)),
    (Nat.choose k i : K) * (Nat.choose (r - k) (j - i) : K) * a ^ i * c ^ (k - i) * b ^ (j - i)
      * d ^ (r + i - k - j)

/-- `lie.sl2_irrep(A, 3)` (the only instance `sl2_to_so21` uses) -/
def sl2Irrep3 (A : Matrix (Fin 2) (Fin 2) K) : Matrix (Fin 3) (Fin 3) K :=
  fun j k => sl2IrrepEntry (A 0 0) (A 0 1) (A 1 0) (A 1 1) 3 j k

/-- `killing_conj` in `lie.sl2_to_so21` -/
def killingConj : Matrix (Fin 3) (Fin 3) K := !![0, -1, 0; -1, 0, 1; -1, 0, -1]

/-- `utils.invert(killing_conj)` (explicit; `killingConjInv_eq_inv`) -/
def killingConjInv : Matrix (Fin 3) (Fin 3) K := !![0, -(1 / 2), -(1 / 2); -1, 0, 0; 0, 1 / 2, -(1 / 2)]

/-- `utils.permutation_matrix((2,1,0))` -/
def perm210 : Matrix (Fin 3) (Fin 3) K := !![0, 0, 1; 0, 1, 0; 1, 0, 0]

/-- `lie.sl2_to_so21(A)`: `permutation @ killing_conj @ A_3 @ invert(killing_conj) @ permutation` -/
def sl2ToSo21 (A : Matrix (Fin 2) (Fin 2) K) : Matrix (Fin 3) (Fin 3) K :=
  perm210 * killingConj * sl2Irrep3 A * killingConjInv * perm210

/-- `hyperbolic.sl2_iso(A)` (`column_vectors=True`: transpose stored) -/
def sl2Iso (A : Matrix (Fin 2) (Fin 2) K) : Matrix (Fin 3) (Fin 3) K := (sl2ToSo21 A)ᵀ

/-! ### reflections -/

/-- `Subspace.reflection_across`: `invert(dual_data) @ minkowski @ dual_data` where the rows of
`D = dual_data` are the spacelike normal followed by a basis of the hyperplane -/
noncomputable def reflectAcross (D : Matrix (Fin (n + 1)) (Fin (n + 1)) K) :
    Matrix (Fin (n + 1)) (Fin (n + 1)) K := D⁻¹ * minkJ n * D

/-- closed form of the reflection in the hyperplane with normal `d` (row-vector action):
`x ↦ x − 2⟨x,d⟩/⟨d,d⟩ · d` — `reflectAcross_eq_closed` shows `reflectAcross D` equals it
whatever hyperplane basis the SVD chose -/
def reflClosed (d : Fin (n + 1) → K) : Matrix (Fin (n + 1)) (Fin (n + 1)) K :=
  fun i j => (if i = j then 1 else 0) - 2 * (minkDiag n i * d i) * d j / mink d d

end GT.Iso

/-! ### exact residuals (driver: evaluated on the implementation's float output, sent as exact
dyadic rationals) -/

namespace GT.Iso

/-- `max_{i,j} |R i j|` (0 for an empty matrix) -/
def maxAbs {K : Type*} [Field K] [LinearOrder K] {p q : ℕ} (R : Matrix (Fin p) (Fin q) K) : K :=
  ((List.finRange p).flatMap fun i => (List.finRange q).map fun j => |R i j|).foldl max 0

/-- `‖M J Mᵀ − J‖∞` (entrywise max); `isoResidual_eq_zero_iff`: zero exactly for isometries -/
def isoResidual {K : Type} [Field K] [LinearOrder K] [Inhabited K] {n : ℕ}
    (M : Matrix (Fin (n + 1)) (Fin (n + 1)) K) : K :=
  let T := DMat.ofMatrix (M * minkJ n)          -- strict: evaluated once
  let R := DMat.ofMatrix (T.toMatrix * Mᵀ - minkJ n)
  maxAbs R.toMatrix

end GT.Iso
