/-
Field-generic model of the "target hitting" constructions of geometry_tools/hyperbolic.py
(C13): `Point.origin_to`, `Point.unit_tangent_towards`, `TangentVector.*`,
`project_to_hyperboloid`, `hyp_to_affine_dist`, `Polygon.regular_polygon`,
`regular_polygon_radius`, `polygon_interior_angle`.

`utils.find_isometry` is only modelled as far as C13 needs it: Gram–Schmidt
(`utils.indefinite_orthogonalize`) leaves the first row alone and replaces the second by
its projection off the first, then every row is normalised; the remaining rows are a
contract (`M J Mᵀ = J`, owned by C02/C18).  Square roots enter as a supplied function `r`
(`IsSqrt r` in the theorems), `e^{2t}` / `cosh,sinh` / `cos,sin` as supplied values.
-/
import GT.Model.Charts
import Mathlib.Data.Matrix.Mul

open Finset BigOperators

namespace GT.Targets

variable {K : Type*} [Field K] {n : ℕ}

/-- `utils.projection(v, w, minkowski)`: `w · ⟨v,w⟩ / ⟨w,w⟩` -/
def mproj (v w : Fin (n + 1) → K) : Fin (n + 1) → K := fun i => w i * mink v w / mink w w

/-- `hyperbolic.project_to_hyperboloid(basepoint, tangent_vector)` -/
def projHyp (p v : Fin (n + 1) → K) : Fin (n + 1) → K := fun i => v i - mproj v p i

/-- `TangentVector._compute_aux_data`: the pair `(point, projected vector)`; `.vector` is the
second component -/
def tvAux (p v : Fin (n + 1) → K) : (Fin (n + 1) → K) × (Fin (n + 1) → K) := (p, projHyp p v)

section ordered
variable [LinearOrder K]

/-- row 0 of `utils.indefinite_orthogonalize(minkowski, [x, …])`: the first row is never
changed by the inner loop and is normalised at the end -/
def gsRow0 (r : K → K) (x : Fin (n + 1) → K) : Fin (n + 1) → K := normalize r x

/-- row 1 of `utils.indefinite_orthogonalize(minkowski, [x, y, …])`: `y` minus its projection
onto the (unnormalised) first row, normalised at the end -/
def gsRow1 (r : K → K) (x y : Fin (n + 1) → K) : Fin (n + 1) → K :=
  normalize r (fun i => y i - mproj y x i)

/-- `np.where(normed[..., :1] < 0, -1, 1)`: `-1` for a representative on the lower sheet -/
def sheetSign (x : Fin (n + 1) → K) : K := if x 0 < 0 then -1 else 1

/-- the representative on the upper sheet of the hyperboloid: `normed * sheetSign` -/
def upperSheet (x : Fin (n + 1) → K) : Fin (n + 1) → K := fun i => sheetSign x * x i

/-- row 0 of `Point.origin_to().matrix` (repaired, C12: the upper-sheet representative of the
normalised point is used): `find_isometry(minkowski, [±normalize(x)])` -/
def originToRow0 (r : K → K) (x : Fin (n + 1) → K) : Fin (n + 1) → K :=
  gsRow0 r (upperSheet (normalize r x))

/-- rows 0 and 1 of `TangentVector.origin_to().matrix` (repaired, C12):
`find_isometry(minkowski, σ·normalize(aux_data))` with `aux_data = (p, projHyp p v)` and the one
sign `σ = sheetSign(normalize p)` applied to both rows — `(x, v)` and `(-x, -v)` are the same
tangent vector -/
def tvOriginToRow0 (r : K → K) (p _v : Fin (n + 1) → K) : Fin (n + 1) → K :=
  gsRow0 r (upperSheet (normalize r p))

def tvOriginToRow1 (r : K → K) (p v : Fin (n + 1) → K) : Fin (n + 1) → K :=
  gsRow1 r (upperSheet (normalize r p))
    (fun i => sheetSign (normalize r p) * normalize r (projHyp p v) i)

/-- `TangentVector.normalized()`: same point, vector `normalize(self.vector)`; the stored
`.vector` of the result is again projected (`_compute_aux_data`) -/
def tvNormalizedVec (r : K → K) (p v : Fin (n + 1) → K) : Fin (n + 1) → K :=
  projHyp p (normalize r (projHyp p v))

/-- `Point.unit_tangent_towards(other)` (repaired, D7: the representative of `other` on the
sheet of `self` is used): the `.vector` of the returned unit tangent vector -/
def unitTangentTowards (r : K → K) (p q : Fin (n + 1) → K) : Fin (n + 1) → K :=
  let s : K := if mink p q > 0 then -1 else 1
  tvNormalizedVec r p (fun i => s * q i - p i)

/-- `TangentVector.angle(other)`: the argument of `arccos` -/
def angleCos (r : K → K) (p v₁ v₂ : Fin (n + 1) → K) : K :=
  mink (projHyp p (tvNormalizedVec r p v₁)) (projHyp p (tvNormalizedVec r p v₂))

/-- `TangentVector.angle(other)` when `other` stores its own basepoint `q` (the same point of hyperbolic
space, possibly the representative on the other sheet): the product is multiplied by `-1` when
`⟨p, q⟩ > 0` (repaired: `(x, v)` and `(-x, -v)` are the same tangent vector) -/
def angleCosPair (r : K → K) (p v₁ q v₂ : Fin (n + 1) → K) : K :=
  (if mink p q > 0 then -1 else 1)
    * mink (projHyp p (tvNormalizedVec r p v₁)) (projHyp p (tvNormalizedVec r q v₂))

/-- repaired `TangentVector.angle` argument: `np.clip(product, -1, 1)` (the unclamped product can
round just outside `[-1, 1]` for parallel vectors, and `arccos` then returns NaN) -/
def angleCosClamped (r : K → K) (p v₁ v₂ : Fin (n + 1) → K) : K :=
  max (-1) (min 1 (angleCos r p v₁ v₂))

end ordered

/-- `hyperbolic.hyp_to_affine_dist(t)` with `e2 = e^{2t}` supplied: `(e^{2t}-1)/(1+e^{2t})` -/
def hypToAffine (e2 : K) : K := (e2 - 1) / (1 + e2)

/-- `TangentVector.point_along(t)`: the Klein point `(th,0,…,0)` (projectively `e₀ + th·e₁`)
moved by `origin_to()`, whose rows 0 and 1 are `p̂`, `v̂`: the result is `p̂ + th·v̂` -/
def pointAlong (ph vh : Fin (n + 1) → K) (th : K) : Fin (n + 1) → K := fun i => ph i + th * vh i

/-- the same through a full matrix (`Isometry.apply` on row vectors): `(1, th, 0, …)·M` -/
def pointAlongMat (M : Matrix (Fin (n + 2)) (Fin (n + 2)) K) (th : K) : Fin (n + 2) → K :=
  Matrix.vecMul (Fin.cons 1 (Fin.cons th (fun _ => 0))) M

/-! ### regular polygons -/

/-- `Isometry.standard_rotation(θ, dimension)` applied to a (row) vector, `(c,s)=(cos θ,sin θ)`:
the block `[[c,-s],[s,c]]` acts on coordinates 1, 2 (`column_vectors=True`), identity elsewhere -/
def rotApply (c s : K) (v : Fin (n + 3) → K) : Fin (n + 3) → K :=
  let v₁ := Fin.tail v
  let v₂ := Fin.tail v₁
  Fin.cons (v 0) (Fin.cons (c * v₁ 0 - s * v₂ 0) (Fin.cons (s * v₁ 0 + c * v₂ 0) (Fin.tail v₂)))

/-- start vertex of `Polygon.regular_polygon`: `get_base_tangent().point_along(r)`, i.e. the
Klein point `(th, 0, …, 0)`, `th = tanh r` -/
def polyStart (th : K) : Fin (n + 3) → K := Fin.cons 1 (Fin.cons th (fun _ => 0))

/-- vertex `i` of `Polygon.regular_polygon`: the word `a^i` applied to the start vertex -/
def polyVertex (c s th : K) : ℕ → Fin (n + 3) → K
  | 0 => polyStart th
  | i + 1 => rotApply c s (polyVertex c s th i)

/-- the argument of `sinh⁻¹∘√` in `regular_polygon_radius(n, a)`:
`(cos²(a/2) − sin²(π/n)) / (sin(a/2)·sin(π/n))²`, with `A = cos²(a/2)`, `g = sin²(π/n)` -/
def polyRadiusSinhSq (A g : K) : K := (A - g) / ((1 - A) * g)

/-- `sin²` of half the value of `polygon_interior_angle(n, r)`:
`(cos γ / √(1 + (sin γ · sinh r)²))²` with `g = sin² γ`, `S = sinh² r` -/
def polyAngleSinSq (g S : K) : K := (1 - g) / (1 + g * S)

/-- cosine of the interior angle of the regular polygon in terms of `g = sin²(π/n)`,
`S = sinh² r` -/
def polyAngleCos (g S : K) : K := (g * S - 1 + 2 * g) / (1 + g * S)

end GT.Targets
