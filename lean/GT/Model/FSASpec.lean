/-
Specification-level definitions for the FSA model: the coherence invariant of the three views
and the plain set model that every operation is proved to refine.  (No code of the library is
modelled here; `GT/Model/FSA.lean` is the executable model.)
-/
import GT.Model.FSA

set_option linter.unusedSectionVars false

namespace GT.FSA
variable {V L : Type} [DecidableEq V] [DecidableEq L]

/-- `_out_dict[v][w]` if the entry exists -/
def og (s : FSA V L) (v w : V) : Option (List L) := (s.out.get? v).bind (·.get? w)

/-- `_in_dict[w][v]` if the entry exists -/
def ig (s : FSA V L) (w v : V) : Option (List L) := (s.inn.get? w).bind (·.get? v)

/-- the three views are dictionaries of dictionaries: keys are distinct at both levels -/
structure KeysNodup (s : FSA V L) : Prop where
  graph : s.graph.keys.Nodup
  out : s.out.keys.Nodup
  inn : s.inn.keys.Nodup
  graphRow : ∀ v row, s.graph.get? v = some row → row.keys.Nodup
  outRow : ∀ v row, s.out.get? v = some row → row.keys.Nodup
  innRow : ∀ v row, s.inn.get? v = some row → row.keys.Nodup

/-- **Coherence of the three views.**  Same vertex set in the label view and the outgoing view
and the incoming view (a row per vertex from construction on, as repaired); the outgoing and incoming views hold the same entry for every ordered pair; a label is in
the entry `v → w` exactly when the label view sends `(v, label)` to `w`; no label is listed twice;
every target is a vertex. -/
structure Coherent (s : FSA V L) : Prop where
  keys : KeysNodup s
  verts : ∀ v, v ∈ s.graph.keys ↔ v ∈ s.out.keys
  innVerts : ∀ v, v ∈ s.inn.keys ↔ v ∈ s.out.keys
  io : ∀ v w, s.og v w = s.ig w v
  label : ∀ v l w, s.step v l = some w ↔ ∃ ls, s.og v w = some ls ∧ l ∈ ls
  nodup : ∀ v w ls, s.og v w = some ls → ls.Nodup
  closed : ∀ v w ls, s.og v w = some ls → w ∈ s.out.keys

/-- no entry of the outgoing view is an empty list (`recurrent` counts entries, not labels) -/
def NoEmpty (s : FSA V L) : Prop := ∀ v w ls, s.og v w = some ls → ls ≠ []

/-- coherent and without empty entries: the invariant of the class -/
def WF (s : FSA V L) : Prop := s.Coherent ∧ s.NoEmpty


/-! ### graph distance (for `remove_long_paths`) -/

/-- `Walk s r x n`: there is a walk of `n` edges of the label view from `r` to `x` -/
inductive Walk (s : FSA V L) (r : V) : V → Nat → Prop
  | zero : Walk s r r 0
  | succ {v w : V} {l : L} {n : Nat} : Walk s r v n → s.step v l = some w → Walk s r w (n + 1)

/-- `n` is the graph distance from `r` to `x` -/
def IsDist (s : FSA V L) (r x : V) (n : Nat) : Prop := Walk s r x n ∧ ∀ m, Walk s r x m → n ≤ m


/-! ### a fuel bound for `automaton_multiple` -/

/-- weight of a queue entry naming a vertex that has not been popped yet, when `u` vertices have not
been popped yet and every vertex has at most `D` walks of length `k` -/
def multA (D : Nat) : Nat → Nat
  | 0 => 0
  | u + 1 => 1 + D * (1 + D * multA D u)

/-- weight of a queue entry naming a vertex that has been popped before -/
def multB (D u : Nat) : Nat := 1 + D * multA D u

/-- enough fuel for `automaton_multiple`: `#starts · multA D #vertices` (exponential in `#vertices`) -/
def multFuel (s : FSA V L) (D : Nat) : Nat := s.starts.length * multA D s.out.length

/-! ### the plain set model -/

/-- a vertex set and a set of labelled edges `tail —label→ head`; nothing else -/
structure SetFSA (V L : Type) where
  verts : V → Prop
  edges : V → L → V → Prop

theorem SetFSA.ext' {m m' : SetFSA V L} (hv : ∀ v, m.verts v ↔ m'.verts v)
    (he : ∀ v l w, m.edges v l w ↔ m'.edges v l w) : m = m' := by
  cases m; cases m'
  congr
  · funext v; exact propext (hv v)
  · funext v l w; exact propext (he v l w)

/-- abstraction: the vertex set is read off the outgoing view (`vertices()`), the edge set off
the label view (`edges(with_labels=True)`) -/
def abs (s : FSA V L) : SetFSA V L := ⟨fun v => v ∈ s.out.keys, fun v l w => s.step v l = some w⟩

namespace SetFSA

def addVertices (m : SetFSA V L) (vs : List V) : SetFSA V L := ⟨fun v => m.verts v ∨ v ∈ vs, m.edges⟩

def addEdge (m : SetFSA V L) (t h : V) (l : L) : SetFSA V L :=
  ⟨fun v => m.verts v ∨ v = t ∨ v = h, fun v l' w => m.edges v l' w ∨ (v = t ∧ l' = l ∧ w = h)⟩

def addEdgeL (m : SetFSA V L) (t h : V) (ls : List L) : SetFSA V L :=
  ⟨fun v => m.verts v ∨ v = t ∨ v = h, fun v l' w => m.edges v l' w ∨ (v = t ∧ l' ∈ ls ∧ w = h)⟩

def addEdgesL (m : SetFSA V L) (es : List (V × V × List L)) : SetFSA V L :=
  es.foldl (fun m e => m.addEdgeL e.1 e.2.1 e.2.2) m

def addEdges (m : SetFSA V L) (es : List (V × V × L)) : SetFSA V L :=
  es.foldl (fun m e => m.addEdge e.1 e.2.1 e.2.2) m

def deleteVertex (m : SetFSA V L) (x : V) : SetFSA V L :=
  ⟨fun v => m.verts v ∧ v ≠ x, fun v l w => m.edges v l w ∧ v ≠ x ∧ w ≠ x⟩

def deleteVertices (m : SetFSA V L) (xs : List V) : SetFSA V L := xs.foldl deleteVertex m

/-- `S` has no dead ends inside `m`: every vertex of `S` has an edge to `S` and an edge from `S` -/
def NoDeadEnds (m : SetFSA V L) (S : V → Prop) : Prop :=
  ∀ v, S v → m.verts v ∧ (∃ l w, m.edges v l w ∧ S w) ∧ (∃ l u, m.edges u l v ∧ S u)

/-- the greatest vertex set without dead ends (union of all of them) -/
def core (m : SetFSA V L) : V → Prop := fun v => ∃ S, m.NoDeadEnds S ∧ S v

/-- the sub-automaton induced on a vertex set -/
def induced (m : SetFSA V L) (S : V → Prop) : SetFSA V L :=
  ⟨fun v => m.verts v ∧ S v, fun v l w => m.edges v l w ∧ S v ∧ S w⟩

def recurrent (m : SetFSA V L) : SetFSA V L := m.induced m.core

def rename (m : SetFSA V L) (f : Dict L L) : SetFSA V L :=
  ⟨m.verts, fun v l' w => ∃ l, f.get? l = some l' ∧ m.edges v l w⟩

/-- what the plain set model predicts for one operation -/
def applyOp (m : SetFSA V L) : Op V L → SetFSA V L
  | .addVertices vs => m.addVertices vs
  | .addEdges es _ => m.addEdges es
  | .addEdgesL es _ => m.addEdgesL es
  | .deleteVertex v => m.deleteVertex v
  | .deleteVertices vs => m.deleteVertices vs
  | .recurrent => m.recurrent
  | .rename f => m.rename f
  | .copy => m
  | .hasEdge _ _ => m

def run (m : SetFSA V L) (ops : List (Op V L)) : SetFSA V L := ops.foldl applyOp m

/-- the class's precondition for adding the labels `ls` on `t → h` one after the other: a new edge
never contradicts an existing `(tail, label)`, and with `ignore_redundant=False` it is new -/
def LabelsOK (ir : Bool) (t h : V) : SetFSA V L → List L → Prop
  | _, [] => True
  | m, l :: ls => (∀ w, m.edges t l w → w = h) ∧ (ir = false → ¬ m.edges t l h) ∧
      LabelsOK ir t h (m.addEdge t h l) ls

def EdgesLOK (ir : Bool) : SetFSA V L → List (V × V × List L) → Prop
  | _, [] => True
  | m, e :: es => LabelsOK ir e.1 e.2.1 m e.2.2 ∧ EdgesLOK ir (m.addEdgeL e.1 e.2.1 e.2.2) es

def DeletesOK : SetFSA V L → List V → Prop
  | _, [] => True
  | m, x :: xs => m.verts x ∧ DeletesOK (m.deleteVertex x) xs

/-- documented precondition of an operation in a state of the set model -/
def Pre (m : SetFSA V L) : Op V L → Prop
  | .addVertices _ => True
  | .addEdges es ir => EdgesLOK ir m (es.map fun e => (e.1, e.2.1, [e.2.2]))
  | .addEdgesL es ir => EdgesLOK ir m es
  | .deleteVertex v => m.verts v
  | .deleteVertices vs => DeletesOK m vs
  | .recurrent => True
  | .rename f => (∀ v l w, m.edges v l w → ∃ l', f.get? l = some l') ∧
      (∀ v l₁ w₁ l₂ w₂ l', m.edges v l₁ w₁ → m.edges v l₂ w₂ → f.get? l₁ = some l' → f.get? l₂ = some l' → l₁ = l₂)
  | .copy => True
  | .hasEdge t _ => m.verts t               -- the tail is a vertex (else `KeyError`)

/-- every operation of the history meets its precondition in the state it is applied to -/
def HistOK : SetFSA V L → List (Op V L) → Prop
  | _, [] => True
  | m, op :: ops => m.Pre op ∧ HistOK (m.applyOp op) ops

end SetFSA
end GT.FSA
