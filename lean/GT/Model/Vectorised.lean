/-
Literal `ND` models of the vectorised last-axis formulas of the library, written with the
same numpy idioms as the source, so that C04's lifting theorems
(`unitAt (f_vec a) i = f_unit (unitAt a i)`) are statements about the code's own shape
plumbing: `utils.apply_bilinear` / `normsq` (in `GT.Model.Obj`), the `(x.T * f.T).T`
idiom of the chart maps, `hyperbolic.poincare_to_kleinian`, `kleinian_to_poincare`,
`utils.normalize`.
-/
import GT.Model.Obj

namespace GT.Act
open ND

variable {K : Type} [Inhabited K]

/-- `(x.T * f.T).T`: scale every vector of `x` (last axis) by the scalar of `f` at the same
outer index (hyperbolic.py:2044, :2050, utils/core.py:453) -/
def scaleLast [Mul K] (x f : ND K) : Except String (ND K) :=
  match zipBcast (· * ·) x.T f.T with
  | .error e => .error e
  | .ok p => .ok p.T

/-- `np.atleast_1d` -/
def atleast1d (a : ND K) : ND K := if a.shape = [] then ⟨[1], a.data⟩ else a

/-- `utils.normsq(v)` with the Euclidean form -/
def normsqND [Add K] [Mul K] [Zero K] (v : ND K) : Except String (ND K) := applyBilinear v v none

/-- `hyperbolic.poincare_to_kleinian(points)`:
`euc_norms = atleast_1d(normsq(points)); mult = 2 / (1 + euc_norms); (points.T * mult.T).T` -/
def p2kND [Add K] [Mul K] [Zero K] [One K] [Div K] [OfNat K 2] (x : ND K) : Except String (ND K) :=
  match normsqND x with
  | .error e => .error e
  | .ok nn => scaleLast x ((atleast1d nn).map fun a => 2 / (1 + a))

/-- `hyperbolic.kleinian_to_poincare(points)`:
`mult = 1 / (1 + sqrt(abs(1 - euc_norms)))`; `rabs x` stands for `sqrt(abs(x))` -/
def k2pND [Add K] [Mul K] [Zero K] [One K] [Div K] [Sub K] (rabs : K → K) (x : ND K) :
    Except String (ND K) :=
  match normsqND x with
  | .error e => .error e
  | .ok nn => scaleLast x ((atleast1d nn).map fun a => 1 / (1 + rabs (1 - a)))

/-- `utils.normalize(vectors, form)`:
`sq = normsq(vectors, form); d = sqrt(abs(expand_dims(sq, -1)))`;
`np.divide(vectors, d, out=vectors, where=(d != 0))` — returns the new value of `vectors` -/
def normalizeLit [Add K] [Mul K] [Zero K] [Div K] [DecidableEq K] (rabs : K → K) (v form : ND K) :
    Except String (ND K) :=
  match applyBilinear v v (some form) with
  | .error e => .error e
  | .ok sq =>
    let d := (sq.map rabs).expandRange sq.rank 1
    zipBcast (fun x y => if y = 0 then x else x / y) v d

/-- `hyperbolic.poincare_to_halfspace(points)` (hyperbolic.py:2052):
`y = points[..., 0]; v = points[..., 1:]; x2 = normsq(v); denom = x2 + (y-1)*(y-1)`;
`hs = zeros_like(points); hs[..., :-1] = (-2*v) / denom[..., newaxis]; hs[..., -1] = (1 - x2 - y*y) / denom`.
(A composition of entrywise ufuncs on two arrays of one shape is written as one binary entrywise function.) -/
def p2hND [Add K] [Mul K] [Zero K] [One K] [Div K] [Sub K] [Neg K] [OfNat K 2] (x : ND K) :
    Except String (ND K) :=
  let n := x.shape.getLastD 0
  let y := x.selectLast 0
  let v := x.sliceLast 1 n
  match normsqND v with
  | .error e => .error e
  | .ok x2 =>
    match zipBcast (fun a t => a + (t - 1) * (t - 1)) x2 y, zipBcast (fun a t => 1 - a - t * t) x2 y with
    | .ok denom, .ok num =>
      match zipBcast (· / ·) (v.map fun t => -2 * t) (denom.expandRange denom.rank 1),
            zipBcast (· / ·) num denom with
      | .ok A, .ok B => .ok (((full x.shape 0).setLastSlice 0 (n - 1) A).setLastIndex (n - 1) B)
      | .error e, _ => .error e
      | _, .error e => .error e
    | .error e, _ => .error e
    | _, .error e => .error e

/-- `hyperbolic.halfspace_to_poincare(points)` (hyperbolic.py:2066):
`y = points[..., -1]; v = points[..., :-1]; x2 = normsq(v); denom = x2 + (y+1)*(y+1)`;
`pc = zeros_like(points); pc[..., 1:] = (-2*v) / denom[..., newaxis]; pc[..., 0] = (x2 + y*y - 1) / denom` -/
def h2pND [Add K] [Mul K] [Zero K] [One K] [Div K] [Sub K] [Neg K] [OfNat K 2] (x : ND K) :
    Except String (ND K) :=
  let n := x.shape.getLastD 0
  let y := x.selectLast (n - 1)
  let v := x.sliceLast 0 (n - 1)
  match normsqND v with
  | .error e => .error e
  | .ok x2 =>
    match zipBcast (fun a t => a + (t + 1) * (t + 1)) x2 y, zipBcast (fun a t => a + t * t - 1) x2 y with
    | .ok denom, .ok num =>
      match zipBcast (· / ·) (v.map fun t => -2 * t) (denom.expandRange denom.rank 1),
            zipBcast (· / ·) num denom with
      | .ok A, .ok B => .ok (((full x.shape 0).setLastSlice 1 n A).setLastIndex 0 B)
      | .error e, _ => .error e
      | _, .error e => .error e
    | .error e, _ => .error e
    | _, .error e => .error e

/-- `projective.affine_coords(points, chart_index=c)` past the chart test (projective.py:1496):
`np.delete((apoints.T / apoints.T[c]).T, c, axis=-1)` -/
def affineCoordsND [Div K] (x : ND K) (c : Nat) : Except String (ND K) :=
  match zipBcast (· / ·) x.T (x.T.sub [c]) with
  | .error e => .error e
  | .ok q => .ok (q.T.deleteLast c)

/-- `projective.projective_coords(points, chart_index=c)` (projective.py:1509):
`result = zeros(shape[:-1] + (n+1,)); indices = arange(n); indices[c:] += 1`;
`result[..., indices] = coords; result[..., c] = 1` -/
def projCoordsND [Zero K] [One K] (a : ND K) (c : Nat) : ND K :=
  let n := a.shape.getLastD 0
  let indices := (List.range n).map fun j => if j < c then j else j + 1
  ((full (a.shape.dropLast ++ [n + 1]) (0 : K)).setLastIdx indices a).setLastConst c 1

/-- `hyperbolic.minkowski(n)` as an array -/
def minkND [Zero K] [One K] [Neg K] (n : Nat) : ND K :=
  ofFn [n, n] (fun ix => if ix.getD 0 0 = ix.getD 1 0 then (if ix.getD 0 0 = 0 then -1 else 1) else 0)

/-- `hyperbolic.Segment._compute_aux_data(end_data)` (hyperbolic.py:945), literally:
`products = end_data @ minkowski(dim) @ end_data.swapaxes(-1, -2)`;
`a11, a22, a12 = products[..., 0, 0], products[..., 1, 1], products[..., 0, 1]`;
`a = a11 - 2*a12 + a22; b = 2*a12 - 2*a22; c = a22`;
`mu± = (-b ± sqrt(b*b - 4*a*c)) / (2*a)`;
`null± = mu±[..., newaxis] * end_data[..., 0, :] + (1 - mu±)[..., newaxis] * end_data[..., 1, :]`;
`np.stack([null1, null2], axis=-2)`.  `r` is the square root. -/
def segmentAuxND [Add K] [Mul K] [Zero K] [One K] [Neg K] [Sub K] [Div K] [OfNat K 2] [OfNat K 4]
    (r : K → K) (e : ND K) : Except String (ND K) := do
  let n := e.shape.getLastD 0
  let ol := e.rank - 2
  let m1 ← matmul e (minkND n)
  let pr ← matmul m1 (e.swapaxes (e.rank - 1) (e.rank - 2))
  let a11 := (pr.selectLast 0).selectLast 0
  let a22 := (pr.selectLast 1).selectLast 1
  let a12 := (pr.selectLast 1).selectLast 0
  let t ← zipBcast (fun x y => x - 2 * y) a11 a12
  let a ← zipBcast (· + ·) t a22
  let b ← zipBcast (fun x y => 2 * x - 2 * y) a12 a22
  let ac ← zipBcast (fun x y => 4 * x * y) a a22
  let disc ← zipBcast (fun x y => x * x - y) b ac
  let num1 ← zipBcast (fun x d => -x + r d) b disc
  let mu1 ← zipBcast (fun p x => p / (2 * x)) num1 a
  let num2 ← zipBcast (fun x d => -x - r d) b disc
  let mu2 ← zipBcast (fun p x => p / (2 * x)) num2 a
  let e0 := e.selectAxis ol 0
  let e1 := e.selectAxis ol 1
  let p10 ← zipBcast (fun x m => m * x) e0 (mu1.expandRange mu1.rank 1)
  let p11 ← zipBcast (fun x m => (1 - m) * x) e1 (mu1.expandRange mu1.rank 1)
  let n1 ← zipBcast (· + ·) p10 p11
  let p20 ← zipBcast (fun x m => m * x) e0 (mu2.expandRange mu2.rank 1)
  let p21 ← zipBcast (fun x m => (1 - m) * x) e1 (mu2.expandRange mu2.rank 1)
  let n2 ← zipBcast (· + ·) p20 p21
  ND.stack [n1, n2] ol

end GT.Act
