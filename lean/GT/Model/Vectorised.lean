/-
Literal `ND` models of the vectorised last-axis formulas of the library, written with the
same numpy idioms as the source, so that C04's lifting theorems
(`unitAt (f_vec a) i = f_unit (unitAt a i)`) are statements about the code's own shape
plumbing: `utils.apply_bilinear` / `normsq` (in `GT.Model.Obj`), the `(x.T * f.T).T`
idiom of the chart maps, `hyperbolic.poincare_to_kleinian`, `kleinian_to_poincare`,
`utils.normalize`.
-/
import GT.Model.Obj

namespace GT.Act
open ND

variable {K : Type} [Inhabited K]

/-- `(x.T * f.T).T`: scale every vector of `x` (last axis) by the scalar of `f` at the same
outer index (hyperbolic.py:2044, :2050, utils/core.py:453) -/
def scaleLast [Mul K] (x f : ND K) : Except String (ND K) :=
  match zipBcast (· * ·) x.T f.T with
  | .error e => .error e
  | .ok p => .ok p.T

/-- `np.atleast_1d` -/
def atleast1d (a : ND K) : ND K := if a.shape = [] then ⟨[1], a.data⟩ else a

/-- `utils.normsq(v)` with the Euclidean form -/
def normsqND [Add K] [Mul K] [Zero K] (v : ND K) : Except String (ND K) := applyBilinear v v none

/-- `hyperbolic.poincare_to_kleinian(points)`:
`euc_norms = atleast_1d(normsq(points)); mult = 2 / (1 + euc_norms); (points.T * mult.T).T` -/
def p2kND [Add K] [Mul K] [Zero K] [One K] [Div K] [OfNat K 2] (x : ND K) : Except String (ND K) :=
  match normsqND x with
  | .error e => .error e
  | .ok nn => scaleLast x ((atleast1d nn).map fun a => 2 / (1 + a))

/-- `hyperbolic.kleinian_to_poincare(points)`:
`mult = 1 / (1 + sqrt(abs(1 - euc_norms)))`; `rabs x` stands for `sqrt(abs(x))` -/
def k2pND [Add K] [Mul K] [Zero K] [One K] [Div K] [Sub K] (rabs : K → K) (x : ND K) :
    Except String (ND K) :=
  match normsqND x with
  | .error e => .error e
  | .ok nn => scaleLast x ((atleast1d nn).map fun a => 1 / (1 + rabs (1 - a)))

/-- `utils.normalize(vectors, form)`:
`sq = normsq(vectors, form); d = sqrt(abs(expand_dims(sq, -1)))`;
`np.divide(vectors, d, out=vectors, where=(d != 0))` — returns the new value of `vectors` -/
def normalizeLit [Add K] [Mul K] [Zero K] [Div K] [DecidableEq K] (rabs : K → K) (v form : ND K) :
    Except String (ND K) :=
  match applyBilinear v v (some form) with
  | .error e => .error e
  | .ok sq =>
    let d := (sq.map rabs).expandRange sq.rank 1
    zipBcast (fun x y => if y = 0 then x else x / y) v d

/-- `hyperbolic.poincare_to_halfspace(points)` (hyperbolic.py:2052):
`y = points[..., 0]; v = points[..., 1:]; x2 = normsq(v); denom = x2 + (y-1)*(y-1)`;
`hs = zeros_like(points); hs[..., :-1] = (-2*v) / denom[..., newaxis]; hs[..., -1] = (1 - x2 - y*y) / denom`.
(A composition of entrywise ufuncs on two arrays of one shape is written as one binary entrywise function.) -/
def p2hND [Add K] [Mul K] [Zero K] [One K] [Div K] [Sub K] [Neg K] [OfNat K 2] (x : ND K) :
    Except String (ND K) :=
  let n := x.shape.getLastD 0
  let y := x.selectLast 0
  let v := x.sliceLast 1 n
  match normsqND v with
  | .error e => .error e
  | .ok x2 =>
    match zipBcast (fun a t => a + (t - 1) * (t - 1)) x2 y, zipBcast (fun a t => 1 - a - t * t) x2 y with
    | .ok denom, .ok num =>
      match zipBcast (· / ·) (v.map fun t => -2 * t) (denom.expandRange denom.rank 1),
            zipBcast (· / ·) num denom with
      | .ok A, .ok B => .ok (((full x.shape 0).setLastSlice 0 (n - 1) A).setLastIndex (n - 1) B)
      | .error e, _ => .error e
      | _, .error e => .error e
    | .error e, _ => .error e
    | _, .error e => .error e

/-- `hyperbolic.halfspace_to_poincare(points)` (hyperbolic.py:2066):
`y = points[..., -1]; v = points[..., :-1]; x2 = normsq(v); denom = x2 + (y+1)*(y+1)`;
`pc = zeros_like(points); pc[..., 1:] = (-2*v) / denom[..., newaxis]; pc[..., 0] = (x2 + y*y - 1) / denom` -/
def h2pND [Add K] [Mul K] [Zero K] [One K] [Div K] [Sub K] [Neg K] [OfNat K 2] (x : ND K) :
    Except String (ND K) :=
  let n := x.shape.getLastD 0
  let y := x.selectLast (n - 1)
  let v := x.sliceLast 0 (n - 1)
  match normsqND v with
  | .error e => .error e
  | .ok x2 =>
    match zipBcast (fun a t => a + (t + 1) * (t + 1)) x2 y, zipBcast (fun a t => a + t * t - 1) x2 y with
    | .ok denom, .ok num =>
      match zipBcast (· / ·) (v.map fun t => -2 * t) (denom.expandRange denom.rank 1),
            zipBcast (· / ·) num denom with
      | .ok A, .ok B => .ok (((full x.shape 0).setLastSlice 1 n A).setLastIndex 0 B)
      | .error e, _ => .error e
      | _, .error e => .error e
    | .error e, _ => .error e
    | _, .error e => .error e

/-- `projective.affine_coords(points, chart_index=c)` past the chart test (projective.py:1496):
`np.delete((apoints.T / apoints.T[c]).T, c, axis=-1)` -/
def affineCoordsND [Div K] (x : ND K) (c : Nat) : Except String (ND K) :=
  match zipBcast (· / ·) x.T (x.T.sub [c]) with
  | .error e => .error e
  | .ok q => .ok (q.T.deleteLast c)

/-- `projective.projective_coords(points, chart_index=c)` (projective.py:1509):
`result = zeros(shape[:-1] + (n+1,)); indices = arange(n); indices[c:] += 1`;
`result[..., indices] = coords; result[..., c] = 1` -/
def projCoordsND [Zero K] [One K] (a : ND K) (c : Nat) : ND K :=
  let n := a.shape.getLastD 0
  let indices := (List.range n).map fun j => if j < c then j else j + 1
  ((full (a.shape.dropLast ++ [n + 1]) (0 : K)).setLastIdx indices a).setLastConst c 1

end GT.Act
