/-
Literal `ND` models of the vectorised last-axis formulas of the library, written with the
same numpy idioms as the source, so that C04's lifting theorems
(`unitAt (f_vec a) i = f_unit (unitAt a i)`) are statements about the code's own shape
plumbing: `utils.apply_bilinear` / `normsq` (in `GT.Model.Obj`), the `(x.T * f.T).T`
idiom of the chart maps, `hyperbolic.poincare_to_kleinian`, `kleinian_to_poincare`,
`utils.normalize`.
-/
import GT.Model.Obj

namespace GT.Act
open ND

variable {K : Type} [Inhabited K]

/-- `(x.T * f.T).T`: scale every vector of `x` (last axis) by the scalar of `f` at the same
outer index (hyperbolic.py:2044, :2050, utils/core.py:453) -/
def scaleLast [Mul K] (x f : ND K) : Except String (ND K) :=
  match zipBcast (· * ·) x.T f.T with
  | .error e => .error e
  | .ok p => .ok p.T

/-- `np.atleast_1d` -/
def atleast1d (a : ND K) : ND K := if a.shape = [] then ⟨[1], a.data⟩ else a

/-- `utils.normsq(v)` with the Euclidean form -/
def normsqND [Add K] [Mul K] [Zero K] (v : ND K) : Except String (ND K) := applyBilinear v v none

/-- `hyperbolic.poincare_to_kleinian(points)`:
`euc_norms = atleast_1d(normsq(points)); mult = 2 / (1 + euc_norms); (points.T * mult.T).T` -/
def p2kND [Add K] [Mul K] [Zero K] [One K] [Div K] [OfNat K 2] (x : ND K) : Except String (ND K) :=
  match normsqND x with
  | .error e => .error e
  | .ok nn => scaleLast x ((atleast1d nn).map fun a => 2 / (1 + a))

/-- `hyperbolic.kleinian_to_poincare(points)`:
`mult = 1 / (1 + sqrt(abs(1 - euc_norms)))`; `rabs x` stands for `sqrt(abs(x))` -/
def k2pND [Add K] [Mul K] [Zero K] [One K] [Div K] [Sub K] (rabs : K → K) (x : ND K) :
    Except String (ND K) :=
  match normsqND x with
  | .error e => .error e
  | .ok nn => scaleLast x ((atleast1d nn).map fun a => 1 / (1 + rabs (1 - a)))

/-- `utils.normalize(vectors, form)`:
`sq = normsq(vectors, form); d = sqrt(abs(expand_dims(sq, -1)))`;
`np.divide(vectors, d, out=vectors, where=(d != 0))` — returns the new value of `vectors` -/
def normalizeLit [Add K] [Mul K] [Zero K] [Div K] [DecidableEq K] (rabs : K → K) (v form : ND K) :
    Except String (ND K) :=
  match applyBilinear v v (some form) with
  | .error e => .error e
  | .ok sq =>
    let d := (sq.map rabs).expandRange sq.rank 1
    zipBcast (fun x y => if y = 0 then x else x / y) v d

end GT.Act
