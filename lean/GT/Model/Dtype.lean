/-
Finite decision model of the library's dtype inference (C12, first half).

Mirrors `geometry_tools/utils/types.py` (`_dtype`, `is_linalg_type`, `inexact_type`),
`geometry_tools/utils/core.py` (`check_type`, `number`, `array_like`, `zeros`, `identity`,
`rotation_matrix`) and the constructors that forward `like=` (`hyperbolic.Isometry.elliptic`,
`standard_rotation`, `sl2_iso`, `IdealPoint.from_angle`, `Polygon.regular_polygon`,
`projective.ProjectiveObject.set`, `projective_coords`, `coxeter.CoxeterGroup.bilinear_form`,
`cartan_representation`), all with `SAGE_AVAILABLE = False` and `base_ring = None` (the Sage
branches are not modelled).

`np.can_cast`, `np.asarray(x).dtype`, `np.array(x, dtype=…)` and type promotion are NumPy's
documented behaviour written as tables.  The `major = 2` rows are validated on every run
against the installed NumPy by `props/C12.py`; the `major = 1` rows (value-based casting of
Python scalars, NumPy < 2) cannot be executed here and are trusted.

No Mathlib: everything is decidable by evaluation (`decide +kernel`).
-/

namespace GT.Dtype

/-- the dtypes that occur -/
inductive Dt | int64 | float32 | float64 | complex128 | object
  deriving DecidableEq, Repr, Inhabited

/-- a Python number class -/
inductive PyNum | int | float | complex
  deriving DecidableEq, Repr

inductive Rank | r0 | r1 | r2
  deriving DecidableEq, Repr

inductive Depth | d1 | d2
  deriving DecidableEq, Repr

/-- how one numeric value can be handed to the library -/
inductive Pack
  | pyInt | pyFloat | pyComplex
  /-- `np.int64(v)`, `np.float32(v)`, … -/
  | npScalar (d : Dt)
  /-- `np.array(v, dtype=d)` of rank 0, 1 or 2 -/
  | arr (rank : Rank) (d : Dt)
  /-- list (`d1`) / nested list (`d2`) of Python numbers of one class -/
  | list (depth : Depth) (e : PyNum)
  /-- any object NumPy cannot read as a number (a Sage expression, `object()`) -/
  | other
  deriving DecidableEq, Repr

inductive Err | typeError
  deriving DecidableEq, Repr

def Dt.all : List Dt := [.int64, .float32, .float64, .complex128, .object]
def PyNum.all : List PyNum := [.int, .float, .complex]
def Rank.all : List Rank := [.r0, .r1, .r2]
def Depth.all : List Depth := [.d1, .d2]

/-- every packaging (the quantifier of the dtype theorems *is* this table) -/
def Pack.all : List Pack :=
  [.pyInt, .pyFloat, .pyComplex] ++ Dt.all.map .npScalar ++
  (Rank.all.flatMap fun r => Dt.all.map (.arr r)) ++
  (Depth.all.flatMap fun d => PyNum.all.map (.list d)) ++ [.other]

theorem Pack.mem_all (p : Pack) : p ∈ Pack.all := by
  cases p with
  | pyInt => decide
  | pyFloat => decide
  | pyComplex => decide
  | other => decide
  | npScalar d => cases d <;> decide
  | arr r d => cases r <;> cases d <;> decide
  | list k e => cases k <;> cases e <;> decide

theorem Pack.forall_iff (P : Pack → Prop) : (∀ p, P p) ↔ ∀ p ∈ Pack.all, P p :=
  ⟨fun h p _ => h p, fun h p => h p (Pack.mem_all p)⟩

/-! ## NumPy as tables -/

def PyNum.dt : PyNum → Dt
  | .int => .int64 | .float => .float64 | .complex => .complex128

/-- `x.dtype` (raises `AttributeError` = `none` for Python objects) -/
def Pack.dtypeAttr : Pack → Option Dt
  | .npScalar d => some d
  | .arr _ d => some d
  | _ => none

/-- `np.asarray(x).dtype` -/
def Pack.asarrayDtype : Pack → Dt
  | .pyInt => .int64 | .pyFloat => .float64 | .pyComplex => .complex128
  | .npScalar d => d
  | .arr _ d => d
  | .list _ e => e.dt
  | .other => .object

/-- `np.array(x).ndim` as far as the model needs it (`from_angle` keeps it) -/
def Pack.rank : Pack → Rank
  | .arr r _ => r
  | .list .d1 _ => .r1
  | .list .d2 _ => .r2
  | _ => .r0

/-- `np.can_cast(from_dtype, to_dtype)` with the default `casting='safe'` -/
def castDt : Dt → Dt → Bool
  | .int64, .int64 | .int64, .float64 | .int64, .complex128 => true
  | .float32, .float32 | .float32, .float64 | .float32, .complex128 => true
  | .float64, .float64 | .float64, .complex128 => true
  | .complex128, .complex128 => true
  | _, .object => true
  | _, _ => false

/-- `np.result_type(a, b)` for two arrays -/
def promote : Dt → Dt → Dt
  | .object, _ | _, .object => .object
  | .complex128, _ | _, .complex128 => .complex128
  | .float64, _ | _, .float64 => .float64
  | .int64, .float32 | .float32, .int64 => .float64
  | .float32, .float32 => .float32
  | .int64, .int64 => .int64

/-- the three cast targets the library ever names: `int`, `float`, `np.dtype("complex")` -/
inductive Target | int | float | complex
  deriving DecidableEq, Repr

def Target.dt : Target → Dt
  | .int => .int64 | .float => .float64 | .complex => .complex128

/-- first argument of `np.can_cast`: a dtype object, or the caller's value itself -/
inductive From
  | dtype (d : Dt)
  | obj (p : Pack)

/-- `np.can_cast(from_, to)`.
* a dtype (or dtype string): the safe-casting table, every NumPy version;
* a NumPy scalar or array: NumPy ≥ 2 uses its dtype; NumPy 1 used value-based casting for
  scalars and 0-d arrays, which agrees with the table for the three targets above (they are
  the widest types of their kind);
* a Python `int`/`float`/`complex`: **`TypeError` under NumPy ≥ 2** (NEP 50); value-based under
  NumPy 1, where the value's default dtype decides for these targets;
* a list or an arbitrary object: `TypeError` (not a dtype specifier) in every version. -/
def canCast (major : Nat) : From → Target → Except Err Bool
  | .dtype d, t => pure (castDt d t.dt)
  | .obj (.npScalar d), t => pure (castDt d t.dt)
  | .obj (.arr _ d), t => pure (castDt d t.dt)
  | .obj .pyInt, t => if major ≥ 2 then throw .typeError else pure (castDt .int64 t.dt)
  | .obj .pyFloat, t => if major ≥ 2 then throw .typeError else pure (castDt .float64 t.dt)
  | .obj .pyComplex, t => if major ≥ 2 then throw .typeError else pure (castDt .complex128 t.dt)
  | .obj (.list _ _), _ => throw .typeError
  | .obj .other, _ => throw .typeError

/-- Python's `a or b` on two calls that may raise (short-circuit) -/
def orM (a b : Except Err Bool) : Except Err Bool := do
  if (← a) then pure true else b

/-- `try: return <e> except TypeError: return False` -/
def orFalse (e : Except Err Bool) : Bool :=
  match e with
  | .ok b => b
  | .error _ => false

/-! ## `utils/types.py` — the ORIGINAL (pinned) logic, kept to document defect D2 -/

/-- pinned `types.is_linalg_type(x)`: `np.can_cast(x, complex) or np.can_cast(x, float)`,
`False` on `TypeError` -/
def isLinalgTypePinned (major : Nat) (x : Pack) : Bool :=
  orFalse (orM (canCast major (.obj x) .complex) (canCast major (.obj x) .float))

/-- pinned `types.inexact_type(x)` -/
def inexactTypePinned (major : Nat) (x : Pack) : Bool :=
  orFalse (do
    let i ← canCast major (.obj x) .int
    if i then pure false else orM (canCast major (.obj x) .complex) (canCast major (.obj x) .float))

/-! ## `utils/types.py` — the REPAIRED logic (probes `np.asarray(x).dtype`) -/

/-- `types._dtype(x)`: `x.dtype`, else `np.asarray(x).dtype` -/
def probeDtype (x : Pack) : Dt :=
  match x.dtypeAttr with
  | some d => d
  | none => x.asarrayDtype

/-- repaired `types.is_linalg_type(x)` -/
def isLinalgType (major : Nat) (x : Pack) : Bool :=
  let d := probeDtype x
  orFalse (orM (canCast major (.dtype d) .complex) (canCast major (.dtype d) .float))

/-- repaired `types.inexact_type(x)` -/
def inexactType (major : Nat) (x : Pack) : Bool :=
  let d := probeDtype x
  orFalse (do
    let i ← canCast major (.dtype d) .int
    if i then pure false else orM (canCast major (.dtype d) .complex) (canCast major (.dtype d) .float))

/-! ## `utils/core.py` -/

/-- which `types.py` is installed: the library code below is the same for both -/
structure Lib where
  major : Nat
  isLinalg : Pack → Bool

def Lib.repaired (major : Nat) : Lib := ⟨major, isLinalgType major⟩
def Lib.pinned (major : Nat) : Lib := ⟨major, isLinalgTypePinned major⟩

/-- `utils.check_type(base_ring=None, dtype, like, default_dtype='float64', integer_type)`
without Sage: returns the dtype. -/
def checkType (L : Lib) (dtype : Option Dt) (like : Option Pack) (integerType : Bool) :
    Except Err Dt := do
  -- if like is not None: try: (if dtype is None: dtype = like.dtype)
  --                      except AttributeError: (if not is_linalg_type(like): dtype = object)
  let dtype : Option Dt :=
    match like with
    | none => dtype
    | some l =>
      match dtype with
      | some d => some d
      | none =>
        match l.dtypeAttr with
        | some d => some d
        | none => if !L.isLinalg l then some .object else none
  -- elif dtype is None: dtype = default_dtype
  let dtype : Dt := match dtype with | some d => d | none => .float64
  -- if not integer_type and np.can_cast(dtype, int): dtype = float64
  if !integerType && (← canCast L.major (.dtype dtype) .int) then pure .float64 else pure dtype

/-- `np.array(x, dtype=dt)`: the resulting dtype, or the `TypeError` raised when a Python
complex number or an opaque object has to become a real number -/
def npArray (x : Pack) (dt : Dt) : Except Err Dt :=
  let bad : Bool := match x with
    | .pyComplex | .list _ .complex => !(dt == .complex128 || dt == .object)
    | .other => dt != .object
    | _ => false
  if bad then throw .typeError else pure dt

/-- `utils.array_like(array, like=None, dtype=None, integer_type=False)` -/
def arrayLike (L : Lib) (array : Pack) (like : Option Pack := none) (dtype : Option Dt := none)
    (integerType : Bool := false) : Except Err Dt := do
  let like := match like with | some l => l | none => array
  let dt ← checkType L dtype (some like) integerType
  npArray array dt

/-- `utils.zeros(shape, dtype=None, like=None, integer_type=True)` -/
def zeros (L : Lib) (like : Option Pack := none) (dtype : Option Dt := none)
    (integerType : Bool := true) : Except Err Dt :=
  checkType L dtype like integerType

/-- `utils.identity(n, dtype=None, like=None, integer_type=True)` -/
def identity (L : Lib) (like : Option Pack := none) (dtype : Option Dt := none)
    (integerType : Bool := true) : Except Err Dt :=
  checkType L dtype like integerType

/-- `a.item()` for an array `a` of dtype `d` made from `val`: a *Python* scalar -/
def itemOf (val : Pack) : Dt → Pack
  | .int64 => .pyInt
  | .float32 | .float64 => .pyFloat
  | .complex128 => .pyComplex
  | .object => match val with
    | .npScalar d => (match d with
        | .int64 => .pyInt | .float32 | .float64 => .pyFloat | .complex128 => .pyComplex
        | .object => .other)
    | v => v

/-- `utils.number(val, like=None, dtype=None)` without Sage is
`np.array(val).astype(dtype).item()`: a *Python* scalar; `like` is ignored.
(`astype(object)` boxes the array's own scalars, so `dtype=object` keeps the kind of `val`.) -/
def number (val : Pack) (dtype : Option Dt := none) : Pack :=
  match dtype with
  | none => itemOf val val.asarrayDtype
  | some .object => itemOf val val.asarrayDtype
  | some d => itemOf val d

/-- `utils.rotation_matrix(angle, like=None)`:
`array_like([[cos, -sin], [sin, cos]], like=angle)`; the nested list holds NumPy floats -/
def rotationMatrix (L : Lib) (angle : Pack) (like : Option Pack := none) : Except Err Dt :=
  let like := match like with | some l => l | none => angle
  arrayLike L (.list .d2 .float) (some like)

/-! ## constructors that forward `like=` (repaired call sites D16, D17; see DESIGN §5) -/

/-- `Isometry.elliptic(dimension, block_elliptic, like=None)`:
`zeros(..., like=like, integer_type=False)`, `mat[0,0] = number(1)`, `mat[1:,1:] = block`
(assignment casts into `mat`), then `Isometry(mat, column_vectors=True)` keeps the dtype -/
def elliptic (L : Lib) (block : Pack) (like : Option Pack := none) : Except Err Dt := do
  let like := match like with | some l => l | none => block
  let mat ← zeros L (some like) none false
  let _one := number .pyInt
  pure mat

/-- `Isometry.standard_rotation(angle, dimension, like=None)` -/
def standardRotation (L : Lib) (angle : Pack) : Except Err Dt := do
  let like := angle
  let affine ← identity L (some like) none false
  let _rot ← rotationMatrix L angle (some like)      -- assigned into `affine[0:2,0:2]`
  elliptic L (.arr .r2 affine) (some like)

/-- the D17 call sites as they were (`integer_type` left at its default `True`) -/
def standardRotationPinned (L : Lib) (angle : Pack) : Except Err Dt := do
  let like := angle
  let _affine ← identity L (some like) none true
  let _rot ← rotationMatrix L angle (some like)
  zeros L (some like) none true

/-- `lie.sl2_to_so21(A)` for an array `A` of dtype `a`:
`permutation @ killing_conj @ sl2_irrep(A, 3) @ invert(killing_conj) @ permutation` -/
def sl2ToSo21 (L : Lib) (a : Dt) : Except Err Dt := do
  let A := Pack.arr .r2 a
  let kc ← arrayLike L (.list .d2 .int) (some A)
  let perm ← zeros L (some A) none true       -- utils.permutation_matrix(…, like=A)
  pure (promote perm (promote kc (promote a (promote kc perm))))

/-- `hyperbolic.sl2_iso(matrix)` -/
def sl2Iso (L : Lib) (matrix : Pack) : Except Err Dt := do
  let m ← arrayLike L matrix
  sl2ToSo21 L m

/-- `IdealPoint.from_angle(theta)`: `like = np.array(theta)`,
`zeros(shape, like=like, integer_type=False)` -/
def fromAngle (L : Lib) (theta : Pack) : Except Err Dt :=
  zeros L (some (.arr theta.rank theta.asarrayDtype)) none false

/-- the D16 call site as it was -/
def fromAnglePinned (L : Lib) (theta : Pack) : Except Err Dt :=
  zeros L (some (.arr theta.rank theta.asarrayDtype)) none true

/-- `ProjectiveObject.set(proj_data)`: `np.array(proj_data)` — the constructor of `Point`,
`Transformation`, `Isometry`, … for data given in projective coordinates -/
def setData (x : Pack) : Dt := x.asarrayDtype

/-- `projective.projective_coords(points)` then `set`: `Point(coords, model="klein")`,
`projective.Point(coords, chart_index=0)` -/
def pointFromAffine (L : Lib) (coords : Pack) : Except Err Dt := do
  let c := Pack.arr coords.rank coords.asarrayDtype        -- coords = np.array(points)
  let result ← zeros L (some c) none true
  let _one := number .pyInt
  pure (setData (.arr coords.rank result))

/-- repaired `utils.normalize(vectors)` (D18): integer data is normalised in a float64 copy -/
def normalizeDt (L : Lib) (d : Dt) : Except Err Dt := do
  if (← canCast L.major (.dtype d) .int) then pure .float64 else pure d

/-- `Point(x).hyperboloid_coords()` / the argument of `arccosh` in `distance` /
row 0 of `origin_to` -/
def pointHyperboloid (L : Lib) (x : Pack) : Except Err Dt := normalizeDt L (setData x)

/-- `Transformation(m).inv()`: `np.linalg.inv` computes in floating point -/
def invDt : Dt → Dt
  | .int64 => .float64
  | d => d

/-- `Polygon.regular_polygon(n, radius=r)`: every array on the way is created without
`like=` (default `float64`); the radius only enters through `hyp_to_affine_dist(np.array(r))`,
which is assigned into a `float64` array -/
def regularPolygon (L : Lib) (_radius : Pack) : Except Err Dt := do
  let origin ← zeros L none none true                          -- Point.get_origin
  let originPt ← pointFromAffine L (.arr .r1 origin)
  let klein ← zeros L (some (.arr .r2 originPt)) none true    -- point_along: zeros(like=proj_data)
  let start ← pointFromAffine L (.arr .r1 klein)
  let rot ← standardRotation L .pyFloat                        -- 2 * pi / n is a Python float
  pure (promote start rot)

/-- `Isometry.standard_loxodromic(dimension, parameter)`:
`np.diag(np.concatenate(([parameter, 1.0/parameter], np.ones(dimension - 1))))` conjugated by the
`float64` basis change -/
def standardLoxodromic (_L : Lib) (parameter : Pack) : Except Err Dt := do
  let diag := promote (promote parameter.asarrayDtype .float64) .float64     -- [p, 1.0/p] ++ ones
  pure (promote .float64 (promote diag .float64))

/-- `TangentVector.point_along(distance)` for the base tangent vector: `zeros(like=proj_data)`,
`kleinian_pt[..., 0] = hyp_to_affine_dist(distance)` (cast on assignment), `Point(…, KLEIN)`, then
`origin_to().apply(…)` -/
def pointAlongDt (L : Lib) (_distance : Pack) : Except Err Dt := do
  let base ← zeros L none none true                            -- get_base_tangent: float64 data
  let klein ← zeros L (some (.arr .r2 base)) none true
  let pt ← pointFromAffine L (.arr .r1 klein)
  pure (promote pt base)

/-- `CoxeterGroup(matrix=m).bilinear_form()` and `cartan_representation(2 * form)` -/
def coxeterRep (L : Lib) (coxeterMatrix : Pack) : Except Err Dt := do
  let dtype ← checkType L none none true                       -- check_type(**kwargs)
  let half := number .pyFloat                                   -- number(0.5, like=pi)
  let adjusted ← arrayLike L (.arr .r2 coxeterMatrix.asarrayDtype) (some half)
  let form := promote adjusted dtype                           -- cos(pi / adjusted).astype(dtype)
  let basis ← zeros L (some (.arr .r2 form)) none true
  let ident ← identity L (some (.arr .r2 form)) none true
  pure (promote ident (promote basis form))

/-! ## the table of listed entry points -/

inductive Entry
  | rotationMatrix | standardRotation | elliptic | sl2Iso | fromAngle | regularPolygon
  | standardLoxodromic | pointAlong | regularPolygonAngle
  | coxeterRep | arrayLike | zerosFloat | identityFloat
  | pointHyperboloid | pointFromAffineHyperboloid | transformationInv
  /- the following keep an integer dtype for integer-typed input by design
     (`integer_type=True` factories; constructors store the caller's numbers) -/
  | zeros | identity | pointCtor | pointFromAffine | transformationCtor
  deriving DecidableEq, Repr

def Entry.all : List Entry :=
  [.rotationMatrix, .standardRotation, .elliptic, .sl2Iso, .fromAngle, .regularPolygon,
   .standardLoxodromic, .pointAlong, .regularPolygonAngle, .coxeterRep, .arrayLike, .zerosFloat, .identityFloat, .pointHyperboloid,
   .pointFromAffineHyperboloid, .transformationInv,
   .zeros, .identity, .pointCtor, .pointFromAffine, .transformationCtor]

theorem Entry.mem_all (e : Entry) : e ∈ Entry.all := by cases e <;> decide

/-- entry points whose output must be floating point for every real packaging -/
def Entry.floating : Entry → Bool
  | .zeros | .identity | .pointCtor | .pointFromAffine | .transformationCtor => false
  | _ => true

/-- dtype of the data an entry point produces when its real parameter is packaged as `p` -/
def entryDtype (L : Lib) : Entry → Pack → Except Err Dt
  | .rotationMatrix, p => rotationMatrix L p
  | .standardRotation, p => standardRotation L p
  | .elliptic, p => elliptic L p
  | .sl2Iso, p => sl2Iso L p
  | .fromAngle, p => fromAngle L p
  | .regularPolygon, p => regularPolygon L p
  | .standardLoxodromic, p => standardLoxodromic L p
  | .pointAlong, p => pointAlongDt L p
  | .regularPolygonAngle, p => regularPolygon L p      -- `angle=` only enters through `regular_polygon_radius(n, angle)`
  | .coxeterRep, p => coxeterRep L p
  | .arrayLike, p => arrayLike L p
  | .zerosFloat, p => zeros L (some p) none false
  | .identityFloat, p => identity L (some p) none false
  | .pointHyperboloid, p => pointHyperboloid L p
  | .pointFromAffineHyperboloid, p => do normalizeDt L (← pointFromAffine L p)
  | .transformationInv, p => pure (invDt (setData p))
  | .zeros, p => zeros L (some p)
  | .identity, p => identity L (some p)
  | .pointCtor, p => pure (setData p)
  | .pointFromAffine, p => pointFromAffine L p
  | .transformationCtor, p => pure (setData p)

/-! ## predicates of the theorems -/

def Dt.isFloating : Dt → Bool
  | .float32 | .float64 => true
  | _ => false

def Dt.isRealNumeric : Dt → Bool
  | .int64 | .float32 | .float64 => true
  | _ => false

/-- the packaging denotes real numbers -/
def Pack.isRealNumeric : Pack → Bool
  | .pyInt | .pyFloat => true
  | .npScalar d => d.isRealNumeric
  | .arr _ d => d.isRealNumeric
  | .list _ .int | .list _ .float => true
  | _ => false

/-- the packaging carries an integer dtype (`np.int64`, integer arrays) or is a Python int /
list of ints -/
def Pack.isInteger (p : Pack) : Bool := p.asarrayDtype == .int64

def isOkWith (P : Dt → Bool) : Except Err Dt → Bool
  | .ok d => P d
  | .error _ => false

end GT.Dtype
