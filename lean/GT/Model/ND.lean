/-
Flat row-major n-dimensional arrays: our *statement* of the fragment of numpy's array
semantics that geometry_tools relies on (DESIGN §4 C04).  `ND α = ⟨shape, data⟩` with
`data` in C order.  Every primitive that produces new entries is an `ofFn` (an index
function materialised over all multi-indices in row-major order), so that one bridge
lemma `get_ofFn` gives its index law; `reshape` keeps the data and changes the shape,
exactly as numpy does for C-contiguous arrays.

No Mathlib here: this file is executed by the driver (`nd.*` ops compare each primitive
with numpy itself before anything built on it is trusted).

Preconditions that numpy enforces by raising (`AxisError`, squeezing an axis of length
≠ 1, …) are stated in the docstrings; the driver checks them and answers with the error,
the theorems assume them.  `matmul`, `reshape`, `stack`, `concat` can fail on
well-formed library calls (shape mismatch) and therefore return `Except`.
-/

namespace GT.Act

/-- all multi-indices of a shape in row-major (C) order -/
def allIx : List Nat → List (List Nat)
  | [] => [[]]
  | d :: s => (List.range d).flatMap fun i => (allIx s).map (i :: ·)

/-- number of entries of an array of shape `s` -/
def sz (s : List Nat) : Nat := s.foldl (· * ·) 1

/-- row-major flat position of a multi-index (`np.ravel_multi_index`) -/
def flatIx : List Nat → List Nat → Nat
  | _ :: s, i :: ix => i * sz s + flatIx s ix
  | _, _ => 0

/-- `ix` is an in-range multi-index for shape `s` -/
def Valid : List Nat → List Nat → Prop
  | [], [] => True
  | d :: s, i :: ix => i < d ∧ Valid s ix
  | _, _ => False

instance decValid : (s ix : List Nat) → Decidable (Valid s ix)
  | [], [] => isTrue trivial
  | d :: s, i :: ix =>
    match Nat.decLt i d, decValid s ix with
    | isTrue h, isTrue h' => isTrue ⟨h, h'⟩
    | isFalse h, _ => isFalse fun x => h x.1
    | _, isFalse h' => isFalse fun x => h' x.2
  | [], _ :: _ => isFalse fun x => x
  | _ :: _, [] => isFalse fun x => x

/-- multi-index of a flat position (`np.unravel_index`) -/
def unravel : List Nat → Nat → List Nat
  | [], _ => []
  | _ :: s, k => (k / sz s) :: unravel s (k % sz s)

structure ND (α : Type) where
  shape : List Nat
  data : Array α
  deriving Repr

namespace ND
variable {α : Type} [Inhabited α]

def rank (a : ND α) : Nat := a.shape.length

/-- well-formedness: as many entries as the shape says -/
def WF (a : ND α) : Prop := a.data.size = sz a.shape

/-- `a[ix]` for a full multi-index; only meaningful for `Valid a.shape ix` -/
def get (a : ND α) (ix : List Nat) : α := a.data.getD (flatIx a.shape ix) default

/-- materialise an index function over all multi-indices of `s` in C order -/
def ofFn (s : List Nat) (f : List Nat → α) : ND α := ⟨s, ((allIx s).map f).toArray⟩

/-- 0-d array -/
def scalar (x : α) : ND α := ⟨[], #[x]⟩

/-- entrywise map (numpy ufunc of one argument) -/
def map {β : Type} (f : α → β) (a : ND α) : ND β := ⟨a.shape, a.data.map f⟩

/-! ### axis plumbing -/

/-- `a.T`: all axes reversed -/
def T (a : ND α) : ND α := ofFn a.shape.reverse (fun ix => a.get ix.reverse)

/-- `np.expand_dims(a, axis=tuple(range(lo, lo+cnt)))`; numpy requires `lo ≤ a.ndim`
(`AxisError` otherwise).  `cnt = 1` is `np.expand_dims(a, lo)`. -/
def expandRange (a : ND α) (lo cnt : Nat) : ND α :=
  ofFn (a.shape.take lo ++ List.replicate cnt 1 ++ a.shape.drop lo)
    (fun ix => a.get (ix.take lo ++ ix.drop (lo + cnt)))

/-- `np.squeeze(a, axis=k)`; numpy requires `a.shape[k] = 1` (`ValueError` otherwise) -/
def squeeze1 (a : ND α) (k : Nat) : ND α :=
  ofFn (a.shape.eraseIdx k) (fun ix => a.get (ix.insertIdx k 0))

/-- `np.squeeze(a, axis=tuple(axes))` for *distinct* axes, each of length 1: squeezed one
at a time from the last to the first (positions of earlier axes are then unaffected) -/
def squeezeAxes (a : ND α) (axes : List Nat) : ND α :=
  (axes.mergeSort (fun x y => decide (y ≤ x))).foldl squeeze1 a

/-- exchange the entries at positions `i` and `j` of a list -/
def swapPos {β : Type} [Inhabited β] (l : List β) (i j : Nat) : List β :=
  (l.set i (l.getD j default)).set j (l.getD i default)

/-- `a.swapaxes(i, j)` (non-negative axes `< a.ndim`) -/
def swapaxes (a : ND α) (i j : Nat) : ND α :=
  ofFn (swapPos a.shape i j) (fun ix => a.get (swapPos ix i j))

/-- `np.roll(a, shift, axis=k)` with `shift` given as the non-negative amount `sh` such that
`result[i] = a[(i + sh) mod d]` (numpy's `shift = -sh`) -/
def rollBack (a : ND α) (sh k : Nat) : ND α :=
  ofFn a.shape (fun ix => a.get (ix.set k ((ix.getD k 0 + sh) % a.shape.getD k 1)))

/-! ### indexing -/

/-- `a[i₀, i₁, …]` with leading integer indices `idx` (basic indexing, result drops the
indexed axes) -/
def sub (a : ND α) (idx : List Nat) : ND α :=
  ofFn (a.shape.drop idx.length) (fun ix => a.get (idx ++ ix))

/-- `np.take(a, i, axis=k)` = `a[:, …, i, …]` (integer index on axis `k`, axis removed).
`a[..., i, :]` is `selectAxis a (a.ndim - 2) i`. -/
def selectAxis (a : ND α) (k i : Nat) : ND α :=
  ofFn (a.shape.eraseIdx k) (fun ix => a.get (ix.insertIdx k i))

/-- slice `lo:hi` on axis `k` (`lo ≤ hi ≤ a.shape[k]`) -/
def sliceAxis (a : ND α) (k lo hi : Nat) : ND α :=
  ofFn (a.shape.set k (hi - lo)) (fun ix => a.get (ix.set k (ix.getD k 0 + lo)))

/-- `a[idx] = v` where `v.shape = a.shape[len idx:]` (returns the new value of `a`) -/
def setSub (a : ND α) (idx : List Nat) (v : ND α) : ND α :=
  ofFn a.shape (fun ix => if ix.take idx.length = idx then v.get (ix.drop idx.length) else a.get ix)

/-! ### indexing / assignment on the LAST axis (`a[..., j]`, `a[..., lo:hi]`, `np.delete(a, c, -1)`,
`out[..., j] = v`, `out[..., lo:hi] = v`, `out[..., idx] = v`) -/

/-- `a[..., j]` -/
def selectLast (a : ND α) (j : Nat) : ND α :=
  ofFn a.shape.dropLast (fun ix => a.get (ix ++ [j]))

/-- `a[..., lo:hi]` (`lo ≤ hi ≤ a.shape[-1]`) -/
def sliceLast (a : ND α) (lo hi : Nat) : ND α :=
  ofFn (a.shape.dropLast ++ [hi - lo]) (fun ix => a.get (ix.dropLast ++ [ix.getLastD 0 + lo]))

/-- `np.delete(a, c, axis=-1)` (`c < a.shape[-1]`) -/
def deleteLast (a : ND α) (c : Nat) : ND α :=
  ofFn (a.shape.dropLast ++ [a.shape.getLastD 0 - 1])
    (fun ix => a.get (ix.dropLast ++ [if ix.getLastD 0 < c then ix.getLastD 0 else ix.getLastD 0 + 1]))

/-- `np.zeros(shape)` / `np.zeros_like` (any constant) -/
def full (s : List Nat) (x : α) : ND α := ofFn s (fun _ => x)

/-- `out[..., j] = x` for a scalar `x` (returns the new value of `out`) -/
def setLastConst (out : ND α) (j : Nat) (x : α) : ND α :=
  ofFn out.shape (fun ix => if ix.getLastD 0 = j then x else out.get ix)

/-- `out[..., j] = v` where `v.shape = out.shape[:-1]` -/
def setLastIndex (out : ND α) (j : Nat) (v : ND α) : ND α :=
  ofFn out.shape (fun ix => if ix.getLastD 0 = j then v.get ix.dropLast else out.get ix)

/-- `out[..., lo:hi] = v` where `v.shape = out.shape[:-1] + (hi-lo,)` -/
def setLastSlice (out : ND α) (lo hi : Nat) (v : ND α) : ND α :=
  ofFn out.shape (fun ix =>
    let j := ix.getLastD 0
    if lo ≤ j ∧ j < hi then v.get (ix.dropLast ++ [j - lo]) else out.get ix)

/-- `out[..., idx] = v` for a list `idx` of distinct positions (`v.shape = out.shape[:-1] + (len idx,)`) -/
def setLastIdx (out : ND α) (idx : List Nat) (v : ND α) : ND α :=
  ofFn out.shape (fun ix =>
    let k := idx.idxOf (ix.getLastD 0)
    if k < idx.length then v.get (ix.dropLast ++ [k]) else out.get ix)

/-! ### reshape / flatten: data unchanged -/

/-- `a.reshape(s)` for a fully specified shape `s` -/
def reshape (a : ND α) (s : List Nat) : Except String (ND α) :=
  if sz s = sz a.shape then .ok ⟨s, a.data⟩ else .error "ValueError"

/-- `a.reshape((-1,) + a.shape[-u:])`  (`flatten_to_unit`); requires `u ≤ a.ndim` -/
def flattenOuter (a : ND α) (u : Nat) : ND α :=
  ⟨sz (a.shape.take (a.shape.length - u)) :: a.shape.drop (a.shape.length - u), a.data⟩

/-! ### joining -/

/-- `np.stack(as, axis=k)` (all shapes equal, list non-empty, `k ≤ ndim`) -/
def stack (as : List (ND α)) (k : Nat) : Except String (ND α) :=
  match as with
  | [] => .error "ValueError"
  | a :: rest =>
    if rest.all (fun b => b.shape == a.shape) then
      .ok (ofFn (a.shape.insertIdx k as.length)
        (fun ix => (as.getD (ix.getD k 0) a).get (ix.eraseIdx k)))
    else .error "ValueError"

/-- find the block and the offset inside it of position `i` along the joined axis -/
def locate : List Nat → Nat → Nat × Nat
  | [], i => (0, i)
  | d :: ds, i => if i < d then (0, i) else let (b, o) := locate ds (i - d); (b + 1, o)

/-- `np.concatenate(as, axis=k)` (shapes agree off axis `k`, list non-empty) -/
def concat (as : List (ND α)) (k : Nat) : Except String (ND α) :=
  match as with
  | [] => .error "ValueError"
  | a :: rest =>
    if k < a.shape.length ∧ rest.all (fun b => b.shape.eraseIdx k == a.shape.eraseIdx k
        && b.shape.length == a.shape.length) then
      let lens := as.map (fun b => b.shape.getD k 0)
      .ok (ofFn (a.shape.set k lens.sum)
        (fun ix => let (b, o) := locate lens (ix.getD k 0); (as.getD b a).get (ix.set k o)))
    else .error "ValueError"

/-! ### broadcasting (numpy's right-aligned rule) -/

/-- pad a shape with leading 1s to length `n` -/
def padTo (n : Nat) (s : List Nat) : List Nat := List.replicate (n - s.length) 1 ++ s

/-- combine two equal-length shapes axis by axis -/
def bcastZip : List Nat → List Nat → Option (List Nat)
  | [], [] => some []
  | d :: s, e :: t =>
    if d = e ∨ e = 1 then (bcastZip s t).map (d :: ·)
    else if d = 1 then (bcastZip s t).map (e :: ·)
    else none
  | _, _ => none

/-- `np.broadcast_shapes(s, t)` -/
def bcastShape (s t : List Nat) : Option (List Nat) :=
  let n := max s.length t.length
  bcastZip (padTo n s) (padTo n t)

/-- the index into an operand of shape `s` that a result index `ix` (for the broadcast
shape, `ix.length ≥ s.length`) reads: right-aligned, 0 along axes of length 1 -/
def bcIx (s ix : List Nat) : List Nat :=
  List.zipWith (fun d i => if d = 1 then 0 else i) s (ix.drop (ix.length - s.length))

/-- binary ufunc with broadcasting (`a * b`, `a - b`, `a / b`, …) -/
def zipBcast {β γ : Type} [Inhabited β] [Inhabited γ] (f : α → β → γ) (a : ND α) (b : ND β) :
    Except String (ND γ) :=
  match bcastShape a.shape b.shape with
  | none => .error "ValueError"
  | some s => .ok (ofFn s (fun ix => f (a.get (bcIx a.shape ix)) (b.get (bcIx b.shape ix))))

/-- split a list into everything but the last two entries, and the last two -/
def splitLast2 (l : List Nat) : Option (List Nat × Nat × Nat) :=
  if l.length < 2 then none
  else some (l.take (l.length - 2), l.getD (l.length - 2) 0, l.getD (l.length - 1) 0)

/-- `a @ b` for `a.ndim ≥ 2`, `b.ndim ≥ 2`: matrix product on the last two axes, leading
(batch) axes broadcast.  (numpy's promotion of 1-d operands is never reached by the code
under verification and is reported as an error instead of being guessed.) -/
def matmul [Add α] [Mul α] [Zero α] (a b : ND α) : Except String (ND α) :=
  match splitLast2 a.shape, splitLast2 b.shape with
  | some (ba, p, n), some (bb, n', q) =>
    if n ≠ n' then .error "ValueError" else
    match bcastShape ba bb with
    | none => .error "ValueError"
    | some bs =>
      .ok (ofFn (bs ++ [p, q]) (fun ix =>
        match splitLast2 ix with
        | some (bix, i, k) =>
          ((List.range n).map (fun j =>
            a.get (bcIx ba bix ++ [i, j]) * b.get (bcIx bb bix ++ [j, k]))).sum
        | none => default))
  | _, _ => .error "matmul-1d-operand-not-modelled"

end ND
end GT.Act
