/-
Field-generic model of the circle / sphere parameter code of geometry_tools (C14):
`Segment._compute_aux_data`, `Subspace.sphere_parameters` (repaired, D10, and the pinned-tree
centroid construction), `Geodesic/Segment.circle_parameters`, `Horosphere.sphere_parameters`,
`HorosphereArc.circle_parameters`, `utils.circle_angles/short_arc/right_to_left/arc_include/
sphere_inversion`.

Angles never appear: `circle_angles` takes `arctan2` of a direction vector, and everything the
arc-selection code does with the angles (shift into `[0,2π)`, sort, compare a difference with
`π`, compare cosines) is a sign test on the direction vectors, which is how it is modelled.
`np.linalg.pinv` (repaired `sphere_parameters`) is a contract: its result enters as the
coefficient vector of the point it computes.
-/
import GT.Model.Charts

open Finset BigOperators

namespace GT.Circle

variable {K : Type*} [Field K] {n : ℕ}

/-! ### `Segment._compute_aux_data`: ideal endpoints from the quadratic -/

def segA (x₁ x₂ : Fin (n + 1) → K) : K := mink x₁ x₁ - 2 * mink x₁ x₂ + mink x₂ x₂
def segB (x₁ x₂ : Fin (n + 1) → K) : K := 2 * mink x₁ x₂ - 2 * mink x₂ x₂
def segC (_x₁ x₂ : Fin (n + 1) → K) : K := mink x₂ x₂
def segDisc (x₁ x₂ : Fin (n + 1) → K) : K :=
  segB x₁ x₂ * segB x₁ x₂ - 4 * segA x₁ x₂ * segC x₁ x₂

/-- `mu1` (`sgn = 1`) and `mu2` (`sgn = -1`): `(-b ± √(b²-4ac)) / (2a)` -/
def segMu (r : K → K) (sgn : K) (x₁ x₂ : Fin (n + 1) → K) : K :=
  (-segB x₁ x₂ + sgn * r (segDisc x₁ x₂)) / (2 * segA x₁ x₂)

/-- `mu * end_data[0] + (1 - mu) * end_data[1]` -/
def segNull (mu : K) (x₁ x₂ : Fin (n + 1) → K) : Fin (n + 1) → K :=
  fun i => mu * x₁ i + (1 - mu) * x₂ i

/-- the two rows of `Segment._compute_aux_data(end_data)` -/
def segmentIdeal (r : K → K) (x₁ x₂ : Fin (n + 1) → K) :
    (Fin (n + 1) → K) × (Fin (n + 1) → K) :=
  (segNull (segMu r 1 x₁ x₂) x₁ x₂, segNull (segMu r (-1) x₁ x₂) x₁ x₂)

/-! ### `Subspace.sphere_parameters` -/

/-- `utils.sphere_inversion`: `v / |v|²` -/
def sphereInv (p : Fin n → K) : Fin n → K := fun i => p i / nsq p

/-- affine combination `Σ λ_j k_j` of the rows of an ideal basis -/
def affComb {k : ℕ} (lam : Fin k → K) (ks : Fin k → Fin n → K) : Fin n → K :=
  fun i => ∑ j, lam j * ks j i

/-- `klein_basis.sum(axis=-2) / klein_basis.shape[-2]` (pinned tree: the centroid) -/
def centroid {k : ℕ} (ks : Fin k → Fin n → K) : Fin n → K :=
  fun i => (∑ j, ks j i) / (k : K)

section ordered
variable [LinearOrder K]

/-- the part of `sphere_parameters(POINCARE)` after the Klein point `m` ("klein_midpoint") has
been chosen: `p = k2p(m)`, `e = p/|p|²`, centre `(p+e)/2`, radius `√|p-e|² / 2` -/
def poincareSphere (r : K → K) (m : Fin n → K) : (Fin n → K) × K :=
  let p := k2p r m
  let e := sphereInv p
  (fun i => (p i + e i) / 2, r (nsq (fun i => p i - e i)) / 2)

/-- pinned tree: the Klein point is the centroid of the ideal basis -/
def poincareSphereCentroid {k : ℕ} (r : K → K) (ks : Fin k → Fin n → K) : (Fin n → K) × K :=
  poincareSphere r (centroid ks)

/-- repaired (D10): the Klein point is `base - base·pinv(T)·T`, the foot of the perpendicular
from the origin to the affine hull; `lam` are its affine coordinates (the `pinv` contract) -/
def poincareSphereFoot {k : ℕ} (r : K → K) (lam : Fin k → K) (ks : Fin k → Fin n → K) :
    (Fin n → K) × K :=
  poincareSphere r (affComb lam ks)

end ordered

/-- what the `pinv` contract guarantees of the affine coordinates of the foot: they sum to one
and the point is orthogonal to every direction `k_j - k_0` of the affine hull -/
def IsFoot {k : ℕ} (lam : Fin (k + 1) → K) (ks : Fin (k + 1) → Fin n → K) : Prop :=
  (∑ j, lam j = 1) ∧ ∀ j, dot (fun i => ks j i - ks 0 i) (affComb lam ks) = 0

/-- `sphere_parameters(HALFSPACE)` (repaired): centre `base + ½ |t|²·pinv(Tᵀ)` with affine
coordinates `lam` (contract), radius `√|h_0 - centre|²` -/
def halfspaceSphere {k : ℕ} (r : K → K) (lam : Fin (k + 1) → K)
    (hs : Fin (k + 1) → Fin n → K) : (Fin n → K) × K :=
  let c := affComb lam hs
  (c, r (nsq (fun i => hs 0 i - c i)))

/-- the `pinv` contract for the half-space centre: affine coordinates summing to one and
`2 t_j·(c - h_0) = |t_j|²` for every direction `t_j = h_j - h_0` -/
def IsCircumcentre {k : ℕ} (lam : Fin (k + 1) → K) (hs : Fin (k + 1) → Fin n → K) : Prop :=
  (∑ j, lam j = 1) ∧ ∀ j, 2 * dot (fun i => hs j i - hs 0 i)
      (fun i => affComb lam hs i - hs 0 i) = nsq (fun i => hs j i - hs 0 i)

/-- pinned tree: centre the centroid of the half-space coordinates of the ideal basis -/
def halfspaceSphereCentroid {k : ℕ} (r : K → K) (hs : Fin (k + 1) → Fin n → K) :
    (Fin n → K) × K :=
  let c := centroid hs
  (c, r (nsq (fun i => hs 0 i - c i)))

/-- affine coordinates of the midpoint of two points (what the repaired code computes for a
geodesic; equal to the pinned tree's centroid) -/
def lamMid : Fin 2 → K := fun _ => 1 / 2

/-! ### horospheres -/

/-- `Horosphere.sphere_parameters(POINCARE)`: `ideal`, `ref` are Poincaré coordinates -/
def horoPoincare (ideal ref : Fin n → K) : (Fin n → K) × K :=
  let rad := nsq (fun i => ideal i - ref i) / (2 * (1 - dot ideal ref))
  (fun i => ideal i * (1 - rad), rad)

/-- `Horosphere.sphere_parameters(HALFSPACE)`: `ideal`, `ref` are half-space coordinates
(last coordinate the height) -/
def horoHalfspace (ideal ref : Fin (n + 1) → K) : (Fin (n + 1) → K) × K :=
  let z := ref (Fin.last n)
  let rad := (1 / 2) * (nsq (fun i => Fin.init ideal i - Fin.init ref i) / z + z)
  (Fin.snoc (Fin.init ideal) rad, rad)

/-! ### arc selection (dimension 2), on direction vectors -/

/-- `utils.circle_angles`: the vector whose `arctan2` is taken -/
def dirOf (c p : Fin 2 → K) : K × K := (p 0 - c 0, p 1 - c 1)

def cross2 (u v : K × K) : K := u.1 * v.2 - u.2 * v.1
def dot2 (u v : K × K) : K := u.1 * v.1 + u.2 * v.2

section ordered
variable [LinearOrder K]

/-- the angle of `u`, shifted into `[0, 2π)`, lies in `[0, π)` -/
def upperHalf (u : K × K) : Bool := decide (0 < u.2) || (decide (u.2 = 0) && decide (0 < u.1))

/-- strict comparison of the angles in `[0, 2π)` of two non-zero vectors -/
def angLt (u v : K × K) : Bool :=
  if upperHalf u && !upperHalf v then true
  else if !upperHalf u && upperHalf v then false
  else decide (0 < cross2 u v)

/-- `utils.short_arc`: shift negative angles by `2π`, sort, swap if the difference exceeds `π`
(`sin(θ_b - θ_a) < 0` for sorted `θ_a ≤ θ_b` in `[0, 2π)`) -/
def shortArc (u v : K × K) : (K × K) × (K × K) :=
  let s : (K × K) × (K × K) := if angLt v u then (v, u) else (u, v)
  if cross2 s.1 s.2 < 0 then (s.2, s.1) else s

/-- `utils.right_to_left`: swap if `cos θ₀ < cos θ₁`; both directions have the same length
(the radius), so the cosines compare like the first coordinates -/
def rightToLeft (u v : K × K) : (K × K) × (K × K) :=
  if u.1 < v.1 then (v, u) else (u, v)

/-- counter-clockwise angle from `a` to `b` in `[0, 2π)`, as a direction: `b` rotated by `-θ_a` -/
def relDir (a b : K × K) : K × K := (dot2 a b, cross2 a b)

/-- `utils.arc_include(thetas, ref)`: swap if the ccw angle from `θ₀` to `θ₁` is smaller than
the ccw angle from `θ₀` to the reference -/
def arcInclude (u v ref : K × K) : (K × K) × (K × K) :=
  if angLt (relDir u v) (relDir u ref) then (v, u) else (u, v)

/-- `HorosphereArc.circle_parameters`: `np.flip(arc_include(thetas, center_theta))` -/
def horoArc (u v ref : K × K) : (K × K) × (K × K) :=
  let s := arcInclude u v ref
  (s.2, s.1)

end ordered

end GT.Circle
