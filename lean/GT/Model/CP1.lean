/-
Model of geometry_tools/complex_projective.py (CP¹ points, disks, Möbius maps) and of the
helpers it uses from utils/core.py (`circle_through`/`sphere_through`, `disk_interactions`,
`r_to_c`, `c_to_r`).

Complex numbers are pairs over an ordered field `K` (`Cx K`, with a proved `Field` instance):
the same definitions are instantiated at `K = ℝ` by the theorems and executed at `K = ℚ`
(Gaussian rationals) by the driver.  Purely algebraic parts (Möbius action, cross-ratio,
inversion in the boundary circle) are stated over an arbitrary field `F`.
Square roots and norms enter as supplied values.
-/
import Mathlib.Algebra.Field.MinimalAxioms
import Mathlib.Algebra.Order.Field.Basic
import Mathlib.Algebra.Order.Ring.Abs
import Mathlib.Tactic.Ring
import Mathlib.Tactic.FieldSimp
import Mathlib.Tactic.Linarith
import Mathlib.Tactic.Positivity

set_option linter.unusedSectionVars false

namespace GT.CP1

/-! ## complex numbers as pairs -/

@[ext] structure Cx (K : Type*) where
  re : K
  im : K
  deriving DecidableEq, Repr

section cx
variable {K : Type*} [Field K] [LinearOrder K] [IsStrictOrderedRing K]

namespace Cx
instance : Zero (Cx K) := ⟨⟨0, 0⟩⟩
instance : One (Cx K) := ⟨⟨1, 0⟩⟩
instance : Add (Cx K) := ⟨fun z w => ⟨z.re + w.re, z.im + w.im⟩⟩
instance : Neg (Cx K) := ⟨fun z => ⟨-z.re, -z.im⟩⟩
instance : Mul (Cx K) := ⟨fun z w => ⟨z.re * w.re - z.im * w.im, z.re * w.im + z.im * w.re⟩⟩

/-- `|z|²` -/
def normSq (z : Cx K) : K := z.re * z.re + z.im * z.im
/-- `np.conjugate` -/
def conj (z : Cx K) : Cx K := ⟨z.re, -z.im⟩
/-- a real number as a complex number -/
def ofReal (x : K) : Cx K := ⟨x, 0⟩
/-- the imaginary unit `1j` -/
def I : Cx K := ⟨0, 1⟩

instance : Inv (Cx K) := ⟨fun z => ⟨z.re / normSq z, -z.im / normSq z⟩⟩

@[simp] theorem zero_re : (0 : Cx K).re = 0 := rfl
@[simp] theorem zero_im : (0 : Cx K).im = 0 := rfl
@[simp] theorem one_re : (1 : Cx K).re = 1 := rfl
@[simp] theorem one_im : (1 : Cx K).im = 0 := rfl
@[simp] theorem add_re (z w : Cx K) : (z + w).re = z.re + w.re := rfl
@[simp] theorem add_im (z w : Cx K) : (z + w).im = z.im + w.im := rfl
@[simp] theorem neg_re (z : Cx K) : (-z).re = -z.re := rfl
@[simp] theorem neg_im (z : Cx K) : (-z).im = -z.im := rfl
@[simp] theorem mul_re (z w : Cx K) : (z * w).re = z.re * w.re - z.im * w.im := rfl
@[simp] theorem mul_im (z w : Cx K) : (z * w).im = z.re * w.im + z.im * w.re := rfl
@[simp] theorem inv_re (z : Cx K) : (z⁻¹).re = z.re / normSq z := rfl
@[simp] theorem inv_im (z : Cx K) : (z⁻¹).im = -z.im / normSq z := rfl
@[simp] theorem conj_re (z : Cx K) : (conj z).re = z.re := rfl
@[simp] theorem conj_im (z : Cx K) : (conj z).im = -z.im := rfl
@[simp] theorem ofReal_re (x : K) : (ofReal x : Cx K).re = x := rfl
@[simp] theorem ofReal_im (x : K) : (ofReal x : Cx K).im = 0 := rfl

theorem normSq_nonneg (z : Cx K) : 0 ≤ normSq z := by
  unfold normSq; nlinarith [mul_self_nonneg z.re, mul_self_nonneg z.im]

theorem normSq_eq_zero {z : Cx K} : normSq z = 0 ↔ z = 0 := by
  constructor
  · intro h
    unfold normSq at h
    have h1 : z.re * z.re = 0 := by nlinarith [mul_self_nonneg z.re, mul_self_nonneg z.im]
    have h2 : z.im * z.im = 0 := by nlinarith [mul_self_nonneg z.re, mul_self_nonneg z.im]
    ext
    · simpa using h1
    · simpa using h2
  · rintro rfl; simp [normSq]

instance : Field (Cx K) :=
  Field.ofMinimalAxioms (Cx K)
    (fun a b c => by ext <;> simp <;> ring)
    (fun a => by ext <;> simp)
    (fun a => by ext <;> simp)
    (fun a b c => by ext <;> simp <;> ring)
    (fun a b => by ext <;> simp <;> ring)
    (fun a => by ext <;> simp)
    (fun a ha => by
      have h : normSq a ≠ 0 := fun h => ha (normSq_eq_zero.1 h)
      ext
      · simp only [mul_re, inv_re, inv_im, one_re]
        have e : a.re * (a.re / normSq a) - a.im * (-a.im / normSq a) = normSq a / normSq a := by
          unfold normSq; ring
        rw [e, div_self h]
      · simp only [mul_im, inv_re, inv_im, one_im]; ring)
    (by ext <;> simp [normSq])
    (fun a b c => by ext <;> simp <;> ring)
    ⟨0, 1, fun h => by have := congrArg Cx.re h; simp at this⟩

@[simp] theorem sub_re (z w : Cx K) : (z - w).re = z.re - w.re := by
  rw [sub_eq_add_neg]; simp [sub_eq_add_neg]
@[simp] theorem sub_im (z w : Cx K) : (z - w).im = z.im - w.im := by
  rw [sub_eq_add_neg]; simp [sub_eq_add_neg]

end Cx
end cx

/-! ## points: spherical and homogeneous coordinates -/

section sphere
variable {K : Type*} [Field K] [LinearOrder K] [IsStrictOrderedRing K]
open Cx

/-- `projective_to_spherical((z0, z1))`: `normsq = |z0|² + |z1|²` (the code takes `np.abs` of
this non-negative real), `horizontal = c_to_r(2 conj(z0) z1 / normsq)`,
`vertical = (|z1|² - |z0|²) / normsq` -/
def p2s (z0 z1 : Cx K) : K × K × K :=
  let nsq := normSq z0 + normSq z1
  let h := ofReal 2 * conj z0 * z1 * (ofReal nsq)⁻¹
  (h.re, h.im, (normSq z1 - normSq z0) / nsq)

/-- `spherical_to_projective((x, y, z))`, both charts: `chart2 = z > 0` gives
`(conj(x + iy), 1 + z)`, otherwise `(1 - z, x + iy)` -/
def s2p (x y z : K) : Cx K × Cx K :=
  if 0 < z then (conj ⟨x, y⟩, ofReal (1 + z)) else (ofReal (1 - z), ⟨x, y⟩)

/-- stereographic projection from the pole `(0,0,1)`: `(x + iy)/(1 - z)` -/
def stereo (x y z : K) : Cx K := ⟨x / (1 - z), y / (1 - z)⟩

/-- the affine coordinate `z1 / z0` of a homogeneous pair (`CP1Point(..., "cx_affine")`,
chart 0) -/
def affine (p : Cx K × Cx K) : Cx K := p.2 * p.1⁻¹

/-! ## disks: boundary triple + interior point -/

/-- `utils.sphere_through` for three points of the plane (`circle_through`): translate `p1`
to the origin, solve `t_ctr · t_k = |t_k|²/2`; returns the centre and the SQUARED radius
(`radii = norm(t_ctr)`, the root is taken by the caller) -/
def circleThrough (p1 p2 p3 : K × K) : (K × K) × K :=
  let t2 : K × K := (p2.1 - p1.1, p2.2 - p1.2)
  let t3 : K × K := (p3.1 - p1.1, p3.2 - p1.2)
  let r2 := t2.1 * t2.1 + t2.2 * t2.2
  let r3 := t3.1 * t3.1 + t3.2 * t3.2
  let det := t2.1 * t3.2 - t3.1 * t2.2
  let c : K × K := ((r2 * t3.2 - r3 * t2.2) / det / 2, (r3 * t2.1 - r2 * t3.1) / det / 2)
  ((c.1 + p1.1, c.2 + p1.2), c.1 * c.1 + c.2 * c.2)

/-- `normed_ctr`: `utils.normalize(center_coords)`, replaced by `(1, 0)` at the origin;
`ρ` is the supplied square-root function -/
def unitDir (ρ : K → K) (c : K × K) : K × K :=
  if c.1 * c.1 + c.2 * c.2 = 0 then (1, 0)
  else (c.1 / ρ (c.1 * c.1 + c.2 * c.2), c.2 / ρ (c.1 * c.1 + c.2 * c.2))

/-- the four affine points of `CP1Disk._compute_proj_data(center, rad, "affine")` built from a
centre `c` and a direction `u`: `c + r u`, `c - r u`, `c + r u^⊥`, `c` -/
def diskPoints (c u : K × K) (r : K) : (K × K) × (K × K) × (K × K) × (K × K) :=
  ((c.1 + r * u.1, c.2 + r * u.2), (c.1 - r * u.1, c.2 - r * u.2),
   (c.1 + r * (-u.2), c.2 + r * u.1), c)

/-- REPAIRED `_compute_proj_data`: the direction is computed from a *copy* of the centre -/
def diskFromCentre (ρ : K → K) (c : K × K) (r : K) :=
  diskPoints c (unitDir ρ c) r

/-- PINNED `_compute_proj_data` (defect D9): `utils.normalize` works in place, so
`center_coords` itself has become `normed_ctr` when the points are built -/
def diskFromCentrePinned (ρ : K → K) (c : K × K) (r : K) :=
  diskPoints (unitDir ρ c) (unitDir ρ c) r

/-- `CP1Disk.circle_parameters()`: the circle through the boundary triple -/
def circleParams (d : (K × K) × (K × K) × (K × K) × (K × K)) : (K × K) × K :=
  circleThrough d.1 d.2.1 d.2.2.1

/-- `CP1Disk.center_inside()` for an interior point in the affine chart:
`|ctr - p|² < rad²` -/
def centreInside (d : (K × K) × (K × K) × (K × K) × (K × K)) : Bool :=
  let cp := circleParams d
  let p := d.2.2.2
  decide ((cp.1.1 - p.1) * (cp.1.1 - p.1) + (cp.1.2 - p.2) * (cp.1.2 - p.2) < cp.2)

end sphere

/-! ## disks from a spherical centre and a Fubini–Study radius -/

section fs
variable {K : Type*} [Field K]

abbrev V3 (K : Type*) := K × K × K

def dot3 (a b : V3 K) : K := a.1 * b.1 + a.2.1 * b.2.1 + a.2.2 * b.2.2

/-- `r00 * (q @ t)` for the matrix `q` with columns `q0, q1, q2` -/
def fsPoint (q0 q1 q2 : V3 K) (r00 : K) (t : V3 K) : V3 K :=
  (r00 * (t.1 * q0.1 + t.2.1 * q1.1 + t.2.2 * q2.1),
   r00 * (t.1 * q0.2.1 + t.2.1 * q1.2.1 + t.2.2 * q2.2.1),
   r00 * (t.1 * q0.2.2 + t.2.1 * q1.2.2 + t.2.2 * q2.2.2))

/-- `CP1Disk._compute_proj_data(center, rad, "fs")`: the three boundary points on the sphere.
`q, r = np.linalg.qr(center column, mode="complete")` is a CONTRACT (`q` orthogonal with columns
`q0, q1, q2`, `q0 * r00 = center`); `c2 = cos(2 rad)`, `s2 = sin(2 rad)` are supplied.
`p1_t = (c2, s2, 0)`, `p2_t = (c2, -s2, 0)`, `p3_t = (c2, 0, s2)` -/
def fsBoundary (q0 q1 q2 : V3 K) (r00 c2 s2 : K) : V3 K × V3 K × V3 K :=
  (fsPoint q0 q1 q2 r00 (c2, s2, 0), fsPoint q0 q1 q2 r00 (c2, -s2, 0), fsPoint q0 q1 q2 r00 (c2, 0, s2))

end fs

/-! ## Möbius maps, cross-ratio, inversion (any field) -/

section mobius
variable {F : Type*} [Field F]

/-- a 2×2 matrix `[[a, b], [c, d]]` -/
@[ext] structure M2 (F : Type*) where
  a : F
  b : F
  c : F
  d : F

namespace M2
def det (M : M2 F) : F := M.a * M.d - M.b * M.c
def mul (M N : M2 F) : M2 F :=
  ⟨M.a * N.a + M.b * N.c, M.a * N.b + M.b * N.d, M.c * N.a + M.d * N.c, M.c * N.b + M.d * N.d⟩
def one : M2 F := ⟨1, 0, 0, 1⟩
/-- `utils.invert` (exact inverse: adjugate over determinant) -/
def inv (M : M2 F) : M2 F := ⟨M.d / M.det, -M.b / M.det, -M.c / M.det, M.a / M.det⟩
/-- the matrix with rows `p`, `q` -/
def ofRows (p q : F × F) : M2 F := ⟨p.1, p.2, q.1, q.2⟩
end M2

/-- `Transformation.apply` on one homogeneous point: row vector times row matrix -/
def act (M : M2 F) (p : F × F) : F × F := (p.1 * M.a + p.2 * M.c, p.1 * M.b + p.2 * M.d)

/-- `p ∧ q = p₀ q₁ - p₁ q₀` -/
def wedge (p q : F × F) : F := p.1 * q.2 - p.2 * q.1

/-- cross-ratio of four homogeneous points -/
def crossRatio (p1 p2 p3 p4 : F × F) : F :=
  wedge p1 p3 * wedge p2 p4 / (wedge p1 p4 * wedge p2 p3)

/-- `to_standard_triple(p1, p2, p3)`: `res = invert([p1; p2])`, `p3_t = p3 @ res`,
`eigenvalue = sqrt(p3_t[1] / p3_t[0])` (supplied as `ev`), column 0 `*= ev`, column 1 `/= ev` -/
def stdTriple (p1 p2 : F × F) (ev : F) : M2 F :=
  let R := (M2.ofRows p1 p2).inv
  ⟨R.a * ev, R.b / ev, R.c * ev, R.d / ev⟩

/-- the ratio whose square root `to_standard_triple` takes -/
def stdRatio (p1 p2 p3 : F × F) : F :=
  let t := act (M2.ofRows p1 p2).inv p3
  t.2 / t.1

/-- `CP1Disk.inversion()`: `basechange.inv() @ std_inversion @ basechange` with
`std_inversion = diag(1, -1)`; `A @ B` on `Transformation`s multiplies the row matrices as
`B.matrix · A.matrix`, so the row matrix is `B · diag(1,-1) · B⁻¹` -/
def inversionM (B : M2 F) : M2 F := B.mul ((⟨1, 0, 0, -1⟩ : M2 F).mul B.inv)

/-- `CP1Disk.complement()`: same boundary triple, interior point moved by the inversion -/
def complement (ev : F) (d : (F × F) × (F × F) × (F × F) × (F × F)) :
    (F × F) × (F × F) × (F × F) × (F × F) :=
  (d.1, d.2.1, d.2.2.1, act (inversionM (stdTriple d.1 d.2.1 ev)) d.2.2.2)

/-- a Möbius map applied to the four points of a disk -/
def actDisk (M : M2 F) (d : (F × F) × (F × F) × (F × F) × (F × F)) :
    (F × F) × (F × F) × (F × F) × (F × F) :=
  (act M d.1, act M d.2.1, act M d.2.2.1, act M d.2.2.2)

end mobius

/-! ## containment and intersection: the case analysis on "contains ∞" -/

section logic
variable {K : Type*} [Field K] [LinearOrder K] [IsStrictOrderedRing K]

/-- `utils.disk_interactions(c1, r1, c2, r2)` for one pair, `d = ‖c1 - c2‖` supplied:
`(d < r1 - r2, d < r2 - r1, d < r2 + r1)` -/
def interactions (d r1 r2 : K) : Bool × Bool × Bool :=
  (decide (d < r1 - r2), decide (d < r2 - r1), decide (d < r2 + r1))

/-- what `CP1Disk.contains` leaves in `res` for one pair of disks (`sAff`/`oAff` =
`center_inside()`, i.e. the disk is the bounded side of its circle) -/
def containsUnit (sAff oAff : Bool) (t : Bool × Bool × Bool) : Bool :=
  if sAff && oAff then t.1
  else if !sAff && oAff then !t.2.2
  else if !sAff && !oAff then t.2.1
  else false

/-- what the REPAIRED `CP1Disk.intersects` leaves in `res` for one pair -/
def intersectsUnit (sAff oAff : Bool) (t : Bool × Bool × Bool) : Bool :=
  if sAff && oAff then t.2.2
  else if !sAff && oAff then !t.1
  else if sAff && !oAff then !t.2.1
  else true

/-- the set-theoretic answers, case by case (`d` = distance of the centres, open disks in
general position): does `s` contain `o`? -/
def containsSpec (sAff oAff : Bool) (d r1 r2 : K) : Prop :=
  match sAff, oAff with
  | true, true => d + r2 < r1          -- disc₂ inside disc₁
  | false, true => r1 + r2 ≤ d         -- disc₂ misses disc₁, so lies in its exterior
  | false, false => d + r1 < r2        -- ext₂ ⊆ ext₁ ⇔ disc₁ ⊆ disc₂
  | true, false => False               -- a bounded disk never contains ∞

/-- do `s` and `o` meet? -/
def intersectsSpec (sAff oAff : Bool) (d r1 r2 : K) : Prop :=
  match sAff, oAff with
  | true, true => d < r1 + r2
  | false, true => ¬ (d + r2 < r1)     -- disc₂ not inside disc₁
  | true, false => ¬ (d + r1 < r2)     -- disc₁ not inside disc₂
  | false, false => True               -- both contain ∞

/-- the finite points of a disk of CP¹ whose boundary circle is `(c, r)`: its bounded side
(`bounded = true`) or its unbounded side; `strict` leaves the circle itself out -/
def memDisk (bounded strict : Bool) (c : K × K) (r : K) (z : K × K) : Prop :=
  match bounded, strict with
  | true, true => (z.1 - c.1) * (z.1 - c.1) + (z.2 - c.2) * (z.2 - c.2) < r * r
  | true, false => (z.1 - c.1) * (z.1 - c.1) + (z.2 - c.2) * (z.2 - c.2) ≤ r * r
  | false, true => r * r < (z.1 - c.1) * (z.1 - c.1) + (z.2 - c.2) * (z.2 - c.2)
  | false, false => r * r ≤ (z.1 - c.1) * (z.1 - c.1) + (z.2 - c.2) * (z.2 - c.2)

/-- the point at infinity belongs exactly to the disks that are the unbounded side -/
def memInf (bounded : Bool) : Prop := bounded = false

/-- general position of two circles: not tangent (internally or externally) -/
def GenPos (d r1 r2 : K) : Prop := d + r2 ≠ r1 ∧ d + r1 ≠ r2 ∧ r1 + r2 ≠ d

end logic

/-! ### array level: boolean-mask assignment as NumPy does it -/

inductive Err | valueError
  deriving DecidableEq, Repr

/-- `a[mask]` for 1-d arrays -/
def maskSelect : List Bool → List Bool → List Bool
  | a :: as, m :: ms => if m then a :: maskSelect as ms else maskSelect as ms
  | _, _ => []

/-- in-order assignment of `vals` to the `true` positions of `mask` -/
def assignInOrder : List Bool → List Bool → List Bool → List Bool
  | r :: rs, m :: ms, vals =>
    if m then
      match vals with
      | v :: vs => v :: assignInOrder rs ms vs
      | [] => r :: assignInOrder rs ms []
    else r :: assignInOrder rs ms vals
  | rs, _, _ => rs

/-- `res[mask] = vals`: as many values as `true` positions (assigned in order), or exactly one
value (broadcast); anything else raises `ValueError` -/
def maskAssign (res mask vals : List Bool) : Except Err (List Bool) :=
  let k := (mask.filter id).length
  if vals.length = k then pure (assignInOrder res mask vals)
  else match vals with
    | [v] => pure (assignInOrder res mask (List.replicate k v))
    | _ => throw .valueError

def band (a b : List Bool) : List Bool := List.zipWith (· && ·) a b
def bnot (a : List Bool) : List Bool := a.map (!·)

/-- `CP1Disk.contains(other, "elementwise")` on arrays of `n` disks -/
def containsElem (sAff oAff contain contained intersect : List Bool) : Except Err (List Bool) := do
  let res := List.replicate contain.length false
  let m1 := band sAff oAff
  let res ← maskAssign res m1 (maskSelect contain m1)
  let m2 := band (bnot sAff) oAff
  let res ← maskAssign res m2 (maskSelect (bnot intersect) m2)
  let m3 := band (bnot sAff) (bnot oAff)
  maskAssign res m3 (maskSelect contained m3)

/-- REPAIRED `CP1Disk.intersects(other, "elementwise")` -/
def intersectsElem (sAff oAff contain contained intersect : List Bool) : Except Err (List Bool) := do
  let res := List.replicate contain.length true
  let m1 := band sAff oAff
  let res ← maskAssign res m1 (maskSelect intersect m1)
  let m2 := band (bnot sAff) oAff
  let res ← maskAssign res m2 (maskSelect (bnot contain) m2)
  let m3 := band sAff (bnot oAff)
  maskAssign res m3 (maskSelect (bnot contained) m3)

/-- PINNED `intersects` (defect D9): the third assignment reads
`~contained[~s_aff & ~o_aff]` into the positions `s_aff & ~o_aff` -/
def intersectsElemPinned (sAff oAff contain contained intersect : List Bool) :
    Except Err (List Bool) := do
  let res := List.replicate contain.length true
  let m1 := band sAff oAff
  let res ← maskAssign res m1 (maskSelect intersect m1)
  let m2 := band (bnot sAff) oAff
  let res ← maskAssign res m2 (maskSelect (bnot contain) m2)
  let m3 := band sAff (bnot oAff)
  maskAssign res m3 (maskSelect (bnot contained) (band (bnot sAff) (bnot oAff)))

/-- `np.putmask(res, mask, values)` for arrays of one shape (flattened) -/
def putmask (res mask vals : List Bool) : List Bool :=
  List.zipWith (fun (rm : Bool × Bool) v => if rm.2 then v else rm.1) (List.zip res mask) vals

/-- outer product of masks, row-major: `expand_dims(a, 1) & expand_dims(b, 0)` -/
def outerAnd (a b : List Bool) : List Bool := a.flatMap fun x => b.map fun y => x && y

/-- `contains(other, "pairwise")`: the three `n × m` tables are flattened row-major -/
def containsPair (sAff oAff contain contained intersect : List Bool) : List Bool :=
  let res := List.replicate contain.length false
  let res := putmask res (outerAnd sAff oAff) contain
  let res := putmask res (outerAnd (bnot sAff) oAff) (bnot intersect)
  putmask res (outerAnd (bnot sAff) (bnot oAff)) contained

/-- `intersects(other, "pairwise")` -/
def intersectsPair (sAff oAff contain contained intersect : List Bool) : List Bool :=
  let res := List.replicate contain.length true
  let res := putmask res (outerAnd sAff oAff) intersect
  let res := putmask res (outerAnd (bnot sAff) oAff) (bnot contain)
  putmask res (outerAnd sAff (bnot oAff)) (bnot contained)

end GT.CP1
