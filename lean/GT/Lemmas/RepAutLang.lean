/-
C06, part 3: the *language* of `_automaton_accepted`.  The words of the specification
`accSpec` are, as a multiset (`List.Perm`), the label words of the paths of the automaton:
paths from the given start state (`as_start`), resp. paths from a start vertex to the given
end state, of length exactly `L` (`maxlen=False`) resp. at most `L`; and they agree with the
automaton's own `enumerate_words`.
-/
import Mathlib.Data.List.Perm.Basic
import GT.Lemmas.RepAutSpec

set_option linter.unusedSectionVars false

namespace GT.RepW

/-! ## list helpers -/

theorem flatMap_swap_perm {α β γ : Type} (l : List α) (m : List β) (f : α → β → List γ) :
    (l.flatMap fun a => m.flatMap fun b => f a b).Perm
      (m.flatMap fun b => l.flatMap fun a => f a b) := by
  induction l with
  | nil => simp
  | cons a l ih =>
    simp only [List.flatMap_cons]
    exact (List.Perm.append_left _ ih).trans (List.flatMap_append_perm m _ _)

theorem forall₂_flatten {α β : Type} {f : α → M? (List β)} {g : α → List β}
    (hfg : ∀ x y, f x = .ok y → y = g x) {l : List α} {parts : List (List β)}
    (h : List.Forall₂ (fun x y => f x = .ok y) l parts) : parts.flatten = l.flatMap g := by
  induction h with
  | nil => rfl
  | cons h1 _ ih =>
    rw [List.flatten_cons, List.flatMap_cons, ih, hfg _ _ h1]

theorem filter_or_perm {α : Type} (p q : α → Bool) (h : ∀ x, ¬(p x = true ∧ q x = true))
    (xs : List α) : (xs.filter fun x => p x || q x).Perm (xs.filter p ++ xs.filter q) := by
  induction xs with
  | nil => simp
  | cons x xs ih =>
    have := h x
    cases hp : p x <;> cases hq : q x <;> simp_all
    exact (List.Perm.cons x ih).trans List.perm_middle.symm

theorem flatMap_ite_nodup {α β : Type} [DecidableEq α] (g : α → List β) (t : α) :
    ∀ l : List α, l.Nodup →
      (l.flatMap fun u => if u = t then g u else []) = if t ∈ l then g t else []
  | [], _ => rfl
  | u :: l, h => by
    rw [List.nodup_cons] at h
    rw [List.flatMap_cons, flatMap_ite_nodup g t l h.2]
    by_cases hu : u = t
    · subst hu
      simp [h.1]
    · have : ¬ t = u := fun e => hu e.symm
      simp [hu, this]

namespace Aut
variable {V : Type} [DecidableEq V]

/-! ## reference path enumeration on the label view -/

/-- `_graph_dict[v].items()`, a vertex without entry having no edges -/
def succs (a : Aut V) (v : V) : List (String × V) := (a.succs? v).getD []

/-- all paths with exactly `k` edges from `v`: (concatenated labels, end vertex) -/
def pathsFrom (a : Aut V) : Nat → V → List (String × V)
  | 0, v => [("", v)]
  | k + 1, v => (a.succs v).flatMap fun ln =>
      (pathsFrom a k ln.2).map fun st => (ln.1 ++ st.1, st.2)

/-- label words of the paths with exactly `k` edges from `v` -/
def pathWords (a : Aut V) (k : Nat) (v : V) : List String := (a.pathsFrom k v).map Prod.fst

/-- label words of the paths with exactly `k` edges from `s` to `v` -/
def pathWordsTo (a : Aut V) (k : Nat) (s v : V) : List String :=
  ((a.pathsFrom k s).filter fun st => st.2 = v).map Prod.fst

/-- total version of `adj` (an unknown state has no out-edges) -/
def totalAdj (a : Aut V) (asStart : Bool) (v : V) : List (V × String) :=
  if asStart then flatAdj ((a.outDict? v).getD []) else flatAdj (a.inDict v)

def zeroWords (a : Aut V) (o : AccOpts) (v : V) : List String :=
  if o.asStart || a.starts.contains v then [""] else []

/-- the words of `accSpec`, computed without the representation -/
def accWords (a : Aut V) (o : AccOpts) : Nat → V → List String
  | 0, v => a.zeroWords o v
  | k + 1, v => (if o.maxlen then a.zeroWords o v else []) ++
      (a.totalAdj o.asStart v).flatMap fun wl =>
        (accWords a o k wl.1).map fun s => if o.asStart then wl.2 ++ s else s ++ wl.2

theorem adj_ok {a : Aut V} {b : Bool} {v : V} {edges : List (V × String)}
    (h : a.adj b v = .ok edges) : a.totalAdj b v = edges := by
  unfold adj at h
  unfold totalAdj
  cases b
  · simp only [Bool.false_eq_true, if_false] at h ⊢
    cases h; rfl
  · simp only [if_true] at h ⊢
    cases hO : a.outDict? v with
    | none => rw [hO] at h; cases h
    | some d => rw [hO] at h; cases h; rfl

end Aut

namespace Rep
variable {V : Type} [DecidableEq V] {n : ℕ} {R : Type} [Inhabited R] [CommRing R]

theorem zeroPairs_fst (a : Aut V) (o : AccOpts) (v : V) :
    (zeroPairs (n := n) (R := R) a o v).map Prod.fst = a.zeroWords o v := by
  unfold zeroPairs Aut.zeroWords
  split_ifs <;> rfl

/-- the words of the specification do not depend on the representation -/
theorem accSpec_words (ρ : Rep n R) (hp : ρ.parseSimple = true) (a : Aut V) (o : AccOpts) :
    ∀ (L : Nat) (v : V) (pairs : List (String × DMat n n R)),
      ρ.accSpec a o L v = .ok pairs → pairs.map Prod.fst = a.accWords o L v
  | 0, v, pairs, h => by
    rw [accSpec_zero] at h
    cases h
    exact zeroPairs_fst a o v
  | k + 1, v, pairs, h => by
    obtain ⟨edges, parts, hadj, hF, rfl⟩ := accSpec_succ_ok h
    unfold Aut.accWords
    rw [Aut.adj_ok hadj, List.map_append]
    congr 1
    · split_ifs
      · exact zeroPairs_fst a o v
      · rfl
    · clear hadj h
      induction hF with
      | nil => rfl
      | cons h1 _ ih =>
        rw [List.flatten_cons, List.map_append, List.flatMap_cons, ih]
        congr 1
        obtain ⟨r, e, hr, he, rfl⟩ := specBody_ok h1
        rw [extendPairs_fst, accSpec_words ρ hp a o k _ r hr]
        simp only [joinW_simple hp]
        cases o.asStart <;> rfl

end Rep

namespace Aut
variable {V : Type} [DecidableEq V]

/-! ## `out_dict[v]` is a regrouping of `graph_dict[v]` -/

theorem flatAdj_nil : flatAdj ([] : List (V × List String)) = [] := rfl

theorem flatAdj_cons (k : V) (ls : List String) (d : List (V × List String)) :
    flatAdj ((k, ls) :: d) = ls.map (fun l => (k, l)) ++ flatAdj d := rfl

/-- `out_dict[v][neighbor].append(label)` adds exactly one (neighbour, label) pair -/
theorem flatAdj_dset_perm (k : V) (l : String) :
    ∀ acc : List (V × List String),
      (flatAdj (dset acc k ((dget acc k).getD [] ++ [l]))).Perm (flatAdj acc ++ [(k, l)])
  | [] => by
    simp [dset, dget, flatAdj]
  | (k0, ls) :: acc => by
    by_cases h : k0 = k
    · subst h
      simp only [dset, dget, if_true, Option.getD_some, flatAdj_cons, List.map_append,
        List.map_cons, List.map_nil, List.append_assoc]
      exact (List.Perm.append_left _ List.perm_append_comm)
    · simp only [dset, dget, if_neg h, flatAdj_cons, List.append_assoc]
      exact List.Perm.append_left _ (flatAdj_dset_perm k l acc)

theorem flatAdj_foldl_perm (e : List (String × V)) :
    ∀ acc : List (V × List String),
      (flatAdj (e.foldl (fun acc ln => dset acc ln.2 ((dget acc ln.2).getD [] ++ [ln.1])) acc)).Perm
        (flatAdj acc ++ e.map fun ln => (ln.2, ln.1)) := by
  induction e with
  | nil => intro acc; simp
  | cons ln e ih =>
    intro acc
    rw [List.foldl_cons, List.map_cons]
    refine (ih _).trans ?_
    refine ((flatAdj_dset_perm ln.2 ln.1 acc).append_right _).trans ?_
    simp

/-- the flattened `out_dict` row is a permutation of the `graph_dict` row -/
theorem flatAdj_groupOut_perm (e : List (String × V)) :
    (flatAdj (groupOut e)).Perm (e.map fun ln => (ln.2, ln.1)) := by
  have := flatAdj_foldl_perm e []
  simpa [groupOut, flatAdj_nil] using this

theorem outDict_getD (a : Aut V) (v : V) : (a.outDict? v).getD [] = groupOut (a.succs v) := by
  unfold outDict? succs
  cases a.succs? v <;> rfl

theorem totalAdj_start_perm (a : Aut V) (v : V) :
    (a.totalAdj true v).Perm ((a.succs v).map fun ln => (ln.2, ln.1)) := by
  unfold totalAdj
  rw [if_pos rfl, outDict_getD]
  exact flatAdj_groupOut_perm _

/-! ## start direction -/

theorem pathWords_zero (a : Aut V) (v : V) : a.pathWords 0 v = [""] := rfl

theorem pathWords_succ (a : Aut V) (k : Nat) (v : V) :
    a.pathWords (k + 1) v =
      (a.succs v).flatMap fun ln => (a.pathWords k ln.2).map fun s => ln.1 ++ s := by
  unfold pathWords
  simp only [pathsFrom, List.map_flatMap, List.map_map]
  rfl

theorem zeroWords_start (a : Aut V) (o : AccOpts) (h : o.asStart = true) (v : V) :
    a.zeroWords o v = [""] := by
  unfold zeroWords
  simp [h]

/-- `as_start`, `maxlen=False`: the words are those of the paths with exactly `L` edges -/
theorem accWords_start_exact (a : Aut V) (o : AccOpts) (h1 : o.asStart = true)
    (h2 : o.maxlen = false) : ∀ (L : Nat) (v : V), (a.accWords o L v).Perm (a.pathWords L v)
  | 0, v => by
    unfold accWords
    rw [zeroWords_start a o h1, pathWords_zero]
  | k + 1, v => by
    unfold accWords
    rw [h1, h2, pathWords_succ]
    simp only [Bool.false_eq_true, if_false, List.nil_append, if_true]
    refine (List.Perm.flatMap_right _ (totalAdj_start_perm a v)).trans ?_
    rw [List.flatMap_map]
    exact List.Perm.flatMap_left _ fun ln _ => (accWords_start_exact a o h1 h2 k ln.2).map _

theorem zeroWords_maxlen_irrel (a : Aut V) (o : AccOpts) (b : Bool) (v : V) :
    a.zeroWords { o with maxlen := b } v = a.zeroWords o v := rfl

/-- `maxlen=True` is the concatenation of the `maxlen=False` answers for `0, …, L`
(either direction) -/
theorem accWords_maxlen (a : Aut V) (o : AccOpts) (h : o.maxlen = true) :
    ∀ (L : Nat) (v : V), (a.accWords o L v).Perm
      ((List.range (L + 1)).flatMap fun j => a.accWords { o with maxlen := false } j v)
  | 0, v => by
    simp [accWords, zeroWords_maxlen_irrel]
  | L + 1, v => by
    rw [List.range_succ_eq_map, List.flatMap_cons, List.flatMap_map]
    conv_lhs => unfold accWords
    rw [h, if_pos rfl]
    refine List.Perm.append (by rw [accWords]; exact List.Perm.refl _) ?_
    have ih := accWords_maxlen a o h L
    refine (List.Perm.flatMap_left _ fun wl _ => (ih wl.1).map _).trans ?_
    simp only [List.map_flatMap]
    refine (flatMap_swap_perm _ _ _).trans ?_
    refine List.Perm.flatMap_left _ fun j _ => ?_
    simp only [accWords]
    simp

/-- `as_start`, `maxlen=True`: the words are those of the paths with at most `L` edges -/
theorem accWords_start_maxlen (a : Aut V) (o : AccOpts) (h1 : o.asStart = true)
    (h2 : o.maxlen = true) (L : Nat) (v : V) :
    (a.accWords o L v).Perm ((List.range (L + 1)).flatMap fun j => a.pathWords j v) :=
  (accWords_maxlen a o h2 L v).trans
    (List.Perm.flatMap_left _ fun j _ =>
      accWords_start_exact a { o with maxlen := false } h1 rfl j v)


/-! ## `enumerate_fixed_length_paths` / `enumerate_words` -/

/-- paths can equally be extended at their end (the order of enumeration is the same) -/
theorem pathsFrom_succ_right (a : Aut V) : ∀ (k : Nat) (v : V),
    a.pathsFrom (k + 1) v =
      (a.pathsFrom k v).flatMap fun st => (a.succs st.2).map fun ln => (st.1 ++ ln.1, ln.2)
  | 0, v => by
    simp [pathsFrom, List.flatMap_singleton', List.map_eq_flatMap]
  | k + 1, v => by
    have ih := pathsFrom_succ_right a k
    have e1 : a.pathsFrom (k + 2) v = (a.succs v).flatMap fun ln =>
      (a.pathsFrom (k + 1) ln.2).map fun st => (ln.1 ++ st.1, st.2) := rfl
    have e2 : a.pathsFrom (k + 1) v = (a.succs v).flatMap fun ln =>
      (a.pathsFrom k ln.2).map fun st => (ln.1 ++ st.1, st.2) := rfl
    rw [e1, e2]
    simp only [ih]
    simp [List.flatMap_assoc, List.flatMap_map, List.map_flatMap, String.append_assoc,
      Function.comp_def]

/-- `enumerate_fixed_length_paths(k, s, with_states=True)`, when it does not raise, is the
reference path enumeration -/
theorem enumFixed_eq (a : Aut V) (s : V) : ∀ (k : Nat) (xs : List (String × V)),
    a.enumFixed s k = .ok xs → xs = a.pathsFrom k s
  | 0, xs, h => by
    unfold enumFixed at h
    cases h
    rfl
  | k + 1, xs, h => by
    unfold enumFixed at h
    obtain ⟨ys, hys, h⟩ := Rep.bind_ok h
    obtain ⟨parts, hparts, h⟩ := Rep.bind_ok h
    cases h
    rw [enumFixed_eq a s k ys hys] at hparts
    rw [pathsFrom_succ_right]
    refine forall₂_flatten (fun wv y hy => ?_) ((mapM_ok_iff _ _ _).1 hparts)
    unfold succs
    cases hs : a.succs? wv.2 with
    | none => rw [hs] at hy; cases hy
    | some e => rw [hs] at hy; cases hy; rfl

theorem enumWords_eq (a : Aut V) (s : V) (L : Nat) (xs : List (String × V))
    (h : a.enumWords s L = .ok xs) :
    xs = (List.range (L + 1)).flatMap fun j => a.pathsFrom j s := by
  unfold enumWords at h
  obtain ⟨parts, hparts, h⟩ := Rep.bind_ok h
  cases h
  exact forall₂_flatten (fun j y hy => enumFixed_eq a s j y hy) ((mapM_ok_iff _ _ _).1 hparts)

/-! ## end direction -/

/-- well-formedness of the Python data: dict keys are distinct, start vertices listed once -/
structure WF (a : Aut V) : Prop where
  keys_nodup : (a.graph.map Prod.fst).Nodup
  starts_nodup : a.starts.Nodup

theorem hidden_inv (a : Aut V) :
    a.hidden.Nodup ∧ ∀ x ∈ a.hidden, x ∉ a.graph.map Prod.fst := by
  unfold hidden
  generalize a.graph.map Prod.fst = keys
  have inner : ∀ (e : List (String × V)) (hid : List V),
      (hid.Nodup ∧ ∀ x ∈ hid, x ∉ keys) →
      ((e.foldl (fun hid ln => if ln.2 ∉ keys ∧ ln.2 ∉ hid then hid ++ [ln.2] else hid) hid).Nodup ∧
        ∀ x ∈ e.foldl (fun hid ln => if ln.2 ∉ keys ∧ ln.2 ∉ hid then hid ++ [ln.2] else hid) hid,
          x ∉ keys) := by
    intro e
    induction e with
    | nil => intro hid h; exact h
    | cons ln e ih =>
      intro hid h
      rw [List.foldl_cons]
      apply ih
      split_ifs with hc
      · refine ⟨?_, ?_⟩
        · rw [List.nodup_append]
          refine ⟨h.1, List.nodup_singleton _, ?_⟩
          intro x hx y hy
          rw [List.mem_singleton] at hy
          subst hy
          intro hxy
          subst hxy
          exact hc.2 hx
        · intro x hx
          rw [List.mem_append, List.mem_singleton] at hx
          rcases hx with hx | rfl
          · exact h.2 x hx
          · exact hc.1
      · exact h
  have outer : ∀ (g : List (V × List (String × V))) (hid : List V),
      (hid.Nodup ∧ ∀ x ∈ hid, x ∉ keys) →
      ((g.foldl (fun hid vn => vn.2.foldl
          (fun hid ln => if ln.2 ∉ keys ∧ ln.2 ∉ hid then hid ++ [ln.2] else hid) hid) hid).Nodup ∧
        ∀ x ∈ g.foldl (fun hid vn => vn.2.foldl
          (fun hid ln => if ln.2 ∉ keys ∧ ln.2 ∉ hid then hid ++ [ln.2] else hid) hid) hid,
          x ∉ keys) := by
    intro g
    induction g with
    | nil => intro hid h; exact h
    | cons vn g ih =>
      intro hid h
      rw [List.foldl_cons]
      exact ih _ (inner vn.2 hid h)
  exact outer a.graph [] ⟨List.nodup_nil, fun x hx => by cases hx⟩

theorem vertices_nodup {a : Aut V} (h : a.WF) : a.vertices.Nodup := by
  unfold vertices
  rw [List.nodup_append]
  refine ⟨h.keys_nodup, (hidden_inv a).1, ?_⟩
  intro x hx y hy hxy
  subst hxy
  exact (hidden_inv a).2 x hy hx

theorem dget_some_mem {κ ν : Type} [DecidableEq κ] :
    ∀ (d : List (κ × ν)) (k : κ) (v : ν), dget d k = some v → k ∈ d.map Prod.fst
  | [], k, v, h => by cases h
  | (k0, v0) :: d, k, v, h => by
    simp only [dget] at h
    by_cases hk : k0 = k
    · simp [hk]
    · rw [if_neg hk] at h
      simp only [List.map_cons, List.mem_cons]
      exact Or.inr (dget_some_mem d k v h)

theorem succs_of_not_mem (a : Aut V) (v : V) (h : v ∉ a.vertices) : a.succs v = [] := by
  unfold succs succs?
  unfold vertices at h
  rw [List.mem_append, not_or] at h
  cases hd : dget a.graph v with
  | some e => exact absurd (dget_some_mem _ _ _ hd) h.1
  | none => simp [h.2]

/-- all edges into `v`: (tail vertex, label), tails in the order of the `graph_dict` keys -/
def preds (a : Aut V) (v : V) : List (V × String) :=
  a.vertices.flatMap fun u =>
    (a.succs u).filterMap fun ln => if ln.2 = v then some (u, ln.1) else none

theorem flatAdj_filterMap (u v : V) : ∀ d : List (V × List String),
    flatAdj (d.filterMap fun wl => if wl.1 = v then some (u, wl.2) else none) =
      (flatAdj d).filterMap fun wl => if wl.1 = v then some (u, wl.2) else none
  | [] => rfl
  | (k, ls) :: d => by
    rw [flatAdj_cons, List.filterMap_append, ← flatAdj_filterMap u v d, List.filterMap_cons]
    by_cases hk : k = v
    · simp [hk, flatAdj_cons, List.filterMap_map]
    · simp [hk, List.filterMap_map]

theorem flatAdj_flatMap {α : Type} (l : List α) (f : α → List (V × List String)) :
    flatAdj (l.flatMap f) = l.flatMap fun x => flatAdj (f x) := by
  unfold flatAdj
  rw [List.flatMap_assoc]

/-- the flattened `in_dict[v]` is a permutation of the edges into `v` -/
theorem flatAdj_inDict_perm (a : Aut V) (v : V) : (flatAdj (a.inDict v)).Perm (a.preds v) := by
  unfold inDict preds
  rw [flatAdj_flatMap]
  refine List.Perm.flatMap_left _ fun u _ => ?_
  rw [flatAdj_filterMap, outDict_getD]
  refine ((flatAdj_groupOut_perm (a.succs u)).filterMap _).trans ?_
  rw [List.filterMap_map]
  exact List.Perm.refl _

/-- all paths with exactly `k` edges into `v`: (concatenated labels, first vertex) -/
def pathsInto (a : Aut V) : Nat → V → List (String × V)
  | 0, v => [("", v)]
  | k + 1, v => (a.preds v).flatMap fun ul =>
      (pathsInto a k ul.1).map fun st => (st.1 ++ ul.2, st.2)

/-- words of the paths of length `k` into `v` whose first vertex satisfies `p` -/
def intoWords (a : Aut V) (p : V → Bool) (k : Nat) (v : V) : List String :=
  ((a.pathsInto k v).filter fun st => p st.2).map Prod.fst

theorem intoWords_zero (a : Aut V) (p : V → Bool) (v : V) :
    a.intoWords p 0 v = if p v then [""] else [] := by
  unfold intoWords pathsInto
  cases h : p v <;> simp [h]

theorem intoWords_succ (a : Aut V) (p : V → Bool) (k : Nat) (v : V) :
    a.intoWords p (k + 1) v =
      (a.preds v).flatMap fun ul => (a.intoWords p k ul.1).map fun s => s ++ ul.2 := by
  unfold intoWords
  simp [pathsInto, List.filter_flatMap, List.filter_map, List.map_flatMap, Function.comp_def]

/-- `as_start=False`, `maxlen=False`, in terms of backward paths -/
theorem accWords_end_into (a : Aut V) (o : AccOpts) (h1 : o.asStart = false)
    (h2 : o.maxlen = false) : ∀ (L : Nat) (v : V),
    (a.accWords o L v).Perm (a.intoWords (fun s => a.starts.contains s) L v)
  | 0, v => by
    rw [intoWords_zero]
    unfold accWords zeroWords
    rw [h1]
    simp
  | k + 1, v => by
    unfold accWords
    rw [h1, h2, intoWords_succ]
    simp only [Bool.false_eq_true, if_false, List.nil_append]
    have : a.totalAdj false v = flatAdj (a.inDict v) := rfl
    rw [this]
    exact List.Perm.flatMap (flatAdj_inDict_perm a v)
      fun wl _ => (accWords_end_into a o h1 h2 k wl.1).map _

theorem filter_map_eq_flatMap {α β : Type} (p : α → Bool) (f : α → β) (xs : List α) :
    (xs.filter p).map f = xs.flatMap fun x => if p x then [f x] else [] := by
  induction xs with
  | nil => rfl
  | cons x xs ih =>
    cases h : p x <;> simp [h, ih]

theorem preds_flatMap_tail (a : Aut V) (h : a.WF) (v t : V) (x : String) :
    ((a.preds v).flatMap fun ul => if t = ul.1 then [x ++ ul.2] else []) =
      ((a.succs t).filter fun ln => ln.2 = v).map fun ln => x ++ ln.1 := by
  unfold preds
  rw [List.flatMap_assoc]
  have inner : ∀ (u : V) (e : List (String × V)),
      ((e.filterMap fun ln => if ln.2 = v then some (u, ln.1) else none).flatMap
        fun ul => if t = ul.1 then [x ++ ul.2] else []) =
      if u = t then ((e.filter fun ln => ln.2 = v).map fun ln => x ++ ln.1) else [] := by
    intro u e
    induction e with
    | nil => simp
    | cons ln e ih =>
      by_cases h1 : ln.2 = v <;> by_cases h2 : u = t
      · subst h2; simp [h1] at ih ⊢; exact ih
      · have : ¬ t = u := fun e => h2 e.symm
        simp [h1, h2, this] at ih ⊢
      · subst h2; simp [h1] at ih ⊢; exact ih
      · simp [h1, h2] at ih ⊢; exact ih
  simp only [inner]
  rw [flatMap_ite_nodup (fun u => ((a.succs u).filter fun ln => ln.2 = v).map fun ln => x ++ ln.1)
    t a.vertices (vertices_nodup h)]
  split_ifs with hm
  · rfl
  · rw [succs_of_not_mem a t hm]
    rfl

theorem pathWordsTo_zero (a : Aut V) (s v : V) :
    a.pathWordsTo 0 s v = if s = v then [""] else [] := by
  unfold pathWordsTo pathsFrom
  by_cases h : s = v <;> simp [h]

theorem pathWordsTo_succ (a : Aut V) (k : Nat) (s v : V) :
    a.pathWordsTo (k + 1) s v = (a.pathsFrom k s).flatMap fun st =>
      ((a.succs st.2).filter fun ln => ln.2 = v).map fun ln => st.1 ++ ln.1 := by
  unfold pathWordsTo
  rw [pathsFrom_succ_right]
  simp [List.filter_flatMap, List.filter_map, List.map_flatMap, Function.comp_def]

/-- counting the paths of length `k` from `s` to `v` backwards or forwards gives the same
multiset of words -/
theorem intoWords_perm_pathWordsTo (a : Aut V) (h : a.WF) : ∀ (k : Nat) (s v : V),
    (a.intoWords (fun t => t = s) k v).Perm (a.pathWordsTo k s v)
  | 0, s, v => by
    rw [intoWords_zero, pathWordsTo_zero]
    by_cases hsv : s = v
    · subst hsv; simp
    · have : ¬ v = s := fun e => hsv e.symm
      simp [hsv, this]
  | k + 1, s, v => by
    rw [intoWords_succ, pathWordsTo_succ]
    refine (List.Perm.flatMap_left _ fun ul _ =>
      (intoWords_perm_pathWordsTo a h k s ul.1).map _).trans ?_
    unfold pathWordsTo
    conv_lhs => simp only [List.map_map, filter_map_eq_flatMap, List.map_flatMap]
    refine (flatMap_swap_perm _ _ _).trans ?_
    refine List.Perm.flatMap_left _ fun st _ => ?_
    rw [← preds_flatMap_tail a h v st.2 st.1]
    refine List.Perm.of_eq ?_
    congr 1
    funext ul
    by_cases hc : st.2 = ul.1 <;> simp [hc]

theorem filter_contains_perm {α β : Type} [DecidableEq β] (f : α → β) (xs : List α) :
    ∀ l : List β, l.Nodup →
      (xs.filter fun x => l.contains (f x)).Perm
        (l.flatMap fun s => xs.filter fun x => f x = s)
  | [], _ => by simp
  | s :: l, h => by
    rw [List.nodup_cons] at h
    rw [List.flatMap_cons]
    refine List.Perm.trans ?_
      (List.Perm.append_left _ (filter_contains_perm f xs l h.2))
    have := filter_or_perm (fun x => decide (f x = s)) (fun x => l.contains (f x))
      (fun x hx => by
        simp only [decide_eq_true_eq, List.contains_iff_mem] at hx
        exact h.1 (hx.1 ▸ hx.2)) xs
    exact List.Perm.trans (List.Perm.of_eq rfl) this

/-- `as_start=False`, `maxlen=False`: the words are those of the paths with exactly `L` edges
from a start vertex to the given state -/
theorem accWords_end_exact (a : Aut V) (h : a.WF) (o : AccOpts) (h1 : o.asStart = false)
    (h2 : o.maxlen = false) (L : Nat) (v : V) :
    (a.accWords o L v).Perm (a.starts.flatMap fun s => a.pathWordsTo L s v) := by
  refine (accWords_end_into a o h1 h2 L v).trans ?_
  unfold intoWords
  refine ((filter_contains_perm (fun st : String × V => st.2) (a.pathsInto L v)
    a.starts h.starts_nodup).map Prod.fst).trans ?_
  rw [List.map_flatMap]
  exact List.Perm.flatMap_left _ fun s _ => intoWords_perm_pathWordsTo a h L s v

/-- `as_start=False`, `maxlen=True`: paths with at most `L` edges -/
theorem accWords_end_maxlen (a : Aut V) (h : a.WF) (o : AccOpts) (h1 : o.asStart = false)
    (h2 : o.maxlen = true) (L : Nat) (v : V) :
    (a.accWords o L v).Perm
      ((List.range (L + 1)).flatMap fun j => a.starts.flatMap fun s => a.pathWordsTo j s v) :=
  (accWords_maxlen a o h2 L v).trans
    (List.Perm.flatMap_left _ fun j _ =>
      accWords_end_exact a h { o with maxlen := false } h1 rfl j v)

end Aut

namespace Rep
variable {V : Type} [DecidableEq V] {n : ℕ} {R : Type} [Inhabited R] [CommRing R]

/-- the reference language for a start state: label words of all paths from `v` with exactly
`L` edges (`maxlen=False`) resp. at most `L` edges, one entry per path -/
def startLang (a : Aut V) (maxlen : Bool) (L : Nat) (v : V) : List String :=
  if maxlen then (List.range (L + 1)).flatMap fun j => a.pathWords j v else a.pathWords L v

/-- the reference language for an end state: label words of all paths from a start vertex to
`v` with exactly / at most `L` edges, one entry per path -/
def endLang (a : Aut V) (maxlen : Bool) (L : Nat) (v : V) : List String :=
  if maxlen then (List.range (L + 1)).flatMap fun j => a.starts.flatMap fun s => a.pathWordsTo j s v
  else a.starts.flatMap fun s => a.pathWordsTo L s v

/-- **`accepted_words_start`**: with `as_start`, the returned words are exactly the label
words of the paths from the state, each once per path -/
theorem accepted_words_start (ρ : Rep n R) (hp : ρ.parseSimple = true) (a : Aut V) (o : AccOpts) (h1 : o.asStart = true)
    (L : Nat) (v : V) (pairs : List (String × DMat n n R))
    (h : ρ.accSpec a o L v = .ok pairs) :
    (pairs.map Prod.fst).Perm (startLang a o.maxlen L v) := by
  rw [accSpec_words ρ hp a o L v pairs h]
  unfold startLang
  cases h2 : o.maxlen
  · exact Aut.accWords_start_exact a o h1 h2 L v
  · exact Aut.accWords_start_maxlen a o h1 h2 L v

/-- **`accepted_words_end`**: with an end state, the returned words are exactly the label
words of the paths from a start vertex to that state, each once per path -/
theorem accepted_words_end (ρ : Rep n R) (hp : ρ.parseSimple = true) (a : Aut V) (hwf : a.WF) (o : AccOpts)
    (h1 : o.asStart = false) (L : Nat) (v : V) (pairs : List (String × DMat n n R))
    (h : ρ.accSpec a o L v = .ok pairs) :
    (pairs.map Prod.fst).Perm (endLang a o.maxlen L v) := by
  rw [accSpec_words ρ hp a o L v pairs h]
  unfold endLang
  cases h2 : o.maxlen
  · exact Aut.accWords_end_exact a hwf o h1 h2 L v
  · exact Aut.accWords_end_maxlen a hwf o h1 h2 L v

/-- **`accepted_eq_enumerate`**: agreement with the automaton's own `enumerate_words` -/
theorem accepted_eq_enumerate (ρ : Rep n R) (hp : ρ.parseSimple = true) (a : Aut V) (o : AccOpts) (h1 : o.asStart = true)
    (h2 : o.maxlen = true) (L : Nat) (v : V) (pairs : List (String × DMat n n R))
    (ws : List (String × V)) (h : ρ.accSpec a o L v = .ok pairs)
    (he : a.enumWords v L = .ok ws) : (pairs.map Prod.fst).Perm (ws.map Prod.fst) := by
  have := accepted_words_start ρ hp a o h1 L v pairs h
  rw [Aut.enumWords_eq a v L ws he, List.map_flatMap]
  unfold startLang at this
  rw [h2, if_pos rfl] at this
  exact this

/-- … and, for `maxlen=False`, with `enumerate_fixed_length_paths` -/
theorem accepted_eq_enumFixed (ρ : Rep n R) (hp : ρ.parseSimple = true) (a : Aut V) (o : AccOpts) (h1 : o.asStart = true)
    (h2 : o.maxlen = false) (L : Nat) (v : V) (pairs : List (String × DMat n n R))
    (ws : List (String × V)) (h : ρ.accSpec a o L v = .ok pairs)
    (he : a.enumFixed v L = .ok ws) : (pairs.map Prod.fst).Perm (ws.map Prod.fst) := by
  have := accepted_words_start ρ hp a o h1 L v pairs h
  rw [Aut.enumFixed_eq a v L ws he]
  unfold startLang at this
  rw [h2] at this
  exact this

/-- the language of the public wrapper, start direction (`end_state=None`):
`start_state=None` means `start_vertices[0]` -/
theorem automatonAccepted_words_start (ρ : Rep n R) (hp : ρ.parseSimple = true) (a : Aut V) (L : Nat) (maxlen : Bool)
    (startState : Option V) (memo memo' : Memo V n R) (edgeWords : Bool) (res : AccRes n R)
    (s : V) (hs : (startState <|> a.starts.head?) = some s)
    (hm : MemoOK ρ a (topOpts maxlen true (none : Option V) edgeWords) memo)
    (h : ρ.automatonAccepted a L maxlen true startState none memo edgeWords = .ok (res, memo')) :
    res.words.Perm (startLang a maxlen L s) := by
  obtain ⟨⟨pairs, hsp, rfl⟩, _⟩ :=
    automatonAccepted_sound ρ a L maxlen true startState none memo memo' edgeWords res hm h
  have hw : (toRes (topOpts maxlen true (none : Option V) edgeWords) pairs).words =
      pairs.map Prod.fst := rfl
  rw [hw]
  unfold topSpec at hsp
  cases startState with
  | some s0 =>
    cases hs
    exact accepted_words_start ρ hp a ⟨maxlen, true, true, edgeWords⟩ rfl L _ pairs hsp
  | none =>
    cases L with
    | zero =>
      simp only [accSpecO] at hsp
      cases hsp
      unfold startLang
      cases maxlen <;> simp [Aut.pathWords_zero]
    | succ k =>
      simp only [accSpecO] at hsp
      cases hst : a.starts with
      | nil => rw [hst] at hsp; cases hsp
      | cons s0 t =>
        rw [hst] at hsp hs
        cases hs
        exact accepted_words_start ρ hp a ⟨maxlen, true, true, edgeWords⟩ rfl (k + 1) _ pairs hsp

/-- the language of the public wrapper, end direction -/
theorem automatonAccepted_words_end (ρ : Rep n R) (hp : ρ.parseSimple = true) (a : Aut V) (hwf : a.WF) (L : Nat)
    (maxlen : Bool) (e : V) (memo memo' : Memo V n R) (edgeWords : Bool) (res : AccRes n R)
    (hm : MemoOK ρ a (topOpts maxlen true (some e) edgeWords) memo)
    (h : ρ.automatonAccepted a L maxlen true none (some e) memo edgeWords = .ok (res, memo')) :
    res.words.Perm (endLang a maxlen L e) := by
  obtain ⟨⟨pairs, hsp, rfl⟩, _⟩ :=
    automatonAccepted_sound ρ a L maxlen true none (some e) memo memo' edgeWords res hm h
  exact accepted_words_end ρ hp a hwf ⟨maxlen, true, false, edgeWords⟩ rfl L e pairs hsp

/-- the public wrapper agrees with `automaton.enumerate_words(length, start_vertex)` as a
multiset of words (`maxlen=True`, `with_words=True`) -/
theorem automatonAccepted_eq_enumerate (ρ : Rep n R) (hp : ρ.parseSimple = true) (a : Aut V) (L : Nat)
    (startState : Option V) (memo memo' : Memo V n R) (edgeWords : Bool) (res : AccRes n R)
    (s : V) (hs : (startState <|> a.starts.head?) = some s) (ws : List (String × V))
    (hm : MemoOK ρ a (topOpts true true (none : Option V) edgeWords) memo)
    (h : ρ.automatonAccepted a L true true startState none memo edgeWords = .ok (res, memo'))
    (he : a.enumWords s L = .ok ws) : res.words.Perm (ws.map Prod.fst) := by
  have := automatonAccepted_words_start ρ hp a L true startState memo memo' edgeWords res s hs hm h
  rw [Aut.enumWords_eq a s L ws he, List.map_flatMap]
  exact this

end Rep
end GT.RepW
