import GT.Model.Circle
import Mathlib.Tactic.Linarith
import Mathlib.Tactic.Positivity
import Mathlib.Tactic.Ring
/-!
Cyclic-order lemmas for `utils.arc_include` in the direction model of `GT.Model.Circle` (angles are represented by the
non-zero vectors whose `arctan2` is taken; `angLt` compares their angles in `[0, 2π)`).  Used by
`GT.C14.arcInclude_contains` / `horoArc_excludes`.
-/
namespace GT.Circle

set_option linter.unusedSectionVars false
set_option linter.unusedVariables false

variable {K : Type*} [Field K] [LinearOrder K] [IsStrictOrderedRing K]

theorem upperHalf_iff (u : K × K) : upperHalf u = true ↔ (0 < u.2 ∨ (u.2 = 0 ∧ 0 < u.1)) := by
  simp [upperHalf]

theorem angLt_iff (u v : K × K) : angLt u v = true ↔
    ((upperHalf u = true ∧ upperHalf v = false) ∨
     ((upperHalf u = true ↔ upperHalf v = true) ∧ 0 < cross2 u v)) := by
  unfold angLt
  cases hu : upperHalf u <;> cases hv : upperHalf v <;> simp

/-- core cyclic-order fact: if the angle of `p` is smaller than the angle of `q` (both in `[0,2π)`) and `p` is
not on the positive real axis, then the angle of `p̄` (= `2π − θ_p`) is not smaller than the angle of `p̄ q` (= `θ_q − θ_p`) -/
theorem cyc_core (a b c d : K) (hp : b ≠ 0 ∨ a < 0)
    (h : angLt (a, b) (c, d) = true) :
    angLt (a, -b) (a * c + b * d, a * d - b * c) = false := by
  rw [Bool.eq_false_iff]
  intro h2
  rw [angLt_iff] at h h2
  simp only [upperHalf_iff, Bool.eq_false_iff, ne_eq, cross2] at h h2
  have hn : 0 < a * a + b * b := by
    rcases hp with hb | ha
    · have := mul_self_pos.2 hb; nlinarith [mul_self_nonneg a]
    · nlinarith [mul_self_nonneg b]
  have hc : a * (a * d - b * c) - -b * (a * c + b * d) = (a * a + b * b) * d := by ring
  have hd : 0 < a * (a * d - b * c) - -b * (a * c + b * d) ↔ 0 < d := by
    rw [hc]; constructor
    · intro h0; by_contra hh; rw [not_lt] at hh; nlinarith
    · intro h0; positivity
  rcases lt_trichotomy b 0 with hb | hb | hb
  · -- b < 0: p in the lower half plane
    have hUp : ¬ (0 < b ∨ b = 0 ∧ 0 < a) := by
      rintro (h0 | ⟨h0, _⟩) <;> linarith
    rcases h with ⟨h1, _⟩ | ⟨h1, hX⟩
    · exact hUp h1
    · have hUq : ¬ (0 < d ∨ d = 0 ∧ 0 < c) := fun hh => hUp (h1.2 hh)
      rcases h2 with ⟨_, h4⟩ | ⟨_, h4⟩
      · exact h4 (Or.inl hX)
      · exact hUq (Or.inl (hd.1 h4))
  · -- b = 0, a < 0
    subst hb
    have ha : a < 0 := by
      rcases hp with h0 | h0
      · exact absurd rfl h0
      · exact h0
    have hUp : ¬ (0 < (0:K) ∨ (0:K) = 0 ∧ 0 < a) := by
      rintro (h0 | ⟨_, h0⟩) <;> linarith
    have hUpb : ¬ (0 < -(0:K) ∨ -(0:K) = 0 ∧ 0 < a) := by
      rintro (h0 | ⟨_, h0⟩)
      · simp at h0
      · linarith
    rcases h with ⟨h1, _⟩ | ⟨_, hX⟩
    · exact hUp h1
    · rcases h2 with ⟨h3, _⟩ | ⟨_, h4⟩
      · exact hUpb h3
      · have : 0 < d := hd.1 h4
        nlinarith
  · -- 0 < b
    have hUpb : ¬ (0 < -b ∨ -b = 0 ∧ 0 < a) := by
      rintro (h0 | ⟨h0, _⟩) <;> linarith
    rcases h2 with ⟨h3, _⟩ | ⟨h3, h4⟩
    · exact hUpb h3
    · have hdpos : 0 < d := hd.1 h4
      have hUw : ¬ (0 < a * d - b * c ∨ a * d - b * c = 0 ∧ 0 < a * c + b * d) := fun hh => hUpb (h3.2 hh)
      rcases h with ⟨_, h5⟩ | ⟨_, hX⟩
      · exact h5 (Or.inl hdpos)
      · exact hUw (Or.inl hX)

/-- `angLt` only depends on the directions: positive rescaling of either vector changes nothing -/
theorem angLt_smul (u v : K × K) {s t : K} (hs : 0 < s) (ht : 0 < t) :
    angLt (s * u.1, s * u.2) (t * v.1, t * v.2) = angLt u v := by
  have hU : ∀ (w : K × K) {r : K}, 0 < r → upperHalf (r * w.1, r * w.2) = upperHalf w := by
    intro w r hr
    have h1 : (0 < r * w.2) ↔ 0 < w.2 := by
      constructor
      · intro h; by_contra hh; rw [not_lt] at hh; nlinarith
      · intro h; positivity
    have h2 : (r * w.2 = 0) ↔ w.2 = 0 := by
      constructor
      · intro h; rcases mul_eq_zero.1 h with h0 | h0
        · exact absurd h0 hr.ne'
        · exact h0
      · intro h; rw [h, mul_zero]
    have h3 : (0 < r * w.1) ↔ 0 < w.1 := by
      constructor
      · intro h; by_contra hh; rw [not_lt] at hh; nlinarith
      · intro h; positivity
    unfold upperHalf
    simp only [h1, h2, h3]
  have hc : (0 < cross2 (s * u.1, s * u.2) (t * v.1, t * v.2)) ↔ 0 < cross2 u v := by
    have : cross2 (s * u.1, s * u.2) (t * v.1, t * v.2) = (s * t) * cross2 u v := by
      unfold cross2; ring
    rw [this]
    have hst : 0 < s * t := mul_pos hs ht
    constructor
    · intro h; by_contra hh; rw [not_lt] at hh; nlinarith
    · intro h; positivity
  unfold angLt
  rw [hU u hs, hU v ht]
  simp only [hc]

/-- `arc_include` (swap branch): if, counter-clockwise from `u`, the direction `v` comes strictly before `ref`, then
counter-clockwise from `v` the direction `ref` does not come after `u` — i.e. `ref` lies on the counter-clockwise arc from
`v` to `u`.  (`u ≠ 0`; `v` is not a positive multiple of `u`, where the arc is degenerate.) -/
theorem angLt_swap (u v ref : K × K) (hu : 0 < dot2 u u) (huv : cross2 u v ≠ 0 ∨ dot2 u v < 0)
    (h : angLt (relDir u v) (relDir u ref) = true) :
    angLt (relDir v u) (relDir v ref) = false := by
  have core := cyc_core (dot2 u v) (cross2 u v) (dot2 u ref) (cross2 u ref) huv h
  have e1 : relDir v u = (dot2 u v, -cross2 u v) := by
    unfold relDir dot2 cross2; ext <;> simp <;> ring
  have e2 : (dot2 u v * dot2 u ref + cross2 u v * cross2 u ref, dot2 u v * cross2 u ref - cross2 u v * dot2 u ref)
      = (dot2 u u * (relDir v ref).1, dot2 u u * (relDir v ref).2) := by
    unfold relDir dot2 cross2; ext <;> simp <;> ring
  rw [e2, ← e1] at core
  have := angLt_smul (relDir v u) (relDir v ref) (s := 1) (t := dot2 u u) one_pos hu
  simp only [one_mul] at this
  rw [← this]; exact core

end GT.Circle
