/- helper lemmas for `GT.Model.Action` -/
import GT.Model.Action
import GT.Base.DMat
import Mathlib.Tactic.FinCases
import Mathlib.Tactic.Ring

open Matrix

namespace GT.Act

variable {K : Type*} [Field K] {n k : ℕ}

/-- Gram entries are invariant under a form-preserving right action -/
theorem bil_act {J A : Matrix (Fin n) (Fin n) K} (hA : IsIso J A) (x y : Fin n → K) :
    bil J (actRow A x) (actRow A y) = bil J x y := by
  unfold bil actRow
  have e : y ᵥ* A = Aᵀ *ᵥ y := (Matrix.mulVec_transpose A y).symm
  rw [e, Matrix.mulVec_mulVec, Matrix.dotProduct_mulVec, Matrix.vecMul_vecMul, ← Matrix.mul_assoc, hA,
    ← Matrix.dotProduct_mulVec]

theorem foldl_mul_init {G : Type*} (gens : G → Matrix (Fin n) (Fin n) K) (w : List G)
    (M : Matrix (Fin n) (Fin n) K) :
    w.foldl (fun M g => M * gens g) M = M * w.foldl (fun M g => M * gens g) 1 := by
  induction w generalizing M with
  | nil => simp
  | cons g w ih => simp only [List.foldl_cons, one_mul]; rw [ih (M * gens g), ih (gens g), Matrix.mul_assoc]

theorem wordMat_append' {G : Type*} (gens : G → Matrix (Fin n) (Fin n) K) (u v : List G) :
    wordMat gens (u ++ v) = wordMat gens u * wordMat gens v := by
  unfold wordMat
  rw [List.foldl_append, foldl_mul_init]

theorem segMix_act (q : K × K × K) (r : K → K) (A : Matrix (Fin n) (Fin n) K)
    (X : Matrix (Fin 2) (Fin n) K) : segMix q r (actMat A X) = actMat A (segMix q r X) := by
  ext i j
  fin_cases i
  · simp only [segMix, actMat, Matrix.mul_apply, Matrix.of_apply, Matrix.cons_val_zero, Fin.zero_eta,
      Finset.mul_sum, ← Finset.sum_add_distrib]
    exact Finset.sum_congr rfl (fun x _ => by ring)
  · simp only [segMix, actMat, Matrix.mul_apply, Matrix.of_apply, Matrix.cons_val_one, Fin.mk_one,
      Matrix.cons_val_zero, Finset.mul_sum, ← Finset.sum_add_distrib]
    exact Finset.sum_congr rfl (fun x _ => by ring)

theorem tanMix_act (c : K) (A : Matrix (Fin n) (Fin n) K) (X : Matrix (Fin 2) (Fin n) K) :
    tanMix c (actMat A X) = actMat A (tanMix c X) := by
  ext i j
  fin_cases i
  · simp only [tanMix, actMat, Matrix.mul_apply, Matrix.of_apply, Matrix.cons_val_zero, Fin.zero_eta]
  · simp only [tanMix, actMat, Matrix.mul_apply, Matrix.of_apply, Matrix.cons_val_one, Fin.mk_one,
      Matrix.cons_val_zero, Finset.sum_mul, ← Finset.sum_sub_distrib]
    exact Finset.sum_congr rfl (fun x _ => by ring)

theorem actMat_row' (A : Matrix (Fin n) (Fin n) K) (X : Matrix (Fin k) (Fin n) K) (i : Fin k) :
    actMat A X i = actRow A (X i) := by
  funext j; simp [actMat, actRow, Matrix.mul_apply, Matrix.vecMul, dotProduct]

theorem segmentIdeal_equivariant' {J A : Matrix (Fin n) (Fin n) K} (hA : IsIso J A) (r : K → K)
    (X : Matrix (Fin 2) (Fin n) K) :
    segmentIdeal J r (actMat A X) = actMat A (segmentIdeal J r X) := by
  have hq : segQuad J (actMat A X) = segQuad J X := by
    simp only [segQuad, actMat_row', bil_act hA]
  unfold segmentIdeal
  rw [hq, segMix_act]

theorem tangentProj_equivariant' {J A : Matrix (Fin n) (Fin n) K} (hA : IsIso J A)
    (X : Matrix (Fin 2) (Fin n) K) :
    tangentProj J (actMat A X) = actMat A (tangentProj J X) := by
  unfold tangentProj
  simp only [actMat_row', bil_act hA]
  exact tanMix_act _ A X

/-- array-backed execution of `wordMat` (what the driver runs) -/
def wordD {K : Type} [Field K] {G : Type*} [Inhabited K] (gens : G → DMat n n K) (w : List G) : DMat n n K :=
  w.foldl (fun M g => M.mul (gens g)) DMat.one

theorem toMatrix_wordD {K : Type} [Field K] {G : Type*} [Inhabited K] (gens : G → DMat n n K) (w : List G) :
    (wordD gens w).toMatrix = wordMat (fun g => (gens g).toMatrix) w := by
  unfold wordD wordMat
  have : ∀ (M : DMat n n K), (w.foldl (fun M g => M.mul (gens g)) M).toMatrix =
      w.foldl (fun M g => M * (gens g).toMatrix) M.toMatrix := by
    induction w with
    | nil => intro M; rfl
    | cons g w ih => intro M; simp only [List.foldl_cons]; rw [ih, DMat.toMatrix_mul]
  rw [this, DMat.toMatrix_one]

end GT.Act
