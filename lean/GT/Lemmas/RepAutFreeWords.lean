/-
C06, part 5: `Representation.free_words_of_length` and `Representation.free_words_less_than`.
On a representation whose generator names are pairwise distinct single characters,
`free_words_of_length(k)` lists exactly the freely reduced words of length `k` over the stored
letters, each exactly once, and `free_words_less_than(L)` lists exactly those of length `< L`
(strictly: `for i in range(length)`; the docstring's "inclusive" is wrong), each exactly once.
-/
import Mathlib.Data.List.Chain
import Mathlib.Data.List.Nodup
import GT.Lemmas.RepAutFree
import GT.Lemmas.Fox
import GT.Lemmas.RepAut

set_option linter.unusedSectionVars false

namespace GT.RepW

/-! ## letter level -/

/-- `free_words_of_length` on lists of letters -/
def fwl (inv : Gen → Gen) (keys : List Gen) : Nat → List (List Gen)
  | 0 => [[]]
  | k + 1 => (fwl inv keys k).flatMap fun w => keys.filterMap fun g =>
      if w = [] ∨ some g ≠ w.getLast?.map inv then some (w ++ [g]) else none

/-- the test `len(word) == 0 or generator != invert_gen(word[-1])` -/
theorem fwl_cond_iff (inv : Gen → Gen) (w : List Gen) (g : Gen) :
    (w = [] ∨ some g ≠ w.getLast?.map inv) ↔ ∀ x ∈ w.getLast?, g ≠ inv x := by
  rcases List.eq_nil_or_concat w with rfl | ⟨w', t, rfl⟩
  · simp
  · simp [List.concat_eq_append]

theorem mem_fwl_succ (inv : Gen → Gen) (keys : List Gen) (k : Nat) (w : List Gen) :
    w ∈ fwl inv keys (k + 1) ↔
      ∃ w' ∈ fwl inv keys k, ∃ g ∈ keys, (∀ x ∈ w'.getLast?, g ≠ inv x) ∧ w = w' ++ [g] := by
  simp only [fwl, List.mem_flatMap, List.mem_filterMap]
  constructor
  · rintro ⟨w', hw', g, hg, h⟩
    split_ifs at h with hc
    exact ⟨w', hw', g, hg, (fwl_cond_iff inv w' g).1 hc, (Option.some.inj h).symm⟩
  · rintro ⟨w', hw', g, hg, hc, rfl⟩
    exact ⟨w', hw', g, hg, by rw [if_pos ((fwl_cond_iff inv w' g).2 hc)]⟩

/-- the words of `fwl inv keys k` are the reduced words of `k` letters of `keys` -/
theorem mem_fwl (inv : Gen → Gen) (keys : List Gen) : ∀ (k : Nat) (w : List Gen),
    w ∈ fwl inv keys k ↔ w.length = k ∧ (∀ g ∈ w, g ∈ keys) ∧ Fox.Red inv w
  | 0, w => by
    cases w <;> simp [fwl, Fox.Red]
  | k + 1, w => by
    rw [mem_fwl_succ]
    constructor
    · rintro ⟨w', hw', g, hg, hc, rfl⟩
      obtain ⟨hl, hm, hr⟩ := (mem_fwl inv keys k w').1 hw'
      refine ⟨by simp [hl], ?_, ?_⟩
      · intro x hx
        rcases List.mem_append.1 hx with hx | hx
        · exact hm x hx
        · rw [List.mem_singleton] at hx; exact hx ▸ hg
      · unfold Fox.Red
        rw [List.isChain_append]
        refine ⟨hr, List.isChain_singleton _, ?_⟩
        intro x hx y hy
        have : y = g := by simpa using hy.symm
        rw [this]
        exact hc x hx
    · rintro ⟨hl, hm, hr⟩
      rcases List.eq_nil_or_concat w with rfl | ⟨w', t, rfl⟩
      · simp at hl
      · rw [List.concat_eq_append] at hl hm hr ⊢
        unfold Fox.Red at hr
        rw [List.isChain_append] at hr
        refine ⟨w', (mem_fwl inv keys k w').2 ⟨?_, ?_, hr.1⟩, t, ?_, ?_, rfl⟩
        · simpa using hl
        · exact fun g hg => hm g (List.mem_append_left _ hg)
        · exact hm t (List.mem_append_right _ (List.mem_singleton.2 rfl))
        · intro x hx
          exact hr.2.2 x hx t (by simp)

theorem fwl_nodup (inv : Gen → Gen) (keys : List Gen) (hn : keys.Nodup) : ∀ k : Nat,
    (fwl inv keys k).Nodup
  | 0 => by simp [fwl]
  | k + 1 => by
    unfold fwl
    rw [List.nodup_flatMap]
    refine ⟨fun w _ => List.Nodup.filterMap ?_ hn, ?_⟩
    · intro a a' b h1 h2
      rw [Option.mem_def] at h1 h2
      split_ifs at h1 h2
      have e := (Option.some.inj h1).trans (Option.some.inj h2).symm
      exact List.singleton_inj.1 (List.append_inj' e rfl).2
    · refine List.Pairwise.imp ?_ (fwl_nodup inv keys hn k)
      intro w1 w2 hne
      show List.Disjoint _ _
      intro v h1 h2
      rw [List.mem_filterMap] at h1 h2
      obtain ⟨g1, _, e1⟩ := h1
      obtain ⟨g2, _, e2⟩ := h2
      split_ifs at e1 e2
      have e := (Option.some.inj e1).trans (Option.some.inj e2).symm
      exact hne (List.append_inj' e rfl).1

/-! ## Python strings -/

theorem joinW_concat : ∀ (w : List Gen) (g : Gen), joinW (w ++ [g]) = joinW w ++ g
  | [], g => by
    show g ++ "" = "" ++ g
    rw [String.append_empty, String.empty_append]
  | h :: w, g => by
    rw [List.cons_append, joinW_cons, joinW_cons, joinW_concat w g, String.append_assoc]

namespace Rep
variable {n : ℕ} {R : Type} [Inhabited R] [CommRing R]

/-- `free_words_of_length` is its letter-level version, letters joined -/
theorem freeWordsOfLength_eq (ρ : Rep n R) (hs : SingleChar (ρ.gens.map Prod.fst)) :
    ∀ k : Nat, ρ.freeWordsOfLength k = (fwl invertGen (ρ.gens.map Prod.fst) k).map GT.RepW.joinW
  | 0 => rfl
  | k + 1 => by
    unfold freeWordsOfLength fwl
    rw [freeWordsOfLength_eq ρ hs k, List.flatMap_map, List.map_flatMap]
    refine List.flatMap_congr fun w hw => ?_
    have hm := ((mem_fwl invertGen _ k w).1 hw).2.1
    have hp : parseWord true (GT.RepW.joinW w) = w := GT.RepW.parseWord_joinW w fun g hg => hs g (hm g hg)
    rw [List.map_filterMap]
    refine List.filterMap_congr fun g _ => ?_
    have h1 : GT.RepW.joinW w = "" ↔ w = [] := by
      constructor
      · intro e
        rw [← hp, e]; rfl
      · rintro rfl; rfl
    have h2 : ((GT.RepW.joinW w).toList.getLast?).map (fun c => invertGen (String.ofList [c]))
        = w.getLast?.map invertGen := by
      conv_rhs => rw [← hp]
      unfold parseWord
      simp only [if_true]
      rw [List.getLast?_map, Option.map_map]
      rfl
    rw [h2]
    by_cases hc : w = [] ∨ some g ≠ w.getLast?.map invertGen
    · rw [if_pos hc, if_pos (by rwa [h1]), Option.map_some, joinW_concat]
    · rw [if_neg hc, if_neg (by rwa [h1])]
      rfl

/-- **`free_words_of_length(k)`**, chain form: exactly the words of length `k` over the stored
letters in which no letter is followed by its `invert_gen` -/
theorem freeWordsOfLength_mem_red (ρ : Rep n R) (hs : SingleChar (ρ.gens.map Prod.fst))
    (k : Nat) (s : String) :
    s ∈ ρ.freeWordsOfLength k ↔ s.length = k ∧
      (∀ g ∈ parseWord true s, g ∈ ρ.gens.map Prod.fst) ∧
      Fox.Red invertGen (parseWord true s) := by
  rw [freeWordsOfLength_eq ρ hs, List.mem_map, ← parseWord_length]
  constructor
  · rintro ⟨w, hw, rfl⟩
    have hw' := (mem_fwl invertGen _ k w).1 hw
    rw [GT.RepW.parseWord_joinW w fun g hg => hs g (hw'.2.1 g hg)]
    exact hw'
  · intro hw
    exact ⟨parseWord true s, (mem_fwl invertGen _ k _).2 hw, joinW_parseWord s⟩

/-- **`free_words_of_length(k)`** lists exactly the freely reduced words
(`simplify_word(w) == w`) of length `k` over the stored letters -/
theorem freeWordsOfLength_mem (ρ : Rep n R) (hs : SingleChar (ρ.gens.map Prod.fst))
    (k : Nat) (s : String) :
    s ∈ ρ.freeWordsOfLength k ↔ s.length = k ∧
      (∀ g ∈ parseWord true s, g ∈ ρ.gens.map Prod.fst) ∧
      simplifyWord invertGen (parseWord true s) = parseWord true s := by
  rw [freeWordsOfLength_mem_red ρ hs, Fox.red_iff_simplifyWord_eq]

/-- … each exactly once -/
theorem freeWordsOfLength_nodup (ρ : Rep n R) (hs : SingleChar (ρ.gens.map Prod.fst))
    (hnd : (ρ.gens.map Prod.fst).Nodup) (k : Nat) : (ρ.freeWordsOfLength k).Nodup := by
  rw [freeWordsOfLength_eq ρ hs]
  refine List.Nodup.map_on ?_ (fwl_nodup _ _ hnd k)
  intro w1 h1 w2 h2 e
  have g1 := ((mem_fwl invertGen _ k w1).1 h1).2.1
  have g2 := ((mem_fwl invertGen _ k w2).1 h2).2.1
  rw [← GT.RepW.parseWord_joinW w1 fun g hg => hs g (g1 g hg),
    ← GT.RepW.parseWord_joinW w2 fun g hg => hs g (g2 g hg), e]

/-- **`free_words_less_than(L)`** lists exactly the freely reduced words of length
*strictly* less than `L` over the stored letters (`for i in range(length)`) -/
theorem freeWordsLessThan_mem (ρ : Rep n R) (hs : SingleChar (ρ.gens.map Prod.fst))
    (L : Nat) (s : String) :
    s ∈ ρ.freeWordsLessThan L ↔ s.length < L ∧
      (∀ g ∈ parseWord true s, g ∈ ρ.gens.map Prod.fst) ∧
      simplifyWord invertGen (parseWord true s) = parseWord true s := by
  unfold freeWordsLessThan
  simp only [List.mem_flatMap, List.mem_range, freeWordsOfLength_mem ρ hs]
  constructor
  · rintro ⟨j, hj, rfl, hr⟩
    exact ⟨hj, hr⟩
  · rintro ⟨hl, hr⟩
    exact ⟨s.length, hl, rfl, hr⟩

/-- chain form of `freeWordsLessThan_mem` -/
theorem freeWordsLessThan_mem_red (ρ : Rep n R) (hs : SingleChar (ρ.gens.map Prod.fst))
    (L : Nat) (s : String) :
    s ∈ ρ.freeWordsLessThan L ↔ s.length < L ∧
      (∀ g ∈ parseWord true s, g ∈ ρ.gens.map Prod.fst) ∧
      Fox.Red invertGen (parseWord true s) := by
  rw [freeWordsLessThan_mem ρ hs, Fox.red_iff_simplifyWord_eq]

/-- … each exactly once -/
theorem freeWordsLessThan_nodup (ρ : Rep n R) (hs : SingleChar (ρ.gens.map Prod.fst))
    (hnd : (ρ.gens.map Prod.fst).Nodup) (L : Nat) : (ρ.freeWordsLessThan L).Nodup := by
  unfold freeWordsLessThan
  rw [List.nodup_flatMap]
  refine ⟨fun j _ => freeWordsOfLength_nodup ρ hs hnd j, ?_⟩
  refine List.Pairwise.imp ?_ (List.nodup_range (n := L))
  intro i j hij
  show List.Disjoint _ _
  intro s h1 h2
  rw [freeWordsOfLength_mem ρ hs] at h1 h2
  exact hij (h1.1.symm.trans h2.1)

/-- the word of length `L` is *not* listed by `free_words_less_than(L)` -/
theorem freeWordsLessThan_not_mem_of_length (ρ : Rep n R)
    (hs : SingleChar (ρ.gens.map Prod.fst)) (L : Nat) (s : String) (h : s.length = L) :
    s ∉ ρ.freeWordsLessThan L := by
  rw [freeWordsLessThan_mem ρ hs]
  rintro ⟨hl, _⟩
  omega

end Rep

/-! ## a concrete instance -/

namespace RepAutExamples

example : r1.gens.map Prod.fst = ["a", "A"] := by decide
example : SingleChar (r1.gens.map Prod.fst) := by
  have : r1.gens.map Prod.fst = ["a", "A"] := by decide
  rw [this]
  intro g hg
  simp only [List.mem_cons, List.not_mem_nil, or_false] at hg
  rcases hg with rfl | rfl
  · exact ⟨'a', rfl⟩
  · exact ⟨'A', rfl⟩
example : (r1.gens.map Prod.fst).Nodup := by decide
example : r1.freeWordsOfLength 2 = ["aa", "AA"] := by decide
example : r1.freeWordsLessThan 2 = ["", "a", "A"] := by decide

end RepAutExamples
end GT.RepW
