/- plane geometry behind `CP1Disk.contains` / `intersects`: triangle inequality in squared form
and explicit witness points on the line of centres, over any ordered field with the distance
of the centres supplied (`d ≥ 0`, `d * d = ‖c₂ - c₁‖²`) -/
import GT.Lemmas.CP1
import Mathlib.Tactic.Linarith
import Mathlib.Tactic.Positivity

set_option linter.unusedSectionVars false
set_option linter.unusedVariables false

namespace GT.C20
open GT GT.CP1

variable {K : Type*} [Field K] [LinearOrder K] [IsStrictOrderedRing K]

theorem le_of_mul_self_le {x y : K} (hy : 0 ≤ y) (h : x * x ≤ y * y) : x ≤ y := by
  by_contra hc; push_neg at hc; nlinarith

theorem lt_of_mul_self_lt {x y : K} (hy : 0 ≤ y) (h : x * x < y * y) : x < y := by
  by_contra hc; push_neg at hc; nlinarith

/-- triangle inequality, squared: `‖z - c‖ ≤ a`, `‖c - e‖ ≤ b` ⇒ `‖z - e‖ ≤ a + b` -/
theorem dist2_triangle (z c e : K × K) (a b : K) (ha : 0 ≤ a) (hb : 0 ≤ b)
    (h1 : dist2 z c ≤ a * a) (h2 : dist2 c e ≤ b * b) : dist2 z e ≤ (a + b) * (a + b) := by
  unfold dist2 at *
  set p1 := z.1 - c.1
  set p2 := z.2 - c.2
  set q1 := c.1 - e.1
  set q2 := c.2 - e.2
  have e1 : z.1 - e.1 = p1 + q1 := by simp only [p1, q1]; ring
  have e2 : z.2 - e.2 = p2 + q2 := by simp only [p2, q2]; ring
  rw [e1, e2]
  have cs : (p1 * q1 + p2 * q2) * (p1 * q1 + p2 * q2) ≤ (p1 * p1 + p2 * p2) * (q1 * q1 + q2 * q2) := by
    nlinarith [sq_nonneg (p1 * q2 - p2 * q1)]
  have hq0 : 0 ≤ q1 * q1 + q2 * q2 := by nlinarith [mul_self_nonneg q1, mul_self_nonneg q2]
  have le : (p1 * p1 + p2 * p2) * (q1 * q1 + q2 * q2) ≤ (a * a) * (b * b) :=
    mul_le_mul h1 h2 hq0 (mul_self_nonneg a)
  have hpq : p1 * q1 + p2 * q2 ≤ a * b :=
    le_of_mul_self_le (mul_nonneg ha hb) (by nlinarith)
  nlinarith

theorem dist2_comm (z c : K × K) : dist2 z c = dist2 c z := by unfold dist2; ring

theorem dist2_nonneg (z c : K × K) : 0 ≤ dist2 z c := by
  unfold dist2; nlinarith [mul_self_nonneg (z.1 - c.1), mul_self_nonneg (z.2 - c.2)]

/-- what is assumed of the supplied distance of the centres -/
structure IsDist (d : K) (c1 c2 : K × K) : Prop where
  nonneg : 0 ≤ d
  sq : d * d = dist2 c2 c1

/-- F1: `d + r₂ < r₁` ⇒ the closed disc 2 lies in the open disc 1 -/
theorem closed_sub_open {d r1 r2 : K} {c1 c2 : K × K} (hd : IsDist d c1 c2) (h2 : 0 ≤ r2)
    (h : d + r2 < r1) (z : K × K) (hz : dist2 z c2 ≤ r2 * r2) : dist2 z c1 < r1 * r1 := by
  have t := dist2_triangle z c2 c1 r2 d h2 hd.nonneg hz (le_of_eq hd.sq.symm)
  have : (r2 + d) * (r2 + d) < r1 * r1 := by nlinarith [hd.nonneg]
  linarith

/-- F2: `r₁ + r₂ < d` ⇒ the closed discs are disjoint -/
theorem closed_disjoint {d r1 r2 : K} {c1 c2 : K × K} (hd : IsDist d c1 c2) (h1 : 0 ≤ r1) (h2 : 0 ≤ r2)
    (h : r1 + r2 < d) (z : K × K) (hz1 : dist2 z c1 ≤ r1 * r1) (hz2 : dist2 z c2 ≤ r2 * r2) : False := by
  have hz2' : dist2 c2 z ≤ r2 * r2 := by rw [dist2_comm]; exact hz2
  have t := dist2_triangle c2 z c1 r2 r1 h2 h1 hz2' hz1
  rw [← hd.sq] at t
  have := le_of_mul_self_le (by linarith) t
  linarith

/-- a unit vector along the line of centres (any unit vector when the centres coincide) -/
theorem exists_unit {d : K} {c1 c2 : K × K} (hd : IsDist d c1 c2) :
    ∃ u : K × K, u.1 * u.1 + u.2 * u.2 = 1 ∧ c2.1 = c1.1 + d * u.1 ∧ c2.2 = c1.2 + d * u.2 := by
  by_cases h0 : d = 0
  · refine ⟨(1, 0), by simp, ?_, ?_⟩
    · have hs := hd.sq
      rw [h0] at hs
      unfold dist2 at hs
      have : (c2.1 - c1.1) * (c2.1 - c1.1) = 0 := by
        nlinarith [mul_self_nonneg (c2.1 - c1.1), mul_self_nonneg (c2.2 - c1.2)]
      have := mul_self_eq_zero.1 this
      rw [h0]; simp; linarith
    · have hs := hd.sq
      rw [h0] at hs
      unfold dist2 at hs
      have : (c2.2 - c1.2) * (c2.2 - c1.2) = 0 := by
        nlinarith [mul_self_nonneg (c2.1 - c1.1), mul_self_nonneg (c2.2 - c1.2)]
      have := mul_self_eq_zero.1 this
      rw [h0]; simp; linarith
  · refine ⟨((c2.1 - c1.1) / d, (c2.2 - c1.2) / d), ?_, ?_, ?_⟩
    · have hs := hd.sq
      unfold dist2 at hs
      simp only
      field_simp
      linarith
    · simp only; field_simp; ring
    · simp only; field_simp; ring

/-- the point at signed distance `t` from `c₁` on the line of centres -/
theorem line_point {d : K} {c1 c2 u : K × K} (hu : u.1 * u.1 + u.2 * u.2 = 1)
    (h1 : c2.1 = c1.1 + d * u.1) (h2 : c2.2 = c1.2 + d * u.2) (t : K) :
    dist2 (c1.1 + t * u.1, c1.2 + t * u.2) c1 = t * t ∧
    dist2 (c1.1 + t * u.1, c1.2 + t * u.2) c2 = (t - d) * (t - d) := by
  unfold dist2
  simp only
  rw [h1, h2]
  constructor
  · linear_combination (t * t) * hu
  · linear_combination ((t - d) * (t - d)) * hu

/-- W1: `d < r₁ + r₂` ⇒ the open discs meet (at the point dividing the centres `r₁ : r₂`) -/
theorem open_meet {d r1 r2 : K} {c1 c2 : K × K} (hd : IsDist d c1 c2) (h1 : 0 < r1) (h2 : 0 < r2)
    (h : d < r1 + r2) : ∃ z : K × K, dist2 z c1 < r1 * r1 ∧ dist2 z c2 < r2 * r2 := by
  obtain ⟨u, hu, e1, e2⟩ := exists_unit hd
  have hs : 0 < r1 + r2 := by linarith
  obtain ⟨l1, l2⟩ := line_point hu e1 e2 (r1 * d / (r1 + r2))
  refine ⟨(c1.1 + r1 * d / (r1 + r2) * u.1, c1.2 + r1 * d / (r1 + r2) * u.2), ?_, ?_⟩
  · rw [l1]
    have hd0 := hd.nonneg
    have : r1 * d / (r1 + r2) < r1 := by
      rw [div_lt_iff₀ hs]; nlinarith
    have h0 : 0 ≤ r1 * d / (r1 + r2) := by positivity
    nlinarith
  · rw [l2]
    have hd0 := hd.nonneg
    have e : r1 * d / (r1 + r2) - d = -(r2 * d / (r1 + r2)) := by field_simp; ring
    rw [e]
    have : r2 * d / (r1 + r2) < r2 := by
      rw [div_lt_iff₀ hs]; nlinarith
    have h0 : 0 ≤ r2 * d / (r1 + r2) := by positivity
    nlinarith

/-- W2: `r₁ < d + r₂` ⇒ some point of the open disc 2 lies strictly outside the closed disc 1 -/
theorem open_not_sub {d r1 r2 : K} {c1 c2 : K × K} (hd : IsDist d c1 c2) (h1 : 0 ≤ r1) (h2 : 0 < r2)
    (h : r1 < d + r2) : ∃ z : K × K, dist2 z c2 < r2 * r2 ∧ r1 * r1 < dist2 z c1 := by
  obtain ⟨u, hu, e1, e2⟩ := exists_unit hd
  have hd0 := hd.nonneg
  by_cases hc : r1 < d
  · obtain ⟨l1, l2⟩ := line_point hu e1 e2 d
    refine ⟨(c1.1 + d * u.1, c1.2 + d * u.2), ?_, ?_⟩
    · rw [l2]; nlinarith
    · rw [l1]; nlinarith
  · push_neg at hc
    obtain ⟨l1, l2⟩ := line_point hu e1 e2 ((r1 + d + r2) / 2)
    refine ⟨(c1.1 + (r1 + d + r2) / 2 * u.1, c1.2 + (r1 + d + r2) / 2 * u.2), ?_, ?_⟩
    · rw [l2]
      have e : (r1 + d + r2) / 2 - d = (r1 + r2 - d) / 2 := by ring
      rw [e]
      have a1 : 0 ≤ (r1 + r2 - d) / 2 := by linarith
      have a2 : (r1 + r2 - d) / 2 < r2 := by linarith
      nlinarith
    · rw [l1]
      have a1 : r1 < (r1 + d + r2) / 2 := by linarith
      nlinarith

/-- W3: far away on the line of centres a point lies outside both closed discs -/
theorem far_point {d r1 r2 : K} {c1 c2 : K × K} (hd : IsDist d c1 c2) (h1 : 0 ≤ r1) (h2 : 0 ≤ r2) :
    ∃ z : K × K, r1 * r1 < dist2 z c1 ∧ r2 * r2 < dist2 z c2 := by
  obtain ⟨u, hu, e1, e2⟩ := exists_unit hd
  have hd0 := hd.nonneg
  obtain ⟨l1, l2⟩ := line_point hu e1 e2 (r1 + r2 + d + 1)
  refine ⟨(c1.1 + (r1 + r2 + d + 1) * u.1, c1.2 + (r1 + r2 + d + 1) * u.2), ?_, ?_⟩
  · rw [l1]; nlinarith
  · rw [l2]
    have e : r1 + r2 + d + 1 - d = r1 + r2 + 1 := by ring
    rw [e]; nlinarith

theorem IsDist.symm {d : K} {c1 c2 : K × K} (h : IsDist d c1 c2) : IsDist d c2 c1 :=
  ⟨h.nonneg, by rw [h.sq, dist2_comm]⟩

end GT.C20
