/- determinant of the Hermitian action (own module: one 4×4 determinant of quadratic entries) -/
import GT.Lemmas.So31
import Mathlib.LinearAlgebra.Matrix.Determinant.Basic

open Matrix

set_option linter.unusedSimpArgs false

namespace GT.Lie
variable {K : Type*} [Field K]

set_option maxHeartbeats 4000000 in
/-- `det` of the Hermitian action is `|det M|⁴` -/
theorem sl2cHermAction_det (h2 : (2 : K) ≠ 0) (M : Matrix (Fin 2) (Fin 2) (Cx K)) :
    (sl2cHermAction M).det = detNormSq M ^ 2 := by
  rw [Matrix.det_succ_row_zero]
  simp only [Fin.sum_univ_succ, Fin.sum_univ_zero, Matrix.det_succ_row_zero (n := 2), Matrix.det_fin_two,
    Matrix.submatrix_apply, Fin.succAbove, Matrix.det_succ_row_zero (n := 1)]
  simp [sl2cHermAction, detNormSq, Matrix.det_fin_two, sl2cHermActionCx, hermBasis,
      hermBasisInv, linearMatrixAction, Lie.conjTranspose, Matrix.mul_apply, Matrix.map_apply,
      Matrix.transpose_apply, Fintype.sum_prod_type, Fin.sum_univ_succ, Matrix.single_apply,
      finProdFinEquiv, Fin.succAbove]
  field_simp
  ring

theorem sl2cToSo31_det' (h2 : (2 : K) ≠ 0) (M : Matrix (Fin 2) (Fin 2) (Cx K)) :
    (sl2cToSo31 M).det = detNormSq M ^ 2 := by
  unfold sl2cToSo31
  rw [Matrix.det_mul, Matrix.det_mul, sl2cHermAction_det h2]
  have h : (so31BasisInv : Matrix (Fin 4) (Fin 4) K).det * so31Basis.det = 1 := by
    rw [← Matrix.det_mul, so31BasisInv_mul h2, Matrix.det_one]
  calc so31BasisInv.det * detNormSq M ^ 2 * so31Basis.det
      = (so31BasisInv.det * so31Basis.det) * detNormSq M ^ 2 := by ring
    _ = detNormSq M ^ 2 := by rw [h, one_mul]

end GT.Lie
