/-
C06, part 6: the options guard of a caller-supplied `precomputed` dict (repaired code).  The
dict records the options `(as_start, maxlen, with_words, edge_words)` of the first call that
used it; a later call with other options raises `ValueError` and leaves the dict alone.  Hence
a dict that started empty stays *guard-sound* (`GuardOK`) under any sequence of public calls,
and every value returned from it is the specified one.
-/
import GT.Lemmas.RepAutSpec

set_option linter.unusedSectionVars false

namespace GT.RepW
namespace Rep
variable {V : Type} [DecidableEq V] {n : ℕ} {R : Type} [Inhabited R] [CommRing R]

/-- invariant of a caller-supplied dict: without recorded options it has no entries; with
recorded options every entry is the specified value for exactly these options -/
def GuardOK (ρ : Rep n R) (a : Aut V) (d : PreDict V n R) : Prop :=
  match d.options with
  | none => d.memo = []
  | some (s, ml, ww, ew) => MemoOK ρ a ⟨ml, ww, s, ew⟩ d.memo

/-- the empty dict `{}` -/
theorem guard_empty (ρ : Rep n R) (a : Aut V) : GuardOK ρ a ({} : PreDict V n R) := rfl

/-- the tuple `automaton_accepted` records / compares -/
def optsTuple (maxlen withWords : Bool) (endState : Option V) (edgeWords : Bool) :
    Bool × Bool × Bool × Bool := (endState.isNone, maxlen, withWords, edgeWords)

theorem guardOK_some_iff (ρ : Rep n R) (a : Aut V) (maxlen withWords : Bool)
    (endState : Option V) (edgeWords : Bool) (m : Memo V n R) :
    GuardOK ρ a ⟨some (optsTuple maxlen withWords endState edgeWords), m⟩ ↔
      MemoOK ρ a (topOpts maxlen withWords endState edgeWords) m := Iff.rfl

/-- both `start_state` and `end_state`: `ValueError`, dict untouched -/
theorem automatonAcceptedD_both (ρ : Rep n R) (a : Aut V) (L : Nat) (maxlen withWords : Bool)
    (s e : V) (d : PreDict V n R) (edgeWords : Bool) :
    ρ.automatonAcceptedD a L maxlen withWords (some s) (some e) d edgeWords =
      (.error "ValueError", d) := rfl

/-- the guarded call, when not both states are given, in one expression -/
theorem automatonAcceptedD_eq (ρ : Rep n R) (a : Aut V) (L : Nat) (maxlen withWords : Bool)
    (startState endState : Option V) (d : PreDict V n R) (edgeWords : Bool)
    (hse : startState = none ∨ endState = none) :
    ρ.automatonAcceptedD a L maxlen withWords startState endState d edgeWords =
      match d.options with
      | some o' =>
        if o' ≠ optsTuple maxlen withWords endState edgeWords then (.error "ValueError", d) else
        match ρ.automatonAccepted a L maxlen withWords startState endState d.memo edgeWords with
        | .ok (r, m) => (.ok r, { d with memo := m })
        | .error e => (.error e, d)
      | none =>
        match ρ.automatonAccepted a L maxlen withWords startState endState d.memo edgeWords with
        | .ok (r, m) => (.ok r, ⟨some (optsTuple maxlen withWords endState edgeWords), m⟩)
        | .error e =>
          (.error e, { d with options := some (optsTuple maxlen withWords endState edgeWords) }) := by
  cases startState <;> cases endState
  · rfl
  · rfl
  · rfl
  · rcases hse with h | h <;> cases h

/-- **`precomputed_guard_refuses`**: a dict that recorded other options is refused
(`ValueError`) and not modified -/
theorem precomputed_guard_refuses (ρ : Rep n R) (a : Aut V) (L : Nat) (maxlen withWords : Bool)
    (startState endState : Option V) (d : PreDict V n R) (edgeWords : Bool)
    (o' : Bool × Bool × Bool × Bool) (ho : d.options = some o')
    (hne : o' ≠ (endState.isNone, maxlen, withWords, edgeWords)) :
    ρ.automatonAcceptedD a L maxlen withWords startState endState d edgeWords =
      (.error "ValueError", d) := by
  by_cases hse : startState = none ∨ endState = none
  · rw [automatonAcceptedD_eq ρ a L maxlen withWords startState endState d edgeWords hse, ho]
    exact if_pos hne
  · rw [not_or] at hse
    cases startState with
    | none => exact absurd rfl hse.1
    | some s =>
      cases endState with
      | none => exact absurd rfl hse.2
      | some e => rfl

/-- **`precomputed_guard_sound`**: on a guard-sound dict (e.g. the empty one, `guard_empty`)
a public call with *any* options leaves a guard-sound dict, and whatever it returns is the
value of the memo-free specification for the options of *this* call. -/
theorem precomputed_guard_sound (ρ : Rep n R) (a : Aut V) (L : Nat) (maxlen withWords : Bool)
    (startState endState : Option V) (d : PreDict V n R) (edgeWords : Bool)
    (hd : GuardOK ρ a d) :
    GuardOK ρ a (ρ.automatonAcceptedD a L maxlen withWords startState endState d edgeWords).2 ∧
    ∀ res, (ρ.automatonAcceptedD a L maxlen withWords startState endState d edgeWords).1 =
        .ok res →
      ∃ pairs, ρ.topSpec a L maxlen withWords startState endState edgeWords = .ok pairs ∧
        res = toRes (topOpts maxlen withWords endState edgeWords) pairs := by
  by_cases hse : startState = none ∨ endState = none
  · rw [automatonAcceptedD_eq ρ a L maxlen withWords startState endState d edgeWords hse]
    obtain ⟨opt, m⟩ := d
    cases opt with
    | none =>
      have hm0 : m = [] := hd
      subst hm0
      have hm : MemoOK ρ a (topOpts maxlen withWords endState edgeWords) [] := memoOK_nil _ _ _
      simp only
      cases hr : ρ.automatonAccepted a L maxlen withWords startState endState [] edgeWords with
      | error e =>
        refine ⟨hm, ?_⟩
        intro res h
        cases h
      | ok p =>
        obtain ⟨r, m'⟩ := p
        obtain ⟨hspec, hm'⟩ :=
          automatonAccepted_sound ρ a L maxlen withWords startState endState [] m' edgeWords r hm hr
        refine ⟨hm', ?_⟩
        intro res h
        cases h
        exact hspec
    | some o' =>
      simp only
      by_cases hne : o' ≠ optsTuple maxlen withWords endState edgeWords
      · rw [if_pos hne]
        refine ⟨hd, ?_⟩
        intro res h
        cases h
      · rw [if_neg hne]
        rw [not_not] at hne
        subst hne
        have hm : MemoOK ρ a (topOpts maxlen withWords endState edgeWords) m := hd
        cases hr : ρ.automatonAccepted a L maxlen withWords startState endState m edgeWords with
        | error e =>
          refine ⟨hd, ?_⟩
          intro res h
          cases h
        | ok p =>
          obtain ⟨r, m'⟩ := p
          obtain ⟨hspec, hm'⟩ :=
            automatonAccepted_sound ρ a L maxlen withWords startState endState m m' edgeWords r hm hr
          refine ⟨hm', ?_⟩
          intro res h
          cases h
          exact hspec
  · rw [not_or] at hse
    cases startState with
    | none => exact absurd rfl hse.1
    | some s =>
      cases endState with
      | none => exact absurd rfl hse.2
      | some e =>
        refine ⟨hd, ?_⟩
        intro res h
        cases h

/-! ### any sequence of calls on one dict -/

/-- the arguments of one public call `automaton_accepted(automaton, length, maxlen, with_words,
start_state, end_state, precomputed=d, edge_words)` -/
structure Call (V : Type) where
  length : Nat
  maxlen : Bool
  withWords : Bool
  startState : Option V
  endState : Option V
  edgeWords : Bool

/-- a sequence of public calls sharing the dict `d`: the results (values or exceptions) and the
final dict -/
def runCalls (ρ : Rep n R) (a : Aut V) :
    List (Call V) → PreDict V n R → List (M? (AccRes n R)) × PreDict V n R
  | [], d => ([], d)
  | c :: cs, d =>
    let p := ρ.automatonAcceptedD a c.length c.maxlen c.withWords c.startState c.endState d
      c.edgeWords
    let q := runCalls ρ a cs p.2
    (p.1 :: q.1, q.2)

/-- what the call `c` must return if it returns a value -/
def CallOK (ρ : Rep n R) (a : Aut V) (c : Call V) (r : M? (AccRes n R)) : Prop :=
  ∀ res, r = .ok res →
    ∃ pairs, ρ.topSpec a c.length c.maxlen c.withWords c.startState c.endState c.edgeWords =
        .ok pairs ∧
      res = toRes (topOpts c.maxlen c.withWords c.endState c.edgeWords) pairs

/-- **any sequence of public calls, with whatever options, on a dict that satisfies the
invariant (e.g. `{}`): every value returned is the specified one, and the invariant holds at
the end** -/
theorem precomputed_guard_calls (ρ : Rep n R) (a : Aut V) :
    ∀ (cs : List (Call V)) (d : PreDict V n R), GuardOK ρ a d →
      GuardOK ρ a (ρ.runCalls a cs d).2 ∧ List.Forall₂ (CallOK ρ a) cs (ρ.runCalls a cs d).1
  | [], d, hd => ⟨hd, List.Forall₂.nil⟩
  | c :: cs, d, hd => by
    have h1 := precomputed_guard_sound ρ a c.length c.maxlen c.withWords c.startState c.endState
      d c.edgeWords hd
    have h2 := precomputed_guard_calls ρ a cs _ h1.1
    exact ⟨h2.1, List.Forall₂.cons h1.2 h2.2⟩

end Rep
end GT.RepW
