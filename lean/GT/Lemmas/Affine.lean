/- helper lemmas for `GT.Model.Affine` (no property statements here) -/
import GT.Model.Affine
import Mathlib.Algebra.BigOperators.Fin
import Mathlib.Tactic.FieldSimp
import Mathlib.Tactic.Ring

open Matrix Finset BigOperators

namespace GT.Affine

variable {K : Type*} [Field K] {n m : ℕ}

@[simp] theorem block_cc (c : Fin (n + 1)) (L : Matrix (Fin n) (Fin n) K) :
    affineLinearBlock c L c c = 1 := by
  simp [affineLinearBlock]

@[simp] theorem block_c_sa (c : Fin (n + 1)) (L : Matrix (Fin n) (Fin n) K) (j : Fin n) :
    affineLinearBlock c L c (c.succAbove j) = 0 := by
  simp [affineLinearBlock, Fin.succAbove_ne]

@[simp] theorem block_sa_c (c : Fin (n + 1)) (L : Matrix (Fin n) (Fin n) K) (i : Fin n) :
    affineLinearBlock c L (c.succAbove i) c = 0 := by
  simp [affineLinearBlock]

@[simp] theorem block_sa_sa (c : Fin (n + 1)) (L : Matrix (Fin n) (Fin n) K) (i j : Fin n) :
    affineLinearBlock c L (c.succAbove i) (c.succAbove j) = L i j := by
  simp [affineLinearBlock]

theorem vecMul_block_c (c : Fin (n + 1)) (L : Matrix (Fin n) (Fin n) K) (x : Fin (n + 1) → K) :
    (x ᵥ* affineLinearBlock c L) c = x c := by
  simp [Matrix.vecMul, dotProduct, Fin.sum_univ_succAbove _ c]

theorem vecMul_block_sa (c : Fin (n + 1)) (L : Matrix (Fin n) (Fin n) K) (x : Fin (n + 1) → K)
    (j : Fin n) :
    (x ᵥ* affineLinearBlock c L) (c.succAbove j) = ((fun i => x (c.succAbove i)) ᵥ* L) j := by
  simp [Matrix.vecMul, dotProduct, Fin.sum_univ_succAbove _ c]

theorem mulVec_block_c (c : Fin (n + 1)) (L : Matrix (Fin n) (Fin n) K) (x : Fin (n + 1) → K) :
    (affineLinearBlock c L *ᵥ x) c = x c := by
  simp [Matrix.mulVec, dotProduct, Fin.sum_univ_succAbove _ c]

theorem mulVec_block_sa (c : Fin (n + 1)) (L : Matrix (Fin n) (Fin n) K) (x : Fin (n + 1) → K)
    (i : Fin n) :
    (affineLinearBlock c L *ᵥ x) (c.succAbove i) = (L *ᵥ fun j => x (c.succAbove j)) i := by
  simp [Matrix.mulVec, dotProduct, Fin.sum_univ_succAbove _ c]

theorem vecMul_translation_c (c : Fin (n + 1)) (t : Fin n → K) (x : Fin (n + 1) → K) :
    (x ᵥ* affineTranslation c t) c = x c := by
  simp [Matrix.vecMul, dotProduct, Fin.sum_univ_succAbove _ c, affineTranslation,
    Fin.succAbove_ne, Matrix.one_apply]

theorem vecMul_translation_sa (c : Fin (n + 1)) (t : Fin n → K) (x : Fin (n + 1) → K) (j : Fin n) :
    (x ᵥ* affineTranslation c t) (c.succAbove j) = x (c.succAbove j) + x c * t j := by
  simp [Matrix.vecMul, dotProduct, Fin.sum_univ_succAbove _ c, affineTranslation,
    Fin.succAbove_ne, Matrix.one_apply, add_comm]

theorem zip_const_left {α β : Type*} (a : α) (l : List β) :
    (l.map fun _ => a).zip l = l.map fun b => (a, b) := by
  induction l with
  | nil => rfl
  | cons b l ih => simp only [List.map_cons, List.zip_cons_cons, ih]

end GT.Affine
