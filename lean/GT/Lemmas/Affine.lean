/- helper lemmas for `GT.Model.Affine` (no property statements here) -/
import GT.Model.Affine
import Mathlib.Algebra.BigOperators.Fin
import Mathlib.Tactic.FieldSimp
import Mathlib.Tactic.Ring

open Matrix Finset BigOperators

set_option linter.unusedSectionVars false

namespace GT.Affine

variable {K : Type*} [Field K] {n m : ℕ}

@[simp] theorem block_cc (c : Fin (n + 1)) (L : Matrix (Fin n) (Fin n) K) :
    affineLinearBlock c L c c = 1 := by
  simp [affineLinearBlock]

@[simp] theorem block_c_sa (c : Fin (n + 1)) (L : Matrix (Fin n) (Fin n) K) (j : Fin n) :
    affineLinearBlock c L c (c.succAbove j) = 0 := by
  simp [affineLinearBlock, Fin.succAbove_ne]

@[simp] theorem block_sa_c (c : Fin (n + 1)) (L : Matrix (Fin n) (Fin n) K) (i : Fin n) :
    affineLinearBlock c L (c.succAbove i) c = 0 := by
  simp [affineLinearBlock]

@[simp] theorem block_sa_sa (c : Fin (n + 1)) (L : Matrix (Fin n) (Fin n) K) (i j : Fin n) :
    affineLinearBlock c L (c.succAbove i) (c.succAbove j) = L i j := by
  simp [affineLinearBlock]

theorem vecMul_block_c (c : Fin (n + 1)) (L : Matrix (Fin n) (Fin n) K) (x : Fin (n + 1) → K) :
    (x ᵥ* affineLinearBlock c L) c = x c := by
  simp [Matrix.vecMul, dotProduct, Fin.sum_univ_succAbove _ c]

theorem vecMul_block_sa (c : Fin (n + 1)) (L : Matrix (Fin n) (Fin n) K) (x : Fin (n + 1) → K)
    (j : Fin n) :
    (x ᵥ* affineLinearBlock c L) (c.succAbove j) = ((fun i => x (c.succAbove i)) ᵥ* L) j := by
  simp [Matrix.vecMul, dotProduct, Fin.sum_univ_succAbove _ c]

theorem mulVec_block_c (c : Fin (n + 1)) (L : Matrix (Fin n) (Fin n) K) (x : Fin (n + 1) → K) :
    (affineLinearBlock c L *ᵥ x) c = x c := by
  simp [Matrix.mulVec, dotProduct, Fin.sum_univ_succAbove _ c]

theorem mulVec_block_sa (c : Fin (n + 1)) (L : Matrix (Fin n) (Fin n) K) (x : Fin (n + 1) → K)
    (i : Fin n) :
    (affineLinearBlock c L *ᵥ x) (c.succAbove i) = (L *ᵥ fun j => x (c.succAbove j)) i := by
  simp [Matrix.mulVec, dotProduct, Fin.sum_univ_succAbove _ c]

theorem vecMul_translation_c (c : Fin (n + 1)) (t : Fin n → K) (x : Fin (n + 1) → K) :
    (x ᵥ* affineTranslation c t) c = x c := by
  simp [Matrix.vecMul, dotProduct, Fin.sum_univ_succAbove _ c, affineTranslation,
    Fin.succAbove_ne, Matrix.one_apply]

theorem vecMul_translation_sa (c : Fin (n + 1)) (t : Fin n → K) (x : Fin (n + 1) → K) (j : Fin n) :
    (x ᵥ* affineTranslation c t) (c.succAbove j) = x (c.succAbove j) + x c * t j := by
  simp [Matrix.vecMul, dotProduct, Fin.sum_univ_succAbove _ c, affineTranslation,
    Fin.succAbove_ne, Matrix.one_apply, add_comm]

theorem zip_const_left {α β : Type*} (a : α) (l : List β) :
    (l.map fun _ => a).zip l = l.map fun b => (a, b) := by
  induction l with
  | nil => rfl
  | cons b l ih => simp only [List.map_cons, List.zip_cons_cons, ih]

/-! ### automatic chart choice -/

section auto
variable {L : Type*} [LinearOrder L]

theorem foldl_min_le (g : (Fin (n + 1) → K) → L) :
    ∀ (rest : List (Fin (n + 1) → K)) (m : L),
      rest.foldl (fun m x => min m (g x)) m ≤ m ∧
      (∀ x ∈ rest, rest.foldl (fun m x => min m (g x)) m ≤ g x) ∧
      (rest.foldl (fun m x => min m (g x)) m = m ∨ ∃ x ∈ rest, rest.foldl (fun m x => min m (g x)) m = g x)
  | [], m => ⟨le_refl _, by simp, Or.inl rfl⟩
  | y :: rest, m => by
    obtain ⟨h1, h2, h3⟩ := foldl_min_le g rest (min m (g y))
    simp only [List.foldl_cons]
    refine ⟨le_trans h1 (min_le_left _ _), ?_, ?_⟩
    · intro x hx
      rcases List.mem_cons.1 hx with rfl | hx
      · exact le_trans h1 (min_le_right _ _)
      · exact h2 x hx
    · rcases h3 with h | ⟨x, hx, h⟩
      · rcases min_choice m (g y) with hm | hm
        · left; rw [h, hm]
        · right; exact ⟨y, by simp, by rw [h, hm]⟩
      · right; exact ⟨x, by simp [hx], h⟩

/-- `colMin` is a lower bound of the column and is attained -/
theorem colMin_spec (absf : K → L) (p₀ : Fin (n + 1) → K) (rest : List (Fin (n + 1) → K)) (c : Fin (n + 1)) :
    (∀ x ∈ p₀ :: rest, colMin absf p₀ rest c ≤ absf (x c)) ∧
    ∃ x ∈ p₀ :: rest, colMin absf p₀ rest c = absf (x c) := by
  obtain ⟨h1, h2, h3⟩ := foldl_min_le (fun x => absf (x c)) rest (absf (p₀ c))
  constructor
  · intro x hx
    rcases List.mem_cons.1 hx with rfl | hx
    · exact h1
    · exact h2 x hx
  · rcases h3 with h | ⟨x, hx, h⟩
    · exact ⟨p₀, by simp, h⟩
    · exact ⟨x, by simp [hx], h⟩

theorem foldl_argmax (f : Fin (n + 1) → L) :
    ∀ (l : List (Fin (n + 1))) (b : Fin (n + 1)),
      f b ≤ f (l.foldl (fun best i => if f best < f i then i else best) b) ∧
      ∀ i ∈ l, f i ≤ f (l.foldl (fun best i => if f best < f i then i else best) b)
  | [], b => ⟨le_refl _, by simp⟩
  | j :: l, b => by
    simp only [List.foldl_cons]
    obtain ⟨h1, h2⟩ := foldl_argmax f l (if f b < f j then j else b)
    have hb : f b ≤ f (if f b < f j then j else b) := by split_ifs with h <;> [exact h.le; exact le_refl _]
    have hj : f j ≤ f (if f b < f j then j else b) := by
      split_ifs with h <;> [exact le_refl _; exact not_lt.1 h]
    refine ⟨le_trans hb h1, fun i hi => ?_⟩
    rcases List.mem_cons.1 hi with rfl | hi
    · exact le_trans hj h1
    · exact h2 i hi

/-- `np.argmax` returns an index of a maximal value -/
theorem argmaxFirst_spec (f : Fin (n + 1) → L) (i : Fin (n + 1)) : f i ≤ f (argmaxFirst f) :=
  (foldl_argmax f _ 0).2 i (List.mem_finRange i)

end auto

end GT.Affine
