/- helper lemmas for C20 (CP¹): closed forms, the circle through three points, 2×2 matrix
algebra, boolean-mask assignment -/
import GT.Model.CP1
import GT.Lemmas.Charts
import Mathlib.Tactic.LinearCombination

set_option linter.unusedSectionVars false
set_option linter.unusedVariables false
set_option linter.unusedSimpArgs false
namespace GT.C20
open GT GT.CP1 GT.CP1.Cx

section sphere
variable {K : Type*} [Field K] [LinearOrder K] [IsStrictOrderedRing K]

theorem cx_ne_zero_iff (z : Cx K) : z ≠ 0 ↔ normSq z ≠ 0 := not_congr normSq_eq_zero.symm

theorem ofReal_inv (x : K) (hx : x ≠ 0) : (ofReal x : Cx K)⁻¹ = ofReal x⁻¹ := by
  apply Cx.ext
  · simp [normSq]
  · simp [normSq]

/-- closed form of `projective_to_spherical` -/
theorem p2s_eq (z0 z1 : Cx K) (hn : normSq z0 + normSq z1 ≠ 0) :
    p2s z0 z1 = (2 * (z0.re * z1.re + z0.im * z1.im) / (normSq z0 + normSq z1),
                 2 * (z0.re * z1.im - z0.im * z1.re) / (normSq z0 + normSq z1),
                 (normSq z1 - normSq z0) / (normSq z0 + normSq z1)) := by
  unfold p2s
  simp only [ofReal_inv _ hn]
  generalize normSq z0 + normSq z1 = N at *
  refine Prod.ext ?_ (Prod.ext ?_ rfl)
  · simp; field_simp
  · simp; field_simp; ring

theorem normSq_pos_of (z0 z1 : Cx K) (h : z0 ≠ 0 ∨ z1 ≠ 0) : 0 < normSq z0 + normSq z1 := by
  have h0 := normSq_nonneg z0
  have h1 := normSq_nonneg z1
  rcases h with h | h
  · have := (cx_ne_zero_iff z0).1 h
    have : 0 < normSq z0 := lt_of_le_of_ne h0 (Ne.symm this)
    linarith
  · have := (cx_ne_zero_iff z1).1 h
    have : 0 < normSq z1 := lt_of_le_of_ne h1 (Ne.symm this)
    linarith

end sphere

section disk
variable {K : Type*} [Field K] [LinearOrder K] [IsStrictOrderedRing K]

def dist2 (p q : K × K) : K := (p.1 - q.1) * (p.1 - q.1) + (p.2 - q.2) * (p.2 - q.2)

/-- `circle_through` returns the centre and squared radius of any circle through the three
points (they are not collinear: the determinant the code divides by is non-zero) -/
theorem circleThrough_eq (p1 p2 p3 c : K × K) (R : K)
    (hdet : (p2.1 - p1.1) * (p3.2 - p1.2) - (p3.1 - p1.1) * (p2.2 - p1.2) ≠ 0)
    (h1 : dist2 p1 c = R) (h2 : dist2 p2 c = R) (h3 : dist2 p3 c = R) :
    circleThrough p1 p2 p3 = (c, R) := by
  have two : (2 : K) ≠ 0 := two_ne_zero
  unfold dist2 at h1 h2 h3
  have hx : ((((p2.1 - p1.1) * (p2.1 - p1.1) + (p2.2 - p1.2) * (p2.2 - p1.2)) * (p3.2 - p1.2)
      - ((p3.1 - p1.1) * (p3.1 - p1.1) + (p3.2 - p1.2) * (p3.2 - p1.2)) * (p2.2 - p1.2))
      / ((p2.1 - p1.1) * (p3.2 - p1.2) - (p3.1 - p1.1) * (p2.2 - p1.2)) / 2) = c.1 - p1.1 := by
    rw [div_div, div_eq_iff (mul_ne_zero hdet two)]
    linear_combination (p3.2 - p1.2) * (h2 - h1) - (p2.2 - p1.2) * (h3 - h1)
  have hy : ((((p3.1 - p1.1) * (p3.1 - p1.1) + (p3.2 - p1.2) * (p3.2 - p1.2)) * (p2.1 - p1.1)
      - ((p2.1 - p1.1) * (p2.1 - p1.1) + (p2.2 - p1.2) * (p2.2 - p1.2)) * (p3.1 - p1.1))
      / ((p2.1 - p1.1) * (p3.2 - p1.2) - (p3.1 - p1.1) * (p2.2 - p1.2)) / 2) = c.2 - p1.2 := by
    rw [div_div, div_eq_iff (mul_ne_zero hdet two)]
    linear_combination (p2.1 - p1.1) * (h3 - h1) - (p3.1 - p1.1) * (h2 - h1)
  unfold circleThrough
  simp only
  rw [hx, hy]
  refine Prod.ext (Prod.ext ?_ ?_) ?_
  · simp
  · simp
  · simp only; rw [← h1]; ring

theorem unitDir_unit {ρ : K → K} (hρ : IsSqrt ρ) (c : K × K) :
    (unitDir ρ c).1 * (unitDir ρ c).1 + (unitDir ρ c).2 * (unitDir ρ c).2 = 1 := by
  unfold unitDir
  split_ifs with h
  · simp
  · have hn : 0 ≤ c.1 * c.1 + c.2 * c.2 := by nlinarith [mul_self_nonneg c.1, mul_self_nonneg c.2]
    have hpos : 0 < c.1 * c.1 + c.2 * c.2 := lt_of_le_of_ne hn (Ne.symm h)
    have hr := hρ.pos hpos
    have hs := (hρ _ hn).2
    simp only
    generalize ρ (c.1 * c.1 + c.2 * c.2) = s at *
    field_simp
    linear_combination (-1 : K) * hs

end disk

section mobius
variable {F : Type*} [Field F]

theorem wedge_act (M : M2 F) (p q : F × F) : wedge (act M p) (act M q) = M.det * wedge p q := by
  unfold wedge act M2.det; ring

theorem M2.det_mul (A B : M2 F) : (A.mul B).det = A.det * B.det := by
  unfold M2.det M2.mul; ring

theorem M2.mul_inv_self (B : M2 F) (hB : B.det ≠ 0) : B.mul B.inv = M2.one := by
  ext <;> simp only [M2.mul, M2.inv, M2.one] <;>
    (have hD : B.a * B.d - B.b * B.c = B.det := rfl
     generalize B.det = D at *
     field_simp
     first | ring1 | linear_combination hD | linear_combination (-1 : F) * hD)

theorem M2.inv_mul_self (B : M2 F) (hB : B.det ≠ 0) : B.inv.mul B = M2.one := by
  ext <;> simp only [M2.mul, M2.inv, M2.one] <;>
    (have hD : B.a * B.d - B.b * B.c = B.det := rfl
     generalize B.det = D at *
     field_simp
     first | ring1 | linear_combination hD | linear_combination (-1 : F) * hD)

theorem M2.mul_assoc' (A B C : M2 F) : (A.mul B).mul C = A.mul (B.mul C) := by
  ext <;> simp [M2.mul] <;> ring

theorem M2.one_mul (A : M2 F) : M2.one.mul A = A := by
  ext <;> simp [M2.mul, M2.one]

theorem M2.mul_one (A : M2 F) : A.mul M2.one = A := by
  ext <;> simp [M2.mul, M2.one]

theorem M2.inv_mul (A B : M2 F) (hA : A.det ≠ 0) (hB : B.det ≠ 0) :
    (A.mul B).inv = B.inv.mul A.inv := by
  ext <;> simp only [M2.inv, M2.det_mul] <;> simp only [M2.mul] <;>
    (generalize A.det = a at *
     generalize B.det = b at *
     field_simp
     ring)

theorem act_mul (A B : M2 F) (p : F × F) : act B (act A p) = act (A.mul B) p := by
  unfold act M2.mul; ext <;> simp <;> ring

theorem act_one (p : F × F) : act M2.one p = p := by
  unfold act M2.one; ext <;> simp

def J : M2 F := ⟨1, 0, 0, -1⟩

theorem J_mul_J : (J : M2 F).mul J = M2.one := by
  ext <;> simp [M2.mul, M2.one, J]

theorem inversionM_eq (B : M2 F) : inversionM B = B.mul (J.mul B.inv) := rfl

/-- the matrix `to_standard_triple` returns is `invert([p1; p2])` times `diag(ev, 1/ev)` -/
theorem stdTriple_eq (p1 p2 : F × F) (ev : F) :
    stdTriple p1 p2 ev = (M2.ofRows p1 p2).inv.mul ⟨ev, 0, 0, 1 / ev⟩ := by
  ext <;> simp [stdTriple, M2.mul] <;> ring

end mobius

/-! ### array level -/

theorem length_maskSelect_self (v m : List Bool) (h : v.length = m.length) :
    (maskSelect v m).length = (m.filter id).length := by
  induction v generalizing m with
  | nil => cases m <;> simp_all [maskSelect]
  | cons a as ih =>
    cases m with
    | nil => simp at h
    | cons b bs =>
      simp only [List.length_cons, Nat.add_right_cancel_iff] at h
      cases b <;> simp [maskSelect, ih bs h]

theorem assignInOrder_maskSelect (res m v : List Bool) (h1 : res.length = m.length)
    (h2 : v.length = m.length) :
    assignInOrder res m (maskSelect v m)
      = List.zipWith (fun (rm : Bool × Bool) x => if rm.2 then x else rm.1) (List.zip res m) v := by
  induction res generalizing m v with
  | nil => cases m <;> simp_all [assignInOrder]
  | cons r rs ih =>
    cases m with
    | nil => simp at h1
    | cons b bs =>
      cases v with
      | nil => simp at h2
      | cons x xs =>
        simp only [List.length_cons, Nat.add_right_cancel_iff] at h1 h2
        cases b <;> simp [assignInOrder, maskSelect, ih bs xs h1 h2]

theorem maskAssign_maskSelect (res m v : List Bool) (h1 : res.length = m.length)
    (h2 : v.length = m.length) :
    maskAssign res m (maskSelect v m) = .ok (putmask res m v) := by
  unfold maskAssign
  simp only [length_maskSelect_self v m h2, if_true]
  rw [assignInOrder_maskSelect res m v h1 h2]; rfl

theorem length_putmask (res m v : List Bool) (h1 : res.length = m.length) (h2 : v.length = m.length) :
    (putmask res m v).length = m.length := by
  unfold putmask; simp [h1, h2]

abbrev Unit5 := Bool × Bool × Bool × Bool × Bool

/-- an array of `n` pairs of disks, one record `(s_aff, o_aff, contain, contained, intersect)`
per pair -/
def sAffs (l : List Unit5) := l.map (·.1)
def oAffs (l : List Unit5) := l.map (·.2.1)
def contains_ (l : List Unit5) := l.map (·.2.2.1)
def containeds (l : List Unit5) := l.map (·.2.2.2.1)
def intersects_ (l : List Unit5) := l.map (·.2.2.2.2)


end GT.C20
