/-
Variant of `compose_value` for maps `H` that are multiplicative on *invertible* matrices only
(e.g. the adjoint action on traceless matrices).
-/
import GT.Lemmas.RepHom

namespace GT.RepW
namespace Rep
open Matrix
variable {n m : ℕ} {R S : Type} [Inhabited R] [CommRing R] [Inhabited S] [CommRing S]

theorem compose_value_units {h : DMat n n R → DMat n n R → M? (DMat m m S)} {ρ : Rep n R} {σ : Rep m S}
    (H : Matrix (Fin n) (Fin n) R → Matrix (Fin m) (Fin m) S)
    (hone : H 1 = 1)
    (hmul : ∀ A B : Matrix (Fin n) (Fin n) R, A * A⁻¹ = 1 → A⁻¹ * A = 1 → B * B⁻¹ = 1 → B⁻¹ * B = 1 →
      H (A * B) = H A * H B)
    (hh : ∀ A Ai B, h A Ai = .ok B → A.toMatrix * Ai.toMatrix = 1 → B.toMatrix = H A.toMatrix)
    (hc : ρ.Coherent) (hσ : ρ.compose h = .ok σ) {w : Word} {A : Matrix (Fin n) (Fin n) R}
    (hw : ρ.value w = .ok A) : σ.value w = .ok (H A) := by
  obtain ⟨_, _, _, hg⟩ := compose_gen hσ
  induction w generalizing A with
  | nil => rw [value_nil] at hw; cases hw; rw [value_nil, hone]
  | cons g w ih =>
    obtain ⟨G, W, hG, hW, rfl⟩ := value_append_inv ρ (u := [g]) (v := w) hw
    obtain ⟨g1, g2⟩ := value_isUnit hc hG
    obtain ⟨w1, w2⟩ := value_isUnit hc hW
    rw [hmul G W g1 g2 w1 w2]
    refine value_append_ok σ (u := [g]) (v := w) ?_ (ih hW)
    rw [value_singleton] at hG ⊢
    obtain ⟨Gi, hGi, g1', _⟩ := hc g G hG
    rw [genM_ok_iff] at hG hGi ⊢
    obtain ⟨D, hD, rfl⟩ := hG
    obtain ⟨Di, hDi, rfl⟩ := hGi
    obtain ⟨Ai, B, hAi, hB, hσg⟩ := (hg g).2 D ((gen_ok_iff _ _ _).2 hD)
    rw [gen_ok_iff, hDi] at hAi
    cases hAi
    exact ⟨B, (gen_ok_iff _ _ _).1 hσg, hh D _ B hB g1'⟩

end Rep
end GT.RepW
