/-
Helper lemmas for C05: `lie.sln_adjoint` at the matrix level. `slnAd X Xi` is the matrix of
`M ↦ X * M * Xi` on traceless matrices in the basis `sln_basis_matrix`; it sends `1, 1` to `1`
and is multiplicative as soon as the second factor comes with a genuine inverse.
-/
import Mathlib.LinearAlgebra.Matrix.Trace
import GT.Lemmas.RepDerived

namespace GT.RepW
open Matrix

namespace Rep
variable {R : Type} [CommRing R]

/-! ### the index map `c ↦ (c / n, c % n)` on `Fin (n * n - 1)` -/

/-- row index `c / (k+1)` of a coordinate index of `sl(k+1)` -/
def slnRow {k : ℕ} (c : Fin ((k + 1) * (k + 1) - 1)) : Fin (k + 1) :=
  ⟨c.1 / (k + 1), Nat.div_lt_of_lt_mul (by have := c.2; omega)⟩

/-- column index `c % (k+1)` of a coordinate index of `sl(k+1)` -/
def slnCol {k : ℕ} (c : Fin ((k + 1) * (k + 1) - 1)) : Fin (k + 1) :=
  ⟨c.1 % (k + 1), Nat.mod_lt _ (Nat.succ_pos k)⟩

/-- the matrix of `M ↦ X * M * Xi` in the basis `sln_basis_matrix` (last coordinate dropped) -/
def slnAd [Inhabited R] {k : ℕ} (X Xi : Matrix (Fin (k + 1)) (Fin (k + 1)) R) :
    Matrix (Fin ((k + 1) * (k + 1) - 1)) (Fin ((k + 1) * (k + 1) - 1)) R :=
  (slnLinearAction (R := R) fun M => X * M * Xi).toMatrix

/-- (T0) `lie.sln_adjoint(A, inv=Ai)` is `slnAd` of the underlying matrices -/
theorem slnAdjointMat_toMatrix [Inhabited R] {k : ℕ} (A Ai : DMat (k + 1) (k + 1) R) :
    (slnAdjointMat A Ai).toMatrix = slnAd A.toMatrix Ai.toMatrix := rfl

/-- entry formula -/
theorem slnAd_apply [Inhabited R] {k : ℕ} (X Xi : Matrix (Fin (k + 1)) (Fin (k + 1)) R)
    (r c : Fin ((k + 1) * (k + 1) - 1)) :
    slnAd X Xi r c
      = (X * slnBasisMatrix (slnRow c).1 (slnCol c).1 * Xi : Matrix (Fin (k + 1)) (Fin (k + 1)) R)
          (slnRow r) (slnCol r) := by
  unfold slnAd slnLinearAction
  exact congrFun (congrFun (DMat.toMatrix_ofMatrix _) r) c

theorem slnRowCol_ne_last {k : ℕ} (c : Fin ((k + 1) * (k + 1) - 1)) :
    (slnRow c, slnCol c) ≠ (Fin.last k, Fin.last k) := by
  intro h
  have h1 : c.1 / (k + 1) = k := congrArg (fun p => p.1.1) h
  have h2 : c.1 % (k + 1) = k := congrArg (fun p => p.2.1) h
  have h3 := Nat.div_add_mod c.1 (k + 1)
  rw [h1, h2] at h3
  have := c.2
  have h4 : (k + 1) * (k + 1) = (k + 1) * k + k + 1 := by ring
  omega

theorem slnRowCol_inj {k : ℕ} {c d : Fin ((k + 1) * (k + 1) - 1)}
    (h1 : slnRow c = slnRow d) (h2 : slnCol c = slnCol d) : c = d := by
  have h1' : c.1 / (k + 1) = d.1 / (k + 1) := congrArg Fin.val h1
  have h2' : c.1 % (k + 1) = d.1 % (k + 1) := congrArg Fin.val h2
  apply Fin.ext
  rw [← Nat.div_add_mod c.1 (k + 1), ← Nat.div_add_mod d.1 (k + 1), h1', h2']

/-- the pair `p ≠ (k, k)` as a coordinate index -/
def slnIdx {k : ℕ} (p : Fin (k + 1) × Fin (k + 1)) (hp : p ≠ (Fin.last k, Fin.last k)) :
    Fin ((k + 1) * (k + 1) - 1) :=
  ⟨p.1.1 * (k + 1) + p.2.1, by
    have h1 := p.1.2
    have h2 := p.2.2
    have h3 : p.1.1 ≠ k ∨ p.2.1 ≠ k := by
      by_contra hc
      have hc1 : p.1.1 = k := by omega
      have hc2 : p.2.1 = k := by omega
      exact hp (Prod.ext (Fin.ext hc1) (Fin.ext hc2))
    have h4 : (k + 1) * (k + 1) = k * (k + 1) + k + 1 := by ring
    rcases Nat.lt_or_ge p.1.1 k with h | h
    · have : (p.1.1 + 1) * (k + 1) ≤ k * (k + 1) := Nat.mul_le_mul_right _ h
      have h5 : (p.1.1 + 1) * (k + 1) = p.1.1 * (k + 1) + k + 1 := by ring
      omega
    · have h5 : p.1.1 = k := by omega
      rw [h5]
      omega⟩

theorem slnRow_slnIdx {k : ℕ} (p : Fin (k + 1) × Fin (k + 1)) (hp) : slnRow (slnIdx p hp) = p.1 := by
  apply Fin.ext
  show (p.1.1 * (k + 1) + p.2.1) / (k + 1) = p.1.1
  rw [Nat.mul_comm, Nat.mul_add_div (Nat.succ_pos k), Nat.div_eq_of_lt p.2.2, Nat.add_zero]

theorem slnCol_slnIdx {k : ℕ} (p : Fin (k + 1) × Fin (k + 1)) (hp) : slnCol (slnIdx p hp) = p.2 := by
  apply Fin.ext
  show (p.1.1 * (k + 1) + p.2.1) % (k + 1) = p.2.1
  rw [Nat.mul_comm, Nat.mul_add_mod, Nat.mod_eq_of_lt p.2.2]

/-- summing over coordinate indices is summing over all positions but `(k, k)` -/
theorem sum_slnIdx {k : ℕ} {M : Type} [AddCommMonoid M] (g : Fin (k + 1) × Fin (k + 1) → M) :
    ∑ c : Fin ((k + 1) * (k + 1) - 1), g (slnRow c, slnCol c)
      = ∑ p ∈ Finset.univ.erase (Fin.last k, Fin.last k), g p := by
  refine Finset.sum_bij' (fun c _ => (slnRow c, slnCol c))
    (fun p hp => slnIdx p (Finset.ne_of_mem_erase hp)) ?_ ?_ ?_ ?_ ?_
  · intro c _
    exact Finset.mem_erase.2 ⟨slnRowCol_ne_last c, Finset.mem_univ _⟩
  · intro p _
    exact Finset.mem_univ _
  · intro c _
    exact slnRowCol_inj (slnRow_slnIdx _ _) (slnCol_slnIdx _ _)
  · intro p hp
    exact Prod.ext (slnRow_slnIdx _ _) (slnCol_slnIdx _ _)
  · intro c _
    rfl

/-! ### the basis `sln_basis_matrix` and traceless matrices -/

/-- `E_p - [p.1 = p.2] E_kk`; equals `sln_basis_matrix` off `p = (k, k)`, where it vanishes -/
def slnB {k : ℕ} (p : Fin (k + 1) × Fin (k + 1)) : Matrix (Fin (k + 1)) (Fin (k + 1)) R :=
  fun a b => (if a = p.1 ∧ b = p.2 then 1 else 0)
    - (if p.1 = p.2 ∧ a = Fin.last k ∧ b = Fin.last k then 1 else 0)

theorem slnBasisMatrix_eq {k : ℕ} (p : Fin (k + 1) × Fin (k + 1))
    (hp : p ≠ (Fin.last k, Fin.last k)) :
    (slnBasisMatrix p.1.1 p.2.1 : Matrix (Fin (k + 1)) (Fin (k + 1)) R) = slnB p := by
  funext a b
  obtain ⟨i, j⟩ := p
  unfold slnBasisMatrix slnB
  simp only [← Fin.ext_iff]
  have hk : ∀ x : Fin (k + 1), x.1 = k ↔ x = Fin.last k := fun x => by
    rw [Fin.ext_iff, Fin.val_last]
  simp only [hk]
  by_cases h1 : i = j ∧ a = Fin.last k ∧ b = Fin.last k
  · have h2 : ¬ (a = i ∧ b = j) := by
      rintro ⟨rfl, rfl⟩
      exact hp (Prod.ext h1.2.1 h1.2.2)
    rw [if_pos h1, if_pos h1, if_neg h2]
    ring
  · rw [if_neg h1, if_neg h1, sub_zero]

theorem slnB_last {k : ℕ} : (slnB (Fin.last k, Fin.last k) : Matrix (Fin (k + 1)) (Fin (k + 1)) R) = 0 := by
  funext a b
  unfold slnB
  by_cases h : a = Fin.last k ∧ b = Fin.last k
  · simp [h]
  · simp [h]

theorem trace_slnB {k : ℕ} (p : Fin (k + 1) × Fin (k + 1)) :
    (slnB p : Matrix (Fin (k + 1)) (Fin (k + 1)) R).trace = 0 := by
  obtain ⟨i, j⟩ := p
  show ∑ x : Fin (k + 1), ((if x = i ∧ x = j then (1 : R) else 0)
    - (if i = j ∧ x = Fin.last k ∧ x = Fin.last k then 1 else 0)) = 0
  rw [Finset.sum_sub_distrib]
  by_cases h : i = j
  · subst h
    simp
  · have h1 : ∀ x : Fin (k + 1), ¬ (x = i ∧ x = j) := fun x hx => h (hx.1.symm.trans hx.2)
    simp [h, h1]

/-- every traceless matrix is the combination of the `slnB p` with its own entries -/
theorem sum_smul_slnB {k : ℕ} (M : Matrix (Fin (k + 1)) (Fin (k + 1)) R) (hM : M.trace = 0) :
    ∑ p : Fin (k + 1) × Fin (k + 1), M p.1 p.2 • (slnB p : Matrix (Fin (k + 1)) (Fin (k + 1)) R) = M := by
  funext a b
  rw [Matrix.sum_apply]
  simp only [Matrix.smul_apply, smul_eq_mul, slnB, mul_sub, Finset.sum_sub_distrib]
  have e1 : ∑ p : Fin (k + 1) × Fin (k + 1), M p.1 p.2 * (if a = p.1 ∧ b = p.2 then (1 : R) else 0)
      = M a b := by
    rw [Finset.sum_eq_single (a, b)]
    · simp
    · intro p _ hp
      have : ¬ (a = p.1 ∧ b = p.2) := fun h => hp (Prod.ext h.1.symm h.2.symm)
      simp [this]
    · simp
  have e2 : ∑ p : Fin (k + 1) × Fin (k + 1),
      M p.1 p.2 * (if p.1 = p.2 ∧ a = Fin.last k ∧ b = Fin.last k then (1 : R) else 0) = 0 := by
    by_cases h : a = Fin.last k ∧ b = Fin.last k
    · rw [Fintype.sum_prod_type]
      simp only [h, and_self, and_true, mul_ite, mul_one, mul_zero, Finset.sum_ite_eq,
        Finset.mem_univ, if_true]
      exact hM
    · have : ∀ p : Fin (k + 1) × Fin (k + 1), ¬ (p.1 = p.2 ∧ a = Fin.last k ∧ b = Fin.last k) :=
        fun p hp => h hp.2
      simp [this]
  rw [e1, e2, sub_zero]

/-- (b) a traceless matrix from its coordinates in the basis `sln_basis_matrix` -/
theorem sum_smul_slnBasisMatrix {k : ℕ} (M : Matrix (Fin (k + 1)) (Fin (k + 1)) R)
    (hM : M.trace = 0) :
    ∑ c : Fin ((k + 1) * (k + 1) - 1), M (slnRow c) (slnCol c) •
      (slnBasisMatrix (slnRow c).1 (slnCol c).1 : Matrix (Fin (k + 1)) (Fin (k + 1)) R) = M := by
  rw [sum_slnIdx (fun p => M p.1 p.2 •
    (slnBasisMatrix p.1.1 p.2.1 : Matrix (Fin (k + 1)) (Fin (k + 1)) R))]
  rw [Finset.sum_congr rfl (g := fun p => M p.1 p.2 • slnB p)
    (fun p hp => by rw [slnBasisMatrix_eq p (Finset.ne_of_mem_erase hp)])]
  rw [Finset.sum_erase _ (by rw [slnB_last, smul_zero])]
  exact sum_smul_slnB M hM

theorem trace_slnBasisMatrix {k : ℕ} (c : Fin ((k + 1) * (k + 1) - 1)) :
    (slnBasisMatrix (slnRow c).1 (slnCol c).1 : Matrix (Fin (k + 1)) (Fin (k + 1)) R).trace = 0 := by
  rw [slnBasisMatrix_eq (slnRow c, slnCol c) (slnRowCol_ne_last c)]
  exact trace_slnB _

/-! ### `slnAd` is multiplicative -/

/-- (T1) -/
theorem slnAd_one [Inhabited R] {k : ℕ} :
    slnAd (1 : Matrix (Fin (k + 1)) (Fin (k + 1)) R) 1 = 1 := by
  funext r c
  rw [slnAd_apply, Matrix.one_mul, Matrix.mul_one,
    slnBasisMatrix_eq (slnRow c, slnCol c) (slnRowCol_ne_last c)]
  unfold slnB
  have h2 : ¬ ((slnRow c, slnCol c).1 = (slnRow c, slnCol c).2 ∧ slnRow r = Fin.last k ∧ slnCol r = Fin.last k) :=
    fun h => slnRowCol_ne_last r (Prod.ext h.2.1 h.2.2)
  rw [if_neg h2, sub_zero, Matrix.one_apply]
  by_cases h : r = c
  · subst h
    simp
  · have : ¬ (slnRow r = (slnRow c, slnCol c).1 ∧ slnCol r = (slnRow c, slnCol c).2) :=
      fun hc => h (slnRowCol_inj hc.1 hc.2)
    rw [if_neg this, if_neg h]

/-- conjugation by an invertible matrix preserves tracelessness of the basis matrices -/
theorem trace_conj_slnBasisMatrix {k : ℕ} {Y Yi : Matrix (Fin (k + 1)) (Fin (k + 1)) R}
    (hY : Y * Yi = 1) (c : Fin ((k + 1) * (k + 1) - 1)) :
    (Y * slnBasisMatrix (slnRow c).1 (slnCol c).1 * Yi).trace = 0 := by
  rw [Matrix.trace_mul_cycle, mul_eq_one_comm.1 hY, Matrix.one_mul, trace_slnBasisMatrix]

/-- (T2) -/
theorem slnAd_mul [Inhabited R] {k : ℕ} {X Xi Y Yi : Matrix (Fin (k + 1)) (Fin (k + 1)) R} (hY : Y * Yi = 1) :
    slnAd (X * Y) (Yi * Xi) = slnAd X Xi * slnAd Y Yi := by
  funext r c
  rw [Matrix.mul_apply]
  simp only [slnAd_apply]
  set M : Matrix (Fin (k + 1)) (Fin (k + 1)) R :=
    Y * slnBasisMatrix (slnRow c).1 (slnCol c).1 * Yi with hMdef
  have hM : M.trace = 0 := trace_conj_slnBasisMatrix hY c
  have e : X * Y * slnBasisMatrix (slnRow c).1 (slnCol c).1 * (Yi * Xi) = X * M * Xi := by
    rw [hMdef]
    simp only [Matrix.mul_assoc]
  rw [e]
  conv_lhs => rw [← sum_smul_slnBasisMatrix M hM]
  rw [Matrix.mul_sum, Matrix.sum_mul, Matrix.sum_apply]
  refine Finset.sum_congr rfl fun d _ => ?_
  rw [Matrix.mul_smul, Matrix.smul_mul, Matrix.smul_apply, smul_eq_mul, mul_comm]

end Rep
end GT.RepW
