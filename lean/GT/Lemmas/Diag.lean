import GT.Model.Diag
import GT.Lemmas.Charts
import Mathlib.Tactic.FieldSimp
import Mathlib.Tactic.Ring
import Mathlib.Tactic.Linarith
import Mathlib.Data.List.FinRange
import Mathlib.Data.Fintype.EquivFin

open Finset BigOperators Matrix

set_option linter.unusedSectionVars false

namespace GT.Diag

variable {K : Type*} [Field K] [LinearOrder K] {n : ℕ}

/-! ### `argsort` as a stable sort -/

instance (key : Fin n → K) : Std.Total (keyLE key) := ⟨fun i j => le_total (key i) (key j)⟩
instance (key : Fin n → K) : IsTrans (Fin n) (keyLE key) := ⟨fun _ _ _ h1 h2 => le_trans h1 h2⟩

theorem argsort_perm (key : Fin n → K) : (argsort key).Perm (List.finRange n) :=
  List.perm_insertionSort _ _

theorem argsort_sorted (key : Fin n → K) : (argsort key).Pairwise (fun i j => key i ≤ key j) :=
  List.pairwise_insertionSort (keyLE key) _

theorem formOrder_perm (eigs : Fin n → K) (mink reverse : Bool) :
    (formOrder eigs mink reverse).Perm (List.finRange n) := by
  unfold formOrder
  cases reverse with
  | false => simp only [Bool.false_eq_true, if_false]; exact argsort_perm _
  | true => simp only [if_true]; exact (List.reverse_perm _).trans (argsort_perm _)

theorem formOrder_length (eigs : Fin n → K) (mink reverse : Bool) :
    (formOrder eigs mink reverse).length = n := by
  rw [(formOrder_perm eigs mink reverse).length_eq, List.length_finRange]

theorem orderFn_bijective (l : List (Fin n)) (h : l.length = n) (hp : l.Perm (List.finRange n)) :
    Function.Bijective (orderFn l h) := by
  have hnd : l.Nodup := hp.nodup_iff.2 (List.nodup_finRange n)
  have hinj : Function.Injective (orderFn l h) := by
    intro i j hij
    unfold orderFn at hij
    have := (List.nodup_iff_injective_get.1 hnd) hij
    exact Fin.cast_injective _ this
  exact hinj.bijective_of_finite

/-- the sort keys are non-decreasing along the order (non-increasing if `reverse`) -/
theorem formOrder_sorted (eigs : Fin n → K) (mink reverse : Bool) (i j : Fin n) (hij : i < j) :
    let key := if mink then minkowskiKey eigs else eigs
    let σ := orderFn (formOrder eigs mink reverse) (formOrder_length eigs mink reverse)
    if reverse then key (σ j) ≤ key (σ i) else key (σ i) ≤ key (σ j) := by
  intro key σ
  have hs := argsort_sorted key
  have hlen : (argsort key).length = n := by rw [(argsort_perm key).length_eq, List.length_finRange]
  cases reverse with
  | false =>
    simp only [Bool.false_eq_true, if_false]
    have : ∀ (a b : ℕ) (ha : a < (argsort key).length) (hb : b < (argsort key).length), a < b →
        key (argsort key)[a] ≤ key (argsort key)[b] := List.pairwise_iff_getElem.1 hs
    have := this i j (by rw [hlen]; exact i.2) (by rw [hlen]; exact j.2) hij
    simpa [σ, orderFn, formOrder, key] using this
  | true =>
    simp only [if_true]
    have hs' : (argsort key).reverse.Pairwise (fun a b => key b ≤ key a) := List.pairwise_reverse.2 hs
    have : ∀ (a b : ℕ) (ha : a < (argsort key).reverse.length) (hb : b < (argsort key).reverse.length), a < b →
        key (argsort key).reverse[b] ≤ key (argsort key).reverse[a] := List.pairwise_iff_getElem.1 hs'
    have := this i j (by rw [List.length_reverse, hlen]; exact i.2) (by rw [List.length_reverse, hlen]; exact j.2) hij
    simpa [σ, orderFn, formOrder, key] using this

section ordered
variable [IsStrictOrderedRing K]

/-- for non-zero eigenvalues the Minkowski key orders the rarer sign first (negatives on ties) -/
theorem minkowskiKey_le_iff (eigs : Fin n → K) (hnz : ∀ i, eigs i ≠ 0) (a b : Fin n) :
    minkowskiKey eigs a ≤ minkowskiKey eigs b ↔
      if (Finset.univ.filter fun i => 0 < eigs i).card < (Finset.univ.filter fun i => eigs i < 0).card
      then (0 < eigs b → 0 < eigs a) else (eigs b < 0 → eigs a < 0) := by
  rcases lt_or_gt_of_ne (hnz a) with ha' | ha' <;> rcases lt_or_gt_of_ne (hnz b) with hb' | hb' <;>
    by_cases hc : (Finset.univ.filter fun i => 0 < eigs i).card < (Finset.univ.filter fun i => eigs i < 0).card <;>
    simp [minkowskiKey, ha', hb', hc, not_lt.2 ha'.le, not_lt.2 hb'.le]

/-! ### the algebra of `diagonalize_form` -/

theorem diagD_sq_mul {r : K → K} (hr : IsSqrt r) (eigs : Fin n → K) (i : Fin n) (h : eigs i ≠ 0) :
    diagD r eigs i * eigs i * diagD r eigs i = if 0 < eigs i then 1 else -1 := by
  have hpos : 0 < |eigs i| := abs_pos.2 h
  have hrp := hr.pos hpos
  have hsq := (hr _ hpos.le).2
  unfold diagD
  rw [if_neg hrp.ne']
  have : 1 / r |eigs i| * eigs i * (1 / r |eigs i|) = eigs i / (r |eigs i| * r |eigs i|) := by
    field_simp
  rw [this, hsq]
  split_ifs with hp
  · rw [abs_of_pos hp, div_self h]
  · have hneg : eigs i < 0 := lt_of_le_of_ne (not_lt.1 hp) h
    rw [abs_of_neg hneg, div_neg, div_self h]

theorem diagD_mul_diagDinv {r : K → K} (hr : IsSqrt r) (eigs : Fin n → K) (hnz : ∀ i, eigs i ≠ 0) :
    (Matrix.diagonal (diagD r eigs) : Matrix (Fin n) (Fin n) K) * Matrix.diagonal (diagDinv r eigs) = 1 := by
  rw [Matrix.diagonal_mul_diagonal, ← Matrix.diagonal_one]
  congr 1; funext i
  have hrp := hr.pos (abs_pos.2 (hnz i))
  unfold diagD diagDinv
  rw [if_neg hrp.ne']
  field_simp

/-- `Wᵀ B W = diag(sign λ_{σ i})` and `W Winv = Winv W = 1` under the `eigh` contract -/
theorem diagonalizeForm_algebra {r : K → K} (hr : IsSqrt r) (B U : Matrix (Fin n) (Fin n) K) (eigs : Fin n → K)
    (h1 : Uᵀ * B * U = Matrix.diagonal eigs) (h2 : Uᵀ * U = 1) (hnz : ∀ i, eigs i ≠ 0)
    (σ : Fin n → Fin n) (hσ : Function.Bijective σ) :
    ((diagonalizeForm r eigs U σ).1)ᵀ * B * (diagonalizeForm r eigs U σ).1
        = Matrix.diagonal (fun i => if 0 < eigs (σ i) then 1 else -1) ∧
    (diagonalizeForm r eigs U σ).1 * (diagonalizeForm r eigs U σ).2 = 1 ∧
    (diagonalizeForm r eigs U σ).2 * (diagonalizeForm r eigs U σ).1 = 1 := by
  unfold diagonalizeForm
  simp only
  set D := (Matrix.diagonal (diagD r eigs) : Matrix (Fin n) (Fin n) K) with hD
  set Di := (Matrix.diagonal (diagDinv r eigs) : Matrix (Fin n) (Fin n) K) with hDi
  have hgram : (U * D)ᵀ * B * (U * D) = Matrix.diagonal (fun i => if 0 < eigs i then 1 else -1) := by
    rw [Matrix.transpose_mul, hD, Matrix.diagonal_transpose]
    calc Matrix.diagonal (diagD r eigs) * Uᵀ * B * (U * Matrix.diagonal (diagD r eigs))
        = Matrix.diagonal (diagD r eigs) * (Uᵀ * B * U) * Matrix.diagonal (diagD r eigs) := by
          simp only [Matrix.mul_assoc]
      _ = _ := by
          rw [h1, Matrix.diagonal_mul_diagonal, Matrix.diagonal_mul_diagonal]
          congr 1; funext i; exact diagD_sq_mul hr eigs i (hnz i)
  have hUU : U * Uᵀ = 1 := mul_eq_one_comm.1 h2
  have hW : U * D * (Di * Uᵀ) = 1 := by
    calc U * D * (Di * Uᵀ) = U * (D * Di) * Uᵀ := by simp only [Matrix.mul_assoc]
      _ = 1 := by rw [hD, hDi, diagD_mul_diagDinv hr eigs hnz, Matrix.mul_one, hUU]
  refine ⟨?_, ?_, ?_⟩
  · rw [Matrix.transpose_submatrix]
    have e1 : ((U * D)ᵀ.submatrix σ id) * B = ((U * D)ᵀ * B).submatrix σ id := by
      have := Matrix.submatrix_mul ((U * D)ᵀ) B σ id id Function.bijective_id
      rw [this]; simp
    rw [e1]
    have e2 := Matrix.submatrix_mul ((U * D)ᵀ * B) (U * D) σ id σ Function.bijective_id
    rw [← e2, hgram]
    exact Matrix.submatrix_diagonal _ σ hσ.injective
  · have e := Matrix.submatrix_mul (U * D) (Di * Uᵀ) id σ id hσ
    rw [← e, hW]; simp
  · have hW' : Di * Uᵀ * (U * D) = 1 := mul_eq_one_comm.1 hW
    have hl : ((U * D).submatrix id σ) * ((Di * Uᵀ).submatrix σ id) = 1 := by
      have e := Matrix.submatrix_mul (U * D) (Di * Uᵀ) id σ id hσ
      rw [← e, hW]; simp
    exact mul_eq_one_comm.1 hl

end ordered

/-! ### kernel -/

theorem mem_finRange_drop (k : ℕ) (i : Fin n) : i ∈ (List.finRange n).drop k ↔ k ≤ i.val := by
  rw [List.mem_iff_getElem]
  constructor
  · rintro ⟨p, hp, rfl⟩
    rw [List.getElem_drop]; simp
  · intro h
    refine ⟨i.val - k, by rw [List.length_drop, List.length_finRange]; omega, ?_⟩
    rw [List.getElem_drop]
    apply Fin.ext
    simp; omega

/-- the rows returned by `svd_kernel` are orthonormal and annihilated under the SVD contract
(`A = u Σ vh`, `vh vhᵀ = 1`, and the columns of `Σ` from index `n − kernel_dim` on vanish — the
singular values counted as small are exactly zero and, `s` being descending, are the trailing ones) -/
theorem svdKernelRows_spec {m : ℕ} (tol : K) (s : List K) (A : Matrix (Fin m) (Fin n) K) (U : Matrix (Fin m) (Fin m) K)
    (Sg : Matrix (Fin m) (Fin n) K) (Vh : Matrix (Fin n) (Fin n) K)
    (hA : A = U * Sg * Vh) (hV : Vh * Vhᵀ = 1)
    (hz : ∀ (i : Fin n), n - svdKernelDim tol m n s ≤ i.val → ∀ a, Sg a i = 0) :
    (∀ v ∈ svdKernelRows tol m s Vh, A *ᵥ v = 0) ∧
    (∀ v ∈ svdKernelRows tol m s Vh, dot v v = 1) ∧
    (svdKernelRows tol m s Vh).Pairwise (fun v w => dot v w = 0) ∧
    (svdKernelRows tol m s Vh).length = min (svdKernelDim tol m n s) n := by
  have hdot : ∀ i j, dot (Vh i) (Vh j) = (1 : Matrix (Fin n) (Fin n) K) i j := by
    intro i j; rw [← hV, Matrix.mul_apply]; rfl
  unfold svdKernelRows
  refine ⟨?_, ?_, ?_, ?_⟩
  · intro v hv
    obtain ⟨i, hi, rfl⟩ := List.mem_map.1 hv
    rw [mem_finRange_drop] at hi
    have hVi : Vh *ᵥ (Vh i) = Pi.single i 1 := by
      funext k
      have := hdot k i
      unfold dot at this
      rw [Matrix.mulVec, dotProduct, this, Matrix.one_apply, Pi.single_apply]
    rw [hA, ← Matrix.mulVec_mulVec, hVi, ← Matrix.mulVec_mulVec, Matrix.mulVec_single_one]
    have : Sg.col i = 0 := by funext a; exact hz i hi a
    rw [this, Matrix.mulVec_zero]
  · intro v hv
    obtain ⟨i, _, rfl⟩ := List.mem_map.1 hv
    rw [hdot, Matrix.one_apply_eq]
  · rw [List.pairwise_map]
    have hnd : ((List.finRange n).drop (n - svdKernelDim tol m n s)).Nodup :=
      (List.nodup_finRange n).sublist (List.drop_sublist _ _)
    exact hnd.imp (fun {i j} hij => by rw [hdot, Matrix.one_apply_ne hij])
  · rw [List.length_map, List.length_drop, List.length_finRange]; omega

/-! ### spheres -/

section sphere
variable [IsStrictOrderedRing K] {d : ℕ}

theorem sphereT_mulVec_center (pts : Fin (d + 1) → Fin d → K) (hT : IsUnit (sphereT pts).det) (i : Fin d) :
    dot (sphereT pts i) (sphereCenterT pts) = nsq (sphereT pts i) / 2 := by
  have h1 : sphereT pts *ᵥ sphereCenterT pts = (1 / 2 : K) • fun i => nsq (sphereT pts i) := by
    unfold sphereCenterT
    rw [Matrix.mulVec_smul, ← Matrix.mulVec_transpose, Matrix.transpose_nonsing_inv,
      Matrix.transpose_transpose, Matrix.mulVec_mulVec, Matrix.mul_nonsing_inv _ hT, Matrix.one_mulVec]
  have := congrFun h1 i
  simp only [Pi.smul_apply, smul_eq_mul] at this
  unfold dot
  rw [Matrix.mulVec, dotProduct] at this
  rw [this]; ring

/-- every one of the `d+1` points is at squared distance `‖t_ctr‖²` from the returned centre -/
theorem sphereThrough_equidistant (r : K → K) (pts : Fin (d + 1) → Fin d → K) (hT : IsUnit (sphereT pts).det)
    (i : Fin (d + 1)) :
    nsq (fun k => pts i k - (sphereThrough r pts).1 k) = nsq (sphereCenterT pts) := by
  unfold sphereThrough
  simp only [Pi.add_apply]
  refine Fin.cases ?_ (fun j => ?_) i
  · have : (fun k => pts 0 k - (sphereCenterT pts k + pts 0 k)) = fun k => sphereCenterT pts k * (-1) := by
      funext k; ring
    rw [this, nsq_smul]; ring
  · have : (fun k => pts j.succ k - (sphereCenterT pts k + pts 0 k))
        = fun k => sphereT pts j k - sphereCenterT pts k := by
      funext k; simp [sphereT]; ring
    rw [this, nsq_sub, sphereT_mulVec_center pts hT j]; ring

end sphere

end GT.Diag
