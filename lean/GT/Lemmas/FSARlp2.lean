/-
`remove_long_paths`: completeness of the breadth-first loop.  The levels it assigns are the graph
distances from the root; with `edge_ties` it keeps exactly the edges that go from a distance to the
next one, without it a spanning tree of them (all parallel labels of a tree edge).
-/
import GT.Lemmas.FSARlp

set_option linter.unusedSectionVars false
set_option linter.unusedSimpArgs false

namespace GT.FSA
variable {V L : Type} [DecidableEq V] [DecidableEq L]
open Dict

/-- the level stored for a vertex (0 when it has none) -/
def lev (dist : Dict V Nat) (x : V) : Nat := (dist.get? x).getD 0

theorem lev_of_get? {dist : Dict V Nat} {x : V} {d : Nat} (h : dist.get? x = some d) : lev dist x = d := by
  simp [lev, h]

/-- invariant of the breadth-first loop, with the ghost set `P` of vertices already processed -/
structure RlpInv2 (s : FSA V L) (root : V) (ties : Bool) (H : FSA V L) (marked : Dict V Bool)
    (dist : Dict V Nat) (queue : List V) (P : V → Prop) : Prop where
  base : RlpInv s root H marked dist queue
  sorted : queue.Pairwise (fun x y => lev dist x ≤ lev dist y)
  near : ∀ x ∈ queue, ∀ y, marked.get? y = some true → lev dist y ≤ lev dist x + 1
  below : ∀ p, P p → ∀ x ∈ queue, lev dist p ≤ lev dist x
  split : ∀ x, marked.get? x = some true ↔ (P x ∨ x ∈ queue)
  procd : ∀ p, P p → ∀ l w, s.step p l = some w →
    marked.get? w = some true ∧ lev dist w ≤ lev dist p + 1 ∧
    (ties = true → lev dist w = lev dist p + 1 → H.step p l = some w)
  walk : ∀ x, marked.get? x = some true → Walk s root x (lev dist x)
  tree1 : ties = false → ∀ v v' l l' w, H.step v l = some w → H.step v' l' = some w → v = v'
  tree2 : ties = false → ∀ w, marked.get? w = some true → w ≠ root → ∃ v l, H.step v l = some w
  treeAll : ties = false → ∀ v l w, H.step v l = some w → ∀ l', s.step v l' = some w → H.step v l' = some w

theorem rlp_iter2 {s : FSA V L} (hs : s.WF) (root : V) (ties : Bool) (fuel : Nat)
    (H : FSA V L) (marked : Dict V Bool) (dist : Dict V Nat) (v : V) (q : List V) (P : V → Prop)
    (H' : FSA V L) (dist' : Dict V Nat) (inv : RlpInv2 s root ties H marked dist (v :: q) P)
    (h : rlpLoop s ties (fuel + 1) H marked dist (v :: q) = .ok (H', dist')) :
    ∃ (H1 : FSA V L) (marked1 : Dict V Bool) (dist1 : Dict V Nat) (q1 : List V),
      RlpInv2 s root ties H1 marked1 dist1 q1 (fun x => P x ∨ x = v) ∧
      rlpLoop s ties fuel H1 marked1 dist1 q1 = .ok (H', dist') := by
  obtain ⟨row, toVisit, short, dv, H1, marked1, dist1, hrow, hdv, htv, htot, hM, hD, hshort, hedge, inv1, h1⟩ :=
    rlp_iter hs root ties fuel H marked dist v q H' dist' inv.base h
  refine ⟨H1, marked1, dist1, q ++ toVisit, ?_, h1⟩
  have hlevv : lev dist v = dv := lev_of_get? hdv
  have hvmark : marked.get? v = some true := inv.base.queued v (by simp)
  -- marks and levels after the iteration
  have hmark1 : ∀ x, marked1.get? x = some true ↔ marked.get? x = some true ∨ x ∈ toVisit := by
    intro x; rw [hM x]
    by_cases hx : x ∈ toVisit <;> simp [hx]
  have hlev_old : ∀ x, marked.get? x = some true → lev dist1 x = lev dist x := by
    intro x hx
    obtain ⟨d, hd⟩ := (inv.base.mark x).1 hx
    have hx' : x ∉ toVisit := by
      intro hm; have := ((htv x).1 hm).2; rw [hx] at this; cases this
    have : dist1.get? x = some d := by rw [hD x]; simp [hx', hd]
    rw [lev_of_get? this, lev_of_get? hd]
  have hlev_new : ∀ x ∈ toVisit, lev dist1 x = dv + 1 := by
    intro x hx
    have : dist1.get? x = some (dv + 1) := by rw [hD x]; simp [hx]
    exact lev_of_get? this
  have hlev1v : lev dist1 v = dv := by rw [hlev_old v hvmark, hlevv]
  have hqmark : ∀ x ∈ q, marked.get? x = some true := fun x hx => inv.base.queued x (by simp [hx])
  -- the neighbours of `v`
  have hnb : ∀ l w, s.step v l = some w ↔ ∃ ls, row.get? w = some ls ∧ l ∈ ls := by
    intro l w; rw [hs.1.label, og_def, hrow]; rfl
  have hnbkey : ∀ l w, s.step v l = some w → w ∈ row.keys := by
    intro l w hw
    obtain ⟨ls, hls, -⟩ := (hnb l w).1 hw
    exact (mem_keys_iff _ _).2 ⟨ls, hls⟩
  have hkeynb : ∀ w ∈ row.keys, ∃ l, s.step v l = some w := by
    intro w hw
    obtain ⟨ls, hls⟩ := (mem_keys_iff _ _).1 hw
    have hog : s.og v w = some ls := by rw [og_def, hrow]; exact hls
    obtain ⟨l, hl⟩ := List.exists_mem_of_ne_nil ls (hs.2 v w ls hog)
    exact ⟨l, (hnb l w).2 ⟨ls, hls, hl⟩⟩
  have hhead : ∀ x ∈ q, dv ≤ lev dist x := by
    intro x hx
    have := inv.sorted
    rw [List.pairwise_cons] at this
    rw [← hlevv]; exact this.1 x hx
  have hall : ∀ y, marked.get? y = some true → lev dist y ≤ dv + 1 := by
    intro y hy; rw [← hlevv]; exact inv.near v (by simp) y hy
  have hq1lev : ∀ x ∈ q ++ toVisit, dv ≤ lev dist1 x := by
    intro x hx
    rcases List.mem_append.1 hx with h2 | h2
    · rw [hlev_old x (hqmark x h2)]; exact hhead x h2
    · rw [hlev_new x h2]; omega
  have hm1lev : ∀ y, marked1.get? y = some true → lev dist1 y ≤ dv + 1 := by
    intro y hy
    rcases (hmark1 y).1 hy with h2 | h2
    · rw [hlev_old y h2]; exact hall y h2
    · rw [hlev_new y h2]; omega
  have hshortNT : ties = false → ∀ w, w ∈ short ↔ w ∈ toVisit := by
    intro ht w; rw [hshort w]; simp [ht]
  refine ⟨inv1, ?_, ?_, ?_, ?_, ?_, ?_, ?_, ?_, ?_⟩
  · -- sorted
    rw [List.pairwise_append]
    refine ⟨?_, ?_, ?_⟩
    · have := inv.sorted
      rw [List.pairwise_cons] at this
      refine this.2.imp_of_mem ?_
      intro a b ha hb hab
      rw [hlev_old a (hqmark a ha), hlev_old b (hqmark b hb)]; exact hab
    · rw [List.pairwise_iff_forall_sublist]
      intro a b hab
      have ha : a ∈ toVisit := hab.subset (by simp)
      have hb : b ∈ toVisit := hab.subset (by simp)
      rw [hlev_new a ha, hlev_new b hb]; exact Nat.le_refl _
    · intro a ha b hb
      rw [hlev_old a (hqmark a ha), hlev_new b hb]
      exact hall a (hqmark a ha)
  · -- near
    intro x hx y hy
    have := hq1lev x hx
    have := hm1lev y hy
    omega
  · -- below
    intro p hp x hx
    have hx' := hq1lev x hx
    rcases hp with hp | rfl
    · have hpm : marked.get? p = some true := (inv.split p).2 (Or.inl hp)
      rw [hlev_old p hpm]
      have := inv.below p hp v (by simp)
      omega
    · rw [hlev1v]; exact hx'
  · -- split
    intro x
    rw [hmark1 x, inv.split x]
    simp only [List.mem_cons, List.mem_append]
    constructor
    · rintro ((h2 | rfl | h2) | h2)
      · exact Or.inl (Or.inl h2)
      · exact Or.inl (Or.inr rfl)
      · exact Or.inr (Or.inl h2)
      · exact Or.inr (Or.inr h2)
    · rintro ((h2 | rfl) | h2 | h2)
      · exact Or.inl (Or.inl h2)
      · exact Or.inl (Or.inr (Or.inl rfl))
      · exact Or.inl (Or.inr (Or.inr h2))
      · exact Or.inr h2
  · -- procd
    intro p hp l w hw
    rcases hp with hp | rfl
    · obtain ⟨a1, a2, a3⟩ := inv.procd p hp l w hw
      have hpm : marked.get? p = some true := (inv.split p).2 (Or.inl hp)
      refine ⟨(hmark1 w).2 (Or.inl a1), ?_, ?_⟩
      · rw [hlev_old w a1, hlev_old p hpm]; exact a2
      · intro ht hl
        rw [hlev_old w a1, hlev_old p hpm] at hl
        exact (hedge p l w).2 (Or.inl (a3 ht hl))
    · have hwk := hnbkey l w hw
      obtain ⟨b, hb⟩ := htot w hwk
      have hwm : marked1.get? w = some true := by
        cases b
        · exact (hmark1 w).2 (Or.inr ((htv w).2 ⟨hwk, hb⟩))
        · exact (hmark1 w).2 (Or.inl hb)
      refine ⟨hwm, by rw [hlev1v]; exact hm1lev w hwm, ?_⟩
      intro ht hl
      rw [hlev1v] at hl
      obtain ⟨d, hd⟩ := (inv1.mark w).1 hwm
      have : d = dv + 1 := by rw [lev_of_get? hd] at hl; exact hl
      subst this
      have hws : w ∈ short := by rw [hshort w]; simp [ht, hwk, hd]
      exact (hedge p l w).2 (Or.inr ⟨rfl, hws, (hnb l w).1 hw⟩)
  · -- walk
    intro x hx
    rcases (hmark1 x).1 hx with h2 | h2
    · rw [hlev_old x h2]; exact inv.walk x h2
    · rw [hlev_new x h2]
      obtain ⟨l, hl⟩ := hkeynb x ((htv x).1 h2).1
      have := inv.walk v hvmark
      rw [hlevv] at this
      exact Walk.succ this hl
  · -- tree1
    intro ht a a' l l' w h2 h3
    have hnew_unmarked : ∀ a l, H.step a l = some w → w ∉ toVisit := by
      intro a l h4 hm
      obtain ⟨-, d, -, hd⟩ := inv.base.sound a l w h4
      have := (inv.base.mark w).2 ⟨d + 1, hd⟩
      rw [((htv w).1 hm).2] at this; cases this
    rcases (hedge a l w).1 h2 with h4 | ⟨rfl, h4, -⟩ <;> rcases (hedge a' l' w).1 h3 with h5 | ⟨rfl, h5, -⟩
    · exact inv.tree1 ht a a' l l' w h4 h5
    · exact absurd ((hshortNT ht w).1 h5) (hnew_unmarked a l h4)
    · exact absurd ((hshortNT ht w).1 h4) (hnew_unmarked a' l' h5)
    · rfl
  · -- tree2
    intro ht w hw hne
    rcases (hmark1 w).1 hw with h2 | h2
    · obtain ⟨a, l, hl⟩ := inv.tree2 ht w h2 hne
      exact ⟨a, l, (hedge a l w).2 (Or.inl hl)⟩
    · obtain ⟨l, hl⟩ := hkeynb w ((htv w).1 h2).1
      exact ⟨v, l, (hedge v l w).2 (Or.inr ⟨rfl, (hshortNT ht w).2 h2, (hnb l w).1 hl⟩)⟩
  · -- treeAll
    intro ht a l w h2 l' h3
    rcases (hedge a l w).1 h2 with h4 | ⟨rfl, h4, -⟩
    · exact (hedge a l' w).2 (Or.inl (inv.treeAll ht a l w h4 l' h3))
    · exact (hedge a l' w).2 (Or.inr ⟨rfl, h4, (hnb l' w).1 h3⟩)

theorem rlpLoop_complete {s : FSA V L} (hs : s.WF) (root : V) (ties : Bool) (fuel : Nat) :
    ∀ (H : FSA V L) (marked : Dict V Bool) (dist : Dict V Nat) (queue : List V) (P : V → Prop)
      (H' : FSA V L) (dist' : Dict V Nat),
      RlpInv2 s root ties H marked dist queue P → rlpLoop s ties fuel H marked dist queue = .ok (H', dist') →
      ∃ marked' P', RlpInv2 s root ties H' marked' dist' [] P' := by
  induction fuel with
  | zero =>
    intro H marked dist queue P H' dist' inv h
    cases queue with
    | nil => simp only [rlpLoop, Except.ok.injEq, Prod.mk.injEq] at h; obtain ⟨rfl, rfl⟩ := h; exact ⟨marked, P, inv⟩
    | cons v q => simp [rlpLoop] at h
  | succ fuel ih =>
    intro H marked dist queue P H' dist' inv h
    cases queue with
    | nil => simp only [rlpLoop, Except.ok.injEq, Prod.mk.injEq] at h; obtain ⟨rfl, rfl⟩ := h; exact ⟨marked, P, inv⟩
    | cons v q =>
      obtain ⟨H1, marked1, dist1, q1, inv1, h1⟩ := rlp_iter2 hs root ties fuel H marked dist v q P H' dist' inv h
      exact ih H1 marked1 dist1 q1 _ H' dist' inv1 h1

/-- what the invariant says once the queue is empty -/
theorem rlp_final {s : FSA V L} {root : V} {ties : Bool} {H : FSA V L} {marked : Dict V Bool}
    {dist : Dict V Nat} {P : V → Prop} (inv : RlpInv2 s root ties H marked dist [] P) :
    (∀ x n, dist.get? x = some n ↔ IsDist s root x n) ∧
    (ties = true → ∀ v l w, H.step v l = some w ↔
      s.step v l = some w ∧ ∃ d, IsDist s root v d ∧ IsDist s root w (d + 1)) ∧
    (∀ v l w, H.step v l = some w →
      s.step v l = some w ∧ ∃ d, IsDist s root v d ∧ IsDist s root w (d + 1)) := by
  have hP : ∀ x, marked.get? x = some true → P x := by
    intro x hx
    rcases (inv.split x).1 hx with h | h
    · exact h
    · cases h
  have hrootm : marked.get? root = some true := (inv.base.mark root).2 ⟨0, inv.base.root⟩
  have hA : ∀ x n, Walk s root x n → marked.get? x = some true ∧ lev dist x ≤ n := by
    intro x n hw
    induction hw with
    | zero => exact ⟨hrootm, by rw [lev_of_get? inv.base.root]; exact Nat.le_refl _⟩
    | succ _ hst ih =>
      obtain ⟨a1, a2, -⟩ := inv.procd _ (hP _ ih.1) _ _ hst
      exact ⟨a1, by omega⟩
  have hdist : ∀ x n, dist.get? x = some n ↔ IsDist s root x n := by
    intro x n
    constructor
    · intro hx
      have hm : marked.get? x = some true := (inv.base.mark x).2 ⟨n, hx⟩
      have hw := inv.walk x hm
      rw [lev_of_get? hx] at hw
      refine ⟨hw, ?_⟩
      intro m hm'
      have := (hA x m hm').2
      rw [lev_of_get? hx] at this; exact this
    · rintro ⟨hw, hmin⟩
      obtain ⟨hm, hle⟩ := hA x n hw
      obtain ⟨d, hd⟩ := (inv.base.mark x).1 hm
      have h1 := inv.walk x hm
      rw [lev_of_get? hd] at h1 hle
      have := hmin d h1
      have : d = n := by omega
      rw [hd, this]
  have hsound : ∀ v l w, H.step v l = some w →
      s.step v l = some w ∧ ∃ d, IsDist s root v d ∧ IsDist s root w (d + 1) := by
    intro v l w hst
    obtain ⟨h1, d, h2, h3⟩ := inv.base.sound v l w hst
    exact ⟨h1, d, (hdist v d).1 h2, (hdist w (d + 1)).1 h3⟩
  refine ⟨hdist, ?_, hsound⟩
  intro ht v l w
  constructor
  · exact hsound v l w
  · rintro ⟨hst, d, hv, hw⟩
    have h2 := (hdist v d).2 hv
    have h3 := (hdist w (d + 1)).2 hw
    have hm : marked.get? v = some true := (inv.base.mark v).2 ⟨d, h2⟩
    exact (inv.procd v (hP v hm) l w hst).2.2 ht (by rw [lev_of_get? h2, lev_of_get? h3])


/-- **`remove_long_paths` is the shortest-path sub-automaton.**  Whenever the call returns `(H, dist)`
for the root `r` (the given one, or the first start vertex): `H` is well-formed on the same vertex
set; `dist` is exactly the graph distance from `r` on the vertices reachable from `r`; every kept
edge is an edge of the original automaton from distance `d` to distance `d + 1`; with `edge_ties`
*every* such edge is kept; without it every reachable vertex other than `r` keeps the edges from
exactly one predecessor (a spanning tree), with all the parallel labels of that tree edge. -/
theorem removeLongPaths_spec {s : FSA V L} (hs : s.WF) (root : Option V) (ties : Bool)
    {H : FSA V L} {dist : Dict V Nat} (h : s.removeLongPaths root ties = .ok (H, dist)) :
    H.WF ∧ (∀ v, v ∈ H.vertices ↔ v ∈ s.vertices) ∧
    ∃ r, (root = some r ∨ (root = none ∧ s.starts.head? = some r)) ∧ H.starts = [r] ∧
      (∀ x n, dist.get? x = some n ↔ IsDist s r x n) ∧
      (∀ v l w, H.step v l = some w →
        s.step v l = some w ∧ ∃ d, IsDist s r v d ∧ IsDist s r w (d + 1)) ∧
      (ties = true → ∀ v l w, H.step v l = some w ↔
        s.step v l = some w ∧ ∃ d, IsDist s r v d ∧ IsDist s r w (d + 1)) ∧
      (ties = false →
        (∀ w n, IsDist s r w n → w ≠ r →
          ∃ v, (∃ l, H.step v l = some w) ∧ ∀ v' l', H.step v' l' = some w → v' = v) ∧
        (∀ v l w, H.step v l = some w → ∀ l', s.step v l' = some w → H.step v l' = some w)) := by
  obtain ⟨r, H0, marked0, hr, hloop, inv0, hmark0, hnoedge⟩ := removeLongPaths_unfold root ties h
  have inv2 : RlpInv2 s r ties H0 marked0 [(r, 0)] [r] (fun _ => False) := by
    have hlevr : lev [(r, 0)] r = 0 := by simp [lev, get?_cons]
    refine ⟨inv0, by simp, ?_, ?_, ?_, ?_, ?_, ?_, ?_, ?_⟩
    · intro x hx y hy
      simp at hx; subst hx
      rw [(hmark0 y).1 hy]; omega
    · intro p hp; cases hp
    · intro x; rw [hmark0]; simp
    · intro p hp; cases hp
    · intro x hx; rw [(hmark0 x).1 hx, hlevr]; exact Walk.zero
    · intro _ v v' l l' w h1; exact absurd h1 (hnoedge v l w)
    · intro _ w hw hne; exact absurd ((hmark0 w).1 hw) hne
    · intro _ v l w h1; exact absurd h1 (hnoedge v l w)
  obtain ⟨marked', P', inv⟩ := rlpLoop_complete hs r ties _ _ _ _ _ _ H dist inv2 hloop
  obtain ⟨hdist, hties, hsound⟩ := rlp_final inv
  refine ⟨inv.base.wf, inv.base.verts, r, hr, inv.base.starts, hdist, hsound, hties, ?_⟩
  intro ht
  refine ⟨?_, inv.treeAll ht⟩
  intro w n hw hne
  have hm : marked'.get? w = some true := (inv.base.mark w).2 ⟨n, (hdist w n).2 hw⟩
  obtain ⟨v, l, hl⟩ := inv.tree2 ht w hm hne
  exact ⟨v, ⟨l, hl⟩, fun v' l' h' => inv.tree1 ht v' v l' l w h' hl⟩

end GT.FSA
