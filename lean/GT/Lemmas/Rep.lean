/-
Helper lemmas for the `Representation` model (C05): the `utils.invert` contract and its
instantiations, dict lemmas, evaluation of words at the `Matrix` level.
-/
import Mathlib.LinearAlgebra.Matrix.NonsingularInverse
import Mathlib.Algebra.Field.Rat
import GT.Model.Rep

namespace GT
open Matrix

/-- the contract of `utils.invert` (`numpy.linalg.inv`): what it returns is an inverse -/
def InvertOK {n : ℕ} {R : Type} [Inhabited R] [CommRing R] (invert : DMat n n R → Option (DMat n n R)) : Prop :=
  ∀ A X, invert A = some X → A.toMatrix * X.toMatrix = 1

namespace Rep
variable {n : ℕ}

theorem invertF_ok {K : Type} [Field K] [DecidableEq K] [Inhabited K] :
    InvertOK (invertF (n := n) (K := K)) := by
  intro A X h
  unfold invertF at h
  simp only at h
  split_ifs at h with hd
  cases h
  rw [DMat.toMatrix_ofMatrix, Matrix.mul_smul, Matrix.mul_adjugate, smul_smul, inv_mul_cancel₀ hd, one_smul]

theorem invertZ_ok : InvertOK (invertZ (n := n)) := by
  intro A X h
  unfold invertZ at h
  simp only at h
  split_ifs at h with hd
  cases h
  rw [DMat.toMatrix_ofMatrix, Matrix.mul_smul, Matrix.mul_adjugate, smul_smul]
  rcases hd with hd | hd <;> rw [hd] <;> simp

theorem invertG_ok {K : Type} [Field K] [DecidableEq K] [Inhabited K] :
    InvertOK (invertG (n := n) (K := K)) := by
  intro A X h
  unfold invertG at h
  split at h
  · cases h
  · simp only at h
    split_ifs at h with hd
    cases h
    exact hd

theorem invertZG_ok : InvertOK (invertZG (n := n)) := by
  intro A X h
  unfold invertZG at h
  split at h
  · cases h
  · simp only at h
    split_ifs at h with h1 hd
    cases h
    exact hd

end Rep
end GT
