/-
Helper lemmas for the `Representation` model (C05): the `utils.invert` contract and its
instantiations, dict lemmas, evaluation of words at the `Matrix` level.
-/
import Mathlib.LinearAlgebra.Matrix.NonsingularInverse
import Mathlib.Algebra.Field.Rat
import GT.Model.Rep

namespace GT.RepW
open Matrix

/-- the contract of `utils.invert` (`numpy.linalg.inv`): what it returns is an inverse -/
def InvertOK {n : ℕ} {R : Type} [Inhabited R] [CommRing R] (invert : DMat n n R → Option (DMat n n R)) : Prop :=
  ∀ A X, invert A = some X → A.toMatrix * X.toMatrix = 1

namespace Rep
variable {n : ℕ}

theorem invertF_ok {K : Type} [Field K] [DecidableEq K] [Inhabited K] :
    InvertOK (invertF (n := n) (K := K)) := by
  intro A X h
  unfold invertF at h
  simp only at h
  split_ifs at h with hd
  cases h
  rw [DMat.toMatrix_ofMatrix, Matrix.mul_smul, Matrix.mul_adjugate, smul_smul, inv_mul_cancel₀ hd, one_smul]

theorem invertZ_ok : InvertOK (invertZ (n := n)) := by
  intro A X h
  unfold invertZ at h
  simp only at h
  split_ifs at h with hd
  cases h
  rw [DMat.toMatrix_ofMatrix, Matrix.mul_smul, Matrix.mul_adjugate, smul_smul]
  rcases hd with hd | hd <;> rw [hd] <;> simp

theorem invertG_ok {K : Type} [Field K] [DecidableEq K] [Inhabited K] :
    InvertOK (invertG (n := n) (K := K)) := by
  intro A X h
  unfold invertG at h
  split at h
  · cases h
  · simp only at h
    split_ifs at h with hd
    cases h
    exact hd

theorem invertZG_ok : InvertOK (invertZG (n := n)) := by
  intro A X h
  unfold invertZG at h
  split at h
  · cases h
  · simp only at h
    split_ifs at h with h1 hd
    cases h
    exact hd

end Rep
end GT.RepW

/-! ## word evaluation at the `Matrix` level -/

namespace GT.RepW
namespace Rep
variable {n : ℕ} {R : Type} [Inhabited R] [CommRing R]

/-- `self.generators[g]` as a Mathlib matrix -/
def genM (ρ : Rep n R) (g : Gen) : M? (Matrix (Fin n) (Fin n) R) := (ρ.gen g).map DMat.toMatrix

/-- the image of a word as a Mathlib matrix (what the property statements talk about) -/
def value (ρ : Rep n R) (w : Word) : M? (Matrix (Fin n) (Fin n) R) := (ρ.wordValue w).map DMat.toMatrix

/-- reference semantics: right-nested product of the letters' matrices -/
def evalM (sem : Gen → M? (Matrix (Fin n) (Fin n) R)) : Word → M? (Matrix (Fin n) (Fin n) R)
  | [] => .ok 1
  | g :: w => do let a ← sem g; let b ← evalM sem w; pure (a * b)

theorem foldl_error (ρ : Rep n R) (e : Err) (w : Word) :
    w.foldl ρ.wordStep (Except.error e) = Except.error e := by
  induction w with
  | nil => rfl
  | cons g w ih => exact ih

theorem foldl_value (ρ : Rep n R) (w : Word) (A : DMat n n R) :
    (w.foldl ρ.wordStep (Except.ok A)).map DMat.toMatrix
      = (evalM ρ.genM w).map (A.toMatrix * ·) := by
  induction w generalizing A with
  | nil => simp [evalM, Except.map]
  | cons g w ih =>
    simp only [List.foldl_cons, evalM, genM]
    cases hg : ρ.gen g with
    | error e =>
      have : ρ.wordStep (Except.ok A) g = Except.error e := by
        simp only [wordStep, hg]; rfl
      rw [this, foldl_error]
      rfl
    | ok B =>
      have : ρ.wordStep (Except.ok A) g = Except.ok (A.mul B) := by
        simp only [wordStep, hg]; rfl
      rw [this, ih]
      cases evalM ρ.genM w with
      | error e => rfl
      | ok C => simp [Except.map, bind, Except.bind, pure, Except.pure, Matrix.mul_assoc]

/-- bridge: the materialising fold of `_word_value` denotes the product of the letters -/
theorem value_eq_evalM (ρ : Rep n R) (w : Word) : ρ.value w = evalM ρ.genM w := by
  unfold value wordValue
  rw [foldl_value]
  cases evalM ρ.genM w with
  | error e => rfl
  | ok C => simp [Except.map]

theorem evalM_append (sem : Gen → M? (Matrix (Fin n) (Fin n) R)) (u v : Word) :
    evalM sem (u ++ v) = (do let a ← evalM sem u; let b ← evalM sem v; pure (a * b)) := by
  induction u with
  | nil =>
    simp only [List.nil_append, evalM]
    cases evalM sem v with
    | error e => rfl
    | ok C => simp [bind, Except.bind, pure, Except.pure]
  | cons g u ih =>
    simp only [List.cons_append, evalM, ih]
    cases sem g with
    | error e => rfl
    | ok A =>
      cases evalM sem u with
      | error e => rfl
      | ok B =>
        cases evalM sem v with
        | error e => rfl
        | ok C => simp [bind, Except.bind, pure, Except.pure, Matrix.mul_assoc]

theorem value_nil (ρ : Rep n R) : ρ.value [] = .ok 1 := by
  rw [value_eq_evalM]; rfl

theorem value_cons (ρ : Rep n R) (g : Gen) (w : Word) :
    ρ.value (g :: w) = (do let a ← ρ.genM g; let b ← ρ.value w; pure (a * b)) := by
  simp only [value_eq_evalM, evalM]

theorem value_append (ρ : Rep n R) (u v : Word) :
    ρ.value (u ++ v) = (do let a ← ρ.value u; let b ← ρ.value v; pure (a * b)) := by
  simp only [value_eq_evalM, evalM_append]

theorem value_singleton (ρ : Rep n R) (g : Gen) : ρ.value [g] = ρ.genM g := by
  rw [value_cons, value_nil]
  cases ρ.genM g with
  | error e => rfl
  | ok A => simp [bind, Except.bind, pure, Except.pure]

/-- for ok values: `value (u ++ v) = A * B` -/
theorem value_append_ok (ρ : Rep n R) {u v : Word} {A B : Matrix (Fin n) (Fin n) R}
    (hu : ρ.value u = .ok A) (hv : ρ.value v = .ok B) : ρ.value (u ++ v) = .ok (A * B) := by
  rw [value_append, hu, hv]; rfl

/-- a word has a value iff all its prefixes/suffixes have -/
theorem value_append_inv (ρ : Rep n R) {u v : Word} {C : Matrix (Fin n) (Fin n) R}
    (h : ρ.value (u ++ v) = .ok C) :
    ∃ A B, ρ.value u = .ok A ∧ ρ.value v = .ok B ∧ C = A * B := by
  rw [value_append] at h
  cases hu : ρ.value u with
  | error e => rw [hu] at h; cases h
  | ok A =>
    cases hv : ρ.value v with
    | error e => rw [hu, hv] at h; cases h
    | ok B =>
      rw [hu, hv] at h
      refine ⟨A, B, rfl, rfl, ?_⟩
      cases h; rfl

/-- the invariant of the `generators` dict: every stored letter has its inverse letter stored,
and the two matrices are mutually inverse (`_set_generator` with `compute_inverse=True`
establishes it, see `setGenerator_coherent`) -/
def Coherent (ρ : Rep n R) : Prop :=
  ∀ g A, ρ.genM g = .ok A → ∃ B, ρ.genM (ρ.inv g) = .ok B ∧ A * B = 1 ∧ B * A = 1

end Rep
end GT.RepW
