/-
`automaton_multiple` terminates: a potential function on the queue of the literal loop (which
marks on pop and never checks the mark at pop time) decreases with every pop.  This gives the fuel
bound `multFuel`; it is exponential in the number of vertices, and so is the loop (see the example
in `GT/Properties/C10.lean`).
-/
import GT.Lemmas.FSAMult
import GT.Lemmas.FSABuild

set_option linter.unusedSectionVars false
set_option linter.unusedSimpArgs false

namespace GT.FSA
variable {V L : Type} [DecidableEq V] [DecidableEq L]
open Dict

theorem multA_le_succ (D u : Nat) : multA D u ≤ multA D (u + 1) := by
  induction u with
  | zero => simp [multA]
  | succ u ih =>
    simp only [multA] at ih ⊢
    have := Nat.mul_le_mul_left D ih
    have := Nat.mul_le_mul_left D (Nat.add_le_add_left this 1)
    omega

theorem multA_mono (D : Nat) {u u' : Nat} (h : u ≤ u') : multA D u ≤ multA D u' := by
  induction h with
  | refl => exact Nat.le_refl _
  | step _ ih => exact Nat.le_trans ih (multA_le_succ D _)

theorem multA_le_multB (D u : Nat) : multA D u ≤ multB D u := by
  unfold multB
  rcases Nat.eq_zero_or_pos D with rfl | hD
  · cases u <;> simp [multA]
  · have : multA D u ≤ D * multA D u := Nat.le_mul_of_pos_left _ hD
    omega

theorem multB_le_multA_succ (D u : Nat) : multB D u ≤ multA D (u + 1) := by
  simp only [multA, multB]
  have : multA D u ≤ 1 + D * multA D u := multA_le_multB D u
  have := Nat.mul_le_mul_left D this
  omega

/-- an entry is worth less after an unvisited vertex has been popped, whatever the entry names -/
theorem weight_drop (D : Nat) {u u' : Nat} (h : u' < u) (b b' : Bool) :
    (if b' then multB D u' else multA D u') ≤ (if b then multB D u else multA D u) := by
  have h1 : multB D u' ≤ multA D u := Nat.le_trans (multB_le_multA_succ D u') (multA_mono D h)
  have h2 : multA D u' ≤ multB D u' := multA_le_multB D u'
  have h3 : multA D u ≤ multB D u := multA_le_multB D u
  cases b <;> cases b' <;> simp <;> omega

/-- the flag "has been popped" -/
def popped (visited : Dict V Bool) (x : V) : Bool := decide (visited.get? x = some true)

/-- number of vertices not popped yet -/
def unpopped (s : FSA V L) (visited : Dict V Bool) : Nat := s.out.keys.countP (fun x => !popped visited x)

def weight (s : FSA V L) (D : Nat) (visited : Dict V Bool) (x : V) : Nat :=
  if popped visited x then multB D (unpopped s visited) else multA D (unpopped s visited)

/-- the potential of a queue -/
def potential (s : FSA V L) (D : Nat) (visited : Dict V Bool) (queue : List V) : Nat :=
  (queue.map (weight s D visited)).sum

theorem sum_map_le {α : Type} (f g : α → Nat) (l : List α) (h : ∀ x ∈ l, f x ≤ g x) :
    (l.map f).sum ≤ (l.map g).sum := by
  induction l with
  | nil => simp
  | cons a l ih =>
    simp only [List.map_cons, List.sum_cons]
    have := h a (by simp)
    have := ih (fun x hx => h x (by simp [hx]))
    omega

theorem sum_map_const_le {α : Type} (f : α → Nat) (c : Nat) (l : List α) (h : ∀ x ∈ l, f x ≤ c) :
    (l.map f).sum ≤ l.length * c := by
  induction l with
  | nil => simp
  | cons a l ih =>
    simp only [List.map_cons, List.sum_cons, List.length_cons]
    have := h a (by simp)
    have := ih (fun x hx => h x (by simp [hx]))
    rw [Nat.succ_mul]; omega

theorem countP_lt {α : Type} (p p' : α → Bool) (l : List α) (himp : ∀ x, p' x = true → p x = true)
    (v : α) (hv : v ∈ l) (hpv : p v = true) (hpv' : p' v = false) : l.countP p' < l.countP p := by
  induction l with
  | nil => cases hv
  | cons a l ih =>
    simp only [List.countP_cons]
    have hle : l.countP p' ≤ l.countP p := by
      apply List.countP_mono_left
      intro x _ hx; exact himp x hx
    rcases List.mem_cons.1 hv with rfl | hv
    · simp [hpv, hpv']; omega
    · have := ih hv
      have : (if p' a = true then 1 else 0) ≤ (if p a = true then 1 else 0) := by
        by_cases h : p' a = true
        · simp [h, himp a h]
        · simp [h]
      omega

theorem popped_set (visited : Dict V Bool) (v x : V) :
    popped (Dict.set visited v true) x = (popped visited x || decide (x = v)) := by
  unfold popped
  rw [get?_set]
  by_cases h : x = v
  · simp [h]
  · simp [h]

/-- one pop: the potential drops by at least one -/
theorem potential_step (s : FSA V L) (D : Nat) (visited : Dict V Bool) (v : V) (q app : List V)
    (hv : v ∈ s.out.keys) (hlen : app.length ≤ D)
    (happ : ∀ x ∈ app, (Dict.set visited v true).get? x = some false) :
    potential s D (Dict.set visited v true) (q ++ app) + 1 ≤ potential s D visited (v :: q) := by
  have happw : ∀ x ∈ app, weight s D (Dict.set visited v true) x = multA D (unpopped s (Dict.set visited v true)) := by
    intro x hx
    have : popped (Dict.set visited v true) x = false := by
      unfold popped; rw [happ x hx]; simp
    simp [weight, this]
  have happsum : (app.map (weight s D (Dict.set visited v true))).sum ≤
      D * multA D (unpopped s (Dict.set visited v true)) := by
    have h1 := sum_map_const_le (weight s D (Dict.set visited v true))
      (multA D (unpopped s (Dict.set visited v true))) app (fun x hx => by rw [happw x hx]; exact Nat.le_refl _)
    exact Nat.le_trans h1 (Nat.mul_le_mul_right _ hlen)
  simp only [potential, List.map_append, List.sum_append, List.map_cons, List.sum_cons]
  by_cases hpv : popped visited v = true
  · -- `v` had been popped before: nothing changes except the queue
    have hsame : ∀ x, popped (Dict.set visited v true) x = popped visited x := by
      intro x; rw [popped_set]
      by_cases h : x = v
      · subst h; simp [hpv]
      · simp [h]
    have hu : unpopped s (Dict.set visited v true) = unpopped s visited := by
      unfold unpopped; congr 1; funext x; rw [hsame]
    have hw : ∀ x, weight s D (Dict.set visited v true) x = weight s D visited x := by
      intro x; simp only [weight, hsame, hu]
    have hq : (q.map (weight s D (Dict.set visited v true))).sum = (q.map (weight s D visited)).sum := by
      congr 1; exact List.map_congr_left (fun x _ => hw x)
    have hwv : weight s D visited v = multB D (unpopped s visited) := by simp [weight, hpv]
    rw [hq, hwv]
    have h9 := happsum
    rw [hu] at h9
    simp only [multB]
    omega
  · -- first pop of `v`
    have hpv' : popped visited v = false := by simpa using hpv
    have hlt : unpopped s (Dict.set visited v true) < unpopped s visited := by
      unfold unpopped
      apply countP_lt _ _ _ _ v hv
      · simp [hpv']
      · simp [popped_set]
      · intro x hx
        simp only [popped_set, Bool.not_or, Bool.and_eq_true, Bool.not_eq_eq_eq_not, Bool.not_true] at hx ⊢
        exact hx.1
    have hq : (q.map (weight s D (Dict.set visited v true))).sum ≤ (q.map (weight s D visited)).sum := by
      apply sum_map_le
      intro x _
      exact weight_drop D hlt (popped visited x) (popped (Dict.set visited v true) x)
    have hwv : weight s D visited v = multA D (unpopped s visited) := by simp [weight, hpv']
    have h1 : multA D (unpopped s (Dict.set visited v true) + 1) ≤ multA D (unpopped s visited) :=
      multA_mono D hlt
    have h2 : 1 + D * multA D (unpopped s (Dict.set visited v true)) ≤
        multA D (unpopped s (Dict.set visited v true) + 1) := by
      simp only [multA]
      have : multA D (unpopped s (Dict.set visited v true)) ≤
          1 + D * multA D (unpopped s (Dict.set visited v true)) := multA_le_multB D _
      have := Nat.mul_le_mul_left D this
      omega
    rw [hwv]
    omega

theorem weight_pos (s : FSA V L) (D : Nat) (visited : Dict V Bool) (v : V) (hv : v ∈ s.out.keys) :
    1 ≤ weight s D visited v := by
  unfold weight
  by_cases hp : popped visited v = true
  · simp [hp, multB]
  · have hp' : popped visited v = false := by simpa using hp
    have : 0 < unpopped s visited := by
      unfold unpopped
      exact List.countP_pos_iff.2 ⟨v, hv, by simp [hp']⟩
    obtain ⟨u, hu⟩ : ∃ u, unpopped s visited = u + 1 := ⟨unpopped s visited - 1, by omega⟩
    simp [hp', hu, multA]

/-- the end of a walk in a closed label view has a row -/
theorem follow_has_row {s : FSA V L} (hc : s.Closed) :
    ∀ (w : List L) (v q : V), (∃ row, s.graph.get? v = some row) → s.follow v w = some q →
      ∃ row, s.graph.get? q = some row := by
  intro w
  induction w with
  | nil => intro v q hv hf; simp at hf; subst hf; exact hv
  | cons l w ih =>
    intro v q hv hf
    rw [follow_cons] at hf
    cases hst : s.step v l with
    | none => simp [hst] at hf
    | some v' =>
      simp only [hst, Option.bind_some] at hf
      obtain ⟨row, hrow, hl⟩ := (step_eq_some_iff s v l v').1 hst
      exact ih v' q (hc v row l v' hrow hl) hf

theorem rowsNodup_of_wf {s : FSA V L} (hs : s.WF) : s.RowsNodup := hs.1.keys.graphRow

theorem closed_of_wf {s : FSA V L} (hs : s.WF) : s.Closed := by
  intro v row l w hrow hl
  have hst : s.step v l = some w := by rw [step_def, hrow]; exact hl
  obtain ⟨ls, hls, -⟩ := (hs.1.label v l w).1 hst
  exact (mem_keys_iff _ _).1 ((hs.1.verts w).2 (hs.1.closed v w ls hls))

/-- bookkeeping for the termination of the queue loop -/
structure MultTot (s : FSA V L) (D : Nat) (visited : Dict V Bool) (queue : List V) (fuel : Nat) : Prop where
  keys : ∀ x ∈ s.out.keys, ∃ b, visited.get? x = some b
  inV : ∀ x ∈ queue, x ∈ s.out.keys
  pot : potential s D visited queue ≤ fuel

theorem multipleLoop_total {s : FSA V L} (hs : s.WF) (k D : Nat)
    (hD : ∀ v ∈ s.out.keys, ∀ paths, s.enumFixed v k = .ok paths → paths.length ≤ D) (fuel : Nat) :
    ∀ (new : FSA V (List L)) (visited : Dict V Bool) (queue : List V),
      MultInv s k new visited queue → MultTot s D visited queue fuel →
      ∃ A, multipleLoop s k fuel new visited queue = .ok A := by
  have hrn := rowsNodup_of_wf hs
  have hcl := closed_of_wf hs
  induction fuel with
  | zero =>
    intro new visited queue inv tot
    cases queue with
    | nil => exact ⟨new, rfl⟩
    | cons v q =>
      exfalso
      have h1 := weight_pos s D visited v (tot.inV v (by simp))
      have h2 := tot.pot
      simp only [potential, List.map_cons, List.sum_cons] at h2
      omega
  | succ fuel ih =>
    intro new visited queue inv tot
    cases queue with
    | nil => exact ⟨new, by simp [multipleLoop]⟩
    | cons v q =>
      have hv : v ∈ s.out.keys := tot.inV v (by simp)
      have hvrow : ∃ row, s.graph.get? v = some row := (mem_keys_iff _ _).1 ((hs.1.verts v).2 hv)
      obtain ⟨paths, hp⟩ := enumFixed_ok hrn hcl hvrow k
      have hpaths := fun w nb => FSA.mem_enumFixed hrn hp w nb
      have hendV : ∀ w nb, (w, nb) ∈ paths → nb ∈ s.out.keys := by
        intro w nb hm
        obtain ⟨row, hrow⟩ := follow_has_row hcl w v nb hvrow ((hpaths w nb).1 hm).2
        exact (hs.1.verts nb).1 ((mem_keys_iff _ _).2 ⟨row, hrow⟩)
      have hkeys' : ∀ x ∈ s.out.keys, ∃ b, (Dict.set visited v true).get? x = some b := by
        intro x hx; rw [get?_set]
        by_cases h : x = v
        · exact ⟨true, by simp [h]⟩
        · simp only [h, if_false]; exact tot.keys x hx
      have hfun : ∀ w nb nb', (w, nb) ∈ paths → (w, nb') ∈ paths → nb = nb' := by
        intro w a b h1 h2
        have e1 := ((hpaths w a).1 h1).2
        have e2 := ((hpaths w b).1 h2).2
        rw [e1] at e2; exact Option.some.inj e2
      have hw1 := wf_addVertices inv.wf [v]
      have ha1 := abs_addVertices inv.wf [v]
      have hnc : ∀ w nb b, (w, nb) ∈ paths → (new.addVertices [v]).step v w = some b → b = nb := by
        intro w nb b hm hb
        have hb' : new.step v w = some b := by
          have : (new.addVertices [v]).abs.edges v w b := hb
          rw [ha1] at this; exact this
        have e1 := ((hpaths w nb).1 hm).2
        have e2 := (inv.sound v w b hb').2
        rw [e1] at e2; exact (Option.some.inj e2).symm
      obtain ⟨⟨new2, q2⟩, hme⟩ := multipleEdges_ok v (Dict.set visited v true) paths hfun
        (fun w nb hm => hkeys' nb (hendV w nb hm)) (new.addVertices [v]) q hw1
        ((mem_keys_addVertices new [v] v).2 (Or.inr (by simp))) hnc
      obtain ⟨app, hq2, hlen, happ⟩ := multipleEdges_queue v _ paths _ _ _ _ hme
      rw [multipleLoop_succ_eq k fuel new visited v q hp hme]
      apply ih new2 _ q2 (mult_step hrn k new visited v q inv hp hme)
      refine ⟨hkeys', ?_, ?_⟩
      · intro x hx
        rw [hq2] at hx
        rcases List.mem_append.1 hx with h | h
        · exact tot.inV x (by simp [h])
        · obtain ⟨-, w, hm⟩ := happ x h
          exact hendV w x hm
      · rw [hq2]
        have := potential_step s D visited v q app hv (Nat.le_trans hlen (hD v hv paths hp))
          (fun x hx => (happ x hx).1)
        have := tot.pot
        omega

/-- **`automaton_multiple` terminates, with an explicit fuel bound.**  On a well-formed automaton
whose start vertices are vertices, if every vertex has at most `D` walks of length `k`, the literal
queue loop returns within `multFuel s D = #starts · multA D #vertices` pops. -/
theorem multiple_total {s : FSA V L} (hs : s.WF) (hst : ∀ v ∈ s.starts, v ∈ s.vertices) (k D : Nat)
    (hD : ∀ v ∈ s.out.keys, ∀ paths, s.enumFixed v k = .ok paths → paths.length ≤ D)
    (fuel : Nat) (hf : multFuel s D ≤ fuel) : ∃ A, s.multiple k fuel = .ok A := by
  unfold multiple
  apply multipleLoop_total hs k D hD fuel _ _ _ (multInv_init s k)
  refine ⟨?_, hst, ?_⟩
  · intro x hx
    rw [get?_mapConst]
    exact ⟨false, by simp [vertices, hx]⟩
  · refine Nat.le_trans ?_ hf
    unfold multFuel potential
    have hu : unpopped s (s.vertices.map fun v => (v, false)) ≤ s.out.length := by
      unfold unpopped
      have := List.countP_le_length (p := fun x => !popped (s.vertices.map fun v => (v, false)) x) (l := s.out.keys)
      simpa [Dict.keys] using this
    apply sum_map_const_le
    intro x _
    have hp : popped (s.vertices.map fun v => (v, false)) x = false := by
      unfold popped
      rw [get?_mapConst]
      split <;> simp
    simp only [weight, hp, Bool.false_eq_true, if_false]
    exact multA_mono D hu

/-- every vertex has at most `m ^ k` walks of length `k` when every row of the label view has at
most `m` entries: a concrete `D` for `multiple_total` -/
theorem enumFixed_length_le {s : FSA V L} (m : Nat) (hm : ∀ v row, s.graph.get? v = some row → row.length ≤ m)
    (v : V) (k : Nat) (paths : List (List L × V)) (h : s.enumFixed v k = .ok paths) :
    paths.length ≤ m ^ k := by
  induction k generalizing paths with
  | zero => simp only [enumFixed, Except.ok.injEq] at h; subst h; simp
  | succ k ih =>
    simp only [enumFixed] at h
    cases hp : s.enumFixed v k with
    | error e => simp [hp, bind, Except.bind] at h
    | ok prev =>
      simp only [hp, bind, Except.bind] at h
      have hprev := ih prev hp
      have : ∀ (ps xs : List (List L × V)), s.extendPaths ps = .ok xs → xs.length ≤ ps.length * m := by
        intro ps
        induction ps with
        | nil => intro xs hx; simp [extendPaths] at hx; subst hx; simp
        | cons p rest ihr =>
          intro xs hx
          obtain ⟨w0, v0⟩ := p
          simp only [extendPaths] at hx
          cases hg : s.graph.get? v0 with
          | none => simp [Dict.get, hg, bind, Except.bind] at hx
          | some row0 =>
            cases hr : s.extendPaths rest with
            | error e => simp [Dict.get, hg, hr, bind, Except.bind] at hx
            | ok tl =>
              simp only [Dict.get, hg, hr, bind, Except.bind, pure, Except.pure, Except.ok.injEq] at hx
              subst hx
              have := ihr tl hr
              have := hm v0 row0 hg
              simp only [List.length_append, List.length_map, List.length_cons, Nat.succ_mul]
              omega
      have h1 := this prev paths h
      calc paths.length ≤ prev.length * m := h1
        _ ≤ m ^ k * m := Nat.mul_le_mul_right m hprev
        _ = m ^ (k + 1) := (Nat.pow_succ m k).symm

end GT.FSA
