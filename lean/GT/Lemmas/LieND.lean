/- helper lemmas: the array-level Lie maps of `GT.Model.LieND` act unit by unit -/
import GT.Model.LieND
import GT.Model.Units
import GT.Lemmas.ND
import GT.Lemmas.Units
import Mathlib.Algebra.BigOperators.Intervals
import Mathlib.Algebra.BigOperators.Group.List.Basic

set_option linter.unusedSectionVars false
set_option linter.unusedSimpArgs false
set_option linter.unusedVariables false

open Finset BigOperators

namespace GT.Lie.Arr
open GT.Act GT.Act.ND

variable {K : Type} [Field K] [Inhabited K]

/-! ### generic list / index facts -/

theorem sum_map_flatMap {α β : Type} (l : List α) (f : α → List β) (g : β → K) :
    ((l.flatMap f).map g).sum = (l.map fun a => ((f a).map g).sum).sum := by
  induction l with
  | nil => simp
  | cons a l ih => simp [List.flatMap_cons, List.map_append, List.sum_append, ih]

theorem list_range_sum (n : ℕ) (f : ℕ → K) : ((List.range n).map f).sum = ∑ i ∈ Finset.range n, f i := by
  rw [GT.Act.sum_map_range, Finset.sum_range]

theorem drop_last2 (ix : List ℕ) (j k : ℕ) : (ix ++ [j, k]).drop ((ix ++ [j, k]).length - 2) = [j, k] := by
  have : (ix ++ [j, k]).length - 2 = ix.length := by simp
  rw [this, List.drop_left']; rfl

theorem take_last2 (ix : List ℕ) (j k : ℕ) : (ix ++ [j, k]).take ((ix ++ [j, k]).length - 2) = ix := by
  have : (ix ++ [j, k]).length - 2 = ix.length := by simp
  rw [this, List.take_left']; rfl

theorem outer_eq (A : ND K) {o : List ℕ} {p q : ℕ} (h : A.shape = o ++ [p, q]) : outer A = o := by
  unfold outer; rw [h]
  have : (o ++ [p, q]).length - 2 = o.length := by simp
  rw [this, List.take_left']; rfl

theorem wf_map {β : Type} (g : K → β) (a : ND K) (h : a.WF) : (a.map g).WF := by
  simp [ND.WF, ND.map] at *; exact h

theorem get_map' {β : Type} [Inhabited β] (g : K → β) (a : ND K) (hwf : a.WF) {ix : List ℕ}
    (hix : Valid a.shape ix) : (a.map g).get ix = g (a.get ix) := by
  have hlt : flatIx a.shape ix < a.data.size := by rw [hwf]; exact flatIx_lt hix
  simp [ND.get, ND.map, Array.getD, hlt]

/-! ### `sl2_irrep` on arrays -/

theorem get_lastEntry (A : ND K) {o : List ℕ} {p q : ℕ} (h : A.shape = o ++ [p, q]) (i j : ℕ)
    {ix : List ℕ} (hix : Valid o ix) : (lastEntry A i j).get ix = A.get (ix ++ [i, j]) := by
  unfold lastEntry; rw [outer_eq A h, get_ofFn _ _ hix]

theorem shape_lastEntry (A : ND K) {o : List ℕ} {p q : ℕ} (h : A.shape = o ++ [p, q]) (i j : ℕ) :
    (lastEntry A i j).shape = o := by
  unfold lastEntry; rw [outer_eq A h]; rfl

theorem get_irrepTerm (n : ℕ) (a b c d : ND K) {o : List ℕ} (ha : a.shape = o) (hb : b.shape = o)
    (hc : c.shape = o) (hd : d.shape = o) (wa : a.WF) (wb : b.WF) (wc : c.WF) (wd : d.WF)
    (k j i : ℕ) {ix : List ℕ} (hix : Valid o ix) :
    (irrepTerm n a b c d k j i).shape = o ∧
    (irrepTerm n a b c d k j i).get ix =
      (Nat.choose k i : K) * (Nat.choose (n - 1 - k) (j - i) : K) * a.get ix ^ i * c.get ix ^ (k - i)
        * b.get ix ^ (j - i) * d.get ix ^ (n - 1 + i - k - j) := by
  have s1 : ((a.map (· ^ i)).map fun x => ((Nat.choose k i : K) * (Nat.choose (n - 1 - k) (j - i) : K)) * x).shape = o := ha
  constructor
  · exact ha
  · unfold irrepTerm ew2
    have hsh : ∀ (x y : ND K), (ND.ofFn x.shape fun ix => x.get ix * y.get ix).shape = x.shape := fun _ _ => rfl
    rw [get_ofFn _ _ (by simpa [ND.map] using (ha ▸ hix)), get_ofFn _ _ (by simpa [ND.map] using (ha ▸ hix)),
      get_ofFn _ _ (by simpa [ND.map] using (ha ▸ hix))]
    rw [get_map' _ _ (wf_map _ _ wa) (by simpa [ND.map] using (ha ▸ hix)), get_map' _ _ wa (ha ▸ hix),
      get_map' _ _ wc (hc ▸ hix), get_map' _ _ wb (hb ▸ hix), get_map' _ _ wd (hd ▸ hix)]

/-- `im[..., j, k] += t`: index law on unit entries -/
theorem get_addAtLast2 (im t : ND K) {o : List ℕ} {n : ℕ} (him : im.shape = o ++ [n, n]) (j k : ℕ)
    {ix : List ℕ} {j' k' : ℕ} (hix : Valid o ix) (hj : j' < n) (hk : k' < n) :
    (addAtLast2 im j k t).get (ix ++ [j', k']) =
      if j' = j ∧ k' = k then im.get (ix ++ [j', k']) + t.get ix else im.get (ix ++ [j', k']) := by
  unfold addAtLast2
  rw [get_ofFn _ _ (by rw [him]; exact hix.append (by simp [hj, hk])), drop_last2, take_last2]
  simp

/-- invariant of the accumulation loop -/
theorem fold_addAt (t : ℕ → ℕ → ℕ → ND K) {o : List ℕ} {n : ℕ} :
    ∀ (T : List (ℕ × ℕ × ℕ)) (im : ND K), im.shape = o ++ [n, n] →
      (T.foldl (fun im x => addAtLast2 im x.2.1 x.1 (t x.1 x.2.1 x.2.2)) im).shape = o ++ [n, n] ∧
      ∀ ix j' k', Valid o ix → j' < n → k' < n →
        (T.foldl (fun im x => addAtLast2 im x.2.1 x.1 (t x.1 x.2.1 x.2.2)) im).get (ix ++ [j', k']) =
          im.get (ix ++ [j', k']) +
            (T.map fun x => if j' = x.2.1 ∧ k' = x.1 then (t x.1 x.2.1 x.2.2).get ix else 0).sum
  | [], im, him => ⟨him, fun ix j' k' _ _ _ => by simp⟩
  | x :: T, im, him => by
    have hs : (addAtLast2 im x.2.1 x.1 (t x.1 x.2.1 x.2.2)).shape = o ++ [n, n] := him
    obtain ⟨h1, h2⟩ := fold_addAt t T _ hs
    refine ⟨h1, fun ix j' k' hix hj hk => ?_⟩
    simp only [List.foldl_cons, List.map_cons, List.sum_cons]
    rw [h2 ix j' k' hix hj hk, get_addAtLast2 im _ him _ _ hix hj hk]
    split_ifs <;> ring

theorem sum_irrepLoop (n : ℕ) {j' k' : ℕ} (hj : j' < n) (hk : k' < n) (G : ℕ → ℕ → ℕ → K) :
    ((irrepLoop n).map fun x => if j' = x.2.1 ∧ k' = x.1 then G x.1 x.2.1 x.2.2 else 0).sum
      = ∑ i ∈ Finset.Ico (j' + k' - (n - 1)) (min (j' + 1) (k' + 1)), G k' j' i := by
  unfold irrepLoop
  rw [sum_map_flatMap, list_range_sum]
  simp only [sum_map_flatMap, list_range_sum, List.map_map, Function.comp]
  rw [Finset.sum_eq_single k']
  · rw [Finset.sum_eq_single j']
    · simp only [true_and, and_self, if_true]
      rw [Finset.sum_Ico_eq_sum_range]
    · intro j _ hne
      simp [Ne.symm hne]
    · intro h; exact absurd (Finset.mem_range.2 hj) h
  · intro k _ hne
    simp [Ne.symm hne]
  · intro h; exact absurd (Finset.mem_range.2 hk) h

/-- **lifting of `sl2_irrep`**: every unit of the vectorised result is `sl2Irrep n` of the unit -/
theorem sl2IrrepND_units (n : ℕ) (A : ND K) {o : List ℕ} (hA : A.shape = o ++ [2, 2]) :
    (sl2IrrepND n A).shape = o ++ [n, n] ∧ (sl2IrrepND n A).WF ∧
    ∀ i, Valid o i → matAt (sl2IrrepND n A) n n i = sl2Irrep n (matAt A 2 2 i) := by
  have ho := outer_eq A hA
  have hz : (zerosND (outer A ++ [n, n]) : ND K).shape = o ++ [n, n] := by rw [ho]; rfl
  obtain ⟨h1, h2⟩ := fold_addAt (fun k j i => irrepTerm n (lastEntry A 0 0) (lastEntry A 0 1)
    (lastEntry A 1 0) (lastEntry A 1 1) k j i) (irrepLoop n) _ hz
  refine ⟨h1, ?_, fun i hi => ?_⟩
  · -- well-formed: the loop body is an `ofFn`, the start is an `ofFn`
    unfold sl2IrrepND
    generalize (irrepLoop n) = T
    generalize hz0 : (zerosND (outer A ++ [n, n]) : ND K) = z
    have hzwf : z.WF := by rw [← hz0]; exact wf_ofFn _ _
    clear hz0
    induction T generalizing z with
    | nil => exact hzwf
    | cons x T ih => exact ih _ (wf_ofFn _ _)
  · funext r c
    have hr := r.2; have hc := c.2
    show (sl2IrrepND n A).get (i ++ [r.1, c.1]) = _
    unfold sl2IrrepND
    rw [h2 i r.1 c.1 hi hr hc]
    have hz0 : (zerosND (outer A ++ [n, n]) : ND K).get (i ++ [r.1, c.1]) = 0 := by
      unfold zerosND; rw [get_ofFn _ _ (by rw [ho]; exact hi.append (by simp [hr, hc]))]
    rw [hz0, zero_add]
    have hterm : ∀ x : ℕ × ℕ × ℕ,
        (irrepTerm n (lastEntry A 0 0) (lastEntry A 0 1) (lastEntry A 1 0) (lastEntry A 1 1) x.1 x.2.1 x.2.2).get i
          = (Nat.choose x.1 x.2.2 : K) * (Nat.choose (n - 1 - x.1) (x.2.1 - x.2.2) : K)
            * A.get (i ++ [0, 0]) ^ x.2.2 * A.get (i ++ [1, 0]) ^ (x.1 - x.2.2)
            * A.get (i ++ [0, 1]) ^ (x.2.1 - x.2.2) * A.get (i ++ [1, 1]) ^ (n - 1 + x.2.2 - x.1 - x.2.1) := by
      intro x
      rw [(get_irrepTerm n _ _ _ _ (shape_lastEntry A hA 0 0) (shape_lastEntry A hA 0 1)
        (shape_lastEntry A hA 1 0) (shape_lastEntry A hA 1 1) (wf_ofFn _ _) (wf_ofFn _ _) (wf_ofFn _ _)
        (wf_ofFn _ _) x.1 x.2.1 x.2.2 hi).2,
        get_lastEntry A hA 0 0 hi, get_lastEntry A hA 0 1 hi, get_lastEntry A hA 1 0 hi, get_lastEntry A hA 1 1 hi]
    simp only [hterm]
    rw [sum_irrepLoop n hr hc (fun k j t => (Nat.choose k t : K) * (Nat.choose (n - 1 - k) (j - t) : K)
            * A.get (i ++ [0, 0]) ^ t * A.get (i ++ [1, 0]) ^ (k - t)
            * A.get (i ++ [0, 1]) ^ (j - t) * A.get (i ++ [1, 1]) ^ (n - 1 + t - k - j))]
    rfl

/-! ### `sl2_to_so21` on arrays: numpy's broadcasting `@` at unit level -/

/-- batched matrix product, unit by unit (Mathlib's `*` on the unit views) -/
theorem matmul_units (a b : ND K) {ba bb bs : List ℕ} {p n q : ℕ}
    (ha : a.shape = ba ++ [p, n]) (hb : b.shape = bb ++ [n, q]) (hbs : bcastShape ba bb = some bs) :
    ∃ c, ND.matmul a b = .ok c ∧ c.shape = bs ++ [p, q] ∧
      ∀ bix, Valid bs bix → matAt c p q bix = matAt a p n (bcIx ba bix) * matAt b n q (bcIx bb bix) := by
  obtain ⟨c, hc, hs, hg⟩ := matmul_spec a b ha hb hbs
  refine ⟨c, hc, hs, fun bix hv => ?_⟩
  funext r cc
  simp only [matAt, Matrix.mul_apply]
  rw [hg bix r.1 cc.1 hv r.2 cc.2, GT.Act.sum_map_range]

theorem shape_constMat {p q : ℕ} (M : Matrix (Fin p) (Fin q) K) : (constMat M).shape = [] ++ [p, q] := rfl

theorem matAt_constMat {p q : ℕ} (M : Matrix (Fin p) (Fin q) K) : matAt (constMat M) p q [] = M := by
  funext r c
  simp only [matAt, constMat, List.nil_append]
  rw [get_ofFn _ _ (by simp [r.2, c.2])]
  simp [r.2, c.2]

theorem bcIx_nil (ix : List ℕ) : bcIx [] ix = [] := by simp [bcIx]

/-- **lifting of `sl2_to_so21`**: every unit of the vectorised result is `sl2ToSo21` of the unit -/
theorem sl2ToSo21ND_units (A : ND K) {o : List ℕ} (hA : A.shape = o ++ [2, 2]) :
    ∃ S, sl2ToSo21ND A = .ok S ∧ S.shape = o ++ [3, 3] ∧
      ∀ i, Valid o i → matAt S 3 3 i = sl2ToSo21 (matAt A 2 2 i) := by
  obtain ⟨hIs, _, hIu⟩ := sl2IrrepND_units 3 A hA
  obtain ⟨pk, hpk, hpks, hpku⟩ := matmul_units (constMat (perm210 : Matrix (Fin 3) (Fin 3) K))
    (constMat killingConj) (shape_constMat _) (shape_constMat _) (bcastShape_nil_left [])
  obtain ⟨x1, hx1, hx1s, hx1u⟩ := matmul_units pk (sl2IrrepND 3 A) hpks hIs (bcastShape_nil_left o)
  obtain ⟨x2, hx2, hx2s, hx2u⟩ := matmul_units x1 (constMat (killingConjInv : Matrix (Fin 3) (Fin 3) K))
    hx1s (shape_constMat _) (bcastShape_nil_right o)
  obtain ⟨x3, hx3, hx3s, hx3u⟩ := matmul_units x2 (constMat (perm210 : Matrix (Fin 3) (Fin 3) K))
    hx2s (shape_constMat _) (bcastShape_nil_right o)
  refine ⟨x3, ?_, hx3s, fun i hi => ?_⟩
  · unfold sl2ToSo21ND
    simp only [hpk, hx1, hx2, hx3, bind, Except.bind]
  · have hpk' : matAt pk 3 3 [] = perm210 * killingConj := by
      rw [hpku [] (by simp), bcIx_nil, matAt_constMat, matAt_constMat]
    rw [hx3u i hi, bcIx_self hi, bcIx_nil, matAt_constMat, hx2u i hi, bcIx_self hi, bcIx_nil, matAt_constMat,
      hx1u i hi, bcIx_self hi, bcIx_nil, hpk', hIu i hi]
    rfl

/-! ### `gln_adjoint` on arrays (array-aware `linear_matrix_action`) -/

theorem matAt_basisND (n : ℕ) (i j : Fin n) :
    matAt (basisND (K := K) n i.1 j.1) n n [] = Matrix.single i j 1 := by
  funext r c
  simp only [matAt, basisND, List.nil_append]
  rw [get_ofFn _ _ (by simp [r.2, c.2])]
  rw [Matrix.single_apply]
  exact if_congr (by simp [Fin.ext_iff, eq_comm]) rfl rfl

theorem bcastShape_same (o : List ℕ) : bcastShape o o = some o := by
  rw [bcastShape_same_length rfl]; exact bcastZip_self o

theorem get_flattenLast2 (n : ℕ) (X : ND K) {o : List ℕ} (hX : X.shape = o ++ [n, n]) {ix : List ℕ}
    (hix : Valid o ix) (k l : Fin n) :
    (flattenLast2 n X).get (ix ++ [k.1 * n + l.1]) = X.get (ix ++ [k.1, l.1]) := by
  unfold flattenLast2
  rw [outer_eq X hX]
  have hlt : k.1 * n + l.1 < n * n := by
    have := k.2; have := l.2
    calc k.1 * n + l.1 < k.1 * n + n := by omega
      _ = (k.1 + 1) * n := by ring
      _ ≤ n * n := Nat.mul_le_mul_right n (by omega)
  rw [get_ofFn _ _ (hix.append (by simpa using hlt))]
  have e1 : (ix ++ [k.1 * n + l.1]).length - 1 = ix.length := by simp
  rw [e1, List.take_left']
  · have hn : 0 < n := Nat.pos_of_ne_zero (fun h => by have := k.2; omega)
    have e2 : (ix ++ [k.1 * n + l.1]).getD ix.length 0 = k.1 * n + l.1 := by
      simp [List.getD_eq_getElem?_getD]
    rw [e2]
    have e3 : (k.1 * n + l.1) / n = k.1 := by
      rw [Nat.add_comm, Nat.add_mul_div_right _ _ hn, Nat.div_eq_of_lt l.2, Nat.zero_add]
    have e4 : (k.1 * n + l.1) % n = l.1 := by
      rw [Nat.add_comm, Nat.add_mul_mod_self_right, Nat.mod_eq_of_lt l.2]
    rw [e3, e4]
  · rfl

/-- one loop pass: the flattened image of `E_ij` under `M ↦ mat M inv`, unit by unit -/
theorem imageCoords_spec (n : ℕ) (mat inv : ND K) {o : List ℕ} (hm : mat.shape = o ++ [n, n])
    (hi : inv.shape = o ++ [n, n]) (i j : Fin n) :
    ∃ cds, imageCoords n mat inv i.1 j.1 = .ok cds ∧ cds.shape = o ++ [n * n] ∧
      ∀ ix, Valid o ix → ∀ k l : Fin n,
        cds.get (ix ++ [k.1 * n + l.1]) =
          (matAt mat n n ix * Matrix.single i j 1 * matAt inv n n ix : Matrix (Fin n) (Fin n) K) k l := by
  obtain ⟨x, hx, hxs, hxu⟩ := matmul_units mat (basisND n i.1 j.1) hm (by rfl : (basisND (K := K) n i.1 j.1).shape = [] ++ [n, n])
    (bcastShape_nil_right o)
  obtain ⟨img, himg, himgs, himgu⟩ := matmul_units x inv hxs hi (bcastShape_same o)
  refine ⟨flattenLast2 n img, ?_, ?_, fun ix hix k l => ?_⟩
  · unfold imageCoords; simp only [hx, himg, bind, Except.bind]; rfl
  · unfold flattenLast2; rw [outer_eq img himgs]; rfl
  · rw [get_flattenLast2 n img himgs hix k l]
    have := congrFun (congrFun (himgu ix hix) k) l
    simp only [matAt] at this
    rw [this, bcIx_self hix]
    have hx' := hxu ix hix
    rw [bcIx_self hix, bcIx_nil, matAt_basisND] at hx'
    show (matAt x n n ix * matAt inv n n ix : Matrix (Fin n) (Fin n) K) k l = _
    rw [hx']

theorem get_setLastCol (M v : ND K) {o : List ℕ} {r c : ℕ} (hM : M.shape = o ++ [r, c]) (col : ℕ)
    {ix : List ℕ} {row col' : ℕ} (hix : Valid o ix) (hr : row < r) (hc : col' < c) :
    (setLastCol M col v).get (ix ++ [row, col']) =
      if col' = col then v.get (ix ++ [row]) else M.get (ix ++ [row, col']) := by
  unfold setLastCol
  rw [get_ofFn _ _ (by rw [hM]; exact hix.append (by simp [hr, hc]))]
  have e1 : (ix ++ [row, col']).length - 1 = ix.length + 1 := by simp
  have e2 : (ix ++ [row, col']).getD (ix.length + 1) 0 = col' := by
    simp [List.getD_eq_getElem?_getD, List.getElem?_append_right]
  have e3 : (ix ++ [row, col']).take (ix.length + 1) = ix ++ [row] := by
    rw [show ix ++ [row, col'] = (ix ++ [row]) ++ [col'] by simp, List.take_left' (by simp)]
  rw [e1, e2, e3]

/-- the value written into column `col`, row `row` of unit `ix` -/
noncomputable def colVal (n : ℕ) (mat inv : ND K) (ix : List ℕ) (row col : ℕ) : K :=
  match imageCoords n mat inv (col / n) (col % n) with
  | .ok c => c.get (ix ++ [row])
  | .error _ => 0

/-- the array the next loop pass writes into: `map_matrix`, tiled if it is still 2-d -/
def effMM (o : List ℕ) (mm : ND K) : ND K :=
  if o.length + 1 > mm.shape.length - 1 then tileOuter o mm else mm

theorem gln_fold (n : ℕ) (hn : 0 < n) (mat inv : ND K) {o : List ℕ} (hm : mat.shape = o ++ [n, n])
    (hi : inv.shape = o ++ [n, n]) :
    ∀ (L : List (ℕ × ℕ)) (mm : ND K) (S : List ℕ), (∀ p ∈ L, p.1 < n ∧ p.2 < n) →
      (effMM o mm).shape = o ++ [n * n, n * n] →
      (∀ ix row col, Valid o ix → row < n * n → col < n * n →
        (effMM o mm).get (ix ++ [row, col]) = if col ∈ S then colVal n mat inv ix row col else 0) →
      ∃ G, L.foldlM (fun (mm : ND K) (ij : ℕ × ℕ) => do
              let coords ← imageCoords n mat inv ij.1 ij.2
              let mm := if coords.shape.length > mm.shape.length - 1
                then tileOuter (coords.shape.take (coords.shape.length - 1)) mm else mm
              pure (setLastCol mm (ij.1 * n + ij.2) coords)) mm = .ok G ∧
        (effMM o G).shape = o ++ [n * n, n * n] ∧ (L ≠ [] → G.shape = o ++ [n * n, n * n]) ∧
        ∀ ix row col, Valid o ix → row < n * n → col < n * n →
          (effMM o G).get (ix ++ [row, col]) =
            if col ∈ S ++ L.map (fun p => p.1 * n + p.2) then colVal n mat inv ix row col else 0
  | [], mm, S, _, hs, hv => ⟨mm, rfl, hs, fun h => absurd rfl h, by simpa using hv⟩
  | p :: L, mm, S, hL, hs, hv => by
    have hp := hL p (by simp)
    obtain ⟨cds, hcds, hcs, hcg⟩ := imageCoords_spec n mat inv hm hi ⟨p.1, hp.1⟩ ⟨p.2, hp.2⟩
    have hcs' : cds.shape.take (cds.shape.length - 1) = o := by
      rw [hcs]; have : (o ++ [n * n]).length - 1 = o.length := by simp
      rw [this, List.take_left']; rfl
    have hlen : cds.shape.length = o.length + 1 := by rw [hcs]; simp
    set mm1 := setLastCol (effMM o mm) (p.1 * n + p.2) cds with hmm1
    have hstep : (do
              let coords ← imageCoords n mat inv p.1 p.2
              let mm := if coords.shape.length > mm.shape.length - 1
                then tileOuter (coords.shape.take (coords.shape.length - 1)) mm else mm
              pure (setLastCol mm (p.1 * n + p.2) coords) : Except String (ND K)) = .ok mm1 := by
      have hcs'' : List.take (o.length + 1 - 1) cds.shape = o := by rw [← hlen]; exact hcs'
      simp only [hcds, bind, Except.bind, pure, Except.pure, hlen, hcs'', hmm1, effMM]
    have hs1 : mm1.shape = o ++ [n * n, n * n] := hs
    have heff1 : effMM o mm1 = mm1 := by
      unfold effMM; rw [hs1, if_neg]; simp
    have hv1 : ∀ ix row col, Valid o ix → row < n * n → col < n * n →
        (effMM o mm1).get (ix ++ [row, col]) =
          if col ∈ S ++ [p.1 * n + p.2] then colVal n mat inv ix row col else 0 := by
      intro ix row col hix hr hc
      rw [heff1, hmm1, get_setLastCol _ _ hs _ hix hr hc]
      by_cases hcol : col = p.1 * n + p.2
      · rw [if_pos hcol, if_pos (by simp [hcol])]
        unfold colVal
        have d1 : col / n = p.1 := by
          rw [hcol, Nat.add_comm, Nat.add_mul_div_right _ _ hn, Nat.div_eq_of_lt hp.2, Nat.zero_add]
        have d2 : col % n = p.2 := by
          rw [hcol, Nat.add_comm, Nat.add_mul_mod_self_right, Nat.mod_eq_of_lt hp.2]
        rw [d1, d2, hcds]
      · rw [if_neg hcol, hv ix row col hix hr hc]
        simp [hcol]
    obtain ⟨G, hG, hGs, hGne, hGv⟩ := gln_fold n hn mat inv hm hi L mm1 (S ++ [p.1 * n + p.2])
      (fun q hq => hL q (by simp [hq])) (by rw [heff1]; exact hs1) hv1
    refine ⟨G, ?_, hGs, fun _ => ?_, ?_⟩
    · rw [List.foldlM_cons, hstep]; exact hG
    · cases L with
      | nil => simp only [List.foldlM_nil, pure, Except.pure, Except.ok.injEq] at hG; rw [← hG]; exact hs1
      | cons q L' => exact hGne (by simp)
    · intro ix row col hix hr hc
      rw [hGv ix row col hix hr hc]
      rw [List.map_cons, List.append_assoc, List.singleton_append]

theorem mem_allPairs (n : ℕ) (i j : Fin n) :
    i.1 * n + j.1 ∈ ((List.range n).flatMap fun i => (List.range n).map fun j => (i, j)).map
      (fun p => p.1 * n + p.2) := by
  simp only [List.mem_map, List.mem_flatMap, List.mem_range, Prod.exists]
  exact ⟨i.1, j.1, ⟨i.1, i.2, j.1, j.2, rfl⟩, rfl⟩

/-- **lifting of `gln_adjoint`**: unit `ix` of the vectorised result is `glnAdjoint` of the units
of `mat` and `inv` (entry `(k*n+l, i*n+j)` ↔ pair indices `((k,l),(i,j))`) -/
theorem glnAdjointND_units (n : ℕ) (hn : 0 < n) (mat inv : ND K) {o : List ℕ}
    (hm : mat.shape = o ++ [n, n]) (hi : inv.shape = o ++ [n, n]) :
    ∃ G, glnAdjointND n mat inv = .ok G ∧ G.shape = o ++ [n * n, n * n] ∧
      ∀ ix, Valid o ix → ∀ a b : Fin n × Fin n,
        G.get (ix ++ [a.1.1 * n + a.2.1, b.1.1 * n + b.2.1]) =
          glnAdjoint (matAt mat n n ix) (matAt inv n n ix) a b := by
  have hz : (effMM o (zerosND (K := K) [n * n, n * n])).shape = o ++ [n * n, n * n] := by
    unfold effMM
    split_ifs with h
    · rfl
    · have : o = [] := by
        cases o with
        | nil => rfl
        | cons a l => simp [zerosND] at h
      rw [this]; rfl
  have hzv : ∀ ix row col, Valid o ix → row < n * n → col < n * n →
      (effMM o (zerosND (K := K) [n * n, n * n])).get (ix ++ [row, col]) =
        if col ∈ ([] : List ℕ) then colVal n mat inv ix row col else 0 := by
    intro ix row col hix hr hc
    simp only [List.not_mem_nil, if_false]
    unfold effMM
    split_ifs with h
    · unfold tileOuter
      rw [get_ofFn _ _ (by exact hix.append (by simp [zerosND, hr, hc]))]
      rw [List.drop_left' hix.length]
      unfold zerosND; rw [get_ofFn _ _ (by simp [hr, hc])]
    · have : o = [] := by
        cases o with
        | nil => rfl
        | cons a l => simp [zerosND] at h
      subst this
      have : ix = [] := valid_nil_iff.1 hix
      subst this
      unfold zerosND; rw [List.nil_append, get_ofFn _ _ (by simp [hr, hc])]
  have hall : ∀ p ∈ ((List.range n).flatMap fun i => (List.range n).map fun j => (i, j)), p.1 < n ∧ p.2 < n := by
    intro p hp
    simp only [List.mem_flatMap, List.mem_map, List.mem_range] at hp
    obtain ⟨i, hi', j, hj, rfl⟩ := hp
    exact ⟨hi', hj⟩
  obtain ⟨G, hG, hGs, hGne, hGv⟩ := gln_fold n hn mat inv hm hi _ _ [] hall hz hzv
  have hne : ((List.range n).flatMap fun i => (List.range n).map fun j => (i, j)) ≠ [] := by
    intro h
    have := mem_allPairs n ⟨0, hn⟩ ⟨0, hn⟩
    rw [h] at this; simp at this
  have hshape := hGne hne
  have heff : effMM o G = G := by unfold effMM; rw [hshape, if_neg]; simp
  refine ⟨G, hG, hshape, fun ix hix a b => ?_⟩
  have hrow : a.1.1 * n + a.2.1 < n * n := by
    have := a.1.2; have := a.2.2
    calc a.1.1 * n + a.2.1 < a.1.1 * n + n := by omega
      _ = (a.1.1 + 1) * n := by ring
      _ ≤ n * n := Nat.mul_le_mul_right n (by omega)
  have hcol : b.1.1 * n + b.2.1 < n * n := by
    have := b.1.2; have := b.2.2
    calc b.1.1 * n + b.2.1 < b.1.1 * n + n := by omega
      _ = (b.1.1 + 1) * n := by ring
      _ ≤ n * n := Nat.mul_le_mul_right n (by omega)
  have := hGv ix _ _ hix hrow hcol
  rw [heff, List.nil_append, if_pos (mem_allPairs n b.1 b.2)] at this
  rw [this]
  unfold colVal
  have d1 : (b.1.1 * n + b.2.1) / n = b.1.1 := by
    rw [Nat.add_comm, Nat.add_mul_div_right _ _ hn, Nat.div_eq_of_lt b.2.2, Nat.zero_add]
  have d2 : (b.1.1 * n + b.2.1) % n = b.2.1 := by
    rw [Nat.add_comm, Nat.add_mul_mod_self_right, Nat.mod_eq_of_lt b.2.2]
  obtain ⟨cds, hcds, _, hcg⟩ := imageCoords_spec n mat inv hm hi b.1 b.2
  rw [d1, d2, hcds]
  dsimp only
  rw [hcg ix hix a.1 a.2]
  rfl

end GT.Lie.Arr
