/-
Coherence lemmas for the FSA model, part 4: the construction routes
(`_hidden_vertices`, `_from_graph_dict`, `_build_in_dict`, `_build_graph_dict`).
-/
import GT.Lemmas.FSACoh

set_option linter.unusedSectionVars false
set_option linter.unusedSimpArgs false

namespace GT.FSA
variable {V L : Type} [DecidableEq V] [DecidableEq L]
open Dict

/-! ### generic facts about dictionaries built by `set` -/

theorem get?_append {κ ν : Type} [DecidableEq κ] (d e : Dict κ ν) (k : κ) :
    Dict.get? (d ++ e) k = (d.get? k).orElse (fun _ => e.get? k) := by
  induction d with
  | nil => simp
  | cons a r ih => simp only [List.cons_append, get?_cons, ih]; split <;> simp

theorem keys_append {κ ν : Type} (d e : Dict κ ν) : Dict.keys (d ++ e) = d.keys ++ e.keys := by
  simp [Dict.keys]

/-! ### `_hidden_vertices` -/

/-- the innermost step of `_hidden_vertices` over a list of targets -/
def hidStep (K : List V) (hid : List V) (t : V) : List V := if t ∈ K ∨ t ∈ hid then hid else hid ++ [t]

theorem hidFold_spec (K : List V) (ts : List V) (hid : List V) (hnd : hid.Nodup) (hdis : ∀ x ∈ hid, x ∉ K) :
    (ts.foldl (hidStep K) hid).Nodup ∧ (∀ x ∈ ts.foldl (hidStep K) hid, x ∉ K) ∧
      ∀ x, x ∈ ts.foldl (hidStep K) hid ↔ x ∈ hid ∨ (x ∈ ts ∧ x ∉ K) := by
  induction ts generalizing hid with
  | nil => exact ⟨hnd, hdis, by simp⟩
  | cons t ts ih =>
    simp only [List.foldl_cons]
    by_cases h : t ∈ K ∨ t ∈ hid
    · have e : hidStep K hid t = hid := by simp [hidStep, h]
      rw [e]
      obtain ⟨h1, h2, h3⟩ := ih hid hnd hdis
      refine ⟨h1, h2, ?_⟩
      intro x; rw [h3 x]; simp only [List.mem_cons]
      have := hdis t
      grind
    · have e : hidStep K hid t = hid ++ [t] := by simp [hidStep, h]
      rw [e]
      have h' := not_or.1 h
      have hnd' : (hid ++ [t]).Nodup := by
        rw [List.nodup_append]
        exact ⟨hnd, by simp, by intro a ha b hb; simp at hb; subst hb; rintro rfl; exact h'.2 ha⟩
      have hdis' : ∀ x ∈ hid ++ [t], x ∉ K := by
        intro x hx; rcases List.mem_append.1 hx with hx | hx
        · exact hdis x hx
        · simp at hx; subst hx; exact h'.1
      obtain ⟨h1, h2, h3⟩ := ih (hid ++ [t]) hnd' hdis'
      refine ⟨h1, h2, ?_⟩
      intro x; rw [h3 x]
      simp only [List.mem_append, List.mem_cons, List.not_mem_nil, or_false]
      grind

/-- all targets named by a label view, row by row -/
def targets (gd : Dict V (Dict L V)) : List V := gd.flatMap fun row => row.2.map Prod.snd

theorem hidden_fold_eq (K : List V) (gd : Dict V (Dict L V)) (hid : List V) :
    gd.foldl (fun hid row => row.2.foldl
      (fun hid e => if e.2 ∈ K ∨ e.2 ∈ hid then hid else hid ++ [e.2]) hid) hid =
    (targets gd).foldl (hidStep K) hid := by
  induction gd generalizing hid with
  | nil => rfl
  | cons row rest ih =>
    simp only [List.foldl_cons, targets, List.flatMap_cons, List.foldl_append]
    rw [ih]
    congr 1
    rw [List.foldl_map]
    rfl

theorem hiddenVertices_eq (gd : Dict V (Dict L V)) :
    hiddenVertices gd = (targets gd).foldl (hidStep gd.keys) [] :=
  hidden_fold_eq gd.keys gd []

theorem hidden_spec (gd : Dict V (Dict L V)) :
    (hiddenVertices gd).Nodup ∧ (∀ x ∈ hiddenVertices gd, x ∉ gd.keys) ∧
      ∀ x, x ∈ hiddenVertices gd ↔ x ∈ targets gd ∧ x ∉ gd.keys := by
  rw [hiddenVertices_eq]
  obtain ⟨h1, h2, h3⟩ := hidFold_spec gd.keys (targets gd) [] (by simp) (by simp)
  exact ⟨h1, h2, by intro x; rw [h3]; simp⟩

theorem mem_targets (gd : Dict V (Dict L V)) (x : V) :
    x ∈ targets gd ↔ ∃ v row l, (v, row) ∈ gd ∧ (l, x) ∈ row := by
  simp only [targets, List.mem_flatMap, List.mem_map, Prod.exists, exists_eq_right]
  constructor
  · rintro ⟨v, row, h1, l, h2⟩; exact ⟨v, row, l, h1, h2⟩
  · rintro ⟨v, row, l, h1, h2⟩; exact ⟨v, row, h1, l, h2⟩

/-! ### `outRow`: the outgoing row of one vertex -/

/-- the labels of a row of the label view that lead to `w`, in order -/
def labelsTo (w : V) (nbrs : Dict L V) : List L := (nbrs.filter fun e => decide (e.2 = w)).map Prod.fst

theorem labelsTo_cons (w : V) (e : L × V) (r : Dict L V) :
    labelsTo w (e :: r) = if e.2 = w then e.1 :: labelsTo w r else labelsTo w r := by
  simp only [labelsTo, List.filter_cons]; split <;> simp_all

theorem mem_labelsTo (w : V) (nbrs : Dict L V) (l : L) : l ∈ labelsTo w nbrs ↔ (l, w) ∈ nbrs := by
  induction nbrs with
  | nil => simp [labelsTo]
  | cons e r ih =>
    obtain ⟨l0, w0⟩ := e
    rw [labelsTo_cons]
    by_cases h : w0 = w
    · subst h; simp [ih]
    · simp only [h, if_false, ih, List.mem_cons, Prod.mk.injEq]
      constructor
      · exact Or.inr
      · rintro (⟨-, h'⟩ | h')
        · exact absurd h'.symm h
        · exact h'

theorem nodup_labelsTo (w : V) {nbrs : Dict L V} (h : nbrs.keys.Nodup) : (labelsTo w nbrs).Nodup := by
  unfold labelsTo
  exact h.sublist ((List.filter_sublist).map _)

theorem outRowFold_get? (nbrs : Dict L V) (d : Dict V (List L)) (w : V) :
    (nbrs.foldl (fun d e => d.set e.2 (d.getOr e.2 [] ++ [e.1])) d).get? w =
      if labelsTo w nbrs = [] then d.get? w else some (d.getOr w [] ++ labelsTo w nbrs) := by
  induction nbrs generalizing d with
  | nil => simp [labelsTo]
  | cons e r ih =>
    simp only [List.foldl_cons]
    rw [ih]
    simp only [labelsTo_cons, get?_set, Dict.getOr]
    by_cases h : e.2 = w
    · subst h; simp
    · have h' : w ≠ e.2 := fun x => h x.symm
      simp [h, h']

theorem outRow_get? (nbrs : Dict L V) (w : V) :
    (outRow nbrs).get? w = if labelsTo w nbrs = [] then none else some (labelsTo w nbrs) := by
  unfold outRow; rw [outRowFold_get?]; simp [Dict.getOr]

theorem foldl_set_nodup {κ ν α : Type} [DecidableEq κ] (xs : List α) (f : Dict κ ν → α → κ) (g : Dict κ ν → α → ν)
    (d : Dict κ ν) (hd : d.keys.Nodup) : (xs.foldl (fun d x => d.set (f d x) (g d x)) d).keys.Nodup := by
  induction xs generalizing d with
  | nil => exact hd
  | cons x xs ih => exact ih _ (nodup_keys_set hd _ _)

theorem outRow_nodup (nbrs : Dict L V) : (outRow nbrs).keys.Nodup :=
  foldl_set_nodup nbrs (fun _ e => e.2) (fun d e => d.getOr e.2 [] ++ [e.1]) [] (by simp)

/-! ### `_build_in_dict` -/

/-- the inner loop of `_build_in_dict` for the row of `v` -/
def inRow (v : V) (nbrs : Dict V (List L)) (inn : Dict V (Dict V (List L))) : Dict V (Dict V (List L)) :=
  nbrs.foldl (fun inn e => inn.set e.1 ((inn.getOr e.1 []).set v e.2)) inn

theorem buildInDict_eq (out : Dict V (Dict V (List L))) (inn : Dict V (Dict V (List L))) :
    out.foldl (fun inn row => row.2.foldl
      (fun inn e => inn.set e.1 ((inn.getOr e.1 []).set row.1 e.2)) inn) inn =
    out.foldl (fun inn row => inRow row.1 row.2 inn) inn := rfl

/-- keys are distinct at both levels -/
def Nodup2 {κ μ ν : Type} [DecidableEq κ] (d : Dict κ (Dict μ ν)) : Prop :=
  d.keys.Nodup ∧ ∀ k row, d.get? k = some row → row.keys.Nodup

theorem inRow_spec (v : V) (nbrs : Dict V (List L)) (hn : nbrs.keys.Nodup) (inn : Dict V (Dict V (List L)))
    (hi : Nodup2 inn) :
    Nodup2 (inRow v nbrs inn) ∧
    (∀ w, w ∈ (inRow v nbrs inn).keys ↔ w ∈ inn.keys ∨ w ∈ nbrs.keys) ∧
    (∀ w v', ((inRow v nbrs inn).get? w).bind (·.get? v') =
      if v' = v then (nbrs.get? w).orElse (fun _ => (inn.get? w).bind (·.get? v'))
      else (inn.get? w).bind (·.get? v')) := by
  induction nbrs generalizing inn with
  | nil => exact ⟨hi, by simp [inRow], by intro w v'; simp [inRow]⟩
  | cons e r ih =>
    obtain ⟨w0, ls0⟩ := e
    simp only [keys_cons, List.nodup_cons] at hn
    have hi1 : Nodup2 (inn.set w0 ((inn.getOr w0 []).set v ls0)) := by
      refine ⟨nodup_keys_set hi.1 _ _, ?_⟩
      intro k row; rw [get?_set]; split
      · rintro ⟨rfl⟩
        apply nodup_keys_set
        simp only [Dict.getOr]
        cases h : inn.get? w0 with
        | none => simp
        | some r0 => simpa using hi.2 w0 r0 h
      · exact hi.2 k row
    obtain ⟨h1, h2, h3⟩ := ih hn.2 _ hi1
    refine ⟨h1, ?_, ?_⟩
    · intro w; show w ∈ (inRow v r _).keys ↔ _
      rw [h2, mem_keys_set]; simp only [keys_cons, List.mem_cons]; grind
    · intro w v'
      show ((inRow v r _).get? w).bind (·.get? v') = _
      rw [h3]
      have hr0 : Dict.get? r w0 = none := (get?_eq_none_iff _ _).2 hn.1
      simp only [get?_set, get?_cons, Dict.getOr]
      by_cases hv : v' = v
      · subst hv
        by_cases hw : w = w0
        · subst hw; simp [hr0, get?_set]
        · simp [hw]
      · by_cases hw : w = w0
        · subst hw
          simp only [hv, if_false, if_true, Option.bind_some, get?_set]
          cases inn.get? w <;> simp
        · simp [hv, hw]

theorem buildIn_spec (out : Dict V (Dict V (List L))) (ho : Nodup2 out) (inn : Dict V (Dict V (List L)))
    (hi : Nodup2 inn) :
    Nodup2 (out.foldl (fun inn row => inRow row.1 row.2 inn) inn) ∧
    (∀ w, w ∈ (out.foldl (fun inn row => inRow row.1 row.2 inn) inn).keys ↔
      w ∈ inn.keys ∨ ∃ v row, out.get? v = some row ∧ w ∈ row.keys) ∧
    (∀ w v, ((out.foldl (fun inn row => inRow row.1 row.2 inn) inn).get? w).bind (·.get? v) =
      ((out.get? v).bind (·.get? w)).orElse (fun _ => (inn.get? w).bind (·.get? v))) := by
  induction out generalizing inn with
  | nil => exact ⟨hi, by simp, by simp⟩
  | cons row rest ih =>
    obtain ⟨v0, nbrs⟩ := row
    have hk := ho.1
    simp only [keys_cons, List.nodup_cons] at hk
    have hn0 : nbrs.keys.Nodup := ho.2 v0 nbrs (by simp [get?_cons])
    have horest : Nodup2 rest := by
      refine ⟨hk.2, ?_⟩
      intro k r hr
      apply ho.2 k r
      rw [get?_cons]
      have : k ≠ v0 := by
        rintro rfl
        exact hk.1 ((mem_keys_iff _ _).2 ⟨r, hr⟩)
      simp [this, hr]
    obtain ⟨a1, a2, a3⟩ := inRow_spec v0 nbrs hn0 inn hi
    obtain ⟨b1, b2, b3⟩ := ih horest _ a1
    simp only [List.foldl_cons]
    refine ⟨b1, ?_, ?_⟩
    · intro w; rw [b2, a2]
      have hr0 : Dict.get? rest v0 = none := (get?_eq_none_iff _ _).2 hk.1
      constructor
      · rintro ((h | h) | ⟨v, r, h1, h2⟩)
        · exact Or.inl h
        · exact Or.inr ⟨v0, nbrs, by simp [get?_cons], h⟩
        · refine Or.inr ⟨v, r, ?_, h2⟩
          rw [get?_cons]
          have : v ≠ v0 := by rintro rfl; rw [hr0] at h1; cases h1
          simp [this, h1]
      · rintro (h | ⟨v, r, h1, h2⟩)
        · exact Or.inl (Or.inl h)
        · rw [get?_cons] at h1
          by_cases hv : v = v0
          · subst hv; simp at h1; subst h1; exact Or.inl (Or.inr h2)
          · simp [hv] at h1; exact Or.inr ⟨v, r, h1, h2⟩
    · intro w v; rw [b3, a3]
      have hr0 : Dict.get? rest v0 = none := (get?_eq_none_iff _ _).2 hk.1
      simp only [get?_cons]
      by_cases hv : v = v0
      · subst hv; simp [hr0]
      · simp [hv]

theorem buildInDict_spec (out : Dict V (Dict V (List L))) (ho : Nodup2 out) :
    Nodup2 (buildInDict out) ∧
    (∀ w, w ∈ (buildInDict out).keys ↔ w ∈ out.keys ∨ ∃ v row, out.get? v = some row ∧ w ∈ row.keys) ∧
    (∀ w v, ((buildInDict out).get? w).bind (·.get? v) = (out.get? v).bind (·.get? w)) := by
  unfold buildInDict; rw [buildInDict_eq]
  have hkeys : Dict.keys (out.map fun row => (row.1, ([] : Dict V (List L)))) = out.keys :=
    keys_mapVal out (fun _ _ => ([] : Dict V (List L)))
  have hget : ∀ k, Dict.get? (out.map fun row => (row.1, ([] : Dict V (List L)))) k = (out.get? k).map (fun _ => []) :=
    fun k => get?_mapVal out (fun _ _ => ([] : Dict V (List L))) k
  have hinit : Nodup2 (out.map fun row => (row.1, ([] : Dict V (List L)))) := by
    refine ⟨by rw [hkeys]; exact ho.1, ?_⟩
    intro k row hrow
    rw [hget] at hrow
    cases hk : out.get? k with
    | none => rw [hk] at hrow; cases hrow
    | some r =>
      rw [hk] at hrow
      simp only [Option.map_some, Option.some.injEq] at hrow
      rw [← hrow]; simp
  obtain ⟨h1, h2, h3⟩ := buildIn_spec out ho _ hinit
  refine ⟨h1, by intro w; rw [h2, hkeys], ?_⟩
  intro w v; rw [h3, hget]
  cases out.get? w <;> simp


/-! ### `_from_graph_dict` -/

/-- the three views computed from a complete label view (`_from_graph_dict` after the hidden
vertices have been added) -/
def ofGraph (graph : Dict V (Dict L V)) (starts : List V) : FSA V L :=
  let out := graph.map (fun row => (row.1, outRow row.2))
  { graph := graph, out := out, inn := buildInDict out, starts := starts }

theorem fromGraphDict_eq (gd : Dict V (Dict L V)) (starts : List V) :
    fromGraphDict gd starts = ofGraph (gd ++ (hiddenVertices gd).map (fun v => (v, []))) starts := rfl

theorem ofGraph_out_get? (graph : Dict V (Dict L V)) (st : List V) (v : V) :
    (ofGraph graph st).out.get? v = (graph.get? v).map outRow :=
  get?_mapVal graph (fun _ => outRow) v

theorem ofGraph_out_keys (graph : Dict V (Dict L V)) (st : List V) :
    (ofGraph graph st).out.keys = graph.keys :=
  keys_mapVal graph (fun _ => outRow)

theorem ofGraph_og (graph : Dict V (Dict L V)) (st : List V) (v w : V) :
    (ofGraph graph st).og v w =
      (graph.get? v).bind (fun nbrs => if labelsTo w nbrs = [] then none else some (labelsTo w nbrs)) := by
  rw [og_def, ofGraph_out_get?]
  cases graph.get? v with
  | none => rfl
  | some nbrs => simp [outRow_get?]

theorem wf_ofGraph (graph : Dict V (Dict L V)) (st : List V) (hg : Nodup2 graph)
    (hc : ∀ v nbrs l w, graph.get? v = some nbrs → (l, w) ∈ nbrs → w ∈ graph.keys) :
    (ofGraph graph st).WF := by
  have hout : Nodup2 (ofGraph graph st).out := by
    refine ⟨by rw [ofGraph_out_keys]; exact hg.1, ?_⟩
    intro k row; rw [ofGraph_out_get?]
    cases graph.get? k with
    | none => simp
    | some nbrs => simp only [Option.map_some, Option.some.injEq]; rintro rfl; exact outRow_nodup nbrs
  obtain ⟨hi1, hi2, hi3⟩ := buildInDict_spec (ofGraph graph st).out hout
  have htarget : ∀ v w ls, (ofGraph graph st).og v w = some ls →
      ∃ nbrs, graph.get? v = some nbrs ∧ ls = labelsTo w nbrs ∧ ls ≠ [] := by
    intro v w ls h
    rw [ofGraph_og] at h
    cases hgv : graph.get? v with
    | none => simp [hgv] at h
    | some nbrs =>
      simp only [hgv, Option.bind_some] at h
      split at h
      · cases h
      · cases h; exact ⟨nbrs, rfl, rfl, by assumption⟩
  have hclosed : ∀ v w ls, (ofGraph graph st).og v w = some ls → w ∈ graph.keys := by
    intro v w ls h
    obtain ⟨nbrs, h1, rfl, h3⟩ := htarget v w ls h
    obtain ⟨l, hl⟩ := List.exists_mem_of_ne_nil _ h3
    exact hc v nbrs l w h1 ((mem_labelsTo w nbrs l).1 hl)
  refine ⟨⟨⟨hg.1, hout.1, hi1.1, hg.2, hout.2, hi1.2⟩, ?_, ?_, ?_, ?_, ?_, ?_⟩, ?_⟩
  · intro v; rw [ofGraph_out_keys]; rfl
  · intro w
    show w ∈ (buildInDict (ofGraph graph st).out).keys ↔ _
    rw [hi2 w, ofGraph_out_keys]
    constructor
    · rintro (hw | ⟨v, row, h1, h2⟩)
      · exact hw
      · obtain ⟨ls, hls⟩ := (mem_keys_iff _ _).1 h2
        exact hclosed v w ls (by rw [og_def, h1]; exact hls)
    · intro hw; exact Or.inl hw
  · intro v w; rw [ig_def, og_def]; exact (hi3 w v).symm
  · intro v l w
    rw [step_def, ofGraph_og]
    show (graph.get? v).bind (·.get? l) = some w ↔ _
    cases hgv : graph.get? v with
    | none => simp
    | some nbrs =>
      simp only [Option.bind_some]
      rw [← mem_iff_get? (hg.2 v nbrs hgv), ← mem_labelsTo]
      constructor
      · intro h
        refine ⟨labelsTo w nbrs, ?_, h⟩
        have : labelsTo w nbrs ≠ [] := List.ne_nil_of_mem h
        simp [this]
      · rintro ⟨ls, h1, h2⟩
        split at h1
        · cases h1
        · cases h1; exact h2
  · intro v w ls h
    obtain ⟨nbrs, h1, rfl, -⟩ := htarget v w ls h
    exact nodup_labelsTo w (hg.2 v nbrs h1)
  · intro v w ls h; rw [ofGraph_out_keys]; exact hclosed v w ls h
  · intro v w ls h
    obtain ⟨nbrs, -, -, h3⟩ := htarget v w ls h
    exact h3

theorem get?_mapConst {κ ν : Type} [DecidableEq κ] (xs : List κ) (c : ν) (k : κ) :
    Dict.get? (xs.map fun v => (v, c)) k = if k ∈ xs then some c else none := by
  induction xs with
  | nil => simp
  | cons x xs ih => simp only [List.map_cons, get?_cons, ih, List.mem_cons]; grind

theorem keys_mapConst {κ ν : Type} (xs : List κ) (c : ν) : Dict.keys (xs.map fun v => (v, c)) = xs := by
  simp [Dict.keys, List.map_map, Function.comp_def]

/-- the label view stored by `_from_graph_dict`: the given rows, plus an empty row per hidden vertex -/
theorem fromGraphDict_graph_get? (gd : Dict V (Dict L V)) (st : List V) (v : V) :
    (fromGraphDict gd st).graph.get? v =
      (gd.get? v).orElse (fun _ => if v ∈ hiddenVertices gd then some [] else none) := by
  show Dict.get? (gd ++ _) v = _
  rw [get?_append, get?_mapConst]

/-- the walk in an automaton built from a label view is the walk in that label view -/
theorem step_fromGraphDict (gd : Dict V (Dict L V)) (st : List V) (v : V) (l : L) :
    (fromGraphDict gd st).step v l = (gd.get? v).bind (·.get? l) := by
  rw [step_def, fromGraphDict_graph_get?]
  cases gd.get? v with
  | some r => simp
  | none => simp only [Option.orElse_none, Option.bind_none]; split <;> simp

theorem mem_keys_fromGraphDict (gd : Dict V (Dict L V)) (st : List V) (v : V) :
    v ∈ (fromGraphDict gd st).out.keys ↔ v ∈ gd.keys ∨ v ∈ targets gd := by
  rw [fromGraphDict_eq, ofGraph_out_keys, keys_append, keys_mapConst, List.mem_append,
    (hidden_spec gd).2.2]
  by_cases h : v ∈ gd.keys <;> simp [h]

/-- `FSA(graph_dict)`: for any dictionary of dictionaries the result is well-formed -/
theorem wf_fromGraphDict (gd : Dict V (Dict L V)) (st : List V) (hgd : Nodup2 gd) :
    (fromGraphDict gd st).WF := by
  rw [fromGraphDict_eq]
  obtain ⟨hn, hdis, hmem⟩ := hidden_spec gd
  have hget : ∀ v, Dict.get? (gd ++ (hiddenVertices gd).map (fun v => (v, ([] : Dict L V)))) v =
      (gd.get? v).orElse (fun _ => if v ∈ hiddenVertices gd then some [] else none) := by
    intro v; rw [get?_append, get?_mapConst]
  apply wf_ofGraph
  · constructor
    · rw [keys_append, keys_mapConst, List.nodup_append]
      exact ⟨hgd.1, hn, fun a ha b hb e => hdis b hb (e ▸ ha)⟩
    · intro k row; rw [hget]
      cases hk : gd.get? k with
      | some r => simp only [Option.orElse_some, Option.some.injEq]; rintro rfl; exact hgd.2 k _ hk
      | none =>
        simp only [Option.orElse_none]
        split
        · rintro ⟨rfl⟩; simp
        · simp
  · intro v nbrs l w hv hl
    rw [keys_append, keys_mapConst, List.mem_append, hmem]
    rw [hget] at hv
    cases hk : gd.get? v with
    | some r =>
      simp only [hk, Option.orElse_some, Option.some.injEq] at hv; subst hv
      have : w ∈ targets gd := (mem_targets gd w).2 ⟨v, r, l, mem_of_get? hk, hl⟩
      by_cases h : w ∈ gd.keys
      · exact Or.inl h
      · exact Or.inr ⟨this, h⟩
    | none =>
      simp only [hk, Option.orElse_none] at hv
      split at hv
      · cases hv; cases hl
      · cases hv

/-- the set model of `FSA(graph_dict)`: vertices = keys and targets, edges = the dictionary -/
theorem abs_fromGraphDict (gd : Dict V (Dict L V)) (st : List V) :
    (fromGraphDict gd st).abs =
      ⟨fun v => v ∈ gd.keys ∨ v ∈ targets gd, fun v l w => (gd.get? v).bind (·.get? l) = some w⟩ := by
  apply SetFSA.ext'
  · intro v; exact mem_keys_fromGraphDict gd st v
  · intro v l w; simp only [abs, step_fromGraphDict]

end GT.FSA
