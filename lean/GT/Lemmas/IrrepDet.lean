/-
`det (sl2Irrep n A) = (det A)^N` from three facts about one `n` (multiplicativity on a specific
pair, determinants of the images of two triangular matrices), by the universal-matrix
argument: in `ℤ[a,b,c,d]` (a domain) `A·[[1,-b],[0,a]] = [[a,0],[c,ad-bc]]`, so
`det(ρ A)·a^N = a^N·(ad-bc)^N` and `a^N` cancels; the identity is then pushed to every
commutative ring along `ℤ[a,b,c,d] → R`.
-/
import GT.Lemmas.Lie
import Mathlib.Algebra.MvPolynomial.CommRing
import Mathlib.Algebra.MvPolynomial.Eval
import Mathlib.LinearAlgebra.Matrix.Block

open Matrix

namespace GT.Lie

/-- the ring of the universal 2×2 matrix -/
abbrev UPoly := MvPolynomial (Fin 4) ℤ

/-- the universal 2×2 matrix -/
noncomputable def univMat : Matrix (Fin 2) (Fin 2) UPoly :=
  !![MvPolynomial.X 0, MvPolynomial.X 1; MvPolynomial.X 2, MvPolynomial.X 3]

/-- the upper triangular factor `[[1,-b],[0,a]]` -/
noncomputable def univU : Matrix (Fin 2) (Fin 2) UPoly := !![1, -MvPolynomial.X 1; 0, MvPolynomial.X 0]

/-- `A · [[1,-b],[0,a]] = [[a,0],[c,ad-bc]]` -/
theorem univMat_mul_univU :
    univMat * univU = !![MvPolynomial.X 0, 0; MvPolynomial.X 2, univMat.det] := by
  ext i j
  fin_cases i <;> fin_cases j <;>
    simp [univMat, univU, Matrix.mul_apply, Fin.sum_univ_succ, Matrix.det_fin_two] <;> ring_nf

theorem sl2Irrep_det_of (n N : ℕ)
    (hmul : sl2Irrep n (univMat * univU) = sl2Irrep n univMat * sl2Irrep n univU)
    (hU : (sl2Irrep n univU).det = MvPolynomial.X 0 ^ N)
    (hL : (sl2Irrep n (univMat * univU)).det = MvPolynomial.X 0 ^ N * univMat.det ^ N)
    {R : Type*} [CommRing R] (A : Matrix (Fin 2) (Fin 2) R) :
    (sl2Irrep n A).det = A.det ^ N := by
  -- the identity in the universal ring
  have huniv : (sl2Irrep n univMat).det = univMat.det ^ N := by
    have h1 : (sl2Irrep n univMat).det * MvPolynomial.X 0 ^ N
        = univMat.det ^ N * MvPolynomial.X 0 ^ N := by
      rw [← hU, ← Matrix.det_mul, ← hmul, hL, hU, mul_comm]
    exact mul_right_cancel₀ (pow_ne_zero N (MvPolynomial.X_ne_zero (0 : Fin 4))) h1
  -- specialise along ℤ[a,b,c,d] → R
  let φ : UPoly →+* R := MvPolynomial.eval₂Hom (Int.castRingHom R) ![A 0 0, A 0 1, A 1 0, A 1 1]
  have hA : univMat.map φ = A := by
    ext i j
    fin_cases i <;> fin_cases j <;> simp [univMat, φ]
  have hdet : φ univMat.det = A.det := by
    rw [RingHom.map_det]; exact congrArg Matrix.det hA
  calc (sl2Irrep n A).det = (sl2Irrep n (univMat.map φ)).det := by rw [hA]
    _ = ((sl2Irrep n univMat).map φ).det := by rw [sl2Irrep_map]
    _ = φ (sl2Irrep n univMat).det := by rw [RingHom.map_det]; rfl
    _ = A.det ^ N := by rw [huniv, map_pow, hdet]

end GT.Lie
