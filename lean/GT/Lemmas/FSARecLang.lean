/-
The language of `recurrent()`: a word is followed in the pruned automaton exactly when it is
followed in the original automaton through vertices that all survive the pruning.
-/
import GT.Lemmas.FSARec
import GT.Lemmas.FSALang

set_option linter.unusedSectionVars false

namespace GT.FSA
variable {V L : Type} [DecidableEq V] [DecidableEq L]

/-- the walk from `v` along `w` in `s` stays inside the vertex set `S` (end points included) -/
def StaysIn (s : FSA V L) (S : V → Prop) : V → List L → Prop
  | v, [] => S v
  | v, l :: w => S v ∧ ∀ u, s.step v l = some u → StaysIn s S u w

theorem follow_induced {s s' : FSA V L} {S : V → Prop}
    (hst : ∀ v l w, s'.step v l = some w ↔ s.step v l = some w ∧ S v ∧ S w)
    (v : V) (hv : S v) (w : List L) (q : V) :
    s'.follow v w = some q ↔ s.follow v w = some q ∧ StaysIn s S v w := by
  induction w generalizing v with
  | nil => simp [StaysIn, hv]
  | cons l w ih =>
    rw [follow_cons, follow_cons]
    constructor
    · intro h
      cases h1 : s'.step v l with
      | none => simp [h1] at h
      | some u =>
        simp only [h1, Option.bind_some] at h
        obtain ⟨a, -, c⟩ := (hst v l u).1 h1
        obtain ⟨b1, b2⟩ := (ih u c).1 h
        refine ⟨by simp [a, b1], hv, ?_⟩
        intro u' hu'
        rw [a] at hu'; cases hu'; exact b2
    · rintro ⟨h, -, h3⟩
      cases h1 : s.step v l with
      | none => simp [h1] at h
      | some u =>
        simp only [h1, Option.bind_some] at h
        have hin := h3 u h1
        have hu : S u := by cases w <;> simp [StaysIn] at hin <;> first | exact hin | exact hin.1
        have : s'.step v l = some u := (hst v l u).2 ⟨h1, hv, hu⟩
        simp only [this, Option.bind_some]
        exact (ih u hu).2 ⟨h, hin⟩

end GT.FSA
