/-
Syntax trees of valid GAP/kbmag record texts, their rendering and denotation, and the
step lemmas for the character loops of `GT.Model.GapParse`.  The invariant carried through
all loops is `2 * t.length + 2 ≤ fuel + 2 * i` (enough fuel for the rest of the text), and positions
are described by `t.drop i = <what comes next>`.
-/
import GT.Model.GapParse

namespace GT.Gap

/-! ## syntax -/

mutual
/-- a value as written in the text; `pre` is the whitespace in front of it -/
inductive Syn
  | bare (pre s : List Char)
  | quoted (pre s : List Char)
  /-- `[a..b]`: sign flags and digit strings exactly as written -/
  | interval (pre : List Char) (na : Bool) (da : List Char) (nb : Bool) (db : List Char)
  | list (pre : List Char) (items : SynItems) (post : List Char)
  | record (pre : List Char) (fields : SynFields) (post : List Char)
/-- list items; `after` is the whitespace between the item and the following `,` or `]` -/
inductive SynItems
  | nil
  | cons (v : Syn) (after : List Char) (rest : SynItems)
/-- record fields `wsName name wsAssign := value after` separated by commas -/
inductive SynFields
  | nil
  | cons (wsName name wsAssign : List Char) (v : Syn) (after : List Char) (rest : SynFields)
end

def signed (neg : Bool) (ds : List Char) : List Char := if neg then '-' :: ds else ds
def signedVal (neg : Bool) (ds : List Char) : Int := if neg then -(digitsToNat ds : Int) else digitsToNat ds

mutual
def Syn.render : Syn → List Char
  | .bare pre s => pre ++ s
  | .quoted pre s => pre ++ '"' :: (s ++ ['"'])
  | .interval pre na da nb db => pre ++ '[' :: (signed na da ++ '.' :: '.' :: (signed nb db ++ [']']))
  | .list pre items post => pre ++ '[' :: (items.render ++ (post ++ [']']))
  | .record pre fields post => pre ++ 'r' :: 'e' :: 'c' :: '(' :: (fields.render ++ (post ++ [')']))
/-- items from the start of a list body (no leading comma) -/
def SynItems.render : SynItems → List Char
  | .nil => []
  | .cons v after rest => v.render ++ (after ++ rest.renderTail)
/-- what follows a value inside a list: `, item after , item after …` -/
def SynItems.renderTail : SynItems → List Char
  | .nil => []
  | .cons v after rest => ',' :: (v.render ++ (after ++ rest.renderTail))
def SynFields.render : SynFields → List Char
  | .nil => []
  | .cons wsName name wsAssign v after rest =>
      wsName ++ (name ++ (wsAssign ++ ':' :: '=' :: (v.render ++ (after ++ rest.renderTail))))
def SynFields.renderTail : SynFields → List Char
  | .nil => []
  | .cons wsName name wsAssign v after rest =>
      ',' :: (wsName ++ (name ++ (wsAssign ++ ':' :: '=' :: (v.render ++ (after ++ rest.renderTail)))))
end

/-- the value a bare token denotes (well-formedness demands that `literal` succeeds) -/
def litVal (s : List Char) : GVal := match literal s with | .ok v => v | .error _ => .str s

mutual
def Syn.denote : Syn → GVal
  | .bare _ s => litVal s
  | .quoted _ s => .str s
  | .interval _ na da nb db => .range (signedVal na da) (signedVal nb db)
  | .list _ items _ => .list items.denote
  | .record _ fields _ => .record (fields.denote [])
def SynItems.denote : SynItems → List GVal
  | .nil => []
  | .cons v _ rest => v.denote :: rest.denote
/-- fields are assigned left to right into the dictionary built so far -/
def SynFields.denote : SynFields → List (List Char × GVal) → List (List Char × GVal)
  | .nil, acc => acc
  | .cons _ name _ v _ rest, acc => rest.denote (setField acc name v.denote)
end

def AllWs (w : List Char) : Prop := ∀ c ∈ w, isWs c = true

instance (w : List Char) : Decidable (AllWs w) := by unfold AllWs; infer_instance

/-- characters a bare token may contain -/
def isBareChar (c : Char) : Bool :=
  !isWs c && c != '"' && c != ',' && c != '[' && c != ']' && c != '(' && c != ')'

/-- characters a field name may contain -/
def isNameChar (c : Char) : Bool := !isWs c && c != ',' && c != ')' && c != ':'

mutual
/-- well-formed value (`inList`: records cannot be list items — the list loop has no `rec(` case) -/
def Syn.WF : Syn → Bool → Prop
  | .bare pre s, _ => AllWs pre ∧ s ≠ [] ∧ (∀ c ∈ s, isBareChar c = true) ∧ s.head? ≠ some '-' ∧
      (∃ v, literal s = .ok v)
  | .quoted pre s, _ => AllWs pre ∧ '"' ∉ s
  | .interval pre na da nb db, _ => AllWs pre ∧ da ≠ [] ∧ db ≠ [] ∧ (∀ c ∈ da, isDigit c = true) ∧
      (∀ c ∈ db, isDigit c = true) ∧ signedVal na da ≤ signedVal nb db
  | .list pre items post, _ => AllWs pre ∧ AllWs post ∧ items.WF
  | .record pre fields post, inList => inList = false ∧ AllWs pre ∧ AllWs post ∧ fields.WF
def SynItems.WF : SynItems → Prop
  | .nil => True
  | .cons v after rest => v.WF true ∧ AllWs after ∧ rest.WF
def SynFields.WF : SynFields → Prop
  | .nil => True
  | .cons wsName name wsAssign v after rest =>
      AllWs wsName ∧ AllWs wsAssign ∧ (∀ c ∈ name, isNameChar c = true) ∧ v.WF false ∧ AllWs after ∧ rest.WF
end

mutual
def Syn.size : Syn → Nat
  | .list _ items _ => items.size + 1
  | .record _ fields _ => fields.size + 1
  | _ => 1
def SynItems.size : SynItems → Nat
  | .nil => 0
  | .cons v _ rest => v.size + rest.size + 1
def SynFields.size : SynFields → Nat
  | .nil => 0
  | .cons _ _ _ v _ rest => v.size + rest.size + 1
end

/-! ## position helpers -/

theorem hd_of_drop {t : List Char} {i : Nat} {c : Char} {more : List Char}
    (h : t.drop i = c :: more) : t[i]? = some c := by
  have := congrArg (fun l => l[0]?) h
  simpa [List.getElem?_drop] using this

theorem tl_of_drop {t : List Char} {i : Nat} {c : Char} {more : List Char}
    (h : t.drop i = c :: more) : t.drop (i + 1) = more := by
  have : t.drop (i + 1) = (t.drop i).drop 1 := by rw [List.drop_drop]
  rw [this, h]; rfl

theorem len_of_drop {t : List Char} {i : Nat} {x : List Char}
    (h : t.drop i = x) (hx : x ≠ []) : i + x.length = t.length := by
  have h1 : (t.drop i).length = x.length := by rw [h]
  rw [List.length_drop] at h1
  have : x.length ≠ 0 := by
    intro h0; exact hx (List.length_eq_zero_iff.1 h0)
  omega

theorem drop_add_of_drop {t : List Char} {i : Nat} {x y : List Char}
    (h : t.drop i = x ++ y) : t.drop (i + x.length) = y := by
  have : t.drop (i + x.length) = (t.drop i).drop x.length := by rw [List.drop_drop]
  rw [this, h, List.drop_left]

end GT.Gap
