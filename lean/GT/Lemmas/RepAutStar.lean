/-
C06, part 2b: `accepted_pairs` for every representation, in particular `parse_simple=False`.
The words of such a representation are joined with `"*"` (`Rep.joinW`), and `parse_word` splits
at `"*"`: parsing a joined word gives the concatenation of the parsed parts, whatever the
parts are.  Hence every `(word, matrix)` pair of the specification is consistent as soon as the
edge labels are (`LabelOKg`): automatic for `edge_words=True`, and for `edge_words=False` true
when the generator names are non-empty and contain none of `( ) *` (which `_set_generator`
enforces, `validName`).
-/
import GT.Lemmas.RepAutPairs

set_option linter.unusedSectionVars false

namespace GT.RepW

/-! ## `re.split("[()*]", ·)` and `"*"` -/

theorem splitSep_append_star (ys : List Char) : ∀ (xs cur : List Char),
    splitSep cur (xs ++ '*' :: ys) = splitSep cur xs ++ splitSep [] ys
  | [], cur => by
    simp [splitSep]
  | c :: cs, cur => by
    simp only [List.cons_append, splitSep]
    split_ifs
    · rw [splitSep_append_star ys cs [], List.cons_append]
    · exact splitSep_append_star ys cs (c :: cur)

/-- a token list without separators is one token -/
theorem splitSep_noSep : ∀ (xs cur : List Char),
    (∀ c ∈ xs, ¬(c = '(' ∨ c = ')' ∨ c = '*')) → splitSep cur xs = [cur.reverse ++ xs]
  | [], cur, _ => by simp [splitSep]
  | c :: cs, cur, h => by
    simp only [splitSep]
    rw [if_neg (h c List.mem_cons_self),
      splitSep_noSep cs (c :: cur) fun d hd => h d (List.mem_cons_of_mem _ hd)]
    simp

theorem parseWord_false_empty : parseWord false "" = [] := by
  simp [parseWord, splitSep]

/-- **`parse_word(a + "*" + b, simple=False) = parse_word(a) + parse_word(b)`** -/
theorem parseWord_false_star (a b : String) :
    parseWord false (a ++ "*" ++ b) = parseWord false a ++ parseWord false b := by
  have h : (a ++ "*" ++ b).toList = a.toList ++ '*' :: b.toList := by
    simp [String.toList_append]
  simp only [parseWord, Bool.false_eq_true, if_false, h, splitSep_append_star,
    List.filter_append, List.map_append]

/-- a non-empty name without `( ) *` is a one-generator word -/
theorem parseWord_false_name (l : String) (hne : l ≠ "")
    (hs : ∀ c ∈ l.toList, ¬(c = '(' ∨ c = ')' ∨ c = '*')) : parseWord false l = [l] := by
  have h0 : l.toList ≠ [] := by
    intro e
    apply hne
    apply String.toList_inj.1
    rw [e]
    rfl
  simp only [parseWord, Bool.false_eq_true, if_false, splitSep_noSep l.toList [] hs,
    List.reverse_nil, List.nil_append]
  simp [h0]

theorem validName_noSep {g : Gen} (h : validName g = true) :
    g ≠ "" ∧ ∀ c ∈ g.toList, ¬(c = '(' ∨ c = ')' ∨ c = '*') := by
  unfold validName at h
  simp only [Bool.and_eq_true, Bool.not_eq_true', List.any_eq_false, List.any_eq_true,
    decide_eq_true_eq] at h
  obtain ⟨⟨h1, c, hc, _⟩, _⟩ := h
  refine ⟨?_, ?_⟩
  · rintro rfl
    simp at hc
  · intro c hc hsep
    apply h1 c hc
    rcases hsep with h | h | h
    · exact Or.inr (Or.inl h)
    · exact Or.inr (Or.inr h)
    · exact Or.inl h

namespace Rep
variable {V : Type} [DecidableEq V] {n : ℕ} {R : Type} [Inhabited R] [CommRing R]

/-- parsing a joined word, for every representation: `parse_word(join(a, b)) =
parse_word(a) + parse_word(b)` with `simple = self.parse_simple` -/
theorem parseWord_joinW (ρ : Rep n R) (a b : String) :
    parseWord ρ.parseSimple (ρ.joinW a b) =
      parseWord ρ.parseSimple a ++ parseWord ρ.parseSimple b := by
  cases hp : ρ.parseSimple
  · unfold joinW
    rw [hp]
    by_cases ha : a = ""
    · subst ha
      simp [parseWord_false_empty]
    · by_cases hb : b = ""
      · subst hb
        simp [parseWord_false_empty]
      · simp only [Bool.false_or, Bool.or_eq_true, beq_iff_eq, ha, hb, or_self, if_false]
        exact parseWord_false_star a b
  · rw [joinW_simple hp, parseWord_true_append]

/-- every edge label that has an edge element is a word (parsed with the representation's own
`parse_simple`) whose image is that element -/
def LabelOKg (ρ : Rep n R) (o : AccOpts) : Prop :=
  ∀ l A, ρ.edgeElt o l = .ok A → ρ.value (parseWord ρ.parseSimple l) = .ok A.toMatrix

/-- `edge_words=True`: automatic, for every representation -/
theorem labelOKg_of_edgeWords (ρ : Rep n R) (o : AccOpts) (he : o.edgeWords = true) :
    LabelOKg ρ o := by
  intro l A h
  unfold edgeElt at h
  rw [if_pos he] at h
  unfold wordValueS at h
  simp only [Option.getD_none] at h
  unfold value
  rw [h]
  rfl

theorem gen_ok_mem {ρ : Rep n R} {l : Gen} {A : DMat n n R} (h : ρ.gen l = .ok A) :
    l ∈ ρ.gens.map Prod.fst := by
  unfold gen at h
  generalize ρ.gens = d at h
  induction d with
  | nil => simp [dget] at h
  | cons kv d ih =>
    obtain ⟨k0, v0⟩ := kv
    simp only [dget] at h
    by_cases hk : k0 = l
    · simp [hk]
    · rw [if_neg hk] at h
      simp only [List.map_cons, List.mem_cons]
      exact Or.inr (ih h)

/-- `edge_words=False` on a `parse_simple=False` representation: labels are generator names;
a non-empty name without `( ) *` is parsed as the one-generator word -/
theorem labelOKg_of_names (ρ : Rep n R) (o : AccOpts) (hp : ρ.parseSimple = false)
    (he : o.edgeWords = false)
    (h1 : ∀ g ∈ ρ.gens.map Prod.fst, g ≠ "" ∧ ∀ c ∈ g.toList, ¬(c = '(' ∨ c = ')' ∨ c = '*')) :
    LabelOKg ρ o := by
  intro l A h
  unfold edgeElt at h
  rw [he] at h
  simp only [Bool.false_eq_true, if_false] at h
  obtain ⟨hne, hs⟩ := h1 l (gen_ok_mem h)
  rw [hp, parseWord_false_name l hne hs, value_singleton]
  unfold genM
  rw [h]
  rfl

/-- … in particular when every name passed the checks of `_set_generator` -/
theorem labelOKg_of_validNames (ρ : Rep n R) (o : AccOpts) (hp : ρ.parseSimple = false)
    (he : o.edgeWords = false) (h1 : ∀ g ∈ ρ.gens.map Prod.fst, validName g = true) :
    LabelOKg ρ o :=
  labelOKg_of_names ρ o hp he fun g hg => validName_noSep (h1 g hg)

theorem labelOKg_of_labelOK (ρ : Rep n R) (o : AccOpts) (hp : ρ.parseSimple = true)
    (h : LabelOK ρ o) : LabelOKg ρ o := by
  intro l A hl
  rw [hp]
  exact h l A hl

theorem value_one_nil_g (ρ : Rep n R) :
    ρ.value (parseWord ρ.parseSimple "") = .ok (DMat.one : DMat n n R).toMatrix := by
  have : parseWord ρ.parseSimple "" = [] := by
    cases ρ.parseSimple
    · exact parseWord_false_empty
    · exact parseWord_true_empty
  rw [this, value_nil, DMat.toMatrix_one]

/-- **matrix k is the image of word k** (specification level), every representation: the word
is parsed the way the representation parses words (`"*"`-separated generator names for
`parse_simple=False`) -/
theorem accSpec_pairs_g (ρ : Rep n R) (a : Aut V) (o : AccOpts) (hL : LabelOKg ρ o) :
    ∀ (L : Nat) (v : V) (pairs : List (String × DMat n n R)),
      ρ.accSpec a o L v = .ok pairs →
      ∀ sM ∈ pairs, ρ.value (parseWord ρ.parseSimple sM.1) = .ok sM.2.toMatrix
  | 0, v, pairs, h, sM, hsM => by
    rw [accSpec_zero] at h
    cases h
    unfold zeroPairs at hsM
    split_ifs at hsM
    · rw [List.mem_singleton] at hsM
      subst hsM
      exact value_one_nil_g ρ
    · cases hsM
  | k + 1, v, pairs, h, sM, hsM => by
    obtain ⟨edges, parts, hadj, hF, rfl⟩ := accSpec_succ_ok h
    rw [List.mem_append] at hsM
    rcases hsM with hz | hpp
    · split_ifs at hz
      · unfold zeroPairs at hz
        split_ifs at hz
        · rw [List.mem_singleton] at hz
          subst hz
          exact value_one_nil_g ρ
        · cases hz
      · cases hz
    · rw [List.mem_flatten] at hpp
      obtain ⟨part, hpart, hin⟩ := hpp
      obtain ⟨wl, hwl, hbody⟩ := forall₂_mem_right hF hpart
      obtain ⟨r, e, hr, he, rfl⟩ := specBody_ok hbody
      unfold extendPairs at hin
      rw [List.mem_map] at hin
      obtain ⟨sM0, hsM0, rfl⟩ := hin
      have ih := accSpec_pairs_g ρ a o hL k wl.1 r hr sM0 hsM0
      have hl := hL wl.2 e he
      cases hA : o.asStart
      · simp only [Bool.false_eq_true, if_false]
        rw [parseWord_joinW, DMat.toMatrix_mul]
        exact value_append_ok ρ ih hl
      · simp only [if_true]
        rw [parseWord_joinW, DMat.toMatrix_mul]
        exact value_append_ok ρ hl ih

theorem toRes_forall₂_g (ρ : Rep n R) (o : AccOpts) (hw : o.withWords = true)
    (pairs : List (String × DMat n n R))
    (h : ∀ sM ∈ pairs, ρ.value (parseWord ρ.parseSimple sM.1) = .ok sM.2.toMatrix) :
    List.Forall₂ (fun s M => ρ.value (parseWord ρ.parseSimple s) = .ok (DMat.toMatrix M))
      (toRes o pairs).words (toRes o pairs).mats := by
  unfold toRes
  simp only [hw, if_true]
  induction pairs with
  | nil => exact List.Forall₂.nil
  | cons p ps ih =>
    exact List.Forall₂.cons (h p List.mem_cons_self)
      (ih fun sM hs => h sM (List.mem_cons_of_mem _ hs))

/-- **`accepted_pairs`, every representation**: for the model's actual output with
`with_words=True` on a correct memo dict, word `k` — parsed by the representation's own
`parse_word` — evaluates to matrix `k` -/
theorem accepted_pairs_g (ρ : Rep n R) (a : Aut V) (L : Nat) (o : AccOpts) (v : V)
    (memo memo' : Memo V n R) (res : AccRes n R) (hL : LabelOKg ρ o) (hw : o.withWords = true)
    (hm : MemoOK ρ a o memo) (h : ρ.accepted a L o (some v) memo = .ok (res, memo')) :
    List.Forall₂ (fun s M => ρ.value (parseWord ρ.parseSimple s) = .ok (DMat.toMatrix M))
      res.words res.mats := by
  obtain ⟨⟨pairs, hs, rfl⟩, _⟩ := memo_sound ρ a L o v memo memo' res hm h
  exact toRes_forall₂_g ρ o hw pairs (accSpec_pairs_g ρ a o hL L v pairs hs)

/-- the specification of the public wrapper -/
theorem topSpec_pairs_g (ρ : Rep n R) (a : Aut V) (L : Nat) (maxlen withWords : Bool)
    (startState endState : Option V) (edgeWords : Bool)
    (hL : LabelOKg ρ (topOpts maxlen withWords endState edgeWords))
    (pairs : List (String × DMat n n R))
    (hs : ρ.topSpec a L maxlen withWords startState endState edgeWords = .ok pairs) :
    ∀ sM ∈ pairs, ρ.value (parseWord ρ.parseSimple sM.1) = .ok sM.2.toMatrix := by
  unfold topSpec at hs
  cases endState with
  | some e =>
    cases startState with
    | some s => cases hs
    | none => exact accSpec_pairs_g ρ a _ hL L e pairs hs
  | none =>
    cases startState with
    | some s => exact accSpec_pairs_g ρ a _ hL L s pairs hs
    | none =>
      cases L with
      | zero =>
        simp only [accSpecO] at hs
        cases hs
        intro sM hsM
        rw [List.mem_singleton] at hsM
        subst hsM
        exact value_one_nil_g ρ
      | succ k =>
        simp only [accSpecO] at hs
        cases hst : a.starts with
        | nil => rw [hst] at hs; cases hs
        | cons s t =>
          rw [hst] at hs
          exact accSpec_pairs_g ρ a _ hL (k + 1) s pairs hs

/-- the same for the public wrapper, all choices of `start_state`/`end_state` -/
theorem automatonAccepted_pairs_g (ρ : Rep n R) (a : Aut V) (L : Nat) (maxlen : Bool)
    (startState endState : Option V) (memo memo' : Memo V n R) (edgeWords : Bool)
    (res : AccRes n R) (hL : LabelOKg ρ (topOpts maxlen true endState edgeWords))
    (hm : MemoOK ρ a (topOpts maxlen true endState edgeWords) memo)
    (h : ρ.automatonAccepted a L maxlen true startState endState memo edgeWords =
      .ok (res, memo')) :
    List.Forall₂ (fun s M => ρ.value (parseWord ρ.parseSimple s) = .ok (DMat.toMatrix M))
      res.words res.mats := by
  obtain ⟨⟨pairs, hs, rfl⟩, _⟩ :=
    automatonAccepted_sound ρ a L maxlen true startState endState memo memo' edgeWords res hm h
  exact toRes_forall₂_g ρ _ rfl pairs
    (topSpec_pairs_g ρ a L maxlen true startState endState edgeWords hL pairs hs)

/-- **`accepted_pairs` for `parse_simple=False`** (specification level): every pair `(s, M)`
has `M = ρ(parse_word(s, simple=False))` -/
theorem accSpec_pairs_nonsimple (ρ : Rep n R) (a : Aut V) (o : AccOpts)
    (hp : ρ.parseSimple = false)
    (hL : ∀ l A, ρ.edgeElt o l = .ok A → ρ.value (parseWord false l) = .ok A.toMatrix)
    (L : Nat) (v : V) (pairs : List (String × DMat n n R)) (h : ρ.accSpec a o L v = .ok pairs) :
    ∀ sM ∈ pairs, ρ.value (parseWord false sM.1) = .ok sM.2.toMatrix := by
  have := accSpec_pairs_g ρ a o (by intro l A hl; rw [hp]; exact hL l A hl) L v pairs h
  rw [hp] at this
  exact this

/-- **`accepted_pairs` for `parse_simple=False`**: the k-th matrix returned is the image of
the k-th (`"*"`-joined) word -/
theorem accepted_pairs_nonsimple (ρ : Rep n R) (a : Aut V) (L : Nat) (o : AccOpts) (v : V)
    (memo memo' : Memo V n R) (res : AccRes n R) (hp : ρ.parseSimple = false)
    (hL : ∀ l A, ρ.edgeElt o l = .ok A → ρ.value (parseWord false l) = .ok A.toMatrix)
    (hw : o.withWords = true) (hm : MemoOK ρ a o memo)
    (h : ρ.accepted a L o (some v) memo = .ok (res, memo')) :
    List.Forall₂ (fun s M => ρ.value (parseWord false s) = .ok (DMat.toMatrix M))
      res.words res.mats := by
  have := accepted_pairs_g ρ a L o v memo memo' res
    (by intro l A hl; rw [hp]; exact hL l A hl) hw hm h
  rw [hp] at this
  exact this

end Rep
end GT.RepW
