/-
The language of `remove_long_paths`: words followed from the root in the result are geodesic words
of the original automaton.
-/
import GT.Model.FSASpec
import GT.Lemmas.FSALang

set_option linter.unusedSectionVars false

namespace GT.FSA
variable {V L : Type} [DecidableEq V] [DecidableEq L]

theorem isDist_root (s : FSA V L) (r : V) : IsDist s r r 0 := ⟨.zero, fun _ _ => Nat.zero_le _⟩

theorem IsDist.unique {s : FSA V L} {r x : V} {n m : Nat} (h1 : IsDist s r x n) (h2 : IsDist s r x m) :
    n = m := Nat.le_antisymm (h1.2 m h2.1) (h2.2 n h1.1)

theorem walk_zero {s : FSA V L} {r x : V} (h : Walk s r x 0) : x = r := by
  cases h; rfl

theorem Walk.follow {s : FSA V L} {r u : V} {m : Nat} (h : Walk s r u m) :
    ∀ (w : List L) (q : V), s.follow u w = some q → Walk s r q (m + w.length) := by
  intro w
  induction w generalizing u m with
  | nil => intro q hq; simp at hq; subst hq; simpa using h
  | cons l w ih =>
    intro q hq
    rw [follow_cons] at hq
    cases h1 : s.step u l with
    | none => simp [h1] at hq
    | some u' =>
      simp only [h1, Option.bind_some] at hq
      have := ih (Walk.succ h h1) q hq
      simpa [Nat.add_assoc, Nat.add_comm 1] using this

theorem walk_iff_follow {s : FSA V L} {r x : V} {n : Nat} :
    Walk s r x n ↔ ∃ w : List L, w.length = n ∧ s.follow r w = some x := by
  constructor
  · intro h
    induction h with
    | zero => exact ⟨[], rfl, rfl⟩
    | succ _ hst ih =>
      obtain ⟨w, hl, hf⟩ := ih
      exact ⟨w ++ [_], by simp [hl], by rw [follow_concat, hf]; simpa using hst⟩
  · rintro ⟨w, rfl, hf⟩
    simpa using Walk.follow (Walk.zero (s := s) (r := r)) w x hf

/-- Words followed in a sub-automaton all of whose edges go from distance `d` to distance `d + 1`
are geodesic words. -/
theorem follow_geodesic {s H : FSA V L} {r : V}
    (hedge : ∀ v l w, H.step v l = some w →
      s.step v l = some w ∧ ∃ d, IsDist s r v d ∧ IsDist s r w (d + 1))
    (w : List L) : ∀ (v : V) (d : Nat) (q : V), IsDist s r v d → H.follow v w = some q →
      s.follow v w = some q ∧ IsDist s r q (d + w.length) := by
  induction w with
  | nil => intro v d q hd hq; simp at hq; subst hq; simpa using hd
  | cons l w ih =>
    intro v d q hd hq
    rw [follow_cons] at hq
    cases h1 : H.step v l with
    | none => simp [h1] at hq
    | some u =>
      simp only [h1, Option.bind_some] at hq
      obtain ⟨hs1, d', hd1, hd2⟩ := hedge v l u h1
      have : d' = d := hd1.unique hd
      subst this
      obtain ⟨a, b⟩ := ih u (d' + 1) q hd2 hq
      refine ⟨by rw [follow_cons, hs1]; simpa using a, ?_⟩
      simpa [Nat.add_assoc, Nat.add_comm 1] using b

/-- With every distance-increasing edge kept, every geodesic word is followed. -/
theorem follow_of_geodesic {s H : FSA V L} {r : V}
    (hedge : ∀ v l w, H.step v l = some w ↔
      s.step v l = some w ∧ ∃ d, IsDist s r v d ∧ IsDist s r w (d + 1))
    (w : List L) : ∀ (v : V) (d : Nat) (q : V), IsDist s r v d → s.follow v w = some q →
      IsDist s r q (d + w.length) → H.follow v w = some q := by
  induction w with
  | nil => intro v d q _ hq _; simpa using hq
  | cons l w ih =>
    intro v d q hd hq hdq
    rw [follow_cons] at hq
    cases h1 : s.step v l with
    | none => simp [h1] at hq
    | some u =>
      simp only [h1, Option.bind_some] at hq
      have hu : IsDist s r u (d + 1) := by
        refine ⟨Walk.succ hd.1 h1, fun m hm => ?_⟩
        have := hdq.2 _ (hm.follow w q hq)
        simp only [List.length_cons] at this
        omega
      have h2 : H.step v l = some u := (hedge v l u).2 ⟨h1, d, hd, hu⟩
      rw [follow_cons, h2]
      simp only [Option.bind_some]
      refine ih u (d + 1) q hu hq ?_
      simpa [Nat.add_assoc, Nat.add_comm 1] using hdq

/-- If every reachable vertex other than the root keeps an incoming edge, every reachable vertex is
reached from the root by a word of the sub-automaton (necessarily of geodesic length). -/
theorem exists_follow_of_tree {s H : FSA V L} {r : V}
    (hedge : ∀ v l w, H.step v l = some w →
      s.step v l = some w ∧ ∃ d, IsDist s r v d ∧ IsDist s r w (d + 1))
    (hin : ∀ w n, IsDist s r w n → w ≠ r → ∃ v l, H.step v l = some w)
    (n : Nat) : ∀ x, IsDist s r x n → ∃ w : List L, w.length = n ∧ H.follow r w = some x := by
  induction n with
  | zero => intro x hx; exact ⟨[], rfl, by simp [walk_zero hx.1]⟩
  | succ n ih =>
    intro x hx
    have hne : x ≠ r := by
      rintro rfl
      have := hx.unique (isDist_root s x)
      omega
    obtain ⟨v, l, hst⟩ := hin x _ hx hne
    obtain ⟨-, d, hd1, hd2⟩ := hedge v l x hst
    have : d = n := by have := hd2.unique hx; omega
    subst this
    obtain ⟨w, hl, hf⟩ := ih v hd1
    exact ⟨w ++ [l], by simp [hl], by rw [follow_concat, hf]; simpa using hst⟩

end GT.FSA
