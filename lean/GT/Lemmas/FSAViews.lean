/-
What coherence means for the three edge listings: `edges()`, all `edges_out(v)`, all
`edges_in(w)` list the same labelled edges, each exactly once.
-/
import GT.Lemmas.FSADel

set_option linter.unusedSectionVars false
set_option linter.unusedSimpArgs false

namespace GT.FSA
variable {V L : Type} [DecidableEq V] [DecidableEq L]
open Dict

theorem nodup_of_keys_nodup {κ ν : Type} {d : Dict κ ν} (h : d.keys.Nodup) : d.Nodup := by
  unfold Dict.keys List.Nodup at h
  exact (List.pairwise_map.1 h).imp (fun hab e => hab (by rw [e]))

/-- listing a dictionary item by item, where every listed element remembers its key -/
theorem nodup_flatMap_dict {κ ν β : Type} (d : Dict κ ν) (f : κ × ν → List β) (proj : β → κ)
    (hk : d.keys.Nodup) (hproj : ∀ r ∈ d, ∀ x ∈ f r, proj x = r.1) (hin : ∀ r ∈ d, (f r).Nodup) :
    (d.flatMap f).Nodup := by
  unfold List.Nodup
  rw [List.pairwise_flatMap]
  refine ⟨hin, ?_⟩
  have h1 : List.Pairwise (fun a b : κ × ν => a.1 ≠ b.1) d := by
    have := hk
    unfold Dict.keys List.Nodup at this
    exact List.pairwise_map.1 this
  have h2 : List.Pairwise (fun a b : κ × ν => a ∈ d ∧ b ∈ d ∧ a.1 ≠ b.1) d := by
    rw [List.pairwise_iff_forall_sublist] at h1 ⊢
    intro a b hab
    exact ⟨hab.subset (by simp), hab.subset (by simp), h1 hab⟩
  refine h2.imp ?_
  rintro a b ⟨ha, hb, hne⟩ x hx y hy rfl
  exact hne ((hproj a ha x hx).symm.trans (hproj b hb x hy))

theorem mem_edgesG {s : FSA V L} (hs : s.Coherent) (v : V) (l : L) (w : V) :
    (v, l, w) ∈ s.edgesG ↔ s.step v l = some w := by
  simp only [edgesG, List.mem_flatMap, List.mem_map, Prod.mk.injEq, Prod.exists]
  rw [step_eq_some_iff']
  constructor
  · rintro ⟨v', row, h1, l', w', h2, rfl, rfl, rfl⟩
    have hr := get?_of_mem hs.keys.graph h1
    exact ⟨row, hr, get?_of_mem (hs.keys.graphRow _ _ hr) h2⟩
  · rintro ⟨row, h1, h2⟩
    exact ⟨v, row, mem_of_get? h1, l, w, mem_of_get? h2, rfl, rfl, rfl⟩
where
  step_eq_some_iff' : s.step v l = some w ↔ ∃ row, s.graph.get? v = some row ∧ row.get? l = some w := by
    unfold step; cases s.graph.get? v <;> simp

theorem mem_edgesO {s : FSA V L} (hs : s.Coherent) (v : V) (l : L) (w : V) :
    (v, l, w) ∈ s.edgesO ↔ ∃ ls, s.og v w = some ls ∧ l ∈ ls := by
  simp only [edgesO, List.mem_flatMap, List.mem_map, Prod.mk.injEq, Prod.exists]
  constructor
  · rintro ⟨v', row, h1, w', ls, h2, l', h3, rfl, rfl, rfl⟩
    have hr := get?_of_mem hs.keys.out h1
    exact ⟨ls, by rw [og_def, hr]; exact get?_of_mem (hs.keys.outRow _ _ hr) h2, h3⟩
  · rintro ⟨ls, h1, h2⟩
    rw [og_def] at h1
    cases hr : s.out.get? v with
    | none => simp [hr] at h1
    | some row =>
      simp only [hr, Option.bind_some] at h1
      exact ⟨v, row, mem_of_get? hr, w, ls, mem_of_get? h1, l, h2, rfl, rfl, rfl⟩

theorem mem_edgesI {s : FSA V L} (hs : s.Coherent) (v : V) (l : L) (w : V) :
    (v, l, w) ∈ s.edgesI ↔ ∃ ls, s.ig w v = some ls ∧ l ∈ ls := by
  simp only [edgesI, List.mem_flatMap, List.mem_map, Prod.mk.injEq, Prod.exists]
  constructor
  · rintro ⟨w', row, h1, v', ls, h2, l', h3, rfl, rfl, rfl⟩
    have hr := get?_of_mem hs.keys.inn h1
    exact ⟨ls, by rw [ig_def, hr]; exact get?_of_mem (hs.keys.innRow _ _ hr) h2, h3⟩
  · rintro ⟨ls, h1, h2⟩
    rw [ig_def] at h1
    cases hr : s.inn.get? w with
    | none => simp [hr] at h1
    | some row =>
      simp only [hr, Option.bind_some] at h1
      exact ⟨w, row, mem_of_get? hr, v, ls, mem_of_get? h1, l, h2, rfl, rfl, rfl⟩

theorem nodup_edgesG {s : FSA V L} (hs : s.Coherent) : s.edgesG.Nodup := by
  unfold edgesG
  apply nodup_flatMap_dict s.graph _ (fun x => x.1) hs.keys.graph
  · intro r _ x hx; simp only [List.mem_map] at hx; obtain ⟨e, -, rfl⟩ := hx; rfl
  · intro r hr
    have hrow := hs.keys.graphRow r.1 r.2 (get?_of_mem hs.keys.graph (by cases r; exact hr))
    refine List.Pairwise.map _ ?_ (nodup_of_keys_nodup hrow)
    intro a b hab h; apply hab
    simp only [Prod.mk.injEq, true_and] at h
    exact Prod.ext h.1 h.2

theorem nodup_edgesO {s : FSA V L} (hs : s.Coherent) : s.edgesO.Nodup := by
  unfold edgesO
  apply nodup_flatMap_dict s.out _ (fun x => x.1) hs.keys.out
  · intro r _ x hx
    simp only [List.mem_flatMap, List.mem_map] at hx
    obtain ⟨e, -, l, -, rfl⟩ := hx; rfl
  · intro r hr
    have hget := get?_of_mem hs.keys.out (by cases r; exact hr : (r.1, r.2) ∈ s.out)
    apply nodup_flatMap_dict r.2 _ (fun x => x.2.2) (hs.keys.outRow r.1 r.2 hget)
    · intro e _ x hx; simp only [List.mem_map] at hx; obtain ⟨l, -, rfl⟩ := hx; rfl
    · intro e he
      have hls : e.2.Nodup := by
        apply hs.nodup r.1 e.1 e.2
        rw [og_def, hget]
        exact get?_of_mem (hs.keys.outRow r.1 r.2 hget) (by cases e; exact he)
      refine List.Pairwise.map _ ?_ hls
      intro a b hab h; apply hab
      simp only [Prod.mk.injEq, true_and, and_true] at h
      exact h

theorem nodup_edgesI {s : FSA V L} (hs : s.Coherent) : s.edgesI.Nodup := by
  unfold edgesI
  apply nodup_flatMap_dict s.inn _ (fun x => x.2.2) hs.keys.inn
  · intro r _ x hx
    simp only [List.mem_flatMap, List.mem_map] at hx
    obtain ⟨e, -, l, -, rfl⟩ := hx; rfl
  · intro r hr
    have hget := get?_of_mem hs.keys.inn (by cases r; exact hr : (r.1, r.2) ∈ s.inn)
    apply nodup_flatMap_dict r.2 _ (fun x => x.1) (hs.keys.innRow r.1 r.2 hget)
    · intro e _ x hx; simp only [List.mem_map] at hx; obtain ⟨l, -, rfl⟩ := hx; rfl
    · intro e he
      have hls : e.2.Nodup := by
        apply hs.nodup e.1 r.1 e.2
        rw [hs.io, ig_def, hget]
        exact get?_of_mem (hs.keys.innRow r.1 r.2 hget) (by cases e; exact he)
      refine List.Pairwise.map _ ?_ hls
      intro a b hab h; apply hab
      simp only [Prod.mk.injEq, true_and, and_true] at h
      exact h

end GT.FSA
