/-
Algebraic core of the triangle inequality for the hyperbolic distance
`arcosh |⟨x̂, ŷ⟩|` (every dimension, any ordered field), and its real-analytic wrapper.
-/
import GT.Lemmas.Charts
import Mathlib.Analysis.SpecialFunctions.Arcosh
import Mathlib.Analysis.SpecialFunctions.Sqrt

set_option linter.unusedSectionVars false

open Finset BigOperators

namespace GT

section field
variable {K : Type*} [Field K] {n : ℕ}

theorem mink_sub_smul_both (x y z : Fin (n + 1) → K) (s t : K) :
    mink (fun i => x i - y i * s) (fun i => z i - y i * t)
      = mink x z - t * mink x y - s * mink y z + s * t * mink y y := by
  unfold mink
  have h1 : Fin.tail (fun i => x i - y i * s) = fun i => Fin.tail x i - (fun j => Fin.tail y j * s) i := rfl
  have h2 : Fin.tail (fun i => z i - y i * t) = fun i => Fin.tail z i - (fun j => Fin.tail y j * t) i := rfl
  rw [h1, h2, dot_sub_left, dot_sub_right, dot_sub_right, dot_smul_right, dot_smul_left,
    dot_smul_left, dot_smul_right]
  ring

theorem mink_sub_smul_left (x y z : Fin (n + 1) → K) (s : K) :
    mink (fun i => x i - y i * s) z = mink x z - s * mink y z := by
  unfold mink
  have h1 : Fin.tail (fun i => x i - y i * s) = fun i => Fin.tail x i - (fun j => Fin.tail y j * s) i := rfl
  rw [h1, dot_sub_left, dot_smul_left]
  ring

end field

section ordered
variable {K : Type*} [Field K] [LinearOrder K] [IsStrictOrderedRing K] {n : ℕ}

/-- Cauchy–Schwarz for the Minkowski form restricted to the orthogonal complement of a
timelike vector (where it is positive semidefinite) -/
theorem cs_on_complement (u w y : Fin (n + 1) → K) (hy : mink y y < 0)
    (hu : mink u y = 0) (hw : mink w y = 0) : mink u w ^ 2 ≤ mink u u * mink w w := by
  have hpos : ∀ s : K, 0 ≤ mink u u - 2 * s * mink u w + s ^ 2 * mink w w := by
    intro s
    have h := nonneg_of_orth_timelike (fun i => u i - w i * s) y hy
      (by rw [mink_sub_smul_left, hu, hw]; ring)
    rwa [mink_sub_smul] at h
  have hW : 0 ≤ mink w w := nonneg_of_orth_timelike w y hy hw
  rcases hW.lt_or_eq with hWpos | hW0
  · have := hpos (mink u w / mink w w)
    have e : mink u u - 2 * (mink u w / mink w w) * mink u w + (mink u w / mink w w) ^ 2 * mink w w
        = mink u u - mink u w ^ 2 / mink w w := by field_simp; ring
    rw [e] at this
    have h2 : mink u w ^ 2 / mink w w ≤ mink u u := by linarith
    rwa [div_le_iff₀ hWpos] at h2
  · rw [← hW0, mul_zero]
    by_contra hne
    have hP : mink u w ≠ 0 := by
      intro h0; apply hne; rw [h0]; simp
    have := hpos ((mink u u + 1) / (2 * mink u w))
    rw [← hW0] at this
    have e : mink u u - 2 * ((mink u u + 1) / (2 * mink u w)) * mink u w
        + ((mink u u + 1) / (2 * mink u w)) ^ 2 * 0 = -1 := by field_simp; ring
    rw [e] at this
    linarith

/-- core inequality behind the triangle inequality, for unit timelike `x y z` -/
theorem triangle_core (x y z : Fin (n + 1) → K)
    (hx : mink x x = -1) (hy : mink y y = -1) (hz : mink z z = -1) :
    (mink x z + mink x y * mink y z) ^ 2 ≤ (mink x y ^ 2 - 1) * (mink y z ^ 2 - 1) := by
  have hy' : mink y y < 0 := by rw [hy]; exact neg_one_lt_zero
  set A := mink x y with hA
  set C := mink y z with hC
  have hzy : mink z y = C := by rw [mink_comm]
  have hu : mink (fun i => x i - y i * (-A)) y = 0 := by
    rw [mink_sub_smul_left, hy, ← hA]; ring
  have hw : mink (fun i => z i - y i * (-C)) y = 0 := by
    rw [mink_sub_smul_left, hy, hzy]; ring
  have h := cs_on_complement _ _ y hy' hu hw
  rw [mink_sub_smul_both, mink_sub_smul, mink_sub_smul, hx, hy, hz, hzy, ← hA, ← hC] at h
  have e1 : mink x z - -C * A - -A * C + -A * -C * -1 = mink x z + A * C := by ring
  have e2 : -1 - 2 * -A * A + (-A) ^ 2 * -1 = A ^ 2 - 1 := by ring
  have e3 : -1 - 2 * -C * C + (-C) ^ 2 * -1 = C ^ 2 - 1 := by ring
  rw [e1, e2, e3] at h
  exact h

/-- normalising a timelike vector gives a unit timelike vector -/
theorem mink_normalize_timelike {r : K → K} (hr : IsSqrt r) (x : Fin (n + 1) → K)
    (hx : mink x x < 0) : mink (normalize r x) (normalize r x) = -1 := by
  have hx' := hr.pos (neg_pos.2 hx)
  have hs := (hr _ (neg_pos.2 hx).le).2
  unfold normalize
  rw [abs_of_neg hx, if_neg hx'.ne']
  have e1 : (fun i => x i / r (-mink x x)) = fun i => x i * (1 / r (-mink x x)) := by
    funext i; field_simp
  rw [e1, mink_smul_left, mink_smul_right]
  have : 1 / r (-mink x x) * (1 / r (-mink x x) * mink x x)
      = mink x x / (r (-mink x x) * r (-mink x x)) := by field_simp
  rw [this, hs, div_neg, div_self hx.ne]

end ordered

section real
variable {n : ℕ}

/-- `cosh d(x,z) ≤ cosh(d(x,y) + d(y,z))`, written without hyperbolic functions -/
theorem coshDist_triangle (x y z : Fin (n + 1) → ℝ)
    (hx : mink x x < 0) (hy : mink y y < 0) (hz : mink z z < 0) :
    coshDist Real.sqrt x z ≤ coshDist Real.sqrt x y * coshDist Real.sqrt y z
      + Real.sqrt (coshDist Real.sqrt x y ^ 2 - 1) * Real.sqrt (coshDist Real.sqrt y z ^ 2 - 1) := by
  have hr : IsSqrt Real.sqrt := fun x hx => ⟨Real.sqrt_nonneg x, Real.mul_self_sqrt hx⟩
  have h1 := mink_normalize_timelike hr x hx
  have h2 := mink_normalize_timelike hr y hy
  have h3 := mink_normalize_timelike hr z hz
  unfold coshDist
  set X := normalize Real.sqrt x
  set Y := normalize Real.sqrt y
  set Z := normalize Real.sqrt z
  have core := triangle_core X Y Z h1 h2 h3
  have hA : 0 ≤ mink X Y ^ 2 - 1 := by
    have := reverse_cs X Y (by rw [h1]; norm_num) (by rw [h2]; norm_num)
    rw [h1, h2] at this; linarith
  have hC : 0 ≤ mink Y Z ^ 2 - 1 := by
    have := reverse_cs Y Z (by rw [h2]; norm_num) (by rw [h3]; norm_num)
    rw [h2, h3] at this; linarith
  rw [sq_abs, sq_abs, ← Real.sqrt_mul hA]
  have h4 : |mink X Z + mink X Y * mink Y Z| ≤ Real.sqrt ((mink X Y ^ 2 - 1) * (mink Y Z ^ 2 - 1)) := by
    rw [← Real.sqrt_sq_eq_abs]
    exact Real.sqrt_le_sqrt core
  calc |mink X Z| = |(mink X Z + mink X Y * mink Y Z) - mink X Y * mink Y Z| := by ring_nf
    _ ≤ |mink X Z + mink X Y * mink Y Z| + |mink X Y * mink Y Z| := abs_sub _ _
    _ = |mink X Y| * |mink Y Z| + |mink X Z + mink X Y * mink Y Z| := by rw [abs_mul]; ring
    _ ≤ _ := by linarith

end real
end GT
