/-
Coherence lemmas for the FSA model, part 1: `add_vertices`, `add_edges`.
Every mutator is characterised by its effect on the lookups `og`, `ig`, `step` and on the key sets.
-/
import GT.Model.FSASpec
import GT.Lemmas.FSADict

set_option linter.unusedSectionVars false
set_option linter.unusedSimpArgs false

namespace GT.FSA
variable {V L : Type} [DecidableEq V] [DecidableEq L]
open Dict

theorem og_def (s : FSA V L) (v w : V) : s.og v w = (s.out.get? v).bind (·.get? w) := rfl
theorem ig_def (s : FSA V L) (w v : V) : s.ig w v = (s.inn.get? w).bind (·.get? v) := rfl
theorem step_def (s : FSA V L) (v : V) (l : L) : s.step v l = (s.graph.get? v).bind (·.get? l) := rfl

theorem addVertex_of_mem {s : FSA V L} {v : V} (h : v ∈ s.out.keys) : s.addVertex v = s := by
  unfold addVertex; simp [(contains_iff _ _).2 h]

theorem addVertex_of_not_mem {s : FSA V L} {v : V} (h : v ∉ s.out.keys) :
    s.addVertex v = { s with out := s.out.set v [], inn := s.inn.set v [], graph := s.graph.set v [] } := by
  unfold addVertex
  have : s.out.contains v = false := by
    cases hc : s.out.contains v
    · rfl
    · exact absurd ((contains_iff _ _).1 hc) h
  simp [this]

theorem coherent_addVertex {s : FSA V L} (hs : s.Coherent) (v : V) : (s.addVertex v).Coherent := by
  by_cases h : v ∈ s.out.keys
  · rwa [addVertex_of_mem h]
  · rw [addVertex_of_not_mem h]
    have hg : s.graph.get? v = none := (get?_eq_none_iff _ _).2 (fun hm => h ((hs.verts v).1 hm))
    have hi : s.inn.get? v = none := (get?_eq_none_iff _ _).2 (fun hm => h ((hs.innVerts v).1 hm))
    have ho : s.out.get? v = none := (get?_eq_none_iff _ _).2 h
    have hog : ∀ a b, FSA.og { s with out := s.out.set v [], inn := s.inn.set v [], graph := s.graph.set v [] } a b = s.og a b := by
      intro a b; simp only [og_def, get?_set]; split <;> simp_all
    have hig : ∀ a b, FSA.ig { s with out := s.out.set v [], inn := s.inn.set v [], graph := s.graph.set v [] } a b = s.ig a b := by
      intro a b; simp only [ig_def, get?_set]; split <;> simp_all
    have hst : ∀ a l, FSA.step { s with out := s.out.set v [], inn := s.inn.set v [], graph := s.graph.set v [] } a l = s.step a l := by
      intro a b; simp only [step_def, get?_set]; split <;> simp_all
    constructor
    · constructor
      · exact nodup_keys_set hs.keys.graph _ _
      · exact nodup_keys_set hs.keys.out _ _
      · exact nodup_keys_set hs.keys.inn _ _
      · intro a row; simp only [get?_set]; split
        · rintro ⟨rfl⟩; simp
        · exact hs.keys.graphRow a row
      · intro a row; simp only [get?_set]; split
        · rintro ⟨rfl⟩; simp
        · exact hs.keys.outRow a row
      · intro a row; simp only [get?_set]; split
        · rintro ⟨rfl⟩; simp
        · exact hs.keys.innRow a row
    · intro a; simp only [mem_keys_set, hs.verts a]
    · intro a; simp only [mem_keys_set, hs.innVerts a]
    · intro a b; rw [hog, hig]; exact hs.io a b
    · intro a l b; rw [hst]; simp only [hog]; exact hs.label a l b
    · intro a b ls; rw [hog]; exact hs.nodup a b ls
    · intro a b ls; rw [hog]; simp only [mem_keys_set]; intro h; exact Or.inr (hs.closed a b ls h)

/-- `s'` is `s` with the label `l` appended to the entry `tail → head` of all three views -/
structure AddsLabel (s s' : FSA V L) (tail head : V) (l : L) : Prop where
  og : ∀ a b, s'.og a b = if a = tail ∧ b = head then some ((s.og tail head).getD [] ++ [l]) else s.og a b
  ig : ∀ b a, s'.ig b a = if a = tail ∧ b = head then some ((s.og tail head).getD [] ++ [l]) else s.ig b a
  step : ∀ a l', s'.step a l' = if a = tail ∧ l' = l then some head else s.step a l'
  keysOut : ∀ a, a ∈ s'.out.keys ↔ a ∈ s.out.keys
  keysGraph : ∀ a, a ∈ s'.graph.keys ↔ a ∈ s.graph.keys
  keysInn : ∀ a, a ∈ s'.inn.keys ↔ a ∈ s.inn.keys ∨ a = head
  nodup : KeysNodup s'
  starts : s'.starts = s.starts

theorem addLabel_fresh {s : FSA V L} (hs : s.Coherent) {tail head : V} (ht : tail ∈ s.out.keys)
    (l : L) (ir : Bool) (hl : l ∉ (s.og tail head).getD [])
    (hnc : ∀ w, s.step tail l = some w → w = head) :
    ∃ s', addLabel ir tail head s l = .ok s' ∧ AddsLabel s s' tail head l := by
  obtain ⟨row, hrow⟩ := (mem_keys_iff _ _).1 ht
  obtain ⟨grow, hgrow⟩ := (mem_keys_iff _ _).1 ((hs.verts tail).2 ht)
  have hchk : (grow.get? l).getD head = head := by
    cases hg : grow.get? l with
    | none => rfl
    | some w => exact hnc w (by rw [step_def, hgrow]; exact hg)
  have hio := hs.io tail head
  cases hlab : row.get? head with
  | some labs =>
    have hog : s.og tail head = some labs := by simp [og_def, hrow, hlab]
    rw [hog] at hl hio
    simp only [Option.getD_some] at hl
    have hc : row.contains head = true := (contains_iff _ _).2 ((mem_keys_iff _ _).2 ⟨labs, hlab⟩)
    obtain ⟨irow, hirow, hilab⟩ : ∃ irow, s.inn.get? head = some irow ∧ irow.get? tail = some labs := by
      rw [ig_def] at hio
      cases hi : s.inn.get? head with
      | none => simp [hi] at hio
      | some irow => exact ⟨irow, rfl, by simpa [hi] using hio.symm⟩
    refine @Exists.intro _ _ ?stA (And.intro ?eA ?cA)
    case eA =>
      simp only [addLabel, Dict.get, hgrow, hchk, ne_eq, not_true_eq_false, if_false, hrow, hc, if_true, bind, Except.bind, hlab, hl, decide_false,
        Bool.and_false, Bool.false_eq_true, if_false, Dict.getOr, hirow, Option.getD_some, hilab, hgrow,
        pure, Except.pure]
      rfl
    case cA =>
      constructor
      · intro a b; rw [hog]; simp only [og_def, get?_set, Option.getD_some]; grind [get?_set, get?_nil]
      · intro b a; rw [hog]; simp only [ig_def, get?_set, Option.getD_some]; grind [get?_set, get?_nil]
      · intro a l'; simp only [step_def, get?_set]; grind [get?_set, get?_nil]
      · intro a; simp only [mem_keys_set]; grind
      · intro a; simp only [mem_keys_set]; grind [mem_keys_iff]
      · intro a; simp only [mem_keys_set]; grind [mem_keys_iff]
      · constructor
        · exact nodup_keys_set hs.keys.graph _ _
        · exact nodup_keys_set hs.keys.out _ _
        · exact nodup_keys_set hs.keys.inn _ _
        · intro a r; simp only [get?_set]; split
          · rintro ⟨rfl⟩; exact nodup_keys_set (hs.keys.graphRow _ _ hgrow) _ _
          · exact hs.keys.graphRow a r
        · intro a r; simp only [get?_set]; split
          · rintro ⟨rfl⟩; exact nodup_keys_set (hs.keys.outRow _ _ hrow) _ _
          · exact hs.keys.outRow a r
        · intro a r; simp only [get?_set]; split
          · rintro ⟨rfl⟩; exact nodup_keys_set (hs.keys.innRow _ _ hirow) _ _
          · exact hs.keys.innRow a r
      · rfl
  | none =>
    have hog : s.og tail head = none := by simp [og_def, hrow, hlab]
    rw [hog] at hio
    have hc : row.contains head = false := by
      cases hc : row.contains head
      · rfl
      · obtain ⟨x, hx⟩ := (mem_keys_iff _ _).1 ((contains_iff _ _).1 hc); simp [hx] at hlab
    have hirow : ∀ irow, s.inn.get? head = some irow → irow.get? tail = none := by
      intro irow hi; rw [ig_def, hi] at hio; simpa using hio.symm
    refine @Exists.intro _ _ ?stB (And.intro ?eB ?cB)
    case eB =>
      simp only [addLabel, Dict.get, hgrow, hchk, ne_eq, not_true_eq_false, hrow, hc, Bool.false_eq_true, if_false, bind, Except.bind, get?_set,
        if_true, List.not_mem_nil, decide_false, Bool.and_false, Dict.getOr, Option.getD_some, hgrow,
        pure, Except.pure, List.nil_append]
      rfl
    case cB =>
      constructor
      · intro a b; rw [hog]; simp only [og_def, get?_set, Option.getD_none, List.nil_append]; grind [get?_set, get?_nil]
      · intro b a; rw [hog]; simp only [ig_def, get?_set, Option.getD_none, List.nil_append, Dict.getOr]
        cases hi : s.inn.get? head with
        | none => grind [get?_set, get?_nil]
        | some irow => have := hirow irow hi; grind [get?_set, get?_nil]
      · intro a l'; simp only [step_def, get?_set]; grind [get?_set, get?_nil]
      · intro a; simp only [mem_keys_set]; grind
      · intro a; simp only [mem_keys_set]; grind [mem_keys_iff]
      · intro a; simp only [mem_keys_set]; grind [mem_keys_iff]
      · constructor
        · exact nodup_keys_set hs.keys.graph _ _
        · exact nodup_keys_set (nodup_keys_set hs.keys.out _ _) _ _
        · exact nodup_keys_set (nodup_keys_set hs.keys.inn _ _) _ _
        · intro a r; simp only [get?_set]; split
          · rintro ⟨rfl⟩; exact nodup_keys_set (hs.keys.graphRow _ _ hgrow) _ _
          · exact hs.keys.graphRow a r
        · intro a r; simp only [get?_set]; split
          · rintro ⟨rfl⟩; exact nodup_keys_set (nodup_keys_set (hs.keys.outRow _ _ hrow) _ _) _ _
          · exact hs.keys.outRow a r
        · intro a r; simp only [get?_set]; split
          · rintro ⟨rfl⟩
            apply nodup_keys_set; apply nodup_keys_set
            cases hi : s.inn.get? head with
            | none => simp
            | some irow => simpa using hs.keys.innRow _ _ hi
          · exact hs.keys.innRow a r
      · rfl


/-! ### `add_vertices`: remaining facts -/

theorem og_addVertex {s : FSA V L} (hs : s.Coherent) (v a b : V) : (s.addVertex v).og a b = s.og a b := by
  by_cases h : v ∈ s.out.keys
  · rw [addVertex_of_mem h]
  · rw [addVertex_of_not_mem h]
    have ho : s.out.get? v = none := (get?_eq_none_iff _ _).2 h
    simp only [og_def, get?_set]; split <;> simp_all

theorem step_addVertex {s : FSA V L} (hs : s.Coherent) (v a : V) (l : L) :
    (s.addVertex v).step a l = s.step a l := by
  by_cases h : v ∈ s.out.keys
  · rw [addVertex_of_mem h]
  · rw [addVertex_of_not_mem h]
    have hg : s.graph.get? v = none := (get?_eq_none_iff _ _).2 (fun hm => h ((hs.verts v).1 hm))
    simp only [step_def, get?_set]; split <;> simp_all

theorem mem_keys_addVertex (s : FSA V L) (v a : V) :
    a ∈ (s.addVertex v).out.keys ↔ a ∈ s.out.keys ∨ a = v := by
  by_cases h : v ∈ s.out.keys
  · rw [addVertex_of_mem h]; constructor
    · exact Or.inl
    · rintro (h' | rfl) <;> assumption
  · rw [addVertex_of_not_mem h]; simp only [mem_keys_set]; exact or_comm

theorem starts_addVertex (s : FSA V L) (v : V) : (s.addVertex v).starts = s.starts := by
  unfold addVertex; split <;> rfl

theorem noEmpty_addVertex {s : FSA V L} (hs : s.Coherent) (hn : s.NoEmpty) (v : V) :
    (s.addVertex v).NoEmpty := by
  intro a b ls; rw [og_addVertex hs]; exact hn a b ls

theorem wf_addVertex {s : FSA V L} (hs : s.WF) (v : V) : (s.addVertex v).WF :=
  ⟨coherent_addVertex hs.1 v, noEmpty_addVertex hs.1 hs.2 v⟩

theorem abs_addVertex {s : FSA V L} (hs : s.Coherent) (v : V) :
    (s.addVertex v).abs = s.abs.addVertices [v] := by
  apply SetFSA.ext'
  · intro a; simp [abs, SetFSA.addVertices, mem_keys_addVertex]
  · intro a l b; simp [abs, SetFSA.addVertices, step_addVertex hs]

theorem wf_addVertices {s : FSA V L} (hs : s.WF) (vs : List V) : (s.addVertices vs).WF := by
  induction vs generalizing s with
  | nil => exact hs
  | cons v vs ih => exact ih (wf_addVertex hs v)

theorem abs_addVertices {s : FSA V L} (hs : s.WF) (vs : List V) :
    (s.addVertices vs).abs = s.abs.addVertices vs := by
  induction vs generalizing s with
  | nil => apply SetFSA.ext' <;> simp [addVertices, SetFSA.addVertices]
  | cons v vs ih =>
    show ((s.addVertex v).addVertices vs).abs = _
    rw [ih (wf_addVertex hs v), abs_addVertex hs.1]
    apply SetFSA.ext' <;> simp [SetFSA.addVertices, or_assoc]

theorem starts_addVertices (s : FSA V L) (vs : List V) : (s.addVertices vs).starts = s.starts := by
  induction vs generalizing s with
  | nil => rfl
  | cons v vs ih => show ((s.addVertex v).addVertices vs).starts = _; rw [ih, starts_addVertex]

theorem mem_keys_addVertices (s : FSA V L) (vs : List V) (a : V) :
    a ∈ (s.addVertices vs).out.keys ↔ a ∈ s.out.keys ∨ a ∈ vs := by
  induction vs generalizing s with
  | nil => simp [addVertices]
  | cons v vs ih =>
    show a ∈ ((s.addVertex v).addVertices vs).out.keys ↔ _
    rw [ih, mem_keys_addVertex]; simp [or_assoc]

/-! ### one label: consequences of the closed form -/

/-- the entry `tail → head` lists `l` exactly when the label view sends `(tail, l)` to `head` -/
theorem mem_og_iff_step {s : FSA V L} (hs : s.Coherent) (t h : V) (l : L) :
    l ∈ (s.og t h).getD [] ↔ s.step t l = some h := by
  rw [hs.label]
  cases s.og t h <;> simp

theorem coherent_of_addsLabel {s s' : FSA V L} (hs : s.Coherent) {t h : V} {l : L}
    (H : AddsLabel s s' t h l) (hh : h ∈ s.out.keys)
    (hfresh : l ∉ (s.og t h).getD []) (hnc : ∀ w, s.step t l = some w → w = h) : s'.Coherent := by
  constructor
  · exact H.nodup
  · intro a; rw [H.keysGraph, H.keysOut]; exact hs.verts a
  · intro a; rw [H.keysInn, H.keysOut, hs.innVerts a]
    constructor
    · rintro (h1 | rfl)
      · exact h1
      · exact hh
    · exact Or.inl
  · intro a b; rw [H.og, H.ig]; split
    · rfl
    · exact hs.io a b
  · intro a l' b
    rw [H.step, H.og]
    have hlab := hs.label
    by_cases h1 : a = t ∧ l' = l
    · obtain ⟨rfl, rfl⟩ := h1
      simp only [and_self, if_true, true_and, Option.some.injEq]
      constructor
      · rintro rfl; simp
      · rintro ⟨ls, hls, hm⟩
        by_cases hb : b = h
        · exact hb.symm
        · simp only [hb, if_false] at hls
          exact (hnc b ((hlab a l' b).2 ⟨ls, hls, hm⟩)).symm
    · simp only [h1, if_false]
      rw [hlab]
      by_cases h2 : a = t ∧ b = h
      · obtain ⟨rfl, rfl⟩ := h2
        have hne : l' ≠ l := fun e => h1 ⟨rfl, e⟩
        simp only [and_self, if_true, Option.some.injEq, exists_eq_left', List.mem_append,
          List.mem_singleton, hne, or_false]
        cases s.og a b <;> simp
      · simp only [h2, if_false]
  · intro a b ls; rw [H.og]; split
    · rintro ⟨rfl⟩
      have : ((s.og t h).getD []).Nodup := by
        cases ho : s.og t h with
        | none => simp
        | some l0 => simpa using hs.nodup t h l0 ho
      rw [List.nodup_append]
      exact ⟨this, by simp, by intro x hx y hy; simp at hy; subst hy; rintro rfl; exact hfresh hx⟩
    · exact hs.nodup a b ls
  · intro a b ls; rw [H.og, H.keysOut]; split
    · rename_i h1; intro _; rw [h1.2]; exact hh
    · exact hs.closed a b ls

theorem noEmpty_of_addsLabel {s s' : FSA V L} (hn : s.NoEmpty) {t h : V} {l : L}
    (H : AddsLabel s s' t h l) : s'.NoEmpty := by
  intro a b ls; rw [H.og]; split
  · rintro ⟨rfl⟩; simp
  · exact hn a b ls

theorem abs_of_addsLabel {s s' : FSA V L} {t h : V} {l : L}
    (H : AddsLabel s s' t h l) (ht : t ∈ s.out.keys) (hh : h ∈ s.out.keys)
    (hnc : ∀ w, s.step t l = some w → w = h) : s'.abs = s.abs.addEdge t h l := by
  apply SetFSA.ext'
  · intro a; simp only [abs, SetFSA.addEdge, H.keysOut]
    constructor
    · exact Or.inl
    · rintro (h1 | rfl | rfl) <;> assumption
  · intro a l' b; simp only [abs, SetFSA.addEdge, H.step]
    by_cases h1 : a = t ∧ l' = l
    · obtain ⟨rfl, rfl⟩ := h1
      simp only [and_self, if_true, Option.some.injEq, true_and]
      constructor
      · rintro rfl; exact Or.inr rfl
      · rintro (h2 | rfl)
        · exact (hnc b h2).symm
        · rfl
    · simp only [h1, if_false]
      constructor
      · exact Or.inl
      · rintro (h2 | ⟨rfl, rfl, rfl⟩)
        · exact h2
        · exact absurd ⟨rfl, rfl⟩ h1

theorem addLabel_redundant {s : FSA V L} (hs : s.Coherent) {t h : V} {l : L}
    (hl : l ∈ (s.og t h).getD []) : addLabel true t h s l = .ok s := by
  have hst : s.step t l = some h := (mem_og_iff_step hs t h l).1 hl
  cases ho : s.og t h with
  | none => simp [ho] at hl
  | some labs =>
    rw [ho] at hl; simp only [Option.getD_some] at hl
    rw [og_def] at ho
    cases hrow : s.out.get? t with
    | none => simp [hrow] at ho
    | some row =>
      simp only [hrow, Option.bind_some] at ho
      have hc : row.contains h = true := (contains_iff _ _).2 ((mem_keys_iff _ _).2 ⟨labs, ho⟩)
      rw [step_def] at hst
      cases hg : s.graph.get? t with
      | none => simp [hg] at hst
      | some grow =>
        simp only [hg, Option.bind_some] at hst
        simp [addLabel, Dict.get, hg, hst, hrow, hc, bind, Except.bind, ho, hl, pure, Except.pure]

theorem SetFSA.labelsOK_congr {m m' : SetFSA V L} (he : ∀ v l w, m.edges v l w ↔ m'.edges v l w)
    (ir : Bool) (t h : V) (ls : List L) : SetFSA.LabelsOK ir t h m ls ↔ SetFSA.LabelsOK ir t h m' ls := by
  induction ls generalizing m m' with
  | nil => simp [SetFSA.LabelsOK]
  | cons l ls ih =>
    simp only [SetFSA.LabelsOK, he]
    rw [ih (m := m.addEdge t h l) (m' := m'.addEdge t h l)]
    intro v l' w; simp [SetFSA.addEdge, he]

/-- the per-label loop of `add_edges` on one `(tail, head, labels)`: it succeeds, keeps the invariant
and adds exactly the edges `tail —l→ head`, `l ∈ labels` -/
theorem addLabels_spec {s : FSA V L} (hs : s.WF) {t h : V} (ht : t ∈ s.out.keys) (hh : h ∈ s.out.keys)
    (ir : Bool) (ls : List L) (hok : SetFSA.LabelsOK ir t h s.abs ls) :
    ∃ s', ls.foldlM (addLabel ir t h) s = .ok s' ∧ s'.WF ∧ s'.starts = s.starts ∧
      s'.abs = ls.foldl (fun m l => m.addEdge t h l) s.abs := by
  induction ls generalizing s with
  | nil => exact ⟨s, rfl, hs, rfl, rfl⟩
  | cons l ls ih =>
    obtain ⟨hnc, hnew, hrest⟩ := hok
    have hnc' : ∀ w, s.step t l = some w → w = h := hnc
    by_cases hl : l ∈ (s.og t h).getD []
    · -- already listed: `ignore_redundant` must be on, nothing changes
      have hstep : s.step t l = some h := (mem_og_iff_step hs.1 t h l).1 hl
      have hir : ir = true := by
        cases ir
        · exact absurd hstep (hnew rfl)
        · rfl
      subst hir
      have habs : s.abs.addEdge t h l = s.abs := by
        apply SetFSA.ext'
        · intro a; simp only [abs, SetFSA.addEdge]
          constructor
          · rintro (h1 | rfl | rfl) <;> assumption
          · exact Or.inl
        · intro a l' b; simp only [abs, SetFSA.addEdge]
          constructor
          · rintro (h1 | ⟨rfl, rfl, rfl⟩)
            · exact h1
            · exact hstep
          · exact Or.inl
      rw [habs] at hrest
      obtain ⟨s', h1, h2, h3, h4⟩ := ih hs ht hh hrest
      refine ⟨s', ?_, h2, h3, ?_⟩
      · simp only [List.foldlM_cons, addLabel_redundant hs.1 hl, bind, Except.bind]; exact h1
      · simp only [List.foldl_cons, habs]; exact h4
    · obtain ⟨s1, e1, H⟩ := addLabel_fresh hs.1 ht l ir hl hnc'
      have hc1 : s1.Coherent := coherent_of_addsLabel hs.1 H hh hl hnc'
      have hn1 : s1.NoEmpty := noEmpty_of_addsLabel hs.2 H
      have ha1 : s1.abs = s.abs.addEdge t h l := abs_of_addsLabel H ht hh hnc'
      rw [← ha1] at hrest
      obtain ⟨s', h1, h2, h3, h4⟩ := ih ⟨hc1, hn1⟩ ((H.keysOut t).2 ht) ((H.keysOut h).2 hh) hrest
      refine ⟨s', ?_, h2, by rw [h3, H.starts], ?_⟩
      · simp only [List.foldlM_cons, e1, bind, Except.bind]; exact h1
      · simp only [List.foldl_cons, ← ha1]; exact h4

theorem SetFSA.foldl_addEdge (m : SetFSA V L) (t h : V) (ls : List L) :
    ls.foldl (fun m l => m.addEdge t h l) (m.addVertices [t, h]) = m.addEdgeL t h ls := by
  induction ls generalizing m with
  | nil =>
    apply SetFSA.ext' <;> simp [SetFSA.addVertices, SetFSA.addEdgeL]
  | cons l ls ih =>
    simp only [List.foldl_cons]
    have : (m.addVertices [t, h]).addEdge t h l = (m.addEdge t h l).addVertices [t, h] := by
      apply SetFSA.ext' <;> simp [SetFSA.addVertices, SetFSA.addEdge] <;> grind
    rw [this, ih]
    apply SetFSA.ext' <;> simp [SetFSA.addEdge, SetFSA.addEdgeL] <;> grind

/-- one iteration of the outer loop of `add_edges` -/
theorem addEdge_spec {s : FSA V L} (hs : s.WF) (ir : Bool) (e : V × V × List L)
    (hok : SetFSA.LabelsOK ir e.1 e.2.1 s.abs e.2.2) :
    ∃ s', addEdge ir s e = .ok s' ∧ s'.WF ∧ s'.starts = s.starts ∧
      s'.abs = s.abs.addEdgeL e.1 e.2.1 e.2.2 := by
  obtain ⟨t, h, ls⟩ := e
  have hw := wf_addVertices hs [t, h]
  have ha := abs_addVertices hs [t, h]
  have hok' : SetFSA.LabelsOK ir t h (s.addVertices [t, h]).abs ls := by
    rw [ha]
    refine (SetFSA.labelsOK_congr ?_ ir t h ls).1 hok
    intro v l w; rfl
  obtain ⟨s', h1, h2, h3, h4⟩ := addLabels_spec hw
    ((mem_keys_addVertices s [t, h] t).2 (Or.inr (by simp)))
    ((mem_keys_addVertices s [t, h] h).2 (Or.inr (by simp))) ir ls hok'
  refine ⟨s', h1, h2, by rw [h3, starts_addVertices], ?_⟩
  rw [h4, ha, SetFSA.foldl_addEdge]

/-- `add_edges(edges, elist=True)` -/
theorem addEdgesL_spec {s : FSA V L} (hs : s.WF) (ir : Bool) (es : List (V × V × List L))
    (hok : SetFSA.EdgesLOK ir s.abs es) :
    ∃ s', s.addEdgesL es ir = .ok s' ∧ s'.WF ∧ s'.starts = s.starts ∧ s'.abs = s.abs.addEdgesL es := by
  induction es generalizing s with
  | nil => exact ⟨s, rfl, hs, rfl, rfl⟩
  | cons e es ih =>
    obtain ⟨h1, h2⟩ := hok
    obtain ⟨s1, e1, w1, st1, a1⟩ := addEdge_spec hs ir e h1
    rw [← a1] at h2
    obtain ⟨s', e2, w2, st2, a2⟩ := ih w1 h2
    refine ⟨s', ?_, w2, by rw [st2, st1], ?_⟩
    · simp only [addEdgesL, List.foldlM_cons, e1, bind, Except.bind]; exact e2
    · rw [a2, a1]; rfl

theorem SetFSA.addEdgesL_singletons (m : SetFSA V L) (es : List (V × V × L)) :
    m.addEdgesL (es.map fun e => (e.1, e.2.1, [e.2.2])) = m.addEdges es := by
  induction es generalizing m with
  | nil => rfl
  | cons e es ih =>
    simp only [List.map_cons, SetFSA.addEdgesL, SetFSA.addEdges, List.foldl_cons]
    have : m.addEdgeL e.1 e.2.1 [e.2.2] = m.addEdge e.1 e.2.1 e.2.2 := by
      apply SetFSA.ext' <;> simp [SetFSA.addEdgeL, SetFSA.addEdge]
    rw [this]; exact ih _

/-- `add_edges(edges, elist=False)` -/
theorem addEdges_spec {s : FSA V L} (hs : s.WF) (ir : Bool) (es : List (V × V × L))
    (hok : SetFSA.EdgesLOK ir s.abs (es.map fun e => (e.1, e.2.1, [e.2.2]))) :
    ∃ s', s.addEdges es ir = .ok s' ∧ s'.WF ∧ s'.starts = s.starts ∧ s'.abs = s.abs.addEdges es := by
  obtain ⟨s', h1, h2, h3, h4⟩ := addEdgesL_spec hs ir _ hok
  exact ⟨s', h1, h2, h3, by rw [h4, SetFSA.addEdgesL_singletons]⟩


/-- an edge that contradicts an existing `(tail, label)` is refused: `FSAException`, no new state -/
theorem addLabel_conflict {s : FSA V L} {t h w : V} {l : L} (ir : Bool) (hst : s.step t l = some w) (hne : w ≠ h) :
    addLabel ir t h s l = .error .fsaException := by
  rw [step_def] at hst
  cases hg : s.graph.get? t with
  | none => simp [hg] at hst
  | some grow =>
    simp only [hg, Option.bind_some] at hst
    simp [addLabel, Dict.get, hg, hst, hne, bind, Except.bind, throw, throwThe, MonadExceptOf.throw]

end GT.FSA
