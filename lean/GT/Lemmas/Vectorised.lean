/- helper lemmas: the vectorised last-axis formulas act unit by unit -/
import GT.Model.Vectorised
import GT.Model.Units
import GT.Model.Action
import GT.Lemmas.Obj
import GT.Lemmas.Units
import GT.Model.Charts
import GT.Model.Affine
import GT.Model.ObjState
import Mathlib.Tactic.FinCases
import Mathlib.Data.Fin.Tuple.Basic

set_option linter.unusedSectionVars false
set_option linter.unusedSimpArgs false
set_option linter.unusedVariables false

open Finset BigOperators

namespace GT.Act
open ND

section nd
variable {α : Type} [Inhabited α]

theorem squeezeAxes_pair (a : ND α) (k : ℕ) : a.squeezeAxes [k + 1, k] = (a.squeeze1 (k + 1)).squeeze1 k := by
  have : [k + 1, k].mergeSort (fun x y => decide (y ≤ x)) = [k + 1, k] := by
    simp [List.mergeSort, List.merge]
  simp [squeezeAxes, this]

/-- a broadcasting binary ufunc: shape and entries -/
theorem zipBcast_spec {β γ : Type} [Inhabited β] [Inhabited γ] (f : α → β → γ) (a : ND α) (b : ND β)
    {s : List ℕ} (hs : bcastShape a.shape b.shape = some s) :
    ∃ c, zipBcast f a b = .ok c ∧ c.shape = s ∧
      ∀ ix, Valid s ix → c.get ix = f (a.get (bcIx a.shape ix)) (b.get (bcIx b.shape ix)) := by
  unfold zipBcast
  rw [hs]
  exact ⟨_, rfl, rfl, fun ix hix => get_ofFn _ _ hix⟩

end nd

variable {K : Type} [Field K] [Inhabited K]

/-- `utils.apply_bilinear(v1, v2, form)`: entry `bix` of the result is `x · F · yᵀ` for the units
`x`, `y` of `v1`, `v2` that numpy's broadcasting pairs at `bix` — every outer rank -/
theorem applyBilinear_form_spec (v1 v2 F : ND K) {o1 o2 O : List ℕ} {n : ℕ}
    (h1 : v1.shape = o1 ++ [n]) (h2 : v2.shape = o2 ++ [n]) (hF : F.shape = [n, n])
    (hO : bcastShape o1 o2 = some O) :
    ∃ c, applyBilinear v1 v2 (some F) = .ok c ∧ c.shape = O ∧ c.WF ∧
      ∀ bix, Valid O bix →
        c.get bix = ∑ cc : Fin n, (∑ j : Fin n, v1.get (bcIx o1 bix ++ [j.1]) * F.get [j.1, cc.1]) *
          v2.get (bcIx o2 bix ++ [cc.1]) := by
  -- expand_dims(v1, -2)
  have hr1 : v1.rank - 1 = o1.length := by simp [ND.rank, h1]
  have he1s := shape_expandRange v1 (s := o1) (t := [n]) h1 1
  -- first product
  obtain ⟨I, hI, hIs, hIg⟩ := mp22 .elementwise (v1.expandRange o1.length 1) F (o1 := o1) (o2 := []) (p := 1)
    (n := n) (m := n) (by simpa using he1s) (by simpa using hF) (bcastShape_nil_right o1)
  -- expand_dims(v2, -1)
  have hr2 : v2.rank = (o2 ++ [n]).length := by simp [ND.rank, h2]
  have he2s := shape_expandRange v2 (s := o2 ++ [n]) (t := []) (by simpa using h2) 1
  -- second product
  obtain ⟨P, hP, hPs, hPg⟩ := mp22 .elementwise I (v2.expandRange (o2 ++ [n]).length 1) (o1 := o1) (o2 := o2)
    (p := 1) (n := n) (m := 1) hIs (by simpa using he2s) hO
  have hPrank : P.rank = O.length + 2 := by simp [ND.rank, hPs]
  have hPs1 : P.shape = (O ++ [1]) ++ 1 :: [] := by rw [hPs]; simp
  have hQs := shape_squeeze1 P hPs1
  have hQs' : (P.squeeze1 (O ++ [1]).length).shape = O ++ 1 :: [] := by rw [hQs]; simp
  have hRs := shape_squeeze1 (P.squeeze1 (O ++ [1]).length) hQs'
  refine ⟨(P.squeeze1 (O.length + 1)).squeeze1 O.length, ?_, by simpa using hRs, wf_ofFn _ _, ?_⟩
  · unfold applyBilinear
    simp only [hr1, hr2, hI, hP, bind, Except.bind, pure, Except.pure, hPrank]
    rw [show O.length + 2 - 1 = O.length + 1 from rfl, show O.length + 2 - 2 = O.length from rfl,
      squeezeAxes_pair]
  · intro bix hv
    have g1 := get_squeeze1 (P.squeeze1 (O ++ [1]).length) hQs' (i := bix) (j := []) hv (by simp)
    have g2 := get_squeeze1 P hPs1 (i := bix ++ [0]) (j := []) (hv.append (by simp)) (by simp)
    simp only [List.length_append, List.length_singleton, List.append_nil] at g1 g2
    rw [g1, g2]
    have := hPg bix 0 0 hv (by omega) (by omega)
    simp only [List.append_assoc, List.singleton_append] at this ⊢
    rw [this, sum_map_range]
    apply Finset.sum_congr rfl
    intro cc _
    have hb1 := valid_bcIx_left hO hv
    have hb2 := valid_bcIx_right hO hv
    simp only [unitIx1, unitIx2]
    congr 1
    · rw [hIg (bcIx o1 bix) 0 cc.1 hb1 (by omega) cc.2, sum_map_range]
      apply Finset.sum_congr rfl
      intro j _
      simp only [unitIx1, unitIx2, bcIx_self hb1, bcIx_nil, List.nil_append]
      congr 1
      have := get_expandRange v1 (s := o1) (t := [n]) h1 1 (i := bcIx o1 bix) (j := [j.1]) hb1 (by simpa using j.2)
      simpa using this
    · have := get_expandRange v2 (s := o2 ++ [n]) (t := []) (by simpa using h2) 1
        (i := bcIx o2 bix ++ [cc.1]) (j := []) (hb2.append (by simpa using cc.2)) (by simp)
      simpa using this

/-- … in Mathlib's vocabulary: `x ⬝ᵥ F *ᵥ y` -/
theorem applyBilinear_form_units (v1 v2 F : ND K) {o1 o2 O : List ℕ} {n : ℕ}
    (h1 : v1.shape = o1 ++ [n]) (h2 : v2.shape = o2 ++ [n]) (hF : F.shape = [n, n])
    (hO : bcastShape o1 o2 = some O) :
    ∃ c, applyBilinear v1 v2 (some F) = .ok c ∧ c.shape = O ∧
      ∀ bix, Valid O bix →
        scalarAt c bix = bil (matAt F n n []) (rowAt v1 n (bcIx o1 bix)) (rowAt v2 n (bcIx o2 bix)) := by
  obtain ⟨c, hc, hs, _, hg⟩ := applyBilinear_form_spec v1 v2 F h1 h2 hF hO
  refine ⟨c, hc, hs, fun bix hv => ?_⟩
  rw [scalarAt, hg bix hv, bil, Matrix.dotProduct_mulVec]
  simp [dotProduct, Matrix.vecMul, rowAt, matAt]

/-- `utils.apply_bilinear(v1, v2)` / `normsq` with the Euclidean form -/
theorem applyBilinear_none_spec (v1 v2 : ND K) {o1 o2 O : List ℕ} {n : ℕ}
    (h1 : v1.shape = o1 ++ [n]) (h2 : v2.shape = o2 ++ [n]) (hO : bcastShape o1 o2 = some O) :
    ∃ c, applyBilinear v1 v2 none = .ok c ∧ c.shape = O ∧ c.WF ∧
      ∀ bix, Valid O bix →
        c.get bix = ∑ cc : Fin n, v1.get (bcIx o1 bix ++ [cc.1]) * v2.get (bcIx o2 bix ++ [cc.1]) := by
  have hr1 : v1.rank - 1 = o1.length := by simp [ND.rank, h1]
  have he1s := shape_expandRange v1 (s := o1) (t := [n]) h1 1
  have hr2 : v2.rank = (o2 ++ [n]).length := by simp [ND.rank, h2]
  have he2s := shape_expandRange v2 (s := o2 ++ [n]) (t := []) (by simpa using h2) 1
  obtain ⟨P, hP, hPs, hPg⟩ := mp22 .elementwise (v1.expandRange o1.length 1)
    (v2.expandRange (o2 ++ [n]).length 1) (o1 := o1) (o2 := o2)
    (p := 1) (n := n) (m := 1) (by simpa using he1s) (by simpa using he2s) hO
  have hPrank : P.rank = O.length + 2 := by simp [ND.rank, hPs]
  have hPs1 : P.shape = (O ++ [1]) ++ 1 :: [] := by rw [hPs]; simp
  have hQs := shape_squeeze1 P hPs1
  have hQs' : (P.squeeze1 (O ++ [1]).length).shape = O ++ 1 :: [] := by rw [hQs]; simp
  have hRs := shape_squeeze1 (P.squeeze1 (O ++ [1]).length) hQs'
  refine ⟨(P.squeeze1 (O.length + 1)).squeeze1 O.length, ?_, by simpa using hRs, wf_ofFn _ _, ?_⟩
  · unfold applyBilinear
    simp only [hr1, hr2, hP, bind, Except.bind, pure, Except.pure, hPrank]
    rw [show O.length + 2 - 1 = O.length + 1 from rfl, show O.length + 2 - 2 = O.length from rfl,
      squeezeAxes_pair]
  · intro bix hv
    have g1 := get_squeeze1 (P.squeeze1 (O ++ [1]).length) hQs' (i := bix) (j := []) hv (by simp)
    have g2 := get_squeeze1 P hPs1 (i := bix ++ [0]) (j := []) (hv.append (by simp)) (by simp)
    simp only [List.length_append, List.length_singleton, List.append_nil] at g1 g2
    rw [g1, g2]
    have := hPg bix 0 0 hv (by omega) (by omega)
    simp only [List.append_assoc, List.singleton_append] at this ⊢
    rw [this, sum_map_range]
    apply Finset.sum_congr rfl
    intro cc _
    have hb1 := valid_bcIx_left hO hv
    have hb2 := valid_bcIx_right hO hv
    simp only [unitIx1, unitIx2]
    congr 1
    · have := get_expandRange v1 (s := o1) (t := [n]) h1 1 (i := bcIx o1 bix) (j := [cc.1]) hb1 (by simpa using cc.2)
      simpa using this
    · have := get_expandRange v2 (s := o2 ++ [n]) (t := []) (by simpa using h2) 1
        (i := bcIx o2 bix ++ [cc.1]) (j := []) (hb2.append (by simpa using cc.2)) (by simp)
      simpa using this

/-! ### the `(x.T * f.T).T` idiom and the chart maps built on it -/

theorem bcastShape_self (o : List ℕ) : bcastShape o o = some o := by
  rw [bcastShape_same_length rfl, bcastZip_self]

theorem bcastShape_cons_self (d : ℕ) (s : List ℕ) : bcastShape (d :: s) s = some (d :: s) := by
  unfold bcastShape
  have h1 : max (d :: s).length s.length = s.length + 1 := by simp
  simp only [h1]
  rw [padTo_of_length (by simp)]
  have : padTo (s.length + 1) s = 1 :: s := by simp [padTo]
  rw [this]
  simp [bcastZip, bcastZip_self]

theorem get_map_of_wf {β : Type} [Inhabited β] (g : K → β) (a : ND K) (hwf : a.WF) {ix : List ℕ}
    (hix : Valid a.shape ix) : (a.map g).get ix = g (a.get ix) := by
  have hlt : flatIx a.shape ix < a.data.size := by rw [hwf]; exact flatIx_lt hix
  simp [ND.get, ND.map, Array.getD, hlt]

/-- `(x.T * f.T).T` with one scalar per unit (`f` of the composite shape, or of shape `(1,)` for a
single unit after `atleast_1d`) scales every unit by its scalar -/
theorem scaleLast_spec (x f : ND K) {o : List ℕ} {n : ℕ} (hx : x.shape = o ++ [n])
    (hf : f.shape = if o = [] then [1] else o) :
    ∃ c, scaleLast x f = .ok c ∧ c.shape = o ++ [n] ∧
      ∀ i cc, Valid o i → cc < n →
        c.get (i ++ [cc]) = x.get (i ++ [cc]) * f.get (if o = [] then [0] else i) := by
  have hxT : x.T.shape = n :: o.reverse := by simp [hx]
  by_cases ho : o = []
  · subst ho
    simp only [if_true] at hf ⊢
    have hfT : f.T.shape = [1] := by simp [hf]
    have hb : bcastShape x.T.shape f.T.shape = some [n] := by
      rw [hxT, hfT]
      simp [bcastShape, padTo, bcastZip]
    obtain ⟨p, hp, hps, hpg⟩ := zipBcast_spec (· * ·) x.T f.T hb
    refine ⟨p.T, by simp [scaleLast, hp], by simp [hps], ?_⟩
    intro i cc hi hcc
    have : i = [] := valid_nil_iff.1 hi
    subst this
    have e : ([] ++ [cc] : List ℕ) = [cc].reverse := by simp
    rw [e, get_T_rev p (by rw [hps]; simpa using hcc), hpg [cc] (by simpa using hcc), hxT, hfT]
    have e1 : bcIx (n :: ([] : List ℕ).reverse) [cc] = [cc] := bcIx_self (by simpa using hcc)
    have e2 : bcIx [1] [cc] = [0] := by simp [bcIx]
    rw [e1, e2]
    have g1 := get_T_rev x (ix := [cc]) (by rw [hx]; simpa using hcc)
    have g2 := get_T_rev f (ix := [0]) (by rw [hf]; simp)
    simp only [List.reverse_cons, List.reverse_nil, List.nil_append] at g1 g2
    simp only [List.reverse_nil, List.nil_append, List.reverse_cons]
    rw [g1, g2]
  · simp only [ho, if_false] at hf ⊢
    have hfT : f.T.shape = o.reverse := by simp [hf]
    have hb : bcastShape x.T.shape f.T.shape = some (n :: o.reverse) := by
      rw [hxT, hfT]; exact bcastShape_cons_self n o.reverse
    obtain ⟨p, hp, hps, hpg⟩ := zipBcast_spec (· * ·) x.T f.T hb
    refine ⟨p.T, by simp [scaleLast, hp], by simp [hps], ?_⟩
    intro i cc hi hcc
    have hvr : Valid (n :: o.reverse) (cc :: i.reverse) := ⟨hcc, valid_reverse.2 hi⟩
    have e : i ++ [cc] = (cc :: i.reverse).reverse := by simp
    rw [e, get_T_rev p (by rw [hps]; exact hvr), hpg _ hvr, hxT, hfT]
    have e1 : bcIx (n :: o.reverse) (cc :: i.reverse) = cc :: i.reverse := bcIx_self hvr
    have e2 : bcIx o.reverse (cc :: i.reverse) = i.reverse := by
      have hl : (cc :: i.reverse).length - o.reverse.length = 1 := by simp [hi.length]
      unfold bcIx
      rw [hl]
      simp only [List.drop_succ_cons, List.drop_zero]
      have := bcIx_self (valid_reverse.2 hi)
      unfold bcIx at this
      simpa [hi.length] using this
    rw [e1, e2]
    have g1 := get_T_rev x (ix := i ++ [cc]) (by rw [hx]; exact hi.append (by simpa using hcc))
    have g2 := get_T_rev f (ix := i) (by rw [hf]; exact hi)
    simp only [List.reverse_append, List.reverse_cons, List.reverse_nil, List.nil_append,
      List.singleton_append] at g1
    rw [g1, g2]
    simp

theorem atleast1d_spec (a : ND K) {o : List ℕ} (hs : a.shape = o) (hwf : a.WF) :
    (atleast1d a).shape = (if o = [] then [1] else o) ∧ (atleast1d a).WF ∧
      ∀ i, Valid o i → (atleast1d a).get (if o = [] then [0] else i) = a.get i := by
  by_cases ho : o = []
  · subst ho
    have : atleast1d a = ⟨[1], a.data⟩ := by simp [atleast1d, hs]
    rw [this]
    refine ⟨by simp, by simpa [ND.WF, hs, sz] using hwf, fun i hi => ?_⟩
    have : i = [] := valid_nil_iff.1 hi
    subst this
    simp [ND.get, flatIx, hs, sz]
  · have : atleast1d a = a := by simp [atleast1d, hs, ho]
    rw [this]
    exact ⟨by simp [ho, hs], hwf, fun i _ => by simp [ho]⟩

/-- `normsq` at unit level -/
theorem normsq_units (x : ND K) {o : List ℕ} {n : ℕ} (hx : x.shape = o ++ [n]) :
    ∃ nn, normsqND x = .ok nn ∧ nn.shape = o ∧ nn.WF ∧ ∀ i, Valid o i → nn.get i = nsq (rowAt x n i) := by
  obtain ⟨c, hc, hs, hwf, hg⟩ := applyBilinear_none_spec x x hx hx (bcastShape_self o)
  refine ⟨c, hc, hs, hwf, fun i hi => ?_⟩
  rw [hg i hi, bcIx_self hi]
  simp [nsq, dot, rowAt]

/-- **lifting** of `poincare_to_kleinian`: unit `i` of the vectorised result is `p2k` of unit `i` -/
theorem p2kND_units (x : ND K) {o : List ℕ} {n : ℕ} (hx : x.shape = o ++ [n]) :
    ∃ c, p2kND x = .ok c ∧ c.shape = x.shape ∧ ∀ i, Valid o i → rowAt c n i = p2k (rowAt x n i) := by
  obtain ⟨nn, hnn, hns, hnwf, hng⟩ := normsq_units x hx
  obtain ⟨h1s, h1wf, h1g⟩ := atleast1d_spec nn hns hnwf
  have hfs : ((atleast1d nn).map fun a => 2 / (1 + a)).shape = if o = [] then [1] else o := h1s
  obtain ⟨c, hc, hcs, hcg⟩ := scaleLast_spec x _ hx hfs
  refine ⟨c, by simp [p2kND, hnn, hc], by rw [hcs, hx], fun i hi => ?_⟩
  funext cc
  simp only [rowAt, p2k]
  rw [hcg i cc.1 hi cc.2]
  have hv : Valid (atleast1d nn).shape (if o = [] then [0] else i) := by
    rw [h1s]; by_cases ho : o = [] <;> simp [ho, hi]
  rw [get_map_of_wf _ _ h1wf hv, h1g i hi, hng i hi]

/-- **lifting** of `kleinian_to_poincare` (`rabs = √|·|` supplied) -/
theorem k2pND_units [LinearOrder K] (r : K → K) (x : ND K) {o : List ℕ} {n : ℕ} (hx : x.shape = o ++ [n]) :
    ∃ c, k2pND (fun a => r |a|) x = .ok c ∧ c.shape = x.shape ∧
      ∀ i, Valid o i → rowAt c n i = k2p r (rowAt x n i) := by
  obtain ⟨nn, hnn, hns, hnwf, hng⟩ := normsq_units x hx
  obtain ⟨h1s, h1wf, h1g⟩ := atleast1d_spec nn hns hnwf
  have hfs : ((atleast1d nn).map fun a => 1 / (1 + (fun a => r |a|) (1 - a))).shape =
      if o = [] then [1] else o := h1s
  obtain ⟨c, hc, hcs, hcg⟩ := scaleLast_spec x _ hx hfs
  refine ⟨c, by simp only [k2pND, hnn]; exact hc, by rw [hcs, hx], fun i hi => ?_⟩
  funext cc
  simp only [rowAt, k2p]
  rw [hcg i cc.1 hi cc.2]
  have hv : Valid (atleast1d nn).shape (if o = [] then [0] else i) := by
    rw [h1s]; by_cases ho : o = [] <;> simp [ho, hi]
  rw [get_map_of_wf _ _ h1wf hv, h1g i hi, hng i hi]

/-- **lifting** of `utils.normalize`: the new value of the caller's array has, at unit `i`, the
normalised unit `i` (null rows untouched) — for every composite rank -/
theorem normalizeLit_units [DecidableEq K] (rabs : K → K) (v F : ND K) {o : List ℕ} {n : ℕ}
    (hv : v.shape = o ++ [n]) (hF : F.shape = [n, n]) :
    ∃ c, normalizeLit rabs v F = .ok c ∧ c.shape = v.shape ∧
      ∀ i, Valid o i → rowAt c n i = normalizeRowF rabs (matAt F n n []) (rowAt v n i) := by
  obtain ⟨sq, hsq, hsqs, hsqwf, hsqg⟩ := applyBilinear_form_spec v v F hv hv hF (bcastShape_self o)
  have hmaps : (sq.map rabs).shape = o ++ [] := by
    show sq.shape = o ++ []
    simpa using hsqs
  have hds := shape_expandRange (sq.map rabs) (s := o) (t := []) hmaps 1
  have hrank : sq.rank = o.length := by simp [ND.rank, hsqs]
  have hb : bcastShape v.shape ((sq.map rabs).expandRange o.length 1).shape = some (o ++ [n]) := by
    rw [hv, hds]
    simp only [List.append_nil, List.replicate_one]
    rw [bcastShape_same_length (by simp), bcastZip_append rfl, bcastZip_self]
    simp [bcastZip]
  obtain ⟨c, hc, hcs, hcg⟩ := zipBcast_spec (fun x y => if y = 0 then x else x / y) v
    ((sq.map rabs).expandRange o.length 1) hb
  refine ⟨c, by simp only [normalizeLit, hsq, hrank]; exact hc, by rw [hcs, hv], fun i hi => ?_⟩
  have hsqi : sq.get i = bil (matAt F n n []) (rowAt v n i) (rowAt v n i) := by
    rw [hsqg i hi, bcIx_self hi, bil, Matrix.dotProduct_mulVec]
    simp [dotProduct, Matrix.vecMul, rowAt, matAt]
  have hd : ((sq.map rabs).expandRange o.length 1).get (i ++ [0]) = rabs (sq.get i) := by
    have := get_expandRange (sq.map rabs) (s := o) (t := []) hmaps 1 (i := i) (j := []) hi (by simp)
    simp only [List.replicate_one, List.append_nil] at this
    rw [this, get_map_of_wf rabs sq hsqwf (by rw [hsqs]; exact hi)]
  funext cc
  have hvi : Valid (o ++ [n]) (i ++ [cc.1]) := hi.append (by simpa using cc.2)
  simp only [rowAt]
  rw [hcg _ hvi, hv, hds]
  simp only [List.append_nil, List.replicate_one]
  rw [bcIx_self hvi, bcIx_append (by simp [hi.length]) (by simp), bcIx_self hi]
  have : bcIx [1] [cc.1] = [0] := by simp [bcIx]
  rw [this, hd, hsqi]
  unfold normalizeRowF
  by_cases h0 : rabs (bil (matAt F n n []) (rowAt v n i) (rowAt v n i)) = 0
  · simp [h0, rowAt]
  · simp [h0, rowAt]

/-! ### half-space charts -/

/-- **lifting** of `poincare_to_halfspace` -/
theorem p2hND_units (x : ND K) {o : List ℕ} {n : ℕ} (hx : x.shape = o ++ [n + 1]) :
    ∃ c, p2hND x = .ok c ∧ c.shape = x.shape ∧ ∀ i, Valid o i → rowAt c (n + 1) i = p2h (rowAt x (n + 1) i) := by
  have hlast : x.shape.getLastD 0 = n + 1 := by rw [hx]; simp
  have hys := shape_selectLast x hx 0
  have hvs := shape_sliceLast x hx 1 (n + 1)
  simp only [Nat.add_sub_cancel] at hvs
  obtain ⟨x2, hx2, hx2s, hx2wf, hx2g⟩ := normsq_units (x.sliceLast 1 (n + 1)) hvs
  obtain ⟨den, hden, hdens, hdenwf, hdeng⟩ :=
    zipBcast_same (fun a t => a + (t - 1) * (t - 1)) x2 (x.selectLast 0) hx2s hys
  obtain ⟨num, hnum, hnums, hnumwf, hnumg⟩ :=
    zipBcast_same (fun a t => 1 - a - t * t) x2 (x.selectLast 0) hx2s hys
  have hvwf : (x.sliceLast 1 (n + 1)).WF := wf_ofFn _ _
  obtain ⟨A, hA, hAs, _, hAg⟩ := zipBcast_lastcol (· / ·) ((x.sliceLast 1 (n + 1)).map fun t => -2 * t) den
    (o := o) (m := n) hvs hdens
  obtain ⟨B, hB, hBs, _, hBg⟩ := zipBcast_same (· / ·) num den hnums hdens
  refine ⟨((full x.shape (0 : K)).setLastSlice 0 (n + 1 - 1) A).setLastIndex (n + 1 - 1) B,
    by simp only [p2hND, hlast, hx2, hden, hnum, hA, hB], by simp [setLastIndex, setLastSlice, full], ?_⟩
  intro i hi
  have hfull : (full x.shape (0 : K)).shape = o ++ [n + 1] := by simp [full, hx]
  have hss : ((full x.shape (0 : K)).setLastSlice 0 (n + 1 - 1) A).shape = o ++ [n + 1] := by
    simp [setLastSlice, full, hx]
  have hy : (x.selectLast 0).get i = rowAt x (n + 1) i 0 := by
    rw [get_selectLast x hx 0 hi]; rfl
  have htail : rowAt (x.sliceLast 1 (n + 1)) n i = Fin.tail (rowAt x (n + 1) i) := by
    funext k
    simp only [rowAt, Fin.tail]
    rw [get_sliceLast x hx 1 (n + 1) hi (by simpa using k.2)]
    rfl
  funext j
  refine Fin.lastCases ?_ (fun k => ?_) j
  · simp only [rowAt, Fin.val_last, p2h, Fin.snoc_last]
    rw [get_setLastIndex _ B hss (n + 1 - 1) hi (by omega)]
    simp only [Nat.add_sub_cancel, if_true]
    rw [hBg i hi, hnumg i hi, hdeng i hi, hx2g i hi, hy, htail]
    rfl
  · simp only [rowAt, Fin.val_castSucc, p2h, Fin.snoc_castSucc]
    rw [get_setLastIndex _ B hss (n + 1 - 1) hi (by omega)]
    have hk : ¬ (k.1 = n + 1 - 1) := by have := k.2; omega
    rw [if_neg hk, get_setLastSlice _ A hfull 0 (n + 1 - 1) hi (by omega)]
    have hk2 : 0 ≤ k.1 ∧ k.1 < n + 1 - 1 := ⟨Nat.zero_le _, by simpa using k.2⟩
    rw [if_pos hk2, Nat.sub_zero, hAg i k.1 hi k.2,
      get_map_wf _ _ hvwf (by rw [hvs]; exact hi.append (by simpa using k.2)),
      hdeng i hi, hx2g i hi, hy, htail]
    have : (x.sliceLast 1 (n + 1)).get (i ++ [k.1]) = Fin.tail (rowAt x (n + 1) i) k := by
      rw [← htail]; rfl
    rw [this]
    rfl

/-- **lifting** of `halfspace_to_poincare` -/
theorem h2pND_units (x : ND K) {o : List ℕ} {n : ℕ} (hx : x.shape = o ++ [n + 1]) :
    ∃ c, h2pND x = .ok c ∧ c.shape = x.shape ∧ ∀ i, Valid o i → rowAt c (n + 1) i = h2p (rowAt x (n + 1) i) := by
  have hlast : x.shape.getLastD 0 = n + 1 := by rw [hx]; simp
  have hys := shape_selectLast x hx (n + 1 - 1)
  have hvs : (x.sliceLast 0 (n + 1 - 1)).shape = o ++ [n] := by
    have := shape_sliceLast x hx 0 (n + 1 - 1)
    simpa using this
  obtain ⟨x2, hx2, hx2s, hx2wf, hx2g⟩ := normsq_units (x.sliceLast 0 (n + 1 - 1)) hvs
  obtain ⟨den, hden, hdens, hdenwf, hdeng⟩ :=
    zipBcast_same (fun a t => a + (t + 1) * (t + 1)) x2 (x.selectLast (n + 1 - 1)) hx2s hys
  obtain ⟨num, hnum, hnums, hnumwf, hnumg⟩ :=
    zipBcast_same (fun a t => a + t * t - 1) x2 (x.selectLast (n + 1 - 1)) hx2s hys
  have hvwf : (x.sliceLast 0 (n + 1 - 1)).WF := wf_ofFn _ _
  obtain ⟨A, hA, hAs, _, hAg⟩ := zipBcast_lastcol (· / ·) ((x.sliceLast 0 (n + 1 - 1)).map fun t => -2 * t) den
    (o := o) (m := n) hvs hdens
  obtain ⟨B, hB, hBs, _, hBg⟩ := zipBcast_same (· / ·) num den hnums hdens
  refine ⟨((full x.shape (0 : K)).setLastSlice 1 (n + 1) A).setLastIndex 0 B,
    by simp only [h2pND, hlast, hx2, hden, hnum, hA, hB], by simp [setLastIndex, setLastSlice, full], ?_⟩
  intro i hi
  have hfull : (full x.shape (0 : K)).shape = o ++ [n + 1] := by simp [full, hx]
  have hss : ((full x.shape (0 : K)).setLastSlice 1 (n + 1) A).shape = o ++ [n + 1] := by
    simp [setLastSlice, full, hx]
  have hy : (x.selectLast (n + 1 - 1)).get i = rowAt x (n + 1) i (Fin.last n) := by
    rw [get_selectLast x hx _ hi]; rfl
  have hinit : rowAt (x.sliceLast 0 (n + 1 - 1)) n i = Fin.init (rowAt x (n + 1) i) := by
    funext k
    simp only [rowAt, Fin.init]
    rw [get_sliceLast x hx 0 (n + 1 - 1) hi (by simpa using k.2)]
    rfl
  funext j
  refine Fin.cases ?_ (fun k => ?_) j
  · simp only [rowAt, Fin.val_zero, h2p, Fin.cons_zero]
    rw [get_setLastIndex _ B hss 0 hi (by omega)]
    simp only [if_true]
    rw [hBg i hi, hnumg i hi, hdeng i hi, hx2g i hi, hy, hinit]
    rfl
  · simp only [rowAt, Fin.val_succ, h2p, Fin.cons_succ]
    rw [get_setLastIndex _ B hss 0 hi (by have := k.2; omega)]
    rw [if_neg (by omega), get_setLastSlice _ A hfull 1 (n + 1) hi (by have := k.2; omega)]
    have hk2 : 1 ≤ k.1 + 1 ∧ k.1 + 1 < n + 1 := ⟨by omega, by have := k.2; omega⟩
    rw [if_pos hk2, Nat.add_sub_cancel, hAg i k.1 hi k.2,
      get_map_wf _ _ hvwf (by rw [hvs]; exact hi.append (by simpa using k.2)),
      hdeng i hi, hx2g i hi, hy, hinit]
    have : (x.sliceLast 0 (n + 1 - 1)).get (i ++ [k.1]) = Fin.init (rowAt x (n + 1) i) k := by
      rw [← hinit]; rfl
    rw [this]
    rfl

/-! ### affine charts -/

theorem succAbove_val {n : ℕ} (c : Fin (n + 1)) (k : Fin n) :
    (c.succAbove k).1 = if k.1 < c.1 then k.1 else k.1 + 1 := by
  unfold Fin.succAbove
  split <;> rename_i h <;> simp [Fin.lt_def] at h <;> simp [h]

/-- **lifting** of `affine_coords(·, chart_index=c)`: every chart, every composite rank -/
theorem affineCoordsND_units (x : ND K) {o : List ℕ} {n : ℕ} (hx : x.shape = o ++ [n + 1]) (c : Fin (n + 1)) :
    ∃ r, affineCoordsND x c.1 = .ok r ∧ r.shape = o ++ [n] ∧
      ∀ i, Valid o i → rowAt r n i = GT.Affine.affineCoords c (rowAt x (n + 1) i) := by
  have hxT : x.T.shape = [n + 1] ++ o.reverse := by simp [hx]
  have hsub := shape_sub x.T (s := [n + 1]) (t := o.reverse) (i := [c.1]) hxT rfl
  have hb : bcastShape x.T.shape (x.T.sub [c.1]).shape = some ((n + 1) :: o.reverse) := by
    rw [hxT, hsub]; exact bcastShape_cons_self (n + 1) o.reverse
  obtain ⟨q, hq, hqs, hqg⟩ := zipBcast_spec (· / ·) x.T (x.T.sub [c.1]) hb
  have hqT : q.T.shape = o ++ [n + 1] := by simp [hqs]
  refine ⟨q.T.deleteLast c.1, by simp [affineCoordsND, hq], by simpa using shape_deleteLast q.T hqT c.1, ?_⟩
  intro i hi
  funext k
  simp only [rowAt, GT.Affine.affineCoords]
  rw [get_deleteLast q.T hqT c.1 hi (by simpa using k.2), ← succAbove_val c k]
  -- entry (i, j) of q.T
  have key : ∀ j, j < n + 1 → q.T.get (i ++ [j]) = x.get (i ++ [j]) / x.get (i ++ [c.1]) := by
    intro j hj
    have hvr : Valid ((n + 1) :: o.reverse) (j :: i.reverse) := ⟨hj, valid_reverse.2 hi⟩
    have e : i ++ [j] = (j :: i.reverse).reverse := by simp
    rw [e, get_T_rev q (by rw [hqs]; exact hvr), hqg _ hvr, hxT, hsub]
    have e1 : bcIx ([n + 1] ++ o.reverse) (j :: i.reverse) = j :: i.reverse := bcIx_self hvr
    have e2 : bcIx o.reverse (j :: i.reverse) = i.reverse := by
      have hl : (j :: i.reverse).length - o.reverse.length = 1 := by simp [hi.length]
      unfold bcIx
      rw [hl]
      simp only [List.drop_succ_cons, List.drop_zero]
      have := bcIx_self (valid_reverse.2 hi)
      unfold bcIx at this
      simpa [hi.length] using this
    rw [e1, e2, get_sub x.T (i := [c.1]) hxT rfl (valid_reverse.2 hi)]
    have g1 := get_T_rev x (ix := i ++ [j]) (by rw [hx]; exact hi.append (by simpa using hj))
    have g2 := get_T_rev x (ix := i ++ [c.1]) (by rw [hx]; exact hi.append (by simpa using c.2))
    simp only [List.reverse_append, List.reverse_cons, List.reverse_nil, List.nil_append,
      List.singleton_append] at g1 g2
    rw [g1]
    simp only [List.singleton_append] at g2 ⊢
    rw [g2]
    simp
  rw [key _ (c.succAbove k).2]

/-- **lifting** of `projective_coords(·, chart_index=c)` -/
theorem projCoordsND_units (a : ND K) {o : List ℕ} {n : ℕ} (ha : a.shape = o ++ [n]) (c : Fin (n + 1)) :
    (projCoordsND a c.1).shape = o ++ [n + 1] ∧
      ∀ i, Valid o i → rowAt (projCoordsND a c.1) (n + 1) i = GT.Affine.projCoords c (rowAt a n i) := by
  have hlast : a.shape.getLastD 0 = n := by rw [ha]; simp
  have hdl : a.shape.dropLast = o := by rw [ha]; simp
  set idx := (List.range n).map fun j => if j < c.1 then j else j + 1 with hidx
  have hlen : idx.length = n := by simp [hidx]
  have hfull : (full (o ++ [n + 1]) (0 : K)).shape = o ++ [n + 1] := rfl
  have hs1 : ((full (o ++ [n + 1]) (0 : K)).setLastIdx idx a).shape = o ++ [n + 1] := rfl
  have hnodup : idx.Nodup := by
    rw [hidx]
    refine (List.nodup_range).map_on ?_
    intro x _ y _ h
    split at h <;> split at h <;> omega
  have hcnot : c.1 ∉ idx := by
    rw [hidx]; simp only [List.mem_map, List.mem_range, not_exists, not_and]
    intro x _; split <;> omega
  have hunf : projCoordsND a c.1 = ((full (o ++ [n + 1]) (0 : K)).setLastIdx idx a).setLastConst c.1 1 := by
    unfold projCoordsND
    simp only [hlast, hdl, hidx]
  refine ⟨by rw [hunf]; rfl, fun i hi => ?_⟩
  funext j
  simp only [rowAt, hunf]
  rw [get_setLastConst _ hs1 c.1 1 hi j.2]
  rcases Fin.eq_self_or_eq_succAbove c j with rfl | ⟨k, rfl⟩
  · simp [GT.Affine.projCoords]
  · have hne : (c.succAbove k).1 ≠ c.1 := fun h => Fin.succAbove_ne c k (Fin.ext h)
    rw [if_neg hne, get_setLastIdx _ a hfull idx hi (c.succAbove k).2]
    have hk : k.1 < idx.length := by rw [hlen]; exact k.2
    have hget : idx[k.1] = (c.succAbove k).1 := by
      simp [hidx, succAbove_val]
    have hio : idx.idxOf (c.succAbove k).1 = k.1 := by
      rw [← hget]; exact hnodup.idxOf_getElem k.1 hk
    rw [hio, if_pos hk]
    simp [GT.Affine.projCoords, rowAt]

/-! ### `Segment._compute_aux_data` -/

theorem get_minkND {n j c : ℕ} (hj : j < n) (hc : c < n) :
    (minkND n : ND K).get [j, c] = (minkJ n : Matrix (Fin n) (Fin n) K) ⟨j, hj⟩ ⟨c, hc⟩ := by
  unfold minkND
  rw [get_ofFn _ _ (by simp [hj, hc])]
  simp only [List.getD_cons_zero, List.getD_cons_succ, minkJ, Matrix.diagonal_apply, Fin.mk.injEq]

/-- **lifting** of the vectorised `Segment._compute_aux_data`: the `[..., np.newaxis]` broadcasting pairs
every unit with its own roots — unit `i` of the result is `segmentIdeal` of unit `i`, endpoint order
included, for every composite rank -/
theorem segmentAuxND_units (r : K → K) (e : ND K) {o : List ℕ} {n : ℕ} (he : e.shape = o ++ [2, n]) :
    ∃ c, segmentAuxND r e = .ok c ∧ c.shape = o ++ [2, n] ∧
      ∀ i, Valid o i → matAt c 2 n i = segmentIdeal (minkJ n) r (matAt e 2 n i) := by
  have hlast : e.shape.getLastD 0 = n := by rw [he]; simp
  have hrank : e.rank = o.length + 2 := by simp [ND.rank, he]
  -- products = e @ J @ e.swapaxes(-1,-2)
  have hJ : (minkND n : ND K).shape = [] ++ [n, n] := rfl
  obtain ⟨m1, hm1, hm1s, hm1g⟩ := matmul_spec e (minkND n) he hJ (bcastShape_nil_right o)
  have heT := shape_swapLast2 e he
  obtain ⟨pr, hpr, hprs, hprg⟩ := matmul_spec m1 (e.swapaxes (e.rank - 1) (e.rank - 2)) hm1s heT (bcastShape_self o)
  -- Gram entries
  have hgram : ∀ i, Valid o i → ∀ (p q : ℕ) (hp : p < 2) (hq : q < 2), pr.get (i ++ [p, q]) =
      bil (minkJ n) (matAt e 2 n i ⟨p, hp⟩) (matAt e 2 n i ⟨q, hq⟩) := by
    intro i hi p q hp hq
    rw [hprg i p q hi hp hq, sum_map_range, bil, Matrix.dotProduct_mulVec]
    simp only [dotProduct, Matrix.vecMul, bcIx_self hi]
    apply Finset.sum_congr rfl
    intro cc _
    rw [hm1g i p cc.1 hi hp cc.2, sum_map_range, get_swapLast2 e he hi cc.2 hq]
    simp only [bcIx_self hi, bcIx_nil, List.nil_append, matAt]
    congr 1
    apply Finset.sum_congr rfl
    intro j _
    rw [get_minkND j.2 cc.2]
  obtain ⟨h11s, h11g⟩ := entryLast2_spec pr hprs (i := 0) (j := 0) (by omega) (by omega)
  obtain ⟨h22s, h22g⟩ := entryLast2_spec pr hprs (i := 1) (j := 1) (by omega) (by omega)
  obtain ⟨h12s, h12g⟩ := entryLast2_spec pr hprs (i := 0) (j := 1) (by omega) (by omega)
  obtain ⟨t, ht, hts, _, htg⟩ := zipBcast_same (fun x y => x - 2 * y) _ _ h11s h12s
  obtain ⟨a, ha, has, _, hag⟩ := zipBcast_same (· + ·) t _ hts h22s
  obtain ⟨b, hb, hbs, _, hbg⟩ := zipBcast_same (fun x y => 2 * x - 2 * y) _ _ h12s h22s
  obtain ⟨ac, hac, hacs, _, hacg⟩ := zipBcast_same (fun x y => 4 * x * y) a _ has h22s
  obtain ⟨disc, hdisc, hdiscs, _, hdiscg⟩ := zipBcast_same (fun x y => x * x - y) b ac hbs hacs
  obtain ⟨num1, hnum1, hnum1s, _, hnum1g⟩ := zipBcast_same (fun x d => -x + r d) b disc hbs hdiscs
  obtain ⟨mu1, hmu1, hmu1s, _, hmu1g⟩ := zipBcast_same (fun p x => p / (2 * x)) num1 a hnum1s has
  obtain ⟨num2, hnum2, hnum2s, _, hnum2g⟩ := zipBcast_same (fun x d => -x - r d) b disc hbs hdiscs
  obtain ⟨mu2, hmu2, hmu2s, _, hmu2g⟩ := zipBcast_same (fun p x => p / (2 * x)) num2 a hnum2s has
  have he0s := shape_selectRow e he 0
  have he1s := shape_selectRow e he 1
  obtain ⟨p10, hp10, hp10s, _, hp10g⟩ := zipBcast_lastcol (fun x m => m * x) (e.selectAxis o.length 0) mu1 he0s hmu1s
  obtain ⟨p11, hp11, hp11s, _, hp11g⟩ := zipBcast_lastcol (fun x m => (1 - m) * x) (e.selectAxis o.length 1) mu1 he1s hmu1s
  obtain ⟨n1, hn1, hn1s, _, hn1g⟩ := zipBcast_same (· + ·) p10 p11 hp10s hp11s
  obtain ⟨p20, hp20, hp20s, _, hp20g⟩ := zipBcast_lastcol (fun x m => m * x) (e.selectAxis o.length 0) mu2 he0s hmu2s
  obtain ⟨p21, hp21, hp21s, _, hp21g⟩ := zipBcast_lastcol (fun x m => (1 - m) * x) (e.selectAxis o.length 1) mu2 he1s hmu2s
  obtain ⟨n2, hn2, hn2s, _, hn2g⟩ := zipBcast_same (· + ·) p20 p21 hp20s hp21s
  obtain ⟨c, hc, hcs, hcg⟩ := stackRows2_spec n1 n2 hn1s hn2s
  have hol : e.rank - 2 = o.length := by rw [hrank]; rfl
  simp only [hol] at hpr
  refine ⟨c, ?_, hcs, ?_⟩
  · unfold segmentAuxND
    simp only [hlast, hol, bind, Except.bind, hm1, hpr, ht, ha, hb, hac, hdisc, hnum1, hmu1, hnum2, hmu2,
      hp10, hp11, hn1, hp20, hp21, hn2, hc]
  · intro i hi
    -- the scalars of unit i
    set X := matAt e 2 n i with hX
    have g11 := h11g i hi
    have g22 := h22g i hi
    have g12 := h12g i hi
    simp only [matAt] at g11 g22 g12
    have hG := hgram i hi
    have va : a.get i = (segQuad (minkJ n) X).1 := by
      rw [hag i hi, htg i hi, g11, g22, g12, hG 0 0 (by omega) (by omega), hG 1 1 (by omega) (by omega),
        hG 0 1 (by omega) (by omega)]; rfl
    have vb : b.get i = (segQuad (minkJ n) X).2.1 := by
      rw [hbg i hi, g22, g12, hG 1 1 (by omega) (by omega), hG 0 1 (by omega) (by omega)]; rfl
    have vc : ((pr.selectLast 1).selectLast 1).get i = (segQuad (minkJ n) X).2.2 := by
      rw [g22, hG 1 1 (by omega) (by omega)]; rfl
    have vdisc : disc.get i = (segQuad (minkJ n) X).2.1 * (segQuad (minkJ n) X).2.1 -
        4 * (segQuad (minkJ n) X).1 * (segQuad (minkJ n) X).2.2 := by
      rw [hdiscg i hi, hacg i hi, vb, va, vc]
    have vmu1 : mu1.get i = (-(segQuad (minkJ n) X).2.1 + r (disc.get i)) / (2 * (segQuad (minkJ n) X).1) := by
      rw [hmu1g i hi, hnum1g i hi, vb, va]
    have vmu2 : mu2.get i = (-(segQuad (minkJ n) X).2.1 - r (disc.get i)) / (2 * (segQuad (minkJ n) X).1) := by
      rw [hmu2g i hi, hnum2g i hi, vb, va]
    funext e' cc
    have hrow0 : ∀ k (hk : k < n), (e.selectAxis o.length 0).get (i ++ [k]) = X 0 ⟨k, hk⟩ := by
      intro k hk; rw [get_selectRow e he 0 hi hk]; rfl
    have hrow1 : ∀ k (hk : k < n), (e.selectAxis o.length 1).get (i ++ [k]) = X 1 ⟨k, hk⟩ := by
      intro k hk; rw [get_selectRow e he 1 hi hk]; rfl
    simp only [matAt]
    rw [hcg i e'.1 cc.1 hi e'.2 cc.2]
    fin_cases e'
    · simp only [Fin.zero_eta, Fin.val_zero, List.getD_cons_zero]
      rw [hn1g _ (hi.append (by simpa using cc.2)), hp10g i cc.1 hi cc.2, hp11g i cc.1 hi cc.2,
        hrow0 cc.1 cc.2, hrow1 cc.1 cc.2, vmu1, vdisc]
      simp [segmentIdeal, segMix]
    · simp only [Fin.mk_one, Fin.val_one, List.getD_cons_succ, List.getD_cons_zero]
      rw [hn2g _ (hi.append (by simpa using cc.2)), hp20g i cc.1 hi cc.2, hp21g i cc.1 hi cc.2,
        hrow0 cc.1 cc.2, hrow1 cc.1 cc.2, vmu2, vdisc]
      simp [segmentIdeal, segMix]

end GT.Act
