/- helper lemmas: the vectorised last-axis formulas act unit by unit -/
import GT.Model.Vectorised
import GT.Model.Units
import GT.Model.Action
import GT.Lemmas.Obj
import GT.Lemmas.Units
import GT.Model.Charts

set_option linter.unusedSectionVars false
set_option linter.unusedSimpArgs false
set_option linter.unusedVariables false

open Finset BigOperators

namespace GT.Act
open ND

section nd
variable {α : Type} [Inhabited α]

theorem squeezeAxes_pair (a : ND α) (k : ℕ) : a.squeezeAxes [k + 1, k] = (a.squeeze1 (k + 1)).squeeze1 k := by
  have : [k + 1, k].mergeSort (fun x y => decide (y ≤ x)) = [k + 1, k] := by
    simp [List.mergeSort, List.merge]
  simp [squeezeAxes, this]

/-- a broadcasting binary ufunc: shape and entries -/
theorem zipBcast_spec {β γ : Type} [Inhabited β] [Inhabited γ] (f : α → β → γ) (a : ND α) (b : ND β)
    {s : List ℕ} (hs : bcastShape a.shape b.shape = some s) :
    ∃ c, zipBcast f a b = .ok c ∧ c.shape = s ∧
      ∀ ix, Valid s ix → c.get ix = f (a.get (bcIx a.shape ix)) (b.get (bcIx b.shape ix)) := by
  unfold zipBcast
  rw [hs]
  exact ⟨_, rfl, rfl, fun ix hix => get_ofFn _ _ hix⟩

end nd

variable {K : Type} [Field K] [Inhabited K]

/-- `utils.apply_bilinear(v1, v2, form)`: entry `bix` of the result is `x · F · yᵀ` for the units
`x`, `y` of `v1`, `v2` that numpy's broadcasting pairs at `bix` — every outer rank -/
theorem applyBilinear_form_spec (v1 v2 F : ND K) {o1 o2 O : List ℕ} {n : ℕ}
    (h1 : v1.shape = o1 ++ [n]) (h2 : v2.shape = o2 ++ [n]) (hF : F.shape = [n, n])
    (hO : bcastShape o1 o2 = some O) :
    ∃ c, applyBilinear v1 v2 (some F) = .ok c ∧ c.shape = O ∧ c.WF ∧
      ∀ bix, Valid O bix →
        c.get bix = ∑ cc : Fin n, (∑ j : Fin n, v1.get (bcIx o1 bix ++ [j.1]) * F.get [j.1, cc.1]) *
          v2.get (bcIx o2 bix ++ [cc.1]) := by
  -- expand_dims(v1, -2)
  have hr1 : v1.rank - 1 = o1.length := by simp [ND.rank, h1]
  have he1s := shape_expandRange v1 (s := o1) (t := [n]) h1 1
  -- first product
  obtain ⟨I, hI, hIs, hIg⟩ := mp22 .elementwise (v1.expandRange o1.length 1) F (o1 := o1) (o2 := []) (p := 1)
    (n := n) (m := n) (by simpa using he1s) (by simpa using hF) (bcastShape_nil_right o1)
  -- expand_dims(v2, -1)
  have hr2 : v2.rank = (o2 ++ [n]).length := by simp [ND.rank, h2]
  have he2s := shape_expandRange v2 (s := o2 ++ [n]) (t := []) (by simpa using h2) 1
  -- second product
  obtain ⟨P, hP, hPs, hPg⟩ := mp22 .elementwise I (v2.expandRange (o2 ++ [n]).length 1) (o1 := o1) (o2 := o2)
    (p := 1) (n := n) (m := 1) hIs (by simpa using he2s) hO
  have hPrank : P.rank = O.length + 2 := by simp [ND.rank, hPs]
  have hPs1 : P.shape = (O ++ [1]) ++ 1 :: [] := by rw [hPs]; simp
  have hQs := shape_squeeze1 P hPs1
  have hQs' : (P.squeeze1 (O ++ [1]).length).shape = O ++ 1 :: [] := by rw [hQs]; simp
  have hRs := shape_squeeze1 (P.squeeze1 (O ++ [1]).length) hQs'
  refine ⟨(P.squeeze1 (O.length + 1)).squeeze1 O.length, ?_, by simpa using hRs, wf_ofFn _ _, ?_⟩
  · unfold applyBilinear
    simp only [hr1, hr2, hI, hP, bind, Except.bind, pure, Except.pure, hPrank]
    rw [show O.length + 2 - 1 = O.length + 1 from rfl, show O.length + 2 - 2 = O.length from rfl,
      squeezeAxes_pair]
  · intro bix hv
    have g1 := get_squeeze1 (P.squeeze1 (O ++ [1]).length) hQs' (i := bix) (j := []) hv (by simp)
    have g2 := get_squeeze1 P hPs1 (i := bix ++ [0]) (j := []) (hv.append (by simp)) (by simp)
    simp only [List.length_append, List.length_singleton, List.append_nil] at g1 g2
    rw [g1, g2]
    have := hPg bix 0 0 hv (by omega) (by omega)
    simp only [List.append_assoc, List.singleton_append] at this ⊢
    rw [this, sum_map_range]
    apply Finset.sum_congr rfl
    intro cc _
    have hb1 := valid_bcIx_left hO hv
    have hb2 := valid_bcIx_right hO hv
    simp only [unitIx1, unitIx2]
    congr 1
    · rw [hIg (bcIx o1 bix) 0 cc.1 hb1 (by omega) cc.2, sum_map_range]
      apply Finset.sum_congr rfl
      intro j _
      simp only [unitIx1, unitIx2, bcIx_self hb1, bcIx_nil, List.nil_append]
      congr 1
      have := get_expandRange v1 (s := o1) (t := [n]) h1 1 (i := bcIx o1 bix) (j := [j.1]) hb1 (by simpa using j.2)
      simpa using this
    · have := get_expandRange v2 (s := o2 ++ [n]) (t := []) (by simpa using h2) 1
        (i := bcIx o2 bix ++ [cc.1]) (j := []) (hb2.append (by simpa using cc.2)) (by simp)
      simpa using this

/-- … in Mathlib's vocabulary: `x ⬝ᵥ F *ᵥ y` -/
theorem applyBilinear_form_units (v1 v2 F : ND K) {o1 o2 O : List ℕ} {n : ℕ}
    (h1 : v1.shape = o1 ++ [n]) (h2 : v2.shape = o2 ++ [n]) (hF : F.shape = [n, n])
    (hO : bcastShape o1 o2 = some O) :
    ∃ c, applyBilinear v1 v2 (some F) = .ok c ∧ c.shape = O ∧
      ∀ bix, Valid O bix →
        scalarAt c bix = bil (matAt F n n []) (rowAt v1 n (bcIx o1 bix)) (rowAt v2 n (bcIx o2 bix)) := by
  obtain ⟨c, hc, hs, _, hg⟩ := applyBilinear_form_spec v1 v2 F h1 h2 hF hO
  refine ⟨c, hc, hs, fun bix hv => ?_⟩
  rw [scalarAt, hg bix hv, bil, Matrix.dotProduct_mulVec]
  simp [dotProduct, Matrix.vecMul, rowAt, matAt]

/-- `utils.apply_bilinear(v1, v2)` / `normsq` with the Euclidean form -/
theorem applyBilinear_none_spec (v1 v2 : ND K) {o1 o2 O : List ℕ} {n : ℕ}
    (h1 : v1.shape = o1 ++ [n]) (h2 : v2.shape = o2 ++ [n]) (hO : bcastShape o1 o2 = some O) :
    ∃ c, applyBilinear v1 v2 none = .ok c ∧ c.shape = O ∧ c.WF ∧
      ∀ bix, Valid O bix →
        c.get bix = ∑ cc : Fin n, v1.get (bcIx o1 bix ++ [cc.1]) * v2.get (bcIx o2 bix ++ [cc.1]) := by
  have hr1 : v1.rank - 1 = o1.length := by simp [ND.rank, h1]
  have he1s := shape_expandRange v1 (s := o1) (t := [n]) h1 1
  have hr2 : v2.rank = (o2 ++ [n]).length := by simp [ND.rank, h2]
  have he2s := shape_expandRange v2 (s := o2 ++ [n]) (t := []) (by simpa using h2) 1
  obtain ⟨P, hP, hPs, hPg⟩ := mp22 .elementwise (v1.expandRange o1.length 1)
    (v2.expandRange (o2 ++ [n]).length 1) (o1 := o1) (o2 := o2)
    (p := 1) (n := n) (m := 1) (by simpa using he1s) (by simpa using he2s) hO
  have hPrank : P.rank = O.length + 2 := by simp [ND.rank, hPs]
  have hPs1 : P.shape = (O ++ [1]) ++ 1 :: [] := by rw [hPs]; simp
  have hQs := shape_squeeze1 P hPs1
  have hQs' : (P.squeeze1 (O ++ [1]).length).shape = O ++ 1 :: [] := by rw [hQs]; simp
  have hRs := shape_squeeze1 (P.squeeze1 (O ++ [1]).length) hQs'
  refine ⟨(P.squeeze1 (O.length + 1)).squeeze1 O.length, ?_, by simpa using hRs, wf_ofFn _ _, ?_⟩
  · unfold applyBilinear
    simp only [hr1, hr2, hP, bind, Except.bind, pure, Except.pure, hPrank]
    rw [show O.length + 2 - 1 = O.length + 1 from rfl, show O.length + 2 - 2 = O.length from rfl,
      squeezeAxes_pair]
  · intro bix hv
    have g1 := get_squeeze1 (P.squeeze1 (O ++ [1]).length) hQs' (i := bix) (j := []) hv (by simp)
    have g2 := get_squeeze1 P hPs1 (i := bix ++ [0]) (j := []) (hv.append (by simp)) (by simp)
    simp only [List.length_append, List.length_singleton, List.append_nil] at g1 g2
    rw [g1, g2]
    have := hPg bix 0 0 hv (by omega) (by omega)
    simp only [List.append_assoc, List.singleton_append] at this ⊢
    rw [this, sum_map_range]
    apply Finset.sum_congr rfl
    intro cc _
    have hb1 := valid_bcIx_left hO hv
    have hb2 := valid_bcIx_right hO hv
    simp only [unitIx1, unitIx2]
    congr 1
    · have := get_expandRange v1 (s := o1) (t := [n]) h1 1 (i := bcIx o1 bix) (j := [cc.1]) hb1 (by simpa using cc.2)
      simpa using this
    · have := get_expandRange v2 (s := o2 ++ [n]) (t := []) (by simpa using h2) 1
        (i := bcIx o2 bix ++ [cc.1]) (j := []) (hb2.append (by simpa using cc.2)) (by simp)
      simpa using this

/-! ### the `(x.T * f.T).T` idiom and the chart maps built on it -/

theorem bcastShape_self (o : List ℕ) : bcastShape o o = some o := by
  rw [bcastShape_same_length rfl, bcastZip_self]

theorem bcastShape_cons_self (d : ℕ) (s : List ℕ) : bcastShape (d :: s) s = some (d :: s) := by
  unfold bcastShape
  have h1 : max (d :: s).length s.length = s.length + 1 := by simp
  simp only [h1]
  rw [padTo_of_length (by simp)]
  have : padTo (s.length + 1) s = 1 :: s := by simp [padTo]
  rw [this]
  simp [bcastZip, bcastZip_self]

theorem get_map_of_wf {β : Type} [Inhabited β] (g : K → β) (a : ND K) (hwf : a.WF) {ix : List ℕ}
    (hix : Valid a.shape ix) : (a.map g).get ix = g (a.get ix) := by
  have hlt : flatIx a.shape ix < a.data.size := by rw [hwf]; exact flatIx_lt hix
  simp [ND.get, ND.map, Array.getD, hlt]

/-- `(x.T * f.T).T` with one scalar per unit (`f` of the composite shape, or of shape `(1,)` for a
single unit after `atleast_1d`) scales every unit by its scalar -/
theorem scaleLast_spec (x f : ND K) {o : List ℕ} {n : ℕ} (hx : x.shape = o ++ [n])
    (hf : f.shape = if o = [] then [1] else o) :
    ∃ c, scaleLast x f = .ok c ∧ c.shape = o ++ [n] ∧
      ∀ i cc, Valid o i → cc < n →
        c.get (i ++ [cc]) = x.get (i ++ [cc]) * f.get (if o = [] then [0] else i) := by
  have hxT : x.T.shape = n :: o.reverse := by simp [hx]
  by_cases ho : o = []
  · subst ho
    simp only [if_true] at hf ⊢
    have hfT : f.T.shape = [1] := by simp [hf]
    have hb : bcastShape x.T.shape f.T.shape = some [n] := by
      rw [hxT, hfT]
      simp [bcastShape, padTo, bcastZip]
    obtain ⟨p, hp, hps, hpg⟩ := zipBcast_spec (· * ·) x.T f.T hb
    refine ⟨p.T, by simp [scaleLast, hp], by simp [hps], ?_⟩
    intro i cc hi hcc
    have : i = [] := valid_nil_iff.1 hi
    subst this
    have e : ([] ++ [cc] : List ℕ) = [cc].reverse := by simp
    rw [e, get_T_rev p (by rw [hps]; simpa using hcc), hpg [cc] (by simpa using hcc), hxT, hfT]
    have e1 : bcIx (n :: ([] : List ℕ).reverse) [cc] = [cc] := bcIx_self (by simpa using hcc)
    have e2 : bcIx [1] [cc] = [0] := by simp [bcIx]
    rw [e1, e2]
    have g1 := get_T_rev x (ix := [cc]) (by rw [hx]; simpa using hcc)
    have g2 := get_T_rev f (ix := [0]) (by rw [hf]; simp)
    simp only [List.reverse_cons, List.reverse_nil, List.nil_append] at g1 g2
    simp only [List.reverse_nil, List.nil_append, List.reverse_cons]
    rw [g1, g2]
  · simp only [ho, if_false] at hf ⊢
    have hfT : f.T.shape = o.reverse := by simp [hf]
    have hb : bcastShape x.T.shape f.T.shape = some (n :: o.reverse) := by
      rw [hxT, hfT]; exact bcastShape_cons_self n o.reverse
    obtain ⟨p, hp, hps, hpg⟩ := zipBcast_spec (· * ·) x.T f.T hb
    refine ⟨p.T, by simp [scaleLast, hp], by simp [hps], ?_⟩
    intro i cc hi hcc
    have hvr : Valid (n :: o.reverse) (cc :: i.reverse) := ⟨hcc, valid_reverse.2 hi⟩
    have e : i ++ [cc] = (cc :: i.reverse).reverse := by simp
    rw [e, get_T_rev p (by rw [hps]; exact hvr), hpg _ hvr, hxT, hfT]
    have e1 : bcIx (n :: o.reverse) (cc :: i.reverse) = cc :: i.reverse := bcIx_self hvr
    have e2 : bcIx o.reverse (cc :: i.reverse) = i.reverse := by
      have hl : (cc :: i.reverse).length - o.reverse.length = 1 := by simp [hi.length]
      unfold bcIx
      rw [hl]
      simp only [List.drop_succ_cons, List.drop_zero]
      have := bcIx_self (valid_reverse.2 hi)
      unfold bcIx at this
      simpa [hi.length] using this
    rw [e1, e2]
    have g1 := get_T_rev x (ix := i ++ [cc]) (by rw [hx]; exact hi.append (by simpa using hcc))
    have g2 := get_T_rev f (ix := i) (by rw [hf]; exact hi)
    simp only [List.reverse_append, List.reverse_cons, List.reverse_nil, List.nil_append,
      List.singleton_append] at g1
    rw [g1, g2]
    simp

theorem atleast1d_spec (a : ND K) {o : List ℕ} (hs : a.shape = o) (hwf : a.WF) :
    (atleast1d a).shape = (if o = [] then [1] else o) ∧ (atleast1d a).WF ∧
      ∀ i, Valid o i → (atleast1d a).get (if o = [] then [0] else i) = a.get i := by
  by_cases ho : o = []
  · subst ho
    have : atleast1d a = ⟨[1], a.data⟩ := by simp [atleast1d, hs]
    rw [this]
    refine ⟨by simp, by simpa [ND.WF, hs, sz] using hwf, fun i hi => ?_⟩
    have : i = [] := valid_nil_iff.1 hi
    subst this
    simp [ND.get, flatIx, hs, sz]
  · have : atleast1d a = a := by simp [atleast1d, hs, ho]
    rw [this]
    exact ⟨by simp [ho, hs], hwf, fun i _ => by simp [ho]⟩

/-- `normsq` at unit level -/
theorem normsq_units (x : ND K) {o : List ℕ} {n : ℕ} (hx : x.shape = o ++ [n]) :
    ∃ nn, normsqND x = .ok nn ∧ nn.shape = o ∧ nn.WF ∧ ∀ i, Valid o i → nn.get i = nsq (rowAt x n i) := by
  obtain ⟨c, hc, hs, hwf, hg⟩ := applyBilinear_none_spec x x hx hx (bcastShape_self o)
  refine ⟨c, hc, hs, hwf, fun i hi => ?_⟩
  rw [hg i hi, bcIx_self hi]
  simp [nsq, dot, rowAt]

/-- **lifting** of `poincare_to_kleinian`: unit `i` of the vectorised result is `p2k` of unit `i` -/
theorem p2kND_units (x : ND K) {o : List ℕ} {n : ℕ} (hx : x.shape = o ++ [n]) :
    ∃ c, p2kND x = .ok c ∧ c.shape = x.shape ∧ ∀ i, Valid o i → rowAt c n i = p2k (rowAt x n i) := by
  obtain ⟨nn, hnn, hns, hnwf, hng⟩ := normsq_units x hx
  obtain ⟨h1s, h1wf, h1g⟩ := atleast1d_spec nn hns hnwf
  have hfs : ((atleast1d nn).map fun a => 2 / (1 + a)).shape = if o = [] then [1] else o := h1s
  obtain ⟨c, hc, hcs, hcg⟩ := scaleLast_spec x _ hx hfs
  refine ⟨c, by simp [p2kND, hnn, hc], by rw [hcs, hx], fun i hi => ?_⟩
  funext cc
  simp only [rowAt, p2k]
  rw [hcg i cc.1 hi cc.2]
  have hv : Valid (atleast1d nn).shape (if o = [] then [0] else i) := by
    rw [h1s]; by_cases ho : o = [] <;> simp [ho, hi]
  rw [get_map_of_wf _ _ h1wf hv, h1g i hi, hng i hi]

/-- **lifting** of `kleinian_to_poincare` (`rabs = √|·|` supplied) -/
theorem k2pND_units [LinearOrder K] (r : K → K) (x : ND K) {o : List ℕ} {n : ℕ} (hx : x.shape = o ++ [n]) :
    ∃ c, k2pND (fun a => r |a|) x = .ok c ∧ c.shape = x.shape ∧
      ∀ i, Valid o i → rowAt c n i = k2p r (rowAt x n i) := by
  obtain ⟨nn, hnn, hns, hnwf, hng⟩ := normsq_units x hx
  obtain ⟨h1s, h1wf, h1g⟩ := atleast1d_spec nn hns hnwf
  have hfs : ((atleast1d nn).map fun a => 1 / (1 + (fun a => r |a|) (1 - a))).shape =
      if o = [] then [1] else o := h1s
  obtain ⟨c, hc, hcs, hcg⟩ := scaleLast_spec x _ hx hfs
  refine ⟨c, by simp only [k2pND, hnn]; exact hc, by rw [hcs, hx], fun i hi => ?_⟩
  funext cc
  simp only [rowAt, k2p]
  rw [hcg i cc.1 hi cc.2]
  have hv : Valid (atleast1d nn).shape (if o = [] then [0] else i) := by
    rw [h1s]; by_cases ho : o = [] <;> simp [ho, hi]
  rw [get_map_of_wf _ _ h1wf hv, h1g i hi, hng i hi]

/-- **lifting** of `utils.normalize`: the new value of the caller's array has, at unit `i`, the
normalised unit `i` (null rows untouched) — for every composite rank -/
theorem normalizeLit_units [DecidableEq K] (rabs : K → K) (v F : ND K) {o : List ℕ} {n : ℕ}
    (hv : v.shape = o ++ [n]) (hF : F.shape = [n, n]) :
    ∃ c, normalizeLit rabs v F = .ok c ∧ c.shape = v.shape ∧
      ∀ i, Valid o i → rowAt c n i = normalizeRowF rabs (matAt F n n []) (rowAt v n i) := by
  obtain ⟨sq, hsq, hsqs, hsqwf, hsqg⟩ := applyBilinear_form_spec v v F hv hv hF (bcastShape_self o)
  have hmaps : (sq.map rabs).shape = o ++ [] := by
    show sq.shape = o ++ []
    simpa using hsqs
  have hds := shape_expandRange (sq.map rabs) (s := o) (t := []) hmaps 1
  have hrank : sq.rank = o.length := by simp [ND.rank, hsqs]
  have hb : bcastShape v.shape ((sq.map rabs).expandRange o.length 1).shape = some (o ++ [n]) := by
    rw [hv, hds]
    simp only [List.append_nil, List.replicate_one]
    rw [bcastShape_same_length (by simp), bcastZip_append rfl, bcastZip_self]
    simp [bcastZip]
  obtain ⟨c, hc, hcs, hcg⟩ := zipBcast_spec (fun x y => if y = 0 then x else x / y) v
    ((sq.map rabs).expandRange o.length 1) hb
  refine ⟨c, by simp only [normalizeLit, hsq, hrank]; exact hc, by rw [hcs, hv], fun i hi => ?_⟩
  have hsqi : sq.get i = bil (matAt F n n []) (rowAt v n i) (rowAt v n i) := by
    rw [hsqg i hi, bcIx_self hi, bil, Matrix.dotProduct_mulVec]
    simp [dotProduct, Matrix.vecMul, rowAt, matAt]
  have hd : ((sq.map rabs).expandRange o.length 1).get (i ++ [0]) = rabs (sq.get i) := by
    have := get_expandRange (sq.map rabs) (s := o) (t := []) hmaps 1 (i := i) (j := []) hi (by simp)
    simp only [List.replicate_one, List.append_nil] at this
    rw [this, get_map_of_wf rabs sq hsqwf (by rw [hsqs]; exact hi)]
  funext cc
  have hvi : Valid (o ++ [n]) (i ++ [cc.1]) := hi.append (by simpa using cc.2)
  simp only [rowAt]
  rw [hcg _ hvi, hv, hds]
  simp only [List.append_nil, List.replicate_one]
  rw [bcIx_self hvi, bcIx_append (by simp [hi.length]) (by simp), bcIx_self hi]
  have : bcIx [1] [cc.1] = [0] := by simp [bcIx]
  rw [this, hd, hsqi]
  unfold normalizeRowF
  by_cases h0 : rabs (bil (matAt F n n []) (rowAt v n i) (rowAt v n i)) = 0
  · simp [h0, rowAt]
  · simp [h0, rowAt]

end GT.Act
