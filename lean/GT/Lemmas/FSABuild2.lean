/-
Coherence lemmas for the FSA model, part 5: `FSA(out_dict, graph_dict=False)`, `free_automaton`,
`kbmag_utils.build_dict`.
-/
import GT.Lemmas.FSABuild
import GT.Lemmas.FSADel

set_option linter.unusedSectionVars false
set_option linter.unusedSimpArgs false

namespace GT.FSA
variable {V L : Type} [DecidableEq V] [DecidableEq L]
open Dict

/-! ### dictionaries built by a loop of assignments -/

/-- `for (k, v) in ps: d[k] = v` when `ps` never assigns two different values to one key -/
theorem get?_foldl_set {κ ν : Type} [DecidableEq κ] (ps : List (κ × ν))
    (hf : ∀ k v₁ v₂, (k, v₁) ∈ ps → (k, v₂) ∈ ps → v₁ = v₂) (d0 : Dict κ ν) (k : κ) (v : ν) :
    (ps.foldl (fun d p => Dict.set d p.1 p.2) d0).get? k = some v ↔
      (k, v) ∈ ps ∨ ((∀ v', (k, v') ∉ ps) ∧ d0.get? k = some v) := by
  induction ps generalizing d0 with
  | nil => simp
  | cons p r ih =>
    obtain ⟨k0, v0⟩ := p
    have hf' : ∀ k v₁ v₂, (k, v₁) ∈ r → (k, v₂) ∈ r → v₁ = v₂ :=
      fun k v₁ v₂ h₁ h₂ => hf k v₁ v₂ (by simp [h₁]) (by simp [h₂])
    simp only [List.foldl_cons]
    rw [ih hf', get?_set]
    by_cases hk : k = k0
    · subst hk
      simp only [if_true, Option.some.injEq, List.mem_cons, Prod.mk.injEq, true_and]
      constructor
      · rintro (h | ⟨-, rfl⟩)
        · exact Or.inl (Or.inr h)
        · exact Or.inl (Or.inl rfl)
      · rintro ((rfl | h) | ⟨h, -⟩)
        · by_cases hr : ∃ v', (k, v') ∈ r
          · obtain ⟨v', hv'⟩ := hr
            have := hf k v v' (by simp) (by simp [hv'])
            subst this; exact Or.inl hv'
          · exact Or.inr ⟨fun v' hv' => hr ⟨v', hv'⟩, rfl⟩
        · exact Or.inl h
        · exact absurd (Or.inl rfl) (h v0)
    · simp only [hk, if_false, List.mem_cons, Prod.mk.injEq, false_and, false_or]

theorem foldl_set_keys_nodup {κ ν : Type} [DecidableEq κ] (ps : List (κ × ν)) (d0 : Dict κ ν)
    (h : d0.keys.Nodup) : (ps.foldl (fun d p => Dict.set d p.1 p.2) d0).keys.Nodup :=
  foldl_set_nodup ps (fun _ p => p.1) (fun _ p => p.2) d0 h

theorem mem_keys_foldl_set {κ ν : Type} [DecidableEq κ] (ps : List (κ × ν)) (d0 : Dict κ ν) (k : κ) :
    k ∈ (ps.foldl (fun d p => Dict.set d p.1 p.2) d0).keys ↔ k ∈ d0.keys ∨ k ∈ ps.map Prod.fst := by
  induction ps generalizing d0 with
  | nil => simp
  | cons p r ih => simp only [List.foldl_cons, ih, mem_keys_set, List.map_cons, List.mem_cons]; grind

/-! ### `_build_graph_dict` -/

/-- the assignments `label_dict[v][label] = w` made for one row of the outgoing view -/
def flatRow (nbrs : Dict V (List L)) : List (L × V) := nbrs.flatMap fun e => e.2.map fun l => (l, e.1)

theorem graphRow_fold_eq (nbrs : Dict V (List L)) (g : Dict L V) :
    nbrs.foldl (fun g e => e.2.foldl (fun g l => g.set l e.1) g) g =
      (flatRow nbrs).foldl (fun d p => Dict.set d p.1 p.2) g := by
  induction nbrs generalizing g with
  | nil => rfl
  | cons e r ih =>
    simp only [List.foldl_cons, flatRow, List.flatMap_cons, List.foldl_append]
    rw [ih]
    congr 1
    rw [List.foldl_map]

theorem graphRow_eq (nbrs : Dict V (List L)) :
    graphRow nbrs = (flatRow nbrs).foldl (fun d p => Dict.set d p.1 p.2) [] := graphRow_fold_eq nbrs []

theorem mem_flatRow (nbrs : Dict V (List L)) (l : L) (w : V) :
    (l, w) ∈ flatRow nbrs ↔ ∃ ls, (w, ls) ∈ nbrs ∧ l ∈ ls := by
  simp only [flatRow, List.mem_flatMap, List.mem_map, Prod.mk.injEq, Prod.exists]
  constructor
  · rintro ⟨w', ls, h1, l', h2, rfl, rfl⟩; exact ⟨ls, h1, h2⟩
  · rintro ⟨ls, h1, h2⟩; exact ⟨w, ls, h1, l, h2, rfl, rfl⟩

/-- one row of an outgoing view is deterministic: a label is listed under at most one target -/
def RowDet (nbrs : Dict V (List L)) : Prop :=
  ∀ w₁ w₂ ls₁ ls₂ l, (w₁, ls₁) ∈ nbrs → (w₂, ls₂) ∈ nbrs → l ∈ ls₁ → l ∈ ls₂ → w₁ = w₂

theorem graphRow_get? {nbrs : Dict V (List L)} (hd : RowDet nbrs) (l : L) (w : V) :
    (graphRow nbrs).get? l = some w ↔ ∃ ls, (w, ls) ∈ nbrs ∧ l ∈ ls := by
  rw [graphRow_eq, get?_foldl_set]
  · simp [mem_flatRow]
  · intro k v₁ v₂ h₁ h₂
    obtain ⟨ls₁, a₁, b₁⟩ := (mem_flatRow nbrs k v₁).1 h₁
    obtain ⟨ls₂, a₂, b₂⟩ := (mem_flatRow nbrs k v₂).1 h₂
    exact hd v₁ v₂ ls₁ ls₂ k a₁ a₂ b₁ b₂

theorem graphRow_nodup (nbrs : Dict V (List L)) : (graphRow nbrs).keys.Nodup := by
  rw [graphRow_eq]; exact foldl_set_keys_nodup _ _ (by simp)

/-- what `FSA(out_dict, graph_dict=False)` requires of its argument: a dictionary of dictionaries
of duplicate-free label lists, deterministic, with every target a key -/
structure OutDictOK (od : Dict V (Dict V (List L))) : Prop where
  nodup2 : Nodup2 od
  lists : ∀ v row w ls, od.get? v = some row → row.get? w = some ls → ls.Nodup
  det : ∀ v row, od.get? v = some row → RowDet row
  closed : ∀ v row w, od.get? v = some row → w ∈ row.keys → w ∈ od.keys

theorem coherent_fromOutDict (od : Dict V (Dict V (List L))) (st : List V) (h : OutDictOK od) :
    (fromOutDict od st).Coherent := by
  obtain ⟨hi1, hi2, hi3⟩ := buildInDict_spec od h.nodup2
  have hgget : ∀ v, (buildGraphDict od).get? v = (od.get? v).map graphRow :=
    fun v => get?_mapVal od (fun _ => graphRow) v
  have hgkeys : (buildGraphDict od).keys = od.keys := keys_mapVal od (fun _ => graphRow)
  refine ⟨⟨?_, h.nodup2.1, hi1.1, ?_, h.nodup2.2, hi1.2⟩, ?_, ?_, ?_, ?_, ?_, ?_⟩
  · show (buildGraphDict od).keys.Nodup
    rw [hgkeys]; exact h.nodup2.1
  · intro v row
    show (buildGraphDict od).get? v = some row → _
    rw [hgget]
    cases od.get? v with
    | none => simp
    | some r => simp only [Option.map_some, Option.some.injEq]; rintro rfl; exact graphRow_nodup r
  · intro v; show v ∈ (buildGraphDict od).keys ↔ v ∈ od.keys; rw [hgkeys]
  · intro w
    show w ∈ (buildInDict od).keys ↔ w ∈ od.keys
    rw [hi2 w]
    constructor
    · rintro (hw | ⟨v, row, h1, h2⟩)
      · exact hw
      · exact h.closed v row w h1 h2
    · exact Or.inl
  · intro v w; exact (hi3 w v).symm
  · intro v l w
    show ((buildGraphDict od).get? v).bind (·.get? l) = some w ↔ ∃ ls, (od.get? v).bind (·.get? w) = some ls ∧ l ∈ ls
    rw [hgget]
    cases hv : od.get? v with
    | none => simp
    | some row =>
      simp only [Option.map_some, Option.bind_some]
      rw [graphRow_get? (h.det v row hv)]
      constructor
      · rintro ⟨ls, h1, h2⟩; exact ⟨ls, get?_of_mem (h.nodup2.2 v row hv) h1, h2⟩
      · rintro ⟨ls, h1, h2⟩; exact ⟨ls, mem_of_get? h1, h2⟩
  · intro v w ls hls
    rw [og_def] at hls
    show ls.Nodup
    cases hv : od.get? v with
    | none => simp [fromOutDict, hv] at hls
    | some row =>
      have : row.get? w = some ls := by simpa [fromOutDict, hv] using hls
      exact h.lists v row w ls hv this
  · intro v w ls hls
    have : ∃ row, od.get? v = some row ∧ w ∈ row.keys := (og_some_iff (fromOutDict od st) v w).1 ⟨ls, hls⟩
    obtain ⟨row, h1, h2⟩ := this
    exact h.closed v row w h1 h2

/-- the set model of `FSA(out_dict, graph_dict=False)` -/
theorem abs_fromOutDict (od : Dict V (Dict V (List L))) (st : List V) (h : OutDictOK od) :
    (fromOutDict od st).abs =
      ⟨fun v => v ∈ od.keys, fun v l w => ∃ ls, (od.get? v).bind (·.get? w) = some ls ∧ l ∈ ls⟩ := by
  apply SetFSA.ext'
  · intro v; rfl
  · intro v l w; exact (coherent_fromOutDict od st h).label v l w

/-! ### `free_automaton` -/

/-- `{x: φ(x) for x in xs}` -/
theorem get?_foldl_set_fun {κ ν : Type} [DecidableEq κ] (xs : List κ) (φ : κ → ν) (k : κ) :
    (xs.foldl (fun d x => Dict.set d x (φ x)) ([] : Dict κ ν)).get? k = if k ∈ xs then some (φ k) else none := by
  have h := get?_foldl_set (xs.map fun x => (x, φ x))
    (by intro k v₁ v₂ h₁ h₂; simp only [List.mem_map, Prod.mk.injEq] at h₁ h₂
        obtain ⟨a, -, rfl, rfl⟩ := h₁; obtain ⟨b, -, rfl, rfl⟩ := h₂; rfl) ([] : Dict κ ν) k
  rw [List.foldl_map] at h
  by_cases hk : k ∈ xs
  · simp only [hk, if_true]
    exact (h (φ k)).2 (Or.inl (List.mem_map.2 ⟨k, hk, rfl⟩))
  · simp only [hk, if_false]
    cases hg : (xs.foldl (fun d x => Dict.set d x (φ x)) ([] : Dict κ ν)).get? k with
    | none => rfl
    | some v =>
      rcases (h v).1 hg with h1 | ⟨-, h2⟩
      · simp only [List.mem_map, Prod.mk.injEq] at h1
        obtain ⟨a, ha, rfl, -⟩ := h1; exact absurd ha hk
      · simp at h2

theorem foldl_set_fun_nodup {κ ν : Type} [DecidableEq κ] (xs : List κ) (φ : κ → ν) :
    (xs.foldl (fun d x => Dict.set d x (φ x)) ([] : Dict κ ν)).keys.Nodup :=
  foldl_set_nodup xs (fun _ x => x) (fun _ x => φ x) [] (by simp)

/-- the label view handed to `FSA(...)` by `free_automaton` -/
def freeGraph (inv : L → L) (eps : L) (gens : List L) : Dict L (Dict L L) :=
  let generators := gens ++ gens.map inv
  (eps :: generators).foldl (fun d g => d.set g
    ((generators.filter fun h => !decide (inv h = g)).foldl (fun d h => d.set h h) [])) []

theorem free_eq (inv : L → L) (eps : L) (gens : List L) :
    free inv eps gens = fromGraphDict (freeGraph inv eps gens) [eps] := rfl

theorem freeGraph_step (inv : L → L) (eps : L) (gens : List L) (g h q : L) :
    ((freeGraph inv eps gens).get? g).bind (·.get? h) = some q ↔
      q = h ∧ g ∈ eps :: (gens ++ gens.map inv) ∧ h ∈ gens ++ gens.map inv ∧ inv h ≠ g := by
  unfold freeGraph
  simp only []
  rw [get?_foldl_set_fun]
  by_cases hg : g ∈ eps :: (gens ++ gens.map inv)
  · simp only [hg, if_true, Option.bind_some, true_and]
    rw [get?_foldl_set_fun]
    simp only [List.mem_filter, Bool.not_eq_eq_eq_not, Bool.not_true, decide_eq_false_iff_not]
    by_cases hh : h ∈ gens ++ gens.map inv ∧ ¬ inv h = g
    · simp only [hh, and_self, if_true, Option.some.injEq, ne_eq, not_false_eq_true, and_true]
      exact eq_comm
    · simp only [hh, if_false]
      constructor
      · intro x; cases x
      · rintro ⟨-, h1, h2⟩ <;> exact absurd ⟨h1, h2⟩ hh
  · simp [hg]

theorem freeGraph_nodup2 (inv : L → L) (eps : L) (gens : List L) : Nodup2 (freeGraph inv eps gens) := by
  refine ⟨foldl_set_fun_nodup _ _, ?_⟩
  intro k row hrow
  unfold freeGraph at hrow
  simp only [] at hrow
  rw [get?_foldl_set_fun] at hrow
  split at hrow
  · cases hrow; exact foldl_set_fun_nodup _ _
  · cases hrow

/-- `free_automaton(gens)` is well-formed, for every generating set (repetitions, the empty name
and generators equal to their own inverse included) -/
theorem wf_free (inv : L → L) (eps : L) (gens : List L) : (free inv eps gens).WF := by
  rw [free_eq]; exact wf_fromGraphDict _ _ (freeGraph_nodup2 inv eps gens)

/-- the edges of `free_automaton(gens)`: from every vertex `g` (the empty word or a generator or an
inverse) an edge labelled `h` to the vertex `h`, for every `h ≠ g⁻¹` -/
theorem step_free (inv : L → L) (eps : L) (gens : List L) (g h q : L) :
    (free inv eps gens).step g h = some q ↔
      q = h ∧ g ∈ eps :: (gens ++ gens.map inv) ∧ h ∈ gens ++ gens.map inv ∧ inv h ≠ g := by
  rw [free_eq, step_fromGraphDict]; exact freeGraph_step inv eps gens g h q

/-! ### `kbmag_utils.build_dict` -/

/-- the row `n_dict` built for one line of the transition table -/
def kbRow (labels : List L) (toFilter : List Nat) (row : List Nat) : Dict L Nat :=
  (labels.zip row).foldl (fun nd lv => if lv.2 ∈ toFilter then nd else nd.set lv.1 lv.2) []

theorem kbRow_eq (labels : List L) (toFilter : List Nat) (row : List Nat) :
    kbRow labels toFilter row =
      ((labels.zip row).filter fun lv => !decide (lv.2 ∈ toFilter)).foldl (fun d p => Dict.set d p.1 p.2) [] := by
  unfold kbRow
  generalize ([] : Dict L Nat) = d
  induction labels.zip row generalizing d with
  | nil => rfl
  | cons p r ih =>
    simp only [List.foldl_cons, List.filter_cons]
    by_cases h : p.2 ∈ toFilter
    · simp [h, ih]
    · simp [h, ih]

theorem zip_functional {α β : Type} (xs : List α) (ys : List β) (hx : xs.Nodup) :
    ∀ k v₁ v₂, (k, v₁) ∈ xs.zip ys → (k, v₂) ∈ xs.zip ys → v₁ = v₂ := by
  induction xs generalizing ys with
  | nil => intro k v₁ v₂ h; simp at h
  | cons x xs ih =>
    cases ys with
    | nil => intro k v₁ v₂ h; simp at h
    | cons y ys =>
      simp only [List.nodup_cons] at hx
      intro k v₁ v₂ h₁ h₂
      simp only [List.zip_cons_cons, List.mem_cons, Prod.mk.injEq] at h₁ h₂
      rcases h₁ with ⟨rfl, rfl⟩ | h₁ <;> rcases h₂ with ⟨e, rfl⟩ | h₂
      · rfl
      · exact absurd (List.of_mem_zip h₂).1 hx.1
      · subst e; exact absurd (List.of_mem_zip h₁).1 hx.1
      · exact ih ys hx.2 k v₁ v₂ h₁ h₂

theorem kbRow_get? (labels : List L) (hl : labels.Nodup) (toFilter : List Nat) (row : List Nat)
    (l : L) (t : Nat) :
    (kbRow labels toFilter row).get? l = some t ↔ (l, t) ∈ labels.zip row ∧ t ∉ toFilter := by
  rw [kbRow_eq, get?_foldl_set]
  · simp [List.mem_filter]
  · intro k v₁ v₂ h₁ h₂
    exact zip_functional labels row hl k v₁ v₂ (List.mem_filter.1 h₁).1 (List.mem_filter.1 h₂).1

theorem kbRow_nodup (labels : List L) (toFilter : List Nat) (row : List Nat) :
    (kbRow labels toFilter row).keys.Nodup := by
  rw [kbRow_eq]; exact foldl_set_keys_nodup _ _ (by simp)

theorem buildDict_eq (transitions : List (List Nat)) (labels : List L) (toFilter : List Nat) :
    buildDict transitions labels toFilter =
      (transitions.zipIdx.map fun ni => (ni.2 + 1, kbRow labels toFilter ni.1)).foldl
        (fun d p => Dict.set d p.1 p.2) [] := by
  unfold buildDict
  rw [List.foldl_map]
  rfl

theorem mem_zipIdx_iff {α : Type} (xs : List α) (x : α) (i : Nat) :
    (x, i) ∈ xs.zipIdx ↔ xs[i]? = some x := by
  rw [List.mem_zipIdx_iff_getElem?]

/-- **`build_dict` reproduces the table**: row `i` (0-based) of the table becomes the vertex
`i + 1`, whose `labels[j]`-edge goes to `transitions[i][j]` unless that entry is filtered -/
theorem buildDict_get? (transitions : List (List Nat)) (labels : List L) (toFilter : List Nat) (v : Nat) :
    (buildDict transitions labels toFilter).get? v =
      if 1 ≤ v ∧ v ≤ transitions.length then
        (transitions[v - 1]?).map (kbRow labels toFilter) else none := by
  rw [buildDict_eq]
  have hf : ∀ k (v₁ v₂ : Dict L Nat),
      (k, v₁) ∈ transitions.zipIdx.map (fun ni => (ni.2 + 1, kbRow labels toFilter ni.1)) →
      (k, v₂) ∈ transitions.zipIdx.map (fun ni => (ni.2 + 1, kbRow labels toFilter ni.1)) → v₁ = v₂ := by
    intro k v₁ v₂ h₁ h₂
    simp only [List.mem_map, Prod.mk.injEq, Prod.exists] at h₁ h₂
    obtain ⟨r₁, i₁, m₁, rfl, rfl⟩ := h₁
    obtain ⟨r₂, i₂, m₂, e, rfl⟩ := h₂
    have : i₂ = i₁ := by omega
    subst this
    rw [mem_zipIdx_iff] at m₁ m₂
    rw [m₁] at m₂; cases m₂; rfl
  have key := get?_foldl_set _ hf ([] : Dict Nat (Dict L Nat)) v
  by_cases hv : 1 ≤ v ∧ v ≤ transitions.length
  · simp only [hv, and_self, if_true]
    have hlt : v - 1 < transitions.length := by omega
    rw [List.getElem?_eq_getElem hlt]
    simp only [Option.map_some]
    apply (key _).2
    left
    simp only [List.mem_map, Prod.mk.injEq, Prod.exists]
    refine ⟨transitions[v - 1], v - 1, ?_, by omega, rfl⟩
    rw [mem_zipIdx_iff, List.getElem?_eq_getElem hlt]
  · simp only [hv, if_false]
    cases hg : Dict.get? (List.foldl (fun d p => Dict.set d p.1 p.2) []
        (transitions.zipIdx.map fun ni => (ni.2 + 1, kbRow labels toFilter ni.1))) v with
    | none => rfl
    | some r =>
      rcases (key r).1 hg with h1 | ⟨-, h2⟩
      · simp only [List.mem_map, Prod.mk.injEq, Prod.exists] at h1
        obtain ⟨r', i, m, rfl, -⟩ := h1
        rw [mem_zipIdx_iff] at m
        have : i < transitions.length := by
          rcases Nat.lt_or_ge i transitions.length with h | h
          · exact h
          · rw [List.getElem?_eq_none h] at m; cases m
        exact absurd ⟨by omega, by omega⟩ hv
      · simp at h2

theorem buildDict_nodup2 (transitions : List (List Nat)) (labels : List L) (toFilter : List Nat) :
    Nodup2 (buildDict transitions labels toFilter) := by
  refine ⟨by rw [buildDict_eq]; exact foldl_set_keys_nodup _ _ (by simp), ?_⟩
  intro k row hrow
  rw [buildDict_get?] at hrow
  split at hrow
  · cases h : transitions[k - 1]? with
    | none => simp [h] at hrow
    | some r => simp only [h, Option.map_some, Option.some.injEq] at hrow; subst hrow; exact kbRow_nodup _ _ _
  · cases hrow

/-- loading a kbmag table always gives a well-formed automaton -/
theorem wf_fromKbmag (transitions : List (List Nat)) (labels : List L) (initial : List Nat) :
    (fromKbmag transitions labels initial).WF :=
  wf_fromGraphDict _ _ (buildDict_nodup2 transitions labels [0])

/-- … whose edges are exactly the non-zero entries of the table (distinct alphabet names):
`i+1 —labels[j]→ t` iff `transitions[i][j] = t ≠ 0` -/
theorem step_fromKbmag (transitions : List (List Nat)) (labels : List L) (hl : labels.Nodup)
    (initial : List Nat) (v : Nat) (l : L) (t : Nat) :
    (fromKbmag transitions labels initial).step v l = some t ↔
      ∃ (i j : Nat) (row : List Nat), v = i + 1 ∧ transitions[i]? = some row ∧ labels[j]? = some l ∧ row[j]? = some t ∧ t ≠ 0 := by
  unfold fromKbmag
  rw [step_fromGraphDict, buildDict_get?]
  constructor
  · intro h
    split at h
    · rename_i hv
      cases hr : transitions[v - 1]? with
      | none => simp [hr] at h
      | some row =>
        simp only [hr, Option.map_some, Option.bind_some] at h
        obtain ⟨hm, ht⟩ := (kbRow_get? labels hl [0] row l t).1 h
        obtain ⟨j, hj⟩ := List.mem_iff_getElem?.1 hm
        rw [List.getElem?_zip_eq_some] at hj
        exact ⟨v - 1, j, row, by omega, hr, hj.1, hj.2, by simpa using ht⟩
    · simp at h
  · rintro ⟨i, j, row, rfl, hr, hl', ht, hne⟩
    have hlt : i < transitions.length := by
      rcases Nat.lt_or_ge i transitions.length with h | h
      · exact h
      · rw [List.getElem?_eq_none h] at hr; cases hr
    have : 1 ≤ i + 1 ∧ i + 1 ≤ transitions.length := ⟨by omega, by omega⟩
    simp only [this, and_self, if_true, Nat.add_sub_cancel, hr, Option.map_some, Option.bind_some]
    rw [kbRow_get? labels hl]
    refine ⟨?_, by simpa using hne⟩
    apply List.mem_iff_getElem?.2
    exact ⟨j, by rw [List.getElem?_zip_eq_some]; exact ⟨hl', ht⟩⟩

end GT.FSA
