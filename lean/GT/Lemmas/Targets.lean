import GT.Model.Targets
import GT.Lemmas.Charts
import GT.Lemmas.Triangle
import Mathlib.Tactic.FieldSimp
import Mathlib.Tactic.Ring
import Mathlib.Tactic.Linarith
import Mathlib.Tactic.Positivity
import Mathlib.Tactic.LinearCombination

open Finset BigOperators

set_option linter.unusedSectionVars false

namespace GT.Targets

section field
variable {K : Type*} [Field K] {n : ℕ}

theorem mink_lin_left (a b : K) (x y z : Fin (n + 1) → K) :
    mink (fun i => a * x i + b * y i) z = a * mink x z + b * mink y z := by
  simp only [mink, dot, Fin.tail]
  have : ∑ i : Fin n, (a * x i.succ + b * y i.succ) * z i.succ
      = a * ∑ i : Fin n, x i.succ * z i.succ + b * ∑ i : Fin n, y i.succ * z i.succ := by
    rw [Finset.mul_sum, Finset.mul_sum, ← Finset.sum_add_distrib]
    exact Finset.sum_congr rfl fun i _ => by ring
  rw [this]; ring

theorem mink_lin_right (a b : K) (x y z : Fin (n + 1) → K) :
    mink z (fun i => a * x i + b * y i) = a * mink z x + b * mink z y := by
  rw [mink_comm, mink_lin_left, mink_comm x, mink_comm y]

theorem mink_sub_left (x y z : Fin (n + 1) → K) :
    mink (fun i => x i - y i) z = mink x z - mink y z := by
  have : (fun i => x i - y i) = fun i => 1 * x i + (-1) * y i := by funext i; ring
  rw [this, mink_lin_left]; ring

theorem mink_sub_right (x y z : Fin (n + 1) → K) :
    mink z (fun i => x i - y i) = mink z x - mink z y := by
  rw [mink_comm, mink_sub_left, mink_comm x, mink_comm y]

theorem mink_add_left (x y z : Fin (n + 1) → K) :
    mink (fun i => x i + y i) z = mink x z + mink y z := by
  have : (fun i => x i + y i) = fun i => 1 * x i + 1 * y i := by funext i; ring
  rw [this, mink_lin_left]; ring

theorem mink_div_left (c : K) (x y : Fin (n + 1) → K) :
    mink (fun i => x i / c) y = mink x y / c := by
  have : (fun i => x i / c) = fun i => x i * c⁻¹ := by funext i; rw [div_eq_mul_inv]
  rw [this, mink_smul_left]; field_simp

theorem mink_div_right (c : K) (x y : Fin (n + 1) → K) :
    mink x (fun i => y i / c) = mink x y / c := by
  rw [mink_comm, mink_div_left, mink_comm]

theorem mink_mul_left (c : K) (x y : Fin (n + 1) → K) :
    mink (fun i => c * x i) y = c * mink x y := by
  have : (fun i => c * x i) = fun i => x i * c := by funext i; ring
  rw [this, mink_smul_left]

theorem mink_mul_right (c : K) (x y : Fin (n + 1) → K) :
    mink x (fun i => c * y i) = c * mink x y := by
  rw [mink_comm, mink_mul_left, mink_comm]

theorem dot_cons (a b : K) (x y : Fin n → K) :
    dot (Fin.cons a x : Fin (n + 1) → K) (Fin.cons b y) = a * b + dot x y := by
  unfold dot; rw [Fin.sum_univ_succ]; simp

theorem mink_cons (a b : K) (x y : Fin n → K) :
    mink (Fin.cons a x : Fin (n + 1) → K) (Fin.cons b y) = -(a * b) + dot x y := by
  simp [mink]

theorem dot_zero_left (y : Fin n → K) : dot (fun _ => (0 : K)) y = 0 := by simp [dot]

theorem dot_zero_right (y : Fin n → K) : dot y (fun _ => (0 : K)) = 0 := by simp [dot]

/-- `⟨projHyp p v, p⟩ = 0`: the projected vector is tangent to the hyperboloid at `p` -/
theorem mink_projHyp_base (p v : Fin (n + 1) → K) (hp : mink p p ≠ 0) :
    mink (projHyp p v) p = 0 := by
  unfold projHyp mproj
  have : (fun i => v i - p i * mink v p / mink p p)
      = fun i => 1 * v i + (-(mink v p / mink p p)) * p i := by funext i; ring
  rw [this, mink_lin_left]; field_simp; ring

/-- a vector already orthogonal to the base point is left alone -/
theorem projHyp_of_orth (p v : Fin (n + 1) → K) (h : mink v p = 0) : projHyp p v = v := by
  funext i; simp [projHyp, mproj, h]

theorem projHyp_idem (p v : Fin (n + 1) → K) (hp : mink p p ≠ 0) :
    projHyp p (projHyp p v) = projHyp p v :=
  projHyp_of_orth p _ (mink_projHyp_base p v hp)

/-- the projection is blind to the scale of the base point -/
theorem projHyp_smul_base (c : K) (hc : c ≠ 0) (p v : Fin (n + 1) → K) (hp : mink p p ≠ 0) :
    projHyp (fun i => p i / c) v = projHyp p v := by
  funext i
  simp only [projHyp, mproj, mink_div_left, mink_div_right]
  field_simp

theorem mink_projHyp (p v w : Fin (n + 1) → K) (hp : mink p p ≠ 0) :
    mink (projHyp p v) (projHyp p w) = mink v w - mink v p * mink w p / mink p p := by
  unfold projHyp mproj
  have e1 : (fun i => v i - p i * mink v p / mink p p)
      = fun i => 1 * v i + (-(mink v p / mink p p)) * p i := by funext i; ring
  have e2 : (fun i => w i - p i * mink w p / mink p p)
      = fun i => 1 * w i + (-(mink w p / mink p p)) * p i := by funext i; ring
  rw [e1, e2, mink_lin_left, mink_lin_right, mink_lin_right, mink_comm p w]
  field_simp; ring

end field

section ordered
variable {K : Type*} [Field K] [LinearOrder K] [IsStrictOrderedRing K] {n : ℕ} {r : K → K}

theorem isSqrt_mul_self (hr : IsSqrt r) {a : K} (ha : 0 ≤ a) : r (a * a) = a := by
  have := hr.sq ha; rwa [pow_two] at this

theorem isSqrt_one (hr : IsSqrt r) : r 1 = 1 := by
  simpa using hr.sq (zero_le_one (α := K))

theorem normalize_timelike (hr : IsSqrt r) (x : Fin (n + 1) → K) (hx : mink x x < 0) :
    normalize r x = fun i => x i / r (-mink x x) := by
  have h := hr.pos (neg_pos.2 hx)
  unfold normalize
  rw [abs_of_neg hx, if_neg h.ne']

theorem normalize_spacelike (hr : IsSqrt r) (x : Fin (n + 1) → K) (hx : 0 < mink x x) :
    normalize r x = fun i => x i / r (mink x x) := by
  have h := hr.pos hx
  unfold normalize
  rw [abs_of_pos hx, if_neg h.ne']

/-- `normalize` does nothing to a vector of norm `±1` -/
theorem normalize_unit (hr : IsSqrt r) (x : Fin (n + 1) → K) (hx : |mink x x| = 1) :
    normalize r x = x := by
  unfold normalize; rw [hx, isSqrt_one hr]; simp

theorem mink_normalize_spacelike (hr : IsSqrt r) (x : Fin (n + 1) → K) (hx : 0 < mink x x) :
    mink (normalize r x) (normalize r x) = 1 := by
  have h := hr.pos hx
  have h2 := (hr _ hx.le).2
  rw [normalize_spacelike hr x hx, mink_div_left, mink_div_right]
  field_simp
  linear_combination -h2

/-- strict positivity on the orthogonal complement of a timelike vector -/
theorem pos_of_orth_timelike (u y : Fin (n + 1) → K) (hy : mink y y < 0) (h : mink u y = 0)
    (hu : u ≠ 0) : 0 < mink u u := by
  have hy0 : y 0 ≠ 0 := by
    intro h0
    have : mink y y = nsq (Fin.tail y) := by unfold mink nsq; rw [h0]; ring
    linarith [nsq_nonneg (Fin.tail y)]
  rcases (nonneg_of_orth_timelike u y hy h).lt_or_eq with hpos | h0
  · exact hpos
  · exfalso
    -- a null vector orthogonal to a timelike one vanishes: use `u ± y`-type argument via
    -- the projection of every `w` … instead: for every `w ⟂ y`, `⟨u,w⟩ = 0` by
    -- semidefiniteness, and `u` is then in the radical of a non-degenerate form.
    apply hu
    -- semidefinite Cauchy–Schwarz on `y^⊥`: ⟨u,w⟩² ≤ ⟨u,u⟩⟨w,w⟩ = 0
    have key : ∀ w : Fin (n + 1) → K, mink w y = 0 → mink u w = 0 := by
      intro w hw
      by_contra hne
      -- take t with ⟨u + t w, u + t w⟩ = 2t⟨u,w⟩ + t²⟨w,w⟩ < 0
      have hq : ∀ t : K, 0 ≤ 2 * t * mink u w + t ^ 2 * mink w w := by
        intro t
        have h1 : mink (fun i => 1 * u i + t * w i) y = 0 := by
          rw [mink_lin_left, h, hw]; ring
        have := nonneg_of_orth_timelike _ y hy h1
        rw [mink_lin_left, mink_lin_right, mink_lin_right, ← h0, mink_comm w u] at this
        linarith
      have hww : 0 ≤ mink w w := nonneg_of_orth_timelike w y hy hw
      have := hq (-(mink u w) / (1 + mink w w))
      have hpos : 0 < 1 + mink w w := by linarith
      have hsq : 0 < mink u w ^ 2 := by positivity
      have e : 2 * (-(mink u w) / (1 + mink w w)) * mink u w
          + (-(mink u w) / (1 + mink w w)) ^ 2 * mink w w
          = -(mink u w ^ 2) * (2 + mink w w) / (1 + mink w w) ^ 2 := by
        field_simp; ring
      rw [e] at this
      have : 0 < mink u w ^ 2 * (2 + mink w w) / (1 + mink w w) ^ 2 := by positivity
      have h3 : -(mink u w ^ 2) * (2 + mink w w) / (1 + mink w w) ^ 2
          = -(mink u w ^ 2 * (2 + mink w w) / (1 + mink w w) ^ 2) := by ring
      linarith
    -- apply `key` to the projections of the coordinate vectors
    funext j
    have hj := key (projHyp y (fun i => if i = j then 1 else 0))
      (mink_projHyp_base y _ hy.ne)
    -- ⟨u, projHyp y e_j⟩ = ⟨u, e_j⟩ - ⟨e_j,y⟩⟨u,y⟩/⟨y,y⟩ = ⟨u, e_j⟩
    unfold projHyp mproj at hj
    rw [mink_sub_right] at hj
    have e2 : mink u (fun i => y i * mink (fun i => if i = j then (1 : K) else 0) y / mink y y)
        = 0 := by
      have : (fun i => y i * mink (fun i => if i = j then (1 : K) else 0) y / mink y y)
          = fun i => y i * (mink (fun i => if i = j then (1 : K) else 0) y / mink y y) := by
        funext i; ring
      rw [this, mink_smul_right, h]; ring
    rw [e2, sub_zero] at hj
    -- ⟨u, e_j⟩ = ± u j
    have e3 : mink u (fun i => if i = j then (1 : K) else 0) = if j = 0 then -u 0 else u j := by
      unfold mink dot
      refine Fin.cases ?_ (fun k => ?_) j
      · simp [Fin.tail, Fin.succ_ne_zero]
      · simp [Fin.tail, Fin.succ_ne_zero, (Fin.succ_ne_zero k).symm, Fin.succ_inj]
    rw [e3] at hj
    by_cases hj0 : j = 0
    · subst hj0; simp at hj; simpa using hj
    · simpa [hj0] using hj

end ordered
end GT.Targets

/-! ### the upper-sheet representative (`origin_to`, repaired) -/
namespace GT.Targets
section sheet
variable {K : Type*} [Field K] [LinearOrder K] [IsStrictOrderedRing K] {n : ℕ} {r : K → K}

theorem sheetSign_mul_self (x : Fin (n + 1) → K) : sheetSign x * sheetSign x = 1 := by
  unfold sheetSign; split_ifs <;> ring

theorem sheetSign_ne_zero (x : Fin (n + 1) → K) : sheetSign x ≠ 0 := by
  intro h; have := sheetSign_mul_self x; rw [h] at this; simp at this

theorem sheetSign_div (x : Fin (n + 1) → K) (c : K) (hc : 0 < c) :
    sheetSign (fun i => x i / c) = sheetSign x := by
  unfold sheetSign
  have : (x 0 / c < 0) ↔ (x 0 < 0) := by
    constructor
    · intro h; by_contra h'; exact absurd h (not_lt.2 (div_nonneg (not_lt.1 h') hc.le))
    · intro h; exact div_neg_of_neg_of_pos h hc
  simp only [this]

/-- the time coordinate of the upper-sheet representative is non-negative -/
theorem upperSheet_zero_nonneg (x : Fin (n + 1) → K) : 0 ≤ upperSheet x 0 := by
  unfold upperSheet sheetSign; split_ifs with h <;> [linarith; (have := not_lt.1 h; linarith)]

theorem mink_upperSheet (x y : Fin (n + 1) → K) (σ : K) (hσ : σ * σ = 1) :
    mink (fun i => σ * x i) (fun i => σ * y i) = mink x y := by
  rw [mink_mul_left, mink_mul_right, ← mul_assoc, hσ, one_mul]

end sheet
end GT.Targets

/-! ### regular polygons -/
namespace GT.Targets

section field
variable {K : Type*} [Field K] {n : ℕ}

theorem exists_cons3 (v : Fin (n + 3) → K) :
    ∃ (a b d : K) (x : Fin n → K), v = Fin.cons a (Fin.cons b (Fin.cons d x)) :=
  ⟨v 0, Fin.tail v 0, Fin.tail (Fin.tail v) 0, Fin.tail (Fin.tail (Fin.tail v)), by
    rw [Fin.cons_self_tail, Fin.cons_self_tail, Fin.cons_self_tail]⟩

theorem rotApply_cons (c s a b d : K) (x : Fin n → K) :
    rotApply c s (Fin.cons a (Fin.cons b (Fin.cons d x)) : Fin (n + 3) → K)
      = Fin.cons a (Fin.cons (c * b - s * d) (Fin.cons (s * b + c * d) x)) := by
  simp [rotApply, Fin.tail_cons]

theorem mink_cons3 (a b d a' b' d' : K) (x x' : Fin n → K) :
    mink (Fin.cons a (Fin.cons b (Fin.cons d x)) : Fin (n + 3) → K)
        (Fin.cons a' (Fin.cons b' (Fin.cons d' x')))
      = -(a * a') + b * b' + d * d' + dot x x' := by
  rw [mink_cons, dot_cons, dot_cons]; ring

/-- the standard rotation preserves the Minkowski form -/
theorem mink_rotApply (c s : K) (hcs : c ^ 2 + s ^ 2 = 1) (v w : Fin (n + 3) → K) :
    mink (rotApply c s v) (rotApply c s w) = mink v w := by
  obtain ⟨a, b, d, x, rfl⟩ := exists_cons3 v
  obtain ⟨a', b', d', x', rfl⟩ := exists_cons3 w
  rw [rotApply_cons, rotApply_cons, mink_cons3, mink_cons3]
  linear_combination (b * b' + d * d') * hcs

/-- … and fixes the origin `e₀` -/
theorem rotApply_origin (c s : K) : rotApply c s (polyStart (n := n) 0) = polyStart 0 := by
  unfold polyStart
  have : (fun _ => (0 : K)) = (Fin.cons 0 (fun _ => 0) : Fin (n + 1) → K) := by
    funext i; refine Fin.cases ?_ (fun j => ?_) i <;> simp
  rw [this, rotApply_cons]; simp

/-- every vertex is `(1, th·a, th·b, 0, …)` with `(a, b)` on the unit circle -/
theorem polyVertex_form (c s th : K) (hcs : c ^ 2 + s ^ 2 = 1) (i : ℕ) :
    ∃ a b : K, a ^ 2 + b ^ 2 = 1 ∧
      polyVertex (n := n) c s th i = Fin.cons 1 (Fin.cons (th * a) (Fin.cons (th * b) fun _ => 0)) := by
  induction i with
  | zero =>
    refine ⟨1, 0, by ring, ?_⟩
    show polyStart th = _
    unfold polyStart
    rw [mul_one, mul_zero]; congr 1; congr 1
    funext i; refine Fin.cases ?_ (fun j => ?_) i <;> simp
  | succ i ih =>
    obtain ⟨a, b, hab, hv⟩ := ih
    refine ⟨c * a - s * b, s * a + c * b, by linear_combination (a ^ 2 + b ^ 2) * hcs + hab, ?_⟩
    show rotApply c s (polyVertex c s th i) = _
    rw [hv, rotApply_cons]; congr 1; congr 1
    · ring
    · congr 1; ring

theorem mink_polyVertex_succ (c s th : K) (hcs : c ^ 2 + s ^ 2 = 1) (i j : ℕ) :
    mink (polyVertex (n := n) c s th (i + 1)) (polyVertex c s th (j + 1))
      = mink (polyVertex (n := n) c s th i) (polyVertex c s th j) :=
  mink_rotApply c s hcs _ _

/-- Gram entries of the vertices depend only on the index difference -/
theorem mink_polyVertex_shift (c s th : K) (hcs : c ^ 2 + s ^ 2 = 1) (i k : ℕ) :
    mink (polyVertex (n := n) c s th i) (polyVertex c s th (i + k))
      = mink (polyVertex (n := n) c s th 0) (polyVertex c s th k) := by
  induction i with
  | zero => simp
  | succ i ih =>
    have : i + 1 + k = (i + k) + 1 := by ring
    rw [this, mink_polyVertex_succ c s th hcs, ih]

theorem polyVertex_zero (th : K) (c s : K) :
    polyVertex (n := n) c s th 0 = Fin.cons 1 (Fin.cons th (Fin.cons 0 fun _ => 0)) := by
  show polyStart th = _
  unfold polyStart; congr 1; congr 1
  funext i; refine Fin.cases ?_ (fun j => ?_) i <;> simp

theorem polyVertex_one (th c s : K) :
    polyVertex (n := n) c s th 1
      = Fin.cons 1 (Fin.cons (c * th) (Fin.cons (s * th) fun _ => 0)) := by
  show rotApply c s (polyVertex c s th 0) = _
  rw [polyVertex_zero, rotApply_cons]; simp

theorem polyVertex_two (th c s : K) :
    polyVertex (n := n) c s th 2
      = Fin.cons 1 (Fin.cons (c * (c * th) - s * (s * th))
          (Fin.cons (s * (c * th) + c * (s * th)) fun _ => 0)) := by
  show rotApply c s (polyVertex c s th 1) = _
  rw [polyVertex_one, rotApply_cons]

/-- the three Gram entries every side/angle computation needs -/
theorem gram_polyVertex (c s th : K) (hcs : c ^ 2 + s ^ 2 = 1) (i : ℕ) :
    mink (polyVertex (n := n) c s th i) (polyVertex c s th i) = -1 + th ^ 2 ∧
    mink (polyVertex (n := n) c s th i) (polyVertex c s th (i + 1)) = -1 + th ^ 2 * c ∧
    mink (polyVertex (n := n) c s th i) (polyVertex c s th (i + 2))
      = -1 + th ^ 2 * (2 * c ^ 2 - 1) := by
  refine ⟨?_, ?_, ?_⟩
  · have := mink_polyVertex_shift (n := n) c s th hcs i 0
    simp only [Nat.add_zero] at this
    rw [this, polyVertex_zero, mink_cons3, dot_zero_left]; ring
  · rw [mink_polyVertex_shift c s th hcs, polyVertex_zero, polyVertex_one, mink_cons3,
      dot_zero_left]; ring
  · rw [mink_polyVertex_shift c s th hcs, polyVertex_zero, polyVertex_two, mink_cons3,
      dot_zero_left]
    linear_combination (-(th ^ 2)) * hcs

end field
end GT.Targets
