/-
C05, `Representation.subgroup(generators, compute_inverse=False)`: every step first stores
`g ↦ ρ(word)` *without* an inverse and then assigns the inverse letter
`ρ.invert_gen(g) ↦ ρ(formal_inverse(word))` with the default `compute_inverse=True`, which
overwrites `g` once more (with `utils.invert` of the inverse word's value).  The resulting
representation is nevertheless the substitution homomorphism, and its dict is well formed.
-/
import GT.Lemmas.RepDerived
import GT.Lemmas.Fox

namespace GT.RepW
open Matrix

namespace Rep
variable {n : ℕ} {R : Type} [Inhabited R] [CommRing R]

/-! ### well-formedness and look-ups only depend on `dget` -/

omit [Inhabited R] [CommRing R] in
theorem gen_congr {τa τb : Rep n R} (h : ∀ x, dget τb.gens x = dget τa.gens x) (x : Gen) :
    τb.gen x = τa.gen x := by
  unfold gen; rw [h x]

omit [CommRing R] in
theorem genM_congr {τa τb : Rep n R} (h : ∀ x, dget τb.gens x = dget τa.gens x) (x : Gen) :
    τb.genM x = τa.genM x := by
  unfold genM; rw [gen_congr h x]

/-- two dicts with the same look-ups (insertion order may differ) and the same inverse map are
well formed together -/
theorem wf_of_lookup {τa τb : Rep n R} (hwf : τa.WF) (hi : τb.inv = τa.inv)
    (h : ∀ x, dget τb.gens x = dget τa.gens x) : τb.WF := by
  constructor
  · intro g A hg
    rw [genM_congr h] at hg
    obtain ⟨B, hB, h1, h2⟩ := hwf.coh g A hg
    exact ⟨B, by rw [genM_congr h, hi]; exact hB, h1, h2⟩
  · intro g A hg
    rw [genM_congr h] at hg
    rw [hi]; exact hwf.invol g A hg

/-! ### the loop body of `subgroup(..., compute_inverse=False)` -/

/-- loop body of `subgroup(..., compute_inverse=False)` -/
def noinvStep (invert : DMat n n R → Option (DMat n n R)) (ρ : Rep n R) (σ : Rep n R)
    (gw : Gen × Word) : M? (Rep n R) := do
  let v ← ρ.wordValue gw.2
  let σ1 ← σ.setGenerator invert gw.1 v false
  let vi ← ρ.wordValue (formalInverse ρ.inv gw.2)
  σ1.setGenerator invert (ρ.inv gw.1) vi true

theorem subgroup_noinv_fold (invert : DMat n n R → Option (DMat n n R)) (ρ : Rep n R)
    (pairs : List (Gen × Word)) (rels : List Word) :
    ρ.subgroup invert pairs false rels
      = pairs.foldlM (noinvStep invert ρ)
          ({ gens := [], inv := invertGen, parseSimple := true, relations := rels } : Rep n R) := rfl

/-- what a successful step did -/
theorem noinvStep_ok {invert : DMat n n R → Option (DMat n n R)} {ρ τ τ2 : Rep n R}
    {gw : Gen × Word} (hs : noinvStep invert ρ τ gw = .ok τ2) :
    ∃ v vi X, ρ.wordValue gw.2 = .ok v ∧ ρ.wordValue (formalInverse ρ.inv gw.2) = .ok vi ∧
      validName gw.1 = true ∧ validName (ρ.inv gw.1) = true ∧ invert vi = some X ∧
      τ2 = { τ with gens := dset (dset (dset τ.gens gw.1 v) (ρ.inv gw.1) vi) (τ.inv (ρ.inv gw.1)) X } := by
  unfold noinvStep at hs
  cases hv : ρ.wordValue gw.2 with
  | error e => rw [hv] at hs; cases hs
  | ok v =>
    rw [hv] at hs
    simp only [bind, Except.bind] at hs
    cases h1 : τ.setGenerator invert gw.1 v false with
    | error e => rw [h1] at hs; cases hs
    | ok σ1 =>
      rw [h1] at hs
      simp only at hs
      obtain ⟨rfl, hval⟩ := setGenerator_noinv h1
      cases hvi : ρ.wordValue (formalInverse ρ.inv gw.2) with
      | error e => rw [hvi] at hs; cases hs
      | ok vi =>
        rw [hvi] at hs
        simp only at hs
        unfold setGenerator at hs
        split_ifs at hs with hv2 h2
        swap
        · exact absurd rfl h2
        simp only at hs
        cases hX : invert vi with
        | none => rw [hX] at hs; cases hs
        | some X =>
          rw [hX] at hs
          cases hs
          exact ⟨v, vi, X, rfl, rfl, hval, by simpa using hv2, hX, rfl⟩

/-- one step keeps the dict invariant, stores the value of the formal inverse at the inverse
letter and touches no other pair of names -/
theorem noinvStep_spec {invert : DMat n n R → Option (DMat n n R)} (hinv : InvertOK invert)
    {ρ τ τ2 : Rep n R} {gw : Gen × Word} (hwf : τ.WF) (hτi : τ.inv = invertGen)
    (hi : ρ.inv gw.1 = invertGen gw.1) (h2 : invertGen (invertGen gw.1) = gw.1)
    (h1 : invertGen gw.1 ≠ gw.1) (hs : noinvStep invert ρ τ gw = .ok τ2) :
    τ2.WF ∧ τ2.inv = invertGen ∧
      (∃ vi, ρ.wordValue (formalInverse ρ.inv gw.2) = .ok vi ∧ τ2.gen (invertGen gw.1) = .ok vi) ∧
      ∀ x, x ≠ gw.1 → x ≠ invertGen gw.1 → τ2.gen x = τ.gen x := by
  obtain ⟨v, vi, X, _, hvi, _, hval, hX, hτ2⟩ := noinvStep_ok hs
  have e : τ.inv (invertGen gw.1) = gw.1 := by rw [hτi, h2]
  rw [hi] at hval
  rw [hi, e] at hτ2
  subst hτ2
  -- the same assignment without the preliminary `g ↦ v`
  have hset : τ.setGenerator invert (invertGen gw.1) vi true
      = .ok { τ with gens := dset (dset τ.gens (invertGen gw.1) vi) gw.1 X } := by
    unfold setGenerator
    rw [hval, hX, e]
    rfl
  have hwfa := setGenerator_wf hinv hwf (by rw [hτi, h2]) (by rw [hτi, h2]; exact Ne.symm h1) hset
  have look : ∀ x, dget (dset (dset (dset τ.gens gw.1 v) (invertGen gw.1) vi) gw.1 X) x
      = dget (dset (dset τ.gens (invertGen gw.1) vi) gw.1 X) x := by
    intro x
    simp only [dget_dset]
    split_ifs <;> rfl
  refine ⟨wf_of_lookup hwfa rfl look, hτi, ⟨vi, hvi, ?_⟩, ?_⟩
  · rw [gen_ok_iff]
    show dget (dset (dset (dset τ.gens gw.1 v) (invertGen gw.1) vi) gw.1 X) (invertGen gw.1) = some vi
    rw [dget_dset_ne _ _ h1, dget_dset_self]
  · intro x hx1 hx2
    have e3 : dget (dset (dset (dset τ.gens gw.1 v) (invertGen gw.1) vi) gw.1 X) x = dget τ.gens x := by
      rw [dget_dset_ne _ _ hx1, dget_dset_ne _ _ hx2, dget_dset_ne _ _ hx1]
    unfold gen
    simp only [e3]

/-- the whole loop: from a well-formed start (default `invert_gen`) the result is well formed
and holds, at every inverse letter, the value of the formal inverse of the generator's word -/
theorem noinv_fold {invert : DMat n n R → Option (DMat n n R)} (hinv : InvertOK invert)
    (ρ : Rep n R) (pairs : List (Gen × Word)) :
    ∀ (τ0 τ : Rep n R), τ0.WF → τ0.inv = invertGen → NamesOK invertGen (pairs.map Prod.fst) →
      (∀ g ∈ pairs.map Prod.fst, ρ.inv g = invertGen g) →
      pairs.foldlM (noinvStep invert ρ) τ0 = .ok τ →
      τ.WF ∧ τ.inv = invertGen ∧
        (∀ gw ∈ pairs, ∃ vi, ρ.wordValue (formalInverse ρ.inv gw.2) = .ok vi ∧
          τ.gen (invertGen gw.1) = .ok vi) ∧
        (∀ x, x ∉ pairs.map Prod.fst → (∀ g ∈ pairs.map Prod.fst, x ≠ invertGen g) →
          τ.gen x = τ0.gen x) := by
  induction pairs with
  | nil =>
    intro τ0 τ hwf hi0 _ _ hf
    simp only [List.foldlM_nil, pure, Except.pure, Except.ok.injEq] at hf
    subst hf
    exact ⟨hwf, hi0, by simp, by simp⟩
  | cons gw pairs ih =>
    intro τ0 τ hwf hi0 hn hi hf
    rw [List.foldlM_cons] at hf
    cases hs : noinvStep invert ρ τ0 gw with
    | error e => rw [hs] at hf; cases hf
    | ok τ1 =>
      rw [hs] at hf
      simp only [bind, Except.bind] at hf
      have hmem : gw.1 ∈ (gw :: pairs).map Prod.fst := by simp
      obtain ⟨hwf1, hi1, ⟨vi, hvi, hg1⟩, hoth⟩ := noinvStep_spec hinv hwf hi0 (hi _ hmem)
        (hn.invol _ hmem) (hn.sep _ hmem _ hmem) hs
      have hnd : gw.1 ∉ pairs.map Prod.fst ∧ (pairs.map Prod.fst).Nodup := List.nodup_cons.1 hn.nodup
      have hn' : NamesOK invertGen (pairs.map Prod.fst) :=
        ⟨hnd.2, fun g hg => hn.invol g (by simp only [List.map_cons]; exact List.mem_cons_of_mem _ hg),
          fun g hg h hh => hn.sep g (by simp only [List.map_cons]; exact List.mem_cons_of_mem _ hg) h
            (by simp only [List.map_cons]; exact List.mem_cons_of_mem _ hh)⟩
      obtain ⟨w1, w2, w3, w4⟩ := ih τ1 τ hwf1 hi1 hn'
        (fun g hg => hi g (by simp only [List.map_cons]; exact List.mem_cons_of_mem _ hg)) hf
      refine ⟨w1, w2, ?_, ?_⟩
      · intro x hx
        rcases List.mem_cons.1 hx with rfl | hx
        · refine ⟨vi, hvi, ?_⟩
          rw [w4 (invertGen x.1) ?_ ?_, hg1]
          · intro hm
            exact hn.sep x.1 hmem _ (by simp only [List.map_cons]; exact List.mem_cons_of_mem _ hm) rfl
          · intro g hg e
            have hg' : g ∈ (x :: pairs).map Prod.fst := by
              simp only [List.map_cons]; exact List.mem_cons_of_mem _ hg
            have : x.1 = g := by rw [← hn.invol _ hmem, e, hn.invol _ hg']
            exact hnd.1 (this ▸ hg)
        · exact w3 x hx
      · intro x hx hx'
        simp only [List.map_cons, List.mem_cons, not_or] at hx
        rw [w4 x hx.2 (fun g hg => hx' g (by simp only [List.map_cons]; exact List.mem_cons_of_mem _ hg))]
        exact hoth x hx.1 (hx' _ hmem)

/-! ### the substitution at a generator and at its inverse letter -/

theorem substLetter_gen (inv : Gen → Gen) {pairs : List (Gen × Word)} {g : Gen} {w : Word}
    (hw : dget pairs g = some w) : substLetter inv pairs g = w := by
  simp [substLetter, hw]

theorem substLetter_invGen (inv : Gen → Gen) {pairs : List (Gen × Word)}
    (hn : NamesOK invertGen (pairs.map Prod.fst)) {g : Gen} {w : Word} (hw : dget pairs g = some w) :
    substLetter inv pairs (invertGen g) = formalInverse inv w := by
  have hmem : (g, w) ∈ pairs := mem_of_dget pairs hw
  have hg : g ∈ pairs.map Prod.fst := List.mem_map_of_mem (f := Prod.fst) hmem
  have hnone : dget pairs (invertGen g) = none := by
    rw [dget_eq_none_iff]
    intro hm
    exact hn.sep g hg _ hm rfl
  cases hf : pairs.find? (fun gw => invertGen gw.1 = invertGen g) with
  | none =>
    have := List.find?_eq_none.1 hf (g, w) hmem
    simp at this
  | some gw =>
    have hm := List.mem_of_find?_eq_some hf
    have hp := List.find?_some hf
    simp only [decide_eq_true_eq] at hp
    have hgw : gw.1 = g := by
      have h1 := hn.invol gw.1 (List.mem_map_of_mem (f := Prod.fst) hm)
      rw [hp, hn.invol g hg] at h1
      exact h1.symm
    have := dget_self_of_nodup pairs hn.nodup gw hm
    rw [hgw, hw] at this
    cases this
    simp [substLetter, hnone, hf]

/-! ### the theorem -/

/-- `rep.subgroup({g: word, …}, compute_inverse=False)`: a word in the new generators (and their
inverse letters) is sent to the image of the substituted word, and the new dict is well formed
(inverse letters hold mutually inverse matrices) -/
theorem subgroup_noinv_value {invert : DMat n n R → Option (DMat n n R)} (hinv : InvertOK invert)
    {ρ σ : Rep n R} {pairs : List (Gen × Word)} {rels : List Word}
    (hσ : ρ.subgroup invert pairs false rels = .ok σ) (hc : ρ.Coherent)
    (hn : NamesOK invertGen (pairs.map Prod.fst))
    (hi : ∀ g ∈ pairs.map Prod.fst, ρ.inv g = invertGen g)
    (u : Word) (hu : ∀ x ∈ u, x ∈ pairs.map Prod.fst ∨ ∃ g ∈ pairs.map Prod.fst, x = invertGen g)
    {A : Matrix (Fin n) (Fin n) R} (hA : ρ.value (substWord ρ.inv pairs u) = .ok A) :
    σ.value u = .ok A ∧ σ.WF := by
  rw [subgroup_noinv_fold] at hσ
  obtain ⟨hwf, hσi, hlook, _⟩ := noinv_fold hinv ρ pairs _ σ (wf_empty invertGen true rels) rfl hn hi hσ
  refine ⟨?_, hwf⟩
  refine value_of_letters hwf.coh ((pairs.map Prod.fst).map invertGen)
    (fun u X => ρ.value (substWord ρ.inv pairs u) = .ok X) ?_ ?_ ?_ ?_ u ?_ _ hA
  · intro X hX
    have : substWord ρ.inv pairs [] = [] := rfl
    rw [this, value_nil] at hX
    cases hX; rfl
  · intro x w X hX
    rw [substWord_cons] at hX
    obtain ⟨G, W, hG, hW, rfl⟩ := value_append_inv ρ hX
    exact ⟨G, W, hG, hW, rfl⟩
  · intro g' hg' G hG
    obtain ⟨g, hg, rfl⟩ := List.mem_map.1 hg'
    obtain ⟨w, hw⟩ := dget_of_mem pairs hg
    obtain ⟨vi, hvi, hgen⟩ := hlook (g, w) (mem_of_dget pairs hw)
    rw [substWord_single, substLetter_invGen ρ.inv hn hw, wordValue_value hvi] at hG
    cases hG
    rw [genM_ok_iff]
    exact ⟨vi, (gen_ok_iff _ _ _).1 hgen, rfl⟩
  · intro g' hg' Gi hGi
    obtain ⟨g, hg, rfl⟩ := List.mem_map.1 hg'
    obtain ⟨w, hw⟩ := dget_of_mem pairs hg
    rw [hσi, hn.invol g hg, substWord_single, substLetter_gen ρ.inv hw] at hGi
    refine ⟨Gi⁻¹, ?_, (value_isUnit hc hGi).2⟩
    rw [substWord_single, substLetter_invGen ρ.inv hn hw]
    exact value_formalInverse hc hGi
  · intro x hx
    rw [hσi]
    rcases hu x hx with h | ⟨g, hg, rfl⟩
    · exact Or.inr ⟨invertGen x, List.mem_map_of_mem (f := invertGen) h, (hn.invol x h).symm⟩
    · exact Or.inl (List.mem_map_of_mem (f := invertGen) hg)

end Rep

/-! ### a concrete instance (non-vacuity) -/

section examples
open Fox

/-- subgroup generated by `x = ab`, `y = bA`, inverse letters from the formal inverse words -/
example : ∃ σ A, exRep.subgroup Rep.invertZ [("x", ["a", "b"]), ("y", ["b", "A"])] false [] = .ok σ ∧
    exRep.value (["a", "b"] ++ ["a", "B"]) = .ok A ∧ σ.value ["x", "Y"] = .ok A ∧ σ.WF := by
  obtain ⟨σ, hσ⟩ : ∃ σ, exRep.subgroup Rep.invertZ [("x", ["a", "b"]), ("y", ["b", "A"])] false [] = .ok σ :=
    ⟨_, rfl⟩
  obtain ⟨A, hA⟩ : ∃ A, exRep.value (["a", "b"] ++ ["a", "B"]) = .ok A := ⟨_, rfl⟩
  have key := Rep.subgroup_noinv_value Rep.invertZ_ok hσ exRep_coherent
    ⟨by decide, by decide, by decide⟩ (by decide) ["x", "Y"] (by decide) (A := A) (by
      have : Rep.substWord exRep.inv [("x", ["a", "b"]), ("y", ["b", "A"])] ["x", "Y"]
          = ["a", "b"] ++ ["a", "B"] := by decide
      rw [this]; exact hA)
  exact ⟨σ, A, hσ, hA, key.1, key.2⟩

end examples

end GT.RepW
