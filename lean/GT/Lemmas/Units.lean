/-
`matrixProduct` at unit level in Mathlib's types: the entry-sum statements of
`GT.Lemmas.Obj` restated with `Matrix.vecMul` / `*` on the unit views of `GT.Model.Units`.
-/
import GT.Lemmas.Obj
import GT.Model.Units
import Mathlib.Algebra.BigOperators.Fin
import Mathlib.Data.Matrix.Mul

set_option linter.unusedSectionVars false
set_option linter.unusedSimpArgs false
set_option linter.unusedVariables false

open Finset BigOperators

namespace GT.Act
open ND

variable {K : Type} [Field K] [Inhabited K]

theorem sum_map_range (n : ℕ) (f : ℕ → K) :
    ((List.range n).map f).sum = ∑ j : Fin n, f j.1 := by
  induction n with
  | zero => simp
  | succ n ih =>
    rw [List.range_succ, List.map_append, List.sum_append, ih, Fin.sum_univ_castSucc]; simp

theorem mp12_units (mode : Bcast) (a₁ a₂ : ND K) {o1 o2 O : List ℕ} {n m : ℕ}
    (h₁ : a₁.shape = o1 ++ [n]) (h₂ : a₂.shape = o2 ++ [n, m])
    (hO : outerShape mode o1 o2 = some O) :
    ∃ c, matrixProduct a₁ a₂ 1 2 mode = .ok c ∧ c.shape = O ++ [m] ∧
      ∀ bix, Valid O bix →
        rowAt c m bix =
          Matrix.vecMul (rowAt a₁ n (unitIx1 mode o1 o2 bix)) (matAt a₂ n m (unitIx2 mode o1 o2 bix)) := by
  obtain ⟨c, hc, hs, hg⟩ := mp12 mode a₁ a₂ h₁ h₂ hO
  refine ⟨c, hc, hs, ?_⟩
  intro bix hv
  funext cc
  simp only [rowAt, matAt, Matrix.vecMul, dotProduct]
  rw [hg bix cc.1 hv cc.2, sum_map_range]

theorem mp22_units (mode : Bcast) (a₁ a₂ : ND K) {o1 o2 O : List ℕ} {p n m : ℕ}
    (h₁ : a₁.shape = o1 ++ [p, n]) (h₂ : a₂.shape = o2 ++ [n, m])
    (hO : outerShape mode o1 o2 = some O) :
    ∃ c, matrixProduct a₁ a₂ 2 2 mode = .ok c ∧ c.shape = O ++ [p, m] ∧
      ∀ bix, Valid O bix →
        matAt c p m bix =
          matAt a₁ p n (unitIx1 mode o1 o2 bix) * matAt a₂ n m (unitIx2 mode o1 o2 bix) := by
  obtain ⟨c, hc, hs, hg⟩ := mp22 mode a₁ a₂ h₁ h₂ hO
  refine ⟨c, hc, hs, ?_⟩
  intro bix hv
  funext r cc
  simp only [matAt, Matrix.mul_apply]
  rw [hg bix r.1 cc.1 hv r.2 cc.2, sum_map_range]

theorem mp32_units (mode : Bcast) (a₁ a₂ : ND K) {o1 o2 O : List ℕ} {k p n m : ℕ}
    (h₁ : a₁.shape = o1 ++ [k, p, n]) (h₂ : a₂.shape = o2 ++ [n, m])
    (hO : outerShape mode o1 o2 = some O) :
    ∃ c, matrixProduct a₁ a₂ 3 2 mode = .ok c ∧ c.shape = O ++ [k, p, m] ∧
      ∀ bix, Valid O bix → ∀ v,
        stackAt c k p m bix v =
          stackAt a₁ k p n (unitIx1 mode o1 o2 bix) v * matAt a₂ n m (unitIx2 mode o1 o2 bix) := by
  obtain ⟨c, hc, hs, hg⟩ := mp32 mode a₁ a₂ h₁ h₂ hO
  refine ⟨c, hc, hs, ?_⟩
  intro bix hv v
  funext r cc
  simp only [stackAt, matAt, Matrix.mul_apply]
  rw [hg bix v.1 r.1 cc.1 hv v.2 r.2 cc.2, sum_map_range]

end GT.Act
