/-
`matrixProduct` at unit level in Mathlib's types: the entry-sum statements of
`GT.Lemmas.Obj` restated with `Matrix.vecMul` / `*` on the unit views of `GT.Model.Units`.
-/
import GT.Lemmas.Obj
import GT.Model.Units
import Mathlib.Algebra.BigOperators.Fin
import Mathlib.Data.Matrix.Mul

set_option linter.unusedSectionVars false
set_option linter.unusedSimpArgs false
set_option linter.unusedVariables false

open Finset BigOperators

namespace GT.Act
open ND

variable {K : Type} [Field K] [Inhabited K]

theorem sum_map_range (n : ℕ) (f : ℕ → K) :
    ((List.range n).map f).sum = ∑ j : Fin n, f j.1 := by
  induction n with
  | zero => simp
  | succ n ih =>
    rw [List.range_succ, List.map_append, List.sum_append, ih, Fin.sum_univ_castSucc]; simp

theorem mp12_units (mode : Bcast) (a₁ a₂ : ND K) {o1 o2 O : List ℕ} {n m : ℕ}
    (h₁ : a₁.shape = o1 ++ [n]) (h₂ : a₂.shape = o2 ++ [n, m])
    (hO : outerShape mode o1 o2 = some O) :
    ∃ c, matrixProduct a₁ a₂ 1 2 mode = .ok c ∧ c.shape = O ++ [m] ∧
      ∀ bix, Valid O bix →
        rowAt c m bix =
          Matrix.vecMul (rowAt a₁ n (unitIx1 mode o1 o2 bix)) (matAt a₂ n m (unitIx2 mode o1 o2 bix)) := by
  obtain ⟨c, hc, hs, hg⟩ := mp12 mode a₁ a₂ h₁ h₂ hO
  refine ⟨c, hc, hs, ?_⟩
  intro bix hv
  funext cc
  simp only [rowAt, matAt, Matrix.vecMul, dotProduct]
  rw [hg bix cc.1 hv cc.2, sum_map_range]

theorem mp22_units (mode : Bcast) (a₁ a₂ : ND K) {o1 o2 O : List ℕ} {p n m : ℕ}
    (h₁ : a₁.shape = o1 ++ [p, n]) (h₂ : a₂.shape = o2 ++ [n, m])
    (hO : outerShape mode o1 o2 = some O) :
    ∃ c, matrixProduct a₁ a₂ 2 2 mode = .ok c ∧ c.shape = O ++ [p, m] ∧
      ∀ bix, Valid O bix →
        matAt c p m bix =
          matAt a₁ p n (unitIx1 mode o1 o2 bix) * matAt a₂ n m (unitIx2 mode o1 o2 bix) := by
  obtain ⟨c, hc, hs, hg⟩ := mp22 mode a₁ a₂ h₁ h₂ hO
  refine ⟨c, hc, hs, ?_⟩
  intro bix hv
  funext r cc
  simp only [matAt, Matrix.mul_apply]
  rw [hg bix r.1 cc.1 hv r.2 cc.2, sum_map_range]

theorem mp32_units (mode : Bcast) (a₁ a₂ : ND K) {o1 o2 O : List ℕ} {k p n m : ℕ}
    (h₁ : a₁.shape = o1 ++ [k, p, n]) (h₂ : a₂.shape = o2 ++ [n, m])
    (hO : outerShape mode o1 o2 = some O) :
    ∃ c, matrixProduct a₁ a₂ 3 2 mode = .ok c ∧ c.shape = O ++ [k, p, m] ∧
      ∀ bix, Valid O bix → ∀ v,
        stackAt c k p m bix v =
          stackAt a₁ k p n (unitIx1 mode o1 o2 bix) v * matAt a₂ n m (unitIx2 mode o1 o2 bix) := by
  obtain ⟨c, hc, hs, hg⟩ := mp32 mode a₁ a₂ h₁ h₂ hO
  refine ⟨c, hc, hs, ?_⟩
  intro bix hv v
  funext r cc
  simp only [stackAt, matAt, Matrix.mul_apply]
  rw [hg bix v.1 r.1 cc.1 hv v.2 r.2 cc.2, sum_map_range]

/-! ### ND-side lemmas for lifting entrywise formulas (used by the Lie-map liftings of C17 too) -/

/-- `a[..., i, j]` (numpy basic indexing on the last two axes) is entry `(i, j)` of every unit matrix -/
theorem entryLast2_spec (a : ND K) {o : List ℕ} {p n : ℕ} (hs : a.shape = o ++ [p, n]) {i j : ℕ}
    (hi : i < p) (hj : j < n) :
    ((a.selectLast j).selectLast i).shape = o ∧
    ∀ ix, Valid o ix → ((a.selectLast j).selectLast i).get ix = matAt a p n ix ⟨i, hi⟩ ⟨j, hj⟩ := by
  have hs' : a.shape = (o ++ [p]) ++ [n] := by rw [hs]; simp
  have h1 := shape_selectLast a hs' j
  refine ⟨shape_selectLast _ h1 i, fun ix hix => ?_⟩
  rw [get_selectLast _ h1 i hix, get_selectLast a hs' j (hix.append (by simpa using hi))]
  simp [matAt]

/-- entrywise binary ufunc on two arrays of matrices of one shape: unit by unit, entry by entry -/
theorem zipSame_mat (f : K → K → K) (a b : ND K) {o : List ℕ} {p n : ℕ} (ha : a.shape = o ++ [p, n])
    (hb : b.shape = o ++ [p, n]) :
    ∃ c, zipBcast f a b = .ok c ∧ c.shape = o ++ [p, n] ∧
      ∀ i, Valid o i → matAt c p n i = fun r cc => f (matAt a p n i r cc) (matAt b p n i r cc) := by
  obtain ⟨c, hc, hs, _, hg⟩ := zipBcast_same f a b ha hb
  refine ⟨c, hc, hs, fun i hi => ?_⟩
  funext r cc
  simp only [matAt]
  exact hg _ (hi.append (by simp [r.2, cc.2]))

theorem zipSame_row (f : K → K → K) (a b : ND K) {o : List ℕ} {n : ℕ} (ha : a.shape = o ++ [n])
    (hb : b.shape = o ++ [n]) :
    ∃ c, zipBcast f a b = .ok c ∧ c.shape = o ++ [n] ∧
      ∀ i, Valid o i → rowAt c n i = fun cc => f (rowAt a n i cc) (rowAt b n i cc) := by
  obtain ⟨c, hc, hs, _, hg⟩ := zipBcast_same f a b ha hb
  refine ⟨c, hc, hs, fun i hi => ?_⟩
  funext cc
  simp only [rowAt]
  exact hg _ (hi.append (by simp [cc.2]))

/-- the same for arrays of scalars (one scalar per unit) -/
theorem zipSame_scalar (f : K → K → K) (a b : ND K) {o : List ℕ} (ha : a.shape = o) (hb : b.shape = o) :
    ∃ c, zipBcast f a b = .ok c ∧ c.shape = o ∧ c.WF ∧
      ∀ i, Valid o i → scalarAt c i = f (scalarAt a i) (scalarAt b i) := by
  obtain ⟨c, hc, hs, hwf, hg⟩ := zipBcast_same f a b ha hb
  exact ⟨c, hc, hs, hwf, fun i hi => hg i hi⟩

/-- `np.stack([s₀, …, s_{m-1}], axis=-1)` of arrays of scalars is the array of row vectors
`(s₀[i], …, s_{m-1}[i])`; stacking such rows once more (`axis=-2` of the result, i.e. again a new
trailing-but-one axis) builds matrices entry by entry -/
theorem stackLast_row (a : ND K) (rest : List (ND K)) (h : ∀ b ∈ rest, b.shape = a.shape) :
    ∃ c, ND.stack (a :: rest) a.shape.length = .ok c ∧ c.shape = a.shape ++ [rest.length + 1] ∧
      ∀ i, Valid a.shape i → rowAt c (rest.length + 1) i = fun k => ((a :: rest).getD k.1 a).get i := by
  obtain ⟨c, hc, hs, hg⟩ := stackLast_spec a rest h
  refine ⟨c, hc, hs, fun i hi => ?_⟩
  funext k
  exact hg i k.1 hi k.2

end GT.Act
