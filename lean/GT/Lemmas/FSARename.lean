/-
Lemmas for `rename_generators`: the renamed label view, its well-formedness, the set model and
the language.
-/
import GT.Lemmas.FSABuild
import GT.Lemmas.FSALang

set_option linter.unusedSectionVars false
set_option linter.unusedSimpArgs false

namespace GT.FSA
variable {V L L' : Type} [DecidableEq V] [DecidableEq L] [DecidableEq L']
open Dict

/-- the loop of `renameRow` from an arbitrary accumulator -/
def renameFold (m : Dict L L') (nbrs : Dict L V) (d : Dict L' V) : Except Err (Dict L' V) :=
  nbrs.foldlM (fun d e => do let l' ← m.get e.1; pure (d.set l' e.2)) d

theorem renameFold_cons (m : Dict L L') (e : L × V) (r : Dict L V) (d : Dict L' V) :
    renameFold m (e :: r) d = match m.get? e.1 with
      | some l' => renameFold m r (d.set l' e.2)
      | none => .error .keyError := by
  unfold renameFold
  simp only [List.foldlM_cons, Dict.get]
  cases m.get? e.1 <;> rfl

theorem renameFold_spec (m : Dict L L') (nbrs : Dict L V) (hn : nbrs.keys.Nodup)
    (hdom : ∀ l ∈ nbrs.keys, ∃ l', m.get? l = some l')
    (hinj : ∀ l₁ ∈ nbrs.keys, ∀ l₂ ∈ nbrs.keys, ∀ x, m.get? l₁ = some x → m.get? l₂ = some x → l₁ = l₂)
    (d : Dict L' V) (hd : d.keys.Nodup) :
    ∃ r, renameFold m nbrs d = .ok r ∧ r.keys.Nodup ∧
      ∀ l' w, r.get? l' = some w ↔
        (∃ l, (l, w) ∈ nbrs ∧ m.get? l = some l') ∨
        ((¬ ∃ l w', (l, w') ∈ nbrs ∧ m.get? l = some l') ∧ d.get? l' = some w) := by
  induction nbrs generalizing d with
  | nil => exact ⟨d, rfl, hd, by simp⟩
  | cons e rest ih =>
    obtain ⟨l0, w0⟩ := e
    simp only [keys_cons, List.nodup_cons] at hn
    obtain ⟨l0', hl0⟩ := hdom l0 (by simp)
    have hdom' : ∀ l ∈ Dict.keys rest, ∃ l', m.get? l = some l' := fun l hl => hdom l (by simp [hl])
    have hinj' : ∀ l₁ ∈ Dict.keys rest, ∀ l₂ ∈ Dict.keys rest, ∀ x,
        m.get? l₁ = some x → m.get? l₂ = some x → l₁ = l₂ :=
      fun l₁ h₁ l₂ h₂ => hinj l₁ (by simp [h₁]) l₂ (by simp [h₂])
    obtain ⟨r, e, hr, hget⟩ := ih hn.2 hdom' hinj' (d.set l0' w0) (nodup_keys_set hd _ _)
    refine ⟨r, by rw [renameFold_cons, hl0]; exact e, hr, ?_⟩
    intro l' w
    rw [hget, get?_set]
    have hkey : ∀ l w', (l, w') ∈ rest → l ∈ Dict.keys rest :=
      fun l w' h => List.mem_map.2 ⟨(l, w'), h, rfl⟩
    have hno : ∀ l w', (l, w') ∈ rest → m.get? l ≠ some l0' := by
      intro l w' hm hml
      have : l = l0 := hinj l (by simp [hkey l w' hm]) l0 (by simp) l0' hml hl0
      subst this; exact hn.1 (hkey l w' hm)
    by_cases hl : l' = l0'
    · subst hl
      simp only [List.mem_cons, Prod.mk.injEq, if_true, Option.some.injEq]
      constructor
      · rintro (⟨l, h1, h2⟩ | ⟨-, rfl⟩)
        · exact absurd h2 (hno l w h1)
        · exact Or.inl ⟨l0, Or.inl ⟨rfl, rfl⟩, hl0⟩
      · rintro (⟨l, (⟨rfl, rfl⟩ | h1), h2⟩ | ⟨h1, -⟩)
        · refine Or.inr ⟨?_, rfl⟩
          rintro ⟨l2, w2, h3, h4⟩; exact hno l2 w2 h3 h4
        · exact absurd h2 (hno l w h1)
        · exact absurd ⟨l0, w0, Or.inl ⟨rfl, rfl⟩, hl0⟩ h1
    · simp only [List.mem_cons, Prod.mk.injEq, hl, if_false]
      have hl0ne : m.get? l0 ≠ some l' := by rw [hl0]; intro h; cases h; exact hl rfl
      constructor
      · rintro (⟨l, h1, h2⟩ | ⟨h1, h2⟩)
        · exact Or.inl ⟨l, Or.inr h1, h2⟩
        · refine Or.inr ⟨?_, h2⟩
          rintro ⟨l2, w2, (⟨rfl, rfl⟩ | h3), h4⟩
          · exact hl0ne h4
          · exact h1 ⟨l2, w2, h3, h4⟩
      · rintro (⟨l, (⟨rfl, rfl⟩ | h1), h2⟩ | ⟨h1, h2⟩)
        · exact absurd h2 hl0ne
        · exact Or.inl ⟨l, h1, h2⟩
        · exact Or.inr ⟨fun ⟨l2, w2, h3, h4⟩ => h1 ⟨l2, w2, Or.inr h3, h4⟩, h2⟩

theorem renameRow_spec (m : Dict L L') (nbrs : Dict L V) (hn : nbrs.keys.Nodup)
    (hdom : ∀ l ∈ nbrs.keys, ∃ l', m.get? l = some l')
    (hinj : ∀ l₁ ∈ nbrs.keys, ∀ l₂ ∈ nbrs.keys, ∀ x, m.get? l₁ = some x → m.get? l₂ = some x → l₁ = l₂) :
    ∃ r, renameRow m nbrs = .ok r ∧ r.keys.Nodup ∧
      ∀ l' w, r.get? l' = some w ↔ ∃ l, nbrs.get? l = some w ∧ m.get? l = some l' := by
  obtain ⟨r, e, hr, hget⟩ := renameFold_spec m nbrs hn hdom hinj [] (by simp)
  refine ⟨r, e, hr, ?_⟩
  intro l' w; rw [hget]; simp only [get?_nil, reduceCtorEq, and_false, or_false]
  constructor
  · rintro ⟨l, h1, h2⟩; exact ⟨l, get?_of_mem hn h1, h2⟩
  · rintro ⟨l, h1, h2⟩; exact ⟨l, mem_of_get? h1, h2⟩

theorem renameDict_cons (m : Dict L L') (row : V × Dict L V) (g : Dict V (Dict L V)) :
    renameDict m (row :: g) = match renameRow m row.2 with
      | .ok r => (match renameDict m g with
        | .ok nd => .ok ((row.1, r) :: nd)
        | .error e => .error e)
      | .error e => .error e := by
  unfold renameDict
  simp only [List.mapM_cons, bind, Except.bind, pure, Except.pure]
  cases renameRow m row.2 with
  | error e => rfl
  | ok r =>
    simp only
    split <;> simp_all

/-- the renamed label view, row by row -/
theorem renameDict_spec (m : Dict L L') (g : Dict V (Dict L V))
    (hrow : ∀ v nbrs, (v, nbrs) ∈ g → ∃ r, renameRow m nbrs = .ok r) :
    ∃ nd, renameDict m g = .ok nd ∧ nd.keys = g.keys ∧
      ∀ v, (g.get? v = none ∧ nd.get? v = none) ∨
        ∃ nbrs r, g.get? v = some nbrs ∧ nd.get? v = some r ∧ renameRow m nbrs = .ok r := by
  induction g with
  | nil => exact ⟨[], rfl, rfl, by simp⟩
  | cons row rest ih =>
    obtain ⟨v0, nbrs0⟩ := row
    obtain ⟨r0, hr0⟩ := hrow v0 nbrs0 (by simp)
    obtain ⟨nd, e, hk, hget⟩ := ih (fun v nbrs h => hrow v nbrs (by simp [h]))
    refine ⟨(v0, r0) :: nd, by rw [renameDict_cons, hr0, e], by simp [hk], ?_⟩
    intro v
    simp only [get?_cons]
    by_cases hv : v = v0
    · subst hv; exact Or.inr ⟨nbrs0, r0, by simp, by simp, hr0⟩
    · simp only [hv, if_false]; exact hget v

/-- `rename_generators(m)` on a well-formed automaton whose used labels are all mapped, injectively
at each vertex: succeeds, is well-formed and is the image of the edge set -/
theorem rename_spec {s : FSA V L} (hs : s.WF) (m : Dict L L)
    (hdom : ∀ v l w, s.step v l = some w → ∃ l', m.get? l = some l')
    (hinj : ∀ v l₁ w₁ l₂ w₂ l', s.step v l₁ = some w₁ → s.step v l₂ = some w₂ →
      m.get? l₁ = some l' → m.get? l₂ = some l' → l₁ = l₂) :
    ∃ s', s.rename m = .ok s' ∧ s'.WF ∧ s'.starts = s.starts ∧ s'.abs = s.abs.rename m ∧
      ∀ v l' w, s'.step v l' = some w ↔ ∃ l, m.get? l = some l' ∧ s.step v l = some w := by
  have hrows : ∀ v nbrs, s.graph.get? v = some nbrs →
      ∃ r, renameRow m nbrs = .ok r ∧ r.keys.Nodup ∧
        ∀ l' w, r.get? l' = some w ↔ ∃ l, nbrs.get? l = some w ∧ m.get? l = some l' := by
    intro v nbrs hv
    have hst : ∀ l w, nbrs.get? l = some w → s.step v l = some w := by
      intro l w h; rw [step_def, hv]; exact h
    apply renameRow_spec m nbrs (hs.1.keys.graphRow v nbrs hv)
    · intro l hl
      obtain ⟨w, hw⟩ := (mem_keys_iff _ _).1 hl
      exact hdom v l w (hst l w hw)
    · intro l₁ h₁ l₂ h₂ x e₁ e₂
      obtain ⟨w₁, hw₁⟩ := (mem_keys_iff _ _).1 h₁
      obtain ⟨w₂, hw₂⟩ := (mem_keys_iff _ _).1 h₂
      exact hinj v l₁ w₁ l₂ w₂ x (hst _ _ hw₁) (hst _ _ hw₂) e₁ e₂
  obtain ⟨nd, e, hk, hget⟩ := renameDict_spec m s.graph (fun v nbrs h => by
    obtain ⟨r, hr, -⟩ := hrows v nbrs (get?_of_mem hs.1.keys.graph h); exact ⟨r, hr⟩)
  have hnd : Nodup2 nd := by
    refine ⟨by rw [hk]; exact hs.1.keys.graph, ?_⟩
    intro v r hr
    rcases hget v with ⟨-, h⟩ | ⟨nbrs, r', h1, h2, h3⟩
    · rw [h] at hr; cases hr
    · rw [h2] at hr; cases hr
      obtain ⟨r'', h4, h5, -⟩ := hrows v nbrs h1
      rw [h3] at h4; cases h4; exact h5
  have hstep : ∀ v l' w, (nd.get? v).bind (·.get? l') = some w ↔
      ∃ l, m.get? l = some l' ∧ s.step v l = some w := by
    intro v l' w
    simp only [step_def]
    rcases hget v with ⟨h1, h2⟩ | ⟨nbrs, r, h1, h2, h3⟩
    · simp [h1, h2]
    · obtain ⟨r', h4, -, h6⟩ := hrows v nbrs h1
      rw [h3] at h4; cases h4
      simp only [h1, h2, Option.bind_some, h6]
      constructor
      · rintro ⟨l, a, b⟩; exact ⟨l, b, a⟩
      · rintro ⟨l, a, b⟩; exact ⟨l, b, a⟩
  refine ⟨fromGraphDict nd s.starts, by simp [rename, e, bind, Except.bind, pure, Except.pure],
    wf_fromGraphDict nd s.starts hnd, rfl, ?_, ?_⟩
  · rw [abs_fromGraphDict]
    apply SetFSA.ext'
    · intro v
      simp only [SetFSA.rename, abs, hk, hs.1.verts]
      constructor
      · rintro (h | h)
        · exact h
        · obtain ⟨u, row, l', h1, h2⟩ := (mem_targets nd v).1 h
          have : (nd.get? u).bind (·.get? l') = some v := by
            rw [get?_of_mem hnd.1 h1]; exact get?_of_mem (hnd.2 u row (get?_of_mem hnd.1 h1)) h2
          obtain ⟨l, -, hst⟩ := (hstep u l' v).1 this
          obtain ⟨ls, hls, -⟩ := (hs.1.label u l v).1 hst
          exact hs.1.closed u v ls hls
      · exact Or.inl
    · intro v l' w
      simp only [SetFSA.rename, abs]
      exact hstep v l' w
  · intro v l' w; rw [step_fromGraphDict]; exact hstep v l' w

/-! ### the language of the renamed automaton -/

/-- `w'` is the letter-by-letter image of `w` under the dictionary `m` -/
def Renames (m : Dict L L') (w : List L) (w' : List L') : Prop := w.map m.get? = w'.map some

theorem follow_rename_of {s : FSA V L} {s' : FSA V L'} (m : Dict L L')
    (hst : ∀ v l' q, s'.step v l' = some q ↔ ∃ l, m.get? l = some l' ∧ s.step v l = some q)
    (hinj : ∀ l₁ l₂ x, m.get? l₁ = some x → m.get? l₂ = some x → l₁ = l₂)
    (v : V) (w : List L) (w' : List L') (hw : Renames m w w') : s'.follow v w' = s.follow v w := by
  induction w generalizing v w' with
  | nil =>
    cases w' with
    | nil => rfl
    | cons a b => simp [Renames] at hw
  | cons l w ih =>
    cases w' with
    | nil => simp [Renames] at hw
    | cons l' w' =>
      simp only [Renames, List.map_cons, List.cons.injEq] at hw
      obtain ⟨hl, hw⟩ := hw
      rw [follow_cons, follow_cons]
      have : s'.step v l' = s.step v l := by
        cases h : s.step v l with
        | some q => exact (hst v l' q).2 ⟨l, hl, h⟩
        | none =>
          cases h' : s'.step v l' with
          | none => rfl
          | some q =>
            obtain ⟨l2, h1, h2⟩ := (hst v l' q).1 h'
            have := hinj l l2 l' hl h1
            subst this; rw [h] at h2; cases h2
      rw [this]
      cases s.step v l with
      | none => rfl
      | some q => exact ih q w' hw

theorem follow_rename_preimage {s : FSA V L} {s' : FSA V L'} (m : Dict L L')
    (hst : ∀ v l' q, s'.step v l' = some q ↔ ∃ l, m.get? l = some l' ∧ s.step v l = some q)
    (v : V) (w' : List L') (q : V) (h : s'.follow v w' = some q) :
    ∃ w, Renames m w w' ∧ s.follow v w = some q := by
  induction w' generalizing v with
  | nil => exact ⟨[], rfl, by simpa using h⟩
  | cons l' w' ih =>
    rw [follow_cons] at h
    cases hs' : s'.step v l' with
    | none => simp [hs'] at h
    | some p =>
      simp only [hs', Option.bind_some] at h
      obtain ⟨l, h1, h2⟩ := (hst v l' p).1 hs'
      obtain ⟨w, hw, hf⟩ := ih p h
      refine ⟨l :: w, ?_, ?_⟩
      · simp only [Renames, List.map_cons, h1] at hw ⊢; rw [hw]
      · rw [follow_cons, h2]; exact hf

end GT.FSA
