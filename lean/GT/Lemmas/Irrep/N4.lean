/- `sl2Irrep 4` is multiplicative and unital (assembled from the generated row modules) -/
import GT.Lemmas.Irrep.N4R0
import GT.Lemmas.Irrep.N4R1
import GT.Lemmas.Irrep.N4R2
import GT.Lemmas.Irrep.N4R3
open Matrix
namespace GT.Lie
variable {R : Type*} [CommRing R]

theorem sl2Irrep_mul_4 (A B : Matrix (Fin 2) (Fin 2) R) :
    sl2Irrep 4 (A * B) = sl2Irrep 4 A * sl2Irrep 4 B := by
  ext j k
  fin_cases j
  · exact sl2Irrep_mul_4_row0 A B k
  · exact sl2Irrep_mul_4_row1 A B k
  · exact sl2Irrep_mul_4_row2 A B k
  · exact sl2Irrep_mul_4_row3 A B k

set_option maxHeartbeats 2000000 in
theorem sl2Irrep_one_4 : sl2Irrep 4 (1 : Matrix (Fin 2) (Fin 2) R) = 1 := by
  ext j k
  fin_cases j <;> fin_cases k <;>
    simp [sl2Irrep, sl2IrrepEntry, Finset.sum_Ico_eq_sum_range, Finset.sum_range_succ, Nat.choose]

end GT.Lie
