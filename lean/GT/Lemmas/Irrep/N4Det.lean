/- `det (sl2Irrep 4 A) = (det A)^6`: triangular cases by direct evaluation, general case by
`GT.Lie.sl2Irrep_det_of` (universal matrix + cancellation) -/
import GT.Lemmas.Irrep.N4
import GT.Lemmas.IrrepDet
open Matrix
namespace GT.Lie
variable {R : Type*} [CommRing R]

set_option maxHeartbeats 1000000 in
theorem sl2Irrep_det_lower_4 (a b : R) : (sl2Irrep 4 !![1, b; 0, a]).det = a ^ 6 := by
  rw [Matrix.det_of_isLowerTriangular]
  · simp [Fin.prod_univ_succ, sl2Irrep, sl2IrrepEntry, Finset.sum_Ico_eq_sum_range,
      Finset.sum_range_succ, Nat.choose] <;> ring
  · intro i j h
    have h' : i < j := h
    clear h
    fin_cases i <;> fin_cases j <;> simp at h' <;>
      simp [sl2Irrep, sl2IrrepEntry, Finset.sum_Ico_eq_sum_range, Finset.sum_range_succ, Nat.choose]

set_option maxHeartbeats 1000000 in
theorem sl2Irrep_det_upper_4 (a c e : R) : (sl2Irrep 4 !![a, 0; c, e]).det = a ^ 6 * e ^ 6 := by
  rw [Matrix.det_of_isUpperTriangular]
  · simp [Fin.prod_univ_succ, sl2Irrep, sl2IrrepEntry, Finset.sum_Ico_eq_sum_range,
      Finset.sum_range_succ, Nat.choose] <;> ring
  · intro i j h
    have h' : j < i := h
    clear h
    fin_cases i <;> fin_cases j <;> simp at h' <;>
      simp [sl2Irrep, sl2IrrepEntry, Finset.sum_Ico_eq_sum_range, Finset.sum_range_succ, Nat.choose]

theorem sl2Irrep_det_4 (A : Matrix (Fin 2) (Fin 2) R) : (sl2Irrep 4 A).det = A.det ^ 6 := by
  refine sl2Irrep_det_of 4 6 (sl2Irrep_mul_4 _ _) ?_ ?_ A
  · have := sl2Irrep_det_lower_4 (MvPolynomial.X 0 : UPoly) (-MvPolynomial.X 1)
    simpa [univU] using this
  · rw [univMat_mul_univU]
    exact sl2Irrep_det_upper_4 _ _ _

end GT.Lie
