/- the one tactic used by the generated per-row modules `GT.Lemmas.Irrep.N<n>R<j>`:
unfold `sl2Irrep` at concrete indices (finite sums, binomials) and finish with `ring` -/
import GT.Model.Lie
import Mathlib.Tactic.FinCases
import Mathlib.Tactic.NormNum
import Mathlib.Tactic.Ring

namespace GT.Lie

/-- evaluate the finite sums / binomial coefficients of `sl2Irrep` at concrete indices, then `ring` -/
macro "irrep_entry" : tactic =>
  `(tactic| (simp [sl2Irrep, sl2IrrepEntry, Matrix.mul_apply, Matrix.one_apply, Fin.sum_univ_succ,
      Finset.sum_Ico_eq_sum_range, Finset.sum_range_succ, Nat.choose] <;> ring))

end GT.Lie
