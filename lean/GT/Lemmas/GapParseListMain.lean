/- the list loop parses every well-formed rendered list body (all nesting depths) -/
import GT.Lemmas.GapParseList

namespace GT.Gap

/-- state of the `content` accumulator when a separator is reached: empty, or a bare
token that `literal_contents` turns into `v` -/
def Pending (content : List Char) (pend : List GVal) : Prop :=
  (content = [] ∧ pend = []) ∨ (content ≠ [] ∧ ∃ v, literal content = .ok v ∧ pend = [v])

/-- after a value inside a list: optional whitespace, then the remaining items, then `]` -/
def Tspec (items : SynItems) : Prop :=
  ∀ (fuel : Nat) (t : List Char) (i : Nat) (w post more content : List Char) (cur pend : List GVal),
    items.WF → AllWs w → AllWs post →
    t.drop i = w ++ (items.renderTail ++ (post ++ ']' :: more)) →
    2 * t.length + 2 ≤ fuel + 2 * i → Pending content pend →
    listLoop fuel t i content cur
      = .ok (.list (cur ++ pend ++ items.denote), i + (w ++ (items.renderTail ++ post)).length + 1)

/-- at the start of an item -/
def Vspec (v : Syn) (items : SynItems) : Prop :=
  ∀ (fuel : Nat) (t : List Char) (i : Nat) (w post more : List Char) (cur : List GVal),
    v.WF true → items.WF → AllWs w → AllWs post →
    t.drop i = v.render ++ (w ++ (items.renderTail ++ (post ++ ']' :: more))) →
    2 * t.length + 2 ≤ fuel + 2 * i →
    listLoop fuel t i [] cur
      = .ok (.list (cur ++ [v.denote] ++ items.denote),
          i + (v.render ++ (w ++ (items.renderTail ++ post))).length + 1)

/-- `parse_list` on a whole body -/
def Lspec (items : SynItems) : Prop :=
  ∀ (fuel : Nat) (post more : List Char), items.WF → AllWs post →
    2 * (items.render ++ (post ++ ']' :: more)).length + 3 ≤ fuel →
    parseList fuel (items.render ++ (post ++ ']' :: more))
      = .ok (.list items.denote, (items.render ++ post).length + 1)

theorem fuel_pos_of_inv {fuel : Nat} {t : List Char} {i : Nat} {x : List Char}
    (h : t.drop i = x) (hx : x ≠ []) (hb : 2 * t.length + 2 ≤ fuel + 2 * i) :
    ∃ f, fuel = f + 1 ∧ 2 * t.length + 1 ≤ f + 2 * i := by
  have := len_of_drop h hx
  have : x.length ≠ 0 := fun h0 => hx (List.length_eq_zero_iff.1 h0)
  exact ⟨fuel - 1, by omega, by omega⟩

theorem Tspec_nil : Tspec .nil := by
  intro fuel t i w post more content cur pend _ hw hp h hb hpend
  simp only [SynItems.renderTail, List.nil_append] at h ⊢
  rw [listLoop_skip_ws w hw fuel t i _ content cur h hb]
  have h1 := drop_add_of_drop h
  rw [listLoop_skip_ws post hp _ t _ _ content cur h1 (by omega)]
  have h2 := drop_add_of_drop h1
  have hlen := len_of_drop h2 (by simp)
  obtain ⟨f, hf⟩ : ∃ f, fuel - w.length - post.length = f + 1 :=
    ⟨fuel - w.length - post.length - 1, by simp at hlen; omega⟩
  rw [hf]
  rcases hpend with ⟨rfl, rfl⟩ | ⟨hne, v, hl, rfl⟩
  · rw [listLoop_close_empty h2]
    simp [SynItems.denote]; omega
  · rw [listLoop_close_lit h2 cur hne hl]
    simp [SynItems.denote]; omega

theorem Tspec_cons {v : Syn} {after : List Char} {rest : SynItems} (hV : Vspec v rest) :
    Tspec (.cons v after rest) := by
  intro fuel t i w post more content cur pend hwf hw hp h hb hpend
  simp only [SynItems.WF] at hwf
  obtain ⟨hv, ha, hr⟩ := hwf
  simp only [SynItems.renderTail, List.cons_append, List.append_assoc] at h ⊢
  rw [listLoop_skip_ws w hw fuel t i _ content cur h hb]
  have h1 := drop_add_of_drop h
  have hlen := len_of_drop h1 (by simp)
  obtain ⟨f, hf⟩ : ∃ f, fuel - w.length = f + 1 := ⟨fuel - w.length - 1, by simp at hlen; omega⟩
  rw [hf]
  have h2 := tl_of_drop h1
  have key := hV f t (i + w.length + 1) after post more (cur ++ pend) hv hr ha hp h2 (by omega)
  rcases hpend with ⟨rfl, rfl⟩ | ⟨hne, lv, hl, rfl⟩
  · rw [listLoop_comma_empty h1, show cur = cur ++ [] by simp, key]
    simp [SynItems.denote]; omega
  · rw [listLoop_comma_lit h1 cur hne hl, key]
    simp [SynItems.denote]; omega

theorem litVal_of_literal {s : List Char} {v : GVal} (h : literal s = .ok v) : litVal s = v := by
  simp [litVal, h]

theorem Vspec_bare {pre s : List Char} {items : SynItems} (hT : Tspec items) :
    Vspec (.bare pre s) items := by
  intro fuel t i w post more cur hv hi hw hp h hb
  simp only [Syn.WF] at hv
  obtain ⟨hpre, hne, hbare, _, lv, hl⟩ := hv
  simp only [Syn.render, List.append_assoc] at h ⊢
  rw [listLoop_skip_ws pre hpre fuel t i _ [] cur h hb]
  have h1 := drop_add_of_drop h
  rw [listLoop_scan_bare s hbare _ t _ _ [] cur h1 (by omega)]
  have h2 := drop_add_of_drop h1
  have key := hT (fuel - pre.length - s.length) t (i + pre.length + s.length) w post more ([] ++ s) cur [lv]
    hi hw hp h2 (by omega) (Or.inr ⟨by simpa using hne, lv, by simpa using hl, rfl⟩)
  rw [key]
  simp [Syn.denote, litVal_of_literal hl]; omega

theorem Vspec_quoted {pre s : List Char} {items : SynItems} (hT : Tspec items) :
    Vspec (.quoted pre s) items := by
  intro fuel t i w post more cur hv hi hw hp h hb
  simp only [Syn.WF] at hv
  obtain ⟨hpre, hq⟩ := hv
  simp only [Syn.render, List.append_assoc, List.cons_append, List.nil_append] at h ⊢
  rw [listLoop_skip_ws pre hpre fuel t i _ [] cur h hb]
  have h1 := drop_add_of_drop h
  have hlen := len_of_drop h1 (by simp)
  obtain ⟨f, hf⟩ : ∃ f, fuel - pre.length = f + 1 := ⟨fuel - pre.length - 1, by simp at hlen; omega⟩
  rw [hf, listLoop_quote h1 hq]
  have h2 : t.drop (i + pre.length + (s.length + 1) + 1)
      = w ++ (items.renderTail ++ (post ++ ']' :: more)) := by
    have e : '"' :: (s ++ '"' :: (w ++ (items.renderTail ++ (post ++ ']' :: more))))
        = ('"' :: (s ++ ['"'])) ++ (w ++ (items.renderTail ++ (post ++ ']' :: more))) := by simp
    rw [e] at h1
    have := drop_add_of_drop h1
    simpa [Nat.add_assoc] using this
  have key := hT f t (i + pre.length + (s.length + 1) + 1) w post more [] (cur ++ [.str s]) []
    hi hw hp h2 (by simp at hlen; omega) (Or.inl ⟨rfl, rfl⟩)
  rw [key]
  simp [Syn.denote]; omega

end GT.Gap

namespace GT.Gap

theorem parseList_interval (f : Nat) (na nb : Bool) (da db rest : List Char) (ha : da ≠ []) (hb : db ≠ [])
    (hda : ∀ c ∈ da, isDigit c = true) (hdb : ∀ c ∈ db, isDigit c = true)
    (hle : signedVal na da ≤ signedVal nb db) :
    parseList (f + 1) (signed na da ++ '.' :: '.' :: (signed nb db ++ ']' :: rest))
      = .ok (.range (signedVal na da) (signedVal nb db),
          (signed na da).length + 2 + (signed nb db).length + 1) := by
  rw [parseList, matchInterval_spec na nb da db rest ha hb hda hdb]
  simp [hle]; rfl

theorem Vspec_interval {pre : List Char} {na nb : Bool} {da db : List Char} {items : SynItems}
    (hT : Tspec items) : Vspec (.interval pre na da nb db) items := by
  intro fuel t i w post more cur hv hi hw hp h hb
  simp only [Syn.WF] at hv
  obtain ⟨hpre, ha, hbb, hda, hdb, hle⟩ := hv
  simp only [Syn.render, List.append_assoc, List.cons_append, List.nil_append] at h ⊢
  rw [listLoop_skip_ws pre hpre fuel t i _ [] cur h hb]
  have h1 := drop_add_of_drop h
  have hlen := len_of_drop h1 (by simp)
  obtain ⟨f, hf⟩ : ∃ f, fuel - pre.length = f + 1 + 1 :=
    ⟨fuel - pre.length - 2, by simp at hlen; omega⟩
  rw [hf]
  have hp' := parseList_interval f na nb da db (w ++ (items.renderTail ++ (post ++ ']' :: more))) ha hbb hda hdb hle
  rw [listLoop_open h1 [] cur hp']
  have h2 : t.drop (i + pre.length + ((signed na da).length + 2 + (signed nb db).length + 1) + 1)
      = w ++ (items.renderTail ++ (post ++ ']' :: more)) := by
    have e : '[' :: (signed na da ++ '.' :: '.' :: (signed nb db ++ ']' :: (w ++ (items.renderTail ++ (post ++ ']' :: more)))))
        = ('[' :: (signed na da ++ '.' :: '.' :: (signed nb db ++ [']']))) ++ (w ++ (items.renderTail ++ (post ++ ']' :: more))) := by simp
    rw [e] at h1
    have := drop_add_of_drop h1
    have e2 : i + pre.length + ('[' :: (signed na da ++ '.' :: '.' :: (signed nb db ++ [']']))).length
        = i + pre.length + ((signed na da).length + 2 + (signed nb db).length + 1) + 1 := by
      simp; omega
    rwa [e2] at this
  have key := hT (f + 1) t _ w post more [] (cur ++ [.range (signedVal na da) (signedVal nb db)]) []
    hi hw hp h2 (by simp at hlen; omega) (Or.inl ⟨rfl, rfl⟩)
  rw [key]
  simp [Syn.denote]; omega

theorem Vspec_list {pre post' : List Char} {items' items : SynItems}
    (hL : Lspec items') (hT : Tspec items) : Vspec (.list pre items' post') items := by
  intro fuel t i w post more cur hv hi hw hp h hb
  simp only [Syn.WF] at hv
  obtain ⟨hpre, hpost', hitems'⟩ := hv
  simp only [Syn.render, List.append_assoc, List.cons_append, List.nil_append] at h ⊢
  rw [listLoop_skip_ws pre hpre fuel t i _ [] cur h hb]
  have h1 := drop_add_of_drop h
  have hlen := len_of_drop h1 (by simp)
  obtain ⟨f, hf⟩ : ∃ f, fuel - pre.length = f + 1 := ⟨fuel - pre.length - 1, by simp at hlen; omega⟩
  rw [hf]
  have hp' := hL f post' (w ++ (items.renderTail ++ (post ++ ']' :: more))) hitems' hpost'
    (by simp at hlen ⊢; omega)
  rw [listLoop_open h1 [] cur hp']
  have h2 : t.drop (i + pre.length + ((items'.render ++ post').length + 1) + 1)
      = w ++ (items.renderTail ++ (post ++ ']' :: more)) := by
    have e : '[' :: (items'.render ++ (post' ++ ']' :: (w ++ (items.renderTail ++ (post ++ ']' :: more)))))
        = ('[' :: (items'.render ++ (post' ++ [']']))) ++ (w ++ (items.renderTail ++ (post ++ ']' :: more))) := by simp
    rw [e] at h1
    have := drop_add_of_drop h1
    have e2 : i + pre.length + ('[' :: (items'.render ++ (post' ++ [']']))).length
        = i + pre.length + ((items'.render ++ post').length + 1) + 1 := by
      simp; omega
    rwa [e2] at this
  have key := hT f t _ w post more [] (cur ++ [.list items'.denote]) []
    hi hw hp h2 (by simp at hlen ⊢; omega) (Or.inl ⟨rfl, rfl⟩)
  rw [key]
  simp [Syn.denote]; omega

theorem Lspec_of {items : SynItems} (hnil : items = .nil → True)
    (hcons : ∀ v after rest, items = .cons v after rest → Vspec v rest) : Lspec items := by
  intro fuel post more hwf hp hb
  obtain ⟨f, rfl⟩ : ∃ f, fuel = f + 1 := ⟨fuel - 1, by omega⟩
  rw [parseList, matchInterval_none_body items hwf post hp more]
  simp only
  cases items with
  | nil =>
    have := Tspec_nil f (post ++ ']' :: more) 0 [] post more [] [] [] trivial (by intro c hc; cases hc) hp
      (by simp [SynItems.renderTail]) (by simp [SynItems.render] at hb ⊢; omega) (Or.inl ⟨rfl, rfl⟩)
    simpa [SynItems.render, SynItems.renderTail, SynItems.denote] using this
  | cons v after rest =>
    simp only [SynItems.WF] at hwf
    obtain ⟨hv, ha, hr⟩ := hwf
    have := hcons v after rest rfl f (v.render ++ (after ++ rest.renderTail) ++ (post ++ ']' :: more)) 0
      after post more [] hv hr ha hp (by simp) (by simp [SynItems.render] at hb ⊢; omega)
    simpa [SynItems.render, SynItems.denote] using this

theorem Syn.size_pos (v : Syn) : 1 ≤ v.size := by cases v <;> simp [Syn.size]

/-- all three specifications, for every nesting depth, by induction on the size bound -/
theorem list_specs : ∀ n,
    (∀ items : SynItems, items.size ≤ n → Tspec items) ∧
    (∀ (v : Syn) (items : SynItems), v.size + items.size ≤ n → v.WF true → Vspec v items) ∧
    (∀ items : SynItems, items.size ≤ n → Lspec items) := by
  intro n
  induction n with
  | zero =>
    refine ⟨?_, ?_, ?_⟩
    · intro items h
      cases items with
      | nil => exact Tspec_nil
      | cons v a r => simp [SynItems.size] at h
    · intro v items h
      have := v.size_pos; omega
    · intro items h
      cases items with
      | nil => exact Lspec_of (fun _ => trivial) (by intro v a r e; cases e)
      | cons v a r => simp [SynItems.size] at h
  | succ n ih =>
    obtain ⟨ihT, ihV, ihL⟩ := ih
    have hT : ∀ items : SynItems, items.size ≤ n + 1 → items.WF → Tspec items := by
      intro items h hwf
      cases items with
      | nil => exact Tspec_nil
      | cons v a r =>
        simp only [SynItems.size] at h
        simp only [SynItems.WF] at hwf
        exact Tspec_cons (ihV v r (by omega) hwf.1)
    refine ⟨?_, ?_, ?_⟩
    · intro items h
      -- Tspec takes well-formedness as a hypothesis, so we may assume it
      intro fuel t i w post more content cur pend hwf
      exact hT items h hwf fuel t i w post more content cur pend hwf
    · intro v items h hv
      have hvp := v.size_pos
      have hTi : Tspec items := ihT items (by omega)
      cases v with
      | bare pre s => exact Vspec_bare hTi
      | quoted pre s => exact Vspec_quoted hTi
      | interval pre na da nb db => exact Vspec_interval hTi
      | list pre items' post' =>
        simp only [Syn.size] at h
        exact Vspec_list (ihL items' (by omega)) hTi
      | record pre fields post' =>
        simp only [Syn.WF] at hv
        exact absurd hv.1 (by decide)
    · intro items h
      intro fuel post more hwf
      refine Lspec_of (fun _ => trivial) ?_ fuel post more hwf
      intro v a r e
      subst e
      simp only [SynItems.size] at h
      simp only [SynItems.WF] at hwf
      exact ihV v r (by omega) hwf.1

/-- **`parse_list` is correct on every well-formed list body**, any nesting depth -/
theorem parseList_render (items : SynItems) (hwf : items.WF) (post more : List Char) (hp : AllWs post)
    (fuel : Nat) (hf : 2 * (items.render ++ (post ++ ']' :: more)).length + 3 ≤ fuel) :
    parseList fuel (items.render ++ (post ++ ']' :: more))
      = .ok (.list items.denote, (items.render ++ post).length + 1) :=
  (list_specs items.size).2.2 items (Nat.le_refl _) fuel post more hwf hp hf

end GT.Gap
