/-
C06 lemma library, aggregated:
* `GT.Lemmas.RepAutSpec`  — memo-free specification `accSpec`; `accepted`/`automatonAccepted`
  agree with it on every sound memo dict (`accepted_agrees`, `memo_sound`, `memo_complete`,
  `automatonAccepted_agrees`);
* `GT.Lemmas.RepAutPairs` — matrix k is the image of word k (`accSpec_pairs`, `accepted_pairs`,
  `automatonAccepted_pairs`);
* `GT.Lemmas.RepAutStar`  — the same for every representation, the words parsed with the
  representation's own `parse_simple` (`parseWord_joinW`, `accSpec_pairs_g`, `accepted_pairs_g`,
  `accepted_pairs_nonsimple`, `labelOKg_of_edgeWords`, `labelOKg_of_validNames`);
* `GT.Lemmas.RepAutLang`  — the words are the label words of the paths, once per path
  (`accepted_words_start`, `accepted_words_end`, `accepted_eq_enumerate`);
* `GT.Lemmas.RepAutTotal` — when exceptions are raised (`accSpec_total_start`, `accSpec_keyError`,
  `accSpec_total_end`);
* `GT.Lemmas.RepAutFree`  — `free_automaton` spells the freely reduced words, each once
  (`free_language`, `free_pathWords_mem`, `freelyReducedElements_spec`).
Below: concrete instances showing that the hypotheses of the main theorems are satisfiable.
-/
import Mathlib.LinearAlgebra.Matrix.Notation
import GT.Lemmas.RepAutSpec
import GT.Lemmas.RepAutPairs
import GT.Lemmas.RepAutStar
import GT.Lemmas.RepAutLang
import GT.Lemmas.RepAutFree
import GT.Lemmas.RepAutTotal
import GT.Lemmas.RepAutGuard

namespace GT.RepW
namespace RepAutExamples
open Rep

/-- states 0, 1; edges 0 -a→ 1, 1 -a→ 1, 1 -b→ 0; start vertex 0 -/
def a0 : Aut Nat := ⟨[(0, [("a", 1)]), (1, [("a", 1), ("b", 0)])], [0]⟩

/-- a ↦ [[1,1],[0,1]], b ↦ [[1,0],[1,1]] over ℤ -/
def r0 : Rep 2 ℤ :=
  { gens := [("a", DMat.ofMatrix !![1, 1; 0, 1]), ("b", DMat.ofMatrix !![1, 0; 1, 1])] }

/-- a free group on one letter: a ↦ [[1,1],[0,1]], A ↦ [[1,-1],[0,1]] -/
def r1 : Rep 2 ℤ :=
  { gens := [("a", DMat.ofMatrix !![1, 1; 0, 1]), ("A", DMat.ofMatrix !![1, -1; 0, 1])] }

/-! `memo_sound` / `accepted_agrees`: a sound non-empty memo dict exists (the one the code
itself leaves behind), and the specification has a value -/
example : MemoOK r0 a0 {} [] := memoOK_nil _ _ _
example : (r0.accSpec a0 {} 2 0).isOk = true := by decide
example : (r0.accSpec a0 { asStart := false, maxlen := false } 2 1).isOk = true := by decide
example : ((r0.accepted a0 2 {} (some 0) []).toOption.map fun p => p.2.length) = some 2 := by
  decide
example : ∃ res memo', r0.accepted a0 2 {} (some 0) [] = .ok (res, memo') ∧
    MemoOK r0 a0 {} memo' ∧ memo'.length = 2 := by
  cases h : r0.accepted a0 2 {} (some 0) [] with
  | error e =>
    have : (r0.accepted a0 2 {} (some 0) []).isOk = true := by decide
    rw [h] at this
    cases this
  | ok p =>
    obtain ⟨res, memo'⟩ := p
    refine ⟨res, memo', rfl, (accepted_nil r0 a0 2 {} 0 memo' res h).2, ?_⟩
    have : ((r0.accepted a0 2 {} (some 0) []).toOption.map fun p => p.2.length) = some 2 := by
      decide
    rw [h] at this
    exact Option.some.inj this

/-- the exception a result carries, if any -/
def errOf {α : Type} : M? α → Option Err
  | .error e => some e
  | .ok _ => none

/-- `r0` with `parse_simple=False`: words are joined with `"*"` -/
def r0ns : Rep 2 ℤ := { r0 with parseSimple := false }

example : ((r0ns.accepted a0 2 { withWords := true } (some 0) []).toOption.map (·.1.words)) =
    some ["", "a", "a*a", "a*b"] := by decide
example : ((r0ns.accepted a0 2 { withWords := true, asStart := false } (some 0) []).toOption.map
    (·.1.words)) = some ["", "a*b"] := by decide

/-! `accepted_pairs_g` / `accepted_pairs_nonsimple`: the label hypothesis holds -/
example : LabelOKg r0ns { withWords := true } := labelOKg_of_edgeWords r0ns _ rfl
example : LabelOKg r0ns { withWords := true, edgeWords := false } :=
  labelOKg_of_validNames r0ns _ rfl rfl (by decide)
example : parseWord false "a*a" = ["a", "a"] := by decide

/-! the guard of a caller-supplied dict: a dict filled by a `maxlen=True` call records its
options; the same call with `maxlen=False` on that dict is refused, the same options are served -/
example :
    let d := (r0.automatonAcceptedD a0 2 true true (some 0) none {} true).2
    d.options = some (true, true, true, true) ∧ d.memo.length = 2 ∧
    errOf (r0.automatonAcceptedD a0 2 false true (some 0) none d true).1 = some "ValueError" ∧
    ((r0.automatonAcceptedD a0 1 true true (some 1) none d true).1.toOption.map (·.words)) =
      some ["", "a", "b"] := by
  decide
example : GuardOK r0 a0 (r0.automatonAcceptedD a0 2 true true (some 0) none {} true).2 :=
  (precomputed_guard_sound r0 a0 2 true true (some 0) none {} true (guard_empty _ _)).1

/-- why `MemoOK` is a hypothesis: the dict key is `(length, state)` only, so a dict filled by
a `maxlen=True` call and then passed to a `maxlen=False` call makes the latter return the
`maxlen=True` answer, which is not what the specification (the fresh computation) gives -/
example :
    let m := ((r0.accepted a0 2 { withWords := true } (some 0) []).toOption.map (·.2)).getD []
    ((r0.accepted a0 2 { withWords := true, maxlen := false } (some 0) m).toOption.map
        (·.1.words)) = some ["", "a", "aa", "ab"] ∧
    ((r0.accepted a0 2 { withWords := true, maxlen := false } (some 0) []).toOption.map
        (·.1.words)) = some ["aa", "ab"] := by
  decide

/-! `accepted_pairs` -/
example : LabelOK r0 { withWords := true } := labelOK_of_edgeWords r0 _ rfl rfl
example : LabelOK r0 { withWords := true, edgeWords := false } := by
  refine labelOK_of_single r0 _ rfl ?_
  intro g hg
  have : r0.gens.map Prod.fst = ["a", "b"] := rfl
  rw [this] at hg
  simp only [List.mem_cons, List.not_mem_nil, or_false] at hg
  rcases hg with rfl | rfl
  · exact ⟨'a', rfl⟩
  · exact ⟨'b', rfl⟩

/-! `accepted_words_start` / `accepted_words_end` / `accepted_eq_enumerate` -/
example : a0.WF := ⟨by decide, by decide⟩
example : (a0.enumWords 0 2).isOk = true := by decide
example : startLang a0 true 2 0 = ["", "a", "aa", "ab"] := by decide
example : endLang a0 false 2 1 = ["aa"] := by decide
example : endLang a0 true 3 0 = ["", "ab", "aab"] := by decide

/-! `accSpec_total_start` / `accSpec_total_end` -/
example : LabelsDefined r0 a0 {} := by
  intro v e hve ln hln
  have hok : ∀ l ∈ ["a", "b"], (r0.edgeElt {} l).isOk = true := by decide
  have hl : ln.1 ∈ ["a", "b"] := by
    simp only [a0, List.mem_cons, Prod.mk.injEq, List.not_mem_nil, or_false] at hve
    rcases hve with ⟨rfl, rfl⟩ | ⟨rfl, rfl⟩
    · simp only [List.mem_cons, List.not_mem_nil, or_false] at hln
      subst hln
      decide
    · simp only [List.mem_cons, List.not_mem_nil, or_false] at hln
      rcases hln with rfl | rfl <;> decide
  have := hok ln.1 hl
  cases h : r0.edgeElt {} ln.1 with
  | error err => rw [h] at this; cases this
  | ok E => exact ⟨E, rfl⟩
example : (1 : Nat) ∈ a0.vertices := by decide

/-! `free_language` / `freelyReducedElements_spec` -/
example : FreeOK ["a", "b"] := ⟨by decide, by decide, by decide⟩
example : FreeOK r1.asymGens := ⟨by decide, by decide, by decide⟩
example : SingleChar (freeGens r1.asymGens) := by
  have : freeGens r1.asymGens = ["a", "A"] := by decide
  rw [this]
  intro g hg
  simp only [List.mem_cons, List.not_mem_nil, or_false] at hg
  rcases hg with rfl | rfl
  · exact ⟨'a', rfl⟩
  · exact ⟨'A', rfl⟩
example : (r1.freelyReducedElements 2 true true).isOk = true := by decide
example : ((r1.freelyReducedElements 2 true true).toOption.map fun r => r.words) =
    some ["", "a", "aa", "A", "AA"] := by decide

end RepAutExamples
end GT.RepW
