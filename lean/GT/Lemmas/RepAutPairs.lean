/-
C06, part 2: every `(word, matrix)` pair of the specification `accSpec` (hence of
`_automaton_accepted`, by `GT.Lemmas.RepAutSpec`) is consistent: the matrix is the image of
the word under the representation.
-/
import GT.Lemmas.RepAutSpec

set_option linter.unusedSectionVars false

namespace GT.RepW

theorem parseWord_true_append (s t : String) :
    parseWord true (s ++ t) = parseWord true s ++ parseWord true t := by
  simp [parseWord, String.toList_append]

theorem parseWord_true_empty : parseWord true "" = [] := by
  simp [parseWord]

theorem forall₂_mem_right {α β : Type} {P : α → β → Prop} {l₁ : List α} {l₂ : List β}
    (h : List.Forall₂ P l₁ l₂) {y : β} (hy : y ∈ l₂) : ∃ x ∈ l₁, P x y := by
  induction h with
  | nil => cases hy
  | cons h1 _ ih =>
    rw [List.mem_cons] at hy
    rcases hy with rfl | hy
    · exact ⟨_, List.mem_cons_self, h1⟩
    · obtain ⟨x, hx, hb⟩ := ih hy
      exact ⟨x, List.mem_cons_of_mem _ hx, hb⟩

namespace Rep
variable {V : Type} [DecidableEq V] {n : ℕ} {R : Type} [Inhabited R] [CommRing R]

/-- every edge label that has an edge element is a word (read character by character) whose
image is that element.  Automatic for `edge_words=True` on a `parse_simple` representation
(`labelOK_of_edgeWords`); for `edge_words=False` it holds when generator names are single
characters (`labelOK_of_single`). -/
def LabelOK (ρ : Rep n R) (o : AccOpts) : Prop :=
  ∀ l A, ρ.edgeElt o l = .ok A → ρ.value (parseWord true l) = .ok A.toMatrix

theorem labelOK_of_edgeWords (ρ : Rep n R) (o : AccOpts) (hp : ρ.parseSimple = true)
    (he : o.edgeWords = true) : LabelOK ρ o := by
  intro l A h
  unfold edgeElt at h
  rw [if_pos he] at h
  unfold wordValueS at h
  simp only [Option.getD_none, hp] at h
  unfold value
  rw [h]
  rfl

/-- `edge_words=False`: labels are looked up in `generators`; if every generator name is a
single character, the label is the one-letter word -/
theorem labelOK_of_single (ρ : Rep n R) (o : AccOpts) (he : o.edgeWords = false)
    (h1 : ∀ g ∈ ρ.gens.map Prod.fst, ∃ c : Char, g = String.ofList [c]) : LabelOK ρ o := by
  intro l A h
  unfold edgeElt at h
  rw [he] at h
  simp only [Bool.false_eq_true, if_false] at h
  have hmem : l ∈ ρ.gens.map Prod.fst := by
    unfold gen at h
    generalize ρ.gens = d at h
    induction d with
    | nil => simp [dget] at h
    | cons kv d ih =>
      obtain ⟨k0, v0⟩ := kv
      simp only [dget] at h
      by_cases hk : k0 = l
      · simp [hk]
      · rw [if_neg hk] at h
        simp only [List.map_cons, List.mem_cons]
        exact Or.inr (ih h)
  obtain ⟨c, hc⟩ := h1 l hmem
  have : parseWord true l = [l] := by
    subst hc
    simp [parseWord]
  rw [this, value_singleton]
  unfold genM
  rw [h]
  rfl

theorem value_one_nil (ρ : Rep n R) :
    ρ.value (parseWord true "") = .ok (DMat.one : DMat n n R).toMatrix := by
  rw [parseWord_true_empty, value_nil, DMat.toMatrix_one]

/-- **matrix k is the image of word k** (specification level) -/
theorem accSpec_pairs (ρ : Rep n R) (a : Aut V) (o : AccOpts) (hp : ρ.parseSimple = true)
    (hL : LabelOK ρ o) :
    ∀ (L : Nat) (v : V) (pairs : List (String × DMat n n R)),
      ρ.accSpec a o L v = .ok pairs →
      ∀ sM ∈ pairs, ρ.value (parseWord true sM.1) = .ok sM.2.toMatrix
  | 0, v, pairs, h, sM, hsM => by
    rw [accSpec_zero] at h
    cases h
    unfold zeroPairs at hsM
    split_ifs at hsM
    · rw [List.mem_singleton] at hsM
      subst hsM
      exact value_one_nil ρ
    · cases hsM
  | k + 1, v, pairs, h, sM, hsM => by
    obtain ⟨edges, parts, hadj, hF, rfl⟩ := accSpec_succ_ok h
    rw [List.mem_append] at hsM
    rcases hsM with hz | hpp
    · split_ifs at hz
      · unfold zeroPairs at hz
        split_ifs at hz
        · rw [List.mem_singleton] at hz
          subst hz
          exact value_one_nil ρ
        · cases hz
      · cases hz
    · rw [List.mem_flatten] at hpp
      obtain ⟨part, hpart, hin⟩ := hpp
      obtain ⟨wl, hwl, hbody⟩ := forall₂_mem_right hF hpart
      obtain ⟨r, e, hr, he, rfl⟩ := specBody_ok hbody
      unfold extendPairs at hin
      simp only [joinW_simple hp] at hin
      rw [List.mem_map] at hin
      obtain ⟨sM0, hsM0, rfl⟩ := hin
      have ih := accSpec_pairs ρ a o hp hL k wl.1 r hr sM0 hsM0
      have hl := hL wl.2 e he
      cases hA : o.asStart
      · simp only [Bool.false_eq_true, if_false]
        rw [parseWord_true_append, DMat.toMatrix_mul]
        exact value_append_ok ρ ih hl
      · simp only [if_true]
        rw [parseWord_true_append, DMat.toMatrix_mul]
        exact value_append_ok ρ hl ih

/-- the words and matrices of a result built from consistent pairs correspond position by
position -/
theorem toRes_forall₂ (ρ : Rep n R) (o : AccOpts) (hw : o.withWords = true)
    (pairs : List (String × DMat n n R))
    (h : ∀ sM ∈ pairs, ρ.value (parseWord true sM.1) = .ok sM.2.toMatrix) :
    List.Forall₂ (fun s M => ρ.value (parseWord true s) = .ok (DMat.toMatrix M))
      (toRes o pairs).words (toRes o pairs).mats := by
  unfold toRes
  simp only [hw, if_true]
  induction pairs with
  | nil => exact List.Forall₂.nil
  | cons p ps ih =>
    exact List.Forall₂.cons (h p List.mem_cons_self)
      (ih fun sM hs => h sM (List.mem_cons_of_mem _ hs))

/-- the matrices do not depend on `with_words` -/
theorem accSpec_withWords_irrel (ρ : Rep n R) (a : Aut V) (o : AccOpts) (b : Bool) :
    ∀ (L : Nat) (v : V), ρ.accSpec a { o with withWords := b } L v = ρ.accSpec a o L v
  | 0, v => rfl
  | k + 1, v => by
    rw [accSpec_succ, accSpec_succ]
    have : ρ.specBody a { o with withWords := b } k = ρ.specBody a o k := by
      funext wl
      unfold specBody
      rw [accSpec_withWords_irrel ρ a o b k wl.1]
      rfl
    rw [this]
    rfl

/-- **`accepted_pairs`**: for the model's actual output with `with_words=True` on a correct
memo dict, word `k` evaluates to matrix `k`, entry by entry. -/
theorem accepted_pairs (ρ : Rep n R) (a : Aut V) (L : Nat) (o : AccOpts) (v : V)
    (memo memo' : Memo V n R) (res : AccRes n R) (hp : ρ.parseSimple = true) (hL : LabelOK ρ o)
    (hw : o.withWords = true)
    (hm : MemoOK ρ a o memo) (h : ρ.accepted a L o (some v) memo = .ok (res, memo')) :
    List.Forall₂ (fun s M => ρ.value (parseWord true s) = .ok (DMat.toMatrix M))
      res.words res.mats := by
  obtain ⟨⟨pairs, hs, rfl⟩, _⟩ := memo_sound ρ a L o v memo memo' res hm h
  exact toRes_forall₂ ρ o hw pairs (accSpec_pairs ρ a o hp hL L v pairs hs)

/-- … and with `with_words=False` the very same list of matrices is returned (and no words):
running with the empty memo dict and either value of `with_words` gives the same `mats`. -/
theorem accepted_mats_withWords_irrel (ρ : Rep n R) (a : Aut V) (L : Nat) (o : AccOpts) (v : V)
    (b : Bool) (m1 m2 : Memo V n R) (r1 r2 : AccRes n R)
    (h1 : ρ.accepted a L o (some v) [] = .ok (r1, m1))
    (h2 : ρ.accepted a L { o with withWords := b } (some v) [] = .ok (r2, m2)) :
    r2.mats = r1.mats := by
  obtain ⟨⟨p1, hs1, rfl⟩, _⟩ := accepted_nil ρ a L o v m1 r1 h1
  obtain ⟨⟨p2, hs2, rfl⟩, _⟩ := accepted_nil ρ a L _ v m2 r2 h2
  rw [accSpec_withWords_irrel, hs1] at hs2
  cases hs2
  rfl

/-- the same for the public wrapper, all choices of `start_state`/`end_state` -/
theorem automatonAccepted_pairs (ρ : Rep n R) (a : Aut V) (L : Nat) (maxlen : Bool)
    (startState endState : Option V) (memo memo' : Memo V n R) (edgeWords : Bool)
    (res : AccRes n R) (hp : ρ.parseSimple = true)
    (hL : LabelOK ρ (topOpts maxlen true endState edgeWords))
    (hm : MemoOK ρ a (topOpts maxlen true endState edgeWords) memo)
    (h : ρ.automatonAccepted a L maxlen true startState endState memo edgeWords =
      .ok (res, memo')) :
    List.Forall₂ (fun s M => ρ.value (parseWord true s) = .ok (DMat.toMatrix M))
      res.words res.mats := by
  obtain ⟨⟨pairs, hs, rfl⟩, _⟩ :=
    automatonAccepted_sound ρ a L maxlen true startState endState memo memo' edgeWords res hm h
  refine toRes_forall₂ ρ _ rfl pairs ?_
  unfold topSpec at hs
  cases endState with
  | some e =>
    cases startState with
    | some s => cases hs
    | none => exact accSpec_pairs ρ a _ hp hL L e pairs hs
  | none =>
    cases startState with
    | some s => exact accSpec_pairs ρ a _ hp hL L s pairs hs
    | none =>
      cases L with
      | zero =>
        simp only [accSpecO] at hs
        cases hs
        intro sM hsM
        rw [List.mem_singleton] at hsM
        subst hsM
        exact value_one_nil ρ
      | succ k =>
        simp only [accSpecO] at hs
        cases hst : a.starts with
        | nil => rw [hst] at hs; cases hs
        | cons s t =>
          rw [hst] at hs
          exact accSpec_pairs ρ a _ hp hL (k + 1) s pairs hs

end Rep
end GT.RepW
