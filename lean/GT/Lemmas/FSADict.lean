/-
Lemmas about `GT.Dict` (Python dict as insertion-ordered association list).
-/
import GT.Model.FSA

set_option linter.unusedSectionVars false

namespace GT.Dict
variable {κ ν : Type} [DecidableEq κ]

@[simp] theorem get?_nil (k : κ) : Dict.get? ([] : Dict κ ν) k = none := rfl

theorem get?_cons (a : κ × ν) (r : Dict κ ν) (k : κ) :
    Dict.get? (a :: r) k = if k = a.1 then some a.2 else Dict.get? r k := by
  cases a; rfl

@[simp] theorem keys_nil : Dict.keys ([] : Dict κ ν) = [] := rfl
@[simp] theorem keys_cons (a : κ × ν) (r : Dict κ ν) : Dict.keys (a :: r) = a.1 :: Dict.keys r := rfl

theorem get?_set (d : Dict κ ν) (k k' : κ) (v : ν) :
    (d.set k v).get? k' = if k' = k then some v else d.get? k' := by
  induction d with
  | nil => simp [Dict.set, get?_cons]
  | cons a r ih =>
    obtain ⟨a1, a2⟩ := a
    simp only [Dict.set]
    split <;> grind [get?_cons]

theorem get?_erase (d : Dict κ ν) (k k' : κ) :
    (d.erase k).get? k' = if k' = k then none else d.get? k' := by
  induction d with
  | nil => simp [Dict.erase]
  | cons a r ih =>
    obtain ⟨a1, a2⟩ := a
    simp only [Dict.erase, List.filter_cons] at ih ⊢
    grind [get?_cons]

theorem get?_eq_none_iff (d : Dict κ ν) (k : κ) : d.get? k = none ↔ k ∉ d.keys := by
  induction d with
  | nil => simp
  | cons a r ih => grind [get?_cons, keys_cons]

theorem mem_keys_iff (d : Dict κ ν) (k : κ) : k ∈ d.keys ↔ ∃ v, d.get? k = some v := by
  have := get?_eq_none_iff d k
  cases h : d.get? k <;> simp_all

theorem contains_iff (d : Dict κ ν) (k : κ) : d.contains k = true ↔ k ∈ d.keys := by
  rw [mem_keys_iff]; unfold Dict.contains; cases d.get? k <;> simp

theorem mem_of_get? {d : Dict κ ν} {k : κ} {v : ν} (h : d.get? k = some v) : (k, v) ∈ d := by
  induction d with
  | nil => simp at h
  | cons a r ih =>
    obtain ⟨a1, a2⟩ := a
    rw [get?_cons] at h
    by_cases e : k = a1
    · simp [e] at h; simp [e, h]
    · simp [e] at h; exact List.mem_cons_of_mem _ (ih h)

theorem get?_of_mem {d : Dict κ ν} (hd : d.keys.Nodup) {k : κ} {v : ν} (h : (k, v) ∈ d) :
    d.get? k = some v := by
  induction d with
  | nil => cases h
  | cons a r ih =>
    obtain ⟨a1, a2⟩ := a
    simp only [keys_cons, List.nodup_cons] at hd
    rw [get?_cons]
    rcases List.mem_cons.1 h with h1 | h1
    · cases h1; simp
    · have : k ≠ a1 := by
        rintro rfl
        exact hd.1 (List.mem_map.2 ⟨(k, v), h1, rfl⟩)
      simp [this, ih hd.2 h1]

theorem mem_iff_get? {d : Dict κ ν} (hd : d.keys.Nodup) {k : κ} {v : ν} :
    (k, v) ∈ d ↔ d.get? k = some v := ⟨get?_of_mem hd, mem_of_get?⟩

theorem keys_set (d : Dict κ ν) (k : κ) (v : ν) :
    (d.set k v).keys = if k ∈ d.keys then d.keys else d.keys ++ [k] := by
  induction d with
  | nil => simp [Dict.set, Dict.keys]
  | cons a r ih =>
    obtain ⟨a1, a2⟩ := a
    simp only [Dict.set]
    split
    · subst_vars; simp
    · rename_i h
      simp only [keys_cons, ih, List.mem_cons, h, false_or]
      split <;> simp

theorem mem_keys_set (d : Dict κ ν) (k k' : κ) (v : ν) :
    k' ∈ (d.set k v).keys ↔ k' = k ∨ k' ∈ d.keys := by
  rw [keys_set]; split <;> simp <;> grind

theorem nodup_keys_set {d : Dict κ ν} (hd : d.keys.Nodup) (k : κ) (v : ν) : (d.set k v).keys.Nodup := by
  rw [keys_set]
  split
  · exact hd
  · rename_i h
    rw [List.nodup_append]
    refine ⟨hd, by simp, ?_⟩
    intro a ha b hb
    simp at hb; subst hb
    rintro rfl; exact h ha

theorem keys_erase (d : Dict κ ν) (k : κ) : (d.erase k).keys = d.keys.filter (fun a => !decide (a = k)) := by
  induction d with
  | nil => rfl
  | cons a r ih =>
    simp only [Dict.erase, List.filter_cons, keys_cons] at ih ⊢
    split <;> simp_all [Dict.keys]

theorem mem_keys_erase (d : Dict κ ν) (k k' : κ) : k' ∈ (d.erase k).keys ↔ k' ≠ k ∧ k' ∈ d.keys := by
  rw [keys_erase]; simp [and_comm]

theorem nodup_keys_erase {d : Dict κ ν} (hd : d.keys.Nodup) (k : κ) : (d.erase k).keys.Nodup := by
  rw [keys_erase]; exact hd.filter _

theorem erase_of_not_mem {d : Dict κ ν} {k : κ} (h : k ∉ d.keys) : d.erase k = d := by
  unfold Dict.erase
  rw [List.filter_eq_self]
  intro a ha
  have : a.1 ∈ d.keys := List.mem_map.2 ⟨a, ha, rfl⟩
  simp only [Bool.not_eq_eq_eq_not, Bool.not_true, decide_eq_false_iff_not]
  rintro rfl; exact h this

theorem erase_erase_self (d : Dict κ ν) (k : κ) : (d.erase k).erase k = d.erase k := by
  apply erase_of_not_mem
  rw [mem_keys_erase]; simp

theorem get?_filter {d : Dict κ ν} (hd : d.keys.Nodup) (p : κ × ν → Bool) (k : κ) :
    Dict.get? (d.filter p) k = (d.get? k).filter (fun v => p (k, v)) := by
  induction d with
  | nil => simp
  | cons a r ih =>
    obtain ⟨a1, a2⟩ := a
    simp only [keys_cons, List.nodup_cons] at hd
    rw [List.filter_cons, get?_cons]
    by_cases e : k = a1
    · subst e
      have hr : Dict.get? r k = none := (get?_eq_none_iff r k).2 hd.1
      by_cases hp : p (k, a2) = true
      · simp [hp, get?_cons, Option.filter]
      · simp only [hp, Bool.false_eq_true, if_false, ih hd.2, hr]
        simp [Option.filter, hp]
    · simp only [e, if_false]
      split
      · rw [get?_cons]; simp [e, ih hd.2]
      · exact ih hd.2

theorem keys_filter_sublist (d : Dict κ ν) (p : κ × ν → Bool) : List.Sublist (Dict.keys (d.filter p)) d.keys := by
  unfold Dict.keys
  exact (List.filter_sublist).map _

theorem nodup_keys_filter {d : Dict κ ν} (hd : d.keys.Nodup) (p : κ × ν → Bool) :
    (Dict.keys (d.filter p)).Nodup := hd.sublist (keys_filter_sublist d p)

theorem get?_mapVal {μ : Type} (d : Dict κ ν) (f : κ → ν → μ) (k : κ) :
    Dict.get? (d.map fun r => (r.1, f r.1 r.2)) k = (d.get? k).map (f k) := by
  induction d with
  | nil => simp
  | cons a r ih =>
    obtain ⟨a1, a2⟩ := a
    simp only [List.map_cons, get?_cons, ih]
    split <;> simp_all

theorem keys_mapVal {μ : Type} (d : Dict κ ν) (f : κ → ν → μ) :
    Dict.keys (d.map fun r => (r.1, f r.1 r.2)) = d.keys := by
  simp [Dict.keys, List.map_map, Function.comp_def]

theorem get_eq_ok (d : Dict κ ν) (k : κ) (v : ν) : d.get k = .ok v ↔ d.get? k = some v := by
  unfold Dict.get; cases d.get? k <;> simp

theorem get_eq_ok_of {d : Dict κ ν} {k : κ} {v : ν} (h : d.get? k = some v) : d.get k = .ok v :=
  (get_eq_ok d k v).2 h

theorem pop_eq_ok (d d' : Dict κ ν) (k : κ) : d.pop k = .ok d' ↔ k ∈ d.keys ∧ d' = d.erase k := by
  unfold Dict.pop
  by_cases h : d.contains k = true
  · simp [h, (contains_iff d k).1 h, eq_comm]
  · have : k ∉ d.keys := fun hk => h ((contains_iff d k).2 hk)
    simp [h, this]

theorem getOr_def (d : Dict κ ν) (k : κ) (x : ν) : d.getOr k x = (d.get? k).getD x := rfl

end GT.Dict
