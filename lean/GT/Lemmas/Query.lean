/- helper lemmas: the in-place writes reachable from queries only rescale rows positively -/
import GT.Model.ObjState
import GT.Lemmas.ND
import GT.Model.Charts
import Mathlib.Algebra.BigOperators.Fin
import Mathlib.Algebra.Order.Field.Basic
import Mathlib.Algebra.Order.AbsoluteValue.Basic
import Mathlib.Tactic.FinCases
import Mathlib.Tactic.Positivity
import Mathlib.Tactic.FieldSimp

set_option linter.unusedSectionVars false
set_option linter.unusedSimpArgs false
set_option linter.unusedVariables false

open Matrix

namespace GT.Act
open ND

variable {K : Type} [Field K] [LinearOrder K] [IsStrictOrderedRing K] [Inhabited K] {n : ℕ}

/-- what is assumed of the supplied square root here: non-negative on non-negative arguments
(implied by `IsSqrt`; true of `Real.sqrt` and of exact rational roots) -/
def RootNonneg (r : K → K) : Prop := ∀ y, 0 ≤ y → 0 ≤ r y

theorem bil_smul_smul (J : Matrix (Fin n) (Fin n) K) (c d : K) (x y : Fin n → K) :
    bil J (c • x) (d • y) = c * d * bil J x y := by
  unfold bil
  rw [Matrix.mulVec_smul, smul_dotProduct, dotProduct_smul]
  simp [mul_assoc]

/-- `utils.normalize` on one row: a positive multiple of the row (or the row itself when null) -/
theorem normalizeRow_pos {r : K → K} (hr : RootNonneg r) (x : Fin n → K) :
    ∃ c : K, 0 < c ∧ normalizeRow r x = c • x := by
  unfold normalizeRow
  by_cases h : r |bil (minkJ n) x x| = 0
  · exact ⟨1, one_pos, by simp [h]⟩
  · have hpos : 0 < r |bil (minkJ n) x x| := lt_of_le_of_ne (hr _ (abs_nonneg _)) (Ne.symm h)
    refine ⟨(r |bil (minkJ n) x x|)⁻¹, inv_pos.2 hpos, ?_⟩
    simp only [h, if_false]
    funext c
    simp [div_eq_inv_mul]

/-- the array version: `normalize(vectors, out=vectors)` rescales every row positively -/
theorem normalizeRows_pos {r : K → K} (hr : RootNonneg r) (a : ND K) {s : List ℕ} {m : ℕ}
    (hs : a.shape = s ++ [m]) : RowsPosEq (normalizeRows r a) a := by
  have hN : normalizeRows r a = normalizeRowsN r m a := by simp [normalizeRows, hs]
  rw [hN]
  refine ⟨rfl, ?_⟩
  intro ρ hρ
  have hsh : (normalizeRowsN r m a).shape = s ++ [m] := hs
  rw [hsh] at hρ ⊢
  have htake : (s ++ [m]).take ((s ++ [m]).length - 1) = s := by simp
  have hlast : (s ++ [m]).getLastD 0 = m := by simp
  rw [htake] at hρ
  rw [hlast]
  have hol : a.shape.length - 1 = s.length := by rw [hs]; simp
  -- the norm of row ρ
  set nrm := r |bil (minkJ m) (fun c : Fin m => a.get (ρ ++ [c.1])) (fun c : Fin m => a.get (ρ ++ [c.1]))| with hnrm
  by_cases h0 : nrm = 0
  · refine ⟨1, one_pos, fun j hj => ?_⟩
    unfold normalizeRowsN
    rw [get_ofFn _ _ (by rw [hs]; exact hρ.append (by simpa using hj))]
    simp only [hol, List.take_left' hρ.length]
    rw [← hnrm, if_pos h0, one_mul]
  · have hpos : 0 < nrm := lt_of_le_of_ne (hr _ (abs_nonneg _)) (Ne.symm h0)
    refine ⟨nrm⁻¹, inv_pos.2 hpos, fun j hj => ?_⟩
    unfold normalizeRowsN
    rw [get_ofFn _ _ (by rw [hs]; exact hρ.append (by simpa using hj))]
    simp only [hol, List.take_left' hρ.length]
    rw [← hnrm, if_neg h0, div_eq_inv_mul]

theorem rowsPosEq_refl (a : ND K) : RowsPosEq a a :=
  ⟨rfl, fun ρ _ => ⟨1, one_pos, fun j _ => by simp⟩⟩

/-- `normalize` restricted to the second rows: still a positive rescaling of every row -/
theorem normalizeSecondRows_pos {r : K → K} (hr : RootNonneg r) (a : ND K) {s : List ℕ} {m : ℕ}
    (hs : a.shape = s ++ [2, m]) : RowsPosEq (normalizeSecondRows r a) a := by
  have hs' : a.shape = (s ++ [2]) ++ [m] := by rw [hs]; simp
  obtain ⟨_, hN⟩ := normalizeRows_pos hr a hs'
  refine ⟨rfl, ?_⟩
  intro ρ hρ
  have hsh : (normalizeSecondRows r a).shape = (s ++ [2]) ++ [m] := hs'
  rw [hsh] at hρ ⊢
  have htake : ((s ++ [2]) ++ [m]).take (((s ++ [2]) ++ [m]).length - 1) = s ++ [2] := by
    have : ((s ++ [2]) ++ [m]).length - 1 = (s ++ [2]).length := by simp
    rw [this]; exact List.take_left' rfl
  have hlast : ((s ++ [2]) ++ [m]).getLastD 0 = m := by simp
  rw [htake] at hρ
  rw [hlast]
  obtain ⟨i, x, rfl, hi, hx⟩ := hρ.split
  match x, hx with
  | [e], hx =>
    simp only [valid_cons_cons, valid_nil_nil, and_true] at hx
    have hρ' : Valid ((normalizeRows r a).shape.take ((normalizeRows r a).shape.length - 1)) (i ++ [e]) := by
      have : (normalizeRows r a).shape = (s ++ [2]) ++ [m] := hs'
      rw [this, htake]; exact hi.append (by simpa using hx)
    obtain ⟨c, hc, hcg⟩ := hN (i ++ [e]) hρ'
    have hlast' : (normalizeRows r a).shape.getLastD 0 = m := by
      have : (normalizeRows r a).shape = (s ++ [2]) ++ [m] := hs'
      rw [this]; simp
    rw [hlast'] at hcg
    by_cases he : e = 1
    · refine ⟨c, hc, fun j hj => ?_⟩
      unfold normalizeSecondRows
      rw [get_ofFn _ _ (by rw [hs']; exact (hi.append (by simpa using hx)).append (by simpa using hj))]
      have : (i ++ [e] ++ [j]).getD ((i ++ [e] ++ [j]).length - 2) 0 = e := by
        simp [List.getD_eq_getElem?_getD, List.getElem?_append_right]
      rw [this, if_pos he]
      exact hcg j hj
    · refine ⟨1, one_pos, fun j hj => ?_⟩
      unfold normalizeSecondRows
      rw [get_ofFn _ _ (by rw [hs']; exact (hi.append (by simpa using hx)).append (by simpa using hj))]
      have : (i ++ [e] ++ [j]).getD ((i ++ [e] ++ [j]).length - 2) 0 = e := by
        simp [List.getD_eq_getElem?_getD, List.getElem?_append_right]
      rw [this, if_neg he, one_mul]

/-- `TangentVector.origin_to`'s write on one aux unit `[p, w]` with `w ⟂ p`: both rows are
rescaled positively (the Gram–Schmidt subtraction vanishes) -/
theorem tangentOriginWrite_pos {r : K → K} (hr : RootNonneg r) (X : Matrix (Fin 2) (Fin n) K)
    (horth : bil (minkJ n) (X 1) (X 0) = 0) :
    (∃ c : K, 0 < c ∧ tangentOriginWrite r X 0 = c • X 0) ∧
    (∃ c : K, 0 < c ∧ tangentOriginWrite r X 1 = c • X 1) := by
  obtain ⟨c0, hc0, h0⟩ := normalizeRow_pos hr (X 0)
  obtain ⟨c1, hc1, h1⟩ := normalizeRow_pos hr (X 1)
  refine ⟨⟨c0, hc0, ?_⟩, ⟨c1, hc1, ?_⟩⟩
  · funext c
    simp only [tangentOriginWrite, Matrix.of_apply, Matrix.cons_val_zero]
    rw [h0]
  · have hz : bil (minkJ n) (normalizeRow r (X 1)) (normalizeRow r (X 0)) = 0 := by
      rw [h0, h1, bil_smul_smul, horth, mul_zero]
    funext c
    simp only [tangentOriginWrite, Matrix.of_apply, Matrix.cons_val_one, Matrix.cons_val_zero, hz,
      mul_zero, zero_div, sub_zero]
    rw [h1]

/-- under `Inv`-style data (`aux₀ ∥ p`, `aux₁ ∥ v - p⟨v,p⟩/⟨p,p⟩`, `p` not null) the two aux rows of a
tangent vector are orthogonal -/
theorem tangent_aux_orth (p v a0 a1 : Fin n → K) (c0 c1 : K)
    (hp : bil (minkJ n) p p ≠ 0)
    (hsym : ∀ x y : Fin n → K, bil (minkJ n) x y = bil (minkJ n) y x)
    (h0 : a0 = c0 • p) (h1 : a1 = c1 • (fun j => v j - p j * bil (minkJ n) v p / bil (minkJ n) p p)) :
    bil (minkJ n) a1 a0 = 0 := by
  rw [h0, h1, bil_smul_smul]
  have : (fun j => v j - p j * bil (minkJ n) v p / bil (minkJ n) p p) =
      v - (bil (minkJ n) v p / bil (minkJ n) p p) • p := by
    funext j; simp [mul_comm, mul_div_assoc]
  rw [this]
  have hlin : bil (minkJ n) (v - (bil (minkJ n) v p / bil (minkJ n) p p) • p) p =
      bil (minkJ n) v p - (bil (minkJ n) v p / bil (minkJ n) p p) * bil (minkJ n) p p := by
    unfold bil
    rw [sub_dotProduct, smul_dotProduct]
    simp
  rw [hlin]
  field_simp
  simp

theorem minkJ_symm (x y : Fin n → K) : bil (minkJ n) x y = bil (minkJ n) y x := by
  unfold bil minkJ
  simp only [Matrix.mulVec_diagonal, dotProduct]
  apply Finset.sum_congr rfl
  intro i _
  ring

/-- the array version of `tangentOriginWrite_pos` -/
theorem tangentOriginWriteND_pos {r : K → K} (hr : RootNonneg r) (a : ND K) {s : List ℕ} {m : ℕ}
    (hs : a.shape = s ++ [2, m])
    (horth : ∀ i, Valid s i →
      bil (minkJ m) (fun c : Fin m => a.get (i ++ [1, c.1])) (fun c : Fin m => a.get (i ++ [0, c.1])) = 0) :
    RowsPosEq (tangentOriginWriteND r a) a := by
  have hN : tangentOriginWriteND r a = tangentOriginWriteN r m a := by simp [tangentOriginWriteND, hs]
  rw [hN]
  refine ⟨rfl, ?_⟩
  intro ρ hρ
  have hs' : a.shape = (s ++ [2]) ++ [m] := by rw [hs]; simp
  have hsh : (tangentOriginWriteN r m a).shape = (s ++ [2]) ++ [m] := hs'
  rw [hsh] at hρ ⊢
  have htake : ((s ++ [2]) ++ [m]).take (((s ++ [2]) ++ [m]).length - 1) = s ++ [2] := by
    have : ((s ++ [2]) ++ [m]).length - 1 = (s ++ [2]).length := by simp
    rw [this]; exact List.take_left' rfl
  have hlast : ((s ++ [2]) ++ [m]).getLastD 0 = m := by simp
  rw [htake] at hρ
  rw [hlast]
  obtain ⟨i, x, rfl, hi, hx⟩ := hρ.split
  match x, hx with
  | [e], hx =>
    simp only [valid_cons_cons, valid_nil_nil, and_true] at hx
    have hol : a.shape.length - 2 = s.length := by rw [hs]; simp
    set X : Matrix (Fin 2) (Fin m) K := fun e c => a.get (i ++ [e.1, c.1]) with hXdef
    obtain ⟨⟨c0, hc0, h0⟩, ⟨c1, hc1, h1⟩⟩ := tangentOriginWrite_pos hr X (horth i hi)
    have key : ∀ j (hj : j < m), (tangentOriginWriteN r m a).get (i ++ [e] ++ [j]) =
        tangentOriginWrite r X ⟨e, hx⟩ ⟨j, hj⟩ := by
      intro j hj
      unfold tangentOriginWriteN
      rw [get_ofFn _ _ (by rw [hs']; exact (hi.append (by simpa using hx)).append (by simpa using hj))]
      have e1 : (i ++ [e] ++ [j]).take (a.shape.length - 2) = i := by
        rw [hol, List.append_assoc]; exact List.take_left' hi.length
      have e2 : (i ++ [e] ++ [j]).getD (a.shape.length - 2) 0 = e := by
        rw [hol]; simp [List.getD_eq_getElem?_getD, List.getElem?_append_right, hi.length]
      have e3 : (i ++ [e] ++ [j]).getD (a.shape.length - 2 + 1) 0 = j := by
        rw [hol]; simp [List.getD_eq_getElem?_getD, List.getElem?_append_right, hi.length]
      simp only [e1, e2, e3, hx, hj, and_self, dite_true]
      rfl
    have he : e = 0 ∨ e = 1 := by omega
    rcases he with rfl | rfl
    · refine ⟨c0, hc0, fun j hj => ?_⟩
      rw [key j hj]
      have := congrFun h0 ⟨j, hj⟩
      simp only [Pi.smul_apply, smul_eq_mul] at this
      simpa [hXdef] using this
    · refine ⟨c1, hc1, fun j hj => ?_⟩
      rw [key j hj]
      have := congrFun h1 ⟨j, hj⟩
      simp only [Pi.smul_apply, smul_eq_mul] at this
      simpa [hXdef] using this

/-- the matrix form used here is C01's Minkowski form -/
theorem bil_minkJ {m : ℕ} (x y : Fin (m + 1) → K) : bil (minkJ (m + 1)) x y = mink x y := by
  unfold bil minkJ mink dot
  simp only [Matrix.mulVec_diagonal, dotProduct, Fin.sum_univ_succ, Fin.val_zero, if_true, Fin.tail]
  have : ∀ i : Fin m, (if (i.succ : Fin (m + 1)).1 = 0 then (-1 : K) else 1) = 1 := by
    intro i; simp
  simp only [this]
  ring_nf

/-- `normalizeRow` is C01's `normalize` -/
theorem normalizeRow_eq_normalize {m : ℕ} (r : K → K) (x : Fin (m + 1) → K) :
    normalizeRow r x = GT.normalize r x := by
  unfold normalizeRow GT.normalize
  rw [bil_minkJ]

end GT.Act
