/-
Helper lemmas for C05, derived representations that are not plain `_compose` instances:
Kronecker products (`tensor_product`, `gln_adjoint`), representations assembled by a loop of
`rep[g] = …` assignments (`tensor_product`, `symmetric_square`, `subgroup`).
-/
import Mathlib.LinearAlgebra.Matrix.Kronecker
import GT.Lemmas.RepHom

namespace GT.RepW
open Matrix

namespace Rep
variable {n m p : ℕ} {R : Type} [Inhabited R] [CommRing R]

/-! ### Kronecker product on `Fin (n * p)` -/

/-- Mathlib's Kronecker product transported to `Fin (n * p)` along `finProdFinEquiv`
(row `(i, k) ↦ i * p + k`) -/
def kron (A : Matrix (Fin n) (Fin n) R) (B : Matrix (Fin p) (Fin p) R) :
    Matrix (Fin (n * p)) (Fin (n * p)) R :=
  Matrix.reindex finProdFinEquiv finProdFinEquiv (Matrix.kroneckerMap (· * ·) A B)

theorem kron_apply (A : Matrix (Fin n) (Fin n) R) (B : Matrix (Fin p) (Fin p) R) (r c : Fin (n * p)) :
    kron A B r c = A (finProdFinEquiv.symm r).1 (finProdFinEquiv.symm c).1
      * B (finProdFinEquiv.symm r).2 (finProdFinEquiv.symm c).2 := rfl

theorem kron_mul (A A' : Matrix (Fin n) (Fin n) R) (B B' : Matrix (Fin p) (Fin p) R) :
    kron (A * A') (B * B') = kron A B * kron A' B' := by
  unfold kron
  rw [Matrix.mul_kronecker_mul]
  simp only [Matrix.reindex_apply]
  rw [Matrix.submatrix_mul_equiv]

theorem kron_one : kron (1 : Matrix (Fin n) (Fin n) R) (1 : Matrix (Fin p) (Fin p) R) = 1 := by
  unfold kron
  rw [Matrix.one_kronecker_one]
  simp [Matrix.reindex_apply]

theorem kron_inv {A Ai : Matrix (Fin n) (Fin n) R} {B Bi : Matrix (Fin p) (Fin p) R}
    (hA : A * Ai = 1) (hB : B * Bi = 1) : kron A B * kron Ai Bi = 1 := by
  rw [← kron_mul, hA, hB, kron_one]

/-- the double `np.concatenate` of `np.tensordot(A, B, axes=0)` is the Kronecker product -/
theorem tensorMat_toMatrix (A : DMat n n R) (B : DMat p p R) :
    (tensorMat A B).toMatrix = kron A.toMatrix B.toMatrix := by
  unfold tensorMat
  rw [DMat.toMatrix_ofMatrix]
  rfl

/-! ### adjoint representation of GL(n) -/

theorem mul_basis_mul (A B : Matrix (Fin n) (Fin n) R) (i j k l : Fin n) :
    (A * basisMatrix i j * B : Matrix (Fin n) (Fin n) R) k l = A k i * B j l := by
  simp only [Matrix.mul_apply, basisMatrix]
  rw [Finset.sum_eq_single j]
  · rw [Finset.sum_eq_single i]
    · simp
    · intro b _ hb; simp [hb]
    · simp
  · intro b _ hb
    have : ∀ x : Fin n, (if x = i ∧ b = j then (1 : R) else 0) = 0 := by
      intro x; simp [hb]
    simp [this]
  · simp

/-- `lie.gln_adjoint(A, inv=Ai)` is `A ⊗ Aiᵀ` -/
theorem glnAdjointMat_toMatrix (A Ai : DMat n n R) :
    (glnAdjointMat A Ai).toMatrix = kron A.toMatrix Ai.toMatrixᵀ := by
  unfold glnAdjointMat linearMatrixAction
  refine (DMat.toMatrix_ofMatrix _).trans ?_
  funext r c
  rw [kron_apply]
  exact mul_basis_mul _ _ _ _ _ _


/-! ### representations assembled by a loop of `rep[g] = value(g)` -/

theorem setGenerator_inv_field {invert : DMat n n R → Option (DMat n n R)} {ρ σ : Rep n R} {g : Gen}
    {A : DMat n n R} {b : Bool} (h : ρ.setGenerator invert g A b = .ok σ) :
    σ.inv = ρ.inv ∧ σ.parseSimple = ρ.parseSimple := by
  unfold setGenerator at h
  split_ifs at h with hv h2
  · simp only at h
    cases hi : invert A with
    | none => rw [hi] at h; cases h
    | some Ai => rw [hi] at h; cases h; exact ⟨rfl, rfl⟩
  · cases h; exact ⟨rfl, rfl⟩

/-- look-ups after `rep[g] = A` -/
theorem setGenerator_gen {invert : DMat n n R → Option (DMat n n R)} {ρ σ : Rep n R} {g : Gen}
    {A : DMat n n R} (h : ρ.setGenerator invert g A true = .ok σ) (hg : ρ.inv g ≠ g) :
    σ.gen g = .ok A ∧ ∀ x, x ≠ g → x ≠ ρ.inv g → σ.gen x = ρ.gen x := by
  unfold setGenerator at h
  split_ifs at h with hv h2
  swap
  · exact absurd rfl h2
  simp only at h
  cases hi : invert A with
  | none => rw [hi] at h; cases h
  | some Ai =>
    rw [hi] at h
    cases h
    constructor
    · rw [gen_ok_iff, dget_dset_ne _ _ (Ne.symm hg), dget_dset_self]
    · intro x h1 h2
      unfold gen
      simp only
      rw [dget_dset_ne _ _ h2, dget_dset_ne _ _ h1]

/-- A representation built by `for g in names: rep[g] = f(g)` from a well-formed start:
it is well formed and `rep.generators[g] = f(g)` — provided the names are distinct, none is
the inverse of another (or of itself), and the inverse map is an involution on them. -/
theorem fold_set {invert : DMat n n R → Option (DMat n n R)} (hinv : InvertOK invert)
    (f : Gen → M? (DMat n n R)) (step : Rep n R → Gen → M? (Rep n R))
    (hstep : ∀ τ g τ', step τ g = .ok τ' → ∃ v, f g = .ok v ∧ τ.setGenerator invert g v true = .ok τ')
    (names : List Gen) :
    ∀ (τ0 τ : Rep n R), τ0.WF → names.Nodup →
      (∀ g ∈ names, τ0.inv (τ0.inv g) = g) → (∀ g ∈ names, ∀ h ∈ names, τ0.inv g ≠ h) →
      names.foldlM step τ0 = .ok τ →
      τ.WF ∧ τ.inv = τ0.inv ∧ τ.parseSimple = τ0.parseSimple ∧
        (∀ g ∈ names, ∃ v, f g = .ok v ∧ τ.gen g = .ok v) ∧
        (∀ x, x ∉ names → (∀ g ∈ names, x ≠ τ0.inv g) → τ.gen x = τ0.gen x) := by
  induction names with
  | nil =>
    intro τ0 τ hwf _ _ _ hf
    simp only [List.foldlM_nil, pure, Except.pure, Except.ok.injEq] at hf
    subst hf
    exact ⟨hwf, rfl, rfl, by simp, by simp⟩
  | cons g names ih =>
    intro τ0 τ hwf hnd h2 h1 hf
    rw [List.foldlM_cons] at hf
    cases hs : step τ0 g with
    | error e => rw [hs] at hf; cases hf
    | ok τ1 =>
      rw [hs] at hf
      simp only [bind, Except.bind] at hf
      obtain ⟨v, hv, hset⟩ := hstep _ _ _ hs
      obtain ⟨hi1, hp1⟩ := setGenerator_inv_field hset
      have hgg : τ0.inv g ≠ g := h1 g (by simp) g (by simp)
      have hwf1 : τ1.WF := setGenerator_wf hinv hwf (h2 g (by simp)) hgg hset
      obtain ⟨hg1, hg2⟩ := setGenerator_gen hset hgg
      have hnd' := (List.nodup_cons.1 hnd)
      obtain ⟨w1, w2, w3, w4, w5⟩ := ih τ1 τ hwf1 hnd'.2
        (fun x hx => by rw [hi1]; exact h2 x (List.mem_cons_of_mem _ hx))
        (fun x hx y hy => by rw [hi1]; exact h1 x (List.mem_cons_of_mem _ hx) y (List.mem_cons_of_mem _ hy))
        hf
      refine ⟨w1, by rw [w2, hi1], by rw [w3, hp1], ?_, ?_⟩
      · intro x hx
        rcases List.mem_cons.1 hx with rfl | hx
        · refine ⟨v, hv, ?_⟩
          rw [w5 x hnd'.1 (fun y hy => ?_), hg1]
          rw [hi1]
          exact fun e => h1 y (List.mem_cons_of_mem _ hy) x (by simp) e.symm
        · exact w4 x hx
      · intro x hx hx'
        simp only [List.mem_cons, not_or] at hx
        rw [w5 x hx.2 (fun y hy => by rw [hi1]; exact hx' y (List.mem_cons_of_mem _ hy))]
        exact hg2 x hx.1 (hx' g (by simp))

/-- Word-level transfer: a coherent representation whose look-ups at the names agree with an
"expected value" relation `E` that is multiplicative along words sends every word over the
names and their inverses to its expected value. -/
theorem value_of_letters {τ : Rep n R} (hc : τ.Coherent) (names : List Gen)
    (E : Word → Matrix (Fin n) (Fin n) R → Prop)
    (hnil : ∀ X, E [] X → X = 1)
    (hcons : ∀ x w X, E (x :: w) X → ∃ G W, E [x] G ∧ E w W ∧ X = G * W)
    (hgen : ∀ g ∈ names, ∀ G, E [g] G → τ.genM g = .ok G)
    (hinvl : ∀ g ∈ names, ∀ Gi, E [τ.inv g] Gi → ∃ G, E [g] G ∧ G * Gi = 1)
    (w : Word) (hw : ∀ x ∈ w, x ∈ names ∨ ∃ g ∈ names, x = τ.inv g)
    (X : Matrix (Fin n) (Fin n) R) (hE : E w X) : τ.value w = .ok X := by
  induction w generalizing X with
  | nil => rw [hnil X hE, value_nil]
  | cons x w ih =>
    obtain ⟨G, W, hG, hW, rfl⟩ := hcons x w X hE
    refine value_append_ok τ (u := [x]) (v := w) ?_ (ih (fun y hy => hw y (List.mem_cons_of_mem _ hy)) W hW)
    rw [value_singleton]
    rcases hw x (by simp) with hx | ⟨g, hg, rfl⟩
    · exact hgen x hx G hG
    · obtain ⟨G', hG', hmul⟩ := hinvl g hg G hG
      have h1 := hgen g hg G' hG'
      obtain ⟨B, hB, b1, _⟩ := hc g G' h1
      rw [hB]
      congr 1
      rw [← Matrix.inv_eq_right_inv b1, Matrix.inv_eq_right_inv hmul]


/-! ### `tensor_product` -/

theorem asymGens_mem_keys (ρ : Rep n R) {g : Gen} (hg : g ∈ ρ.asymGens) : g ∈ ρ.gens.map Prod.fst := by
  unfold asymGens GT.RepW.asymGens at hg
  exact (List.mem_filter.1 hg).1

theorem genM_of_asym (ρ : Rep n R) {g : Gen} (hg : g ∈ ρ.asymGens) : ∃ A, ρ.genM g = .ok A := by
  obtain ⟨D, hD⟩ := dget_of_mem ρ.gens (asymGens_mem_keys ρ hg)
  exact ⟨D.toMatrix, (genM_ok_iff _ _ _).2 ⟨D, hD, rfl⟩⟩

theorem wordValueS_single {ρ : Rep n R} {g : Gen} (hp : parseWord ρ.parseSimple g = [g]) {a : DMat n n R}
    (h : ρ.wordValueS g = .ok a) : ρ.value [g] = .ok a.toMatrix := by
  have e : ρ.wordValueS g = ρ.wordValue (parseWord ρ.parseSimple g) := rfl
  rw [e, hp] at h
  show Except.map DMat.toMatrix (ρ.wordValue [g]) = _
  rw [h]
  rfl

/-- hypotheses on the generator names shared by the loop-built derived representations:
distinct names, inverse map an involution on them, no name is the inverse of a name -/
structure NamesOK (inv : Gen → Gen) (names : List Gen) : Prop where
  nodup : names.Nodup
  invol : ∀ g ∈ names, inv (inv g) = g
  sep : ∀ g ∈ names, ∀ h ∈ names, inv g ≠ h

/-- loop body of `tensor_product` -/
def tensorStep {p : ℕ} (invert : DMat (n * p) (n * p) R → Option (DMat (n * p) (n * p) R))
    (ρ : Rep n R) (σ : Rep p R) (τ : Rep (n * p) R) (g : Gen) : M? (Rep (n * p) R) := do
  let a ← ρ.wordValueS g
  let b ← σ.wordValueS g
  τ.setGenerator invert g (tensorMat a b) true

/-- the value assigned to `g` by `tensor_product` -/
def tensorVal {p : ℕ} (ρ : Rep n R) (σ : Rep p R) (g : Gen) : M? (DMat (n * p) (n * p) R) := do
  let a ← ρ.wordValueS g
  let b ← σ.wordValueS g
  pure (tensorMat a b)

theorem tensorProduct_fold {invert : DMat (n * p) (n * p) R → Option (DMat (n * p) (n * p) R)}
    {ρ : Rep n R} {σ : Rep p R} {τ : Rep (n * p) R} (hτ : ρ.tensorProduct invert σ = .ok τ) :
    ρ.asymGens.foldlM (tensorStep invert ρ σ)
      ({ gens := [], inv := invertGen, parseSimple := ρ.parseSimple, relations := [] } : Rep (n * p) R) = .ok τ := by
  unfold tensorProduct at hτ
  simp only at hτ
  split at hτ
  · cases hτ
  · exact hτ

theorem tensorVal_ok {ρ : Rep n R} {σ : Rep p R} {g : Gen} {v : DMat (n * p) (n * p) R}
    (hv : tensorVal ρ σ g = .ok v) :
    ∃ a b, ρ.wordValueS g = .ok a ∧ σ.wordValueS g = .ok b ∧ v = tensorMat a b := by
  unfold tensorVal at hv
  cases ha : ρ.wordValueS g with
  | error e => rw [ha] at hv; cases hv
  | ok a =>
    cases hb : σ.wordValueS g with
    | error e => rw [ha, hb] at hv; cases hv
    | ok b =>
      rw [ha, hb] at hv
      cases hv
      exact ⟨a, b, rfl, rfl, rfl⟩

theorem tensorStep_ok {invert : DMat (n * p) (n * p) R → Option (DMat (n * p) (n * p) R)}
    {ρ : Rep n R} {σ : Rep p R} {τ1 τ2 : Rep (n * p) R} {g : Gen}
    (hs : tensorStep invert ρ σ τ1 g = .ok τ2) :
    ∃ v, tensorVal ρ σ g = .ok v ∧ τ1.setGenerator invert g v true = .ok τ2 := by
  unfold tensorStep at hs
  unfold tensorVal
  cases ha : ρ.wordValueS g with
  | error e => rw [ha] at hs; cases hs
  | ok a =>
    cases hb : σ.wordValueS g with
    | error e => rw [ha, hb] at hs; cases hs
    | ok b =>
      rw [ha, hb] at hs
      exact ⟨tensorMat a b, rfl, hs⟩

/-- `rep.tensor_product(other)`: every word over the generators and their inverses is sent to
the Kronecker product of the two images -/
theorem tensor_value {invert : DMat (n * p) (n * p) R → Option (DMat (n * p) (n * p) R)}
    (hinv : InvertOK invert) {ρ : Rep n R} {σ : Rep p R} {τ : Rep (n * p) R}
    (hτ : ρ.tensorProduct invert σ = .ok τ) (hcρ : ρ.Coherent) (hcσ : σ.Coherent)
    (hn : NamesOK invertGen ρ.asymGens)
    (hpρ : ∀ g ∈ ρ.asymGens, parseWord ρ.parseSimple g = [g])
    (hpσ : ∀ g ∈ ρ.asymGens, parseWord σ.parseSimple g = [g])
    (hiρ : ∀ g ∈ ρ.asymGens, ρ.inv g = invertGen g) (hiσ : ∀ g ∈ ρ.asymGens, σ.inv g = invertGen g)
    (w : Word) (hw : ∀ x ∈ w, x ∈ ρ.asymGens ∨ ∃ g ∈ ρ.asymGens, x = invertGen g)
    {A : Matrix (Fin n) (Fin n) R} {B : Matrix (Fin p) (Fin p) R}
    (hA : ρ.value w = .ok A) (hB : σ.value w = .ok B) :
    τ.value w = .ok (kron A B) ∧ τ.WF := by
  have hfold := tensorProduct_fold hτ
  have hf := fun g v => tensorVal_ok (ρ := ρ) (σ := σ) (g := g) (v := v)
  generalize hτ0 : ({ gens := [], inv := invertGen, parseSimple := ρ.parseSimple, relations := [] } :
    Rep (n * p) R) = τ0 at hfold
  have e0 : τ0.inv = invertGen := by rw [← hτ0]
  have hwf0 : τ0.WF := by rw [← hτ0]; exact wf_empty invertGen ρ.parseSimple []
  obtain ⟨hwf, hi, _, hlook, _⟩ := fold_set hinv (tensorVal ρ σ) (tensorStep invert ρ σ)
    (fun τ1 g τ2 hs => tensorStep_ok hs)
    ρ.asymGens τ0 τ hwf0 hn.nodup (by rw [e0]; exact hn.invol) (by rw [e0]; exact hn.sep) hfold
  refine ⟨?_, hwf⟩
  have hτi : τ.inv = invertGen := by rw [hi, e0]
  refine value_of_letters hwf.coh ρ.asymGens
    (fun w X => ∃ A B, ρ.value w = .ok A ∧ σ.value w = .ok B ∧ X = kron A B) ?_ ?_ ?_ ?_ w
    (by rw [hτi]; exact hw) _ ⟨A, B, hA, hB, rfl⟩
  · rintro X ⟨A, B, hA, hB, rfl⟩
    rw [value_nil] at hA hB
    cases hA; cases hB
    exact kron_one
  · rintro x w X ⟨A, B, hA, hB, rfl⟩
    obtain ⟨G1, W1, g1, w1, rfl⟩ := value_append_inv ρ (u := [x]) (v := w) hA
    obtain ⟨G2, W2, g2, w2, rfl⟩ := value_append_inv σ (u := [x]) (v := w) hB
    exact ⟨kron G1 G2, kron W1 W2, ⟨G1, G2, g1, g2, rfl⟩, ⟨W1, W2, w1, w2, rfl⟩, kron_mul _ _ _ _⟩
  · rintro g hg G ⟨A, B, hA, hB, rfl⟩
    obtain ⟨v, hv, hgen⟩ := hlook g hg
    obtain ⟨a, b, ha, hb, rfl⟩ := hf g v hv
    have ea := wordValueS_single (hpρ g hg) ha
    have eb := wordValueS_single (hpσ g hg) hb
    rw [hA] at ea; rw [hB] at eb
    cases ea; cases eb
    rw [genM_ok_iff]
    exact ⟨_, (gen_ok_iff _ _ _).1 hgen, tensorMat_toMatrix a b⟩
  · rintro g hg Gi ⟨Ai, Bi, hAi, hBi, rfl⟩
    rw [hτi] at hAi hBi
    obtain ⟨v, hv, _⟩ := hlook g hg
    obtain ⟨a, b, ha, hb, rfl⟩ := hf g v hv
    have ea := wordValueS_single (hpρ g hg) ha
    have eb := wordValueS_single (hpσ g hg) hb
    refine ⟨kron a.toMatrix b.toMatrix, ⟨_, _, ea, eb, rfl⟩, ?_⟩
    obtain ⟨e1, a1, _⟩ := value_inv_letter hcρ ea
    obtain ⟨e2, b1, _⟩ := value_inv_letter hcσ eb
    rw [hiρ g hg, hAi] at e1
    rw [hiσ g hg, hBi] at e2
    cases e1; cases e2
    exact kron_inv a1 b1


/-! ### `subgroup` -/

/-- the word substituted for a letter of the sub-representation: `g ↦ word(g)`,
`invert_gen(g) ↦ formal_inverse(word(g))` -/
def substLetter (inv : Gen → Gen) (pairs : List (Gen × Word)) (x : Gen) : Word :=
  match dget pairs x with
  | some w => w
  | none =>
    match pairs.find? (fun gw => invertGen gw.1 = x) with
    | some gw => formalInverse inv gw.2
    | none => [x]

/-- substitution of words for the generators of a subgroup -/
def substWord (inv : Gen → Gen) (pairs : List (Gen × Word)) (u : Word) : Word :=
  u.flatMap (substLetter inv pairs)

/-- loop body of `subgroup(..., compute_inverse=True)` as a function of the name alone -/
def subStep (invert : DMat n n R → Option (DMat n n R)) (ρ : Rep n R) (pairs : List (Gen × Word))
    (σ : Rep n R) (g : Gen) : M? (Rep n R) := do
  let v ← ρ.wordValue ((dget pairs g).getD [])
  σ.setGenerator invert g v true

theorem dget_self_of_nodup {κ ν : Type} [DecidableEq κ] (pairs : List (κ × ν))
    (hnd : (pairs.map Prod.fst).Nodup) : ∀ gw ∈ pairs, dget pairs gw.1 = some gw.2 := by
  induction pairs with
  | nil => simp
  | cons p ps ih =>
    obtain ⟨g, w⟩ := p
    simp only [List.map_cons, List.nodup_cons] at hnd
    intro gw hgw
    rcases List.mem_cons.1 hgw with rfl | hgw
    · simp [dget]
    · have hne : g ≠ gw.1 := by
        intro e
        exact hnd.1 (e ▸ List.mem_map_of_mem (f := Prod.fst) hgw)
      simp only [dget, hne, if_false]
      exact ih hnd.2 gw hgw

theorem subgroup_fold {invert : DMat n n R → Option (DMat n n R)} {ρ σ : Rep n R}
    {pairs : List (Gen × Word)} {rels : List Word} (hnd : (pairs.map Prod.fst).Nodup)
    (hσ : ρ.subgroup invert pairs true rels = .ok σ) :
    (pairs.map Prod.fst).foldlM (subStep invert ρ pairs)
      ({ gens := [], inv := invertGen, parseSimple := true, relations := rels } : Rep n R) = .ok σ := by
  unfold subgroup at hσ
  rw [List.foldlM_map]
  rw [← hσ]
  -- the two loop bodies agree on the members of `pairs`
  have key : ∀ (l : List (Gen × Word)) (σ0 : Rep n R), (∀ gw ∈ l, dget pairs gw.1 = some gw.2) →
      l.foldlM (fun σ gw => subStep invert ρ pairs σ gw.1) σ0 =
      l.foldlM (fun (σ : Rep n R) gw => do
        let v ← ρ.wordValue gw.2
        let σ1 ← σ.setGenerator invert gw.1 v true
        if true = true then pure σ1 else do
          let vi ← ρ.wordValue (formalInverse ρ.inv gw.2)
          σ1.setGenerator invert (ρ.inv gw.1) vi true) σ0 := by
    intro l
    induction l with
    | nil => intro σ0 _; rfl
    | cons gw l ih =>
      intro σ0 hl
      rw [List.foldlM_cons, List.foldlM_cons]
      have e : subStep invert ρ pairs σ0 gw.1 = (do
          let v ← ρ.wordValue gw.2
          let σ1 ← σ0.setGenerator invert gw.1 v true
          if true = true then pure σ1 else do
            let vi ← ρ.wordValue (formalInverse ρ.inv gw.2)
            σ1.setGenerator invert (ρ.inv gw.1) vi true) := by
        unfold subStep
        rw [hl gw (by simp)]
        simp only [Option.getD_some, if_true]
        cases ρ.wordValue gw.2 with
        | error e => rfl
        | ok v =>
          simp only [bind, Except.bind]
          cases σ0.setGenerator invert gw.1 v true <;> rfl
      rw [e]
      cases (do
          let v ← ρ.wordValue gw.2
          let σ1 ← σ0.setGenerator invert gw.1 v true
          if true = true then pure σ1 else do
            let vi ← ρ.wordValue (formalInverse ρ.inv gw.2)
            σ1.setGenerator invert (ρ.inv gw.1) vi true : M? (Rep n R)) with
      | error e => rfl
      | ok σ1 => exact ih σ1 (fun x hx => hl x (List.mem_cons_of_mem _ hx))
  exact key pairs _ (dget_self_of_nodup pairs hnd)


theorem mem_of_dget {κ ν : Type} [DecidableEq κ] (pairs : List (κ × ν)) {g : κ} {w : ν}
    (h : dget pairs g = some w) : (g, w) ∈ pairs := by
  induction pairs with
  | nil => simp [dget] at h
  | cons p ps ih =>
    obtain ⟨g', w'⟩ := p
    by_cases e : g' = g
    · subst e
      simp only [dget, if_true, Option.some.injEq] at h
      subst h
      simp
    · simp only [dget, e, if_false] at h
      exact List.mem_cons_of_mem _ (ih h)

theorem wordValue_value {ρ : Rep n R} {w : Word} {v : DMat n n R} (h : ρ.wordValue w = .ok v) :
    ρ.value w = .ok v.toMatrix := by
  show Except.map DMat.toMatrix (ρ.wordValue w) = _
  rw [h]; rfl

theorem substWord_cons (inv : Gen → Gen) (pairs : List (Gen × Word)) (x : Gen) (u : Word) :
    substWord inv pairs (x :: u) = substWord inv pairs [x] ++ substWord inv pairs u := by
  simp [substWord]

theorem substWord_single (inv : Gen → Gen) (pairs : List (Gen × Word)) (x : Gen) :
    substWord inv pairs [x] = substLetter inv pairs x := by
  simp [substWord]

/-- `rep.subgroup({g: word, …})` (default `compute_inverse=True`): a word in the new generators
is sent to the image of the substituted word -/
theorem subgroup_value {invert : DMat n n R → Option (DMat n n R)} (hinv : InvertOK invert)
    {ρ σ : Rep n R} {pairs : List (Gen × Word)} {rels : List Word}
    (hσ : ρ.subgroup invert pairs true rels = .ok σ) (hc : ρ.Coherent)
    (hn : NamesOK invertGen (pairs.map Prod.fst))
    (u : Word) (hu : ∀ x ∈ u, x ∈ pairs.map Prod.fst ∨ ∃ g ∈ pairs.map Prod.fst, x = invertGen g)
    {A : Matrix (Fin n) (Fin n) R} (hA : ρ.value (substWord ρ.inv pairs u) = .ok A) :
    σ.value u = .ok A ∧ σ.WF := by
  have hfold := subgroup_fold hn.nodup hσ
  generalize hτ0 : ({ gens := [], inv := invertGen, parseSimple := true, relations := rels } : Rep n R) = τ0 at hfold
  have e0 : τ0.inv = invertGen := by rw [← hτ0]
  have hwf0 : τ0.WF := by rw [← hτ0]; exact wf_empty invertGen true rels
  obtain ⟨hwf, hi, _, hlook, _⟩ := fold_set hinv (fun g => ρ.wordValue ((dget pairs g).getD []))
    (subStep invert ρ pairs)
    (by
      intro τ1 g τ2 hs
      unfold subStep at hs
      cases hv : ρ.wordValue ((dget pairs g).getD []) with
      | error e => rw [hv] at hs; cases hs
      | ok v => rw [hv] at hs; exact ⟨v, rfl, hs⟩)
    (pairs.map Prod.fst) τ0 σ hwf0 hn.nodup (by rw [e0]; exact hn.invol) (by rw [e0]; exact hn.sep) hfold
  refine ⟨?_, hwf⟩
  have hσi : σ.inv = invertGen := by rw [hi, e0]
  have hself := dget_self_of_nodup pairs hn.nodup
  refine value_of_letters hwf.coh (pairs.map Prod.fst)
    (fun u X => ρ.value (substWord ρ.inv pairs u) = .ok X) ?_ ?_ ?_ ?_ u (by rw [hσi]; exact hu) _ hA
  · intro X hX
    have : substWord ρ.inv pairs [] = [] := rfl
    rw [this, value_nil] at hX
    cases hX; rfl
  · intro x w X hX
    rw [substWord_cons] at hX
    obtain ⟨G, W, hG, hW, rfl⟩ := value_append_inv ρ hX
    exact ⟨G, W, hG, hW, rfl⟩
  · intro g hg G hG
    obtain ⟨v, hv, hgen⟩ := hlook g hg
    obtain ⟨w, hw⟩ := dget_of_mem pairs hg
    rw [substWord_single] at hG
    have e1 : substLetter ρ.inv pairs g = w := by simp [substLetter, hw]
    simp only [hw, Option.getD_some] at hv
    rw [e1, wordValue_value hv] at hG
    cases hG
    rw [genM_ok_iff]
    exact ⟨v, (gen_ok_iff _ _ _).1 hgen, rfl⟩
  · intro g hg Gi hGi
    rw [hσi, substWord_single] at hGi
    obtain ⟨v, hv, _⟩ := hlook g hg
    obtain ⟨w, hw⟩ := dget_of_mem pairs hg
    simp only [hw, Option.getD_some] at hv
    have hnone : dget pairs (invertGen g) = none := by
      rw [dget_eq_none_iff]
      intro hmem
      exact hn.sep g hg _ hmem rfl
    -- the pair found by `find?` is `(g, w)`
    have hfind : ∃ gw, pairs.find? (fun gw => invertGen gw.1 = invertGen g) = some gw ∧ gw.2 = w := by
      have hmem : (g, w) ∈ pairs := mem_of_dget pairs hw
      cases hf : pairs.find? (fun gw => invertGen gw.1 = invertGen g) with
      | none =>
        have := List.find?_eq_none.1 hf (g, w) hmem
        simp at this
      | some gw =>
        refine ⟨gw, rfl, ?_⟩
        have hm := List.mem_of_find?_eq_some hf
        have hp := List.find?_some hf
        simp only [decide_eq_true_eq] at hp
        have hgw : gw.1 = g := by
          have h1 := hn.invol gw.1 (List.mem_map_of_mem (f := Prod.fst) hm)
          rw [hp, hn.invol g hg] at h1
          exact h1.symm
        have := hself gw hm
        rw [hgw, hw] at this
        cases this; rfl
    obtain ⟨gw, hf, hgw⟩ := hfind
    have e1 : substLetter ρ.inv pairs (invertGen g) = formalInverse ρ.inv w := by
      simp [substLetter, hnone, hf, hgw]
    rw [e1] at hGi
    have hG := wordValue_value hv
    have := value_formalInverse hc hG
    rw [hGi] at this
    cases this
    refine ⟨v.toMatrix, ?_, (value_isUnit hc hG).1⟩
    rw [substWord_single]
    have e2 : substLetter ρ.inv pairs g = w := by simp [substLetter, hw]
    rw [e2]; exact hG

end Rep
end GT.RepW
