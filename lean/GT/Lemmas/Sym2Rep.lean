/-
`Representation.symmetric_square()` at the level of words (uses the matrix-level facts
`symH_one`, `symH_mul` of `GT.Lemmas.Sym2`).
-/
import GT.Lemmas.Sym2
import GT.Lemmas.RepDerived

namespace GT.RepW
namespace Rep
open Matrix
variable {n : ℕ} {R : Type} [Inhabited R] [CommRing R]

theorem tensorProduct_parseSimple {p : ℕ}
    {invert : DMat (n * p) (n * p) R → Option (DMat (n * p) (n * p) R)}
    {ρ : Rep n R} {σ : Rep p R} {τ : Rep (n * p) R} (hτ : ρ.tensorProduct invert σ = .ok τ) :
    τ.parseSimple = ρ.parseSimple := by
  have hfold := tensorProduct_fold hτ
  generalize hτ0 : ({ gens := [], inv := invertGen, parseSimple := ρ.parseSimple, relations := [] } :
    Rep (n * p) R) = τ0 at hfold
  have e0 : τ0.parseSimple = ρ.parseSimple := by rw [← hτ0]
  rw [← e0]
  clear hτ0 e0 hτ
  generalize ρ.asymGens = l at hfold
  induction l generalizing τ0 with
  | nil =>
    simp only [List.foldlM_nil, pure, Except.pure, Except.ok.injEq] at hfold
    rw [hfold]
  | cons g l ih =>
    rw [List.foldlM_cons] at hfold
    cases hs : tensorStep invert ρ σ τ0 g with
    | error e => rw [hs] at hfold; cases hfold
    | ok τ1 =>
      rw [hs] at hfold
      simp only [bind, Except.bind] at hfold
      obtain ⟨v, _, hset⟩ := tensorStep_ok hs
      rw [ih τ1 hfold, (setGenerator_inv_field hset).2]

/-- loop body of `symmetric_square` -/
def symStep (half : R) (invertS : DMat (symDim n) (symDim n) R → Option (DMat (symDim n) (symDim n) R))
    (τ : Rep (n * n) R) (σ : Rep (symDim n) R) (g : Gen) : M? (Rep (symDim n) R) := do
  let t ← τ.wordValueS g
  σ.setGenerator invertS g (((symProjection n).mul t).mul (symInclusion half n)) true

/-- value assigned to `g` by `symmetric_square` -/
def symVal (half : R) (τ : Rep (n * n) R) (g : Gen) : M? (DMat (symDim n) (symDim n) R) := do
  let t ← τ.wordValueS g
  pure (((symProjection n).mul t).mul (symInclusion half n))

theorem symmetricSquare_fold {half : R}
    {invertT : DMat (n * n) (n * n) R → Option (DMat (n * n) (n * n) R)}
    {invertS : DMat (symDim n) (symDim n) R → Option (DMat (symDim n) (symDim n) R)}
    {ρ : Rep n R} {σ : Rep (symDim n) R} (hσ : ρ.symmetricSquare half invertT invertS = .ok σ) :
    ∃ τ, ρ.tensorProduct invertT ρ = .ok τ ∧
      ρ.asymGens.foldlM (symStep half invertS τ)
        ({ gens := [], inv := invertGen, parseSimple := ρ.parseSimple, relations := [] } : Rep (symDim n) R) = .ok σ := by
  unfold symmetricSquare at hσ
  cases hτ : ρ.tensorProduct invertT ρ with
  | error e => rw [hτ] at hσ; cases hσ
  | ok τ =>
    rw [hτ] at hσ
    exact ⟨τ, rfl, hσ⟩

/-- `rep.symmetric_square()`: every word over the generators and their inverses is sent to
`P · (ρ(w) ⊗ ρ(w)) · I` -/
theorem sym2_value {half : R} (hh : 2 * half = 1)
    {invertT : DMat (n * n) (n * n) R → Option (DMat (n * n) (n * n) R)}
    {invertS : DMat (symDim n) (symDim n) R → Option (DMat (symDim n) (symDim n) R)}
    (hiT : InvertOK invertT) (hiS : InvertOK invertS)
    {ρ : Rep n R} {σ : Rep (symDim n) R} (hσ : ρ.symmetricSquare half invertT invertS = .ok σ)
    (hc : ρ.Coherent) (hn : NamesOK invertGen ρ.asymGens)
    (hp : ∀ g ∈ ρ.asymGens, parseWord ρ.parseSimple g = [g])
    (hi : ∀ g ∈ ρ.asymGens, ρ.inv g = invertGen g)
    (w : Word) (hw : ∀ x ∈ w, x ∈ ρ.asymGens ∨ ∃ g ∈ ρ.asymGens, x = invertGen g)
    {A : Matrix (Fin n) (Fin n) R} (hA : ρ.value w = .ok A) :
    σ.value w = .ok (symH half A) ∧ σ.WF := by
  obtain ⟨τ, hτ, hfold⟩ := symmetricSquare_fold hσ
  have hτp := tensorProduct_parseSimple hτ
  generalize hσ0 : ({ gens := [], inv := invertGen, parseSimple := ρ.parseSimple, relations := [] } :
    Rep (symDim n) R) = σ0 at hfold
  have e0 : σ0.inv = invertGen := by rw [← hσ0]
  have hwf0 : σ0.WF := by rw [← hσ0]; exact wf_empty invertGen ρ.parseSimple []
  obtain ⟨hwf, hi', _, hlook, _⟩ := fold_set hiS (symVal half τ) (symStep half invertS τ)
    (by
      intro σ1 g σ2 hs
      unfold symStep at hs
      unfold symVal
      cases ht : τ.wordValueS g with
      | error e => rw [ht] at hs; cases hs
      | ok t => rw [ht] at hs; exact ⟨_, rfl, hs⟩)
    ρ.asymGens σ0 σ hwf0 hn.nodup (by rw [e0]; exact hn.invol) (by rw [e0]; exact hn.sep) hfold
  refine ⟨?_, hwf⟩
  have hσi : σ.inv = invertGen := by rw [hi', e0]
  -- the value stored for a generator
  have hstored : ∀ g ∈ ρ.asymGens, ∀ G, ρ.value [g] = .ok G → σ.genM g = .ok (symH half G) := by
    intro g hg G hG
    obtain ⟨v, hv, hgen⟩ := hlook g hg
    unfold symVal at hv
    cases ht : τ.wordValueS g with
    | error e => rw [ht] at hv; cases hv
    | ok t =>
      rw [ht] at hv
      cases hv
      have h1 : τ.value [g] = .ok t.toMatrix :=
        wordValueS_single (by rw [hτp]; exact hp g hg) ht
      have h2 := (tensor_value hiT hτ hc hc hn hp hp hi hi [g] (by
        intro x hx; simp only [List.mem_singleton] at hx; subst hx; exact Or.inl hg) hG hG).1
      rw [h1] at h2
      have h3 : t.toMatrix = kron G G := by injection h2
      rw [genM_ok_iff]
      refine ⟨_, (gen_ok_iff _ _ _).1 hgen, ?_⟩
      simp only [DMat.toMatrix_mul, symH, h3]
  refine value_of_letters hwf.coh ρ.asymGens
    (fun w X => ∃ A, ρ.value w = .ok A ∧ X = symH half A) ?_ ?_ ?_ ?_ w
    (by rw [hσi]; exact hw) _ ⟨A, hA, rfl⟩
  · rintro X ⟨A, hA, rfl⟩
    rw [value_nil] at hA; cases hA
    exact symH_one hh
  · rintro x w X ⟨A, hA, rfl⟩
    obtain ⟨G, W, hG, hW, rfl⟩ := value_append_inv ρ (u := [x]) (v := w) hA
    exact ⟨symH half G, symH half W, ⟨G, hG, rfl⟩, ⟨W, hW, rfl⟩, symH_mul hh G W⟩
  · rintro g hg G ⟨A, hA, rfl⟩
    exact hstored g hg A hA
  · rintro g hg Gi ⟨Ai, hAi, rfl⟩
    rw [hσi] at hAi
    obtain ⟨G0, hG0⟩ := genM_of_asym ρ hg
    rw [← value_singleton] at hG0
    obtain ⟨e1, g1, _⟩ := value_inv_letter hc hG0
    rw [hi g hg, hAi] at e1
    cases e1
    exact ⟨symH half G0, ⟨G0, hG0, rfl⟩, by rw [← symH_mul hh, g1, symH_one hh]⟩

end Rep
end GT.RepW
