/-
Coherence lemmas for the FSA model, part 2: `delete_vertex`, `delete_vertices`.
-/
import GT.Lemmas.FSACoh

set_option linter.unusedSectionVars false
set_option linter.unusedSimpArgs false

namespace GT.FSA
variable {V L : Type} [DecidableEq V] [DecidableEq L]
open Dict

theorem popIn_spec (x : V) (ws : List V) (inn : Dict V (Dict V (List L))) (hnd : ws.Nodup)
    (hx : ∀ w ∈ ws, ∃ irow, inn.get? w = some irow ∧ x ∈ irow.keys) :
    ∃ inn', popIn x ws inn = .ok inn' ∧ inn'.keys = inn.keys ∧
      ∀ a, inn'.get? a = if a ∈ ws then (inn.get? a).map (·.erase x) else inn.get? a := by
  induction ws generalizing inn with
  | nil => exact ⟨inn, rfl, rfl, by simp⟩
  | cons w ws ih =>
    simp only [List.nodup_cons] at hnd
    obtain ⟨irow, hirow, hxi⟩ := hx w (by simp)
    have hpop : (inn.getOr w []).pop x = .ok (irow.erase x) := by
      rw [pop_eq_ok]; simp [Dict.getOr, hirow, hxi]
    have hx' : ∀ w' ∈ ws, ∃ irow', (inn.set w (irow.erase x)).get? w' = some irow' ∧ x ∈ irow'.keys := by
      intro w' hw'
      have hne : w' ≠ w := by rintro rfl; exact hnd.1 hw'
      obtain ⟨r, hr, hxr⟩ := hx w' (by simp [hw'])
      exact ⟨r, by simp [get?_set, hne, hr], hxr⟩
    obtain ⟨inn', e, hk, hg⟩ := ih (inn.set w (irow.erase x)) hnd.2 hx'
    refine ⟨inn', ?_, ?_, ?_⟩
    · simp only [popIn, hpop, bind, Except.bind]; exact e
    · rw [hk, keys_set]; simp [(mem_keys_iff inn w).2 ⟨irow, hirow⟩]
    · intro a; rw [hg a]; simp only [get?_set, List.mem_cons]
      by_cases h1 : a = w
      · subst h1; simp [hnd.1, hirow]
      · simp [h1]

theorem popOut_spec (x : V) (ws : List V) (out : Dict V (Dict V (List L))) (graph : Dict V (Dict L V))
    (hnd : ws.Nodup)
    (hx : ∀ w ∈ ws, (∃ row, out.get? w = some row ∧ x ∈ row.keys) ∧ ∃ g, graph.get? w = some g) :
    ∃ out' graph', popOut x ws (out, graph) = .ok (out', graph') ∧ out'.keys = out.keys ∧
      graph'.keys = graph.keys ∧
      (∀ a, out'.get? a = if a ∈ ws then (out.get? a).map (·.erase x) else out.get? a) ∧
      (∀ a, graph'.get? a = if a ∈ ws then
          (graph.get? a).map (fun g => g.filter fun e => !decide (e.2 = x)) else graph.get? a) := by
  induction ws generalizing out graph with
  | nil => exact ⟨out, graph, rfl, rfl, rfl, by simp, by simp⟩
  | cons w ws ih =>
    simp only [List.nodup_cons] at hnd
    obtain ⟨⟨row, hrow, hxr⟩, ⟨g, hg⟩⟩ := hx w (by simp)
    have hpop : row.pop x = .ok (row.erase x) := by rw [pop_eq_ok]; exact ⟨hxr, rfl⟩
    have hx' : ∀ w' ∈ ws, (∃ row', (out.set w (row.erase x)).get? w' = some row' ∧ x ∈ row'.keys) ∧
        ∃ g', (graph.set w (g.filter fun e => !decide (e.2 = x))).get? w' = some g' := by
      intro w' hw'
      have hne : w' ≠ w := by rintro rfl; exact hnd.1 hw'
      obtain ⟨⟨r, hr, hxr'⟩, ⟨g', hg'⟩⟩ := hx w' (by simp [hw'])
      exact ⟨⟨r, by simp [get?_set, hne, hr], hxr'⟩, ⟨g', by simp [get?_set, hne, hg']⟩⟩
    obtain ⟨out', graph', e, hk1, hk2, ho, hgr⟩ := ih _ _ hnd.2 hx'
    refine ⟨out', graph', ?_, ?_, ?_, ?_, ?_⟩
    · simp only [popOut, Dict.get, hrow, hpop, hg, bind, Except.bind]; exact e
    · rw [hk1, keys_set]; simp [(mem_keys_iff out w).2 ⟨row, hrow⟩]
    · rw [hk2, keys_set]; simp [(mem_keys_iff graph w).2 ⟨g, hg⟩]
    · intro a; rw [ho a]; simp only [get?_set, List.mem_cons]
      by_cases h1 : a = w
      · subst h1; simp [hnd.1, hrow]
      · simp [h1]
    · intro a; rw [hgr a]; simp only [get?_set, List.mem_cons]
      by_cases h1 : a = w
      · subst h1; simp [hnd.1, hg]
      · simp [h1]

/-- `s'` is `s` with the vertex `x` and every entry mentioning it removed from the three views -/
structure Deletes (s s' : FSA V L) (x : V) : Prop where
  out : ∀ a, s'.out.get? a = if a = x then none else (s.out.get? a).map (·.erase x)
  inn : ∀ a, s'.inn.get? a = if a = x then none else (s.inn.get? a).map (·.erase x)
  graph : ∀ a, s'.graph.get? a = if a = x then none else
    (s.graph.get? a).map (fun g => g.filter fun e => !decide (e.2 = x))
  nodup : KeysNodup s'
  starts : s'.starts = s.starts

theorem og_some_iff (s : FSA V L) (a b : V) :
    (∃ ls, s.og a b = some ls) ↔ ∃ row, s.out.get? a = some row ∧ b ∈ row.keys := by
  rw [og_def]
  cases s.out.get? a with
  | none => simp
  | some row => simp [mem_keys_iff]

theorem ig_some_iff (s : FSA V L) (b a : V) :
    (∃ ls, s.ig b a = some ls) ↔ ∃ row, s.inn.get? b = some row ∧ a ∈ row.keys := by
  rw [ig_def]
  cases s.inn.get? b with
  | none => simp
  | some row => simp [mem_keys_iff]

theorem deleteVertex_spec {s : FSA V L} (hs : s.Coherent) {x : V} (hx : x ∈ s.out.keys) :
    ∃ s', s.deleteVertex x = .ok s' ∧ Deletes s s' x := by
  obtain ⟨row, hrow⟩ := (mem_keys_iff _ _).1 hx
  obtain ⟨grow, hgrow⟩ := (mem_keys_iff _ _).1 ((hs.verts x).2 hx)
  -- first loop
  have h1 : ∀ w ∈ row.keys, ∃ irow, s.inn.get? w = some irow ∧ x ∈ irow.keys := by
    intro w hw
    have : ∃ ls, s.og x w = some ls := (og_some_iff s x w).2 ⟨row, hrow, hw⟩
    rw [hs.io] at this
    exact (ig_some_iff s w x).1 this
  obtain ⟨inn1, e1, k1, g1⟩ := popIn_spec x row.keys s.inn (hs.keys.outRow x row hrow) h1
  -- the incoming view after the first loop, uniformly
  have g1' : ∀ a, inn1.get? a = (s.inn.get? a).map (·.erase x) := by
    intro a; rw [g1 a]; split
    · rfl
    · rename_i hna
      cases hi : s.inn.get? a with
      | none => rfl
      | some irow =>
        have : x ∉ irow.keys := by
          intro hm
          have : ∃ ls, s.ig a x = some ls := (ig_some_iff s a x).2 ⟨irow, hi, hm⟩
          rw [← hs.io] at this
          obtain ⟨r, hr, hm'⟩ := (og_some_iff s x a).1 this
          rw [hrow] at hr; cases hr; exact hna hm'
        simp [erase_of_not_mem this]
  -- second loop
  have hws : ∀ w ∈ (inn1.getOr x []).keys,
      (∃ r, s.out.get? w = some r ∧ x ∈ r.keys) ∧ ∃ g, s.graph.get? w = some g := by
    intro w hw
    simp only [Dict.getOr, g1'] at hw
    cases hi : s.inn.get? x with
    | none => simp [hi] at hw
    | some irow =>
      simp only [hi, Option.map_some, Option.getD_some, mem_keys_erase] at hw
      have : ∃ ls, s.ig x w = some ls := (ig_some_iff s x w).2 ⟨irow, hi, hw.2⟩
      rw [← hs.io] at this
      obtain ⟨r, hr, hm⟩ := (og_some_iff s w x).1 this
      refine ⟨⟨r, hr, hm⟩, ?_⟩
      exact (mem_keys_iff _ _).1 ((hs.verts w).2 ((mem_keys_iff _ _).2 ⟨r, hr⟩))
  have hnd2 : (inn1.getOr x []).keys.Nodup := by
    simp only [Dict.getOr, g1']
    cases hi : s.inn.get? x with
    | none => simp
    | some irow => simpa using nodup_keys_erase (hs.keys.innRow x irow hi) x
  obtain ⟨out2, graph2, e2, ko, kg, go, gg⟩ := popOut_spec x _ s.out s.graph hnd2 hws
  have hxo : x ∈ out2.keys := by rw [ko]; exact hx
  have hxg : x ∈ graph2.keys := by rw [kg]; exact (hs.verts x).2 hx
  refine ⟨{ s with out := out2.erase x, inn := inn1.erase x, graph := graph2.erase x }, ?_, ?_⟩
  · simp only [deleteVertex, Dict.get, hrow, e1, e2, bind, Except.bind,
      (pop_eq_ok out2 _ x).2 ⟨hxo, rfl⟩, (pop_eq_ok graph2 _ x).2 ⟨hxg, rfl⟩, pure, Except.pure]
  · -- membership in the key list of the second loop
    have hmem : ∀ a, a ≠ x → (a ∈ (inn1.getOr x []).keys ↔ ∃ ls, s.og a x = some ls) := by
      intro a hax
      rw [hs.io, ig_some_iff]
      simp only [Dict.getOr, g1']
      cases hi : s.inn.get? x with
      | none => simp
      | some irow => simp [mem_keys_erase, hax]
    constructor
    · intro a
      simp only [get?_erase]
      by_cases hax : a = x
      · simp [hax]
      · simp only [hax, if_false]
        rw [go a]; split
        · rfl
        · rename_i hna
          cases ho : s.out.get? a with
          | none => rfl
          | some r =>
            have : x ∉ r.keys := by
              intro hm
              exact hna ((hmem a hax).2 ((og_some_iff s a x).2 ⟨r, ho, hm⟩))
            simp [erase_of_not_mem this]
    · intro a
      simp only [get?_erase]
      by_cases hax : a = x
      · simp [hax]
      · simp [hax, g1']
    · intro a
      simp only [get?_erase]
      by_cases hax : a = x
      · simp [hax]
      · simp only [hax, if_false]
        rw [gg a]; split
        · rfl
        · rename_i hna
          cases hg : s.graph.get? a with
          | none => rfl
          | some g =>
            simp only [Option.map_some, Option.some.injEq]
            symm
            rw [List.filter_eq_self]
            intro e he
            simp only [Bool.not_eq_eq_eq_not, Bool.not_true, decide_eq_false_iff_not]
            intro hex
            apply hna
            rw [hmem a hax]
            have hst : s.step a e.1 = some x := by
              rw [step_def, hg]
              simp only [Option.bind_some]
              rw [← hex]
              exact get?_of_mem (hs.keys.graphRow a g hg) (by cases e; exact he)
            obtain ⟨ls, hls, -⟩ := (hs.label a e.1 x).1 hst
            exact ⟨ls, hls⟩
    · constructor
      · show (graph2.erase x).keys.Nodup
        apply nodup_keys_erase; rw [kg]; exact hs.keys.graph
      · show (out2.erase x).keys.Nodup
        apply nodup_keys_erase; rw [ko]; exact hs.keys.out
      · show (inn1.erase x).keys.Nodup
        apply nodup_keys_erase; rw [k1]; exact hs.keys.inn
      · intro a r
        show (graph2.erase x).get? a = some r → _
        rw [get?_erase, gg a]
        split
        · simp
        · split
          · cases hg : s.graph.get? a with
            | none => simp
            | some g => simp only [Option.map_some, Option.some.injEq]; rintro rfl
                        exact nodup_keys_filter (hs.keys.graphRow a g hg) _
          · exact hs.keys.graphRow a r
      · intro a r
        show (out2.erase x).get? a = some r → _
        rw [get?_erase, go a]
        split
        · simp
        · split
          · cases ho : s.out.get? a with
            | none => simp
            | some g => simp only [Option.map_some, Option.some.injEq]; rintro rfl
                        exact nodup_keys_erase (hs.keys.outRow a g ho) _
          · exact hs.keys.outRow a r
      · intro a r
        show (inn1.erase x).get? a = some r → _
        rw [get?_erase, g1' a]
        split
        · simp
        · cases hi : s.inn.get? a with
          | none => simp
          | some g => simp only [Option.map_some, Option.some.injEq]; rintro rfl
                      exact nodup_keys_erase (hs.keys.innRow a g hi) _
    · rfl


/-! ### consequences of the closed form -/

theorem Deletes.og {s s' : FSA V L} {x : V} (H : Deletes s s' x) (a b : V) :
    s'.og a b = if a = x ∨ b = x then none else s.og a b := by
  rw [og_def, og_def, H.out a]
  by_cases ha : a = x
  · simp [ha]
  · simp only [ha, if_false, false_or]
    cases s.out.get? a with
    | none => simp
    | some r => simp only [Option.map_some, Option.bind_some, get?_erase]

theorem Deletes.ig {s s' : FSA V L} {x : V} (H : Deletes s s' x) (b a : V) :
    s'.ig b a = if a = x ∨ b = x then none else s.ig b a := by
  rw [ig_def, ig_def, H.inn b]
  by_cases hb : b = x
  · simp [hb]
  · simp only [hb, if_false, or_false]
    cases s.inn.get? b with
    | none => simp
    | some r => simp only [Option.map_some, Option.bind_some, get?_erase]

theorem Deletes.step {s s' : FSA V L} {x : V} (hs : s.Coherent) (H : Deletes s s' x) (a : V) (l : L) (w : V) :
    s'.step a l = some w ↔ a ≠ x ∧ w ≠ x ∧ s.step a l = some w := by
  rw [step_def, step_def, H.graph a]
  by_cases ha : a = x
  · simp [ha]
  · simp only [ha, if_false, ne_eq, not_false_eq_true, true_and]
    cases hg : s.graph.get? a with
    | none => simp
    | some g =>
      simp only [Option.map_some, Option.bind_some]
      rw [get?_filter (hs.keys.graphRow a g hg)]
      cases g.get? l with
      | none => simp
      | some t => simp [Option.filter]; grind

theorem Deletes.mem_out {s s' : FSA V L} {x : V} (H : Deletes s s' x) (a : V) :
    a ∈ s'.out.keys ↔ a ≠ x ∧ a ∈ s.out.keys := by
  rw [mem_keys_iff, mem_keys_iff, H.out a]
  by_cases ha : a = x
  · simp [ha]
  · simp only [ha, if_false, ne_eq, not_false_eq_true, true_and]
    cases s.out.get? a <;> simp

theorem Deletes.mem_inn {s s' : FSA V L} {x : V} (H : Deletes s s' x) (a : V) :
    a ∈ s'.inn.keys ↔ a ≠ x ∧ a ∈ s.inn.keys := by
  rw [mem_keys_iff, mem_keys_iff, H.inn a]
  by_cases ha : a = x
  · simp [ha]
  · simp only [ha, if_false, ne_eq, not_false_eq_true, true_and]
    cases s.inn.get? a <;> simp

theorem Deletes.mem_graph {s s' : FSA V L} {x : V} (H : Deletes s s' x) (a : V) :
    a ∈ s'.graph.keys ↔ a ≠ x ∧ a ∈ s.graph.keys := by
  rw [mem_keys_iff, mem_keys_iff, H.graph a]
  by_cases ha : a = x
  · simp [ha]
  · simp only [ha, if_false, ne_eq, not_false_eq_true, true_and]
    cases s.graph.get? a <;> simp

theorem coherent_of_deletes {s s' : FSA V L} {x : V} (hs : s.Coherent) (H : Deletes s s' x) :
    s'.Coherent := by
  constructor
  · exact H.nodup
  · intro a; rw [H.mem_graph, H.mem_out, hs.verts]
  · intro a; rw [H.mem_inn, H.mem_out, hs.innVerts a]
  · intro a b; rw [H.og, H.ig]; split
    · rfl
    · exact hs.io a b
  · intro a l b
    rw [H.step hs, H.og, hs.label]
    by_cases h : a = x ∨ b = x
    · simp only [h, if_true]; rcases h with h | h <;> simp [h]
    · simp only [h, if_false]; have h := not_or.1 h; simp [h.1, h.2]
  · intro a b ls; rw [H.og]; split
    · simp
    · exact hs.nodup a b ls
  · intro a b ls; rw [H.og, H.mem_out]; split
    · simp
    · rename_i h; have h := not_or.1 h; exact fun h' => ⟨h.2, hs.closed a b ls h'⟩

theorem noEmpty_of_deletes {s s' : FSA V L} {x : V} (hn : s.NoEmpty) (H : Deletes s s' x) :
    s'.NoEmpty := by
  intro a b ls; rw [H.og]; split
  · simp
  · exact hn a b ls

theorem abs_of_deletes {s s' : FSA V L} {x : V} (hs : s.Coherent) (H : Deletes s s' x) :
    s'.abs = s.abs.deleteVertex x := by
  apply SetFSA.ext'
  · intro a; simp only [abs, SetFSA.deleteVertex, H.mem_out]; exact and_comm
  · intro a l b; simp only [abs, SetFSA.deleteVertex, H.step hs]; grind

/-- `delete_vertex(x)` on a vertex of a well-formed automaton -/
theorem deleteVertex_wf {s : FSA V L} (hs : s.WF) {x : V} (hx : x ∈ s.out.keys) :
    ∃ s', s.deleteVertex x = .ok s' ∧ s'.WF ∧ s'.starts = s.starts ∧ s'.abs = s.abs.deleteVertex x ∧
      Deletes s s' x := by
  obtain ⟨s', e, H⟩ := deleteVertex_spec hs.1 hx
  exact ⟨s', e, ⟨coherent_of_deletes hs.1 H, noEmpty_of_deletes hs.2 H⟩, H.starts, abs_of_deletes hs.1 H, H⟩

/-- `delete_vertices(xs)` -/
theorem deleteVertices_spec {s : FSA V L} (hs : s.WF) (xs : List V) (hok : SetFSA.DeletesOK s.abs xs) :
    ∃ s', s.deleteVertices xs = .ok s' ∧ s'.WF ∧ s'.starts = s.starts ∧ s'.abs = s.abs.deleteVertices xs := by
  induction xs generalizing s with
  | nil => exact ⟨s, rfl, hs, rfl, rfl⟩
  | cons x xs ih =>
    obtain ⟨hx, hrest⟩ := hok
    obtain ⟨s1, e1, w1, st1, a1, -⟩ := deleteVertex_wf hs hx
    rw [← a1] at hrest
    obtain ⟨s', e2, w2, st2, a2⟩ := ih w1 hrest
    refine ⟨s', ?_, w2, by rw [st2, st1], ?_⟩
    · simp only [deleteVertices, List.foldlM_cons, e1, bind, Except.bind]; exact e2
    · rw [a2, a1]; rfl

end GT.FSA
