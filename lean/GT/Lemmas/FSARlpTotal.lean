/-
`remove_long_paths` never raises on a well-formed automaton whose root is a vertex: every
dictionary read of the loop succeeds and `#vertices + 2` iterations are enough.
-/
import GT.Lemmas.FSARlp2
import GT.Lemmas.FSABuild

set_option linter.unusedSectionVars false
set_option linter.unusedSimpArgs false

namespace GT.FSA
variable {V L : Type} [DecidableEq V] [DecidableEq L]
open Dict

theorem unmarked_ok {marked : Dict V Bool} {ws : List V} (h : ∀ w ∈ ws, ∃ b, marked.get? w = some b) :
    ∃ tv, unmarked marked ws = .ok tv := by
  induction ws with
  | nil => exact ⟨[], rfl⟩
  | cons x xs ih =>
    obtain ⟨b, hb⟩ := h x (by simp)
    obtain ⟨r, hr⟩ := ih (fun w hw => h w (by simp [hw]))
    exact ⟨if b = true then r else x :: r, by simp [unmarked, Dict.get, hb, hr, bind, Except.bind, pure, Except.pure]⟩

theorem atLevel_ok {dist : Dict V Nat} {d : Nat} {ws : List V} (h : ∀ w ∈ ws, ∃ b, dist.get? w = some b) :
    ∃ r, atLevel dist d ws = .ok r := by
  induction ws with
  | nil => exact ⟨[], rfl⟩
  | cons x xs ih =>
    obtain ⟨b, hb⟩ := h x (by simp)
    obtain ⟨r, hr⟩ := ih (fun w hw => h w (by simp [hw]))
    exact ⟨if b = d then x :: r else r, by simp [atLevel, Dict.get, hb, hr, bind, Except.bind, pure, Except.pure]⟩

theorem labelled_ok {row : Dict V (List L)} {v : V} {ws : List V} (h : ∀ w ∈ ws, w ∈ row.keys) :
    ∃ es, labelled row v ws = .ok es := by
  induction ws with
  | nil => exact ⟨[], rfl⟩
  | cons x xs ih =>
    obtain ⟨ls, hls⟩ := (mem_keys_iff _ _).1 (h x (by simp))
    obtain ⟨r, hr⟩ := ih (fun w hw => h w (by simp [hw]))
    exact ⟨(v, x, ls) :: r, by simp [labelled, Dict.get, hls, hr, bind, Except.bind, pure, Except.pure]⟩

theorem unmarked_nodup {marked : Dict V Bool} {ws tv : List V} (h : unmarked marked ws = .ok tv)
    (hn : ws.Nodup) : tv.Nodup := by
  induction ws generalizing tv with
  | nil => simp [unmarked] at h; subst h; simp
  | cons x xs ih =>
    simp only [unmarked, Dict.get] at h
    cases hm : marked.get? x with
    | none => simp [hm, bind, Except.bind] at h
    | some b =>
      cases hr : unmarked marked xs with
      | error e => simp [hm, hr, bind, Except.bind] at h
      | ok r =>
        simp only [hm, hr, bind, Except.bind, pure, Except.pure, Except.ok.injEq] at h
        subst h
        simp only [List.nodup_cons] at hn
        have hr' := ih hr hn.2
        cases b
        · simp only [Bool.false_eq_true, if_false, List.nodup_cons]
          exact ⟨fun hx => hn.1 ((unmarked_spec hr x).1 hx).1, hr'⟩
        · simpa using hr'

/-- bookkeeping for termination: `done` lists the vertices already processed -/
structure RlpTot (s : FSA V L) (marked : Dict V Bool) (queue done : List V) (fuel : Nat) : Prop where
  keys : ∀ x ∈ s.out.keys, ∃ b, marked.get? x = some b
  inV : ∀ x ∈ done ++ queue, x ∈ s.out.keys
  nodup : (done ++ queue).Nodup
  dm : ∀ x ∈ done, marked.get? x = some true
  fuel : s.out.length + 1 ≤ done.length + fuel

theorem rlpLoop_total {s : FSA V L} (hs : s.WF) (root : V) (ties : Bool) (fuel : Nat) :
    ∀ (H : FSA V L) (marked : Dict V Bool) (dist : Dict V Nat) (queue done : List V),
      RlpInv s root H marked dist queue → RlpTot s marked queue done fuel →
      ∃ res, rlpLoop s ties fuel H marked dist queue = .ok res := by
  induction fuel with
  | zero =>
    intro H marked dist queue done inv tot
    cases queue with
    | nil => exact ⟨_, rfl⟩
    | cons v q =>
      exfalso
      have h1 : (done ++ [v]).Nodup := by
        have := tot.nodup
        rw [show done ++ v :: q = (done ++ [v]) ++ q by simp] at this
        exact (List.nodup_append.1 this).1
      have h2 : ∀ x ∈ done ++ [v], x ∈ s.out.keys := fun x hx => tot.inV x (by
        rcases List.mem_append.1 hx with h | h
        · exact List.mem_append.2 (Or.inl h)
        · simp at h; subst h; simp)
      have h3 := List.Nodup.length_le_of_subset h1 h2
      have h4 : s.out.keys.length = s.out.length := by simp [Dict.keys]
      have := tot.fuel
      simp at h3
      omega
  | succ fuel ih =>
    intro H marked dist queue done inv tot
    cases queue with
    | nil => exact ⟨(H, dist), by simp [rlpLoop]⟩
    | cons v q =>
      have hv : v ∈ s.out.keys := tot.inV v (by simp)
      obtain ⟨row, hrow⟩ := (mem_keys_iff _ _).1 hv
      have hrowV : ∀ w ∈ row.keys, w ∈ s.out.keys := by
        intro w hw
        obtain ⟨ls, hls⟩ := (mem_keys_iff _ _).1 hw
        exact hs.1.closed v w ls (by rw [og_def, hrow]; exact hls)
      obtain ⟨toVisit, htv⟩ := unmarked_ok (marked := marked) (ws := row.keys)
        (fun w hw => tot.keys w (hrowV w hw))
      have hvm : marked.get? v = some true := inv.queued v (by simp)
      obtain ⟨dv, hdv⟩ := (inv.mark v).1 hvm
      have htv' := unmarked_spec htv
      have hD' : ∀ x, (toVisit.foldl (fun d w => Dict.set d w (dv + 1)) dist).get? x =
          if x ∈ toVisit then some (dv + 1) else dist.get? x :=
        fun x => get?_foldl_setConst toVisit (dv + 1) dist x
      have hM' : ∀ x, (toVisit.foldl (fun m w => Dict.set m w true) marked).get? x =
          if x ∈ toVisit then some true else marked.get? x :=
        fun x => get?_foldl_setConst toVisit true marked x
      obtain ⟨short, hshort⟩ : ∃ short, (if ties = true then
          atLevel (toVisit.foldl (fun d w => Dict.set d w (dv + 1)) dist) (dv + 1) row.keys
          else pure toVisit) = Except.ok short := by
        cases ties
        · exact ⟨toVisit, rfl⟩
        · simp only [if_true]
          apply atLevel_ok
          intro w hw
          rw [hD' w]
          by_cases hwt : w ∈ toVisit
          · exact ⟨dv + 1, by simp [hwt]⟩
          · simp only [hwt, if_false]
            obtain ⟨b, hb⟩ := tot.keys w (hrowV w hw)
            cases b
            · exact absurd ((htv' w).2 ⟨hw, hb⟩) hwt
            · exact (inv.mark w).1 hb
      have hshortKeys : ∀ w ∈ short, w ∈ row.keys := by
        intro w hw
        cases ties
        · simp only [Bool.false_eq_true, if_false, pure, Except.pure, Except.ok.injEq] at hshort
          subst hshort; exact ((htv' w).1 hw).1
        · simp only [if_true] at hshort
          exact ((atLevel_spec hshort w).1 hw).1
      obtain ⟨es, hes⟩ := labelled_ok (row := row) (v := v) hshortKeys
      obtain ⟨H1, eH1, -, -, -, -, -, inv1⟩ :=
        rlp_step hs root ties H marked dist v q inv hrow htv hdv rfl rfl hshort hes
      rw [rlpLoop_succ_eq ties fuel H marked dist v q hrow htv hdv hshort hes eH1]
      apply ih H1 _ _ (q ++ toVisit) (done ++ [v]) inv1
      have hdisj : ∀ x ∈ toVisit, x ∉ done ++ v :: q := by
        intro x hx hmem
        have h1 := ((htv' x).1 hx).2
        rcases List.mem_append.1 hmem with h | h
        · have := tot.dm x h; rw [h1] at this; cases this
        · have := inv.queued x h; rw [h1] at this; cases this
      have htvn : toVisit.Nodup := unmarked_nodup htv (hs.1.keys.outRow v row hrow)
      refine ⟨?_, ?_, ?_, ?_, ?_⟩
      · intro x hx
        rw [hM' x]
        by_cases hxt : x ∈ toVisit
        · exact ⟨true, by simp [hxt]⟩
        · simp only [hxt, if_false]; exact tot.keys x hx
      · intro x hx
        have : x ∈ done ++ v :: q ∨ x ∈ toVisit := by
          simp only [List.mem_append, List.mem_cons, List.mem_singleton, List.not_mem_nil, or_false] at hx ⊢
          grind
        rcases this with h | h
        · exact tot.inV x h
        · exact hrowV x ((htv' x).1 h).1
      · have : (done ++ [v]) ++ (q ++ toVisit) = (done ++ v :: q) ++ toVisit := by simp
        rw [this, List.nodup_append]
        exact ⟨tot.nodup, htvn, fun a ha b hb e => hdisj b hb (e ▸ ha)⟩
      · intro x hx
        rw [hM' x]
        by_cases hxt : x ∈ toVisit
        · simp [hxt]
        · simp only [hxt, if_false]
          rcases List.mem_append.1 hx with h | h
          · exact tot.dm x h
          · simp at h; subst h; exact hvm
      · have := tot.fuel
        simp only [List.length_append, List.length_singleton]
        omega

/-- **`remove_long_paths` is total on well-formed automata.**  If the root (the given one, or the
first start vertex) is a vertex, the call returns: no dictionary read of the loop raises and the
loop finishes within the model's fuel `#vertices + 2`.  Together with `removeLongPaths_spec` this
describes every call. -/
theorem removeLongPaths_total {s : FSA V L} (hs : s.WF) (root : Option V) (ties : Bool) (r : V)
    (hr : root = some r ∨ (root = none ∧ s.starts.head? = some r)) (hv : r ∈ s.vertices) :
    ∃ H dist, s.removeLongPaths root ties = .ok (H, dist) := by
  have hw0 : ((FSA.empty [r] : FSA V L).addVertices s.vertices).WF := wf_addVertices (wf_emptyFSA [r]) _
  have habs0 := abs_addVertices (wf_emptyFSA [r] (L := L)) s.vertices
  have hnoedge : ∀ v l w, ((FSA.empty [r] : FSA V L).addVertices s.vertices).step v l ≠ some w := by
    intro v l w hst
    have : ((FSA.empty [r] : FSA V L).addVertices s.vertices).abs.edges v l w := hst
    rw [habs0] at this
    have : (FSA.empty [r] : FSA V L).step v l = some w := this
    simp [step_def, FSA.empty, fromGraphDict, hiddenVertices] at this
  have hmark0 : ∀ x, (Dict.set (s.vertices.map fun v => (v, false)) r true).get? x = some true ↔ x = r := by
    intro v
    rw [get?_set]
    by_cases hv : v = r
    · subst hv; simp
    · simp only [hv, if_false]
      constructor
      · intro hm; have := mem_of_get? hm; simp at this
      · intro h; cases h
  have inv0 : RlpInv s r ((FSA.empty [r] : FSA V L).addVertices s.vertices)
      (Dict.set (s.vertices.map fun v => (v, false)) r true) [(r, 0)] [r] := by
    refine ⟨hw0, ?_, by rw [starts_addVertices]; rfl, ?_, ?_, ?_, by simp [get?_cons]⟩
    · intro v; rw [mem_keys_addVertices]
      have : v ∉ (FSA.empty [r] : FSA V L).out.keys := by intro h; cases h
      simp [this, vertices]
    · intro v l w hst; exact absurd hst (hnoedge v l w)
    · intro v
      rw [hmark0, get?_cons]
      by_cases hv : v = r
      · subst hv; simp
      · simp only [hv, if_false, get?_nil]
        constructor
        · intro h; cases h
        · rintro ⟨d, hd⟩; cases hd
    · intro v hv; simp at hv; subst hv; exact (hmark0 v).2 rfl
  have tot0 : RlpTot s (Dict.set (s.vertices.map fun v => (v, false)) r true) [r] [] (s.out.length + 2) := by
    refine ⟨?_, ?_, by simp, by simp, by simp⟩
    · intro x hx
      rw [get?_set]
      by_cases hxr : x = r
      · exact ⟨true, by simp [hxr]⟩
      · simp only [hxr, if_false]
        rw [get?_mapConst]
        exact ⟨false, by simp [vertices, hx]⟩
    · intro x hx; simp at hx; subst hx; exact hv
  obtain ⟨res, hres⟩ := rlpLoop_total hs r ties (s.out.length + 2) _ _ _ _ _ inv0 tot0
  refine ⟨res.1, res.2, ?_⟩
  rcases hr with rfl | ⟨rfl, h⟩
  · simp only [removeLongPaths, bind, Except.bind, pure, Except.pure]
    exact hres
  · cases hst : s.starts with
    | nil => simp [hst] at h
    | cons a rest =>
      simp [hst] at h; subst h
      simp only [removeLongPaths, start0, hst, bind, Except.bind]
      exact hres

end GT.FSA
