/-
C06, part 5: when `_automaton_accepted` raises.  With `as_start` it raises `KeyError` exactly
for a state that is not a vertex of the automaton (for `length > 0`); for vertices, and for
every end state, it returns a value provided every edge label has an edge element.
-/
import GT.Lemmas.RepAutLang

set_option linter.unusedSectionVars false

namespace GT.RepW

theorem mapM_ok_of_forall {α β : Type} (f : α → M? β) :
    ∀ l : List α, (∀ x ∈ l, ∃ y, f x = .ok y) → ∃ ys, l.mapM f = .ok ys
  | [], _ => ⟨[], rfl⟩
  | x :: l, h => by
    obtain ⟨y, hy⟩ := h x List.mem_cons_self
    obtain ⟨ys, hys⟩ := mapM_ok_of_forall f l fun x hx => h x (List.mem_cons_of_mem _ hx)
    refine ⟨y :: ys, ?_⟩
    rw [List.mapM_cons, hy, hys]
    rfl

namespace Rep
variable {V : Type} [DecidableEq V] {n : ℕ} {R : Type} [Inhabited R] [CommRing R]

/-- the specification has a value on every set of states `S` closed under adjacency on which
`adj` is defined and all of whose edge labels have edge elements -/
theorem accSpec_total (ρ : Rep n R) (a : Aut V) (o : AccOpts) (S : V → Prop)
    (hadj : ∀ v, S v → ∃ e, a.adj o.asStart v = .ok e ∧
      ∀ wl ∈ e, S wl.1 ∧ ∃ E, ρ.edgeElt o wl.2 = .ok E) :
    ∀ (L : Nat) (v : V), S v → ∃ pairs, ρ.accSpec a o L v = .ok pairs
  | 0, v, _ => ⟨_, rfl⟩
  | k + 1, v, hv => by
    obtain ⟨e, he, hall⟩ := hadj v hv
    obtain ⟨parts, hparts⟩ := mapM_ok_of_forall (ρ.specBody a o k) e (by
      intro wl hwl
      obtain ⟨hS, E, hE⟩ := hall wl hwl
      obtain ⟨r, hr⟩ := accSpec_total ρ a o S hadj k wl.1 hS
      refine ⟨extendPairs ρ o wl.2 E r, ?_⟩
      unfold specBody
      rw [hr, hE]
      rfl)
    refine ⟨(if o.maxlen then zeroPairs a o v else []) ++ parts.flatten, ?_⟩
    rw [accSpec_succ, he]
    show (do
      let parts ← e.mapM (ρ.specBody a o k)
      pure ((if o.maxlen then zeroPairs a o v else []) ++ parts.flatten) : M? _) = _
    rw [hparts]
    rfl

end Rep

namespace Aut
variable {V : Type} [DecidableEq V]

theorem dget_mem {κ ν : Type} [DecidableEq κ] :
    ∀ (d : List (κ × ν)) (k : κ) (v : ν), dget d k = some v → (k, v) ∈ d
  | [], k, v, h => by cases h
  | (k0, v0) :: d, k, v, h => by
    simp only [dget] at h
    by_cases hk : k0 = k
    · rw [if_pos hk] at h
      cases h
      subst hk
      exact List.mem_cons_self
    · rw [if_neg hk] at h
      exact List.mem_cons_of_mem _ (dget_mem d k v h)

theorem dget_isSome_of_mem {κ ν : Type} [DecidableEq κ] :
    ∀ (d : List (κ × ν)) (k : κ), k ∈ d.map Prod.fst → ∃ v, dget d k = some v
  | [], k, h => by cases h
  | (k0, v0) :: d, k, h => by
    simp only [dget]
    by_cases hk : k0 = k
    · exact ⟨v0, by rw [if_pos hk]⟩
    · rw [if_neg hk]
      simp only [List.map_cons, List.mem_cons] at h
      rcases h with h | h
      · exact absurd h.symm hk
      · exact dget_isSome_of_mem d k h

/-- `_hidden_vertices` finds every neighbour that is not a key -/
theorem mem_vertices_of_edge (a : Aut V) (v : V) (e : List (String × V))
    (hve : (v, e) ∈ a.graph) (ln : String × V) (hln : ln ∈ e) : ln.2 ∈ a.vertices := by
  unfold vertices
  rw [List.mem_append]
  by_cases hk : ln.2 ∈ a.graph.map Prod.fst
  · exact Or.inl hk
  · right
    unfold hidden
    generalize a.graph.map Prod.fst = keys at hk
    have step_mono : ∀ (hid : List V) (m : String × V) (x : V), x ∈ hid →
        x ∈ (if m.2 ∉ keys ∧ m.2 ∉ hid then hid ++ [m.2] else hid) := by
      intro hid m x hx
      split_ifs
      · exact List.mem_append_left _ hx
      · exact hx
    have inner_mono : ∀ (e : List (String × V)) (hid : List V) (x : V), x ∈ hid →
        x ∈ e.foldl (fun hid ln => if ln.2 ∉ keys ∧ ln.2 ∉ hid then hid ++ [ln.2] else hid)
          hid := by
      intro e
      induction e with
      | nil => intro hid x hx; exact hx
      | cons m e ih =>
        intro hid x hx
        rw [List.foldl_cons]
        exact ih _ x (step_mono hid m x hx)
    have inner_add : ∀ (e : List (String × V)) (hid : List V), ln ∈ e →
        ln.2 ∈ e.foldl (fun hid ln => if ln.2 ∉ keys ∧ ln.2 ∉ hid then hid ++ [ln.2] else hid)
          hid := by
      intro e
      induction e with
      | nil => intro hid h; cases h
      | cons m e ih =>
        intro hid h
        rw [List.foldl_cons]
        rw [List.mem_cons] at h
        rcases h with rfl | h
        · apply inner_mono
          split_ifs with hc
          · exact List.mem_append_right _ List.mem_cons_self
          · by_contra hn
            exact hc ⟨hk, hn⟩
        · exact ih _ h
    have outer_mono : ∀ (g : List (V × List (String × V))) (hid : List V) (x : V), x ∈ hid →
        x ∈ g.foldl (fun hid vn => vn.2.foldl
          (fun hid ln => if ln.2 ∉ keys ∧ ln.2 ∉ hid then hid ++ [ln.2] else hid) hid) hid := by
      intro g
      induction g with
      | nil => intro hid x hx; exact hx
      | cons vn g ih =>
        intro hid x hx
        rw [List.foldl_cons]
        exact ih _ x (inner_mono vn.2 hid x hx)
    have outer_add : ∀ (g : List (V × List (String × V))) (hid : List V), (v, e) ∈ g →
        ln.2 ∈ g.foldl (fun hid vn => vn.2.foldl
          (fun hid ln => if ln.2 ∉ keys ∧ ln.2 ∉ hid then hid ++ [ln.2] else hid) hid) hid := by
      intro g
      induction g with
      | nil => intro hid h; cases h
      | cons vn g ih =>
        intro hid h
        rw [List.foldl_cons]
        rw [List.mem_cons] at h
        rcases h with rfl | h
        · exact outer_mono g _ _ (inner_add e hid hln)
        · exact ih _ h
    exact outer_add a.graph [] hve

/-- the `graph_dict` row of a vertex: either a listed row, or `{}` for a hidden vertex -/
theorem succs?_of_mem_vertices (a : Aut V) (v : V) (hv : v ∈ a.vertices) :
    ∃ e, a.succs? v = some e ∧ (e = [] ∨ (v, e) ∈ a.graph) := by
  unfold succs?
  cases hd : dget a.graph v with
  | some e => exact ⟨e, rfl, Or.inr (dget_mem _ _ _ hd)⟩
  | none =>
    unfold vertices at hv
    rw [List.mem_append] at hv
    rcases hv with hv | hv
    · obtain ⟨e, he⟩ := dget_isSome_of_mem a.graph v hv
      rw [he] at hd
      cases hd
    · exact ⟨[], by simp [hv], Or.inl rfl⟩

theorem succs?_none_of_not_mem (a : Aut V) (v : V) (hv : v ∉ a.vertices) :
    a.succs? v = none := by
  unfold vertices at hv
  rw [List.mem_append, not_or] at hv
  unfold succs?
  cases hd : dget a.graph v with
  | some e => exact absurd (dget_some_mem _ _ _ hd) hv.1
  | none => simp [hv.2]

/-- every edge of the reference enumeration is an edge of a listed row -/
theorem succs_mem_graph (a : Aut V) (u : V) (ln : String × V) (h : ln ∈ a.succs u) :
    ∃ e, (u, e) ∈ a.graph ∧ ln ∈ e := by
  unfold succs at h
  cases hs : a.succs? u with
  | none => rw [hs] at h; cases h
  | some e =>
    rw [hs] at h
    unfold succs? at hs
    cases hd : dget a.graph u with
    | some e' =>
      rw [hd] at hs
      cases hs
      exact ⟨e, dget_mem _ _ _ hd, h⟩
    | none =>
      rw [hd] at hs
      split_ifs at hs
      cases hs
      cases h

end Aut

namespace Rep
variable {V : Type} [DecidableEq V] {n : ℕ} {R : Type} [Inhabited R] [CommRing R]

/-- every edge label of the automaton has an edge element (a word in the generators, resp. a
generator name) -/
def LabelsDefined (ρ : Rep n R) (a : Aut V) (o : AccOpts) : Prop :=
  ∀ v e, (v, e) ∈ a.graph → ∀ ln ∈ e, ∃ E, ρ.edgeElt o ln.1 = .ok E

/-- `as_start`: no exception for a vertex of the automaton -/
theorem accSpec_total_start (ρ : Rep n R) (a : Aut V) (o : AccOpts) (h1 : o.asStart = true)
    (hlab : LabelsDefined ρ a o) (L : Nat) (v : V) (hv : v ∈ a.vertices) :
    ∃ pairs, ρ.accSpec a o L v = .ok pairs := by
  refine accSpec_total ρ a o (fun v => v ∈ a.vertices) ?_ L v hv
  intro v hv
  obtain ⟨e, he, hor⟩ := Aut.succs?_of_mem_vertices a v hv
  refine ⟨Aut.flatAdj (Aut.groupOut e), ?_, ?_⟩
  · unfold Aut.adj Aut.outDict?
    rw [h1, he]
    rfl
  · intro wl hwl
    have hm := (Aut.flatAdj_groupOut_perm e).mem_iff.1 hwl
    rw [List.mem_map] at hm
    obtain ⟨ln, hln, rfl⟩ := hm
    rcases hor with rfl | hor
    · cases hln
    · exact ⟨Aut.mem_vertices_of_edge a v e hor ln hln, hlab v e hor ln hln⟩

/-- `as_start`, `length > 0`: `KeyError` for a state that is not a vertex -/
theorem accSpec_keyError (ρ : Rep n R) (a : Aut V) (o : AccOpts) (h1 : o.asStart = true)
    (k : Nat) (v : V) (hv : v ∉ a.vertices) : ρ.accSpec a o (k + 1) v = .error "KeyError" := by
  rw [accSpec_succ]
  unfold Aut.adj Aut.outDict?
  rw [h1, Aut.succs?_none_of_not_mem a v hv]
  rfl

/-- `as_start=False`: no exception for any end state (`in_dict` is a `defaultdict`) -/
theorem accSpec_total_end (ρ : Rep n R) (a : Aut V) (o : AccOpts) (h1 : o.asStart = false)
    (hlab : LabelsDefined ρ a o) (L : Nat) (v : V) :
    ∃ pairs, ρ.accSpec a o L v = .ok pairs := by
  refine accSpec_total ρ a o (fun _ => True) ?_ L v trivial
  intro v _
  refine ⟨Aut.flatAdj (a.inDict v), ?_, ?_⟩
  · unfold Aut.adj
    rw [h1]
    rfl
  · intro wl hwl
    refine ⟨trivial, ?_⟩
    have hm := (Aut.flatAdj_inDict_perm a v).mem_iff.1 hwl
    unfold Aut.preds at hm
    rw [List.mem_flatMap] at hm
    obtain ⟨u, _, hu⟩ := hm
    rw [List.mem_filterMap] at hu
    obtain ⟨ln, hln, hsome⟩ := hu
    split_ifs at hsome
    cases hsome
    obtain ⟨e, he, hle⟩ := Aut.succs_mem_graph a u ln hln
    exact hlab u e he ln hle

end Rep
end GT.RepW
