/-
Helper lemmas for `GT.Properties.C07` (never property statements): the invariant of the
breadth-first construction in `generate_automaton`, and the link between the transition
table and the run on nodes it tabulates.
-/
import GT.Model.CoxAut
import Mathlib.Data.List.Basic
import Mathlib.GroupTheory.Coxeter.Basic

namespace GT.CoxAut

variable (succ : Nat → List Bool → List Bool) (rank : Nat)

/-- a row is the correct tabulation of a node's transitions into the node list -/
def RowOK (nodes : List (List Bool)) (node : List Bool) (row : List (Option Nat)) : Prop :=
  row.length = rank ∧ ∀ k < rank,
    (node.getD k false = true → row[k]? = some none) ∧
    (node.getD k false = false → ∃ t, row[k]? = some (some t) ∧ nodes[t]? = some (succ k node))

theorem RowOK.mono {nodes ext : List (List Bool)} {node : List Bool} {row : List (Option Nat)}
    (h : RowOK succ rank nodes node row) : RowOK succ rank (nodes ++ ext) node row := by
  refine ⟨h.1, fun k hk => ⟨(h.2 k hk).1, fun hb => ?_⟩⟩
  obtain ⟨t, h1, h2⟩ := (h.2 k hk).2 hb
  refine ⟨t, h1, ?_⟩
  have : t < nodes.length := by
    rcases Nat.lt_or_ge t nodes.length with h | h
    · exact h
    · rw [List.getElem?_eq_none h] at h2; cases h2
  rw [List.getElem?_append_left this]; exact h2

theorem processNode_spec (node : List Bool) (nodes : List (List Bool)) (r : Nat) :
    (∃ ext, (processNode succ r node nodes).1 = nodes ++ ext) ∧
    RowOK succ r (processNode succ r node nodes).1 node (processNode succ r node nodes).2 := by
  induction r with
  | zero => exact ⟨⟨[], by simp [processNode]⟩, by simp [processNode, RowOK]⟩
  | succ r ih =>
    have hstep : processNode succ (r + 1) node nodes =
        (fun (st : List (List Bool) × List (Option Nat)) k =>
          if node.getD k false then (st.1, st.2 ++ [none])
          else
            let nn := succ k node
            let t := st.1.idxOf nn
            if t < st.1.length then (st.1, st.2 ++ [some t])
            else (st.1 ++ [nn], st.2 ++ [some st.1.length])) (processNode succ r node nodes) r := by
      unfold processNode
      rw [List.range_succ, List.foldl_append]
      rfl
    rw [hstep]
    revert ih
    generalize processNode succ r node nodes = P
    obtain ⟨ns, row⟩ := P
    intro ih
    obtain ⟨⟨ext, he⟩, hlen, hrow⟩ := ih
    simp only at he hlen hrow ⊢
    -- facts used in every branch
    have old : ∀ (ns' : List (List Bool)) (x : Option Nat), (∃ e, ns' = ns ++ e) → ∀ k < r,
        (node.getD k false = true → (row ++ [x])[k]? = some none) ∧
        (node.getD k false = false → ∃ t, (row ++ [x])[k]? = some (some t) ∧ ns'[t]? = some (succ k node)) := by
      intro ns' x ⟨e, hns'⟩ k hk
      have hk' : k < row.length := by rw [hlen]; exact hk
      rw [List.getElem?_append_left hk']
      refine ⟨(hrow k hk).1, fun hb => ?_⟩
      obtain ⟨t, h1, h2⟩ := (hrow k hk).2 hb
      refine ⟨t, h1, ?_⟩
      have : t < ns.length := by
        rcases Nat.lt_or_ge t ns.length with h | h
        · exact h
        · rw [List.getElem?_eq_none h] at h2; cases h2
      rw [hns', List.getElem?_append_left this]; exact h2
    have last : ∀ x : Option Nat, (row ++ [x])[r]? = some x := by
      intro x
      rw [List.getElem?_append_right (by rw [hlen]), hlen]; simp
    by_cases hb : node.getD r false = true
    · simp only [hb, if_true]
      refine ⟨⟨ext, he⟩, by rw [List.length_append, hlen]; rfl, fun k hk => ?_⟩
      rcases Nat.lt_succ_iff_lt_or_eq.1 hk with hk | rfl
      · exact old ns none ⟨[], by simp⟩ k hk
      · exact ⟨fun _ => last none, fun h => by rw [hb] at h; cases h⟩
    · have hb' : node.getD r false = false := by simpa using hb
      simp only [hb', Bool.false_eq_true, if_false]
      by_cases ht : ns.idxOf (succ r node) < ns.length
      · simp only [ht, if_true]
        refine ⟨⟨ext, he⟩, by rw [List.length_append, hlen]; rfl, fun k hk => ?_⟩
        rcases Nat.lt_succ_iff_lt_or_eq.1 hk with hk | rfl
        · exact old ns _ ⟨[], by simp⟩ k hk
        · refine ⟨fun h => (by rw [hb'] at h; cases h), fun _ => ⟨_, last _, ?_⟩⟩
          exact List.getElem?_idxOf (List.idxOf_lt_length_iff.1 ht)
      · simp only [ht, if_false]
        refine ⟨⟨ext ++ [succ r node], by rw [he, List.append_assoc]⟩, by rw [List.length_append, hlen]; rfl, fun k hk => ?_⟩
        rcases Nat.lt_succ_iff_lt_or_eq.1 hk with hk | rfl
        · exact old _ _ ⟨[succ r node], rfl⟩ k hk
        · refine ⟨fun h => (by rw [hb'] at h; cases h), fun _ => ⟨_, last _, ?_⟩⟩
          simp

/-- invariant of the `while todo` loop -/
def Inv (nodes : List (List Bool)) (rows : List (List (Option Nat))) : Prop :=
  rows.length ≤ nodes.length ∧
    ∀ (s : Nat) (node : List Bool) (row : List (Option Nat)),
      nodes[s]? = some node → rows[s]? = some row → RowOK succ rank nodes node row

theorem bfs_spec : ∀ (fuel : Nat) (nodes : List (List Bool)) (rows : List (List (Option Nat)))
    (N : List (List Bool)) (A : List (List (Option Nat))),
    bfs succ rank fuel nodes rows = some (N, A) → Inv succ rank nodes rows →
      Inv succ rank N A ∧ A.length = N.length ∧ ∃ ext, N = nodes ++ ext := by
  intro fuel
  induction fuel with
  | zero =>
    intro nodes rows N A h hI
    unfold bfs at h
    split at h
    · rename_i hn
      cases h
      have : nodes.length ≤ rows.length := by
        rcases Nat.lt_or_ge rows.length nodes.length with h | h
        · rw [List.getElem?_eq_getElem h] at hn; cases hn
        · exact h
      exact ⟨hI, Nat.le_antisymm hI.1 this, [], by simp⟩
    · cases h
  | succ fuel ih =>
    intro nodes rows N A h hI
    unfold bfs at h
    split at h
    · rename_i hn
      cases h
      have : nodes.length ≤ rows.length := by
        rcases Nat.lt_or_ge rows.length nodes.length with h | h
        · rw [List.getElem?_eq_getElem h] at hn; cases hn
        · exact h
      exact ⟨hI, Nat.le_antisymm hI.1 this, [], by simp⟩
    · rename_i node hn
      obtain ⟨⟨ext, he⟩, hrow⟩ := processNode_spec succ node nodes rank
      have hlt : rows.length < nodes.length := by
        rcases Nat.lt_or_ge rows.length nodes.length with h | h
        · exact h
        · rw [List.getElem?_eq_none h] at hn; cases hn
      have hI' : Inv succ rank (processNode succ rank node nodes).1
          (rows ++ [(processNode succ rank node nodes).2]) := by
        refine ⟨by rw [he]; simp; omega, ?_⟩
        intro s nd rw' h1 h2
        rcases Nat.lt_or_ge s rows.length with hs | hs
        · rw [List.getElem?_append_left hs] at h2
          rw [he, List.getElem?_append_left (by omega)] at h1
          rw [he]
          exact (hI.2 s nd rw' h1 h2).mono
        · have hs' : s = rows.length := by
            rcases Nat.lt_or_ge rows.length s with h | h
            · rw [List.getElem?_eq_none (by simp; omega)] at h2; cases h2
            · omega
          subst hs'
          rw [List.getElem?_append_right (Nat.le_refl _)] at h2
          simp at h2
          rw [he, List.getElem?_append_left hlt, hn] at h1
          cases h1
          rw [← h2]
          exact hrow
      obtain ⟨a, b, e', he'⟩ := ih _ _ N A h hI'
      exact ⟨a, b, ext ++ e', by rw [he', he, List.append_assoc]⟩

/-- what `generateAutomaton` guarantees about its result -/
structure Final (start : List Bool) (N : List (List Bool)) (A : Table) : Prop where
  len : A.length = N.length
  start : N[0]? = some start
  rows : ∀ (s : Nat) (node : List Bool) (row : List (Option Nat)),
    N[s]? = some node → A[s]? = some row → RowOK succ rank N node row

theorem final_of_bfs {start : List Bool} {fuel : Nat} {N : List (List Bool)} {A : Table}
    (h : bfs succ rank fuel [start] [] = some (N, A)) : Final succ rank start N A := by
  obtain ⟨hI, hl, ext, he⟩ := bfs_spec succ rank fuel [start] [] N A h
    ⟨by simp, fun s node row _ h2 => by simp at h2⟩
  exact ⟨hl, by rw [he]; simp, hI.2⟩

variable {succ rank}

theorem Final.step_some {start : List Bool} {N : List (List Bool)} {A : Table}
    (hF : Final succ rank start N A) {s k t : Nat} {node : List Bool} (hn : N[s]? = some node)
    (h : A.step s k = some t) :
    k < rank ∧ node.getD k false = false ∧ N[t]? = some (succ k node) := by
  unfold Table.step at h
  have hs : s < A.length := by
    rw [hF.len]
    rcases Nat.lt_or_ge s N.length with h' | h'
    · exact h'
    · rw [List.getElem?_eq_none h'] at hn; cases hn
  rw [List.getElem?_eq_getElem hs] at h
  simp only [Option.bind_some] at h
  obtain ⟨hlen, hrow⟩ := hF.rows s node A[s] hn (List.getElem?_eq_getElem hs)
  have hk : k < rank := by
    rcases Nat.lt_or_ge k rank with h' | h'
    · exact h'
    · rw [List.getElem?_eq_none (by rw [hlen]; exact h')] at h; cases h
  refine ⟨hk, ?_⟩
  cases hb : node.getD k false with
  | true =>
    rw [(hrow k hk).1 hb] at h; cases h
  | false =>
    obtain ⟨t', h1, h2⟩ := (hrow k hk).2 hb
    rw [h1] at h
    simp at h
    subst h
    exact ⟨rfl, h2⟩

theorem Final.step_of_allowed {start : List Bool} {N : List (List Bool)} {A : Table}
    (hF : Final succ rank start N A) {s k : Nat} {node : List Bool} (hn : N[s]? = some node)
    (hk : k < rank) (hb : node.getD k false = false) :
    ∃ t, A.step s k = some t ∧ N[t]? = some (succ k node) := by
  have hs : s < A.length := by
    rw [hF.len]
    rcases Nat.lt_or_ge s N.length with h' | h'
    · exact h'
    · rw [List.getElem?_eq_none h'] at hn; cases hn
  obtain ⟨_, hrow⟩ := hF.rows s node A[s] hn (List.getElem?_eq_getElem hs)
  obtain ⟨t, h1, h2⟩ := (hrow k hk).2 hb
  refine ⟨t, ?_, h2⟩
  unfold Table.step
  rw [List.getElem?_eq_getElem hs]
  simp [h1]

/-- the table tabulates the run on nodes: soundness and completeness -/
theorem Final.follow_run {start : List Bool} {N : List (List Bool)} {A : Table}
    (hF : Final succ rank start N A) : ∀ (w : List Nat) (s : Nat) (node : List Bool),
    N[s]? = some node →
      (∀ t, A.follow s w = some t → ∃ node', N[t]? = some node' ∧ run succ rank node w = some node') ∧
      (∀ node', run succ rank node w = some node' → ∃ t, A.follow s w = some t ∧ N[t]? = some node') := by
  intro w
  induction w with
  | nil =>
    intro s node hn
    refine ⟨fun t h => ?_, fun node' h => ?_⟩
    · simp only [Table.follow, Option.some.injEq] at h; subst h; exact ⟨node, hn, rfl⟩
    · simp only [run, Option.some.injEq] at h; subst h; exact ⟨s, rfl, hn⟩
  | cons k w ih =>
    intro s node hn
    refine ⟨fun t h => ?_, fun node' h => ?_⟩
    · simp only [Table.follow] at h
      cases hst : A.step s k with
      | none => rw [hst] at h; cases h
      | some t' =>
        rw [hst] at h
        simp only [Option.bind_some] at h
        obtain ⟨hk, hb, hn'⟩ := hF.step_some hn hst
        obtain ⟨node', h1, h2⟩ := (ih t' _ hn').1 t h
        exact ⟨node', h1, by simp only [run, hk, hb, and_self, if_true]; exact h2⟩
    · simp only [run] at h
      split at h
      · rename_i hc
        obtain ⟨t', hst, hn'⟩ := hF.step_of_allowed hn hc.1 hc.2
        obtain ⟨t, h1, h2⟩ := (ih t' _ hn').2 node' h
        exact ⟨t, by simp only [Table.follow, hst, Option.bind_some]; exact h1, h2⟩
      · cases h

theorem run_append (succ : Nat → List Bool → List Bool) (rank : Nat) :
    ∀ (u v : List Nat) (node : List Bool),
      run succ rank node (u ++ v) = (run succ rank node u).bind fun x => run succ rank x v := by
  intro u
  induction u with
  | nil => intro v node; simp [run]
  | cons k u ih =>
    intro v node
    simp only [List.cons_append, run]
    split
    · exact ih v _
    · rfl

theorem succNode_getD (nb : Nat → Nat → Option Nat) (lex : Bool) (nroots k : Nat) (node : List Bool)
    (p : Nat) : (succNode nb lex nroots k node).getD p false =
      if p < nroots then applyGenToNode nb lex k node p else false := by
  unfold succNode
  rw [List.getD_eq_getElem?_getD, List.getElem?_map]
  by_cases hp : p < nroots
  · simp [hp]
  · simp [hp]

theorem applyGenToNode_self (nb : Nat → Nat → Option Nat) (lex : Bool) (k : Nat) (node : List Bool) :
    applyGenToNode nb lex k node k = true := by
  unfold applyGenToNode
  split
  · rfl
  · simp

/-- the lex-pruned node has every bit of the unpruned node -/
def NodeLe (x y : List Bool) : Prop := ∀ p, y.getD p false = true → x.getD p false = true

theorem succNode_mono (nb : Nat → Nat → Option Nat) (nroots k : Nat) {x y : List Bool}
    (h : NodeLe x y) : NodeLe (succNode nb true nroots k x) (succNode nb false nroots k y) := by
  intro p hp
  rw [succNode_getD] at hp ⊢
  by_cases hpn : p < nroots
  · simp only [hpn, if_true] at hp ⊢
    unfold applyGenToNode at hp ⊢
    simp only [Bool.false_and, Bool.false_eq_true, if_false, Bool.true_and] at hp ⊢
    split
    · rfl
    · split
      · rfl
      · rename_i hne
        simp only [hne] at hp
        cases hnb : nb p k with
        | none => rw [hnb] at hp; cases hp
        | some sw => rw [hnb] at hp; exact h sw hp
  · simp [hpn] at hp

theorem run_mono (nb : Nat → Nat → Option Nat) (nroots rank : Nat) :
    ∀ (w : List Nat) (x y x' : List Bool), NodeLe x y →
      run (succNode nb true nroots) rank x w = some x' →
      ∃ y', run (succNode nb false nroots) rank y w = some y' ∧ NodeLe x' y' := by
  intro w
  induction w with
  | nil => intro x y x' h hr; simp only [run, Option.some.injEq] at hr; subst hr; exact ⟨y, rfl, h⟩
  | cons k w ih =>
    intro x y x' h hr
    simp only [run] at hr ⊢
    split at hr
    · rename_i hc
      have hy : y.getD k false = false := by
        cases hb : y.getD k false with
        | false => rfl
        | true => have := h k hb; rw [hc.2] at this; cases this
      simp only [hc.1, hy, and_self, if_true]
      exact ih _ _ x' (succNode_mono nb nroots k h) hr
    · cases hr

/-! ## the even-length variant -/

theorem lookup_filterMap {α β : Type} [BEq α] [LawfulBEq α] (f : α → Option β) (l : List α) (q : α) :
    (l.filterMap fun p => (f p).map fun t => (p, t)).lookup q = if q ∈ l then f q else none := by
  induction l with
  | nil => simp
  | cons a l ih =>
    rw [List.filterMap_cons]
    cases hfa : f a with
    | none =>
      simp only [Option.map_none, ih, List.mem_cons]
      by_cases hq : q = a
      · subst hq; simp [hfa]
      · simp [hq]
    | some t =>
      simp only [Option.map_some, List.lookup_cons, ih, List.mem_cons]
      by_cases hq : q = a
      · subst hq; simp [hfa]
      · have : (q == a) = false := by simpa using hq
        simp [this, hq]

theorem mem_of_lookup_some {α β : Type} [BEq α] [LawfulBEq α] {l : List (α × β)} {a : α} {b : β}
    (h : l.lookup a = some b) : (a, b) ∈ l := by
  induction l with
  | nil => simp at h
  | cons x xs ih =>
    obtain ⟨a', b'⟩ := x
    rw [List.lookup_cons] at h
    by_cases e : a = a'
    · subst e; simp at h; simp [h]
    · have : (a == a') = false := by simpa using e
      simp only [this] at h
      exact List.mem_cons_of_mem _ (ih h)

theorem mem_allPairs (rank : Nat) (p : Nat × Nat) : p ∈ allPairs rank ↔ p.1 < rank ∧ p.2 < rank := by
  unfold allPairs
  simp only [List.mem_flatMap, List.mem_range, List.mem_map]
  constructor
  · rintro ⟨a, ha, b, hb, rfl⟩; exact ⟨ha, hb⟩
  · intro ⟨h1, h2⟩; exact ⟨p.1, h1, p.2, h2, rfl⟩

theorem step_none_of_ge (A : Table) (rank : Nat) (hA : ∀ row ∈ A, row.length ≤ rank) (s k : Nat)
    (hk : rank ≤ k) : A.step s k = none := by
  unfold Table.step
  cases hs : A[s]? with
  | none => rfl
  | some row =>
    have : row ∈ A := List.mem_of_getElem? hs
    have hl := hA row this
    simp [List.getElem?_eq_none (by omega : row.length ≤ k)]

theorem edgesOf_lookup (A : Table) (rank : Nat) (hA : ∀ row ∈ A, row.length ≤ rank) (v : Nat)
    (p : Nat × Nat) : (edgesOf A rank v).lookup p = A.step2 v p := by
  unfold edgesOf
  rw [lookup_filterMap]
  split
  · rfl
  · rename_i h
    rw [mem_allPairs] at h
    unfold Table.step2
    by_cases h1 : p.1 < rank
    · have h2 : rank ≤ p.2 := by
        rcases Nat.lt_or_ge p.2 rank with h' | h'
        · exact absurd ⟨h1, h'⟩ h
        · exact h'
      cases hs : A.step v p.1 with
      | none => rfl
      | some t => simp [step_none_of_ge A rank hA t p.2 h2]
    · rw [step_none_of_ge A rank hA v p.1 (by omega)]; rfl

/-- loop invariant of `automaton_multiple` -/
structure EInv (A : Table) (rank : Nat) (queue visited : List Nat) (acc : EvenG) : Prop where
  look : ∀ v, acc.lookup v = if v ∈ visited then some (edgesOf A rank v) else none
  closed : ∀ v ∈ visited, ∀ p t, A.step2 v p = some t → t ∈ visited ∨ t ∈ queue
  start : 0 ∈ visited ∨ 0 ∈ queue

theorem evenBfs_spec (A : Table) (rank : Nat) (hA : ∀ row ∈ A, row.length ≤ rank) :
    ∀ (fuel : Nat) (queue visited : List Nat) (acc E : EvenG),
      evenBfs A rank fuel queue visited acc = some E → EInv A rank queue visited acc →
        ∃ vis, EInv A rank [] vis E := by
  intro fuel
  induction fuel with
  | zero =>
    intro queue visited acc E h hI
    cases queue with
    | nil => simp only [evenBfs, Option.some.injEq] at h; subst h; exact ⟨visited, hI⟩
    | cons v q => simp [evenBfs] at h
  | succ fuel ih =>
    intro queue visited acc E h hI
    cases queue with
    | nil => simp only [evenBfs, Option.some.injEq] at h; subst h; exact ⟨visited, hI⟩
    | cons v q =>
      simp only [evenBfs] at h
      split at h
      · rename_i hv
        have hv' : v ∈ visited := by simpa using hv
        refine ih q visited acc E h ⟨hI.look, ?_, ?_⟩
        · intro u hu p t hp
          rcases hI.closed u hu p t hp with h1 | h1
          · exact Or.inl h1
          · rcases List.mem_cons.1 h1 with rfl | h2
            · exact Or.inl hv'
            · exact Or.inr h2
        · rcases hI.start with h1 | h1
          · exact Or.inl h1
          · rcases List.mem_cons.1 h1 with h2 | h2
            · exact Or.inl (h2 ▸ hv')
            · exact Or.inr h2
      · rename_i hv
        have hv' : v ∉ visited := by simpa using hv
        refine ih _ _ _ E h ⟨?_, ?_, ?_⟩
        · intro u
          rw [List.lookup_append, hI.look u]
          by_cases hu : u = v
          · subst hu
            simp only [hv', if_false, List.mem_cons, true_or, if_true, Option.none_or]
            simp [List.lookup, edgesOf, allPairs]
          · have : (u == v) = false := by simpa using hu
            by_cases hm : u ∈ visited
            · simp [hm, hu]
            · simp [hm, hu, List.lookup, this]
        · intro u hu p t hp
          rcases List.mem_cons.1 hu with rfl | hu
          · -- the new vertex: its targets were enqueued
            right
            apply List.mem_append_right
            have : (edgesOf A rank u).lookup p = some t := by rw [edgesOf_lookup A rank hA, hp]
            have hmem : (p, t) ∈ edgesOf A rank u := mem_of_lookup_some this
            exact List.mem_map.2 ⟨(p, t), by simpa [edgesOf, allPairs] using hmem, rfl⟩
          · rcases hI.closed u hu p t hp with h1 | h1
            · exact Or.inl (List.mem_cons_of_mem _ h1)
            · rcases List.mem_cons.1 h1 with rfl | h2
              · exact Or.inl (List.mem_cons_self)
              · exact Or.inr (List.mem_append_left _ h2)
        · rcases hI.start with h1 | h1
          · exact Or.inl (List.mem_cons_of_mem _ h1)
          · rcases List.mem_cons.1 h1 with h2 | h2
            · exact Or.inl (h2 ▸ List.mem_cons_self)
            · exact Or.inr (List.mem_append_left _ h2)

theorem even_follow (A : Table) (rank : Nat) (hA : ∀ row ∈ A, row.length ≤ rank) (vis : List Nat)
    (E : EvenG) (hI : EInv A rank [] vis E) :
    ∀ (ps : List (Nat × Nat)) (v : Nat), v ∈ vis → E.follow v ps = follow2 A v ps := by
  intro ps
  induction ps with
  | nil => intro v _; rfl
  | cons p ps ih =>
    intro v hv
    have hstep : E.step v p = A.step2 v p := by
      unfold EvenG.step
      rw [hI.look v, if_pos hv]
      exact edgesOf_lookup A rank hA v p
    simp only [EvenG.follow, follow2, hstep]
    cases hs : A.step2 v p with
    | none => rfl
    | some t =>
      simp only [Option.bind_some]
      rcases hI.closed v hv p t hs with h | h
      · exact ih t h
      · cases h

theorem altFrom_eq {B : Type} (a b : B) (m : Nat) :
    altFrom a b m = if Even m then CoxeterSystem.alternatingWord a b m
      else CoxeterSystem.alternatingWord b a m := by
  induction m generalizing a b with
  | zero => simp [altFrom, CoxeterSystem.alternatingWord]
  | succ m ih =>
    rw [altFrom, ih b a]
    by_cases hm : Even m
    · have : ¬ Even (m + 1) := by simpa [Nat.even_add_one] using hm
      rw [if_pos hm, if_neg this, CoxeterSystem.alternatingWord_succ', if_pos hm]
    · have : Even (m + 1) := by simpa [Nat.even_add_one] using hm
      rw [if_neg hm, if_pos this, CoxeterSystem.alternatingWord_succ', if_neg hm]


end GT.CoxAut
