/-
Helper lemmas for `GT.Properties.C07` (never property statements): the invariant of the
breadth-first construction in `generate_automaton`, and the link between the transition
table and the run on nodes it tabulates.
-/
import GT.Model.CoxAut
import Mathlib.Data.List.Basic

namespace GT.CoxAut

variable (succ : Nat → List Bool → List Bool) (rank : Nat)

/-- a row is the correct tabulation of a node's transitions into the node list -/
def RowOK (nodes : List (List Bool)) (node : List Bool) (row : List (Option Nat)) : Prop :=
  row.length = rank ∧ ∀ k < rank,
    (node.getD k false = true → row[k]? = some none) ∧
    (node.getD k false = false → ∃ t, row[k]? = some (some t) ∧ nodes[t]? = some (succ k node))

theorem RowOK.mono {nodes ext : List (List Bool)} {node : List Bool} {row : List (Option Nat)}
    (h : RowOK succ rank nodes node row) : RowOK succ rank (nodes ++ ext) node row := by
  refine ⟨h.1, fun k hk => ⟨(h.2 k hk).1, fun hb => ?_⟩⟩
  obtain ⟨t, h1, h2⟩ := (h.2 k hk).2 hb
  refine ⟨t, h1, ?_⟩
  have : t < nodes.length := by
    rcases Nat.lt_or_ge t nodes.length with h | h
    · exact h
    · rw [List.getElem?_eq_none h] at h2; cases h2
  rw [List.getElem?_append_left this]; exact h2

theorem processNode_spec (node : List Bool) (nodes : List (List Bool)) (r : Nat) :
    (∃ ext, (processNode succ r node nodes).1 = nodes ++ ext) ∧
    RowOK succ r (processNode succ r node nodes).1 node (processNode succ r node nodes).2 := by
  induction r with
  | zero => exact ⟨⟨[], by simp [processNode]⟩, by simp [processNode, RowOK]⟩
  | succ r ih =>
    have hstep : processNode succ (r + 1) node nodes =
        (fun (st : List (List Bool) × List (Option Nat)) k =>
          if node.getD k false then (st.1, st.2 ++ [none])
          else
            let nn := succ k node
            let t := st.1.idxOf nn
            if t < st.1.length then (st.1, st.2 ++ [some t])
            else (st.1 ++ [nn], st.2 ++ [some st.1.length])) (processNode succ r node nodes) r := by
      unfold processNode
      rw [List.range_succ, List.foldl_append]
      rfl
    rw [hstep]
    revert ih
    generalize processNode succ r node nodes = P
    obtain ⟨ns, row⟩ := P
    intro ih
    obtain ⟨⟨ext, he⟩, hlen, hrow⟩ := ih
    simp only at he hlen hrow ⊢
    -- facts used in every branch
    have old : ∀ (ns' : List (List Bool)) (x : Option Nat), (∃ e, ns' = ns ++ e) → ∀ k < r,
        (node.getD k false = true → (row ++ [x])[k]? = some none) ∧
        (node.getD k false = false → ∃ t, (row ++ [x])[k]? = some (some t) ∧ ns'[t]? = some (succ k node)) := by
      intro ns' x ⟨e, hns'⟩ k hk
      have hk' : k < row.length := by rw [hlen]; exact hk
      rw [List.getElem?_append_left hk']
      refine ⟨(hrow k hk).1, fun hb => ?_⟩
      obtain ⟨t, h1, h2⟩ := (hrow k hk).2 hb
      refine ⟨t, h1, ?_⟩
      have : t < ns.length := by
        rcases Nat.lt_or_ge t ns.length with h | h
        · exact h
        · rw [List.getElem?_eq_none h] at h2; cases h2
      rw [hns', List.getElem?_append_left this]; exact h2
    have last : ∀ x : Option Nat, (row ++ [x])[r]? = some x := by
      intro x
      rw [List.getElem?_append_right (by rw [hlen]), hlen]; simp
    by_cases hb : node.getD r false = true
    · simp only [hb, if_true]
      refine ⟨⟨ext, he⟩, by rw [List.length_append, hlen]; rfl, fun k hk => ?_⟩
      rcases Nat.lt_succ_iff_lt_or_eq.1 hk with hk | rfl
      · exact old ns none ⟨[], by simp⟩ k hk
      · exact ⟨fun _ => last none, fun h => by rw [hb] at h; cases h⟩
    · have hb' : node.getD r false = false := by simpa using hb
      simp only [hb', Bool.false_eq_true, if_false]
      by_cases ht : ns.idxOf (succ r node) < ns.length
      · simp only [ht, if_true]
        refine ⟨⟨ext, he⟩, by rw [List.length_append, hlen]; rfl, fun k hk => ?_⟩
        rcases Nat.lt_succ_iff_lt_or_eq.1 hk with hk | rfl
        · exact old ns _ ⟨[], by simp⟩ k hk
        · refine ⟨fun h => (by rw [hb'] at h; cases h), fun _ => ⟨_, last _, ?_⟩⟩
          exact List.getElem?_idxOf (List.idxOf_lt_length_iff.1 ht)
      · simp only [ht, if_false]
        refine ⟨⟨ext ++ [succ r node], by rw [he, List.append_assoc]⟩, by rw [List.length_append, hlen]; rfl, fun k hk => ?_⟩
        rcases Nat.lt_succ_iff_lt_or_eq.1 hk with hk | rfl
        · exact old _ _ ⟨[succ r node], rfl⟩ k hk
        · refine ⟨fun h => (by rw [hb'] at h; cases h), fun _ => ⟨_, last _, ?_⟩⟩
          simp

/-- invariant of the `while todo` loop -/
def Inv (nodes : List (List Bool)) (rows : List (List (Option Nat))) : Prop :=
  rows.length ≤ nodes.length ∧
    ∀ (s : Nat) (node : List Bool) (row : List (Option Nat)),
      nodes[s]? = some node → rows[s]? = some row → RowOK succ rank nodes node row

theorem bfs_spec : ∀ (fuel : Nat) (nodes : List (List Bool)) (rows : List (List (Option Nat)))
    (N : List (List Bool)) (A : List (List (Option Nat))),
    bfs succ rank fuel nodes rows = some (N, A) → Inv succ rank nodes rows →
      Inv succ rank N A ∧ A.length = N.length ∧ ∃ ext, N = nodes ++ ext := by
  intro fuel
  induction fuel with
  | zero =>
    intro nodes rows N A h hI
    unfold bfs at h
    split at h
    · rename_i hn
      cases h
      have : nodes.length ≤ rows.length := by
        rcases Nat.lt_or_ge rows.length nodes.length with h | h
        · rw [List.getElem?_eq_getElem h] at hn; cases hn
        · exact h
      exact ⟨hI, Nat.le_antisymm hI.1 this, [], by simp⟩
    · cases h
  | succ fuel ih =>
    intro nodes rows N A h hI
    unfold bfs at h
    split at h
    · rename_i hn
      cases h
      have : nodes.length ≤ rows.length := by
        rcases Nat.lt_or_ge rows.length nodes.length with h | h
        · rw [List.getElem?_eq_getElem h] at hn; cases hn
        · exact h
      exact ⟨hI, Nat.le_antisymm hI.1 this, [], by simp⟩
    · rename_i node hn
      obtain ⟨⟨ext, he⟩, hrow⟩ := processNode_spec succ node nodes rank
      have hlt : rows.length < nodes.length := by
        rcases Nat.lt_or_ge rows.length nodes.length with h | h
        · exact h
        · rw [List.getElem?_eq_none h] at hn; cases hn
      have hI' : Inv succ rank (processNode succ rank node nodes).1
          (rows ++ [(processNode succ rank node nodes).2]) := by
        refine ⟨by rw [he]; simp; omega, ?_⟩
        intro s nd rw' h1 h2
        rcases Nat.lt_or_ge s rows.length with hs | hs
        · rw [List.getElem?_append_left hs] at h2
          rw [he, List.getElem?_append_left (by omega)] at h1
          rw [he]
          exact (hI.2 s nd rw' h1 h2).mono
        · have hs' : s = rows.length := by
            rcases Nat.lt_or_ge rows.length s with h | h
            · rw [List.getElem?_eq_none (by simp; omega)] at h2; cases h2
            · omega
          subst hs'
          rw [List.getElem?_append_right (Nat.le_refl _)] at h2
          simp at h2
          rw [he, List.getElem?_append_left hlt, hn] at h1
          cases h1
          rw [← h2]
          exact hrow
      obtain ⟨a, b, e', he'⟩ := ih _ _ N A h hI'
      exact ⟨a, b, ext ++ e', by rw [he', he, List.append_assoc]⟩

/-- what `generateAutomaton` guarantees about its result -/
structure Final (start : List Bool) (N : List (List Bool)) (A : Table) : Prop where
  len : A.length = N.length
  start : N[0]? = some start
  rows : ∀ (s : Nat) (node : List Bool) (row : List (Option Nat)),
    N[s]? = some node → A[s]? = some row → RowOK succ rank N node row

theorem final_of_bfs {start : List Bool} {fuel : Nat} {N : List (List Bool)} {A : Table}
    (h : bfs succ rank fuel [start] [] = some (N, A)) : Final succ rank start N A := by
  obtain ⟨hI, hl, ext, he⟩ := bfs_spec succ rank fuel [start] [] N A h
    ⟨by simp, fun s node row _ h2 => by simp at h2⟩
  exact ⟨hl, by rw [he]; simp, hI.2⟩

variable {succ rank}

theorem Final.step_some {start : List Bool} {N : List (List Bool)} {A : Table}
    (hF : Final succ rank start N A) {s k t : Nat} {node : List Bool} (hn : N[s]? = some node)
    (h : A.step s k = some t) :
    k < rank ∧ node.getD k false = false ∧ N[t]? = some (succ k node) := by
  unfold Table.step at h
  have hs : s < A.length := by
    rw [hF.len]
    rcases Nat.lt_or_ge s N.length with h' | h'
    · exact h'
    · rw [List.getElem?_eq_none h'] at hn; cases hn
  rw [List.getElem?_eq_getElem hs] at h
  simp only [Option.bind_some] at h
  obtain ⟨hlen, hrow⟩ := hF.rows s node A[s] hn (List.getElem?_eq_getElem hs)
  have hk : k < rank := by
    rcases Nat.lt_or_ge k rank with h' | h'
    · exact h'
    · rw [List.getElem?_eq_none (by rw [hlen]; exact h')] at h; cases h
  refine ⟨hk, ?_⟩
  cases hb : node.getD k false with
  | true =>
    rw [(hrow k hk).1 hb] at h; cases h
  | false =>
    obtain ⟨t', h1, h2⟩ := (hrow k hk).2 hb
    rw [h1] at h
    simp at h
    subst h
    exact ⟨rfl, h2⟩

theorem Final.step_of_allowed {start : List Bool} {N : List (List Bool)} {A : Table}
    (hF : Final succ rank start N A) {s k : Nat} {node : List Bool} (hn : N[s]? = some node)
    (hk : k < rank) (hb : node.getD k false = false) :
    ∃ t, A.step s k = some t ∧ N[t]? = some (succ k node) := by
  have hs : s < A.length := by
    rw [hF.len]
    rcases Nat.lt_or_ge s N.length with h' | h'
    · exact h'
    · rw [List.getElem?_eq_none h'] at hn; cases hn
  obtain ⟨_, hrow⟩ := hF.rows s node A[s] hn (List.getElem?_eq_getElem hs)
  obtain ⟨t, h1, h2⟩ := (hrow k hk).2 hb
  refine ⟨t, ?_, h2⟩
  unfold Table.step
  rw [List.getElem?_eq_getElem hs]
  simp [h1]

/-- the table tabulates the run on nodes: soundness and completeness -/
theorem Final.follow_run {start : List Bool} {N : List (List Bool)} {A : Table}
    (hF : Final succ rank start N A) : ∀ (w : List Nat) (s : Nat) (node : List Bool),
    N[s]? = some node →
      (∀ t, A.follow s w = some t → ∃ node', N[t]? = some node' ∧ run succ rank node w = some node') ∧
      (∀ node', run succ rank node w = some node' → ∃ t, A.follow s w = some t ∧ N[t]? = some node') := by
  intro w
  induction w with
  | nil =>
    intro s node hn
    refine ⟨fun t h => ?_, fun node' h => ?_⟩
    · simp only [Table.follow, Option.some.injEq] at h; subst h; exact ⟨node, hn, rfl⟩
    · simp only [run, Option.some.injEq] at h; subst h; exact ⟨s, rfl, hn⟩
  | cons k w ih =>
    intro s node hn
    refine ⟨fun t h => ?_, fun node' h => ?_⟩
    · simp only [Table.follow] at h
      cases hst : A.step s k with
      | none => rw [hst] at h; cases h
      | some t' =>
        rw [hst] at h
        simp only [Option.bind_some] at h
        obtain ⟨hk, hb, hn'⟩ := hF.step_some hn hst
        obtain ⟨node', h1, h2⟩ := (ih t' _ hn').1 t h
        exact ⟨node', h1, by simp only [run, hk, hb, and_self, if_true]; exact h2⟩
    · simp only [run] at h
      split at h
      · rename_i hc
        obtain ⟨t', hst, hn'⟩ := hF.step_of_allowed hn hc.1 hc.2
        obtain ⟨t, h1, h2⟩ := (ih t' _ hn').2 node' h
        exact ⟨t, by simp only [Table.follow, hst, Option.bind_some]; exact h1, h2⟩
      · cases h

theorem run_append (succ : Nat → List Bool → List Bool) (rank : Nat) :
    ∀ (u v : List Nat) (node : List Bool),
      run succ rank node (u ++ v) = (run succ rank node u).bind fun x => run succ rank x v := by
  intro u
  induction u with
  | nil => intro v node; simp [run]
  | cons k u ih =>
    intro v node
    simp only [List.cons_append, run]
    split
    · exact ih v _
    · rfl

theorem succNode_getD (nb : Nat → Nat → Option Nat) (lex : Bool) (nroots k : Nat) (node : List Bool)
    (p : Nat) : (succNode nb lex nroots k node).getD p false =
      if p < nroots then applyGenToNode nb lex k node p else false := by
  unfold succNode
  rw [List.getD_eq_getElem?_getD, List.getElem?_map]
  by_cases hp : p < nroots
  · simp [hp]
  · simp [hp]

theorem applyGenToNode_self (nb : Nat → Nat → Option Nat) (lex : Bool) (k : Nat) (node : List Bool) :
    applyGenToNode nb lex k node k = true := by
  unfold applyGenToNode
  split
  · rfl
  · simp

/-- the lex-pruned node has every bit of the unpruned node -/
def NodeLe (x y : List Bool) : Prop := ∀ p, y.getD p false = true → x.getD p false = true

theorem succNode_mono (nb : Nat → Nat → Option Nat) (nroots k : Nat) {x y : List Bool}
    (h : NodeLe x y) : NodeLe (succNode nb true nroots k x) (succNode nb false nroots k y) := by
  intro p hp
  rw [succNode_getD] at hp ⊢
  by_cases hpn : p < nroots
  · simp only [hpn, if_true] at hp ⊢
    unfold applyGenToNode at hp ⊢
    simp only [Bool.false_and, Bool.false_eq_true, if_false, Bool.true_and] at hp ⊢
    split
    · rfl
    · split
      · rfl
      · rename_i hne
        simp only [hne] at hp
        cases hnb : nb p k with
        | none => rw [hnb] at hp; cases hp
        | some sw => rw [hnb] at hp; exact h sw hp
  · simp [hpn] at hp

theorem run_mono (nb : Nat → Nat → Option Nat) (nroots rank : Nat) :
    ∀ (w : List Nat) (x y x' : List Bool), NodeLe x y →
      run (succNode nb true nroots) rank x w = some x' →
      ∃ y', run (succNode nb false nroots) rank y w = some y' ∧ NodeLe x' y' := by
  intro w
  induction w with
  | nil => intro x y x' h hr; simp only [run, Option.some.injEq] at hr; subst hr; exact ⟨y, rfl, h⟩
  | cons k w ih =>
    intro x y x' h hr
    simp only [run] at hr ⊢
    split at hr
    · rename_i hc
      have hy : y.getD k false = false := by
        cases hb : y.getD k false with
        | false => rfl
        | true => have := h k hb; rw [hc.2] at this; cases this
      simp only [hc.1, hy, and_self, if_true]
      exact ih _ _ x' (succNode_mono nb nroots k h) hr
    · cases hr

end GT.CoxAut
