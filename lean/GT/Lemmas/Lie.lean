/- helper lemmas for `GT.Model.Lie` (no property statements here) -/
import GT.Model.Lie
import GT.Lemmas.Charts
import Mathlib.LinearAlgebra.Matrix.Determinant.Basic
import Mathlib.Algebra.Order.Ring.Abs
import Mathlib.Tactic.FinCases
import Mathlib.Tactic.FieldSimp
import Mathlib.Tactic.Ring
import Mathlib.Tactic.Linarith
import Mathlib.Tactic.NormNum
import Mathlib.Tactic.Positivity

open Matrix Finset BigOperators

set_option linter.unusedSectionVars false

namespace GT.Lie

variable {R : Type*} [CommRing R]

/-! ### `sl2Irrep` commutes with ring homomorphisms; explicit `n = 3` -/

theorem sl2Irrep_map {S : Type*} [CommRing S] (φ : R →+* S) (n : ℕ) (A : Matrix (Fin 2) (Fin 2) R) :
    (sl2Irrep n A).map φ = sl2Irrep n (A.map φ) := by
  ext j k
  simp [sl2Irrep, sl2IrrepEntry, map_sum, map_mul, map_pow, map_natCast]

theorem sl2Irrep_three (A : Matrix (Fin 2) (Fin 2) R) :
    sl2Irrep 3 A = !![A 1 1 ^ 2, A 1 0 * A 1 1, A 1 0 ^ 2;
                      2 * A 0 1 * A 1 1, A 0 0 * A 1 1 + A 0 1 * A 1 0, 2 * A 0 0 * A 1 0;
                      A 0 1 ^ 2, A 0 0 * A 0 1, A 0 0 ^ 2] := by
  ext j k
  fin_cases j <;> fin_cases k <;>
    simp [sl2Irrep, sl2IrrepEntry, Finset.sum_Ico_eq_sum_range, Finset.sum_range_succ, Nat.choose] <;> ring

/-! ### `linearMatrixAction` is functorial on linear maps -/

section lma
variable {ι : Type*} [DecidableEq ι] [Fintype ι]

theorem linearMatrixAction_comp (f g : Matrix ι ι R →ₗ[R] Matrix ι ι R) :
    linearMatrixAction (fun M => f (g M)) = linearMatrixAction f * linearMatrixAction g := by
  ext ⟨k, l⟩ ⟨i, j⟩
  simp only [linearMatrixAction, Matrix.of_apply, Matrix.mul_apply, Fintype.sum_prod_type]
  have hg := Matrix.matrix_eq_sum_single (g (Matrix.single i j 1))
  conv_lhs => rw [hg]
  simp only [map_sum, Matrix.sum_apply]
  refine Finset.sum_congr rfl fun p _ => Finset.sum_congr rfl fun q _ => ?_
  have : Matrix.single p q (g (Matrix.single i j 1) p q)
      = (g (Matrix.single i j 1) p q) • Matrix.single p q (1 : R) := by
    rw [Matrix.smul_single, smul_eq_mul, mul_one]
  rw [this, map_smul, Matrix.smul_apply, smul_eq_mul, mul_comm]

theorem linearMatrixAction_id :
    linearMatrixAction (fun M : Matrix ι ι R => M) = 1 := by
  ext ⟨k, l⟩ ⟨i, j⟩
  simp only [linearMatrixAction, Matrix.of_apply, Matrix.single_apply, Matrix.one_apply, Prod.mk.injEq]
  exact if_congr ⟨fun h => ⟨h.1.symm, h.2.symm⟩, fun h => ⟨h.1.symm, h.2.symm⟩⟩ rfl rfl

/-- `M ↦ A M Ai` as a linear map -/
def conjLin (A Ai : Matrix ι ι R) : Matrix ι ι R →ₗ[R] Matrix ι ι R where
  toFun M := A * M * Ai
  map_add' M N := by rw [Matrix.mul_add, Matrix.add_mul]
  map_smul' c M := by simp [Matrix.mul_smul, Matrix.smul_mul]

@[simp] theorem conjLin_apply (A Ai M : Matrix ι ι R) : conjLin A Ai M = A * M * Ai := rfl

end lma

/-! ### `sl(n+1)`: the basis decomposition of a traceless matrix -/

section sln
variable {n : ℕ}

theorem slnBasis_apply (p : Fin (n + 1) × Fin (n + 1)) (a b : Fin (n + 1)) :
    slnBasis (R := R) p a b =
      (if p = (a, b) then 1 else 0) -
        (if p.1 = p.2 ∧ a = Fin.last n ∧ b = Fin.last n then 1 else 0) := by
  obtain ⟨i, j⟩ := p
  unfold slnBasis
  by_cases hij : i = j
  · subst hij
    simp only [if_true, Matrix.sub_apply, Matrix.single_apply, Prod.mk.injEq, true_and]
    congr 1
    exact if_congr ⟨fun h => ⟨h.1.symm, h.2.symm⟩, fun h => ⟨h.1.symm, h.2.symm⟩⟩ rfl rfl
  · simp only [hij, if_false, Matrix.sub_apply, Matrix.zero_apply, sub_zero, Matrix.single_apply,
      Prod.mk.injEq, false_and]

theorem slnBasis_trace (p : Fin (n + 1) × Fin (n + 1)) : Matrix.trace (slnBasis (R := R) p) = 0 := by
  obtain ⟨i, j⟩ := p
  unfold slnBasis
  by_cases hij : i = j
  · subst hij
    simp [Matrix.trace_sub, Matrix.trace_single_eq_same]
  · simp [hij, Matrix.trace_single_eq_of_ne _ _ _ hij]

/-- sums over the index type of the `sl` basis: all pairs minus the last diagonal one -/
theorem sum_slIdx {M : Type*} [AddCommGroup M] (g : Fin (n + 1) × Fin (n + 1) → M) :
    ∑ p : SlIdx n, g p.1 = (∑ p, g p) - g (Fin.last n, Fin.last n) := by
  rw [← Finset.sum_erase_eq_sub (Finset.mem_univ _)]
  exact (Finset.sum_subtype (Finset.univ.erase (Fin.last n, Fin.last n)) (by simp) g).symm

/-- a traceless matrix is the combination of the `sl` basis matrices with its own entries
(other than the last diagonal one) as coefficients -/
theorem sln_decomp (M : Matrix (Fin (n + 1)) (Fin (n + 1)) R) (h : Matrix.trace M = 0) :
    M = ∑ p : SlIdx n, slnCoords M p • slnBasis p.1 := by
  ext a b
  rw [Matrix.sum_apply]
  simp only [slnCoords, Matrix.smul_apply, smul_eq_mul]
  rw [sum_slIdx (fun p => M p.1 p.2 * slnBasis (R := R) p a b)]
  simp only [slnBasis_apply, mul_sub, Finset.sum_sub_distrib, mul_ite, mul_one, mul_zero]
  rw [Finset.sum_ite_eq' Finset.univ (a, b) (fun p => M p.1 p.2)]
  simp only [Finset.mem_univ, if_true]
  by_cases hab : a = Fin.last n ∧ b = Fin.last n
  · obtain ⟨rfl, rfl⟩ := hab
    simp only [and_self, and_true, if_true]
    have ht : ∑ p : Fin (n + 1) × Fin (n + 1), (if p.1 = p.2 then M p.1 p.2 else 0) = 0 := by
      rw [Fintype.sum_prod_type]
      simp only [Finset.sum_ite_eq, Finset.mem_univ, if_true]
      exact h
    rw [ht]; ring_nf
  · have : ∀ p : Fin (n + 1) × Fin (n + 1), (p.1 = p.2 ∧ a = Fin.last n ∧ b = Fin.last n) ↔ False :=
      fun p => ⟨fun h => hab h.2, False.elim⟩
    simp only [this, if_false, Finset.sum_const_zero, sub_zero]
    have h2 : ¬ ((Fin.last n, Fin.last n) = (a, b)) := by
      intro e; apply hab; cases e; exact ⟨rfl, rfl⟩
    simp [h2]
    exact fun h1 h2 => absurd ⟨h1, h2⟩ hab

theorem slnLinearAction_comp (f g : Matrix (Fin (n + 1)) (Fin (n + 1)) R →ₗ[R] Matrix (Fin (n + 1)) (Fin (n + 1)) R)
    (hg : ∀ p, Matrix.trace (g (slnBasis p)) = 0) :
    slnLinearAction (fun M => f (g M)) = slnLinearAction f * slnLinearAction g := by
  ext q p
  simp only [slnLinearAction, Matrix.of_apply, Matrix.mul_apply]
  conv_lhs => rw [sln_decomp (g (slnBasis p.1)) (hg p.1)]
  simp only [map_sum, map_smul, Matrix.sum_apply, Matrix.smul_apply, smul_eq_mul, slnCoords]
  exact Finset.sum_congr rfl fun s _ => mul_comm _ _

theorem slnLinearAction_id : slnLinearAction (fun M : Matrix (Fin (n + 1)) (Fin (n + 1)) R => M) = 1 := by
  ext q p
  simp only [slnLinearAction, Matrix.of_apply, slnBasis_apply, Matrix.one_apply]
  have hq : ¬ (q.1.1 = Fin.last n ∧ q.1.2 = Fin.last n) := by
    intro h; apply q.2; exact Prod.ext h.1 h.2
  have : (p.1.1 = p.1.2 ∧ q.1.1 = Fin.last n ∧ q.1.2 = Fin.last n) ↔ False :=
    ⟨fun h => hq h.2, False.elim⟩
  simp only [this, if_false, sub_zero]
  by_cases hpq : q = p
  · subst hpq; simp
  · have : ¬ (p.1 = (q.1.1, q.1.2)) := fun e => hpq (Subtype.ext e.symm)
    simp [hpq, this]

/-- the trace form in `sl` coordinates -/
theorem trace_mul_coords (X Y : Matrix (Fin (n + 1)) (Fin (n + 1)) R)
    (hX : Matrix.trace X = 0) (hY : Matrix.trace Y = 0) :
    Matrix.trace (X * Y) = slnCoords X ⬝ᵥ (slnKilling *ᵥ slnCoords Y) := by
  conv_lhs => rw [sln_decomp X hX, sln_decomp Y hY]
  simp only [dotProduct, Matrix.mulVec, slnKilling, Matrix.of_apply, Finset.sum_mul, Finset.mul_sum,
    Matrix.trace_sum, Matrix.smul_mul, Matrix.mul_smul, Matrix.trace_smul, smul_eq_mul]
  rw [Finset.sum_comm]
  refine Finset.sum_congr rfl fun s _ => Finset.sum_congr rfl fun t _ => ?_
  ring

end sln

/-! ### literal inverses -/

section field
variable {K : Type*} [Field K]

theorem perm210_mul_self : (perm210 : Matrix (Fin 3) (Fin 3) K) * perm210 = 1 := by
  ext i j; fin_cases i <;> fin_cases j <;> simp [perm210, Matrix.mul_apply, Fin.sum_univ_succ]

theorem killingConj_mul_inv (h2 : (2 : K) ≠ 0) :
    (killingConj : Matrix (Fin 3) (Fin 3) K) * killingConjInv = 1 := by
  ext i j; fin_cases i <;> fin_cases j <;>
    simp [killingConj, killingConjInv, Matrix.mul_apply, Fin.sum_univ_succ] <;> field_simp <;> ring

theorem killingConjInv_mul (h2 : (2 : K) ≠ 0) :
    (killingConjInv : Matrix (Fin 3) (Fin 3) K) * killingConj = 1 := by
  ext i j; fin_cases i <;> fin_cases j <;>
    simp [killingConj, killingConjInv, Matrix.mul_apply, Fin.sum_univ_succ] <;> field_simp <;> ring

theorem so31BasisInv_mul (h2 : (2 : K) ≠ 0) :
    (so31BasisInv : Matrix (Fin 4) (Fin 4) K) * so31Basis = 1 := by
  ext i j; fin_cases i <;> fin_cases j <;>
    simp [so31Basis, so31BasisInv, Matrix.mul_apply, Fin.sum_univ_succ] <;> field_simp <;> ring

theorem so31Basis_mul_inv (h2 : (2 : K) ≠ 0) :
    (so31Basis : Matrix (Fin 4) (Fin 4) K) * so31BasisInv = 1 := by
  ext i j; fin_cases i <;> fin_cases j <;>
    simp [so31Basis, so31BasisInv, Matrix.mul_apply, Fin.sum_univ_succ] <;> field_simp <;> ring

/-- closed form of `sl2_to_so21` -/
theorem sl2ToSo21_explicit (h2 : (2 : K) ≠ 0) (A : Matrix (Fin 2) (Fin 2) K) :
    sl2ToSo21 A =
      !![(A 0 0 ^ 2 + A 0 1 ^ 2 + A 1 0 ^ 2 + A 1 1 ^ 2) / 2,
         (A 0 1 ^ 2 + A 1 1 ^ 2 - A 0 0 ^ 2 - A 1 0 ^ 2) / 2, A 0 0 * A 0 1 + A 1 0 * A 1 1;
         (A 1 0 ^ 2 + A 1 1 ^ 2 - A 0 0 ^ 2 - A 0 1 ^ 2) / 2,
         (A 0 0 ^ 2 + A 1 1 ^ 2 - A 0 1 ^ 2 - A 1 0 ^ 2) / 2, A 1 0 * A 1 1 - A 0 0 * A 0 1;
         A 0 0 * A 1 0 + A 0 1 * A 1 1, A 0 1 * A 1 1 - A 0 0 * A 1 0,
         A 0 0 * A 1 1 + A 0 1 * A 1 0] := by
  ext i j
  fin_cases i <;> fin_cases j <;>
    simp [sl2ToSo21, sl2Irrep_three, perm210, killingConj, killingConjInv, Matrix.mul_apply,
      Fin.sum_univ_succ] <;> field_simp <;> ring

/-- `A_d` of `o_to_pgl` applied to `sl2_to_so21 A` is `sl2_irrep(A, 3)` -/
theorem oToPglAd_sl2ToSo21 (h2 : (2 : K) ≠ 0) (A : Matrix (Fin 2) (Fin 2) K) :
    oToPglAd (sl2ToSo21 A) = sl2Irrep 3 A := by
  unfold oToPglAd sl2ToSo21
  have e : killingConjInv * perm210 * (perm210 * killingConj * sl2Irrep 3 A * killingConjInv * perm210)
      * (perm210 * killingConj)
      = killingConjInv * (perm210 * perm210) * killingConj * sl2Irrep 3 A
        * (killingConjInv * ((perm210 * perm210) * killingConj)) := by
    simp only [Matrix.mul_assoc]
  rw [e, perm210_mul_self, Matrix.mul_one, Matrix.one_mul, killingConjInv_mul h2, Matrix.one_mul,
    Matrix.mul_one]

end field

/-! ### sign bookkeeping of the repaired `o_to_pgl` extraction -/

section order
variable {K : Type*} [Field K] [LinearOrder K] [IsStrictOrderedRing K] {r : K → K}

theorem isSqrt_abs_sq (hr : IsSqrt r) (x : K) : r |x ^ 2| = |x| := by
  rw [abs_of_nonneg (sq_nonneg x), ← sq_abs x]
  exact hr.sq (abs_nonneg x)

theorem isSqrt_abs_mul_self (hr : IsSqrt r) (x : K) : r |x * x| = |x| := by
  rw [← sq]; exact isSqrt_abs_sq hr x

/-- a pair `(x, y)` read off `x², xy, y²` as `(√|x²|, ±√|y²|)` with the sign of `xy` is the pair
itself or its negative -/
theorem pair_sign (hr : IsSqrt r) (x y : K) :
    let x' := r |x ^ 2|
    let y' := if x * y < 0 then -r |y ^ 2| else r |y ^ 2|
    (x' = x ∧ y' = y) ∨ (x' = -x ∧ y' = -y) := by
  intro x' y'
  have hx : x' = |x| := isSqrt_abs_sq hr x
  have hy : r |y ^ 2| = |y| := isSqrt_abs_sq hr y
  simp only [x', y', hx, hy]
  rcases lt_trichotomy x 0 with hx0 | hx0 | hx0
  · right
    refine ⟨abs_of_neg hx0, ?_⟩
    rcases lt_trichotomy y 0 with hy0 | hy0 | hy0
    · rw [if_neg (not_lt.2 (mul_pos_of_neg_of_neg hx0 hy0).le), abs_of_neg hy0]
    · subst hy0; simp
    · rw [if_pos (mul_neg_of_neg_of_pos hx0 hy0), abs_of_pos hy0]
  · subst hx0
    simp only [zero_mul, lt_irrefl, if_false, abs_zero, neg_zero, true_and]
    rcases le_total 0 y with hy0 | hy0
    · left; exact abs_of_nonneg hy0
    · right; exact abs_of_nonpos hy0
  · left
    refine ⟨abs_of_pos hx0, ?_⟩
    rcases lt_trichotomy y 0 with hy0 | hy0 | hy0
    · rw [if_pos (mul_neg_of_pos_of_neg hx0 hy0), abs_of_neg hy0, neg_neg]
    · subst hy0; simp
    · rw [if_neg (not_lt.2 (mul_pos hx0 hy0).le), abs_of_pos hy0]

/-- the extraction of the repaired `o_to_pgl` recovers `±[[a,b],[c,d]]` from the Sym² matrix
as soon as its middle row is non-zero (always the case when `ad - bc ≠ 0`) -/
theorem extract_spec (hr : IsSqrt r) (M : Matrix (Fin 3) (Fin 3) K) (a b c d : K)
    (h22 : M 2 2 = a ^ 2) (h20 : M 2 0 = b ^ 2) (h02 : M 0 2 = c ^ 2) (h00 : M 0 0 = d ^ 2)
    (h21 : M 2 1 = a * b) (h01 : M 0 1 = c * d) (h10 : M 1 0 = 2 * b * d)
    (h11 : M 1 1 = a * d + b * c) (h12 : M 1 2 = 2 * a * c)
    (hN : 0 < (2 * b * d) ^ 2 + (a * d + b * c) ^ 2 + (2 * a * c) ^ 2) :
    extract r M = !![a, b; c, d] ∨ extract r M = !![-a, -b; -c, -d] := by
  unfold extract
  simp only [h22, h20, h02, h00, h21, h01, h10, h11, h12]
  rcases pair_sign hr a b with ⟨ha, hb⟩ | ⟨ha, hb⟩ <;>
  rcases pair_sign hr c d with ⟨hc, hd⟩ | ⟨hc, hd⟩ <;>
  rw [ha, hb, hc, hd]
  · left
    rw [if_neg]
    nlinarith [hN]
  · left
    rw [if_pos]
    · simp
    · nlinarith [hN]
  · right
    rw [if_pos]
    nlinarith [hN]
  · right
    rw [if_neg]
    nlinarith [hN]

theorem middle_row_pos (a b c d : K) (h : a * d - b * c ≠ 0) :
    0 < (2 * b * d) ^ 2 + (a * d + b * c) ^ 2 + (2 * a * c) ^ 2 := by
  have h0 : 0 ≤ (2 * b * d) ^ 2 + (a * d + b * c) ^ 2 + (2 * a * c) ^ 2 := by positivity
  rcases h0.lt_or_eq with h1 | h1
  · exact h1
  · exfalso
    have e1 : (2 * b * d) ^ 2 = 0 := by nlinarith [sq_nonneg (2 * b * d), sq_nonneg (a * d + b * c), sq_nonneg (2 * a * c)]
    have e2 : (a * d + b * c) ^ 2 = 0 := by nlinarith [sq_nonneg (2 * b * d), sq_nonneg (a * d + b * c), sq_nonneg (2 * a * c)]
    have e3 : (2 * a * c) ^ 2 = 0 := by nlinarith [sq_nonneg (2 * b * d), sq_nonneg (a * d + b * c), sq_nonneg (2 * a * c)]
    have f1 : b * d = 0 := by
      have := pow_eq_zero_iff (n := 2) (by norm_num) |>.1 e1
      have h2 : (2 : K) ≠ 0 := two_ne_zero
      have : 2 * (b * d) = 0 := by rw [← this]; ring
      exact (mul_eq_zero.1 this).resolve_left h2
    have f2 : a * d + b * c = 0 := pow_eq_zero_iff (n := 2) (by norm_num) |>.1 e2
    have f3 : a * c = 0 := by
      have := pow_eq_zero_iff (n := 2) (by norm_num) |>.1 e3
      have h2 : (2 : K) ≠ 0 := two_ne_zero
      have : 2 * (a * c) = 0 := by rw [← this]; ring
      exact (mul_eq_zero.1 this).resolve_left h2
    have g : (a * d - b * c) ^ 2 = 0 := by
      have : (a * d - b * c) ^ 2 = (a * d + b * c) ^ 2 - 4 * (a * c) * (b * d) := by ring
      rw [this, f2, f1]; ring
    exact h (pow_eq_zero_iff (n := 2) (by norm_num) |>.1 g)


theorem oToPglAd_neg {K : Type*} [Field K] (S : Matrix (Fin 3) (Fin 3) K) : oToPglAd (-S) = -oToPglAd S := by
  unfold oToPglAd
  simp only [Matrix.mul_neg, Matrix.neg_mul]

/-- the sign normalisation leaves `sl2_irrep(A,3)` alone and undoes a global minus sign -/
theorem normSign_irrep (A : Matrix (Fin 2) (Fin 2) K) :
    normSign (sl2Irrep 3 A) = sl2Irrep 3 A := by
  unfold normSign
  rw [if_neg]
  rw [sl2Irrep_three]
  simp only [Matrix.of_apply, Matrix.cons_val', Matrix.cons_val_zero, Matrix.cons_val_two,
    Matrix.head_cons, Matrix.tail_cons, Matrix.empty_val', Matrix.cons_val_fin_one]
  have := sq_nonneg (A 0 0); have := sq_nonneg (A 0 1); have := sq_nonneg (A 1 0); have := sq_nonneg (A 1 1)
  intro h
  simp at h
  linarith

theorem normSign_neg_irrep (A : Matrix (Fin 2) (Fin 2) K) (h : A.det ≠ 0) :
    normSign (-sl2Irrep 3 A) = sl2Irrep 3 A := by
  unfold normSign
  rw [if_pos, neg_neg]
  rw [sl2Irrep_three]
  simp only [Matrix.neg_apply, Matrix.of_apply, Matrix.cons_val', Matrix.cons_val_zero, Matrix.cons_val_two,
    Matrix.head_cons, Matrix.tail_cons, Matrix.empty_val', Matrix.cons_val_fin_one]
  have h0 := sq_nonneg (A 0 0); have h1 := sq_nonneg (A 0 1); have h2 := sq_nonneg (A 1 0); have h3 := sq_nonneg (A 1 1)
  by_contra hc
  simp at hc
  have e0 : A 0 0 ^ 2 = 0 := by linarith
  have e1 : A 0 1 ^ 2 = 0 := by linarith
  apply h
  rw [Matrix.det_fin_two, pow_eq_zero_iff (two_ne_zero) |>.1 e0, pow_eq_zero_iff (two_ne_zero) |>.1 e1]
  ring

end order

end GT.Lie
