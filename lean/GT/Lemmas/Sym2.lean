/-
The symmetric square `A ↦ P (A ⊗ A) I` (`symmetric_projection`, `symmetric_inclusion` of
`geometry_tools/representation.py`) is a monoid homomorphism of matrices: arithmetic of
`sym_index` (a bijection from unordered pairs below `n` onto `[0, n(n+1)/2)`), then
`P I = 1`, `I P = ½ (1 + swap)` and `swap` commutes with every `A ⊗ A`.
-/
import Mathlib.Algebra.BigOperators.Fin
import Mathlib.LinearAlgebra.Matrix.Kronecker
import Mathlib.Tactic.Ring
import Mathlib.Tactic.LinearCombination
import GT.Lemmas.RepDerived

namespace GT.RepW
open Matrix

namespace Rep

/-! ### arithmetic of `sym_index` -/

/-- `m (m - 1) / 2` -/
def tri (m : ℕ) : ℕ := m * (m - 1) / 2

theorem tri_succ (m : ℕ) : tri (m + 1) = tri m + m := Nat.triangle_succ m

theorem tri_zero : tri 0 = 0 := rfl

theorem tri_one : tri 1 = 0 := rfl

theorem tri_mono {a b : ℕ} (h : a ≤ b) : tri a ≤ tri b := by
  induction h with
  | refl => exact le_rfl
  | step _ ih => rw [tri_succ]; omega

theorem symDim_eq_tri (n : ℕ) : symDim n = tri (n + 1) := by
  simp [symDim, tri, Nat.mul_comm]

theorem symIndex_comm (i j n : ℕ) : symIndex i j n = symIndex j i n := by
  simp only [symIndex, min_comm, max_comm]

theorem symIndex_of_le {i j : ℕ} (n : ℕ) (h : i ≤ j) :
    symIndex i j n = tri (n - i) + (j - i) := by
  simp only [symIndex, min_eq_left h, max_eq_right h, tri]

/-- the blocks `[tri a, tri (a + 1))` are disjoint -/
theorem tri_block_unique {a b x y : ℕ} (hx : x < a) (hy : y < b) (h : tri a + x = tri b + y) :
    a = b ∧ x = y := by
  rcases lt_trichotomy a b with hab | hab | hab
  · have h1 := tri_mono (show a + 1 ≤ b from hab)
    rw [tri_succ] at h1
    omega
  · subst hab
    omega
  · have h1 := tri_mono (show b + 1 ≤ a from hab)
    rw [tri_succ] at h1
    omega

theorem symIndex_lt_of_le {i j n : ℕ} (hij : i ≤ j) (hj : j < n) : symIndex i j n < symDim n := by
  rw [symIndex_of_le n hij, symDim_eq_tri]
  have h1 := tri_mono (show n - i + 1 ≤ n + 1 by omega)
  rw [tri_succ] at h1
  omega

theorem symIndex_lt {i j n : ℕ} (hi : i < n) (hj : j < n) : symIndex i j n < symDim n := by
  rcases le_total i j with h | h
  · exact symIndex_lt_of_le h hj
  · rw [symIndex_comm]
    exact symIndex_lt_of_le h hi

theorem symIndex_inj_of_le {i j u v n : ℕ} (hij : i ≤ j) (huv : u ≤ v) (hj : j < n) (hv : v < n)
    (h : symIndex i j n = symIndex u v n) : i = u ∧ j = v := by
  rw [symIndex_of_le n hij, symIndex_of_le n huv] at h
  have := tri_block_unique (by omega) (by omega) h
  omega

/-- `sym_index` is injective on unordered pairs -/
theorem symIndex_inj {i j u v n : ℕ} (hi : i < n) (hj : j < n) (hu : u < n) (hv : v < n)
    (h : symIndex i j n = symIndex u v n) : (i = u ∧ j = v) ∨ (i = v ∧ j = u) := by
  rcases le_total i j with hij | hij <;> rcases le_total u v with huv | huv
  · exact Or.inl (symIndex_inj_of_le hij huv hj hv h)
  · rw [symIndex_comm u v] at h
    exact Or.inr (symIndex_inj_of_le hij huv hj hu h)
  · rw [symIndex_comm i j] at h
    have := symIndex_inj_of_le hij huv hi hv h
    exact Or.inr ⟨this.2, this.1⟩
  · rw [symIndex_comm i j, symIndex_comm u v] at h
    have := symIndex_inj_of_le hij huv hi hu h
    exact Or.inl ⟨this.2, this.1⟩

theorem tri_block_exists (n s : ℕ) (h : s < tri (n + 1)) :
    ∃ m, 1 ≤ m ∧ m ≤ n ∧ tri m ≤ s ∧ s < tri m + m := by
  induction n with
  | zero => simp [tri_one] at h
  | succ k ih =>
    rw [tri_succ] at h
    by_cases hs : s < tri (k + 1)
    · obtain ⟨m, h1, h2, h3, h4⟩ := ih hs
      exact ⟨m, h1, by omega, h3, h4⟩
    · exact ⟨k + 1, by omega, le_rfl, by omega, h⟩

/-- `sym_index` is onto `[0, n (n + 1) / 2)` -/
theorem symIndex_surj {n s : ℕ} (h : s < symDim n) :
    ∃ i j, i ≤ j ∧ j < n ∧ symIndex i j n = s := by
  rw [symDim_eq_tri] at h
  obtain ⟨m, h1, h2, h3, h4⟩ := tri_block_exists n s h
  refine ⟨n - m, n - m + (s - tri m), by omega, by omega, ?_⟩
  rw [symIndex_of_le n (by omega)]
  have : n - (n - m) = m := by omega
  rw [this]
  omega

/-! ### the matrices on `Fin n × Fin n` -/

variable {n : ℕ} {R : Type} [CommRing R]

/-- `symmetric_projection` with columns indexed by pairs -/
def symP (R : Type) [CommRing R] (n : ℕ) : Matrix (Fin (symDim n)) (Fin n × Fin n) R :=
  Matrix.of fun s a => if symIndex a.1.1 a.2.1 n = s.1 then 1 else 0

/-- `symmetric_inclusion` with rows indexed by pairs -/
def symI (half : R) (n : ℕ) : Matrix (Fin n × Fin n) (Fin (symDim n)) R :=
  Matrix.of fun a s =>
    if symIndex a.1.1 a.2.1 n = s.1 then half + (if a.1.1 = a.2.1 then 1 else 0) * half else 0

/-- the permutation matrix of `(i, j) ↦ (j, i)` -/
def swapM (R : Type) [CommRing R] (n : ℕ) : Matrix (Fin n × Fin n) (Fin n × Fin n) R :=
  Matrix.of fun a b => if a.swap = b then 1 else 0

theorem symProjection_toMatrix [Inhabited R] (n : ℕ) :
    (symProjection n : DMat _ _ R).toMatrix = (symP R n).submatrix id finProdFinEquiv.symm := by
  unfold symProjection
  refine (DMat.toMatrix_ofMatrix _).trans ?_
  rfl

theorem symInclusion_toMatrix [Inhabited R] (half : R) (n : ℕ) :
    (symInclusion half n).toMatrix = (symI half n).submatrix finProdFinEquiv.symm id := by
  unfold symInclusion
  refine (DMat.toMatrix_ofMatrix _).trans ?_
  rfl

/-- `A ↦ P (A ⊗ A) I` -/
def symH [Inhabited R] (half : R) (X : Matrix (Fin n) (Fin n) R) : Matrix (Fin (symDim n)) (Fin (symDim n)) R :=
  (symProjection n : DMat _ _ R).toMatrix * kron X X * (symInclusion half n).toMatrix

theorem symH_eq [Inhabited R] (half : R) (X : Matrix (Fin n) (Fin n) R) :
    symH half X = symP R n * Matrix.kroneckerMap (· * ·) X X * symI half n := by
  unfold symH kron
  rw [symProjection_toMatrix, symInclusion_toMatrix, Matrix.reindex_apply,
    Matrix.submatrix_mul_equiv, Matrix.submatrix_mul_equiv, Matrix.submatrix_id_id]

/-! ### `I P = ½ (1 + swap)`, `P I = 1` -/

theorem symIndex_eq_iff (a b : Fin n × Fin n) :
    symIndex a.1.1 a.2.1 n = symIndex b.1.1 b.2.1 n ↔ a = b ∨ a.swap = b := by
  obtain ⟨⟨i, hi⟩, ⟨j, hj⟩⟩ := a
  obtain ⟨⟨u, hu⟩, ⟨v, hv⟩⟩ := b
  constructor
  · intro h
    rcases symIndex_inj hi hj hu hv h with ⟨h1, h2⟩ | ⟨h1, h2⟩
    · left; simp [h1, h2]
    · right; simp [h1, h2]
  · rintro (h | h)
    · simp only [Prod.mk.injEq, Fin.mk.injEq] at h
      simp [h.1, h.2]
    · simp only [Prod.swap_prod_mk, Prod.mk.injEq, Fin.mk.injEq] at h
      simp only [h.1, h.2]
      exact symIndex_comm _ _ _

theorem symI_mul_symP_apply (half : R) (a b : Fin n × Fin n) :
    (symI half n * symP R n) a b =
      if symIndex a.1.1 a.2.1 n = symIndex b.1.1 b.2.1 n
      then half + (if a.1.1 = a.2.1 then 1 else 0) * half else 0 := by
  rw [Matrix.mul_apply, Finset.sum_eq_single ⟨symIndex a.1.1 a.2.1 n, symIndex_lt a.1.2 a.2.2⟩]
  · simp only [symI, symP, Matrix.of_apply, if_true]
    by_cases h : symIndex a.1.1 a.2.1 n = symIndex b.1.1 b.2.1 n
    · rw [if_pos h, if_pos h.symm, mul_one]
    · have h' : ¬ symIndex b.1.1 b.2.1 n = symIndex a.1.1 a.2.1 n := fun e => h e.symm
      rw [if_neg h, if_neg h', mul_zero]
  · intro c _ hc
    have : symIndex a.1.1 a.2.1 n ≠ c.1 := fun h => hc (Fin.ext h.symm)
    simp [symI, this]
  · simp

theorem symI_mul_symP (half : R) :
    symI half n * symP R n = half • (1 + swapM R n) := by
  ext a b
  rw [symI_mul_symP_apply]
  simp only [Matrix.smul_apply, Matrix.add_apply, Matrix.one_apply, swapM, Matrix.of_apply,
    smul_eq_mul, symIndex_eq_iff]
  by_cases hd : a.1 = a.2
  · have hsw : a.swap = a := by
      obtain ⟨i, j⟩ := a
      simp only at hd
      simp [hd]
    have hd' : a.1.1 = a.2.1 := by rw [hd]
    rw [hsw, if_pos hd']
    by_cases hab : a = b
    · simp only [hab, or_self, if_true]
      ring
    · simp only [hab, or_self, if_false]
      ring
  · have hd' : ¬ a.1.1 = a.2.1 := fun h => hd (Fin.ext h)
    rw [if_neg hd']
    by_cases hab : a = b
    · subst hab
      have hsw : ¬ a.swap = a := by
        intro h
        apply hd
        have := congrArg Prod.fst h
        simpa using this.symm
      simp only [hsw, true_or, if_true, if_false]
      ring
    · by_cases hsw : a.swap = b
      · simp only [hab, hsw, or_true, if_true, if_false]
        ring
      · simp only [hab, hsw, or_self, if_false]
        ring

theorem sum_swapM_col (b : Fin n × Fin n) : ∑ a, swapM R n a b = 1 := by
  rw [Finset.sum_eq_single b.swap]
  · simp [swapM]
  · intro a _ ha
    have : ¬ a.swap = b := fun h => ha (by rw [← h, Prod.swap_swap])
    simp [swapM, this]
  · simp

theorem symP_mul_symI {half : R} (hh : 2 * half = 1) : symP R n * symI half n = 1 := by
  ext c c'
  rw [Matrix.mul_apply, Matrix.one_apply]
  by_cases h : c = c'
  · subst h
    rw [if_pos rfl]
    obtain ⟨i, j, hij, hj, hs⟩ := symIndex_surj c.2
    have hterm : ∀ a : Fin n × Fin n, symP R n c a * symI half n a c
        = (half • (1 + swapM R n)) a (⟨i, by omega⟩, ⟨j, hj⟩) := by
      intro a
      rw [← symI_mul_symP half, symI_mul_symP_apply]
      simp only [symP, symI, Matrix.of_apply, hs]
      split_ifs <;> simp
    rw [Finset.sum_congr rfl fun a _ => hterm a]
    simp only [Matrix.smul_apply, Matrix.add_apply, smul_eq_mul, ← Finset.mul_sum,
      Finset.sum_add_distrib, sum_swapM_col, Matrix.one_apply, Finset.sum_ite_eq',
      Finset.mem_univ, if_true]
    linear_combination hh
  · rw [if_neg h]
    refine Finset.sum_eq_zero fun a _ => ?_
    simp only [symP, symI, Matrix.of_apply]
    by_cases h1 : symIndex a.1.1 a.2.1 n = c.1
    · have h2 : ¬ symIndex a.1.1 a.2.1 n = c'.1 := fun h2 => h (Fin.ext (h1.symm.trans h2))
      rw [if_neg h2, mul_zero]
    · rw [if_neg h1, zero_mul]

/-! ### `swap` commutes with `A ⊗ A` -/

theorem swapM_mul_kron (X : Matrix (Fin n) (Fin n) R) :
    swapM R n * Matrix.kroneckerMap (· * ·) X X = Matrix.kroneckerMap (· * ·) X X * swapM R n := by
  ext a b
  rw [Matrix.mul_apply, Matrix.mul_apply, Finset.sum_eq_single a.swap, Finset.sum_eq_single b.swap]
  · simp [swapM, mul_comm]
  · intro c _ hc
    have : ¬ c.swap = b := fun h => hc (by rw [← h, Prod.swap_swap])
    simp [swapM, this]
  · simp
  · intro c _ hc
    have : ¬ a.swap = c := fun h => hc h.symm
    simp [swapM, this]
  · simp

/-! ### the symmetric square is multiplicative -/

theorem symH_one [Inhabited R] {half : R} (hh : 2 * half = 1) :
    symH half (1 : Matrix (Fin n) (Fin n) R) = 1 := by
  rw [symH_eq]
  have : Matrix.kroneckerMap (· * ·) (1 : Matrix (Fin n) (Fin n) R) (1 : Matrix (Fin n) (Fin n) R)
      = 1 := Matrix.one_kronecker_one
  rw [this, Matrix.mul_one, symP_mul_symI hh]

theorem symH_mul [Inhabited R] {half : R} (hh : 2 * half = 1) (X Y : Matrix (Fin n) (Fin n) R) :
    symH half (X * Y) = symH half X * symH half Y := by
  rw [symH_eq, symH_eq, symH_eq]
  have hK : Matrix.kroneckerMap (· * ·) (X * Y) (X * Y)
      = Matrix.kroneckerMap (· * ·) X X * Matrix.kroneckerMap (· * ·) Y Y :=
    Matrix.mul_kronecker_mul X Y X Y
  rw [hK]
  generalize Matrix.kroneckerMap (· * ·) X X = KX
  have hS : symI half n * symP R n * Matrix.kroneckerMap (· * ·) Y Y
      = Matrix.kroneckerMap (· * ·) Y Y * (symI half n * symP R n) := by
    rw [symI_mul_symP half]
    simp only [Matrix.smul_mul, Matrix.mul_smul, Matrix.add_mul, Matrix.mul_add, Matrix.one_mul,
      Matrix.mul_one, swapM_mul_kron]
  generalize Matrix.kroneckerMap (· * ·) Y Y = KY at hS ⊢
  calc symP R n * (KX * KY) * symI half n
      = symP R n * (KX * KY) * symI half n * (symP R n * symI half n) := by
        rw [symP_mul_symI hh, Matrix.mul_one]
    _ = symP R n * KX * (KY * (symI half n * symP R n)) * symI half n := by
        simp only [Matrix.mul_assoc]
    _ = symP R n * KX * (symI half n * symP R n * KY) * symI half n := by rw [hS]
    _ = symP R n * KX * symI half n * (symP R n * KY * symI half n) := by
        simp only [Matrix.mul_assoc]

end Rep
end GT.RepW
