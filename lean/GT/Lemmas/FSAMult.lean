/-
Lemmas for `automaton_multiple`: partial correctness of the literal queue loop — whenever it
returns, the result is the k-step reachable closure of the start vertices with one edge per k-path.
-/
import GT.Lemmas.FSADel
import GT.Lemmas.FSALang

set_option linter.unusedSectionVars false
set_option linter.unusedSimpArgs false

namespace GT.FSA
variable {V L : Type} [DecidableEq V] [DecidableEq L]
open Dict

/-- vertices reachable from the start vertices by walks whose length is a multiple of `k` -/
inductive KReach (s : FSA V L) (k : Nat) : V → Prop
  | start {v : V} (h : v ∈ s.starts) : KReach s k v
  | step {v nb : V} {w : List L} (h : KReach s k v) (hw : w.length = k) (hf : s.follow v w = some nb) :
      KReach s k nb

/-- the inner loop of `automaton_multiple` for the popped vertex `v` -/
theorem multipleEdges_spec (v : V) (visited : Dict V Bool) (paths : List (List L × V))
    (hfun : ∀ w nb nb', (w, nb) ∈ paths → (w, nb') ∈ paths → nb = nb') :
    ∀ (new : FSA V (List L)) (q : List V) (new' : FSA V (List L)) (q' : List V),
      new.WF → v ∈ new.out.keys →
      (∀ w nb b, (w, nb) ∈ paths → new.step v w = some b → b = nb) →
      multipleEdges v visited paths (new, q) = .ok (new', q') →
      new'.WF ∧ new'.starts = new.starts ∧
      (∀ a w b, new'.step a w = some b ↔ new.step a w = some b ∨ (a = v ∧ (w, b) ∈ paths)) ∧
      (∀ a, a ∈ new'.out.keys ↔ a ∈ new.out.keys ∨ ∃ w, (w, a) ∈ paths) ∧
      (∀ x, x ∈ q' ↔ x ∈ q ∨ ∃ w, (w, x) ∈ paths ∧ visited.get? x = some false) ∧
      (∀ w nb, (w, nb) ∈ paths → ∃ b, visited.get? nb = some b) := by
  induction paths with
  | nil =>
    intro new q new' q' hw hv _ h
    simp only [multipleEdges, Except.ok.injEq, Prod.mk.injEq] at h
    obtain ⟨rfl, rfl⟩ := h
    exact ⟨hw, rfl, by simp, by simp, by simp, by simp⟩
  | cons p rest ih =>
    obtain ⟨word, nb⟩ := p
    intro new q new' q' hw hv hnc h
    have hw1 := wf_addVertices hw [nb]
    have ha1 := abs_addVertices hw [nb]
    have hok : SetFSA.EdgesLOK true (new.addVertices [nb]).abs
        ([(v, nb, word)].map fun e => (e.1, e.2.1, [e.2.2])) := by
      refine ⟨⟨?_, by simp, trivial⟩, trivial⟩
      intro b hb
      rw [ha1] at hb
      exact hnc word nb b (by simp) hb
    obtain ⟨new1, e1, w1, st1, a1⟩ := addEdges_spec hw1 true [(v, nb, word)] hok
    simp only [multipleEdges, e1, Dict.get, bind, Except.bind] at h
    cases hvis : visited.get? nb with
    | none => simp [hvis] at h
    | some vis =>
      simp only [hvis] at h
      have hstep1 : ∀ a w b, new1.step a w = some b ↔ new.step a w = some b ∨ (a = v ∧ w = word ∧ b = nb) := by
        intro a w b
        have : new1.abs.edges a w b ↔ ((new.abs.addVertices [nb]).addEdges [(v, nb, word)]).edges a w b := by
          rw [a1, ha1]
        exact this
      have hkeys1 : ∀ a, a ∈ new1.out.keys ↔ a ∈ new.out.keys ∨ a = nb := by
        intro a
        have : new1.abs.verts a ↔ ((new.abs.addVertices [nb]).addEdges [(v, nb, word)]).verts a := by
          rw [a1, ha1]
        simp only [SetFSA.addEdges, List.foldl_cons, List.foldl_nil, SetFSA.addEdge, SetFSA.addVertices,
          List.mem_singleton] at this
        have h2 : new1.abs.verts a ↔ a ∈ new1.out.keys := Iff.rfl
        have h3 : new.abs.verts a ↔ a ∈ new.out.keys := Iff.rfl
        rw [← h2, this, h3]
        constructor
        · rintro ((h | h) | h | h)
          · exact Or.inl h
          · exact Or.inr h
          · subst h; exact Or.inl hv
          · exact Or.inr h
        · rintro (h | h)
          · exact Or.inl (Or.inl h)
          · exact Or.inl (Or.inr h)
      have hfun' : ∀ w nb nb', (w, nb) ∈ rest → (w, nb') ∈ rest → nb = nb' :=
        fun w a b h1 h2 => hfun w a b (by simp [h1]) (by simp [h2])
      have hnc' : ∀ w nb' b, (w, nb') ∈ rest → new1.step v w = some b → b = nb' := by
        intro w nb' b hm hb
        rcases (hstep1 v w b).1 hb with h1 | ⟨-, rfl, rfl⟩
        · exact hnc w nb' b (by simp [hm]) h1
        · exact hfun w b nb' (by simp) (by simp [hm])
      obtain ⟨r1, r2, r3, r4, r5, r6⟩ := ih hfun' new1 _ new' q' w1 ((hkeys1 v).2 (Or.inl hv)) hnc' h
      refine ⟨r1, by rw [r2, st1, starts_addVertices], ?_, ?_, ?_, ?_⟩
      · intro a w b; rw [r3, hstep1]; simp only [List.mem_cons, Prod.mk.injEq]; grind
      · intro a; rw [r4, hkeys1]; simp only [List.mem_cons, Prod.mk.injEq]; grind
      · intro x; rw [r5]
        simp only [List.mem_cons, Prod.mk.injEq]
        cases vis
        · simp only [Bool.false_eq_true, if_false, List.mem_append, List.mem_singleton]
          constructor
          · rintro ((h | rfl) | ⟨w, h1, h2⟩)
            · exact Or.inl h
            · exact Or.inr ⟨word, Or.inl ⟨rfl, rfl⟩, hvis⟩
            · exact Or.inr ⟨w, Or.inr h1, h2⟩
          · rintro (h | ⟨w, (⟨rfl, rfl⟩ | h1), h2⟩)
            · exact Or.inl (Or.inl h)
            · exact Or.inl (Or.inr rfl)
            · exact Or.inr ⟨w, h1, h2⟩
        · simp only [if_true]
          constructor
          · rintro (h | ⟨w, h1, h2⟩)
            · exact Or.inl h
            · exact Or.inr ⟨w, Or.inr h1, h2⟩
          · rintro (h | ⟨w, (⟨rfl, rfl⟩ | h1), h2⟩)
            · exact Or.inl h
            · rw [hvis] at h2; cases h2
            · exact Or.inr ⟨w, h1, h2⟩
      · intro w nb' hm
        rcases List.mem_cons.1 hm with h1 | h1
        · cases h1; exact ⟨vis, hvis⟩
        · exact r6 w nb' h1

/-- the inner loop never raises when every end vertex of the listed walks has a `visited` entry -/
theorem multipleEdges_ok (v : V) (visited : Dict V Bool) (paths : List (List L × V))
    (hfun : ∀ w nb nb', (w, nb) ∈ paths → (w, nb') ∈ paths → nb = nb')
    (hvis : ∀ w nb, (w, nb) ∈ paths → ∃ b, visited.get? nb = some b) :
    ∀ (new : FSA V (List L)) (q : List V), new.WF → v ∈ new.out.keys →
      (∀ w nb b, (w, nb) ∈ paths → new.step v w = some b → b = nb) →
      ∃ r, multipleEdges v visited paths (new, q) = .ok r := by
  induction paths with
  | nil => intro new q _ _ _; exact ⟨(new, q), rfl⟩
  | cons p rest ih =>
    obtain ⟨word, nb⟩ := p
    intro new q hw hv hnc
    have hw1 := wf_addVertices hw [nb]
    have ha1 := abs_addVertices hw [nb]
    have hok : SetFSA.EdgesLOK true (new.addVertices [nb]).abs
        ([(v, nb, word)].map fun e => (e.1, e.2.1, [e.2.2])) := by
      refine ⟨⟨?_, by simp, trivial⟩, trivial⟩
      intro b hb
      rw [ha1] at hb
      exact hnc word nb b (by simp) hb
    obtain ⟨new1, e1, w1, st1, a1⟩ := addEdges_spec hw1 true [(v, nb, word)] hok
    obtain ⟨vis, hvisnb⟩ := hvis word nb (by simp)
    have hstep1 : ∀ a w b, new1.step a w = some b ↔ new.step a w = some b ∨ (a = v ∧ w = word ∧ b = nb) := by
      intro a w b
      have : new1.abs.edges a w b ↔ ((new.abs.addVertices [nb]).addEdges [(v, nb, word)]).edges a w b := by
        rw [a1, ha1]
      exact this
    have hkeysv : v ∈ new1.out.keys := by
      have : new1.abs.verts v ↔ ((new.abs.addVertices [nb]).addEdges [(v, nb, word)]).verts v := by
        rw [a1, ha1]
      exact this.2 (Or.inl (Or.inl hv))
    have hfun' : ∀ w nb nb', (w, nb) ∈ rest → (w, nb') ∈ rest → nb = nb' :=
      fun w a b h1 h2 => hfun w a b (by simp [h1]) (by simp [h2])
    have hnc' : ∀ w nb' b, (w, nb') ∈ rest → new1.step v w = some b → b = nb' := by
      intro w nb' b hm hb
      rcases (hstep1 v w b).1 hb with h1 | ⟨-, rfl, rfl⟩
      · exact hnc w nb' b (by simp [hm]) h1
      · exact hfun w b nb' (by simp) (by simp [hm])
    obtain ⟨r, hr⟩ := ih hfun' (fun w a h => hvis w a (by simp [h])) new1
      (if vis = true then q else q ++ [nb]) w1 hkeysv hnc'
    exact ⟨r, by simp only [multipleEdges, e1, Dict.get, hvisnb, bind, Except.bind]; exact hr⟩

/-- the queue after the inner loop: at most one new entry per listed walk, each of them the
unvisited end of a listed walk -/
theorem multipleEdges_queue (v : V) (visited : Dict V Bool) (paths : List (List L × V)) :
    ∀ (new : FSA V (List L)) (q : List V) (new' : FSA V (List L)) (q' : List V),
      multipleEdges v visited paths (new, q) = .ok (new', q') →
      ∃ app, q' = q ++ app ∧ app.length ≤ paths.length ∧
        ∀ x ∈ app, visited.get? x = some false ∧ ∃ w, (w, x) ∈ paths := by
  induction paths with
  | nil =>
    intro new q new' q' h
    simp only [multipleEdges, Except.ok.injEq, Prod.mk.injEq] at h
    exact ⟨[], by simp [h.2], by simp, by simp⟩
  | cons p rest ih =>
    obtain ⟨word, nb⟩ := p
    intro new q new' q' h
    simp only [multipleEdges, Dict.get, bind, Except.bind] at h
    cases e1 : (new.addVertices [nb]).addEdges [(v, nb, word)] with
    | error e => simp [e1] at h
    | ok new1 =>
      cases hvis : visited.get? nb with
      | none => simp [e1, hvis] at h
      | some vis =>
        simp only [e1, hvis] at h
        obtain ⟨app, h1, h2, h3⟩ := ih _ _ _ _ h
        cases vis
        · simp only [Bool.false_eq_true, if_false] at h1
          refine ⟨nb :: app, by simp [h1], by simp; omega, ?_⟩
          intro x hx
          rcases List.mem_cons.1 hx with rfl | hx
          · exact ⟨hvis, word, by simp⟩
          · obtain ⟨a1, w, a2⟩ := h3 x hx
            exact ⟨a1, w, by simp [a2]⟩
        · simp only [if_true] at h1
          refine ⟨app, h1, by simp; omega, ?_⟩
          intro x hx
          obtain ⟨a1, w, a2⟩ := h3 x hx
          exact ⟨a1, w, by simp [a2]⟩

/-- invariant of the queue loop of `automaton_multiple` -/
structure MultInv (s : FSA V L) (k : Nat) (new : FSA V (List L)) (visited : Dict V Bool) (queue : List V) :
    Prop where
  wf : new.WF
  starts : new.starts = s.starts
  sound : ∀ v w nb, new.step v w = some nb → w.length = k ∧ s.follow v w = some nb
  reach : ∀ v, v ∈ new.out.keys → KReach s k v
  qreach : ∀ v ∈ queue, KReach s k v
  done : ∀ v, visited.get? v = some true → v ∈ new.out.keys ∧
    ∀ w nb, w.length = k → s.follow v w = some nb →
      new.step v w = some nb ∧ (visited.get? nb = some true ∨ nb ∈ queue)
  init : ∀ v ∈ s.starts, visited.get? v = some true ∨ v ∈ queue
  pending : ∀ v, v ∈ new.out.keys → visited.get? v = some true ∨ v ∈ queue

/-- one iteration of the queue loop keeps the invariant (given that its two computations succeed) -/
theorem mult_step {s : FSA V L} (hs : s.RowsNodup) (k : Nat)
    (new : FSA V (List L)) (visited : Dict V Bool) (v : V) (q : List V)
    (inv : MultInv s k new visited (v :: q)) {paths : List (List L × V)} {new2 : FSA V (List L)} {q2 : List V}
    (hp : s.enumFixed v k = .ok paths)
    (hme : multipleEdges v (Dict.set visited v true) paths (new.addVertices [v], q) = .ok (new2, q2)) :
    MultInv s k new2 (Dict.set visited v true) q2 := by
  have hpaths := fun w nb => FSA.mem_enumFixed hs hp w nb
  have hw1 := wf_addVertices inv.wf [v]
  have ha1 := abs_addVertices inv.wf [v]
  have hstep1 : ∀ a w b, (new.addVertices [v]).step a w = some b ↔ new.step a w = some b := by
    intro a w b
    have : (new.addVertices [v]).abs.edges a w b ↔ (new.abs.addVertices [v]).edges a w b := by rw [ha1]
    exact this
  have hkeys1 : ∀ a, a ∈ (new.addVertices [v]).out.keys ↔ a ∈ new.out.keys ∨ a = v := by
    intro a; rw [mem_keys_addVertices]; simp
  have hfun : ∀ w nb nb', (w, nb) ∈ paths → (w, nb') ∈ paths → nb = nb' := by
    intro w a b h1 h2
    have e1 := ((hpaths w a).1 h1).2
    have e2 := ((hpaths w b).1 h2).2
    rw [e1] at e2; exact Option.some.inj e2
  have hnc : ∀ w nb b, (w, nb) ∈ paths → (new.addVertices [v]).step v w = some b → b = nb := by
    intro w nb b hm hb
    have e1 := ((hpaths w nb).1 hm).2
    have e2 := (inv.sound v w b ((hstep1 v w b).1 hb)).2
    rw [e1] at e2; exact (Option.some.inj e2).symm
  obtain ⟨r1, r2, r3, r4, r5, r6⟩ := multipleEdges_spec v (Dict.set visited v true) paths hfun
    (new.addVertices [v]) q new2 q2 hw1 ((hkeys1 v).2 (Or.inr rfl)) hnc hme
  have hvreach : KReach s k v := inv.qreach v (by simp)
  have hvis1 : ∀ x, visited.get? x = some true → (Dict.set visited v true).get? x = some true := by
    intro x hx; rw [get?_set]; split <;> simp_all
  refine ⟨r1, by rw [r2, starts_addVertices, inv.starts], ?_, ?_, ?_, ?_, ?_, ?_⟩
  · intro a w b hab
    rcases (r3 a w b).1 hab with h1 | ⟨rfl, h1⟩
    · exact inv.sound a w b ((hstep1 a w b).1 h1)
    · exact (hpaths w b).1 h1
  · intro a ha
    rcases (r4 a).1 ha with h1 | ⟨w, h1⟩
    · rcases (hkeys1 a).1 h1 with h2 | rfl
      · exact inv.reach a h2
      · exact hvreach
    · obtain ⟨e1, e2⟩ := (hpaths w a).1 h1
      exact KReach.step hvreach e1 e2
  · intro x hx
    rcases (r5 x).1 hx with h1 | ⟨w, h1, -⟩
    · exact inv.qreach x (by simp [h1])
    · obtain ⟨e1, e2⟩ := (hpaths w x).1 h1
      exact KReach.step hvreach e1 e2
  · intro x hx
    rw [get?_set] at hx
    by_cases hxv : x = v
    · subst hxv
      refine ⟨(r4 x).2 (Or.inl ((hkeys1 x).2 (Or.inr rfl))), ?_⟩
      intro w nb hw hf
      have hm : (w, nb) ∈ paths := (hpaths w nb).2 ⟨hw, hf⟩
      refine ⟨(r3 x w nb).2 (Or.inr ⟨rfl, hm⟩), ?_⟩
      obtain ⟨b, hb⟩ := r6 w nb hm
      cases b
      · exact Or.inr ((r5 nb).2 (Or.inr ⟨w, hm, hb⟩))
      · exact Or.inl hb
    · simp only [hxv, if_false] at hx
      obtain ⟨d1, d2⟩ := inv.done x hx
      refine ⟨(r4 x).2 (Or.inl ((hkeys1 x).2 (Or.inl d1))), ?_⟩
      intro w nb hw hf
      obtain ⟨e1, e2⟩ := d2 w nb hw hf
      refine ⟨(r3 x w nb).2 (Or.inl ((hstep1 x w nb).2 e1)), ?_⟩
      rcases e2 with e2 | e2
      · exact Or.inl (hvis1 nb e2)
      · rcases List.mem_cons.1 e2 with rfl | e2
        · exact Or.inl (by simp [get?_set])
        · exact Or.inr ((r5 nb).2 (Or.inl e2))
  · intro x hx
    rcases inv.init x hx with h1 | h1
    · exact Or.inl (hvis1 x h1)
    · rcases List.mem_cons.1 h1 with rfl | h1
      · exact Or.inl (by simp [get?_set])
      · exact Or.inr ((r5 x).2 (Or.inl h1))
  · intro a ha
    rcases (r4 a).1 ha with h1 | ⟨w, h1⟩
    · rcases (hkeys1 a).1 h1 with h2 | rfl
      · rcases inv.pending a h2 with h3 | h3
        · exact Or.inl (hvis1 a h3)
        · rcases List.mem_cons.1 h3 with rfl | h3
          · exact Or.inl (by simp [get?_set])
          · exact Or.inr ((r5 a).2 (Or.inl h3))
      · exact Or.inl (by simp [get?_set])
    · obtain ⟨b, hb⟩ := r6 w a h1
      cases b
      · exact Or.inr ((r5 a).2 (Or.inr ⟨w, h1, hb⟩))
      · exact Or.inl hb

theorem multipleLoop_succ_eq {s : FSA V L} (k fuel : Nat) (new : FSA V (List L)) (visited : Dict V Bool)
    (v : V) (q : List V) {paths : List (List L × V)} {new2 : FSA V (List L)} {q2 : List V}
    (hp : s.enumFixed v k = .ok paths)
    (hme : multipleEdges v (Dict.set visited v true) paths (new.addVertices [v], q) = .ok (new2, q2)) :
    multipleLoop s k (fuel + 1) new visited (v :: q) = multipleLoop s k fuel new2 (Dict.set visited v true) q2 := by
  simp only [multipleLoop, hp, hme, bind, Except.bind]

theorem multipleLoop_spec {s : FSA V L} (hs : s.RowsNodup) (k : Nat) (fuel : Nat) :
    ∀ (new : FSA V (List L)) (visited : Dict V Bool) (queue : List V) (new' : FSA V (List L)),
      MultInv s k new visited queue → multipleLoop s k fuel new visited queue = .ok new' →
      ∃ visited', MultInv s k new' visited' [] := by
  induction fuel with
  | zero =>
    intro new visited queue new' inv h
    cases queue with
    | nil => simp only [multipleLoop, Except.ok.injEq] at h; subst h; exact ⟨visited, inv⟩
    | cons v q => simp [multipleLoop] at h
  | succ fuel ih =>
    intro new visited queue new' inv h
    cases queue with
    | nil => simp only [multipleLoop, Except.ok.injEq] at h; subst h; exact ⟨visited, inv⟩
    | cons v q =>
      have h0 := h
      simp only [multipleLoop] at h
      cases hp : s.enumFixed v k with
      | error e => simp [hp, bind, Except.bind] at h
      | ok paths =>
      simp only [hp, bind, Except.bind] at h
      cases hme : multipleEdges v (Dict.set visited v true) paths (new.addVertices [v], q) with
      | error e => simp [hme] at h
      | ok nq =>
      obtain ⟨new2, q2⟩ := nq
      rw [multipleLoop_succ_eq k fuel new visited v q hp hme] at h0
      exact ih new2 _ q2 new' (mult_step hs k new visited v q inv hp hme) h0

theorem wf_emptyFSA' {V L : Type} [DecidableEq V] [DecidableEq L] (st : List V) : (FSA.empty st : FSA V L).WF := by
  have : (FSA.empty st : FSA V L) = { graph := [], out := [], inn := [], starts := st } := rfl
  rw [this]
  refine ⟨⟨⟨by simp, by simp, by simp, by simp, by simp, by simp⟩, by simp, by simp, ?_, ?_, ?_, ?_⟩, ?_⟩
  · intro v w; rfl
  · intro v l w; simp [step_def, og_def]
  · intro v w ls h; simp [og_def] at h
  · intro v w ls h; simp [og_def] at h
  · intro v w ls h; simp [og_def] at h

theorem multInv_init (s : FSA V L) (k : Nat) :
    MultInv s k (FSA.empty s.starts) (s.vertices.map fun v => (v, false)) s.starts := by
  have hw := wf_emptyFSA' (V := V) (L := List L) s.starts
  refine ⟨hw, rfl, ?_, ?_, fun v hv => KReach.start hv, ?_, fun v hv => Or.inr hv, ?_⟩
  · intro v w nb hst; simp [step_def, FSA.empty, fromGraphDict, hiddenVertices] at hst
  · intro v hv; cases hv
  · intro v hv
    have := mem_of_get? hv
    simp at this
  · intro v hv; cases hv

/-- **Partial correctness of `automaton_multiple(k)`.**  Whenever the queue loop returns, the
result is a well-formed automaton with the same start list whose vertices are exactly the vertices
reachable from a start vertex by walks of length a multiple of `k`, and which has an edge
`v —w→ q` exactly for the walks `w` of length `k` from a reachable `v` to `q`. -/
theorem multiple_spec {s : FSA V L} (hs : s.RowsNodup) (k fuel : Nat) {new' : FSA V (List L)}
    (h : s.multiple k fuel = .ok new') :
    new'.WF ∧ new'.starts = s.starts ∧ (∀ v, v ∈ new'.out.keys ↔ KReach s k v) ∧
    ∀ v w nb, new'.step v w = some nb ↔ KReach s k v ∧ w.length = k ∧ s.follow v w = some nb := by
  have inv0 := multInv_init s k
  obtain ⟨visited', inv⟩ := multipleLoop_spec hs k fuel _ _ _ new' inv0 h
  have hclosed : ∀ v, KReach s k v → visited'.get? v = some true := by
    intro v hv
    induction hv with
    | start hst =>
      rcases inv.init _ hst with h1 | h1
      · exact h1
      · cases h1
    | step _ hw hf ihv =>
      rcases ((inv.done _ ihv).2 _ _ hw hf).2 with h1 | h1
      · exact h1
      · cases h1
  refine ⟨inv.wf, inv.starts, fun v => ⟨inv.reach v, fun hv => (inv.done v (hclosed v hv)).1⟩, ?_⟩
  intro v w nb
  constructor
  · intro hst
    obtain ⟨h1, h2⟩ := inv.sound v w nb hst
    refine ⟨inv.reach v ?_, h1, h2⟩
    obtain ⟨ls, hls, -⟩ := (inv.wf.1.label v w nb).1 hst
    obtain ⟨row, hr, -⟩ := (og_some_iff new' v nb).1 ⟨ls, hls⟩
    exact (mem_keys_iff _ _).2 ⟨row, hr⟩
  · rintro ⟨h1, h2, h3⟩
    exact ((inv.done v (hclosed v h1)).2 w nb h2 h3).1

/-- a word whose length is a multiple of `k ≥ 1` splits into blocks of length `k` -/
theorem exists_blocks (k : Nat) (n : Nat) (w : List L) (hw : w.length = n * k) :
    ∃ blocks : List (List L), (∀ b ∈ blocks, b.length = k) ∧ blocks.flatten = w := by
  induction n generalizing w with
  | zero =>
    have : w = [] := List.length_eq_zero_iff.1 (by simpa using hw)
    exact ⟨[], by simp, by simp [this]⟩
  | succ n ih =>
    have hlen : (w.drop k).length = n * k := by
      rw [List.length_drop, hw, Nat.succ_mul]; omega
    obtain ⟨bs, h1, h2⟩ := ih (w.drop k) hlen
    refine ⟨w.take k :: bs, ?_, by simp [h2]⟩
    intro b hb
    rcases List.mem_cons.1 hb with rfl | hb
    · rw [List.length_take, hw, Nat.succ_mul]; omega
    · exact h1 b hb

/-- … in exactly one way -/
theorem blocks_unique (k : Nat) (hk : 1 ≤ k) (bs bs' : List (List L))
    (h1 : ∀ b ∈ bs, b.length = k) (h2 : ∀ b ∈ bs', b.length = k) (h : bs.flatten = bs'.flatten) :
    bs = bs' := by
  induction bs generalizing bs' with
  | nil =>
    cases bs' with
    | nil => rfl
    | cons b r =>
      have hb := h2 b (by simp)
      have : (b ++ r.flatten).length = 0 := by
        have := congrArg List.length h; simpa using this.symm
      rw [List.length_append] at this; omega
  | cons b r ih =>
    cases bs' with
    | nil =>
      have hb := h1 b (by simp)
      have : (b ++ r.flatten).length = 0 := by
        have := congrArg List.length h; simpa using this
      rw [List.length_append] at this; omega
    | cons b' r' =>
      simp only [List.flatten_cons] at h
      have hl : b.length = b'.length := by rw [h1 b (by simp), h2 b' (by simp)]
      obtain ⟨e1, e2⟩ := List.append_inj h hl
      rw [e1, ih r' (fun x hx => h1 x (by simp [hx])) (fun x hx => h2 x (by simp [hx])) e2]


end GT.FSA
