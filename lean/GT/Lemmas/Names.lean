/-
String-level facts about `invert_gen` on every name `_set_generator` accepts, and the
consequence that *every* history of assignments yields a well-formed `generators` dict.
-/
import GT.Lemmas.Fox
import GT.Lemmas.RepDerived

namespace GT.RepW
namespace Rep
open Fox

theorem upperS_lowerS (g : Gen) : upperS (lowerS g) = upperS g := by
  unfold lowerS upperS
  simp [String.toList_ofList, List.map_map, Function.comp_def]

theorem lowerS_lowerS (g : Gen) : lowerS (lowerS g) = lowerS g := by
  unfold lowerS
  simp [String.toList_ofList, List.map_map, Function.comp_def]

/-- on every legal generator name (lower- or upper-case, any length) `invert_gen` is an
involution without fixed point -/
theorem invertGen_of_valid {g : Gen} (hv : validName g = true) :
    invertGen (invertGen g) = g ∧ invertGen g ≠ g := by
  by_cases hl : lowerS g = g
  · have ha : isAsym g = true := (isAsym_iff g).2 hl
    exact ⟨invertGen_invertGen_of_valid hv ha, invertGen_ne_of_valid hv ha⟩
  · -- not lower-case, hence (not mixed-case) upper-case
    have hu : upperS g = g := by
      unfold validName at hv
      simp only [Bool.and_eq_true, Bool.not_eq_true', decide_eq_false_iff_not, not_and,
        Decidable.not_not] at hv
      exact (hv.2 (fun h => hl h.symm)).symm
    have h1 : invertGen g = lowerS g := by unfold invertGen; rw [if_neg hl]
    refine ⟨?_, by rw [h1]; exact hl⟩
    rw [h1]
    unfold invertGen
    rw [if_pos (lowerS_lowerS g), upperS_lowerS, hu]

variable {n : ℕ} {R : Type} [Inhabited R] [CommRing R]

/-- **every history** of assignments `rep[g] = A` (any order, re-assignments, lower- or
upper-case names) starting from a well-formed representation with the default `invert_gen`
yields a well-formed one: inverse letters hold inverse matrices. -/
theorem history_wf {invert : DMat n n R → Option (DMat n n R)} (hinv : InvertOK invert)
    (hist : List (Gen × DMat n n R)) :
    ∀ (ρ0 ρ : Rep n R), ρ0.WF → ρ0.inv = invertGen →
      hist.foldlM (fun ρ h => ρ.setGenerator invert h.1 h.2 true) ρ0 = .ok ρ → ρ.WF ∧ ρ.inv = invertGen := by
  induction hist with
  | nil =>
    intro ρ0 ρ hwf hi hf
    simp only [List.foldlM_nil, pure, Except.pure, Except.ok.injEq] at hf
    subst hf
    exact ⟨hwf, hi⟩
  | cons h hist ih =>
    intro ρ0 ρ hwf hi hf
    rw [List.foldlM_cons] at hf
    cases hs : ρ0.setGenerator invert h.1 h.2 true with
    | error e => rw [hs] at hf; cases hf
    | ok ρ1 =>
      rw [hs] at hf
      simp only [bind, Except.bind] at hf
      have hv : validName h.1 = true := by
        unfold setGenerator at hs
        split_ifs at hs with hv <;> simpa using hv
      obtain ⟨i2, i1⟩ := invertGen_of_valid hv
      have hwf1 := setGenerator_wf hinv hwf (by rw [hi]; exact i2) (by rw [hi]; exact i1) hs
      exact ih ρ1 ρ hwf1 (by rw [(setGenerator_inv_field hs).1, hi]) hf

end Rep
end GT.RepW

namespace GT.RepW
namespace Rep
variable {n : ℕ} {R : Type} [Inhabited R] [CommRing R]

theorem copy_fold (l : List (Gen × DMat n n R)) :
    ∀ (σ0 σ : Rep n R), (l.map Prod.fst).Nodup → (∀ g ∈ l.map Prod.fst, g ∉ σ0.gens.map Prod.fst) →
      l.foldlM (fun (σ : Rep n R) kv => σ.setGenerator (fun _ => none) kv.1 kv.2 false) σ0 = .ok σ →
      σ = { σ0 with gens := σ0.gens ++ l } := by
  induction l with
  | nil =>
    intro σ0 σ _ _ hf
    simp only [List.foldlM_nil, pure, Except.pure, Except.ok.injEq] at hf
    subst hf; simp
  | cons kv l ih =>
    intro σ0 σ hnd hdis hf
    rw [List.foldlM_cons] at hf
    cases hs : σ0.setGenerator (fun _ => none) kv.1 kv.2 false with
    | error e => rw [hs] at hf; cases hf
    | ok σ1 =>
      rw [hs] at hf
      simp only [bind, Except.bind] at hf
      obtain ⟨rfl, _⟩ := setGenerator_noinv hs
      simp only [List.map_cons, List.nodup_cons] at hnd
      have hfresh : kv.1 ∉ σ0.gens.map Prod.fst := hdis kv.1 (by simp)
      have e1 : dset σ0.gens kv.1 kv.2 = σ0.gens ++ [(kv.1, kv.2)] := Fox.dset_of_not_mem _ hfresh
      have := ih _ σ hnd.2 (by
        intro g hg
        simp only [e1, List.map_append, List.map_cons, List.map_nil, List.mem_append, List.mem_singleton, not_or]
        exact ⟨hdis g (by simp [hg]), fun e => hnd.1 (e ▸ hg)⟩) hf
      rw [this]
      simp [e1]

/-- `Representation(rep)` (the copy constructor) copies the dict when its keys are distinct
(as the keys of a Python dict are) -/
theorem copy_eq {ρ σ : Rep n R} (hnd : (ρ.gens.map Prod.fst).Nodup) (h : ρ.copy = .ok σ) : σ = ρ := by
  unfold copy at h
  have := copy_fold ρ.gens _ σ hnd (by simp) h
  rw [this]
  simp

end Rep
end GT.RepW
