/-
C06, part 3b: the *language* of `_automaton_accepted` for an arbitrary representation, in
particular one with `parse_simple=False` (multi-character generator names), whose returned
words are the labels of the paths joined by `Representation._join_words` (`Rep.joinW`: a `"*"`
between two non-empty words) instead of concatenated.

The development of `RepAutLang.lean` is redone over an abstract join
`j : String → String → String` that is associative with unit `""` (`JoinLaws`); the
definitions of `RepAutLang.lean` are the instance `j = (· ++ ·)`, and `Rep.joinW ρ` satisfies
the laws for every `ρ`.
-/
import Mathlib.Data.List.Perm.Basic
import GT.Lemmas.RepAutLang
import GT.Lemmas.RepAut

set_option linter.unusedSectionVars false

namespace GT.RepW

/-- the join is associative and `""` is a two-sided unit -/
structure JoinLaws (j : String → String → String) : Prop where
  assoc : ∀ a b c, j (j a b) c = j a (j b c)
  left : ∀ w, j "" w = w
  right : ∀ w, j w "" = w

theorem joinLaws_append : JoinLaws (· ++ ·) :=
  ⟨fun _ _ _ => String.append_assoc, fun _ => String.empty_append, fun _ => String.append_empty⟩

namespace Aut
variable {V : Type} [DecidableEq V]

/-! ## join-parametrised reference enumerations -/

/-- all paths with exactly `k` edges from `v`: (labels joined by `j`, end vertex); the label
of the first edge is joined in front of the word of the rest (`j label rest`), as
`_automaton_accepted` does in the start direction -/
def pathsFromJ (j : String → String → String) (a : Aut V) : Nat → V → List (String × V)
  | 0, v => [("", v)]
  | k + 1, v => (a.succs v).flatMap fun ln =>
      (pathsFromJ j a k ln.2).map fun st => (j ln.1 st.1, st.2)

/-- joined label words of the paths with exactly `k` edges from `v` -/
def pathWordsJ (j : String → String → String) (a : Aut V) (k : Nat) (v : V) : List String :=
  (a.pathsFromJ j k v).map Prod.fst

/-- joined label words of the paths with exactly `k` edges from `s` to `v` -/
def pathWordsToJ (j : String → String → String) (a : Aut V) (k : Nat) (s v : V) : List String :=
  ((a.pathsFromJ j k s).filter fun st => st.2 = v).map Prod.fst

/-- the words of `accSpec` with the join `j`, computed without the representation -/
def accWordsJ (j : String → String → String) (a : Aut V) (o : AccOpts) : Nat → V → List String
  | 0, v => a.zeroWords o v
  | k + 1, v => (if o.maxlen then a.zeroWords o v else []) ++
      (a.totalAdj o.asStart v).flatMap fun wl =>
        (accWordsJ j a o k wl.1).map fun s => if o.asStart then j wl.2 s else j s wl.2

/-- all paths with exactly `k` edges into `v`: (labels joined by `j`, first vertex); the label
of the last edge is joined behind (`j word label`), as in the end direction -/
def pathsIntoJ (j : String → String → String) (a : Aut V) : Nat → V → List (String × V)
  | 0, v => [("", v)]
  | k + 1, v => (a.preds v).flatMap fun ul =>
      (pathsIntoJ j a k ul.1).map fun st => (j st.1 ul.2, st.2)

/-- words of the paths of length `k` into `v` whose first vertex satisfies `p` -/
def intoWordsJ (j : String → String → String) (a : Aut V) (p : V → Bool) (k : Nat) (v : V) :
    List String :=
  ((a.pathsIntoJ j k v).filter fun st => p st.2).map Prod.fst

/-! ### the definitions of `RepAutLang.lean` are the instance `j = (· ++ ·)` -/

theorem pathsFromJ_append (a : Aut V) : ∀ (k : Nat) (v : V),
    a.pathsFromJ (· ++ ·) k v = a.pathsFrom k v
  | 0, _ => rfl
  | k + 1, v => by
    unfold pathsFromJ pathsFrom
    simp only [pathsFromJ_append a k]

theorem pathWordsJ_append (a : Aut V) (k : Nat) (v : V) :
    a.pathWordsJ (· ++ ·) k v = a.pathWords k v := by
  unfold pathWordsJ pathWords
  rw [pathsFromJ_append]

theorem pathWordsToJ_append (a : Aut V) (k : Nat) (s v : V) :
    a.pathWordsToJ (· ++ ·) k s v = a.pathWordsTo k s v := by
  unfold pathWordsToJ pathWordsTo
  rw [pathsFromJ_append]

theorem accWordsJ_append (a : Aut V) (o : AccOpts) : ∀ (k : Nat) (v : V),
    a.accWordsJ (· ++ ·) o k v = a.accWords o k v
  | 0, _ => rfl
  | k + 1, v => by
    unfold accWordsJ accWords
    simp only [accWordsJ_append a o k]

theorem pathsIntoJ_append (a : Aut V) : ∀ (k : Nat) (v : V),
    a.pathsIntoJ (· ++ ·) k v = a.pathsInto k v
  | 0, _ => rfl
  | k + 1, v => by
    unfold pathsIntoJ pathsInto
    simp only [pathsIntoJ_append a k]

end Aut

namespace Rep
variable {V : Type} [DecidableEq V] {n : ℕ} {R : Type} [Inhabited R] [CommRing R]

/-! ## `_join_words` is associative with unit `""` -/

theorem joinW_empty_left (ρ : Rep n R) (w : String) : ρ.joinW "" w = w := by
  simp [joinW]

theorem joinW_empty_right (ρ : Rep n R) (w : String) : ρ.joinW w "" = w := by
  simp [joinW]

theorem star_ne_empty (a b : String) : a ++ "*" ++ b ≠ "" := by
  intro h
  have := congrArg String.toList h
  simp [String.toList_append] at this

theorem joinW_nonsimple {ρ : Rep n R} (hp : ρ.parseSimple = false) {a b : String}
    (ha : a ≠ "") (hb : b ≠ "") : ρ.joinW a b = a ++ "*" ++ b := by
  simp [joinW, hp, ha, hb]

theorem joinW_assoc (ρ : Rep n R) (a b c : String) :
    ρ.joinW (ρ.joinW a b) c = ρ.joinW a (ρ.joinW b c) := by
  cases hp : ρ.parseSimple with
  | true => simp only [joinW_simple hp, String.append_assoc]
  | false =>
    by_cases ha : a = ""
    · subst ha; simp only [joinW_empty_left]
    by_cases hb : b = ""
    · subst hb; simp only [joinW_empty_left, joinW_empty_right]
    by_cases hc : c = ""
    · subst hc; simp only [joinW_empty_right]
    rw [joinW_nonsimple hp ha hb, joinW_nonsimple hp hb hc,
      joinW_nonsimple hp (star_ne_empty a b) hc, joinW_nonsimple hp ha (star_ne_empty b c)]
    simp only [String.append_assoc]

theorem joinLaws_joinW (ρ : Rep n R) : JoinLaws ρ.joinW :=
  ⟨ρ.joinW_assoc, ρ.joinW_empty_left, ρ.joinW_empty_right⟩

/-- **`accSpec_wordsJ`**: for every representation, the words of the specification are the
representation-free word list with the join `ρ.joinW` -/
theorem accSpec_wordsJ (ρ : Rep n R) (a : Aut V) (o : AccOpts) :
    ∀ (L : Nat) (v : V) (pairs : List (String × DMat n n R)),
      ρ.accSpec a o L v = .ok pairs → pairs.map Prod.fst = a.accWordsJ ρ.joinW o L v
  | 0, v, pairs, h => by
    rw [accSpec_zero] at h
    cases h
    exact zeroPairs_fst a o v
  | k + 1, v, pairs, h => by
    obtain ⟨edges, parts, hadj, hF, rfl⟩ := accSpec_succ_ok h
    unfold Aut.accWordsJ
    rw [Aut.adj_ok hadj, List.map_append]
    congr 1
    · split_ifs
      · exact zeroPairs_fst a o v
      · rfl
    · clear hadj h
      induction hF with
      | nil => rfl
      | cons h1 _ ih =>
        rw [List.flatten_cons, List.map_append, List.flatMap_cons, ih]
        congr 1
        obtain ⟨r, e, hr, he, rfl⟩ := specBody_ok h1
        rw [extendPairs_fst, accSpec_wordsJ ρ a o k _ r hr]
        cases o.asStart <;> rfl

end Rep

namespace Aut
variable {V : Type} [DecidableEq V] (j : String → String → String)

/-! ## start direction -/

theorem pathWordsJ_zero (a : Aut V) (v : V) : a.pathWordsJ j 0 v = [""] := rfl

theorem pathWordsJ_succ (a : Aut V) (k : Nat) (v : V) :
    a.pathWordsJ j (k + 1) v =
      (a.succs v).flatMap fun ln => (a.pathWordsJ j k ln.2).map fun s => j ln.1 s := by
  unfold pathWordsJ
  simp only [pathsFromJ, List.map_flatMap, List.map_map]
  rfl

/-- `as_start`, `maxlen=False`: the words are those of the paths with exactly `L` edges -/
theorem accWordsJ_start_exact (a : Aut V) (o : AccOpts) (h1 : o.asStart = true)
    (h2 : o.maxlen = false) :
    ∀ (L : Nat) (v : V), (a.accWordsJ j o L v).Perm (a.pathWordsJ j L v)
  | 0, v => by
    unfold accWordsJ
    rw [zeroWords_start a o h1, pathWordsJ_zero]
  | k + 1, v => by
    unfold accWordsJ
    rw [h1, h2, pathWordsJ_succ]
    simp only [Bool.false_eq_true, if_false, List.nil_append, if_true]
    refine (List.Perm.flatMap_right _ (totalAdj_start_perm a v)).trans ?_
    rw [List.flatMap_map]
    exact List.Perm.flatMap_left _ fun ln _ => (accWordsJ_start_exact a o h1 h2 k ln.2).map _

/-- `maxlen=True` is the concatenation of the `maxlen=False` answers for `0, …, L`
(either direction) -/
theorem accWordsJ_maxlen (a : Aut V) (o : AccOpts) (h : o.maxlen = true) :
    ∀ (L : Nat) (v : V), (a.accWordsJ j o L v).Perm
      ((List.range (L + 1)).flatMap fun i => a.accWordsJ j { o with maxlen := false } i v)
  | 0, v => by
    simp [accWordsJ, zeroWords_maxlen_irrel]
  | L + 1, v => by
    rw [List.range_succ_eq_map, List.flatMap_cons, List.flatMap_map]
    conv_lhs => unfold accWordsJ
    rw [h, if_pos rfl]
    refine List.Perm.append (by rw [accWordsJ]; exact List.Perm.refl _) ?_
    have ih := accWordsJ_maxlen a o h L
    refine (List.Perm.flatMap_left _ fun wl _ => (ih wl.1).map _).trans ?_
    simp only [List.map_flatMap]
    refine (flatMap_swap_perm _ _ _).trans ?_
    refine List.Perm.flatMap_left _ fun i _ => ?_
    simp only [accWordsJ]
    simp

/-- `as_start`, `maxlen=True`: the words are those of the paths with at most `L` edges -/
theorem accWordsJ_start_maxlen (a : Aut V) (o : AccOpts) (h1 : o.asStart = true)
    (h2 : o.maxlen = true) (L : Nat) (v : V) :
    (a.accWordsJ j o L v).Perm ((List.range (L + 1)).flatMap fun i => a.pathWordsJ j i v) :=
  (accWordsJ_maxlen j a o h2 L v).trans
    (List.Perm.flatMap_left _ fun i _ =>
      accWordsJ_start_exact j a { o with maxlen := false } h1 rfl i v)

/-! ## end direction -/

variable {j}

/-- paths can equally be extended at their end (the order of enumeration is the same) -/
theorem pathsFromJ_succ_right (hj : JoinLaws j) (a : Aut V) : ∀ (k : Nat) (v : V),
    a.pathsFromJ j (k + 1) v =
      (a.pathsFromJ j k v).flatMap fun st => (a.succs st.2).map fun ln => (j st.1 ln.1, ln.2)
  | 0, v => by
    simp [pathsFromJ, List.flatMap_singleton', List.map_eq_flatMap, hj.left, hj.right]
  | k + 1, v => by
    have ih := pathsFromJ_succ_right hj a k
    have e1 : a.pathsFromJ j (k + 2) v = (a.succs v).flatMap fun ln =>
      (a.pathsFromJ j (k + 1) ln.2).map fun st => (j ln.1 st.1, st.2) := rfl
    have e2 : a.pathsFromJ j (k + 1) v = (a.succs v).flatMap fun ln =>
      (a.pathsFromJ j k ln.2).map fun st => (j ln.1 st.1, st.2) := rfl
    rw [e1, e2]
    simp only [ih]
    simp [List.flatMap_assoc, List.flatMap_map, List.map_flatMap, hj.assoc,
      Function.comp_def]

variable (j)

theorem intoWordsJ_zero (a : Aut V) (p : V → Bool) (v : V) :
    a.intoWordsJ j p 0 v = if p v then [""] else [] := by
  unfold intoWordsJ pathsIntoJ
  cases h : p v <;> simp [h]

theorem intoWordsJ_succ (a : Aut V) (p : V → Bool) (k : Nat) (v : V) :
    a.intoWordsJ j p (k + 1) v =
      (a.preds v).flatMap fun ul => (a.intoWordsJ j p k ul.1).map fun s => j s ul.2 := by
  unfold intoWordsJ
  simp [pathsIntoJ, List.filter_flatMap, List.filter_map, List.map_flatMap, Function.comp_def]

/-- `as_start=False`, `maxlen=False`, in terms of backward paths -/
theorem accWordsJ_end_into (a : Aut V) (o : AccOpts) (h1 : o.asStart = false)
    (h2 : o.maxlen = false) : ∀ (L : Nat) (v : V),
    (a.accWordsJ j o L v).Perm (a.intoWordsJ j (fun s => a.starts.contains s) L v)
  | 0, v => by
    rw [intoWordsJ_zero]
    unfold accWordsJ zeroWords
    rw [h1]
    simp
  | k + 1, v => by
    unfold accWordsJ
    rw [h1, h2, intoWordsJ_succ]
    simp only [Bool.false_eq_true, if_false, List.nil_append]
    have : a.totalAdj false v = flatAdj (a.inDict v) := rfl
    rw [this]
    exact List.Perm.flatMap (flatAdj_inDict_perm a v)
      fun wl _ => (accWordsJ_end_into a o h1 h2 k wl.1).map _

/-- `preds_flatMap_tail` for an arbitrary function of the label -/
theorem preds_flatMap_tailF (a : Aut V) (h : a.WF) (v t : V) (f : String → String) :
    ((a.preds v).flatMap fun ul => if t = ul.1 then [f ul.2] else []) =
      ((a.succs t).filter fun ln => ln.2 = v).map fun ln => f ln.1 := by
  unfold preds
  rw [List.flatMap_assoc]
  have inner : ∀ (u : V) (e : List (String × V)),
      ((e.filterMap fun ln => if ln.2 = v then some (u, ln.1) else none).flatMap
        fun ul => if t = ul.1 then [f ul.2] else []) =
      if u = t then ((e.filter fun ln => ln.2 = v).map fun ln => f ln.1) else [] := by
    intro u e
    induction e with
    | nil => simp
    | cons ln e ih =>
      by_cases h1 : ln.2 = v <;> by_cases h2 : u = t
      · subst h2; simp [h1] at ih ⊢; exact ih
      · have : ¬ t = u := fun e => h2 e.symm
        simp [h1, h2, this] at ih ⊢
      · subst h2; simp [h1] at ih ⊢; exact ih
      · simp [h1, h2] at ih ⊢; exact ih
  simp only [inner]
  rw [flatMap_ite_nodup (fun u => ((a.succs u).filter fun ln => ln.2 = v).map fun ln => f ln.1)
    t a.vertices (vertices_nodup h)]
  split_ifs with hm
  · rfl
  · rw [succs_of_not_mem a t hm]
    rfl

theorem pathWordsToJ_zero (a : Aut V) (s v : V) :
    a.pathWordsToJ j 0 s v = if s = v then [""] else [] := by
  unfold pathWordsToJ pathsFromJ
  by_cases h : s = v <;> simp [h]

variable {j}

theorem pathWordsToJ_succ (hj : JoinLaws j) (a : Aut V) (k : Nat) (s v : V) :
    a.pathWordsToJ j (k + 1) s v = (a.pathsFromJ j k s).flatMap fun st =>
      ((a.succs st.2).filter fun ln => ln.2 = v).map fun ln => j st.1 ln.1 := by
  unfold pathWordsToJ
  rw [pathsFromJ_succ_right hj]
  simp [List.filter_flatMap, List.filter_map, List.map_flatMap, Function.comp_def]

/-- counting the paths of length `k` from `s` to `v` backwards or forwards gives the same
multiset of joined words -/
theorem intoWordsJ_perm_pathWordsToJ (hj : JoinLaws j) (a : Aut V) (h : a.WF) :
    ∀ (k : Nat) (s v : V),
      (a.intoWordsJ j (fun t => t = s) k v).Perm (a.pathWordsToJ j k s v)
  | 0, s, v => by
    rw [intoWordsJ_zero, pathWordsToJ_zero]
    by_cases hsv : s = v
    · subst hsv; simp
    · have : ¬ v = s := fun e => hsv e.symm
      simp [hsv, this]
  | k + 1, s, v => by
    rw [intoWordsJ_succ, pathWordsToJ_succ hj]
    refine (List.Perm.flatMap_left _ fun ul _ =>
      (intoWordsJ_perm_pathWordsToJ hj a h k s ul.1).map _).trans ?_
    unfold pathWordsToJ
    conv_lhs => simp only [List.map_map, filter_map_eq_flatMap, List.map_flatMap]
    refine (flatMap_swap_perm _ _ _).trans ?_
    refine List.Perm.flatMap_left _ fun st _ => ?_
    rw [← preds_flatMap_tailF a h v st.2 (j st.1)]
    refine List.Perm.of_eq ?_
    congr 1
    funext ul
    by_cases hc : st.2 = ul.1 <;> simp [hc]

/-- `as_start=False`, `maxlen=False`: the words are those of the paths with exactly `L` edges
from a start vertex to the given state -/
theorem accWordsJ_end_exact (hj : JoinLaws j) (a : Aut V) (h : a.WF) (o : AccOpts)
    (h1 : o.asStart = false) (h2 : o.maxlen = false) (L : Nat) (v : V) :
    (a.accWordsJ j o L v).Perm (a.starts.flatMap fun s => a.pathWordsToJ j L s v) := by
  refine (accWordsJ_end_into j a o h1 h2 L v).trans ?_
  unfold intoWordsJ
  refine ((filter_contains_perm (fun st : String × V => st.2) (a.pathsIntoJ j L v)
    a.starts h.starts_nodup).map Prod.fst).trans ?_
  rw [List.map_flatMap]
  exact List.Perm.flatMap_left _ fun s _ => intoWordsJ_perm_pathWordsToJ hj a h L s v

/-- `as_start=False`, `maxlen=True`: paths with at most `L` edges -/
theorem accWordsJ_end_maxlen (hj : JoinLaws j) (a : Aut V) (h : a.WF) (o : AccOpts)
    (h1 : o.asStart = false) (h2 : o.maxlen = true) (L : Nat) (v : V) :
    (a.accWordsJ j o L v).Perm
      ((List.range (L + 1)).flatMap fun i =>
        a.starts.flatMap fun s => a.pathWordsToJ j i s v) :=
  (accWordsJ_maxlen j a o h2 L v).trans
    (List.Perm.flatMap_left _ fun i _ =>
      accWordsJ_end_exact hj a h { o with maxlen := false } h1 rfl i v)

end Aut

namespace Rep
variable {V : Type} [DecidableEq V] {n : ℕ} {R : Type} [Inhabited R] [CommRing R]

/-- the reference language for a start state with the join `j`: joined label words of all
paths from `v` with exactly `L` edges (`maxlen=False`) resp. at most `L` edges, one entry per
path -/
def startLangJ (j : String → String → String) (a : Aut V) (maxlen : Bool) (L : Nat) (v : V) :
    List String :=
  if maxlen then (List.range (L + 1)).flatMap fun i => a.pathWordsJ j i v
  else a.pathWordsJ j L v

/-- the reference language for an end state with the join `j`: joined label words of all paths
from a start vertex to `v` with exactly / at most `L` edges, one entry per path -/
def endLangJ (j : String → String → String) (a : Aut V) (maxlen : Bool) (L : Nat) (v : V) :
    List String :=
  if maxlen then
    (List.range (L + 1)).flatMap fun i => a.starts.flatMap fun s => a.pathWordsToJ j i s v
  else a.starts.flatMap fun s => a.pathWordsToJ j L s v

theorem startLangJ_append (a : Aut V) (maxlen : Bool) (L : Nat) (v : V) :
    startLangJ (· ++ ·) a maxlen L v = startLang a maxlen L v := by
  unfold startLangJ startLang
  simp only [Aut.pathWordsJ_append]

theorem endLangJ_append (a : Aut V) (maxlen : Bool) (L : Nat) (v : V) :
    endLangJ (· ++ ·) a maxlen L v = endLang a maxlen L v := by
  unfold endLangJ endLang
  simp only [Aut.pathWordsToJ_append]

/-- for a `parse_simple` representation the joined languages are the concatenated ones -/
theorem joinW_eq_append {ρ : Rep n R} (hp : ρ.parseSimple = true) : ρ.joinW = (· ++ ·) := by
  funext a b
  exact joinW_simple hp a b

/-- **`accepted_words_startJ`**: with `as_start`, for every representation, the returned words
are exactly the `_join_words`-joined label words of the paths from the state, each once per
path -/
theorem accepted_words_startJ (ρ : Rep n R) (a : Aut V) (o : AccOpts) (h1 : o.asStart = true)
    (L : Nat) (v : V) (pairs : List (String × DMat n n R))
    (h : ρ.accSpec a o L v = .ok pairs) :
    (pairs.map Prod.fst).Perm (startLangJ ρ.joinW a o.maxlen L v) := by
  rw [accSpec_wordsJ ρ a o L v pairs h]
  unfold startLangJ
  cases h2 : o.maxlen
  · exact Aut.accWordsJ_start_exact _ a o h1 h2 L v
  · exact Aut.accWordsJ_start_maxlen _ a o h1 h2 L v

/-- **`accepted_words_endJ`**: with an end state, for every representation, the returned words
are exactly the `_join_words`-joined label words of the paths from a start vertex to that
state, each once per path -/
theorem accepted_words_endJ (ρ : Rep n R) (a : Aut V) (hwf : a.WF) (o : AccOpts)
    (h1 : o.asStart = false) (L : Nat) (v : V) (pairs : List (String × DMat n n R))
    (h : ρ.accSpec a o L v = .ok pairs) :
    (pairs.map Prod.fst).Perm (endLangJ ρ.joinW a o.maxlen L v) := by
  rw [accSpec_wordsJ ρ a o L v pairs h]
  unfold endLangJ
  cases h2 : o.maxlen
  · exact Aut.accWordsJ_end_exact ρ.joinLaws_joinW a hwf o h1 h2 L v
  · exact Aut.accWordsJ_end_maxlen ρ.joinLaws_joinW a hwf o h1 h2 L v

/-- the language of the public wrapper, start direction (`end_state=None`), for every
representation: `start_state=None` means `start_vertices[0]` -/
theorem automatonAccepted_words_startJ (ρ : Rep n R) (a : Aut V) (L : Nat) (maxlen : Bool)
    (startState : Option V) (memo memo' : Memo V n R) (edgeWords : Bool) (res : AccRes n R)
    (s : V) (hs : (startState <|> a.starts.head?) = some s)
    (hm : MemoOK ρ a (topOpts maxlen true (none : Option V) edgeWords) memo)
    (h : ρ.automatonAccepted a L maxlen true startState none memo edgeWords = .ok (res, memo')) :
    res.words.Perm (startLangJ ρ.joinW a maxlen L s) := by
  obtain ⟨⟨pairs, hsp, rfl⟩, _⟩ :=
    automatonAccepted_sound ρ a L maxlen true startState none memo memo' edgeWords res hm h
  have hw : (toRes (topOpts maxlen true (none : Option V) edgeWords) pairs).words =
      pairs.map Prod.fst := rfl
  rw [hw]
  unfold topSpec at hsp
  cases startState with
  | some s0 =>
    cases hs
    exact accepted_words_startJ ρ a ⟨maxlen, true, true, edgeWords⟩ rfl L _ pairs hsp
  | none =>
    cases L with
    | zero =>
      simp only [accSpecO] at hsp
      cases hsp
      unfold startLangJ
      cases maxlen <;> simp [Aut.pathWordsJ_zero]
    | succ k =>
      simp only [accSpecO] at hsp
      cases hst : a.starts with
      | nil => rw [hst] at hsp; cases hsp
      | cons s0 t =>
        rw [hst] at hsp hs
        cases hs
        exact accepted_words_startJ ρ a ⟨maxlen, true, true, edgeWords⟩ rfl (k + 1) _ pairs hsp

/-- the language of the public wrapper, end direction, for every representation -/
theorem automatonAccepted_words_endJ (ρ : Rep n R) (a : Aut V) (hwf : a.WF) (L : Nat)
    (maxlen : Bool) (e : V) (memo memo' : Memo V n R) (edgeWords : Bool) (res : AccRes n R)
    (hm : MemoOK ρ a (topOpts maxlen true (some e) edgeWords) memo)
    (h : ρ.automatonAccepted a L maxlen true none (some e) memo edgeWords = .ok (res, memo')) :
    res.words.Perm (endLangJ ρ.joinW a maxlen L e) := by
  obtain ⟨⟨pairs, hsp, rfl⟩, _⟩ :=
    automatonAccepted_sound ρ a L maxlen true none (some e) memo memo' edgeWords res hm h
  exact accepted_words_endJ ρ a hwf ⟨maxlen, true, false, edgeWords⟩ rfl L e pairs hsp

end Rep

namespace RepAutExamples
open Rep

/-! the reference languages of the `parse_simple=False` example: `"*"`-joined words -/
example : startLangJ r0ns.joinW a0 true 2 0 = ["", "a", "a*a", "a*b"] := by decide
example : endLangJ r0ns.joinW a0 true 2 0 = ["", "a*b"] := by decide
example : a0.WF := ⟨by decide, by decide⟩

end RepAutExamples
end GT.RepW
