import GT.Model.Reflect
import GT.Lemmas.Targets
import Mathlib.LinearAlgebra.Matrix.SchurComplement
import Mathlib.LinearAlgebra.Matrix.NonsingularInverse

open Finset BigOperators Matrix

set_option linter.unusedSectionVars false

namespace GT.Reflect
open GT.Targets

section field
variable {K : Type*} [Field K] {n : ℕ}

/-- `mink` written out as one sum over all coordinates -/
theorem mink_eq_sum (v w : Fin (n + 1) → K) :
    mink v w = ∑ i, v i * ((if i = 0 then (-1 : K) else 1) * w i) := by
  unfold mink dot
  rw [Fin.sum_univ_succ]
  simp [Fin.tail, Fin.succ_ne_zero]

theorem mink_eq_dotProduct (v w : Fin (n + 1) → K) : mink v w = v ⬝ᵥ (Jm *ᵥ w) := by
  rw [mink_eq_sum]
  unfold Jm dotProduct
  simp [mulVec_diagonal]

theorem Jm_transpose : (Jm : Matrix (Fin (n + 1)) (Fin (n + 1)) K)ᵀ = Jm := by
  unfold Jm; exact diagonal_transpose _

/-- a form-preserving matrix preserves `mink` of row vectors -/
theorem mink_vecMul (T : Matrix (Fin (n + 1)) (Fin (n + 1)) K) (hT : T * Jm * Tᵀ = Jm)
    (v w : Fin (n + 1) → K) : mink (v ᵥ* T) (w ᵥ* T) = mink v w := by
  rw [mink_eq_dotProduct, mink_eq_dotProduct]
  have : Jm *ᵥ (w ᵥ* T) = (Jm * Tᵀ) *ᵥ w := by
    rw [← mulVec_mulVec, mulVec_transpose]
  rw [this, dotProduct_mulVec, vecMul_vecMul, ← Matrix.mul_assoc, hT, ← dotProduct_mulVec]

theorem Jvec_dot (d v : Fin (n + 1) → K) : ∑ i, v i * Jvec d i = mink v d := by
  rw [mink_eq_sum]
  apply Finset.sum_congr rfl
  intro i _
  unfold Jvec
  split_ifs with h
  · subst h; ring
  · ring

/-- the matrix `reflMat d` acts on row vectors as `reflApply d` -/
theorem vecMul_reflMat (d v : Fin (n + 1) → K) : v ᵥ* reflMat d = reflApply d v := by
  funext j
  unfold vecMul dotProduct reflMat reflApply
  have : ∀ i, v i * ((if i = j then (1 : K) else 0) - 2 * Jvec d i * d j / mink d d)
      = (if i = j then v i else 0) - (v i * Jvec d i) * (2 * d j / mink d d) := by
    intro i; split_ifs <;> ring
  simp only [this]
  rw [Finset.sum_sub_distrib, ← Finset.sum_mul, Jvec_dot]
  simp
  ring

theorem mink_reflApply_left (d v w : Fin (n + 1) → K) (hd : mink d d ≠ 0) :
    mink (reflApply d v) w = mink v w - 2 * mink v d * mink d w / mink d d := by
  unfold reflApply
  have : (fun i => v i - 2 * mink v d / mink d d * d i)
      = fun i => 1 * v i + (-(2 * mink v d / mink d d)) * d i := by funext i; ring
  rw [this, mink_lin_left]; field_simp; ring

/-- the reflection preserves the Minkowski form -/
theorem mink_reflApply (d v w : Fin (n + 1) → K) (hd : mink d d ≠ 0) :
    mink (reflApply d v) (reflApply d w) = mink v w := by
  rw [mink_reflApply_left d v _ hd, mink_comm v (reflApply d w), mink_comm d (reflApply d w),
    mink_reflApply_left d w v hd, mink_reflApply_left d w d hd, mink_comm w v, mink_comm w d,
    mink_comm d v]
  field_simp
  ring

theorem reflApply_invol (d v : Fin (n + 1) → K) (hd : mink d d ≠ 0) :
    reflApply d (reflApply d v) = v := by
  funext i
  show reflApply d v i - 2 * mink (reflApply d v) d / mink d d * d i = v i
  rw [mink_reflApply_left d v d hd]
  unfold reflApply
  field_simp
  ring

theorem reflApply_fix (d v : Fin (n + 1) → K) (h : mink v d = 0) : reflApply d v = v := by
  funext i; simp [reflApply, h]

theorem reflApply_normal (d : Fin (n + 1) → K) (hd : mink d d ≠ 0) :
    reflApply d d = fun i => -d i := by
  funext i; unfold reflApply; field_simp; ring

end field
end GT.Reflect
