/-
Index calculus for `GT.Model.ND`: the bridge lemma `get_ofFn` and one index lemma per
numpy primitive.  Helper lemmas only; the property statements are in
`GT.Properties.C04`.
-/
import GT.Model.ND
import Mathlib.Data.List.Basic
import Mathlib.Data.List.TakeDrop
import Mathlib.Tactic.Ring
import Mathlib.Tactic.Linarith

set_option linter.unusedSectionVars false
set_option linter.unusedSimpArgs false
set_option linter.unusedVariables false

namespace GT.Act

theorem insertIdx_length_append {β : Type} (i j : List β) (x : β) :
    (i ++ j).insertIdx i.length x = i ++ x :: j := by
  induction i with
  | nil => simp
  | cons a i ih => simp [List.insertIdx_succ_cons, ih]

/-! ### sizes, validity -/

theorem sz_nil : sz [] = 1 := rfl

theorem sz_cons (d : Nat) (s : List Nat) : sz (d :: s) = d * sz s := by
  unfold sz
  simp only [List.foldl_cons, Nat.one_mul]
  have : ∀ (a : Nat) (l : List Nat), l.foldl (· * ·) a = a * l.foldl (· * ·) 1 := by
    intro a l
    induction l generalizing a with
    | nil => simp
    | cons x xs ih => simp only [List.foldl_cons, Nat.one_mul]; rw [ih (a * x), ih x, Nat.mul_assoc]
  exact this d s

theorem sz_append (s t : List Nat) : sz (s ++ t) = sz s * sz t := by
  induction s with
  | nil => simp [sz_nil]
  | cons d s ih => simp [sz_cons, ih, Nat.mul_assoc]

@[simp] theorem valid_nil_nil : Valid [] [] := trivial
@[simp] theorem valid_cons_cons {d i : Nat} {s ix : List Nat} :
    Valid (d :: s) (i :: ix) ↔ i < d ∧ Valid s ix := Iff.rfl
@[simp] theorem valid_nil_cons {i : Nat} {ix : List Nat} : ¬ Valid [] (i :: ix) := fun h => h
@[simp] theorem valid_cons_nil {d : Nat} {s : List Nat} : ¬ Valid (d :: s) [] := fun h => h

theorem Valid.length {s ix : List Nat} (h : Valid s ix) : ix.length = s.length := by
  induction s generalizing ix with
  | nil => cases ix <;> simp_all
  | cons d s ih =>
    cases ix with
    | nil => simp at h
    | cons i ix => simp [ih h.2]

theorem valid_nil_iff {ix : List Nat} : Valid [] ix ↔ ix = [] := by
  cases ix <;> simp

theorem valid_append {s t i j : List Nat} (hl : i.length = s.length) :
    Valid (s ++ t) (i ++ j) ↔ Valid s i ∧ Valid t j := by
  induction s generalizing i with
  | nil =>
    have : i = [] := List.length_eq_zero_iff.mp (by simpa using hl)
    subst this; simp
  | cons d s ih =>
    cases i with
    | nil => simp at hl
    | cons a i =>
      simp only [List.cons_append, valid_cons_cons]
      rw [ih (by simpa using hl)]
      tauto

theorem Valid.append {s t i j : List Nat} (h1 : Valid s i) (h2 : Valid t j) :
    Valid (s ++ t) (i ++ j) := (valid_append h1.length).2 ⟨h1, h2⟩

/-- every valid index for an appended shape splits -/
theorem Valid.split {s t ix : List Nat} (h : Valid (s ++ t) ix) :
    ∃ i j, ix = i ++ j ∧ Valid s i ∧ Valid t j := by
  refine ⟨ix.take s.length, ix.drop s.length, (List.take_append_drop _ _).symm, ?_⟩
  have hl := h.length
  have h' : Valid (s ++ t) (ix.take s.length ++ ix.drop s.length) := by
    rw [List.take_append_drop]; exact h
  exact (valid_append (by simp [List.length_take]; simp at hl; omega)).1 h'

theorem valid_singleton {d i : Nat} : Valid [d] [i] ↔ i < d := by simp

theorem valid_pair {d e i j : Nat} : Valid [d, e] [i, j] ↔ i < d ∧ j < e := by simp

theorem valid_replicate_one (k : Nat) : Valid (List.replicate k 1) (List.replicate k 0) := by
  induction k with
  | zero => simp
  | succ k ih => simp [List.replicate_succ, ih]

theorem valid_replicate_one_iff {k : Nat} {z : List Nat} :
    Valid (List.replicate k 1) z ↔ z = List.replicate k 0 := by
  induction k generalizing z with
  | zero => simp [valid_nil_iff]
  | succ k ih =>
    cases z with
    | nil => simp [List.replicate_succ]
    | cons a z => simp [List.replicate_succ, ih]

theorem valid_reverse {s ix : List Nat} : Valid s.reverse ix.reverse ↔ Valid s ix := by
  induction s generalizing ix with
  | nil => cases ix <;> simp [valid_nil_iff]
  | cons d s ih =>
    cases ix with
    | nil => simp; intro h; have := h.length; simp at this
    | cons i ix =>
      simp only [List.reverse_cons, valid_cons_cons]
      constructor
      · intro h
        by_cases hl : ix.length = s.length
        · have := (valid_append (t := [d]) (j := [i]) (by simpa using hl)).1 h
          exact ⟨by simpa using this.2, ih.1 this.1⟩
        · have := h.length; simp at this; omega
      · rintro ⟨h1, h2⟩
        exact Valid.append (ih.2 h2) (by simpa using h1)

/-! ### row-major positions -/

theorem length_allIx (s : List Nat) : (allIx s).length = sz s := by
  induction s with
  | nil => simp [allIx, sz]
  | cons d s ih =>
    rw [sz_cons]
    simp only [allIx, List.length_flatMap, List.length_map, ih]
    induction d with
    | zero => simp
    | succ d ihd => simp [List.range_succ, ihd, Nat.add_mul]

theorem flatIx_lt {s ix : List Nat} (h : Valid s ix) : flatIx s ix < sz s := by
  induction s generalizing ix with
  | nil => cases ix <;> simp_all [flatIx, sz]
  | cons d s ih =>
    cases ix with
    | nil => simp at h
    | cons i ix =>
      obtain ⟨hi, hv⟩ := h
      have := ih hv
      rw [sz_cons]
      show i * sz s + flatIx s ix < d * sz s
      calc i * sz s + flatIx s ix < i * sz s + sz s := by omega
        _ = (i + 1) * sz s := by rw [Nat.add_mul, Nat.one_mul]
        _ ≤ d * sz s := Nat.mul_le_mul_right _ hi

theorem getElem_flatMap_range {β : Type} (d : Nat) (g : Nat → List β) (m : Nat)
    (hg : ∀ i, (g i).length = m) (i j : Nat) (hi : i < d) (hj : j < m) :
    ((List.range d).flatMap g)[i * m + j]? = (g i)[j]? := by
  induction d generalizing g i with
  | zero => omega
  | succ d ih =>
    rw [List.range_succ_eq_map, List.flatMap_cons]
    cases i with
    | zero =>
      simp only [Nat.zero_mul, Nat.zero_add]
      rw [List.getElem?_append_left (by rw [hg]; exact hj)]
    | succ i =>
      have : (i + 1) * m + j = (g 0).length + (i * m + j) := by rw [hg, Nat.add_mul]; omega
      rw [this, List.getElem?_append_right (by omega)]
      simp only [Nat.add_sub_cancel_left, List.flatMap_map]
      exact ih (g := fun k => g (k + 1)) (fun k => hg _) i (by omega)

theorem allIx_flatIx {s ix : List Nat} (h : Valid s ix) : (allIx s)[flatIx s ix]? = some ix := by
  induction s generalizing ix with
  | nil => cases ix <;> simp_all [flatIx, allIx]
  | cons d s ih =>
    cases ix with
    | nil => simp at h
    | cons i ix =>
      obtain ⟨hi, hv⟩ := h
      show ((List.range d).flatMap fun i => (allIx s).map (i :: ·))[i * sz s + flatIx s ix]? = _
      rw [getElem_flatMap_range d _ (sz s) (by intro k; simp [length_allIx]) i _ hi (flatIx_lt hv)]
      simp [ih hv]

/-- position of `i ++ j` in shape `s ++ t`: the block structure behind reshape/flatten -/
theorem flatIx_append {s t i j : List Nat} (hl : i.length = s.length) :
    flatIx (s ++ t) (i ++ j) = flatIx s i * sz t + flatIx t j := by
  induction s generalizing i with
  | nil =>
    have : i = [] := List.length_eq_zero_iff.mp (by simpa using hl)
    subst this; simp [flatIx]
  | cons d s ih =>
    cases i with
    | nil => simp at hl
    | cons a i =>
      simp only [List.cons_append, flatIx]
      rw [ih (by simpa using hl), sz_append]
      ring

theorem valid_unravel {s : List Nat} {k : Nat} (h : k < sz s) : Valid s (unravel s k) := by
  induction s generalizing k with
  | nil => simp [unravel]
  | cons d s ih =>
    rw [sz_cons] at h
    have hs : 0 < sz s := by
      rcases Nat.eq_zero_or_pos (sz s) with h0 | h0
      · rw [h0] at h; omega
      · exact h0
    simp only [unravel, valid_cons_cons]
    refine ⟨?_, ih (Nat.mod_lt _ hs)⟩
    exact (Nat.div_lt_iff_lt_mul hs).2 h

theorem flatIx_unravel {s : List Nat} {k : Nat} (h : k < sz s) : flatIx s (unravel s k) = k := by
  induction s generalizing k with
  | nil => simp [sz] at h; simp [unravel, flatIx, h]
  | cons d s ih =>
    rw [sz_cons] at h
    have hs : 0 < sz s := by
      rcases Nat.eq_zero_or_pos (sz s) with h0 | h0
      · rw [h0] at h; omega
      · exact h0
    simp only [unravel, flatIx]
    rw [ih (Nat.mod_lt _ hs)]
    exact Nat.div_add_mod' k (sz s)

theorem unravel_flatIx {s ix : List Nat} (h : Valid s ix) : unravel s (flatIx s ix) = ix := by
  induction s generalizing ix with
  | nil => cases ix <;> simp_all [unravel]
  | cons d s ih =>
    cases ix with
    | nil => simp at h
    | cons i ix =>
      obtain ⟨hi, hv⟩ := h
      have hlt := flatIx_lt hv
      simp only [unravel, flatIx]
      have h1 : (i * sz s + flatIx s ix) / sz s = i := by
        rw [Nat.add_comm, Nat.add_mul_div_right _ _ (by omega), Nat.div_eq_of_lt hlt]; simp
      have h2 : (i * sz s + flatIx s ix) % sz s = flatIx s ix := by
        rw [Nat.add_comm, Nat.add_mul_mod_self_right, Nat.mod_eq_of_lt hlt]
      rw [h1, h2, ih hv]

namespace ND
variable {α : Type} [Inhabited α]

/-! ### the bridge lemma -/

@[simp] theorem shape_ofFn (s : List Nat) (f : List Nat → α) : (ofFn s f).shape = s := rfl

theorem get_ofFn (s : List Nat) (f : List Nat → α) {ix : List Nat} (h : Valid s ix) :
    (ofFn s f).get ix = f ix := by
  unfold ND.get ND.ofFn
  simp only [Array.getD_eq_getD_getElem?, List.getElem?_toArray, List.getElem?_map, allIx_flatIx h]
  simp

theorem wf_ofFn (s : List Nat) (f : List Nat → α) : (ofFn s f).WF := by
  simp [WF, ofFn, length_allIx]

/-! ### axis plumbing -/

@[simp] theorem shape_T (a : ND α) : a.T.shape = a.shape.reverse := rfl

theorem get_T_rev (a : ND α) {ix : List Nat} (h : Valid a.shape ix) :
    a.T.get ix.reverse = a.get ix := by
  unfold T
  rw [get_ofFn _ _ (valid_reverse.2 h), List.reverse_reverse]

theorem get_T (a : ND α) {ix : List Nat} (h : Valid a.shape.reverse ix) :
    a.T.get ix = a.get ix.reverse := by
  have := get_T_rev a (ix := ix.reverse) (by
    have := valid_reverse.2 h; simpa using this)
  simpa using this

theorem shape_expandRange (a : ND α) {s t : List Nat} (hs : a.shape = s ++ t) (cnt : Nat) :
    (a.expandRange s.length cnt).shape = s ++ List.replicate cnt 1 ++ t := by
  simp [expandRange, hs]

/-- `np.expand_dims` inserts axes that are indexed by 0 and otherwise leaves entries alone -/
theorem get_expandRange (a : ND α) {s t i j : List Nat} (hs : a.shape = s ++ t) (cnt : Nat)
    (hi : Valid s i) (hj : Valid t j) :
    (a.expandRange s.length cnt).get (i ++ List.replicate cnt 0 ++ j) = a.get (i ++ j) := by
  unfold expandRange
  have hl := hi.length
  rw [get_ofFn]
  · have e1 : (i ++ List.replicate cnt 0 ++ j).take s.length = i := by
      rw [List.append_assoc, List.take_left' hl]
    have e2 : (i ++ List.replicate cnt 0 ++ j).drop (s.length + cnt) = j :=
      List.drop_left' (by simp [hl])
    rw [e1, e2]
  · rw [hs]; simp only [List.take_left', List.drop_left']
    exact (hi.append (valid_replicate_one cnt)).append hj

theorem shape_squeeze1 (a : ND α) {s t : List Nat} {d : Nat} (hs : a.shape = s ++ d :: t) :
    (a.squeeze1 s.length).shape = s ++ t := by
  simp [squeeze1, hs, List.eraseIdx_append_of_length_le]

theorem get_squeeze1 (a : ND α) {s t i j : List Nat} {d : Nat} (hs : a.shape = s ++ d :: t)
    (hi : Valid s i) (hj : Valid t j) :
    (a.squeeze1 s.length).get (i ++ j) = a.get (i ++ 0 :: j) := by
  unfold squeeze1
  have hl := hi.length
  rw [get_ofFn]
  · congr 1
    rw [← hl, insertIdx_length_append]
  · rw [hs, List.eraseIdx_append_of_length_le (le_refl _)]
    simpa using hi.append hj

theorem squeezeAxes_singleton (a : ND α) (k : Nat) : a.squeezeAxes [k] = a.squeeze1 k := by
  simp [squeezeAxes]

/-! ### indexing -/

theorem shape_sub (a : ND α) {s t i : List Nat} (hs : a.shape = s ++ t) (hi : i.length = s.length) :
    (a.sub i).shape = t := by simp [sub, hs, hi]

/-- `a[i][x] = a[i ++ x]` -/
theorem get_sub (a : ND α) {s t i x : List Nat} (hs : a.shape = s ++ t) (hi : i.length = s.length)
    (hx : Valid t x) : (a.sub i).get x = a.get (i ++ x) := by
  unfold sub
  rw [get_ofFn]
  rw [hs, hi]; simpa using hx

theorem get_setSub (a v : ND α) {idx ix : List Nat} (h : Valid a.shape ix) :
    (a.setSub idx v).get ix =
      if ix.take idx.length = idx then v.get (ix.drop idx.length) else a.get ix := by
  unfold setSub; rw [get_ofFn _ _ h]

theorem get_rollBack (a : ND α) (sh k : Nat) {ix : List Nat} (h : Valid a.shape ix) :
    (a.rollBack sh k).get ix = a.get (ix.set k ((ix.getD k 0 + sh) % a.shape.getD k 1)) := by
  unfold rollBack; rw [get_ofFn _ _ h]

/-! ### reshape / flatten keep the row-major order of units -/

theorem reshape_ok (a : ND α) {s : List Nat} (h : sz s = sz a.shape) :
    a.reshape s = .ok ⟨s, a.data⟩ := by simp [reshape, h]

/-- an entry keeps its flat position under any data-preserving change of shape -/
theorem get_mk_of_flatIx (s s' : List Nat) (d : Array α) {ix ix' : List Nat}
    (h : flatIx s' ix' = flatIx s ix) : (ND.mk s' d).get ix' = (ND.mk s d).get ix := by
  simp [get, h]

/-- reshaping only the outer (composite) shape: unit `i'` of the result is the unit of the
argument with the same row-major position, entry by entry -/
theorem get_reshape_outer (a : ND α) {o o' u i i' x : List Nat} (hs : a.shape = o ++ u)
    (hi : i.length = o.length) (hi' : i'.length = o'.length) (hx : Valid u x)
    (hflat : flatIx o' i' = flatIx o i) :
    (ND.mk (o' ++ u) a.data).get (i' ++ x) = a.get (i ++ x) := by
  have : a = ⟨o ++ u, a.data⟩ := by cases a; simp_all
  rw [this]
  apply get_mk_of_flatIx
  rw [flatIx_append hi', flatIx_append hi, hflat]

theorem shape_flattenOuter (a : ND α) {o u : List Nat} (hs : a.shape = o ++ u) :
    (a.flattenOuter u.length).shape = sz o :: u := by
  simp [flattenOuter, hs]

/-- `flatten_to_unit`: unit number `flatIx o i` of the flattened array is unit `i` -/
theorem get_flattenOuter (a : ND α) {o u i x : List Nat} (hs : a.shape = o ++ u)
    (hi : Valid o i) (hx : Valid u x) :
    (a.flattenOuter u.length).get (flatIx o i :: x) = a.get (i ++ x) := by
  have h1 : a.flattenOuter u.length = ⟨[sz o] ++ u, a.data⟩ := by simp [flattenOuter, hs]
  rw [h1]
  have := get_reshape_outer a (o' := [sz o]) (i' := [flatIx o i]) hs hi.length (by simp) hx
    (by simp [flatIx, sz])
  simpa using this

/-! ### broadcasting -/

theorem bcastZip_length {s t o : List Nat} (h : bcastZip s t = some o) :
    o.length = s.length ∧ t.length = s.length := by
  induction s generalizing t o with
  | nil => cases t <;> simp_all [bcastZip]
  | cons d s ih =>
    cases t with
    | nil => simp [bcastZip] at h
    | cons e t =>
      simp only [bcastZip] at h
      split at h
      · obtain ⟨o', ho', rfl⟩ := Option.map_eq_some_iff.1 h
        have := ih ho'; simp [this.1, this.2]
      · split at h
        · obtain ⟨o', ho', rfl⟩ := Option.map_eq_some_iff.1 h
          have := ih ho'; simp [this.1, this.2]
        · simp at h

theorem bcastZip_append {s t s' t' : List Nat} (hl : s.length = t.length) :
    bcastZip (s ++ s') (t ++ t') =
      (bcastZip s t).bind fun a => (bcastZip s' t').map (a ++ ·) := by
  induction s generalizing t with
  | nil =>
    have : t = [] := List.length_eq_zero_iff.mp (by simpa using hl.symm)
    subst this
    simp [bcastZip]
  | cons d s ih =>
    cases t with
    | nil => simp at hl
    | cons e t =>
      have hl' : s.length = t.length := by simpa using hl
      simp only [List.cons_append, bcastZip, ih hl']
      split
      · cases bcastZip s t <;> cases bcastZip s' t' <;> simp
      · split
        · cases bcastZip s t <;> cases bcastZip s' t' <;> simp
        · simp

theorem bcastZip_ones_right (s : List Nat) : bcastZip s (List.replicate s.length 1) = some s := by
  induction s with
  | nil => simp [bcastZip]
  | cons d s ih => simp [List.replicate_succ, bcastZip, ih]

theorem bcastZip_ones_left (t : List Nat) : bcastZip (List.replicate t.length 1) t = some t := by
  induction t with
  | nil => simp [bcastZip]
  | cons e t ih =>
    simp only [List.length_cons, List.replicate_succ, bcastZip, ih]
    by_cases h : e = 1 <;> simp [h, eq_comm]

theorem bcastZip_self (s : List Nat) : bcastZip s s = some s := by
  induction s with
  | nil => simp [bcastZip]
  | cons d s ih => simp [bcastZip, ih]

theorem padTo_of_length {n : Nat} {s : List Nat} (h : s.length = n) : padTo n s = s := by
  simp [padTo, h]

theorem padTo_nil (n : Nat) : padTo n [] = List.replicate n 1 := by simp [padTo]

theorem length_padTo {n : Nat} {s : List Nat} (h : s.length ≤ n) : (padTo n s).length = n := by
  simp [padTo]; omega

theorem padTo_append (n : Nat) (s x : List Nat) :
    padTo (n + x.length) (s ++ x) = padTo n s ++ x := by
  have : n + x.length - (s.length + x.length) = n - s.length := by omega
  simp [padTo, this]

theorem bcastShape_length {s t o : List Nat} (h : bcastShape s t = some o) :
    o.length = max s.length t.length := by
  unfold bcastShape at h
  have := (bcastZip_length h).1
  rw [this, length_padTo (Nat.le_max_left _ _)]

theorem bcastShape_append_tail {o1 o2 o X1 X2 XB : List Nat} (h : bcastShape o1 o2 = some o)
    (hx : bcastZip X1 X2 = some XB) : bcastShape (o1 ++ X1) (o2 ++ X2) = some (o ++ XB) := by
  have hl := bcastZip_length hx
  unfold bcastShape at h ⊢
  dsimp only at h ⊢
  have hn : max (o1 ++ X1).length (o2 ++ X2).length = max o1.length o2.length + X1.length := by
    simp [hl.2]
  rw [hn, padTo_append]
  have : padTo (max o1.length o2.length + X1.length) (o2 ++ X2) = padTo (max o1.length o2.length) o2 ++ X2 := by
    rw [← hl.2, padTo_append]
  rw [this, bcastZip_append, h, hx]
  · simp
  · rw [length_padTo (Nat.le_max_left _ _), length_padTo (Nat.le_max_right _ _)]

theorem bcastShape_same_length {s t : List Nat} (hl : s.length = t.length) :
    bcastShape s t = bcastZip s t := by
  unfold bcastShape
  dsimp only
  rw [padTo_of_length (by simp [hl]), padTo_of_length (by simp [hl])]

theorem bcastShape_nil_left (t : List Nat) : bcastShape [] t = some t := by
  unfold bcastShape
  simp only [List.length_nil, Nat.zero_max, padTo_nil]
  rw [padTo_of_length rfl, bcastZip_ones_left]

theorem bcastShape_nil_right (s : List Nat) : bcastShape s [] = some s := by
  unfold bcastShape
  simp only [List.length_nil, Nat.max_zero, padTo_nil]
  rw [padTo_of_length rfl, bcastZip_ones_right]

@[simp] theorem bcIx_nil (ix : List Nat) : bcIx [] ix = [] := by simp [bcIx]

theorem bcIx_append {s x bix xix : List Nat} (hb : s.length ≤ bix.length)
    (hx : xix.length = x.length) :
    bcIx (s ++ x) (bix ++ xix) = bcIx s bix ++ bcIx x xix := by
  unfold bcIx
  have e1 : (bix ++ xix).length - (s ++ x).length = bix.length - s.length := by simp [hx]; omega
  rw [e1, List.drop_append_of_le_length (by omega), hx, Nat.sub_self, List.drop_zero]
  rw [List.zipWith_append (by simp; omega)]

theorem bcIx_self {s ix : List Nat} (h : Valid s ix) : bcIx s ix = ix := by
  have hl := h.length
  unfold bcIx
  rw [hl, Nat.sub_self, List.drop_zero]
  induction s generalizing ix with
  | nil => cases ix <;> simp_all
  | cons d s ih =>
    cases ix with
    | nil => simp at h
    | cons i ix =>
      simp only [List.zipWith_cons_cons]
      rw [ih h.2 h.2.length]
      by_cases hd : d = 1
      · have : i = 0 := by have := h.1; omega
        simp [hd, this]
      · simp [hd]

theorem bcIx_ones {k : Nat} {z : List Nat} (hz : z.length = k) :
    bcIx (List.replicate k 1) z = List.replicate k 0 := by
  unfold bcIx
  simp only [List.length_replicate, hz, Nat.sub_self, List.drop_zero]
  induction k generalizing z with
  | zero => simp
  | succ k ih =>
    cases z with
    | nil => simp at hz
    | cons a z => simp [List.replicate_succ, ih (by simpa using hz)]

theorem valid_bcIx_zip {s t o ix : List Nat} (h : bcastZip s t = some o) (hv : Valid o ix) :
    Valid s (bcIx s ix) ∧ Valid t (bcIx t ix) := by
  have hlen := bcastZip_length h
  have hix := hv.length
  unfold bcIx
  rw [hix, hlen.1, hlen.2, Nat.sub_self, List.drop_zero]
  clear hlen hix
  induction s generalizing t o ix with
  | nil =>
    cases t with
    | nil => simp
    | cons e t => simp [bcastZip] at h
  | cons d s ih =>
    cases t with
    | nil => simp [bcastZip] at h
    | cons e t =>
      simp only [bcastZip] at h
      split at h
      · rename_i hde
        obtain ⟨o', ho', rfl⟩ := Option.map_eq_some_iff.1 h
        cases ix with
        | nil => simp at hv
        | cons i ix =>
          have := ih ho' hv.2
          simp only [List.zipWith_cons_cons, valid_cons_cons]
          refine ⟨⟨?_, this.1⟩, ⟨?_, this.2⟩⟩
          · split <;> [omega; exact hv.1]
          · rcases hde with rfl | rfl
            · split <;> [omega; exact hv.1]
            · simp
      · split at h
        · rename_i hne hd
          obtain ⟨o', ho', rfl⟩ := Option.map_eq_some_iff.1 h
          cases ix with
          | nil => simp at hv
          | cons i ix =>
            have := ih ho' hv.2
            simp only [List.zipWith_cons_cons, valid_cons_cons]
            refine ⟨⟨?_, this.1⟩, ⟨?_, this.2⟩⟩
            · simp [hd]
            · split <;> [omega; exact hv.1]
        · simp at h

theorem valid_bcIx_left {s t o ix : List Nat} (h : bcastShape s t = some o) (hv : Valid o ix) :
    Valid s (bcIx s ix) := by
  have hlen := bcastShape_length h
  unfold bcastShape at h
  have hv' := (valid_bcIx_zip h hv).1
  have hix := hv.length
  -- bcIx (padTo n s) ix = zeros ++ bcIx s ix
  set n := max s.length t.length with hn
  have hk : s.length ≤ n := Nat.le_max_left _ _
  have e : bcIx (padTo n s) ix = bcIx (List.replicate (n - s.length) 1) (ix.take (n - s.length)) ++ bcIx s ix := by
    have hsplit : ix = ix.take (n - s.length) ++ ix.drop (n - s.length) := (List.take_append_drop _ _).symm
    have hd : (ix.drop (n - s.length)).length = s.length := by simp [hix, hlen]; omega
    conv_lhs => rw [hsplit]
    unfold padTo
    rw [bcIx_append (by simp [List.length_take, hix, hlen]) hd]
    congr 1
    unfold bcIx
    rw [hd, Nat.sub_self, List.drop_zero, hix, hlen]
  rw [e] at hv'
  unfold padTo at hv'
  exact ((valid_append (by
    unfold bcIx; simp [List.length_zipWith, List.length_take, hix, hlen])).1 hv').2

theorem bcastZip_comm_some {s t o : List Nat} (h : bcastZip s t = some o) : bcastZip t s = some o := by
  induction s generalizing t o with
  | nil => cases t <;> simp_all [bcastZip]
  | cons d s ih =>
    cases t with
    | nil => simp [bcastZip] at h
    | cons e t =>
      simp only [bcastZip] at h ⊢
      split at h
      · rename_i hde
        obtain ⟨o', ho', rfl⟩ := Option.map_eq_some_iff.1 h
        rw [ih ho']
        rcases hde with rfl | rfl
        · simp
        · by_cases hd : d = 1 <;> simp [hd, eq_comm]
      · split at h
        · rename_i hne hd
          obtain ⟨o', ho', rfl⟩ := Option.map_eq_some_iff.1 h
          rw [ih ho']; simp [hd]
        · simp at h

theorem bcastShape_comm_some {s t o : List Nat} (h : bcastShape s t = some o) :
    bcastShape t s = some o := by
  unfold bcastShape at h ⊢
  rw [Nat.max_comm]; exact bcastZip_comm_some h

theorem valid_bcIx_right {s t o ix : List Nat} (h : bcastShape s t = some o) (hv : Valid o ix) :
    Valid t (bcIx t ix) := valid_bcIx_left (bcastShape_comm_some h) hv

/-! ### matmul -/

theorem splitLast2_append (B : List Nat) (p n : Nat) : splitLast2 (B ++ [p, n]) = some (B, p, n) := by
  unfold splitLast2
  have h1 : ¬ (B ++ [p, n]).length < 2 := by simp
  rw [if_neg h1]
  simp only [List.length_append, List.length_cons, List.length_nil, Nat.add_sub_cancel]
  have e1 : (B ++ [p, n]).take B.length = B := List.take_left' rfl
  have e2 : (B ++ [p, n]).getD B.length 0 = p := by simp [List.getD_eq_getElem?_getD]
  have e3 : (B ++ [p, n]).getD (B.length + (0 + 1 + 1) - 1) 0 = n := by
    simp [List.getD_eq_getElem?_getD, List.getElem?_append_right]
  simp only [e1, e2, e3]

/-- numpy's batched matrix product: shape and entries -/
theorem matmul_spec [Add α] [Mul α] [Zero α] (a b : ND α) {ba bb bs : List Nat} {p n q : Nat}
    (ha : a.shape = ba ++ [p, n]) (hb : b.shape = bb ++ [n, q])
    (hbs : bcastShape ba bb = some bs) :
    ∃ c, matmul a b = .ok c ∧ c.shape = bs ++ [p, q] ∧
      ∀ bix i k, Valid bs bix → i < p → k < q →
        c.get (bix ++ [i, k]) =
          ((List.range n).map fun j =>
            a.get (bcIx ba bix ++ [i, j]) * b.get (bcIx bb bix ++ [j, k])).sum := by
  unfold matmul
  rw [ha, hb, splitLast2_append, splitLast2_append]
  simp only [ne_eq, not_true_eq_false, ↓reduceIte, hbs]
  refine ⟨_, rfl, rfl, ?_⟩
  intro bix i k hv hi hk
  rw [get_ofFn _ _ (hv.append (by simp [hi, hk])), splitLast2_append]

/-! ### joining along the first axis (`np.array([...])`, `np.concatenate(..., axis=0)`) -/

theorem stack0_spec (a : ND α) (rest : List (ND α)) (h : ∀ b ∈ rest, b.shape = a.shape) :
    ∃ c, stack (a :: rest) 0 = .ok c ∧ c.shape = (rest.length + 1) :: a.shape ∧
      ∀ k x, k < rest.length + 1 → Valid a.shape x →
        c.get (k :: x) = ((a :: rest).getD k a).get x := by
  unfold stack
  have hall : rest.all (fun b => b.shape == a.shape) = true := by
    simp only [List.all_eq_true, beq_iff_eq]; exact h
  simp only [hall, if_true]
  refine ⟨_, rfl, by simp, ?_⟩
  intro k x hk hx
  rw [get_ofFn]
  · simp
  · simpa using ⟨hk, hx⟩

/-- start position of block `k` along the joined axis -/
def offset (lens : List Nat) (k : Nat) : Nat := (lens.take k).sum

theorem locate_offset (lens : List Nat) {k i : Nat} (hk : k < lens.length) (hi : i < lens.getD k 0) :
    locate lens (offset lens k + i) = (k, i) := by
  induction lens generalizing k with
  | nil => simp at hk
  | cons d ds ih =>
    cases k with
    | zero =>
      have : i < d := by simpa using hi
      simp [locate, offset, this]
    | succ k =>
      have hk' : k < ds.length := by simpa using hk
      have hi' : i < ds.getD k 0 := by simpa using hi
      have e : offset (d :: ds) (k + 1) + i = d + (offset ds k + i) := by
        simp [offset, List.take_succ_cons, Nat.add_assoc]
      simp only [locate, e]
      rw [if_neg (by omega), Nat.add_sub_cancel_left, ih hk' hi']

theorem offset_add_lt (lens : List Nat) {k i : Nat} (hk : k < lens.length) (hi : i < lens.getD k 0) :
    offset lens k + i < lens.sum := by
  induction lens generalizing k with
  | nil => simp at hk
  | cons d ds ih =>
    cases k with
    | zero =>
      have : i < d := by simpa using hi
      simp [offset]; omega
    | succ k =>
      have := ih (k := k) (by simpa using hk) (by simpa using hi)
      simp [offset, List.take_succ_cons] at this ⊢
      omega

theorem concat0_spec (a : ND α) (rest : List (ND α)) {t : List Nat}
    (h : ∀ b ∈ a :: rest, ∃ d, b.shape = d :: t) :
    ∃ c, concat (a :: rest) 0 = .ok c ∧
      c.shape = (((a :: rest).map fun b => b.shape.headD 0).sum) :: t ∧
      ∀ k i x, k < rest.length + 1 → i < ((a :: rest).getD k a).shape.headD 0 → Valid t x →
        c.get ((offset ((a :: rest).map fun b => b.shape.headD 0) k + i) :: x) =
          ((a :: rest).getD k a).get (i :: x) := by
  obtain ⟨d0, hd0⟩ := h a (by simp)
  have hlens : (a :: rest).map (fun b => b.shape.getD 0 0) = (a :: rest).map fun b => b.shape.headD 0 := by
    apply List.map_congr_left
    intro b hb
    obtain ⟨d, hd⟩ := h b hb
    simp [hd]
  unfold concat
  have hall : (rest.all fun b => b.shape.eraseIdx 0 == a.shape.eraseIdx 0 &&
      b.shape.length == a.shape.length) = true := by
    simp only [List.all_eq_true, Bool.and_eq_true, beq_iff_eq]
    intro b hb
    obtain ⟨d, hd⟩ := h b (by simp [hb])
    simp [hd, hd0]
  have hpos : 0 < a.shape.length := by simp [hd0]
  simp only [hpos, hall, and_self, if_true, hlens]
  refine ⟨_, rfl, by simp [hd0], ?_⟩
  intro k i x hk hi hx
  have hk' : k < ((a :: rest).map fun b => b.shape.headD 0).length := by simpa using hk
  have hi' : i < ((a :: rest).map fun b => b.shape.headD 0).getD k 0 := by
    have hk'' : k < (a :: rest).length := by simpa using hk
    have e : ((a :: rest).map fun b => b.shape.headD 0).getD k 0 = ((a :: rest).getD k a).shape.headD 0 := by
      simp only [List.getD_eq_getElem?_getD, List.getElem?_map, List.getElem?_eq_getElem hk'']
      simp
    rw [e]; exact hi
  rw [get_ofFn]
  · simp only [List.getD_cons_zero, List.set_cons_zero]
    rw [locate_offset _ hk' hi']
  · simp only [shape_ofFn, hd0, List.set_cons_zero, valid_cons_cons]
    exact ⟨offset_add_lt _ hk' hi', hx⟩

theorem concat0_ok_shapes {a c : ND α} {rest : List (ND α)} (h : concat (a :: rest) 0 = .ok c) :
    0 < a.shape.length ∧ ∀ b ∈ rest, b.shape.eraseIdx 0 = a.shape.eraseIdx 0 ∧ b.shape.length = a.shape.length := by
  simp only [concat] at h
  split at h
  · rename_i hc
    refine ⟨hc.1, ?_⟩
    have := hc.2
    simp only [List.all_eq_true, Bool.and_eq_true, beq_iff_eq] at this
    exact this
  · cases h

/-- decode a position along the joined axis -/
theorem locate_spec (lens : List Nat) {m : Nat} (hm : m < lens.sum) :
    (locate lens m).1 < lens.length ∧ (locate lens m).2 < lens.getD (locate lens m).1 0 ∧
      offset lens (locate lens m).1 + (locate lens m).2 = m := by
  induction lens generalizing m with
  | nil => simp at hm
  | cons d ds ih =>
    by_cases h : m < d
    · simp [locate, h, offset]
    · have hm' : m - d < ds.sum := by simp at hm; omega
      obtain ⟨h1, h2, h3⟩ := ih hm'
      simp only [locate, h, if_false]
      refine ⟨by simp; omega, by simpa using h2, ?_⟩
      simp only [offset, List.take_succ_cons, List.sum_cons] at h3 ⊢
      omega

/-! ### indexing / assignment on the last axis -/

theorem dropLast_snoc {β : Type} (l : List β) (x : β) : (l ++ [x]).dropLast = l := by simp
theorem getLastD_snoc (l : List Nat) (x d : Nat) : (l ++ [x]).getLastD d = x := by simp

theorem shape_selectLast (a : ND α) {s : List Nat} {m : Nat} (hs : a.shape = s ++ [m]) (j : Nat) :
    (a.selectLast j).shape = s := by simp [selectLast, hs]

/-- `a[..., j][i] = a[i, j]` -/
theorem get_selectLast (a : ND α) {s i : List Nat} {m : Nat} (hs : a.shape = s ++ [m]) (j : Nat)
    (hi : Valid s i) : (a.selectLast j).get i = a.get (i ++ [j]) := by
  unfold selectLast
  rw [get_ofFn _ _ (by simpa [hs] using hi)]

theorem shape_sliceLast (a : ND α) {s : List Nat} {m : Nat} (hs : a.shape = s ++ [m]) (lo hi : Nat) :
    (a.sliceLast lo hi).shape = s ++ [hi - lo] := by simp [sliceLast, hs]

/-- `a[..., lo:hi][i, c] = a[i, lo + c]` -/
theorem get_sliceLast (a : ND α) {s i : List Nat} {m : Nat} (hs : a.shape = s ++ [m]) (lo hi : Nat)
    (hi' : Valid s i) {c : Nat} (hc : c < hi - lo) :
    (a.sliceLast lo hi).get (i ++ [c]) = a.get (i ++ [c + lo]) := by
  unfold sliceLast
  rw [get_ofFn _ _ (by rw [hs, dropLast_snoc]; exact hi'.append (by simpa using hc))]
  simp

theorem shape_deleteLast (a : ND α) {s : List Nat} {m : Nat} (hs : a.shape = s ++ [m]) (c : Nat) :
    (a.deleteLast c).shape = s ++ [m - 1] := by simp [deleteLast, hs]

/-- `np.delete(a, c, -1)[i, j] = a[i, j]` for `j < c`, `a[i, j+1]` otherwise -/
theorem get_deleteLast (a : ND α) {s i : List Nat} {m : Nat} (hs : a.shape = s ++ [m]) (c : Nat)
    (hi : Valid s i) {j : Nat} (hj : j < m - 1) :
    (a.deleteLast c).get (i ++ [j]) = a.get (i ++ [if j < c then j else j + 1]) := by
  unfold deleteLast
  rw [get_ofFn _ _ (by rw [hs, dropLast_snoc, getLastD_snoc]; exact hi.append (by simpa using hj))]
  simp

theorem get_full (s : List Nat) (x : α) {ix : List Nat} (h : Valid s ix) : (full s x).get ix = x := by
  unfold full; rw [get_ofFn _ _ h]

theorem get_setLastConst (out : ND α) {s i : List Nat} {m : Nat} (hs : out.shape = s ++ [m]) (j : Nat) (x : α)
    (hi : Valid s i) {c : Nat} (hc : c < m) :
    (out.setLastConst j x).get (i ++ [c]) = if c = j then x else out.get (i ++ [c]) := by
  unfold setLastConst
  rw [get_ofFn _ _ (by rw [hs]; exact hi.append (by simpa using hc))]
  simp

theorem get_setLastIndex (out v : ND α) {s i : List Nat} {m : Nat} (hs : out.shape = s ++ [m]) (j : Nat)
    (hi : Valid s i) {c : Nat} (hc : c < m) :
    (out.setLastIndex j v).get (i ++ [c]) = if c = j then v.get i else out.get (i ++ [c]) := by
  unfold setLastIndex
  rw [get_ofFn _ _ (by rw [hs]; exact hi.append (by simpa using hc))]
  simp

theorem get_setLastSlice (out v : ND α) {s i : List Nat} {m : Nat} (hs : out.shape = s ++ [m]) (lo hi : Nat)
    (hi' : Valid s i) {c : Nat} (hc : c < m) :
    (out.setLastSlice lo hi v).get (i ++ [c]) =
      if lo ≤ c ∧ c < hi then v.get (i ++ [c - lo]) else out.get (i ++ [c]) := by
  unfold setLastSlice
  rw [get_ofFn _ _ (by rw [hs]; exact hi'.append (by simpa using hc))]
  simp

theorem get_setLastIdx (out v : ND α) {s i : List Nat} {m : Nat} (hs : out.shape = s ++ [m]) (idx : List Nat)
    (hi : Valid s i) {c : Nat} (hc : c < m) :
    (out.setLastIdx idx v).get (i ++ [c]) =
      if idx.idxOf c < idx.length then v.get (i ++ [idx.idxOf c]) else out.get (i ++ [c]) := by
  unfold setLastIdx
  rw [get_ofFn _ _ (by rw [hs]; exact hi.append (by simpa using hc))]
  simp

/-! ### entrywise arithmetic on arrays of one shape, and `x[..., newaxis]` broadcasting -/

theorem bcastShape_self' (o : List Nat) : bcastShape o o = some o := by
  rw [bcastShape_same_length rfl, bcastZip_self]

/-- `f(a, b)` entrywise for two arrays of the same shape (any binary ufunc): no broadcasting happens -/
theorem zipBcast_same {β γ : Type} [Inhabited β] [Inhabited γ] (f : α → β → γ) (a : ND α) (b : ND β)
    {s : List Nat} (ha : a.shape = s) (hb : b.shape = s) :
    ∃ c, zipBcast f a b = .ok c ∧ c.shape = s ∧ c.WF ∧
      ∀ ix, Valid s ix → c.get ix = f (a.get ix) (b.get ix) := by
  unfold zipBcast
  rw [ha, hb, bcastShape_self']
  refine ⟨_, rfl, rfl, wf_ofFn _ _, fun ix hix => ?_⟩
  rw [get_ofFn _ _ hix, bcIx_self hix]

/-- `f(a, d[..., newaxis])`: every vector of `a` (last axis) against the scalar of `d` at the same
outer index -/
theorem zipBcast_lastcol {β γ : Type} [Inhabited β] [Inhabited γ] (f : α → β → γ) (a : ND α) (d : ND β)
    {o : List Nat} {m : Nat} (ha : a.shape = o ++ [m]) (hd : d.shape = o) :
    ∃ c, zipBcast f a (d.expandRange d.rank 1) = .ok c ∧ c.shape = o ++ [m] ∧ c.WF ∧
      ∀ i j, Valid o i → j < m → c.get (i ++ [j]) = f (a.get (i ++ [j])) (d.get i) := by
  have hrank : d.rank = o.length := by simp [ND.rank, hd]
  have hd' : d.shape = o ++ [] := by simpa using hd
  have hds := shape_expandRange d hd' 1
  rw [hrank]
  have hb : bcastShape a.shape (d.expandRange o.length 1).shape = some (o ++ [m]) := by
    rw [ha, hds]
    simp only [List.append_nil, List.replicate_one]
    rw [bcastShape_same_length (by simp), bcastZip_append rfl, bcastZip_self]
    simp [bcastZip]
  unfold zipBcast
  rw [hb]
  refine ⟨_, rfl, rfl, wf_ofFn _ _, fun i j hi hj => ?_⟩
  have hv : Valid (o ++ [m]) (i ++ [j]) := hi.append (by simpa using hj)
  rw [get_ofFn _ _ hv, ha, hds]
  simp only [List.append_nil, List.replicate_one]
  rw [bcIx_self hv, bcIx_append (by simp [hi.length]) (by simp), bcIx_self hi]
  have : bcIx [1] [j] = [0] := by simp [bcIx]
  rw [this]
  have := get_expandRange d hd' 1 (i := i) (j := []) hi (by simp)
  simp only [List.replicate_one, List.append_nil] at this
  rw [this]

theorem get_map_wf {β : Type} [Inhabited β] (g : α → β) (a : ND α) (hwf : a.WF) {ix : List Nat}
    (hix : Valid a.shape ix) : (a.map g).get ix = g (a.get ix) := by
  have hlt : flatIx a.shape ix < a.data.size := by rw [hwf]; exact flatIx_lt hix
  simp [ND.get, ND.map, Array.getD, hlt]

theorem wf_map {β : Type} (g : α → β) (a : ND α) (hwf : a.WF) : (a.map g).WF := by
  simpa [ND.WF, ND.map] using hwf

/-- `np.stack([a₀, a₁, …], axis=-1)`: a new trailing axis indexed by the position in the list -/
theorem stackLast_spec (a : ND α) (rest : List (ND α)) (h : ∀ b ∈ rest, b.shape = a.shape) :
    ∃ c, stack (a :: rest) a.shape.length = .ok c ∧ c.shape = a.shape ++ [rest.length + 1] ∧
      ∀ i k, Valid a.shape i → k < rest.length + 1 → c.get (i ++ [k]) = ((a :: rest).getD k a).get i := by
  unfold stack
  have hall : rest.all (fun b => b.shape == a.shape) = true := by
    simp only [List.all_eq_true, beq_iff_eq]; exact h
  simp only [hall, if_true]
  have hsh : a.shape.insertIdx a.shape.length ((a :: rest).length) = a.shape ++ [rest.length + 1] := by
    have := insertIdx_length_append a.shape [] ((a :: rest).length)
    simpa using this
  refine ⟨_, rfl, by rw [shape_ofFn, hsh], ?_⟩
  intro i k hi hk
  rw [get_ofFn _ _ (by rw [hsh]; exact hi.append (by simpa using hk))]
  have e1 : (i ++ [k]).getD a.shape.length 0 = k := by
    simp [List.getD_eq_getElem?_getD, List.getElem?_append_right, hi.length]
  have e2 : (i ++ [k]).eraseIdx a.shape.length = i := by
    rw [List.eraseIdx_append_of_length_le (by simp [hi.length])]; simp [hi.length]
  rw [e1, e2]

/-! ### the last two axes: `a.swapaxes(-1,-2)`, `a[..., k, :]`, `np.stack([a, b], axis=-2)` -/

theorem swapPos_last2 (o : List Nat) (p q : Nat) :
    swapPos (o ++ [p, q]) (o.length + 1) o.length = o ++ [q, p] := by
  unfold swapPos
  have h1 : (o ++ [p, q]).getD o.length default = p := by simp [List.getD_eq_getElem?_getD]
  have h2 : (o ++ [p, q]).getD (o.length + 1) default = q := by
    simp [List.getD_eq_getElem?_getD, List.getElem?_append_right]
  rw [h1, h2]
  rw [List.set_append_right _ _ (by omega)]
  simp only [Nat.add_sub_cancel_left, List.set_cons_succ, List.set_cons_zero]
  rw [List.set_append_right _ _ (by omega)]
  simp

theorem shape_swapLast2 (a : ND α) {o : List Nat} {p q : Nat} (hs : a.shape = o ++ [p, q]) :
    (a.swapaxes (a.rank - 1) (a.rank - 2)).shape = o ++ [q, p] := by
  have hr : a.rank = o.length + 2 := by simp [ND.rank, hs]
  simp only [swapaxes, shape_ofFn, hr, hs]
  exact swapPos_last2 o p q

theorem get_swapLast2 (a : ND α) {o i : List Nat} {p q : Nat} (hs : a.shape = o ++ [p, q]) (hi : Valid o i)
    {x y : Nat} (hx : x < q) (hy : y < p) :
    (a.swapaxes (a.rank - 1) (a.rank - 2)).get (i ++ [x, y]) = a.get (i ++ [y, x]) := by
  have hr : a.rank = o.length + 2 := by simp [ND.rank, hs]
  unfold swapaxes
  rw [get_ofFn]
  · rw [hr]
    have := swapPos_last2 i x y
    rw [hi.length] at this
    simpa using congrArg a.get this
  · rw [hr, hs]
    simp only [Nat.add_sub_cancel, show o.length + 2 - 2 = o.length from rfl, show o.length + 2 - 1 = o.length + 1 from rfl]
    rw [swapPos_last2]
    exact hi.append (by simp [hx, hy])

theorem shape_selectRow (a : ND α) {o : List Nat} {p q : Nat} (hs : a.shape = o ++ [p, q]) (k : Nat) :
    (a.selectAxis o.length k).shape = o ++ [q] := by
  simp [selectAxis, hs, List.eraseIdx_append_of_length_le]

/-- `a[..., k, :]` -/
theorem get_selectRow (a : ND α) {o i : List Nat} {p q : Nat} (hs : a.shape = o ++ [p, q]) (k : Nat)
    (hi : Valid o i) {c : Nat} (hc : c < q) :
    (a.selectAxis o.length k).get (i ++ [c]) = a.get (i ++ [k, c]) := by
  unfold selectAxis
  rw [get_ofFn]
  · rw [← hi.length, insertIdx_length_append]
  · rw [hs, List.eraseIdx_append_of_length_le (le_refl _)]
    simpa using hi.append (by simpa using hc : Valid [q] [c])

/-- `np.stack([a, b], axis=-2)` of two arrays of vectors: unit `i` is the 2-row matrix `[a[i], b[i]]` -/
theorem stackRows2_spec (a b : ND α) {o : List Nat} {q : Nat} (ha : a.shape = o ++ [q]) (hb : b.shape = o ++ [q]) :
    ∃ c, stack [a, b] o.length = .ok c ∧ c.shape = o ++ [2, q] ∧
      ∀ i e cc, Valid o i → e < 2 → cc < q → c.get (i ++ [e, cc]) = ([a, b].getD e a).get (i ++ [cc]) := by
  unfold stack
  have hall : [b].all (fun x => x.shape == a.shape) = true := by simp [ha, hb]
  simp only [hall, if_true]
  have hsh : a.shape.insertIdx o.length ([a, b].length) = o ++ [2, q] := by
    rw [ha, insertIdx_length_append]; rfl
  refine ⟨_, rfl, by rw [shape_ofFn, hsh], ?_⟩
  intro i e cc hi he hcc
  rw [get_ofFn _ _ (by rw [hsh]; exact hi.append (by simp [he, hcc]))]
  have e1 : (i ++ [e, cc]).getD o.length 0 = e := by
    simp [List.getD_eq_getElem?_getD, List.getElem?_append_right, hi.length]
  have e2 : (i ++ [e, cc]).eraseIdx o.length = i ++ [cc] := by
    rw [List.eraseIdx_append_of_length_le (by simp [hi.length])]; simp [hi.length]
  rw [e1, e2]

end ND
end GT.Act
