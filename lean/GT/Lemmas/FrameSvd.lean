/-
`find_isometry` with the kernel basis produced by `svd_kernel`: the hypotheses of
`findIsometry_isIso'` about the kernel (`hker`, `hnz` for the kernel rows, `hlen`) are derived
from the SVD contract of `numpy.linalg.svd` applied to `orth_partial @ form`.
-/
import GT.Lemmas.FrameCompletion
import GT.Lemmas.Diag

open Finset BigOperators Matrix

set_option linter.unusedSectionVars false

namespace GT.GS
open GT.Iso GT.Diag

variable {K : Type*} [Field K] {n : ℕ}

theorem dot_eq_dotProduct (x y : Fin n → K) : dot x y = x ⬝ᵥ y := rfl

/-- Gram–Schmidt (w.r.t. any form) never produces the zero vector on Euclidean-orthonormal rows -/
theorem gs_ne_zero_of_orthonormal (F : Matrix (Fin n) (Fin n) K) (rows : List (Fin n → K))
    (h1 : ∀ v ∈ rows, dot v v = 1) (h2 : rows.Pairwise (fun v w => dot v w = 0)) :
    ∀ u ∈ gs F rows, u ≠ 0 := by
  induction rows using List.reverseRecOn with
  | nil => simp
  | append_singleton rows r ih =>
    rw [List.pairwise_append] at h2
    have ih' := ih (fun v hv => h1 v (List.mem_append_left _ hv)) h2.1
    rw [gs_append_singleton]
    intro u hu
    rcases List.mem_append.1 hu with hu | hu
    · exact ih' u hu
    · have hu' : u = gsStep F (gs F rows) r := by simpa using hu
      intro h0
      have hmem := gsStep_sub_mem F (gs F rows) r
      rw [← hu', h0, sub_zero, gs_span] at hmem
      let Q : Submodule K (Fin n → K) :=
        { carrier := {w | w ⬝ᵥ r = 0}
          add_mem' := by intro a b ha hb; show (a + b) ⬝ᵥ r = 0; rw [add_dotProduct, ha, hb, add_zero]
          zero_mem' := zero_dotProduct r
          smul_mem' := by intro c a ha; show (c • a) ⬝ᵥ r = 0; rw [smul_dotProduct, ha, smul_zero] }
      have hle : Submodule.span K {u | u ∈ rows} ≤ Q := by
        rw [Submodule.span_le]
        intro a ha
        exact h2.2.2 a ha r (by simp)
      have : r ⬝ᵥ r = 0 := hle hmem
      have h11 := h1 r (by simp)
      rw [dot_eq_dotProduct, this] at h11
      exact zero_ne_one h11

theorem mul_minkJ_mulVec_apply {k : ℕ} (P : Matrix (Fin k) (Fin (n + 1)) K) (v : Fin (n + 1) → K) (i : Fin k) :
    ((P * minkJ n) *ᵥ v) i = mink (P i) v := by
  rw [← Matrix.mulVec_mulVec, mink_eq_dotProduct]; rfl

theorem mul_minkJ_mul_transpose_apply' {k : ℕ} (P : Matrix (Fin k) (Fin (n + 1)) K) (i j : Fin k) :
    (P * (minkJ n : Matrix (Fin (n + 1)) (Fin (n + 1)) K) * Pᵀ) i j = mink (P i) (P j) := by
  rw [mink_eq_sum, Matrix.mul_apply]
  refine Finset.sum_congr rfl fun l _ => ?_
  unfold minkJ
  rw [Matrix.mul_diagonal, Matrix.transpose_apply]

section ordered
variable [LinearOrder K] [IsStrictOrderedRing K]

/-- `find_isometry(minkowski, x :: rest)` where the kernel basis is what `svd_kernel` computes from an
SVD `(u, s, vh)` of `orth_partial @ minkowski` satisfying the LAPACK contract: the result is an
isometry.  What is assumed of the *input* is only that `x` is timelike and the rows are linearly
independent (Gram–Schmidt on them never gives 0). -/
theorem findIsometry_isIso_svd {r : K → K} (hr : IsSqrt r) (x : Fin (n + 1) → K) (rest : List (Fin (n + 1) → K))
    (hx : mink x x < 0) (hpartial : ∀ u ∈ gs (minkJ n) (x :: rest), u ≠ 0)
    {k : ℕ} (hk : (indefiniteOrthogonalize r (minkJ n) (x :: rest)).length = k)
    (tol : K) (s : List K) (U : Matrix (Fin k) (Fin k) K) (Vh : Matrix (Fin (n + 1)) (Fin (n + 1)) K)
    (hA : rowsMatrix (indefiniteOrthogonalize r (minkJ n) (x :: rest)) hk * minkJ n = U * sigmaMat k s * Vh)
    (hU : U * Uᵀ = 1) (hV : Vh * Vhᵀ = 1) (hlen : s.length = min k (n + 1))
    (hs : s.Pairwise (fun a b => b ≤ a)) (hn : ∀ y ∈ s, 0 ≤ y) (hex : ∀ y ∈ s, y < tol ↔ y = 0) :
    ∃ h : (findIsometry r (minkJ n) (x :: rest) (svdKernelRows tol k s Vh)).length = n + 1,
      IsIso (rowsMatrix (findIsometry r (minkJ n) (x :: rest) (svdKernelRows tol k s Vh)) h) := by
  have hF : (minkJ n : Matrix _ _ K)ᵀ = minkJ n := minkJ_transpose
  set P := rowsMatrix (indefiniteOrthogonalize r (minkJ n) (x :: rest)) hk with hP
  set ker := svdKernelRows tol k s Vh with hker
  -- the partial frame alone
  obtain ⟨t, hG, hpair, hpos⟩ := frame_gs_spec x rest [] hx (by simp)
    (by simpa using hpartial)
  have hnull : ∀ g ∈ gs (minkJ n) (x :: rest), bil (minkJ n) g g ≠ 0 := by
    intro g hg
    rw [bil_minkJ]
    have : g ∈ x :: t := by rw [← hG]; simpa using hg
    rcases List.mem_cons.1 this with rfl | h
    · exact hx.ne
    · exact (hpos g h).ne'
  obtain ⟨l1, p1, n1, sp1⟩ := indefiniteOrthogonalize_spec' hr hF (x :: rest) hnull
  -- the SVD contract
  obtain ⟨kd, ann, on1, on2, klen⟩ := svdKernel_full tol s (P * minkJ n) U Vh hA hU hV hlen hs hn hex
  -- rows of `P` are the orthogonalised partial frame
  have hPi : ∀ i : Fin k, P i ∈ indefiniteOrthogonalize r (minkJ n) (x :: rest) := by
    intro i; exact List.getElem_mem _
  -- kernel rows are Minkowski-orthogonal to the orthogonalised frame, hence to its span, hence to the input rows
  have horth : ∀ p ∈ x :: rest, ∀ v ∈ ker, mink p v = 0 := by
    intro p hp v hv
    have hz := ann v hv
    let Q : Submodule K (Fin (n + 1) → K) :=
      { carrier := {w | mink w v = 0}
        add_mem' := by
          intro a b ha hb
          show mink (a + b) v = 0
          rw [← bil_minkJ, bil_add_left, bil_minkJ, bil_minkJ, ha, hb, add_zero]
        zero_mem' := by show mink 0 v = 0; rw [← bil_minkJ, bil_zero_left]
        smul_mem' := by
          intro c a ha
          show mink (c • a) v = 0
          rw [← bil_minkJ, bil_smul_left, bil_minkJ, ha, mul_zero] }
    have hle : Submodule.span K {u | u ∈ indefiniteOrthogonalize r (minkJ n) (x :: rest)} ≤ Q := by
      rw [Submodule.span_le]
      intro w hw
      obtain ⟨i, hi, rfl⟩ := List.getElem_of_mem hw
      have := congrFun hz ⟨i, hk ▸ hi⟩
      rw [mul_minkJ_mulVec_apply] at this
      exact this
    have hspan := sp1 (x :: rest).length
    rw [List.take_length, List.take_of_length_le (by rw [l1])] at hspan
    have : p ∈ Submodule.span K {u | u ∈ x :: rest} := Submodule.subset_span hp
    rw [← hspan] at this
    exact hle this
  -- Gram–Schmidt on the (Euclidean-orthonormal) kernel rows never gives 0
  have hnzk := gs_ne_zero_of_orthonormal (minkJ n) ker on1 on2
  have hnz : ∀ u ∈ gs (minkJ n) (x :: rest) ++ gs (minkJ n) ker, u ≠ 0 := by
    intro u hu
    rcases List.mem_append.1 hu with h | h
    · exact hpartial u h
    · exact hnzk u h
  -- count: rank (P J) = k because P J Pᵀ is diagonal with entries ±1
  set G : Matrix (Fin k) (Fin k) K := P * (minkJ n : Matrix (Fin (n + 1)) (Fin (n + 1)) K) * Pᵀ with hGdef
  have hGij : ∀ i j : Fin k, G i j = mink (P i) (P j) := fun i j => mul_minkJ_mul_transpose_apply' P i j
  have hG' : ∀ i j : Fin k, G i j = if i = j then G i i else 0 := by
    intro i j
    split_ifs with h
    · rw [h]
    · rw [hGij, ← bil_minkJ]
      have hi : (i : ℕ) < (indefiniteOrthogonalize r (minkJ n) (x :: rest)).length := hk ▸ i.2
      have hj : (j : ℕ) < (indefiniteOrthogonalize r (minkJ n) (x :: rest)).length := hk ▸ j.2
      have hne : (i : ℕ) ≠ j := fun e => h (Fin.ext e)
      rcases Nat.lt_or_gt_of_ne hne with hlt | hlt
      · exact (List.pairwise_iff_getElem.1 p1) i j hi hj hlt
      · rw [bil_comm hF]; exact (List.pairwise_iff_getElem.1 p1) j i hj hi hlt
  have hdiag : G = Matrix.diagonal (fun i => G i i) := by
    ext i j; rw [hG' i j, Matrix.diagonal_apply]
  have hdne : ∀ i : Fin k, G i i ≠ 0 := by
    intro i
    rw [hGij, ← bil_minkJ]
    rcases n1 (P i) (hPi i) with h | h <;> rw [h] <;> norm_num
  have hrankG : G.rank = k := by
    rw [hdiag, Matrix.rank_diagonal, Fintype.card_subtype]
    simp only [ne_eq, hdne, not_false_eq_true, Finset.filter_true_of_mem, Finset.mem_univ, implies_true,
      Finset.card_univ, Fintype.card_fin]
  have hrank : (P * minkJ n).rank = k := by
    apply le_antisymm
    · exact (Matrix.rank_le_height _)
    · have h3 : G.rank ≤ (P * (minkJ n : Matrix (Fin (n + 1)) (Fin (n + 1)) K)).rank := Matrix.rank_mul_le_left _ _
      omega
  have hklen : ker.length = n + 1 - k := by rw [klen, hrank]
  have hkle : k ≤ n + 1 := by
    have h4 : (P * (minkJ n : Matrix (Fin (n + 1)) (Fin (n + 1)) K)).rank ≤ n + 1 := Matrix.rank_le_width _
    omega
  have htot : (findIsometry r (minkJ n) (x :: rest) ker).length = n + 1 := by
    unfold findIsometry
    rw [List.length_append, hk]
    unfold indefiniteOrthogonalize
    rw [normalizeRows_length, gs_length, hklen]; omega
  exact ⟨htot, findIsometry_isIso' hr x rest ker hx horth hnz htot⟩

/-- the same, with the LAPACK assumptions bundled as `SvdContract` -/
theorem findIsometry_isIso_of_svd {r : K → K} (hr : IsSqrt r) (x : Fin (n + 1) → K) (rest : List (Fin (n + 1) → K))
    (hx : mink x x < 0) (hpartial : ∀ u ∈ gs (minkJ n) (x :: rest), u ≠ 0)
    {k : ℕ} (hk : (indefiniteOrthogonalize r (minkJ n) (x :: rest)).length = k)
    (tol : K) (s : List K) (U : Matrix (Fin k) (Fin k) K) (Vh : Matrix (Fin (n + 1)) (Fin (n + 1)) K)
    (hsvd : SvdContract tol (rowsMatrix (indefiniteOrthogonalize r (minkJ n) (x :: rest)) hk * minkJ n) s U Vh) :
    ∃ h : (findIsometry r (minkJ n) (x :: rest) (svdKernelRows tol k s Vh)).length = n + 1,
      IsIso (rowsMatrix (findIsometry r (minkJ n) (x :: rest) (svdKernelRows tol k s Vh)) h) :=
  findIsometry_isIso_svd hr x rest hx hpartial hk tol s U Vh hsvd.recon hsvd.uorth hsvd.vorth hsvd.len
    hsvd.sorted hsvd.nonneg hsvd.exact

/-! ### the partial frames of the constructors are in general position -/

theorem ne_zero_of_mink_ne_zero {u : Fin (n + 1) → K} (h : mink u u ≠ 0) : u ≠ 0 := by
  intro h0; apply h; rw [h0, ← bil_minkJ, bil_zero_left]

theorem gs_singleton (F : Matrix (Fin (n + 1)) (Fin (n + 1)) K) (a : Fin (n + 1) → K) : gs F [a] = [a] := rfl

theorem gs_pair_orth (a b : Fin (n + 1) → K) (h : mink b a = 0) : gs (minkJ n) [a, b] = [a, b] := by
  show [a, b - gproj (minkJ n) b a] = [a, b]
  unfold gproj
  rw [bil_minkJ, h, zero_div, zero_smul, sub_zero]

theorem normalizeVec_ne_zero {r : K → K} (hr : IsSqrt r) (v : Fin (n + 1) → K) (hv : v ≠ 0) :
    normalizeVec r (minkJ n) v ≠ 0 := by
  rw [normalizeVec_eq]
  exact smul_ne_zero (nfac_ne_zero hr _ v) hv

theorem mink_normalizeVec_both (r : K → K) (x v : Fin (n + 1) → K) :
    mink (normalizeVec r (minkJ n) v) (normalizeVec r (minkJ n) x)
      = nfac r (minkJ n) v * nfac r (minkJ n) x * mink v x := by
  rw [← bil_minkJ, bil_normalizeVec, bil_minkJ]

theorem sheet_normalizeVec_timelike {r : K → K} (hr : IsSqrt r) (x : Fin (n + 1) → K) (hx : mink x x < 0) :
    mink (sheetSign (normalizeVec r (minkJ n) x) • normalizeVec r (minkJ n) x)
      (sheetSign (normalizeVec r (minkJ n) x) • normalizeVec r (minkJ n) x) < 0 := by
  rw [mink_sheet_smul _ (sheetSign_mul_self _)]; exact normalizeVec_timelike hr x hx

/-- `Point.origin_to`: the one-row frame `[σ·x̂]` -/
theorem originTo_partial {r : K → K} (hr : IsSqrt r) (x : Fin (n + 1) → K) (hx : mink x x < 0) :
    ∀ u ∈ gs (minkJ n) [sheetSign (normalizeVec r (minkJ n) x) • normalizeVec r (minkJ n) x], u ≠ 0 := by
  intro u hu
  rw [gs_singleton] at hu
  have : u = sheetSign (normalizeVec r (minkJ n) x) • normalizeVec r (minkJ n) x := by simpa using hu
  rw [this]
  exact ne_zero_of_mink_ne_zero (sheet_normalizeVec_timelike hr x hx).ne

/-- `TangentVector.origin_to`: the frame `[σ·x̂, σ·v̂]` for a non-zero tangent vector `v ⟂ x` -/
theorem tangentOriginTo_partial {r : K → K} (hr : IsSqrt r) (x v : Fin (n + 1) → K) (hx : mink x x < 0)
    (hv : v ≠ 0) (hxv : mink v x = 0) :
    ∀ u ∈ gs (minkJ n) [sheetSign (normalizeVec r (minkJ n) x) • normalizeVec r (minkJ n) x,
      sheetSign (normalizeVec r (minkJ n) x) • normalizeVec r (minkJ n) v], u ≠ 0 := by
  rw [gs_pair_orth _ _ (by
    rw [mink_sheet_smul _ (sheetSign_mul_self _), mink_normalizeVec_both, hxv, mul_zero])]
  intro u hu
  rcases List.mem_cons.1 hu with rfl | hu
  · exact ne_zero_of_mink_ne_zero (sheet_normalizeVec_timelike hr x hx).ne
  · have : u = sheetSign (normalizeVec r (minkJ n) x) • normalizeVec r (minkJ n) v := by simpa using hu
    rw [this]; exact smul_ne_zero (sheetSign_ne_zero _) (normalizeVec_ne_zero hr v hv)

/-- (repaired) `spacelike_to`: the frame `[t, v̂]` with `t = e₀ − projection(e₀, v̂)` for spacelike `v` -/
theorem spacelikeFrame_partial {r : K → K} (hr : IsSqrt r) (v : Fin (n + 1) → K) (hv : 0 < mink v v) :
    ∀ u ∈ gs (minkJ n) (spacelikeFrame r v), u ≠ 0 := by
  obtain ⟨t, rest, hfr, ht⟩ := spacelikeFrame_timelike hr v hv
  have hfr' : spacelikeFrame r v = [Pi.single 0 1 - gproj (minkJ n) (Pi.single 0 1) (normalizeVec r (minkJ n) v),
      normalizeVec r (minkJ n) v] := rfl
  rw [hfr'] at hfr ⊢
  obtain ⟨rfl, rfl⟩ : Pi.single 0 1 - gproj (minkJ n) (Pi.single 0 1) (normalizeVec r (minkJ n) v) = t ∧
      [normalizeVec r (minkJ n) v] = rest := by
    have := List.cons.inj hfr; exact this
  set vn := normalizeVec r (minkJ n) v with hvn
  obtain ⟨c, hc, h⟩ := mink_normalizeVec hr v
  have hq : mink vn vn ≠ 0 := by rw [h]; exact (mul_pos (mul_self_pos.2 hc) hv).ne'
  have horth : mink vn (Pi.single 0 1 - gproj (minkJ n) (Pi.single 0 1) vn) = 0 := by
    unfold gproj
    rw [← bil_minkJ, bil_sub_right, bil_smul_right, bil_minkJ, bil_minkJ, bil_minkJ,
      mink_comm vn (Pi.single 0 1)]
    field_simp; ring
  rw [gs_pair_orth _ _ horth]
  intro u hu
  rcases List.mem_cons.1 hu with rfl | hu
  · exact ne_zero_of_mink_ne_zero ht.ne
  · have : u = vn := by simpa using hu
    rw [this]; exact ne_zero_of_mink_ne_zero hq

end ordered
end GT.GS
