import GT.Model.Isometry
import GT.Lemmas.Charts
import Mathlib.Algebra.Order.Field.Basic
import Mathlib.Tactic.FieldSimp
import Mathlib.Tactic.Ring
import Mathlib.Tactic.LinearCombination
import Mathlib.Tactic.FinCases
import Mathlib.Tactic.NormNum
import Mathlib.LinearAlgebra.Matrix.Determinant.Basic

open Finset BigOperators Matrix

set_option linter.unusedSectionVars false

namespace GT.Iso

variable {K : Type*} [Field K] {n m : ℕ}

theorem evalWordD_toMatrix {p : ℕ} {K : Type} [Field K] [Inhabited K] (w : List (DMat p p K)) :
    (evalWordD w).toMatrix = evalWord (w.map DMat.toMatrix) := by
  unfold evalWordD evalWord
  suffices H : ∀ (a : DMat p p K) (A : Matrix (Fin p) (Fin p) K), a.toMatrix = A →
      (w.foldl (fun acc l => DMat.ofMatrix (compose acc.toMatrix l.toMatrix)) a).toMatrix
        = (w.map DMat.toMatrix).foldl (fun acc l => compose acc l) A from
    H _ _ (DMat.toMatrix_ofMatrix 1)
  induction w with
  | nil => intro a A h; simpa using h
  | cons l w ih =>
    intro a A h
    simp only [List.foldl_cons, List.map_cons]
    apply ih
    rw [DMat.toMatrix_ofMatrix, h]

theorem isoResidual_eq {K : Type} [Field K] [LinearOrder K] [Inhabited K] {n : ℕ}
    (M : Matrix (Fin (n + 1)) (Fin (n + 1)) K) :
    isoResidual M = maxAbs (M * minkJ n * Mᵀ - minkJ n) := by
  unfold isoResidual; simp

/-! ### the Minkowski form as a matrix -/

@[simp] theorem minkDiag_zero : (minkDiag n : Fin (n + 1) → K) 0 = -1 := rfl
@[simp] theorem minkDiag_succ (i : Fin n) : (minkDiag n : Fin (n + 1) → K) i.succ = 1 := rfl

theorem minkDiag_mul_self (i : Fin (n + 1)) : (minkDiag n : Fin (n + 1) → K) i * minkDiag n i = 1 := by
  refine Fin.cases ?_ (fun j => ?_) i <;> simp

theorem mink_eq_sum (x y : Fin (n + 1) → K) : mink x y = ∑ j, x j * minkDiag n j * y j := by
  unfold mink dot
  rw [Fin.sum_univ_succ]
  simp [Fin.tail]

theorem mink_eq_dotProduct (x y : Fin (n + 1) → K) : mink x y = x ⬝ᵥ (minkJ n *ᵥ y) := by
  rw [mink_eq_sum]
  unfold minkJ dotProduct
  refine Finset.sum_congr rfl fun j _ => ?_
  rw [Matrix.mulVec_diagonal]; ring

@[simp] theorem minkJ_transpose : (minkJ n : Matrix _ _ K)ᵀ = minkJ n := by
  unfold minkJ; exact Matrix.diagonal_transpose _

@[simp] theorem minkJ_mul_self : (minkJ n : Matrix _ _ K) * minkJ n = 1 := by
  unfold minkJ
  rw [Matrix.diagonal_mul_diagonal, ← Matrix.diagonal_one]
  congr 1; funext i; exact minkDiag_mul_self i

theorem mul_minkJ_mul_transpose_apply (M N : Matrix (Fin (n + 1)) (Fin (n + 1)) K) (i k : Fin (n + 1)) :
    (M * (minkJ n : Matrix _ _ K) * Nᵀ) i k = mink (M i) (N k) := by
  rw [mink_eq_sum, Matrix.mul_apply]
  refine Finset.sum_congr rfl fun j _ => ?_
  unfold minkJ
  rw [Matrix.mul_diagonal, Matrix.transpose_apply]

/-- `M` is an isometry iff its rows are Minkowski-orthonormal with signs `(−,+,…,+)` -/
theorem isIso_iff_rows (M : Matrix (Fin (n + 1)) (Fin (n + 1)) K) :
    IsIso M ↔ ∀ i k, mink (M i) (M k) = (minkJ n : Matrix _ _ K) i k := by
  unfold IsIso
  constructor
  · intro h i k; rw [← mul_minkJ_mul_transpose_apply, h]
  · intro h; ext i k; rw [mul_minkJ_mul_transpose_apply, h]

theorem mink_applyRow (M : Matrix (Fin (n + 1)) (Fin (n + 1)) K) (x y : Fin (n + 1) → K) :
    mink (applyRow M x) (applyRow M y) = x ⬝ᵥ ((M * minkJ n * Mᵀ) *ᵥ y) := by
  unfold applyRow
  rw [mink_eq_dotProduct, Matrix.dotProduct_mulVec, Matrix.vecMul_vecMul, ← Matrix.dotProduct_mulVec,
    ← Matrix.mulVec_transpose M y, Matrix.mulVec_mulVec]

/-! ### group laws -/

theorem isIso_one : IsIso (1 : Matrix (Fin (n + 1)) (Fin (n + 1)) K) := by
  unfold IsIso; simp

theorem isIso_mul {A B : Matrix (Fin (n + 1)) (Fin (n + 1)) K} (hA : IsIso A) (hB : IsIso B) :
    IsIso (A * B) := by
  unfold IsIso at *
  rw [Matrix.transpose_mul]
  calc A * B * minkJ n * (Bᵀ * Aᵀ) = A * (B * minkJ n * Bᵀ) * Aᵀ := by simp only [Matrix.mul_assoc]
    _ = minkJ n := by rw [hB, hA]

/-- the inverse of an isometry is `J Mᵀ J` -/
theorem isIso_mul_inv {M : Matrix (Fin (n + 1)) (Fin (n + 1)) K} (h : IsIso M) :
    M * (minkJ n * Mᵀ * minkJ n) = 1 := by
  unfold IsIso at h
  calc M * (minkJ n * Mᵀ * minkJ n) = (M * minkJ n * Mᵀ) * minkJ n := by simp only [Matrix.mul_assoc]
    _ = 1 := by rw [h, minkJ_mul_self]

theorem isIso_inv_eq {M : Matrix (Fin (n + 1)) (Fin (n + 1)) K} (h : IsIso M) :
    M⁻¹ = minkJ n * Mᵀ * minkJ n := Matrix.inv_eq_right_inv (isIso_mul_inv h)

theorem isIso_transpose {M : Matrix (Fin (n + 1)) (Fin (n + 1)) K} (h : IsIso M) : IsIso Mᵀ := by
  have h1 := isIso_mul_inv h
  have h2 : (minkJ n * Mᵀ * minkJ n) * M = 1 := mul_eq_one_comm.1 h1
  unfold IsIso
  rw [Matrix.transpose_transpose]
  calc Mᵀ * minkJ n * M = minkJ n * ((minkJ n * Mᵀ * minkJ n) * M) := by
        simp only [← Matrix.mul_assoc, minkJ_mul_self, Matrix.one_mul]
    _ = minkJ n := by rw [h2, Matrix.mul_one]

theorem isIso_inv {M : Matrix (Fin (n + 1)) (Fin (n + 1)) K} (h : IsIso M) : IsIso M⁻¹ := by
  rw [isIso_inv_eq h]
  have ht := isIso_transpose h
  unfold IsIso at ht ⊢
  rw [Matrix.transpose_mul, Matrix.transpose_mul, Matrix.transpose_transpose, minkJ_transpose]
  calc minkJ n * Mᵀ * minkJ n * minkJ n * (minkJ n * (M * minkJ n))
      = minkJ n * (Mᵀ * (minkJ n * minkJ n) * (minkJ n * M)) * minkJ n := by
        simp only [Matrix.mul_assoc]
    _ = minkJ n * (Mᵀ * minkJ n * Mᵀᵀ) * minkJ n := by
        rw [minkJ_mul_self, Matrix.mul_one, Matrix.transpose_transpose]; simp only [Matrix.mul_assoc]
    _ = minkJ n := by rw [ht]; simp [Matrix.mul_assoc]

theorem isIso_det_sq {M : Matrix (Fin (n + 1)) (Fin (n + 1)) K} (h : IsIso M) : M.det * M.det = 1 := by
  have h1 := congrArg Matrix.det (isIso_mul_inv h)
  rw [Matrix.det_mul, Matrix.det_mul, Matrix.det_mul, Matrix.det_transpose, Matrix.det_one] at h1
  have h2 : (minkJ n : Matrix _ _ K).det * (minkJ n).det = 1 := by
    rw [← Matrix.det_mul, minkJ_mul_self, Matrix.det_one]
  calc M.det * M.det = M.det * ((minkJ n).det * M.det * (minkJ n).det) := by
        rw [show (minkJ n : Matrix _ _ K).det * M.det * (minkJ n).det
          = M.det * ((minkJ n).det * (minkJ n).det) by ring, h2, mul_one]
    _ = 1 := h1

/-! ### block embeddings -/

theorem block2_mul (A B : Matrix (Fin 2) (Fin 2) K) :
    (block2 A : Matrix (Fin (m + 2)) _ K) * block2 B = block2 (A * B) := by
  unfold block2
  rw [Matrix.submatrix_mul_equiv, Matrix.fromBlocks_multiply]
  simp

@[simp] theorem block2_one : (block2 (1 : Matrix (Fin 2) (Fin 2) K) : Matrix (Fin (m + 2)) _ K) = 1 := by
  unfold block2
  rw [Matrix.fromBlocks_one, Matrix.submatrix_one_equiv]

theorem block2_transpose (A : Matrix (Fin 2) (Fin 2) K) :
    (block2 A : Matrix (Fin (m + 2)) _ K)ᵀ = block2 Aᵀ := by
  unfold block2
  rw [Matrix.transpose_submatrix, Matrix.fromBlocks_transpose]
  simp

theorem split2_symm_inl0 : (split2 m).symm (Sum.inl 0) = 0 := by
  apply Fin.ext; simp [split2]
theorem split2_symm_inl1 : (split2 m).symm (Sum.inl 1) = 1 := by
  apply Fin.ext; simp [split2]
theorem split2_symm_inr (j : Fin m) : (split2 m).symm (Sum.inr j) = j.succ.succ := by
  apply Fin.ext; simp [split2] <;> omega

theorem split2_zero : split2 m 0 = Sum.inl 0 := by
  rw [← split2_symm_inl0, Equiv.apply_symm_apply]
theorem split2_one : split2 m 1 = Sum.inl 1 := by
  rw [← split2_symm_inl1, Equiv.apply_symm_apply]
theorem split2_succ_succ (j : Fin m) : split2 m j.succ.succ = Sum.inr j := by
  rw [← split2_symm_inr, Equiv.apply_symm_apply]

/-- `diag(a, b, 1, …, 1)` is the block embedding of `diag(a, b)` -/
theorem diagonal_eq_block2 (a b : K) :
    (Matrix.diagonal (Fin.cons a (Fin.cons b fun _ => 1)) : Matrix (Fin (m + 2)) (Fin (m + 2)) K)
      = block2 !![a, 0; 0, b] := by
  ext i j
  unfold block2
  rw [Matrix.submatrix_apply]
  refine Fin.cases ?_ (fun i => Fin.cases ?_ (fun i => ?_) i) i <;>
    refine Fin.cases ?_ (fun j => Fin.cases ?_ (fun j => ?_) j) j <;>
    simp [split2_zero, split2_one, split2_succ_succ, Matrix.diagonal_apply, Matrix.one_apply,
      Fin.ext_iff]

theorem minkJ_eq_block2 : (minkJ (m + 1) : Matrix (Fin (m + 2)) _ K) = block2 !![-1, 0; 0, 1] := by
  rw [← diagonal_eq_block2]
  unfold minkJ minkDiag
  congr 1
  funext i
  refine Fin.cases ?_ (fun i => Fin.cases ?_ (fun i => ?_) i) i <;> simp

theorem isIso_block2 {A : Matrix (Fin 2) (Fin 2) K}
    (h : A * !![-1, 0; 0, 1] * Aᵀ = !![-1, 0; 0, 1]) : IsIso (block2 A : Matrix (Fin (m + 2)) _ K) := by
  unfold IsIso
  rw [minkJ_eq_block2, block2_transpose, block2_mul, block2_mul, h]

theorem ellipticMat_mink (O : Matrix (Fin n) (Fin n) K) (i k : Fin (n + 1)) :
    mink (ellipticMat O i) (ellipticMat O k) =
      Fin.cases (Fin.cases (-1) (fun _ => 0) k) (fun i' => Fin.cases 0 (fun k' => dot (O i') (O k')) k) i := by
  unfold ellipticMat mink
  refine Fin.cases ?_ (fun i' => ?_) i <;> refine Fin.cases ?_ (fun k' => ?_) k <;>
    simp [Fin.tail, dot]

theorem ellipticMat_isIso {O : Matrix (Fin n) (Fin n) K} (h : O * Oᵀ = 1) : IsIso (ellipticMat O) := by
  rw [isIso_iff_rows]
  intro i k
  rw [ellipticMat_mink]
  have hd : ∀ i' k', dot (O i') (O k') = (1 : Matrix (Fin n) (Fin n) K) i' k' := by
    intro i' k'; rw [← h, Matrix.mul_apply]; rfl
  unfold minkJ
  refine Fin.cases ?_ (fun i' => ?_) i <;> refine Fin.cases ?_ (fun k' => ?_) k
  · simp
  · simp [Matrix.diagonal_apply, Fin.succ_ne_zero, (Fin.succ_ne_zero _).symm]
  · simp [Matrix.diagonal_apply, Fin.succ_ne_zero]
  · simp only [Fin.cases_succ, hd, Matrix.one_apply, Matrix.diagonal_apply, Fin.succ_inj]
    split_ifs <;> simp_all

theorem rotation2_orth {c s : K} (h : c ^ 2 + s ^ 2 = 1) : rotation2 c s * (rotation2 c s)ᵀ = 1 := by
  ext i j
  fin_cases i <;> fin_cases j <;> simp [rotation2, Matrix.mul_apply, Fin.sum_univ_succ] <;>
    first | ring1 | linear_combination h

/-! ### the two constant inverses -/

theorem loxB_mul_loxBinv [CharZero K] : (loxB : Matrix (Fin (m + 2)) _ K) * loxBinv = 1 := by
  unfold loxB loxBinv
  rw [block2_mul]
  have : (!![1, 1; 1, -1] : Matrix (Fin 2) (Fin 2) K) * !![1 / 2, 1 / 2; 1 / 2, -(1 / 2)] = 1 := by
    ext i j; fin_cases i <;> fin_cases j <;> simp [Matrix.mul_apply, Fin.sum_univ_succ] <;> norm_num
  rw [this, block2_one]

theorem loxBinv_eq_inv [CharZero K] : (loxBinv : Matrix (Fin (m + 2)) _ K) = loxB⁻¹ :=
  (Matrix.inv_eq_right_inv loxB_mul_loxBinv).symm

theorem killingConj_mul_inv [CharZero K] : (killingConj : Matrix _ _ K) * killingConjInv = 1 := by
  ext i j
  fin_cases i <;> fin_cases j <;>
    simp [killingConj, killingConjInv, Matrix.mul_apply, Fin.sum_univ_succ] <;> norm_num

theorem killingConjInv_eq_inv [CharZero K] : (killingConjInv : Matrix _ _ K) = killingConj⁻¹ :=
  (Matrix.inv_eq_right_inv killingConj_mul_inv).symm

/-! ### loxodromic -/

theorem loxodromicMat_eq (u : K) :
    (loxodromicMat u : Matrix (Fin (m + 2)) _ K)
      = block2 (!![1, 1; 1, -1] * !![u, 0; 0, 1 / u] * !![1 / 2, 1 / 2; 1 / 2, -(1 / 2)]) := by
  unfold loxodromicMat loxB loxBinv loxDiag
  rw [diagonal_eq_block2, block2_mul, block2_mul]

theorem loxodromicMat_isIso [CharZero K] {u : K} (hu : u ≠ 0) :
    IsIso (loxodromicMat u : Matrix (Fin (m + 2)) _ K) := by
  rw [loxodromicMat_eq]
  apply isIso_block2
  ext i j
  fin_cases i <;> fin_cases j <;>
    simp [Matrix.mul_apply, Fin.sum_univ_succ] <;> field_simp <;> ring

/-! ### `sl2_to_so21` -/

theorem sl2Irrep3_eq (A : Matrix (Fin 2) (Fin 2) K) :
    sl2Irrep3 A = !![A 1 1 ^ 2, A 1 0 * A 1 1, A 1 0 ^ 2;
                     2 * A 0 1 * A 1 1, A 0 0 * A 1 1 + A 0 1 * A 1 0, 2 * A 0 0 * A 1 0;
                     A 0 1 ^ 2, A 0 0 * A 0 1, A 0 0 ^ 2] := by
  ext j k
  fin_cases j <;> fin_cases k <;>
    (simp [sl2Irrep3, sl2IrrepEntry, Finset.sum_range_succ, Nat.choose]; try ring)

/-- closed form: the classical `SL(2) → SO(2,1)` matrix in the coordinates of the library -/
theorem sl2ToSo21_eq [CharZero K] (A : Matrix (Fin 2) (Fin 2) K) :
    sl2ToSo21 A =
      !![(A 0 0 ^ 2 + A 0 1 ^ 2 + A 1 0 ^ 2 + A 1 1 ^ 2) / 2, -((A 0 0 ^ 2 - A 0 1 ^ 2 + A 1 0 ^ 2 - A 1 1 ^ 2) / 2), A 0 0 * A 0 1 + A 1 0 * A 1 1;
         -((A 0 0 ^ 2 + A 0 1 ^ 2 - A 1 0 ^ 2 - A 1 1 ^ 2) / 2), (A 0 0 ^ 2 - A 0 1 ^ 2 - A 1 0 ^ 2 + A 1 1 ^ 2) / 2, -(A 0 0 * A 0 1) + A 1 0 * A 1 1;
         A 0 0 * A 1 0 + A 0 1 * A 1 1, -(A 0 0 * A 1 0) + A 0 1 * A 1 1, A 0 0 * A 1 1 + A 0 1 * A 1 0] := by
  unfold sl2ToSo21
  rw [sl2Irrep3_eq]
  ext i j
  fin_cases i <;> fin_cases j <;>
    simp [perm210, killingConj, killingConjInv, Matrix.mul_apply, Fin.sum_univ_succ] <;> ring

/-! ### preserving the form -/

/-- `IsIso M` says exactly that `x ↦ xM` preserves the Minkowski form -/
theorem isIso_iff_preserves' (M : Matrix (Fin (n + 1)) (Fin (n + 1)) K) :
    IsIso M ↔ ∀ x y, mink (applyRow M x) (applyRow M y) = mink x y := by
  constructor
  · intro h x y
    rw [mink_applyRow, h, mink_eq_dotProduct]
  · intro h
    rw [isIso_iff_rows]
    intro i k
    have := h (Pi.single i 1) (Pi.single k 1)
    unfold applyRow at this
    rw [Matrix.single_one_vecMul, Matrix.single_one_vecMul] at this
    change mink (M i) (M k) = _ at this
    rw [this, mink_eq_dotProduct, Matrix.mulVec_single_one, single_one_dotProduct]
    rfl

theorem mink_sub_mul_left (x d y : Fin (n + 1) → K) (c : K) :
    mink (fun j => x j - c * d j) y = mink x y - c * mink d y := by
  simp only [mink_eq_sum]
  rw [Finset.mul_sum, ← Finset.sum_sub_distrib]
  exact Finset.sum_congr rfl fun j _ => by ring

theorem mink_sub_mul_right (x d y : Fin (n + 1) → K) (c : K) :
    mink y (fun j => x j - c * d j) = mink y x - c * mink y d := by
  rw [mink_comm, mink_sub_mul_left, mink_comm x, mink_comm d]

/-- scale factor applied by `utils.normalize` to a vector of square-norm `q` -/
def normFactor [LinearOrder K] (r : K → K) (q : K) : K := if r |q| = 0 then 1 else 1 / r |q|

theorem normalize_eq_scale [LinearOrder K] (r : K → K) (x : Fin (n + 1) → K) :
    normalize r x = fun i => x i * normFactor r (mink x x) := by
  unfold normalize normFactor
  split_ifs with h
  · funext i; simp
  · funext i; rw [mul_one_div]

/-- `coshDist` depends on the two vectors only through their three Minkowski products -/
theorem coshDist_eq_scaled [LinearOrder K] (r : K → K) (x y : Fin (n + 1) → K) :
    coshDist r x y = |normFactor r (mink x x) * (normFactor r (mink y y) * mink x y)| := by
  unfold coshDist
  rw [normalize_eq_scale, normalize_eq_scale, mink_smul_left, mink_smul_right]

/-! ### reflections -/

theorem reflClosed_applyRow (d x : Fin (n + 1) → K) :
    applyRow (reflClosed d) x = fun j => x j - 2 * mink x d / mink d d * d j := by
  funext j
  unfold applyRow reflClosed Matrix.vecMul dotProduct
  have : ∀ i, x i * ((if i = j then 1 else 0) - 2 * (minkDiag n i * d i) * d j / mink d d)
      = (if i = j then x i else 0) - (2 / mink d d * d j) * (x i * minkDiag n i * d i) := by
    intro i; split_ifs <;> ring
  simp only [this]
  rw [Finset.sum_sub_distrib, Finset.sum_ite_eq' Finset.univ j, if_pos (Finset.mem_univ j),
    ← Finset.mul_sum, ← mink_eq_sum]
  ring

theorem reflClosed_apply_self (d : Fin (n + 1) → K) (hq : mink d d ≠ 0) :
    applyRow (reflClosed d) d = -d := by
  rw [reflClosed_applyRow]; funext j; simp only [Pi.neg_apply]; field_simp; ring

theorem reflClosed_apply_orth (d x : Fin (n + 1) → K) (h : mink x d = 0) :
    applyRow (reflClosed d) x = x := by
  rw [reflClosed_applyRow, h]; funext j; simp

theorem reflClosed_isIso (d : Fin (n + 1) → K) (hq : mink d d ≠ 0) : IsIso (reflClosed d) := by
  rw [isIso_iff_preserves']
  intro x y
  rw [reflClosed_applyRow, reflClosed_applyRow, mink_sub_mul_left, mink_sub_mul_right,
    mink_sub_mul_right, mink_comm d y]
  field_simp; ring

theorem matrix_eq_of_applyRow {p : ℕ} {A B : Matrix (Fin p) (Fin p) K}
    (h : ∀ x, applyRow A x = applyRow B x) : A = B := by
  ext i j
  have := congrFun (h (Pi.single i 1)) j
  unfold applyRow at this
  rwa [Matrix.single_one_vecMul, Matrix.single_one_vecMul] at this

theorem applyRow_mul {p : ℕ} (A B : Matrix (Fin p) (Fin p) K) (x : Fin p → K) :
    applyRow (A * B) x = applyRow B (applyRow A x) := by
  unfold applyRow; rw [Matrix.vecMul_vecMul]

theorem reflClosed_sq (d : Fin (n + 1) → K) (hq : mink d d ≠ 0) :
    reflClosed d * reflClosed d = 1 := by
  apply matrix_eq_of_applyRow
  intro x
  rw [applyRow_mul]
  have h1 : applyRow (1 : Matrix (Fin (n + 1)) (Fin (n + 1)) K) x = x := by
    unfold applyRow; exact Matrix.vecMul_one x
  rw [h1, reflClosed_applyRow d x, reflClosed_applyRow, mink_sub_mul_left]
  funext j; field_simp; ring

/-- `invert(D) @ minkowski @ D` is the closed-form reflection in row 0 of `D` -/
theorem reflectAcross_eq_closed (D : Matrix (Fin (n + 1)) (Fin (n + 1)) K) (hD : IsUnit D.det)
    (hq : mink (D 0) (D 0) ≠ 0) (horth : ∀ i : Fin n, mink (D i.succ) (D 0) = 0) :
    reflectAcross D = reflClosed (D 0) := by
  have key : minkJ n * D = D * reflClosed (D 0) := by
    ext i j
    rw [congrFun (Matrix.mul_apply_eq_vecMul D (reflClosed (D 0)) i) j]
    change _ = applyRow (reflClosed (D 0)) (D i) j
    unfold minkJ
    rw [Matrix.diagonal_mul]
    refine Fin.cases ?_ (fun i' => ?_) i
    · rw [reflClosed_apply_self _ hq]; simp
    · rw [reflClosed_apply_orth _ _ (horth i')]; simp
  unfold reflectAcross
  rw [Matrix.mul_assoc, key, ← Matrix.mul_assoc, Matrix.nonsing_inv_mul _ hD, Matrix.one_mul]

end GT.Iso
