/-
Fox calculus (C05): free reduction (`simplify_word`), the `defaultdict` arithmetic of
`utils/words.py`, the evaluation of a formal integer combination of words under a
representation, and the fundamental formula  ρ(w) - 1 = Σ_g D_g(w) (ρ(g) - 1).
-/
import Mathlib.Data.List.Chain
import Mathlib.Data.List.Nodup
import Mathlib.Algebra.BigOperators.Group.List.Basic
import Mathlib.Algebra.Module.Defs
import Mathlib.Data.Matrix.Basic
import GT.Lemmas.Rep

namespace GT
namespace Fox

/-! ## free reduction -/

/-- freely reduced word: no letter is followed by the inverse of its predecessor -/
def Red (inv : Gen → Gen) (k : Word) : Prop := List.IsChain (fun a b => b ≠ inv a) k

/-- the invariant of the (reversed) stack of `simplify_word` -/
def RedS (inv : Gen → Gen) (s : List Gen) : Prop := List.IsChain (fun l t => l ≠ inv t) s

theorem redS_reverse {inv : Gen → Gen} {s : List Gen} : Red inv s.reverse ↔ RedS inv s :=
  List.isChain_reverse

theorem red_reverse {inv : Gen → Gen} {s : List Gen} : RedS inv s.reverse ↔ Red inv s :=
  List.isChain_reverse

theorem simplifyStep_nil (inv : Gen → Gen) (l : Gen) : simplifyStep inv [] l = [l] := rfl

theorem simplifyStep_cons (inv : Gen → Gen) (t : Gen) (rest : List Gen) (l : Gen) :
    simplifyStep inv (t :: rest) l = if l ≠ inv t then l :: t :: rest else rest := rfl

theorem simplifyStep_redS {inv : Gen → Gen} {s : List Gen} (hs : RedS inv s) (l : Gen) :
    RedS inv (simplifyStep inv s l) := by
  cases s with
  | nil => exact List.isChain_singleton _
  | cons t rest =>
    rw [simplifyStep_cons]
    split_ifs with h
    · exact List.isChain_cons_cons.2 ⟨h, hs⟩
    · exact List.IsChain.tail hs

theorem foldl_redS {inv : Gen → Gen} (w : Word) {s : List Gen} (hs : RedS inv s) :
    RedS inv (w.foldl (simplifyStep inv) s) := by
  induction w generalizing s with
  | nil => exact hs
  | cons l w ih => exact ih (simplifyStep_redS hs l)

/-- the output of `simplify_word` is freely reduced -/
theorem simplifyWord_red (inv : Gen → Gen) (w : Word) : Red inv (simplifyWord inv w) :=
  redS_reverse.2 (foldl_redS w List.isChain_nil)

/-- on a reduced continuation the stack machine only pushes -/
theorem foldl_of_red {inv : Gen → Gen} (w : Word) (s : List Gen)
    (h : Red inv (s.reverse ++ w)) : w.foldl (simplifyStep inv) s = w.reverse ++ s := by
  induction w generalizing s with
  | nil => rfl
  | cons l w ih =>
    have h' : Red inv ((l :: s).reverse ++ w) := by simpa using h
    cases s with
    | nil =>
      rw [List.foldl_cons]
      change w.foldl (simplifyStep inv) [l] = _
      rw [ih [l] h']; simp
    | cons t rest =>
      have hlt : l ≠ inv t := by
        have h1 : Red inv (rest.reverse ++ ([t] ++ (l :: w))) := by simpa using h
        have h2 := (List.isChain_append.1 h1).2.1
        exact (List.isChain_cons_cons.1 h2).1
      rw [List.foldl_cons]
      have : simplifyStep inv (t :: rest) l = l :: t :: rest := by
        rw [simplifyStep_cons, if_pos hlt]
      rw [this, ih _ h']; simp

/-- `simplify_word` is the identity on freely reduced words -/
theorem simplifyWord_of_red {inv : Gen → Gen} {k : Word} (h : Red inv k) :
    simplifyWord inv k = k := by
  unfold simplifyWord
  rw [foldl_of_red k [] (by simpa using h)]; simp

/-- freely reduced ⇔ fixed by `simplify_word` -/
theorem red_iff_simplifyWord_eq {inv : Gen → Gen} {k : Word} :
    Red inv k ↔ simplifyWord inv k = k :=
  ⟨simplifyWord_of_red, fun h => h ▸ simplifyWord_red inv k⟩

theorem simplifyWord_idem (inv : Gen → Gen) (w : Word) :
    simplifyWord inv (simplifyWord inv w) = simplifyWord inv w :=
  simplifyWord_of_red (simplifyWord_red inv w)

/-- left multiplication of a reduced word by a letter, followed by free reduction -/
def lmul (inv : Gen → Gen) (x : Gen) : Word → Word
  | [] => [x]
  | y :: k => if y = inv x then k else x :: y :: k

theorem lmul_nil (inv : Gen → Gen) (x : Gen) : lmul inv x [] = [x] := rfl

theorem lmul_cons (inv : Gen → Gen) (x y : Gen) (k : Word) :
    lmul inv x (y :: k) = if y = inv x then k else x :: y :: k := rfl

theorem red_tail {inv : Gen → Gen} {y : Gen} {k : Word} (h : Red inv (y :: k)) : Red inv k :=
  List.IsChain.tail h

/-- characterisation of the stack machine on `x :: k`, `k` reduced -/
theorem simplifyWord_cons_of_red {inv : Gen → Gen} (x : Gen) {k : Word} (h : Red inv k) :
    simplifyWord inv (x :: k) = lmul inv x k := by
  cases k with
  | nil => rfl
  | cons y k =>
    rw [lmul_cons]
    split_ifs with hy
    · unfold simplifyWord
      rw [List.foldl_cons, List.foldl_cons]
      have : simplifyStep inv (simplifyStep inv [] x) y = [] := by
        simp [simplifyStep_nil, simplifyStep_cons, hy]
      rw [this]
      exact simplifyWord_of_red (red_tail h)
    · exact simplifyWord_of_red (List.isChain_cons_cons.2 ⟨hy, h⟩)

/-- left multiplication by an involutive letter is injective on reduced words -/
theorem lmul_injective {inv : Gen → Gen} {x : Gen} (hx : inv (inv x) = x) {k₁ k₂ : Word}
    (h₁ : Red inv k₁) (h₂ : Red inv k₂) (h : lmul inv x k₁ = lmul inv x k₂) : k₁ = k₂ := by
  -- a reduced word cannot begin with `inv x, x`
  have key : ∀ k k' : Word, Red inv (inv x :: k) → k = x :: k' → False := by
    intro k k' hr hk
    subst hk
    exact (List.isChain_cons_cons.1 hr).1 hx.symm
  cases k₁ with
  | nil =>
    cases k₂ with
    | nil => rfl
    | cons y₂ k₂ =>
      rw [lmul_nil, lmul_cons] at h
      split_ifs at h with hy
      · subst hy; exact (key _ [] h₂ h.symm).elim
      · simp at h
  | cons y₁ k₁ =>
    cases k₂ with
    | nil =>
      rw [lmul_nil, lmul_cons] at h
      split_ifs at h with hy
      · subst hy; exact (key _ [] h₁ h).elim
      · simp at h
    | cons y₂ k₂ =>
      rw [lmul_cons, lmul_cons] at h
      split_ifs at h with hy₁ hy₂ hy₂
      · rw [hy₁, hy₂, h]
      · subst hy₁; exact (key _ _ h₁ h).elim
      · subst hy₂; exact (key _ _ h₂ h.symm).elim
      · simpa using h

theorem simplifyWord_cons_injective {inv : Gen → Gen} {x : Gen} (hx : inv (inv x) = x)
    {k₁ k₂ : Word} (h₁ : Red inv k₁) (h₂ : Red inv k₂)
    (h : simplifyWord inv (x :: k₁) = simplifyWord inv (x :: k₂)) : k₁ = k₂ := by
  rw [simplifyWord_cons_of_red x h₁, simplifyWord_cons_of_red x h₂] at h
  exact lmul_injective hx h₁ h₂ h

/-! ## Python dicts (`dset`, `dget`) -/

section dict
variable {κ ν : Type} [DecidableEq κ]

theorem dset_of_not_mem {d : List (κ × ν)} {k : κ} (v : ν) (h : k ∉ d.map Prod.fst) :
    dset d k v = d ++ [(k, v)] := by
  induction d with
  | nil => rfl
  | cons kv d ih =>
    obtain ⟨k', v'⟩ := kv
    simp only [List.map_cons, List.mem_cons, not_or] at h
    simp only [dset, List.cons_append]
    rw [if_neg (fun e => h.1 e.symm), ih h.2]

theorem keys_dset (d : List (κ × ν)) (k : κ) (v : ν) :
    (dset d k v).map Prod.fst
      = if k ∈ d.map Prod.fst then d.map Prod.fst else d.map Prod.fst ++ [k] := by
  induction d with
  | nil => simp [dset]
  | cons kv d ih =>
    obtain ⟨k', v'⟩ := kv
    simp only [dset]
    by_cases e : k' = k
    · subst e; simp
    · rw [if_neg e]
      simp only [List.map_cons, ih, List.mem_cons]
      have : ¬ k = k' := fun h => e h.symm
      by_cases hm : k ∈ d.map Prod.fst <;> simp [hm, this]

theorem mem_keys_dset {d : List (κ × ν)} {k k' : κ} {v : ν}
    (h : k' ∈ (dset d k v).map Prod.fst) : k' ∈ d.map Prod.fst ∨ k' = k := by
  rw [keys_dset] at h
  split_ifs at h
  · exact Or.inl h
  · simpa using h

theorem nodup_keys_dset {d : List (κ × ν)} (h : (d.map Prod.fst).Nodup) (k : κ) (v : ν) :
    ((dset d k v).map Prod.fst).Nodup := by
  rw [keys_dset]
  split_ifs with hm
  · exact h
  · exact List.Nodup.append h (List.nodup_singleton k) (by simpa using hm)

theorem dget_dset_self (d : List (κ × ν)) (k : κ) (v : ν) : dget (dset d k v) k = some v := by
  induction d with
  | nil => simp [dset, dget]
  | cons kv d ih =>
    obtain ⟨k', v'⟩ := kv
    simp only [dset]
    by_cases e : k' = k
    · simp [e, dget]
    · simp [e, dget, ih]

theorem dget_dset_ne (d : List (κ × ν)) {k k' : κ} (v : ν) (h : k' ≠ k) :
    dget (dset d k v) k' = dget d k' := by
  induction d with
  | nil => simp [dset, dget, h.symm]
  | cons kv d ih =>
    obtain ⟨k'', v''⟩ := kv
    simp only [dset]
    by_cases e : k'' = k
    · subst e; simp [dget, h.symm]
    · rw [if_neg e]; simp only [dget, ih]

theorem dget_eq_none_iff (d : List (κ × ν)) (k : κ) : dget d k = none ↔ k ∉ d.map Prod.fst := by
  induction d with
  | nil => simp [dget]
  | cons kv d ih =>
    obtain ⟨k', v'⟩ := kv
    simp only [dget, List.map_cons, List.mem_cons, not_or]
    by_cases e : k' = k
    · subst e; simp
    · have : ¬ k = k' := fun h => e h.symm
      simp [e, ih, this]

/-- a dict comprehension `{f k: v for k, v in l}` whose new keys are pairwise distinct (and
fresh) does not merge anything: it is a `map` -/
theorem foldl_dset_map {κ' : Type} (f : κ' → κ) (l : List (κ' × ν)) (acc : List (κ × ν))
    (hfresh : ∀ k ∈ l.map (fun kv => f kv.1), k ∉ acc.map Prod.fst)
    (hnd : (l.map (fun kv => f kv.1)).Nodup) :
    l.foldl (fun acc kv => dset acc (f kv.1) kv.2) acc
      = acc ++ l.map (fun kv => (f kv.1, kv.2)) := by
  induction l generalizing acc with
  | nil => simp
  | cons kv l ih =>
    simp only [List.map_cons, List.nodup_cons, List.mem_cons, forall_eq_or_imp] at hfresh hnd
    rw [List.foldl_cons, dset_of_not_mem _ hfresh.1, ih]
    · simp
    · intro k hk
      simp only [List.map_append, List.map_cons, List.map_nil, List.mem_append,
        List.mem_singleton, not_or]
      refine ⟨hfresh.2 k hk, ?_⟩
      rintro rfl
      exact hnd.1 hk
    · exact hnd.2

/-- every dict built by successive `d[k] = v` has distinct keys -/
theorem foldl_dset_nodup {α : Type} (K : α → κ) (F : List (κ × ν) → α → ν) (l : List α)
    (acc : List (κ × ν)) (h : (acc.map Prod.fst).Nodup) :
    ((l.foldl (fun acc a => dset acc (K a) (F acc a)) acc).map Prod.fst).Nodup := by
  induction l generalizing acc with
  | nil => exact h
  | cons a l ih => exact ih _ (nodup_keys_dset h _ _)

theorem foldl_dset_keys {α : Type} (K : α → κ) (F : List (κ × ν) → α → ν) (l : List α)
    (acc : List (κ × ν)) :
    ∀ k ∈ (l.foldl (fun acc a => dset acc (K a) (F acc a)) acc).map Prod.fst,
      k ∈ acc.map Prod.fst ∨ k ∈ l.map K := by
  induction l generalizing acc with
  | nil => intro k hk; exact Or.inl hk
  | cons a l ih =>
    intro k hk
    rcases ih _ k hk with h | h
    · rcases mem_keys_dset h with h | h
      · exact Or.inl h
      · exact Or.inr (by simp [h])
    · exact Or.inr (by simp [h])

end dict

/-! ## the `ZWord` operations -/

theorem zsimplify_eq_map (inv : Gen → Gen) (z : ZWord)
    (hnd : (z.map (fun kv => simplifyWord inv kv.1)).Nodup) :
    zsimplify inv z = z.map (fun kv => (simplifyWord inv kv.1, kv.2)) := by
  unfold zsimplify
  rw [foldl_dset_map (simplifyWord inv) z [] (by simp) hnd]; simp

/-- **no-merge**: on a dict with distinct freely reduced keys, `act_left(x, ·)` with an
involutive letter `x` neither overwrites an entry in the product dict nor in `simplify` -/
theorem actLeft_eq_map {inv : Gen → Gen} {x : Gen} (hx : inv (inv x) = x) {d : ZWord}
    (hnd : (d.map Prod.fst).Nodup) (hred : ∀ k ∈ d.map Prod.fst, Red inv k) :
    actLeft inv [x] d = d.map (fun kv => (simplifyWord inv (x :: kv.1), kv.2)) := by
  unfold actLeft
  have h1 : (d.map (fun kv => [x] ++ kv.1)).Nodup := by
    have : d.map (fun kv => [x] ++ kv.1) = (d.map Prod.fst).map (fun k => x :: k) := by
      simp [List.map_map, Function.comp_def]
    rw [this]
    exact List.Nodup.map (fun a b h => by simpa using h) hnd
  rw [foldl_dset_map (fun k => [x] ++ k) d [] (by simp) h1, List.nil_append,
    zsimplify_eq_map]
  · simp [List.map_map, Function.comp_def]
  · simp only [List.map_map, Function.comp_def, List.singleton_append]
    have : d.map (fun kv => simplifyWord inv (x :: kv.1))
        = (d.map Prod.fst).map (fun k => simplifyWord inv (x :: k)) := by
      simp [List.map_map, Function.comp_def]
    rw [this]
    exact List.Nodup.map_on
      (fun a ha b hb h => simplifyWord_cons_injective hx (hred a ha) (hred b hb) h) hnd

theorem actLeft_keys_nodup (inv : Gen → Gen) (u : Word) (d : ZWord) :
    ((actLeft inv u d).map Prod.fst).Nodup := by
  unfold actLeft zsimplify
  exact foldl_dset_nodup (fun kv : Word × Int => simplifyWord inv kv.1) (fun _ kv => kv.2) _ []
    List.nodup_nil

theorem zsimplify_keys_red (inv : Gen → Gen) (z : ZWord) :
    ∀ k ∈ (zsimplify inv z).map Prod.fst, Red inv k := by
  intro k hk
  unfold zsimplify at hk
  rcases foldl_dset_keys (fun kv : Word × Int => simplifyWord inv kv.1) (fun _ kv => kv.2) z [] k hk
    with h | h
  · simp at h
  · obtain ⟨kv, _, rfl⟩ := List.mem_map.1 h
    exact simplifyWord_red inv _

theorem zsum_keys_nodup (d₁ d₂ : ZWord) : ((zsum d₁ d₂).map Prod.fst).Nodup := by
  unfold zsum
  refine foldl_dset_nodup (fun kv : Word × Int => kv.1)
    (fun acc kv => (dget acc kv.1).getD 0 + kv.2) d₂ _ ?_
  exact foldl_dset_nodup (fun kv : Word × Int => kv.1) (fun _ kv => kv.2) d₁ [] List.nodup_nil

theorem zsum_keys (d₁ d₂ : ZWord) :
    ∀ k ∈ (zsum d₁ d₂).map Prod.fst, k ∈ d₁.map Prod.fst ∨ k ∈ d₂.map Prod.fst := by
  intro k hk
  unfold zsum at hk
  rcases foldl_dset_keys (fun kv : Word × Int => kv.1)
    (fun acc kv => (dget acc kv.1).getD 0 + kv.2) d₂ _ k hk with h | h
  · rcases foldl_dset_keys (fun kv : Word × Int => kv.1) (fun _ kv => kv.2) d₁ [] k h with h | h
    · simp at h
    · exact Or.inl h
  · exact Or.inr h

theorem foxLetter_keys_nodup (inv : Gen → Gen) (g x : Gen) :
    ((foxLetter inv g x).map Prod.fst).Nodup := by
  unfold foxLetter; split_ifs <;> simp

theorem foxLetter_keys_red (inv : Gen → Gen) (g x : Gen) :
    ∀ k ∈ (foxLetter inv g x).map Prod.fst, Red inv k := by
  unfold foxLetter
  split_ifs <;> simp [Red]

/-- **(1)** the dict returned by `fox_word_derivative` has pairwise distinct, freely reduced
keys (no hypothesis on `inv` is needed for this; the involution hypothesis enters in
`actLeft_eq_map`) -/
theorem foxDeriv_keys (inv : Gen → Gen) (g : Gen) (w : Word) {d : ZWord}
    (h : foxDeriv inv g w = some d) :
    (d.map Prod.fst).Nodup ∧ ∀ k ∈ d.map Prod.fst, Red inv k := by
  match w, h with
  | [x], h =>
    simp only [foxDeriv, Option.some.injEq] at h
    subst h
    exact ⟨foxLetter_keys_nodup inv g x, foxLetter_keys_red inv g x⟩
  | x :: y :: w, h =>
    simp only [foxDeriv] at h
    cases hd : foxDeriv inv g (y :: w) with
    | none => rw [hd] at h; cases h
    | some d' =>
      rw [hd] at h
      simp only [Option.some.injEq] at h
      subst h
      refine ⟨zsum_keys_nodup _ _, fun k hk => ?_⟩
      rcases zsum_keys _ _ k hk with h | h
      · exact foxLetter_keys_red inv g x k h
      · exact zsimplify_keys_red inv _ k h

theorem foxDeriv_keys_simplify (inv : Gen → Gen) (g : Gen) (w : Word) {d : ZWord}
    (h : foxDeriv inv g w = some d) :
    (d.map Prod.fst).Nodup ∧ ∀ k ∈ d.map Prod.fst, simplifyWord inv k = k :=
  ⟨(foxDeriv_keys inv g w h).1, fun k hk => simplifyWord_of_red ((foxDeriv_keys inv g w h).2 k hk)⟩

theorem foxDeriv_isSome (inv : Gen → Gen) (g : Gen) {w : Word} (hw : w ≠ []) :
    ∃ d, foxDeriv inv g w = some d := by
  induction w with
  | nil => exact (hw rfl).elim
  | cons x w ih =>
    cases w with
    | nil => exact ⟨_, rfl⟩
    | cons y w =>
      obtain ⟨d, hd⟩ := ih (by simp)
      refine ⟨zsum (foxLetter inv g x) (actLeft inv [x] d), ?_⟩
      simp only [foxDeriv, hd]

/-! ## free reduction does not change the image of a word -/

section rep
open Matrix
variable {n : ℕ} {R : Type} [Inhabited R] [CommRing R]

theorem ok_inj {α : Type} {a b : α} (h : (Except.ok a : M? α) = .ok b) : a = b := by
  cases h; rfl

theorem value_foldl_simplify {ρ : Rep n R} (hρ : ρ.Coherent) (w : Word) (s : List Gen)
    {A : Matrix (Fin n) (Fin n) R} (h : ρ.value (s.reverse ++ w) = .ok A) :
    ρ.value ((w.foldl (simplifyStep ρ.inv) s).reverse) = .ok A := by
  induction w generalizing s with
  | nil => simpa using h
  | cons l w ih =>
    rw [List.foldl_cons]
    cases s with
    | nil => exact ih [l] (by simpa using h)
    | cons t rest =>
      rw [simplifyStep_cons]
      split_ifs with hl
      · exact ih (l :: t :: rest) (by simpa using h)
      · have hl' : l = ρ.inv t := not_not.1 hl
        subst hl'
        have h1 : ρ.value (rest.reverse ++ ([t] ++ ([ρ.inv t] ++ w))) = .ok A := by simpa using h
        obtain ⟨S, X, hS, hX, rfl⟩ := Rep.value_append_inv ρ h1
        obtain ⟨T, Y, hT, hY, rfl⟩ := Rep.value_append_inv ρ hX
        obtain ⟨T', W, hT', hW, rfl⟩ := Rep.value_append_inv ρ hY
        rw [Rep.value_singleton] at hT hT'
        obtain ⟨B, hB, hTB, _⟩ := hρ t T hT
        have : T' = B := ok_inj (hT'.symm.trans hB)
        subst this
        apply ih rest
        rw [Rep.value_append_ok ρ hS hW, ← Matrix.mul_assoc T, hTB, Matrix.one_mul]

/-- `ρ(simplify_word(w)) = ρ(w)` for a representation whose inverse letters carry inverse
matrices -/
theorem value_simplify {ρ : Rep n R} (hρ : ρ.Coherent) {w : Word}
    {A : Matrix (Fin n) (Fin n) R} (h : ρ.value w = .ok A) :
    ρ.value (simplifyWord ρ.inv w) = .ok A :=
  value_foldl_simplify hρ w [] (by simpa using h)

/-! ## evaluation of a formal integer combination of words -/

/-- `Σ_{(k,c) ∈ d} c • ρ(k)`; the error of the first key without a value otherwise -/
def evZ (ρ : Rep n R) : ZWord → M? (Matrix (Fin n) (Fin n) R)
  | [] => .ok 0
  | kc :: d => do
    let v ← ρ.value kc.1
    let s ← evZ ρ d
    pure ((kc.2 : R) • v + s)

theorem evZ_nil (ρ : Rep n R) : evZ ρ [] = .ok 0 := rfl

theorem evZ_nil_inv {ρ : Rep n R} {A : Matrix (Fin n) (Fin n) R} (h : evZ ρ [] = .ok A) :
    A = 0 := ok_inj (h.symm.trans (evZ_nil ρ))

theorem evZ_cons_ok {ρ : Rep n R} {k : Word} {c : Int} {d : ZWord}
    {V S : Matrix (Fin n) (Fin n) R} (hV : ρ.value k = .ok V) (hS : evZ ρ d = .ok S) :
    evZ ρ ((k, c) :: d) = .ok ((c : R) • V + S) := by
  simp only [evZ, hV, hS]; rfl

theorem evZ_cons_inv {ρ : Rep n R} {k : Word} {c : Int} {d : ZWord}
    {T : Matrix (Fin n) (Fin n) R} (h : evZ ρ ((k, c) :: d) = .ok T) :
    ∃ V S, ρ.value k = .ok V ∧ evZ ρ d = .ok S ∧ T = (c : R) • V + S := by
  simp only [evZ] at h
  cases hV : ρ.value k with
  | error e => rw [hV] at h; cases h
  | ok V =>
    cases hS : evZ ρ d with
    | error e => rw [hV, hS] at h; cases h
    | ok S =>
      rw [hV, hS] at h
      exact ⟨V, S, rfl, rfl, (ok_inj h).symm⟩

theorem evZ_append_ok {ρ : Rep n R} {d₁ d₂ : ZWord} {A B : Matrix (Fin n) (Fin n) R}
    (h₁ : evZ ρ d₁ = .ok A) (h₂ : evZ ρ d₂ = .ok B) : evZ ρ (d₁ ++ d₂) = .ok (A + B) := by
  induction d₁ generalizing A with
  | nil => obtain rfl := evZ_nil_inv h₁; simpa using h₂
  | cons kc d₁ ih =>
    obtain ⟨k, c⟩ := kc
    obtain ⟨V, S, hV, hS, rfl⟩ := evZ_cons_inv h₁
    rw [List.cons_append, evZ_cons_ok hV (ih hS), add_assoc]

/-- `z[k] += c` on a `defaultdict(int)` adds `c • ρ(k)` to the value -/
theorem evZ_dset_add {ρ : Rep n R} {acc : ZWord} {k : Word} (c : Int)
    {A V : Matrix (Fin n) (Fin n) R} (hA : evZ ρ acc = .ok A) (hV : ρ.value k = .ok V) :
    evZ ρ (dset acc k ((dget acc k).getD 0 + c)) = .ok (A + (c : R) • V) := by
  induction acc generalizing A with
  | nil =>
    obtain rfl := evZ_nil_inv hA
    simp only [dset, dget, Option.getD_none, zero_add]
    rw [evZ_cons_ok hV (evZ_nil ρ), add_zero]
  | cons kc acc ih =>
    obtain ⟨k', c'⟩ := kc
    obtain ⟨V', S, hV', hS, rfl⟩ := evZ_cons_inv hA
    simp only [dset, dget]
    by_cases e : k' = k
    · subst e
      have : V' = V := ok_inj (hV'.symm.trans hV)
      subst this
      simp only [if_true, Option.getD_some]
      rw [evZ_cons_ok hV' hS]
      congr 1
      push_cast
      rw [add_smul]; abel
    · simp only [if_neg e]
      rw [evZ_cons_ok hV' (ih hS), add_assoc]

theorem evZ_foldl_add {ρ : Rep n R} (d₂ acc : ZWord) {A B : Matrix (Fin n) (Fin n) R}
    (hA : evZ ρ acc = .ok A) (hB : evZ ρ d₂ = .ok B) :
    evZ ρ (d₂.foldl (fun acc kv => dset acc kv.1 ((dget acc kv.1).getD 0 + kv.2)) acc)
      = .ok (A + B) := by
  induction d₂ generalizing acc A B with
  | nil => obtain rfl := evZ_nil_inv hB; simpa using hA
  | cons kc d₂ ih =>
    obtain ⟨k, c⟩ := kc
    obtain ⟨V, S, hV, hS, rfl⟩ := evZ_cons_inv hB
    rw [List.foldl_cons, ih _ (evZ_dset_add c hA hV) hS, add_assoc]

/-- **(2a)** `zmod_sum` adds values (the first dict must have distinct keys, as every Python
dict has; the model's `ZWord` is a list) -/
theorem evZ_zsum {ρ : Rep n R} {d₁ d₂ : ZWord} (hnd : (d₁.map Prod.fst).Nodup)
    {A B : Matrix (Fin n) (Fin n) R} (hA : evZ ρ d₁ = .ok A) (hB : evZ ρ d₂ = .ok B) :
    evZ ρ (zsum d₁ d₂) = .ok (A + B) := by
  unfold zsum
  have h1 : d₁.foldl (fun acc kv => dset acc kv.1 kv.2) ([] : ZWord) = d₁ := by
    rw [foldl_dset_map (fun k : Word => k) d₁ [] (by simp) (by simpa using hnd)]; simp
  rw [h1]
  exact evZ_foldl_add d₂ d₁ hA hB

theorem evZ_map_simplify {ρ : Rep n R} (hρ : ρ.Coherent) {x : Gen}
    {X : Matrix (Fin n) (Fin n) R} (hX : ρ.genM x = .ok X) (d : ZWord)
    {D : Matrix (Fin n) (Fin n) R} (hD : evZ ρ d = .ok D) :
    evZ ρ (d.map (fun kv => (simplifyWord ρ.inv (x :: kv.1), kv.2))) = .ok (X * D) := by
  induction d generalizing D with
  | nil => obtain rfl := evZ_nil_inv hD; simp [evZ_nil]
  | cons kc d ih =>
    obtain ⟨k, c⟩ := kc
    obtain ⟨V, S, hV, hS, rfl⟩ := evZ_cons_inv hD
    have hxk : ρ.value (x :: k) = .ok (X * V) := by
      have := Rep.value_append_ok ρ (u := [x]) (v := k) (by rw [Rep.value_singleton]; exact hX) hV
      simpa using this
    rw [List.map_cons, evZ_cons_ok (value_simplify hρ hxk) (ih hS), Matrix.mul_add,
      Matrix.mul_smul]

/-- **(2b)** `act_left(x, ·)` multiplies the value by `ρ(x)` on the left, under the no-merge
conditions of `actLeft_eq_map` -/
theorem evZ_actLeft {ρ : Rep n R} (hρ : ρ.Coherent) {x : Gen} (hx : ρ.inv (ρ.inv x) = x)
    {X : Matrix (Fin n) (Fin n) R} (hX : ρ.genM x = .ok X) {d : ZWord}
    (hnd : (d.map Prod.fst).Nodup) (hred : ∀ k ∈ d.map Prod.fst, Red ρ.inv k)
    {D : Matrix (Fin n) (Fin n) R} (hD : evZ ρ d = .ok D) :
    evZ ρ (actLeft ρ.inv [x] d) = .ok (X * D) := by
  rw [actLeft_eq_map hx hnd hred]
  exact evZ_map_simplify hρ hX d hD

end rep

end Fox
end GT
