/-
Fox calculus (C05): free reduction (`simplify_word`), the `defaultdict` arithmetic of
`utils/words.py`, the evaluation of a formal integer combination of words under a
representation, and the fundamental formula  ρ(w) - 1 = Σ_g D_g(w) (ρ(g) - 1).
-/
import Mathlib.Data.List.Chain
import Mathlib.Data.List.Nodup
import Mathlib.Algebra.BigOperators.Group.List.Basic
import Mathlib.Algebra.BigOperators.Ring.List
import Mathlib.Algebra.Module.Defs
import Mathlib.Data.Matrix.Basic
import Mathlib.LinearAlgebra.Matrix.Notation
import Batteries.Data.Char.AsciiCasing
import GT.Lemmas.Rep

namespace GT.RepW
namespace Fox

/-! ## free reduction -/

/-- freely reduced word: no letter is followed by the inverse of its predecessor -/
def Red (inv : Gen → Gen) (k : Word) : Prop := List.IsChain (fun a b => b ≠ inv a) k

/-- the invariant of the (reversed) stack of `simplify_word` -/
def RedS (inv : Gen → Gen) (s : List Gen) : Prop := List.IsChain (fun l t => l ≠ inv t) s

theorem redS_reverse {inv : Gen → Gen} {s : List Gen} : Red inv s.reverse ↔ RedS inv s :=
  List.isChain_reverse

theorem red_reverse {inv : Gen → Gen} {s : List Gen} : RedS inv s.reverse ↔ Red inv s :=
  List.isChain_reverse

theorem simplifyStep_nil (inv : Gen → Gen) (l : Gen) : simplifyStep inv [] l = [l] := rfl

theorem simplifyStep_cons (inv : Gen → Gen) (t : Gen) (rest : List Gen) (l : Gen) :
    simplifyStep inv (t :: rest) l = if l ≠ inv t then l :: t :: rest else rest := rfl

theorem simplifyStep_redS {inv : Gen → Gen} {s : List Gen} (hs : RedS inv s) (l : Gen) :
    RedS inv (simplifyStep inv s l) := by
  cases s with
  | nil => exact List.isChain_singleton _
  | cons t rest =>
    rw [simplifyStep_cons]
    split_ifs with h
    · exact List.isChain_cons_cons.2 ⟨h, hs⟩
    · exact List.IsChain.tail hs

theorem foldl_redS {inv : Gen → Gen} (w : Word) {s : List Gen} (hs : RedS inv s) :
    RedS inv (w.foldl (simplifyStep inv) s) := by
  induction w generalizing s with
  | nil => exact hs
  | cons l w ih => exact ih (simplifyStep_redS hs l)

/-- the output of `simplify_word` is freely reduced -/
theorem simplifyWord_red (inv : Gen → Gen) (w : Word) : Red inv (simplifyWord inv w) :=
  redS_reverse.2 (foldl_redS w List.isChain_nil)

/-- on a reduced continuation the stack machine only pushes -/
theorem foldl_of_red {inv : Gen → Gen} (w : Word) (s : List Gen)
    (h : Red inv (s.reverse ++ w)) : w.foldl (simplifyStep inv) s = w.reverse ++ s := by
  induction w generalizing s with
  | nil => rfl
  | cons l w ih =>
    have h' : Red inv ((l :: s).reverse ++ w) := by simpa using h
    cases s with
    | nil =>
      rw [List.foldl_cons]
      change w.foldl (simplifyStep inv) [l] = _
      rw [ih [l] h']; simp
    | cons t rest =>
      have hlt : l ≠ inv t := by
        have h1 : Red inv (rest.reverse ++ ([t] ++ (l :: w))) := by simpa using h
        have h2 := (List.isChain_append.1 h1).2.1
        exact (List.isChain_cons_cons.1 h2).1
      rw [List.foldl_cons]
      have : simplifyStep inv (t :: rest) l = l :: t :: rest := by
        rw [simplifyStep_cons, if_pos hlt]
      rw [this, ih _ h']; simp

/-- `simplify_word` is the identity on freely reduced words -/
theorem simplifyWord_of_red {inv : Gen → Gen} {k : Word} (h : Red inv k) :
    simplifyWord inv k = k := by
  unfold simplifyWord
  rw [foldl_of_red k [] (by simpa using h)]; simp

/-- freely reduced ⇔ fixed by `simplify_word` -/
theorem red_iff_simplifyWord_eq {inv : Gen → Gen} {k : Word} :
    Red inv k ↔ simplifyWord inv k = k :=
  ⟨simplifyWord_of_red, fun h => h ▸ simplifyWord_red inv k⟩

theorem simplifyWord_idem (inv : Gen → Gen) (w : Word) :
    simplifyWord inv (simplifyWord inv w) = simplifyWord inv w :=
  simplifyWord_of_red (simplifyWord_red inv w)

/-- left multiplication of a reduced word by a letter, followed by free reduction -/
def lmul (inv : Gen → Gen) (x : Gen) : Word → Word
  | [] => [x]
  | y :: k => if y = inv x then k else x :: y :: k

theorem lmul_nil (inv : Gen → Gen) (x : Gen) : lmul inv x [] = [x] := rfl

theorem lmul_cons (inv : Gen → Gen) (x y : Gen) (k : Word) :
    lmul inv x (y :: k) = if y = inv x then k else x :: y :: k := rfl

theorem red_tail {inv : Gen → Gen} {y : Gen} {k : Word} (h : Red inv (y :: k)) : Red inv k :=
  List.IsChain.tail h

/-- characterisation of the stack machine on `x :: k`, `k` reduced -/
theorem simplifyWord_cons_of_red {inv : Gen → Gen} (x : Gen) {k : Word} (h : Red inv k) :
    simplifyWord inv (x :: k) = lmul inv x k := by
  cases k with
  | nil => rfl
  | cons y k =>
    rw [lmul_cons]
    split_ifs with hy
    · unfold simplifyWord
      rw [List.foldl_cons, List.foldl_cons]
      have : simplifyStep inv (simplifyStep inv [] x) y = [] := by
        simp [simplifyStep_nil, simplifyStep_cons, hy]
      rw [this]
      exact simplifyWord_of_red (red_tail h)
    · exact simplifyWord_of_red (List.isChain_cons_cons.2 ⟨hy, h⟩)

/-- left multiplication by an involutive letter is injective on reduced words -/
theorem lmul_injective {inv : Gen → Gen} {x : Gen} (hx : inv (inv x) = x) {k₁ k₂ : Word}
    (h₁ : Red inv k₁) (h₂ : Red inv k₂) (h : lmul inv x k₁ = lmul inv x k₂) : k₁ = k₂ := by
  -- a reduced word cannot begin with `inv x, x`
  have key : ∀ k k' : Word, Red inv (inv x :: k) → k = x :: k' → False := by
    intro k k' hr hk
    subst hk
    exact (List.isChain_cons_cons.1 hr).1 hx.symm
  cases k₁ with
  | nil =>
    cases k₂ with
    | nil => rfl
    | cons y₂ k₂ =>
      rw [lmul_nil, lmul_cons] at h
      split_ifs at h with hy
      · subst hy; exact (key _ [] h₂ h.symm).elim
      · simp at h
  | cons y₁ k₁ =>
    cases k₂ with
    | nil =>
      rw [lmul_nil, lmul_cons] at h
      split_ifs at h with hy
      · subst hy; exact (key _ [] h₁ h).elim
      · simp at h
    | cons y₂ k₂ =>
      rw [lmul_cons, lmul_cons] at h
      split_ifs at h with hy₁ hy₂ hy₂
      · rw [hy₁, hy₂, h]
      · subst hy₁; exact (key _ _ h₁ h).elim
      · subst hy₂; exact (key _ _ h₂ h.symm).elim
      · simpa using h

theorem simplifyWord_cons_injective {inv : Gen → Gen} {x : Gen} (hx : inv (inv x) = x)
    {k₁ k₂ : Word} (h₁ : Red inv k₁) (h₂ : Red inv k₂)
    (h : simplifyWord inv (x :: k₁) = simplifyWord inv (x :: k₂)) : k₁ = k₂ := by
  rw [simplifyWord_cons_of_red x h₁, simplifyWord_cons_of_red x h₂] at h
  exact lmul_injective hx h₁ h₂ h

/-! ## Python dicts (`dset`, `dget`) -/

section dict
variable {κ ν : Type} [DecidableEq κ]

theorem dset_of_not_mem {d : List (κ × ν)} {k : κ} (v : ν) (h : k ∉ d.map Prod.fst) :
    dset d k v = d ++ [(k, v)] := by
  induction d with
  | nil => rfl
  | cons kv d ih =>
    obtain ⟨k', v'⟩ := kv
    simp only [List.map_cons, List.mem_cons, not_or] at h
    simp only [dset, List.cons_append]
    rw [if_neg (fun e => h.1 e.symm), ih h.2]

theorem keys_dset (d : List (κ × ν)) (k : κ) (v : ν) :
    (dset d k v).map Prod.fst
      = if k ∈ d.map Prod.fst then d.map Prod.fst else d.map Prod.fst ++ [k] := by
  induction d with
  | nil => simp [dset]
  | cons kv d ih =>
    obtain ⟨k', v'⟩ := kv
    simp only [dset]
    by_cases e : k' = k
    · subst e; simp
    · rw [if_neg e]
      simp only [List.map_cons, ih, List.mem_cons]
      have : ¬ k = k' := fun h => e h.symm
      by_cases hm : k ∈ d.map Prod.fst <;> simp [hm, this]

theorem mem_keys_dset {d : List (κ × ν)} {k k' : κ} {v : ν}
    (h : k' ∈ (dset d k v).map Prod.fst) : k' ∈ d.map Prod.fst ∨ k' = k := by
  rw [keys_dset] at h
  split_ifs at h
  · exact Or.inl h
  · simpa using h

theorem nodup_keys_dset {d : List (κ × ν)} (h : (d.map Prod.fst).Nodup) (k : κ) (v : ν) :
    ((dset d k v).map Prod.fst).Nodup := by
  rw [keys_dset]
  split_ifs with hm
  · exact h
  · exact List.Nodup.append h (List.nodup_singleton k) (by simpa using hm)

theorem dget_dset_self (d : List (κ × ν)) (k : κ) (v : ν) : dget (dset d k v) k = some v := by
  induction d with
  | nil => simp [dset, dget]
  | cons kv d ih =>
    obtain ⟨k', v'⟩ := kv
    simp only [dset]
    by_cases e : k' = k
    · simp [e, dget]
    · simp [e, dget, ih]

theorem dget_dset_ne (d : List (κ × ν)) {k k' : κ} (v : ν) (h : k' ≠ k) :
    dget (dset d k v) k' = dget d k' := by
  induction d with
  | nil => simp [dset, dget, h.symm]
  | cons kv d ih =>
    obtain ⟨k'', v''⟩ := kv
    simp only [dset]
    by_cases e : k'' = k
    · subst e; simp [dget, h.symm]
    · rw [if_neg e]; simp only [dget, ih]

theorem dget_eq_none_iff (d : List (κ × ν)) (k : κ) : dget d k = none ↔ k ∉ d.map Prod.fst := by
  induction d with
  | nil => simp [dget]
  | cons kv d ih =>
    obtain ⟨k', v'⟩ := kv
    simp only [dget, List.map_cons, List.mem_cons, not_or]
    by_cases e : k' = k
    · subst e; simp
    · have : ¬ k = k' := fun h => e h.symm
      simp [e, ih, this]

/-- a dict comprehension `{f k: v for k, v in l}` whose new keys are pairwise distinct (and
fresh) does not merge anything: it is a `map` -/
theorem foldl_dset_map {κ' : Type} (f : κ' → κ) (l : List (κ' × ν)) (acc : List (κ × ν))
    (hfresh : ∀ k ∈ l.map (fun kv => f kv.1), k ∉ acc.map Prod.fst)
    (hnd : (l.map (fun kv => f kv.1)).Nodup) :
    l.foldl (fun acc kv => dset acc (f kv.1) kv.2) acc
      = acc ++ l.map (fun kv => (f kv.1, kv.2)) := by
  induction l generalizing acc with
  | nil => simp
  | cons kv l ih =>
    simp only [List.map_cons, List.nodup_cons, List.mem_cons, forall_eq_or_imp] at hfresh hnd
    rw [List.foldl_cons, dset_of_not_mem _ hfresh.1, ih]
    · simp
    · intro k hk
      simp only [List.map_append, List.map_cons, List.map_nil, List.mem_append,
        List.mem_singleton, not_or]
      refine ⟨hfresh.2 k hk, ?_⟩
      rintro rfl
      exact hnd.1 hk
    · exact hnd.2

/-- every dict built by successive `d[k] = v` has distinct keys -/
theorem foldl_dset_nodup {α : Type} (K : α → κ) (F : List (κ × ν) → α → ν) (l : List α)
    (acc : List (κ × ν)) (h : (acc.map Prod.fst).Nodup) :
    ((l.foldl (fun acc a => dset acc (K a) (F acc a)) acc).map Prod.fst).Nodup := by
  induction l generalizing acc with
  | nil => exact h
  | cons a l ih => exact ih _ (nodup_keys_dset h _ _)

theorem foldl_dset_keys {α : Type} (K : α → κ) (F : List (κ × ν) → α → ν) (l : List α)
    (acc : List (κ × ν)) :
    ∀ k ∈ (l.foldl (fun acc a => dset acc (K a) (F acc a)) acc).map Prod.fst,
      k ∈ acc.map Prod.fst ∨ k ∈ l.map K := by
  induction l generalizing acc with
  | nil => intro k hk; exact Or.inl hk
  | cons a l ih =>
    intro k hk
    rcases ih _ k hk with h | h
    · rcases mem_keys_dset h with h | h
      · exact Or.inl h
      · exact Or.inr (by simp [h])
    · exact Or.inr (by simp [h])

end dict

/-! ## the `ZWord` operations -/

theorem zsimplify_eq_map (inv : Gen → Gen) (z : ZWord)
    (hnd : (z.map (fun kv => simplifyWord inv kv.1)).Nodup) :
    zsimplify inv z = z.map (fun kv => (simplifyWord inv kv.1, kv.2)) := by
  unfold zsimplify
  rw [foldl_dset_map (simplifyWord inv) z [] (by simp) hnd]; simp

/-- **no-merge**: on a dict with distinct freely reduced keys, `act_left(x, ·)` with an
involutive letter `x` neither overwrites an entry in the product dict nor in `simplify` -/
theorem actLeft_eq_map {inv : Gen → Gen} {x : Gen} (hx : inv (inv x) = x) {d : ZWord}
    (hnd : (d.map Prod.fst).Nodup) (hred : ∀ k ∈ d.map Prod.fst, Red inv k) :
    actLeft inv [x] d = d.map (fun kv => (simplifyWord inv (x :: kv.1), kv.2)) := by
  unfold actLeft
  have h1 : (d.map (fun kv => [x] ++ kv.1)).Nodup := by
    have : d.map (fun kv => [x] ++ kv.1) = (d.map Prod.fst).map (fun k => x :: k) := by
      simp [List.map_map, Function.comp_def]
    rw [this]
    exact List.Nodup.map (fun a b h => by simpa using h) hnd
  rw [foldl_dset_map (fun k => [x] ++ k) d [] (by simp) h1, List.nil_append,
    zsimplify_eq_map]
  · simp [List.map_map, Function.comp_def]
  · simp only [List.map_map, Function.comp_def, List.singleton_append]
    have : d.map (fun kv => simplifyWord inv (x :: kv.1))
        = (d.map Prod.fst).map (fun k => simplifyWord inv (x :: k)) := by
      simp [List.map_map, Function.comp_def]
    rw [this]
    exact List.Nodup.map_on
      (fun a ha b hb h => simplifyWord_cons_injective hx (hred a ha) (hred b hb) h) hnd

theorem actLeft_keys_nodup (inv : Gen → Gen) (u : Word) (d : ZWord) :
    ((actLeft inv u d).map Prod.fst).Nodup := by
  unfold actLeft zsimplify
  exact foldl_dset_nodup (fun kv : Word × Int => simplifyWord inv kv.1) (fun _ kv => kv.2) _ []
    List.nodup_nil

theorem zsimplify_keys_red (inv : Gen → Gen) (z : ZWord) :
    ∀ k ∈ (zsimplify inv z).map Prod.fst, Red inv k := by
  intro k hk
  unfold zsimplify at hk
  rcases foldl_dset_keys (fun kv : Word × Int => simplifyWord inv kv.1) (fun _ kv => kv.2) z [] k hk
    with h | h
  · simp at h
  · obtain ⟨kv, _, rfl⟩ := List.mem_map.1 h
    exact simplifyWord_red inv _

theorem zsum_keys_nodup (d₁ d₂ : ZWord) : ((zsum d₁ d₂).map Prod.fst).Nodup := by
  unfold zsum
  refine foldl_dset_nodup (fun kv : Word × Int => kv.1)
    (fun acc kv => (dget acc kv.1).getD 0 + kv.2) d₂ _ ?_
  exact foldl_dset_nodup (fun kv : Word × Int => kv.1) (fun _ kv => kv.2) d₁ [] List.nodup_nil

theorem zsum_keys (d₁ d₂ : ZWord) :
    ∀ k ∈ (zsum d₁ d₂).map Prod.fst, k ∈ d₁.map Prod.fst ∨ k ∈ d₂.map Prod.fst := by
  intro k hk
  unfold zsum at hk
  rcases foldl_dset_keys (fun kv : Word × Int => kv.1)
    (fun acc kv => (dget acc kv.1).getD 0 + kv.2) d₂ _ k hk with h | h
  · rcases foldl_dset_keys (fun kv : Word × Int => kv.1) (fun _ kv => kv.2) d₁ [] k h with h | h
    · simp at h
    · exact Or.inl h
  · exact Or.inr h

theorem foxLetter_keys_nodup (inv : Gen → Gen) (g x : Gen) :
    ((foxLetter inv g x).map Prod.fst).Nodup := by
  unfold foxLetter; split_ifs <;> simp

theorem foxLetter_keys_red (inv : Gen → Gen) (g x : Gen) :
    ∀ k ∈ (foxLetter inv g x).map Prod.fst, Red inv k := by
  unfold foxLetter
  split_ifs <;> simp [Red]

/-- **(1)** the dict returned by `fox_word_derivative` has pairwise distinct, freely reduced
keys (no hypothesis on `inv` is needed for this; the involution hypothesis enters in
`actLeft_eq_map`) -/
theorem foxDeriv_keys (inv : Gen → Gen) (g : Gen) (w : Word) {d : ZWord}
    (h : foxDeriv inv g w = some d) :
    (d.map Prod.fst).Nodup ∧ ∀ k ∈ d.map Prod.fst, Red inv k := by
  match w, h with
  | [x], h =>
    simp only [foxDeriv, Option.some.injEq] at h
    subst h
    exact ⟨foxLetter_keys_nodup inv g x, foxLetter_keys_red inv g x⟩
  | x :: y :: w, h =>
    simp only [foxDeriv] at h
    cases hd : foxDeriv inv g (y :: w) with
    | none => rw [hd] at h; cases h
    | some d' =>
      rw [hd] at h
      simp only [Option.some.injEq] at h
      subst h
      refine ⟨zsum_keys_nodup _ _, fun k hk => ?_⟩
      rcases zsum_keys _ _ k hk with h | h
      · exact foxLetter_keys_red inv g x k h
      · exact zsimplify_keys_red inv _ k h

theorem foxDeriv_keys_simplify (inv : Gen → Gen) (g : Gen) (w : Word) {d : ZWord}
    (h : foxDeriv inv g w = some d) :
    (d.map Prod.fst).Nodup ∧ ∀ k ∈ d.map Prod.fst, simplifyWord inv k = k :=
  ⟨(foxDeriv_keys inv g w h).1, fun k hk => simplifyWord_of_red ((foxDeriv_keys inv g w h).2 k hk)⟩

/-- the no-merge statement for the dicts that actually occur: in the recursion of
`fox_word_derivative`, `act_left(word[0], fox_word_derivative(g, word[1:]))` is a plain `map`
(no coefficient is overwritten by the two dict comprehensions) -/
theorem actLeft_foxDeriv_eq_map {inv : Gen → Gen} {x : Gen} (hx : inv (inv x) = x) (g : Gen)
    (w : Word) {d : ZWord} (h : foxDeriv inv g w = some d) :
    actLeft inv [x] d = d.map (fun kv => (simplifyWord inv (x :: kv.1), kv.2)) :=
  actLeft_eq_map hx (foxDeriv_keys inv g w h).1 (foxDeriv_keys inv g w h).2

theorem foxDeriv_isSome (inv : Gen → Gen) (g : Gen) {w : Word} (hw : w ≠ []) :
    ∃ d, foxDeriv inv g w = some d := by
  induction w with
  | nil => exact (hw rfl).elim
  | cons x w ih =>
    cases w with
    | nil => exact ⟨_, rfl⟩
    | cons y w =>
      obtain ⟨d, hd⟩ := ih (by simp)
      refine ⟨zsum (foxLetter inv g x) (actLeft inv [x] d), ?_⟩
      simp only [foxDeriv, hd]

/-! ## free reduction does not change the image of a word -/

section rep
open Matrix
variable {n : ℕ} {R : Type} [Inhabited R] [CommRing R]

theorem ok_inj {α : Type} {a b : α} (h : (Except.ok a : M? α) = .ok b) : a = b := by
  cases h; rfl

theorem value_foldl_simplify {ρ : Rep n R} (hρ : ρ.Coherent) (w : Word) (s : List Gen)
    {A : Matrix (Fin n) (Fin n) R} (h : ρ.value (s.reverse ++ w) = .ok A) :
    ρ.value ((w.foldl (simplifyStep ρ.inv) s).reverse) = .ok A := by
  induction w generalizing s with
  | nil => simpa using h
  | cons l w ih =>
    rw [List.foldl_cons]
    cases s with
    | nil => exact ih [l] (by simpa using h)
    | cons t rest =>
      rw [simplifyStep_cons]
      split_ifs with hl
      · exact ih (l :: t :: rest) (by simpa using h)
      · have hl' : l = ρ.inv t := not_not.1 hl
        subst hl'
        have h1 : ρ.value (rest.reverse ++ ([t] ++ ([ρ.inv t] ++ w))) = .ok A := by simpa using h
        obtain ⟨S, X, hS, hX, rfl⟩ := Rep.value_append_inv ρ h1
        obtain ⟨T, Y, hT, hY, rfl⟩ := Rep.value_append_inv ρ hX
        obtain ⟨T', W, hT', hW, rfl⟩ := Rep.value_append_inv ρ hY
        rw [Rep.value_singleton] at hT hT'
        obtain ⟨B, hB, hTB, _⟩ := hρ t T hT
        have : T' = B := ok_inj (hT'.symm.trans hB)
        subst this
        apply ih rest
        rw [Rep.value_append_ok ρ hS hW, ← Matrix.mul_assoc T, hTB, Matrix.one_mul]

/-- `ρ(simplify_word(w)) = ρ(w)` for a representation whose inverse letters carry inverse
matrices -/
theorem value_simplify {ρ : Rep n R} (hρ : ρ.Coherent) {w : Word}
    {A : Matrix (Fin n) (Fin n) R} (h : ρ.value w = .ok A) :
    ρ.value (simplifyWord ρ.inv w) = .ok A :=
  value_foldl_simplify hρ w [] (by simpa using h)

/-! ## evaluation of a formal integer combination of words -/

/-- `Σ_{(k,c) ∈ d} c • ρ(k)`; the error of the first key without a value otherwise -/
def evZ (ρ : Rep n R) : ZWord → M? (Matrix (Fin n) (Fin n) R)
  | [] => .ok 0
  | kc :: d => do
    let v ← ρ.value kc.1
    let s ← evZ ρ d
    pure ((kc.2 : R) • v + s)

theorem evZ_nil (ρ : Rep n R) : evZ ρ [] = .ok 0 := rfl

theorem evZ_nil_inv {ρ : Rep n R} {A : Matrix (Fin n) (Fin n) R} (h : evZ ρ [] = .ok A) :
    A = 0 := ok_inj (h.symm.trans (evZ_nil ρ))

theorem evZ_cons_ok {ρ : Rep n R} {k : Word} {c : Int} {d : ZWord}
    {V S : Matrix (Fin n) (Fin n) R} (hV : ρ.value k = .ok V) (hS : evZ ρ d = .ok S) :
    evZ ρ ((k, c) :: d) = .ok ((c : R) • V + S) := by
  simp only [evZ, hV, hS]; rfl

theorem evZ_cons_inv {ρ : Rep n R} {k : Word} {c : Int} {d : ZWord}
    {T : Matrix (Fin n) (Fin n) R} (h : evZ ρ ((k, c) :: d) = .ok T) :
    ∃ V S, ρ.value k = .ok V ∧ evZ ρ d = .ok S ∧ T = (c : R) • V + S := by
  simp only [evZ] at h
  cases hV : ρ.value k with
  | error e => rw [hV] at h; cases h
  | ok V =>
    cases hS : evZ ρ d with
    | error e => rw [hV, hS] at h; cases h
    | ok S =>
      rw [hV, hS] at h
      exact ⟨V, S, rfl, rfl, (ok_inj h).symm⟩

theorem evZ_append_ok {ρ : Rep n R} {d₁ d₂ : ZWord} {A B : Matrix (Fin n) (Fin n) R}
    (h₁ : evZ ρ d₁ = .ok A) (h₂ : evZ ρ d₂ = .ok B) : evZ ρ (d₁ ++ d₂) = .ok (A + B) := by
  induction d₁ generalizing A with
  | nil => obtain rfl := evZ_nil_inv h₁; simpa using h₂
  | cons kc d₁ ih =>
    obtain ⟨k, c⟩ := kc
    obtain ⟨V, S, hV, hS, rfl⟩ := evZ_cons_inv h₁
    rw [List.cons_append, evZ_cons_ok hV (ih hS), add_assoc]

/-- `z[k] += c` on a `defaultdict(int)` adds `c • ρ(k)` to the value -/
theorem evZ_dset_add {ρ : Rep n R} {acc : ZWord} {k : Word} (c : Int)
    {A V : Matrix (Fin n) (Fin n) R} (hA : evZ ρ acc = .ok A) (hV : ρ.value k = .ok V) :
    evZ ρ (dset acc k ((dget acc k).getD 0 + c)) = .ok (A + (c : R) • V) := by
  induction acc generalizing A with
  | nil =>
    obtain rfl := evZ_nil_inv hA
    simp only [dset, dget, Option.getD_none, zero_add]
    rw [evZ_cons_ok hV (evZ_nil ρ), add_zero]
  | cons kc acc ih =>
    obtain ⟨k', c'⟩ := kc
    obtain ⟨V', S, hV', hS, rfl⟩ := evZ_cons_inv hA
    simp only [dset, dget]
    by_cases e : k' = k
    · subst e
      have : V' = V := ok_inj (hV'.symm.trans hV)
      subst this
      simp only [if_true, Option.getD_some]
      rw [evZ_cons_ok hV' hS]
      congr 1
      push_cast
      rw [add_smul]; abel
    · simp only [if_neg e]
      rw [evZ_cons_ok hV' (ih hS), add_assoc]

theorem evZ_foldl_add {ρ : Rep n R} (d₂ acc : ZWord) {A B : Matrix (Fin n) (Fin n) R}
    (hA : evZ ρ acc = .ok A) (hB : evZ ρ d₂ = .ok B) :
    evZ ρ (d₂.foldl (fun acc kv => dset acc kv.1 ((dget acc kv.1).getD 0 + kv.2)) acc)
      = .ok (A + B) := by
  induction d₂ generalizing acc A B with
  | nil => obtain rfl := evZ_nil_inv hB; simpa using hA
  | cons kc d₂ ih =>
    obtain ⟨k, c⟩ := kc
    obtain ⟨V, S, hV, hS, rfl⟩ := evZ_cons_inv hB
    rw [List.foldl_cons, ih _ (evZ_dset_add c hA hV) hS, add_assoc]

/-- **(2a)** `zmod_sum` adds values (the first dict must have distinct keys, as every Python
dict has; the model's `ZWord` is a list) -/
theorem evZ_zsum {ρ : Rep n R} {d₁ d₂ : ZWord} (hnd : (d₁.map Prod.fst).Nodup)
    {A B : Matrix (Fin n) (Fin n) R} (hA : evZ ρ d₁ = .ok A) (hB : evZ ρ d₂ = .ok B) :
    evZ ρ (zsum d₁ d₂) = .ok (A + B) := by
  unfold zsum
  have h1 : d₁.foldl (fun acc kv => dset acc kv.1 kv.2) ([] : ZWord) = d₁ := by
    rw [foldl_dset_map (fun k : Word => k) d₁ [] (by simp) (by simpa using hnd)]; simp
  rw [h1]
  exact evZ_foldl_add d₂ d₁ hA hB

theorem evZ_map_simplify {ρ : Rep n R} (hρ : ρ.Coherent) {x : Gen}
    {X : Matrix (Fin n) (Fin n) R} (hX : ρ.genM x = .ok X) (d : ZWord)
    {D : Matrix (Fin n) (Fin n) R} (hD : evZ ρ d = .ok D) :
    evZ ρ (d.map (fun kv => (simplifyWord ρ.inv (x :: kv.1), kv.2))) = .ok (X * D) := by
  induction d generalizing D with
  | nil => obtain rfl := evZ_nil_inv hD; simp [evZ_nil]
  | cons kc d ih =>
    obtain ⟨k, c⟩ := kc
    obtain ⟨V, S, hV, hS, rfl⟩ := evZ_cons_inv hD
    have hxk : ρ.value (x :: k) = .ok (X * V) := by
      have := Rep.value_append_ok ρ (u := [x]) (v := k) (by rw [Rep.value_singleton]; exact hX) hV
      simpa using this
    rw [List.map_cons, evZ_cons_ok (value_simplify hρ hxk) (ih hS), Matrix.mul_add,
      Matrix.mul_smul]

/-- **(2b)** `act_left(x, ·)` multiplies the value by `ρ(x)` on the left, under the no-merge
conditions of `actLeft_eq_map` -/
theorem evZ_actLeft {ρ : Rep n R} (hρ : ρ.Coherent) {x : Gen} (hx : ρ.inv (ρ.inv x) = x)
    {X : Matrix (Fin n) (Fin n) R} (hX : ρ.genM x = .ok X) {d : ZWord}
    (hnd : (d.map Prod.fst).Nodup) (hred : ∀ k ∈ d.map Prod.fst, Red ρ.inv k)
    {D : Matrix (Fin n) (Fin n) R} (hD : evZ ρ d = .ok D) :
    evZ ρ (actLeft ρ.inv [x] d) = .ok (X * D) := by
  rw [actLeft_eq_map hx hnd hred]
  exact evZ_map_simplify hρ hX d hD

/-! ## `_differential(word, generator)` denotes `evZ` of the Fox derivative -/

theorem foldl_madd (ts : List (DMat n n R)) (A : DMat n n R) :
    (ts.foldl Rep.madd A).toMatrix = A.toMatrix + (ts.map DMat.toMatrix).sum := by
  induction ts generalizing A with
  | nil => simp
  | cons t ts ih => rw [List.foldl_cons, ih]; simp [Rep.madd, add_assoc]

/-- the list `matrix_diff` of `_differential` -/
def terms (ρ : Rep n R) (d : ZWord) : M? (List (DMat n n R)) :=
  d.mapM (fun kc => do let v ← ρ.wordValue kc.1; pure (Rep.zsmul kc.2 v))

theorem terms_sum (ρ : Rep n R) (d : ZWord) :
    (terms ρ d).map (fun ts => (ts.map DMat.toMatrix).sum) = evZ ρ d := by
  induction d with
  | nil => rfl
  | cons kc d ih =>
    obtain ⟨k, c⟩ := kc
    unfold terms at ih ⊢
    rw [List.mapM_cons]
    simp only [evZ, Rep.value]
    cases hv : ρ.wordValue k with
    | error e => rfl
    | ok v =>
      rw [← ih]
      cases hts : List.mapM (fun kc : Word × Int => do
          let v ← ρ.wordValue kc.1; pure (Rep.zsmul kc.2 v)) d with
      | error e => rfl
      | ok ts =>
        simp [Except.map, bind, Except.bind, pure, Except.pure, Rep.zsmul]

/-- **(2c)** the executable `Rep.differentialAt` denotes `evZ` of `fox_word_derivative` -/
theorem differentialAt_eq (ρ : Rep n R) (w : Word) (g : Gen) :
    (ρ.differentialAt w g).map DMat.toMatrix
      = match foxDeriv invertGen g w with
        | none => .error "IndexError"
        | some d => evZ ρ d := by
  unfold Rep.differentialAt
  cases foxDeriv invertGen g w with
  | none => rfl
  | some d =>
    simp only
    rw [← terms_sum]
    unfold terms
    cases List.mapM (fun kc : Word × Int => do
        let v ← ρ.wordValue kc.1; pure (Rep.zsmul kc.2 v)) d with
    | error e => rfl
    | ok ts =>
      simp [Except.map, bind, Except.bind, pure, Except.pure, foldl_madd, Rep.mzero]

/-- the empty word raises `IndexError` (`word[0]`) -/
theorem differentialAt_nil (ρ : Rep n R) (g : Gen) :
    ρ.differentialAt [] g = .error "IndexError" := rfl

theorem differentialAt_ok {ρ : Rep n R} {w : Word} {g : Gen} {d : ZWord}
    {D : Matrix (Fin n) (Fin n) R} (hd : foxDeriv invertGen g w = some d)
    (hD : evZ ρ d = .ok D) : ∃ B, ρ.differentialAt w g = .ok B ∧ B.toMatrix = D := by
  have h := differentialAt_eq ρ w g
  rw [hd] at h
  simp only at h
  rw [hD] at h
  cases hB : ρ.differentialAt w g with
  | error e => rw [hB] at h; cases h
  | ok B => rw [hB] at h; exact ⟨B, rfl, ok_inj h⟩

/-! ## the fundamental formula of the Fox calculus -/

/-- a letter of the free group on `gs`: a generator or the inverse letter of one -/
def LetterOK (inv : Gen → Gen) (gs : List Gen) (x : Gen) : Prop := x ∈ gs ∨ ∃ g ∈ gs, x = inv g

/-- the abstract side conditions on the list `gs` of semigroup generators of `ρ` -/
structure Hyp (ρ : Rep n R) (gs : List Gen) : Prop where
  coh : ρ.Coherent
  nodup : gs.Nodup
  /-- no generator is the inverse letter of a generator -/
  sep : ∀ g ∈ gs, ∀ h ∈ gs, ρ.inv g ≠ h
  invol : ∀ g ∈ gs, ρ.inv (ρ.inv g) = g
  hgen : ∀ g ∈ gs, ∃ A, ρ.genM g = .ok A

/-- `ρ(g)`, totalised (only used where `ρ.genM g` is defined) -/
def gmat (ρ : Rep n R) (g : Gen) : Matrix (Fin n) (Fin n) R :=
  match ρ.genM g with
  | .ok A => A
  | .error _ => 0

theorem gmat_eq {ρ : Rep n R} {g : Gen} {A : Matrix (Fin n) (Fin n) R} (h : ρ.genM g = .ok A) :
    gmat ρ g = A := by
  unfold gmat; rw [h]

theorem genM_eq_ok_gmat {ρ : Rep n R} {g : Gen} (h : ∃ A, ρ.genM g = .ok A) :
    ρ.genM g = .ok (gmat ρ g) := by
  obtain ⟨A, hA⟩ := h
  rw [gmat_eq hA, hA]

theorem Hyp.inv_inj {ρ : Rep n R} {gs : List Gen} (H : Hyp ρ gs) {g h : Gen} (hg : g ∈ gs)
    (hh : h ∈ gs) (e : ρ.inv g = ρ.inv h) : g = h := by
  rw [← H.invol g hg, e, H.invol h hh]

theorem Hyp.letter_invol {ρ : Rep n R} {gs : List Gen} (H : Hyp ρ gs) {x : Gen}
    (hx : LetterOK ρ.inv gs x) : ρ.inv (ρ.inv x) = x := by
  rcases hx with hx | ⟨g, hg, rfl⟩
  · exact H.invol x hx
  · rw [H.invol g hg]

theorem Hyp.letter_genM {ρ : Rep n R} {gs : List Gen} (H : Hyp ρ gs) {x : Gen}
    (hx : LetterOK ρ.inv gs x) : ∃ X, ρ.genM x = .ok X := by
  rcases hx with hx | ⟨g, hg, rfl⟩
  · exact H.hgen x hx
  · obtain ⟨A, hA⟩ := H.hgen g hg
    obtain ⟨B, hB, _⟩ := H.coh g A hA
    exact ⟨B, hB⟩

theorem sum_map_single {M : Type} [AddCommMonoid M] {l : List Gen} (hnd : l.Nodup) {a : Gen}
    (ha : a ∈ l) (f : Gen → M) (hf : ∀ b ∈ l, b ≠ a → f b = 0) : (l.map f).sum = f a := by
  rw [List.sum_map_eq_nsmul_single a f (fun b hb hm => hf b hm hb),
    List.count_eq_one_of_mem hnd ha, one_nsmul]

/-- the matrix of the one-letter Fox derivative `∂x/∂g` -/
def letterM (inv : Gen → Gen) (x : Gen) (X : Matrix (Fin n) (Fin n) R) (g : Gen) :
    Matrix (Fin n) (Fin n) R :=
  if x = g then 1 else if x = inv g then -X else 0

theorem evZ_foxLetter {ρ : Rep n R} {x : Gen} {X : Matrix (Fin n) (Fin n) R}
    (hX : ρ.genM x = .ok X) (g : Gen) :
    evZ ρ (foxLetter ρ.inv g x) = .ok (letterM ρ.inv x X g) := by
  unfold foxLetter letterM
  have hf : formalInverse ρ.inv [g] = [ρ.inv g] := rfl
  rw [hf]
  by_cases h1 : x = g
  · rw [if_pos h1, if_pos h1, evZ_cons_ok (Rep.value_nil ρ) (evZ_nil ρ)]; simp
  · rw [if_neg h1, if_neg h1]
    by_cases h2 : x = ρ.inv g
    · rw [if_pos (by rw [h2]), if_pos h2,
        evZ_cons_ok (by rw [Rep.value_singleton]; exact hX) (evZ_nil ρ)]; simp
    · rw [if_neg (by simpa using h2), if_neg h2]; rfl

/-- the fundamental formula for a single letter -/
theorem letter_sum {ρ : Rep n R} {gs : List Gen} (H : Hyp ρ gs) {x : Gen}
    (hx : LetterOK ρ.inv gs x) {X : Matrix (Fin n) (Fin n) R} (hX : ρ.genM x = .ok X) :
    (gs.map fun g => letterM ρ.inv x X g * (gmat ρ g - 1)).sum = X - 1 := by
  rcases hx with hx | ⟨g₀, hg₀, rfl⟩
  · rw [sum_map_single H.nodup hx]
    · simp [letterM, gmat_eq hX]
    · intro g hg hne
      have h1 : ¬ x = g := fun e => hne e.symm
      have h2 : ¬ x = ρ.inv g := fun e => H.sep g hg x hx e.symm
      simp [letterM, h1, h2]
  · have hnot : ∀ g ∈ gs, ¬ ρ.inv g₀ = g := fun g hg => H.sep g₀ hg₀ g hg
    obtain ⟨G₀, hG₀⟩ := H.hgen g₀ hg₀
    obtain ⟨B, hB, _, hBG⟩ := H.coh g₀ G₀ hG₀
    obtain rfl : X = B := ok_inj (hX.symm.trans hB)
    rw [sum_map_single H.nodup hg₀]
    · simp only [letterM, if_neg (hnot g₀ hg₀), if_true, gmat_eq hG₀]
      rw [Matrix.mul_sub, Matrix.neg_mul, hBG]; simp only [Matrix.mul_one]; abel
    · intro g hg hne
      have h2 : ¬ ρ.inv g₀ = ρ.inv g := fun e => hne (H.inv_inj hg₀ hg e).symm
      simp [letterM, hnot g hg, h2]

/-- **the fundamental formula** `ρ(w) - 1 = Σ_g D_g(w) (ρ(g) - 1)` at the `Matrix` level,
where `D_g(w)` is the value of the dict `fox_word_derivative(g, w)` -/
theorem fox_sum {ρ : Rep n R} {gs : List Gen} (H : Hyp ρ gs) {w : Word} (hw : w ≠ [])
    (hl : ∀ x ∈ w, LetterOK ρ.inv gs x) :
    ∃ (A : Matrix (Fin n) (Fin n) R) (D : Gen → Matrix (Fin n) (Fin n) R),
      ρ.value w = .ok A ∧
      (∀ g, ∃ d, foxDeriv ρ.inv g w = some d ∧ evZ ρ d = .ok (D g)) ∧
      A - 1 = (gs.map fun g => D g * (gmat ρ g - 1)).sum := by
  induction w with
  | nil => exact (hw rfl).elim
  | cons x w ih =>
    have hxl : LetterOK ρ.inv gs x := hl x (by simp)
    obtain ⟨X, hX⟩ := H.letter_genM hxl
    cases w with
    | nil =>
      refine ⟨X, letterM ρ.inv x X, by rw [Rep.value_singleton]; exact hX, fun g => ?_, ?_⟩
      · exact ⟨_, rfl, evZ_foxLetter hX g⟩
      · exact (letter_sum H hxl hX).symm
    | cons y w =>
      obtain ⟨A, D, hA, hD, hsum⟩ := ih (by simp) (fun z hz => hl z (List.mem_cons_of_mem _ hz))
      refine ⟨X * A, fun g => letterM ρ.inv x X g + X * D g, ?_, fun g => ?_, ?_⟩
      · have := Rep.value_append_ok ρ (u := [x]) (v := y :: w)
          (by rw [Rep.value_singleton]; exact hX) hA
        simpa using this
      · obtain ⟨d, hd, hDg⟩ := hD g
        refine ⟨zsum (foxLetter ρ.inv g x) (actLeft ρ.inv [x] d), by simp only [foxDeriv, hd], ?_⟩
        obtain ⟨hnd, hred⟩ := foxDeriv_keys ρ.inv g (y :: w) hd
        exact evZ_zsum (foxLetter_keys_nodup _ _ _) (evZ_foxLetter hX g)
          (evZ_actLeft H.coh (H.letter_invol hxl) hX hnd hred hDg)
      · have e : (fun g => (letterM ρ.inv x X g + X * D g) * (gmat ρ g - 1))
            = fun g => letterM ρ.inv x X g * (gmat ρ g - 1) + X * (D g * (gmat ρ g - 1)) := by
          funext g; rw [add_mul, Matrix.mul_assoc]
        rw [e, List.sum_map_add, letter_sum H hxl hX, List.sum_map_mul_left, ← hsum,
          Matrix.mul_sub, Matrix.mul_one]
        abel

/-! ## the executable block matrices -/

theorem mapM_ok {α β : Type} (f : α → M? β) (F : α → β) (l : List α)
    (h : ∀ a ∈ l, f a = .ok (F a)) : l.mapM f = .ok (l.map F) := by
  induction l with
  | nil => rfl
  | cons a l ih =>
    rw [List.mapM_cons, h a (by simp), ih (fun b hb => h b (List.mem_cons_of_mem _ hb))]
    rfl

theorem mapM_forall₂ {α β : Type} (f : α → M? β) (P : α → β → Prop) (l : List α)
    (h : ∀ a ∈ l, ∃ b, f a = .ok b ∧ P a b) :
    ∃ bs, l.mapM f = .ok bs ∧ List.Forall₂ P l bs := by
  induction l with
  | nil => exact ⟨[], rfl, List.Forall₂.nil⟩
  | cons a l ih =>
    obtain ⟨b, hb, hP⟩ := h a (by simp)
    obtain ⟨bs, hbs, hF⟩ := ih (fun c hc => h c (List.mem_cons_of_mem _ hc))
    refine ⟨b :: bs, ?_, List.Forall₂.cons hP hF⟩
    rw [List.mapM_cons, hb, hbs]; rfl

theorem sum_map_neg' {M : Type} [AddCommGroup M] (l : List Gen) (f : Gen → M) :
    (l.map fun g => -f g).sum = -(l.map f).sum := by
  induction l with
  | nil => simp
  | cons a l ih => simp only [List.map_cons, List.sum_cons, ih]; abel

theorem blockDot_map (l : List Gen) (P Q : Gen → DMat n n R) :
    (Rep.blockDot (l.map P) (l.map Q)).toMatrix
      = (l.map fun g => (P g).toMatrix * (Q g).toMatrix).sum := by
  unfold Rep.blockDot
  rw [foldl_madd]
  have : List.zipWith DMat.mul (l.map P) (l.map Q) = l.map (fun g => (P g).mul (Q g)) := by
    induction l with
    | nil => rfl
    | cons a l ih => simp [ih]
  rw [this, List.map_map]
  simp [Rep.mzero, Function.comp_def]

omit [CommRing R] in
theorem gen_of_genM {ρ : Rep n R} {g : Gen} {A : Matrix (Fin n) (Fin n) R}
    (h : ρ.genM g = .ok A) : ∃ a, ρ.gen g = .ok a ∧ a.toMatrix = A := by
  unfold Rep.genM at h
  cases ha : ρ.gen g with
  | error e => rw [ha] at h; cases h
  | ok a => rw [ha] at h; exact ⟨a, rfl, ok_inj h⟩

/-- `coboundary_matrix()` is defined as soon as every semigroup generator has a matrix, and
its blocks are `1 - ρ(g)` -/
theorem coboundaryMatrix_ok {ρ : Rep n R} (hgen : ∀ g ∈ ρ.asymGens, ∃ A, ρ.genM g = .ok A) :
    ∃ Q : Gen → DMat n n R, ρ.coboundaryMatrix = .ok (ρ.asymGens.map Q) ∧
      ∀ g ∈ ρ.asymGens, (Q g).toMatrix = 1 - gmat ρ g := by
  let gd : Gen → DMat n n R := fun g => match ρ.gen g with
    | .ok a => a
    | .error _ => Rep.mzero
  have hgd : ∀ g ∈ ρ.asymGens, ρ.gen g = .ok (gd g) ∧ (gd g).toMatrix = gmat ρ g := by
    intro g hg
    obtain ⟨A, hA⟩ := hgen g hg
    obtain ⟨a, ha, haA⟩ := gen_of_genM hA
    have : gd g = a := by simp only [gd, ha]
    rw [this, gmat_eq hA]; exact ⟨ha, haA⟩
  refine ⟨fun g => Rep.msub DMat.one (gd g), ?_, fun g hg => ?_⟩
  · unfold Rep.coboundaryMatrix
    apply mapM_ok
    intro g hg
    rw [(hgd g hg).1]; rfl
  · simp [Rep.msub, (hgd g hg).2]

/-- **(3)** `differential(w) @ coboundary_matrix() = 1 - ρ(w)` for the executable block
matrices, with the coboundary matrix `cb` given -/
theorem differential_mul_coboundary {ρ : Rep n R} (hinv : ρ.inv = invertGen)
    (H : Hyp ρ ρ.asymGens) {cb : List (DMat n n R)} (hcb : ρ.coboundaryMatrix = .ok cb)
    {w : Word} (hw : w ≠ []) (hl : ∀ x ∈ w, LetterOK invertGen ρ.asymGens x) :
    ∃ blocks A, ρ.differential w = .ok blocks ∧ blocks.length = ρ.asymGens.length ∧
      ρ.value w = .ok A ∧ (Rep.blockDot blocks cb).toMatrix = 1 - A ∧
      (List.zipWith (fun (B : DMat n n R) g => B.toMatrix * (gmat ρ g - 1)) blocks
        ρ.asymGens).sum = A - 1 := by
  obtain ⟨A, D, hA, hD, hsum⟩ := fox_sum H hw (by rw [hinv]; exact hl)
  rw [hinv] at hD
  let P : Gen → DMat n n R := fun g => match ρ.differentialAt w g with
    | .ok B => B
    | .error _ => Rep.mzero
  have hP : ∀ g, ρ.differentialAt w g = .ok (P g) ∧ (P g).toMatrix = D g := by
    intro g
    obtain ⟨d, hd, hDg⟩ := hD g
    obtain ⟨B, hB, hBD⟩ := differentialAt_ok hd hDg
    have : P g = B := by simp only [P, hB]
    rw [this]; exact ⟨hB, hBD⟩
  obtain ⟨Q, hQ, hQm⟩ := coboundaryMatrix_ok H.hgen
  obtain rfl : ρ.asymGens.map Q = cb := ok_inj (hQ.symm.trans hcb)
  refine ⟨ρ.asymGens.map P, A, ?_, by simp, hA, ?_, ?_⟩
  · unfold Rep.differential
    exact mapM_ok _ P _ (fun g _ => (hP g).1)
  · rw [blockDot_map]
    have e : (ρ.asymGens.map fun g => (P g).toMatrix * (Q g).toMatrix)
        = ρ.asymGens.map fun g => -(D g * (gmat ρ g - 1)) := by
      apply List.map_congr_left
      intro g hg
      rw [(hP g).2, hQm g hg, ← Matrix.mul_neg, neg_sub]
    rw [e, sum_map_neg', ← hsum, neg_sub]
  · have e : List.zipWith (fun (B : DMat n n R) g => B.toMatrix * (gmat ρ g - 1))
        (ρ.asymGens.map P) ρ.asymGens
          = ρ.asymGens.map fun g => D g * (gmat ρ g - 1) := by
      rw [List.zipWith_map_left, List.zipWith_self]
      apply List.map_congr_left
      intro g _
      rw [(hP g).2]
    rw [e, ← hsum]

/-- **(3)** `fox_fundamental`: under the side conditions, `_differential(w)` and
`coboundary_matrix()` are defined and `differential(w) @ coboundary_matrix() = 1 - ρ(w)`
(the sign the code has: coboundary blocks are `identity - generators[g]`); textbook form
`Σ_i blocks[i] (ρ(gs[i]) - 1) = ρ(w) - 1` as the last conjunct -/
theorem fox_fundamental {ρ : Rep n R} (hinv : ρ.inv = invertGen) (hcoh : ρ.Coherent)
    (H1 : ρ.asymGens.Nodup)
    (H2 : ∀ g ∈ ρ.asymGens, ∀ h ∈ ρ.asymGens, invertGen g ≠ h)
    (H5 : ∀ g ∈ ρ.asymGens, invertGen (invertGen g) = g)
    (hgen : ∀ g ∈ ρ.asymGens, ∃ A, ρ.genM g = .ok A)
    {w : Word} (hw : w ≠ [])
    (hl : ∀ x ∈ w, x ∈ ρ.asymGens ∨ ∃ g ∈ ρ.asymGens, x = invertGen g) :
    ∃ blocks cb A, ρ.differential w = .ok blocks ∧ blocks.length = ρ.asymGens.length ∧
      ρ.coboundaryMatrix = .ok cb ∧ ρ.value w = .ok A ∧
      (Rep.blockDot blocks cb).toMatrix = 1 - A ∧
      (List.zipWith (fun (B : DMat n n R) g => B.toMatrix * (gmat ρ g - 1)) blocks
        ρ.asymGens).sum = A - 1 := by
  have H : Hyp ρ ρ.asymGens := ⟨hcoh, H1, by rw [hinv]; exact H2, by rw [hinv]; exact H5, hgen⟩
  obtain ⟨Q, hQ, _⟩ := coboundaryMatrix_ok hgen
  obtain ⟨blocks, A, h1, h2, h3, h4, h5⟩ := differential_mul_coboundary hinv H hQ hw hl
  exact ⟨blocks, _, A, h1, h2, hQ, h3, h4, h5⟩

/-- **(4)** every block row of `cocycle_matrix()` times `coboundary_matrix()` is
`1 - ρ(r)`, `r` the corresponding relation -/
theorem cocycle_mul_coboundary {ρ : Rep n R} (hinv : ρ.inv = invertGen) (hcoh : ρ.Coherent)
    (H1 : ρ.asymGens.Nodup)
    (H2 : ∀ g ∈ ρ.asymGens, ∀ h ∈ ρ.asymGens, invertGen g ≠ h)
    (H5 : ∀ g ∈ ρ.asymGens, invertGen (invertGen g) = g)
    (hgen : ∀ g ∈ ρ.asymGens, ∃ A, ρ.genM g = .ok A)
    (hrel : ∀ r ∈ ρ.relations, r ≠ [] ∧
      ∀ x ∈ r, x ∈ ρ.asymGens ∨ ∃ g ∈ ρ.asymGens, x = invertGen g) :
    ∃ rows cb, ρ.cocycleMatrix = .ok rows ∧ ρ.coboundaryMatrix = .ok cb ∧
      List.Forall₂ (fun r row => ∃ A, ρ.value r = .ok A ∧
        (Rep.blockDot row cb).toMatrix = 1 - A) ρ.relations rows := by
  have H : Hyp ρ ρ.asymGens := ⟨hcoh, H1, by rw [hinv]; exact H2, by rw [hinv]; exact H5, hgen⟩
  obtain ⟨Q, hQ, _⟩ := coboundaryMatrix_ok hgen
  obtain ⟨rows, hrows, hF⟩ := mapM_forall₂ ρ.differential
    (fun r row => ∃ A, ρ.value r = .ok A ∧
      (Rep.blockDot row (ρ.asymGens.map Q)).toMatrix = 1 - A) ρ.relations (by
        intro r hr
        obtain ⟨blocks, A, h1, _, h3, h4, _⟩ :=
          differential_mul_coboundary hinv H hQ (hrel r hr).1 (hrel r hr).2
        exact ⟨blocks, h1, A, h3, h4⟩)
  exact ⟨rows, _, hrows, hQ, hF⟩

/-- **(4)** the cocycle matrix of *satisfied* relations annihilates the coboundary matrix -/
theorem cocycle_mul_coboundary_eq_zero {ρ : Rep n R} (hinv : ρ.inv = invertGen)
    (hcoh : ρ.Coherent) (H1 : ρ.asymGens.Nodup)
    (H2 : ∀ g ∈ ρ.asymGens, ∀ h ∈ ρ.asymGens, invertGen g ≠ h)
    (H5 : ∀ g ∈ ρ.asymGens, invertGen (invertGen g) = g)
    (hgen : ∀ g ∈ ρ.asymGens, ∃ A, ρ.genM g = .ok A)
    (hrel : ∀ r ∈ ρ.relations, r ≠ [] ∧
      ∀ x ∈ r, x ∈ ρ.asymGens ∨ ∃ g ∈ ρ.asymGens, x = invertGen g)
    (hsat : ∀ r ∈ ρ.relations, ρ.value r = .ok 1) :
    ∃ rows cb, ρ.cocycleMatrix = .ok rows ∧ ρ.coboundaryMatrix = .ok cb ∧
      rows.length = ρ.relations.length ∧
      ∀ row ∈ rows, (Rep.blockDot row cb).toMatrix = 0 := by
  obtain ⟨rows, cb, h1, h2, hF⟩ := cocycle_mul_coboundary hinv hcoh H1 H2 H5 hgen hrel
  refine ⟨rows, cb, h1, h2, hF.length_eq.symm, ?_⟩
  have : ∀ (rs : List Word) (rows : List (List (DMat n n R))),
      List.Forall₂ (fun r row => ∃ A, ρ.value r = .ok A ∧
        (Rep.blockDot row cb).toMatrix = 1 - A) rs rows →
      (∀ r ∈ rs, ρ.value r = .ok 1) → ∀ row ∈ rows, (Rep.blockDot row cb).toMatrix = 0 := by
    intro rs rows hF
    induction hF with
    | nil => intro _ row hrow; simp at hrow
    | @cons r row rs rows' hab _ ih =>
      intro hs row' hrow'
      rcases List.mem_cons.1 hrow' with rfl | hm
      · obtain ⟨A, hA, hdot⟩ := hab
        obtain rfl : A = 1 := ok_inj (hA.symm.trans (hs r (by simp)))
        rw [hdot, sub_self]
      · exact ih (fun r' hr' => hs r' (List.mem_cons_of_mem _ hr')) row' hm
  exact this _ _ hF hsat

end rep

/-! ## string-level facts about the real `invert_gen` -/

section strings

/-- `invert_gen` on one character -/
def invC (c : Char) : Char := if c.toLower = c then c.toUpper else c.toLower

theorem toUpper_eq_of_toLower_ne {c : Char} (h : c.toLower ≠ c) : c.toUpper = c := by
  have hu : c.isUpper := by
    by_contra hn
    exact h (Char.toLower_eq_of_not_isUpper hn)
  exact Char.toUpper_eq_of_not_isLower (Char.not_isLower_of_isUpper hu)

theorem invC_invC (c : Char) : invC (invC c) = c := by
  unfold invC
  by_cases h : c.toLower = c
  · rw [if_pos h, Char.toLower_toUpper_eq_toLower, h]
    by_cases hu : c = c.toUpper
    · rw [if_pos hu, Char.toUpper_toUpper_eq_toUpper, ← hu]
    · rw [if_neg hu]
  · rw [if_neg h, Char.toLower_toLower_eq_toLower, if_pos rfl, Char.toUpper_toLower_eq_toUpper,
      toUpper_eq_of_toLower_ne h]

theorem invertGen_singleton (c : Char) : invertGen (String.ofList [c]) = String.ofList [invC c] := by
  unfold invertGen lowerS upperS invC
  simp only [String.toList_ofList, List.map_cons, List.map_nil, String.ofList_inj,
    List.cons.injEq, and_true]
  split_ifs <;> rfl

/-- **(5)** `invert_gen` is an involution on one-character names -/
theorem invertGen_invertGen_singleton (c : Char) :
    invertGen (invertGen (String.ofList [c])) = String.ofList [c] := by
  rw [invertGen_singleton, invertGen_singleton, invC_invC]

theorem map_eq_self {α : Type} {f : α → α} {l : List α} (h : l.map f = l) :
    ∀ c ∈ l, f c = c := by
  induction l with
  | nil => intro c hc; cases hc
  | cons a l ih =>
    simp only [List.map_cons, List.cons.injEq] at h
    intro c hc
    rcases List.mem_cons.1 hc with rfl | hm
    · exact h.1
    · exact ih h.2 c hm

theorem lowerS_upperS (g : Gen) : lowerS (upperS g) = lowerS g := by
  unfold lowerS upperS
  simp [String.toList_ofList, List.map_map, Function.comp_def]

theorem isAsym_iff (g : Gen) : isAsym g = true ↔ lowerS g = g := by
  unfold isAsym; simp

/-- a semigroup generator with a legal name contains a lowercase ASCII letter, which
`str.upper()` moves -/
theorem upperS_ne_of_valid {g : Gen} (hv : validName g = true) (ha : isAsym g = true) :
    upperS g ≠ g := by
  rw [isAsym_iff] at ha
  have hl : g.toList.map Char.toLower = g.toList := by
    have : String.ofList (g.toList.map Char.toLower) = String.ofList g.toList := by
      rw [String.ofList_toList]; exact ha
    exact String.ofList_injective this
  unfold validName at hv
  simp only [Bool.and_eq_true, List.any_eq_true] at hv
  obtain ⟨c, hc, hletter⟩ := hv.1.2
  have hcl : c.toLower = c := by
    exact map_eq_self hl c hc
  intro hup
  have hu : g.toList.map Char.toUpper = g.toList := by
    have : String.ofList (g.toList.map Char.toUpper) = String.ofList g.toList := by
      rw [String.ofList_toList]; exact hup
    exact String.ofList_injective this
  have hcu : c.toUpper = c := map_eq_self hu c hc
  -- `c` is a letter fixed by both `toLower` and `toUpper`: impossible
  have hnu : ¬ c.isUpper := by
    intro h
    have := Char.isUpper_toLower_eq_false c
    rw [hcl] at this; rw [this] at h; cases h
  have hnl : ¬ c.isLower := by
    intro h
    have := Char.isLower_toUpper_eq_false c
    rw [hcu] at this; rw [this] at h; cases h
  unfold isAsciiLetter at hletter
  simp only [Char.isUpper, Char.isLower, ge_iff_le, Bool.and_eq_true, decide_eq_true_eq,
    Bool.decide_and] at hnu hnl
  simp only [Bool.or_eq_true, Bool.and_eq_true, decide_eq_true_eq, Bool.decide_and,
    Bool.decide_or, Char.le_def] at hletter
  rcases hletter with h | h
  · exact hnl h
  · exact hnu h

/-- **(5)** a legal semigroup-generator name differs from its inverse letter -/
theorem invertGen_ne_of_valid {g : Gen} (hv : validName g = true) (ha : isAsym g = true) :
    invertGen g ≠ g := by
  unfold invertGen
  rw [if_pos ((isAsym_iff g).1 ha)]
  exact upperS_ne_of_valid hv ha

/-- **(5)** the inverse letter of a legal semigroup generator is not a semigroup generator -/
theorem isAsym_invertGen_of_valid {g : Gen} (hv : validName g = true) (ha : isAsym g = true) :
    isAsym (invertGen g) = false := by
  have hl := (isAsym_iff g).1 ha
  unfold invertGen
  rw [if_pos hl]
  rw [Bool.eq_false_iff]
  intro h
  rw [isAsym_iff, lowerS_upperS, hl] at h
  exact upperS_ne_of_valid hv ha h.symm

/-- **(5)** `invert_gen` is an involution on legal semigroup-generator names (of any length) -/
theorem invertGen_invertGen_of_valid {g : Gen} (hv : validName g = true) (ha : isAsym g = true) :
    invertGen (invertGen g) = g := by
  have hl := (isAsym_iff g).1 ha
  have h1 : invertGen g = upperS g := by unfold invertGen; rw [if_pos hl]
  rw [h1]
  unfold invertGen
  rw [lowerS_upperS, hl, if_neg (fun h => upperS_ne_of_valid hv ha h.symm)]

/-- the abstract side conditions (H1), (H2), (H5) of `fox_fundamental` hold for every
representation whose `generators` dict has distinct keys (as every Python dict has) that passed
the name guards of `_set_generator` -/
theorem side_conditions_of_valid {n : ℕ} {R : Type} (ρ : Rep n R)
    (hnd : (ρ.gens.map Prod.fst).Nodup) (hv : ∀ g ∈ ρ.gens.map Prod.fst, validName g = true) :
    ρ.asymGens.Nodup ∧
    (∀ g ∈ ρ.asymGens, ∀ h ∈ ρ.asymGens, invertGen g ≠ h) ∧
    (∀ g ∈ ρ.asymGens, invertGen (invertGen g) = g) := by
  have hmem : ∀ g, g ∈ ρ.asymGens → validName g = true ∧ isAsym g = true := by
    intro g hg
    unfold Rep.asymGens GT.RepW.asymGens at hg
    rw [List.mem_filter] at hg
    exact ⟨hv g hg.1, hg.2⟩
  refine ⟨hnd.filter _, fun g hg h hh e => ?_, fun g hg => ?_⟩
  · have h1 := isAsym_invertGen_of_valid (hmem g hg).1 (hmem g hg).2
    rw [e, (hmem h hh).2] at h1
    cases h1
  · exact invertGen_invertGen_of_valid (hmem g hg).1 (hmem g hg).2

end strings

/-! ## a concrete instance (non-vacuity) -/

section example_
open Matrix

/-- `SL(2,ℤ)` elementary matrices for `a`, `b`, their inverses for `A`, `B` (what
`_set_generator` with `compute_inverse=True` stores), and two relations: a commutator that is
*not* satisfied and `aA` that is -/
def exRep : Rep 2 ℤ :=
  { gens := [("a", DMat.ofMatrix !![1, 1; 0, 1]), ("A", DMat.ofMatrix !![1, -1; 0, 1]),
             ("b", DMat.ofMatrix !![1, 0; 1, 1]), ("B", DMat.ofMatrix !![1, 0; -1, 1])],
    relations := [["a", "b", "A", "B"], ["a", "A"]] }

theorem exRep_asymGens : exRep.asymGens = ["a", "b"] := by decide

theorem exRep_genM (g : Gen) :
    exRep.genM g =
      if "a" = g then .ok !![1, 1; 0, 1] else if "A" = g then .ok !![1, -1; 0, 1]
      else if "b" = g then .ok !![1, 0; 1, 1] else if "B" = g then .ok !![1, 0; -1, 1]
      else .error "KeyError" := by
  unfold Rep.genM Rep.gen exRep
  simp only [dget]
  split_ifs <;> simp [Except.map]

theorem exRep_coherent : exRep.Coherent := by
  intro g A h
  have hinv : exRep.inv = invertGen := rfl
  rw [exRep_genM] at h
  rw [hinv]
  split_ifs at h with h1 h2 h3 h4
  · subst h1; cases h
    refine ⟨!![1, -1; 0, 1], by rw [exRep_genM]; decide, ?_, ?_⟩ <;> decide
  · subst h2; cases h
    refine ⟨!![1, 1; 0, 1], by rw [exRep_genM]; decide, ?_, ?_⟩ <;> decide
  · subst h3; cases h
    refine ⟨!![1, 0; -1, 1], by rw [exRep_genM]; decide, ?_, ?_⟩ <;> decide
  · subst h4; cases h
    refine ⟨!![1, 0; 1, 1], by rw [exRep_genM]; decide, ?_, ?_⟩ <;> decide

theorem exRep_hgen : ∀ g ∈ exRep.asymGens, ∃ A, exRep.genM g = .ok A := by
  rw [exRep_asymGens]
  intro g hg
  simp only [List.mem_cons, List.not_mem_nil, or_false] at hg
  rcases hg with rfl | rfl
  · exact ⟨!![1, 1; 0, 1], by rw [exRep_genM]; decide⟩
  · exact ⟨!![1, 0; 1, 1], by rw [exRep_genM]; decide⟩

/-- the hypotheses of `fox_fundamental` are satisfiable (word `abAB`, a non-trivial
commutator in `SL(2,ℤ)`) -/
example : ∃ blocks cb A, exRep.differential ["a", "b", "A", "B"] = .ok blocks ∧
    blocks.length = exRep.asymGens.length ∧ exRep.coboundaryMatrix = .ok cb ∧
    exRep.value ["a", "b", "A", "B"] = .ok A ∧ (Rep.blockDot blocks cb).toMatrix = 1 - A ∧
    (List.zipWith (fun (B : DMat 2 2 ℤ) g => B.toMatrix * (gmat exRep g - 1)) blocks
      exRep.asymGens).sum = A - 1 :=
  fox_fundamental rfl exRep_coherent (by rw [exRep_asymGens]; decide)
    (by rw [exRep_asymGens]; decide) (by rw [exRep_asymGens]; decide) exRep_hgen (by simp)
    (by rw [exRep_asymGens]; decide)

/-- … and those of `cocycle_mul_coboundary` -/
example : ∃ rows cb, exRep.cocycleMatrix = .ok rows ∧ exRep.coboundaryMatrix = .ok cb ∧
    List.Forall₂ (fun r row => ∃ A, exRep.value r = .ok A ∧
      (Rep.blockDot row cb).toMatrix = 1 - A) exRep.relations rows :=
  cocycle_mul_coboundary rfl exRep_coherent (by rw [exRep_asymGens]; decide)
    (by rw [exRep_asymGens]; decide) (by rw [exRep_asymGens]; decide) exRep_hgen
    (by rw [exRep_asymGens]; decide)

end example_

end Fox
end GT.RepW
