import GT.Model.Charts
import Mathlib.Tactic.FieldSimp
import Mathlib.Tactic.Ring
import Mathlib.Tactic.Linarith
import Mathlib.Tactic.Positivity
import Mathlib.Algebra.Order.BigOperators.Ring.Finset
import Mathlib.Algebra.Order.Ring.Abs

open Finset BigOperators

set_option linter.unusedSectionVars false

namespace GT

section field
variable {K : Type*} [Field K] {n : ℕ}

theorem dot_comm (x y : Fin n → K) : dot x y = dot y x := by
  unfold dot; exact Finset.sum_congr rfl fun i _ => mul_comm _ _

theorem dot_smul_left (c : K) (x y : Fin n → K) : dot (fun i => x i * c) y = c * dot x y := by
  unfold dot; rw [Finset.mul_sum]; exact Finset.sum_congr rfl fun i _ => by ring

theorem dot_smul_right (c : K) (x y : Fin n → K) : dot x (fun i => y i * c) = c * dot x y := by
  unfold dot; rw [Finset.mul_sum]; exact Finset.sum_congr rfl fun i _ => by ring

theorem dot_sub_left (x y z : Fin n → K) : dot (fun i => x i - y i) z = dot x z - dot y z := by
  unfold dot; rw [← Finset.sum_sub_distrib]; exact Finset.sum_congr rfl fun i _ => by ring

theorem dot_sub_right (x y z : Fin n → K) : dot z (fun i => x i - y i) = dot z x - dot z y := by
  rw [dot_comm, dot_sub_left, dot_comm x, dot_comm y]

theorem nsq_smul (c : K) (p : Fin n → K) : nsq (fun i => p i * c) = c ^ 2 * nsq p := by
  unfold nsq; rw [dot_smul_left, dot_smul_right]; ring

theorem nsq_sub (x y : Fin n → K) : nsq (fun i => x i - y i) = nsq x - 2 * dot x y + nsq y := by
  unfold nsq; rw [dot_sub_left, dot_sub_right, dot_sub_right, dot_comm y x]; ring

theorem nsq_div (c : K) (p : Fin n → K) : nsq (fun i => p i / c) = nsq p / c ^ 2 := by
  have : (fun i => p i / c) = fun i => p i * c⁻¹ := by funext i; rw [div_eq_mul_inv]
  rw [this, nsq_smul]; field_simp

theorem mink_comm (x y : Fin (n + 1) → K) : mink x y = mink y x := by
  unfold mink; rw [dot_comm, mul_comm]

theorem mink_smul_left (c : K) (x y : Fin (n + 1) → K) :
    mink (fun i => x i * c) y = c * mink x y := by
  unfold mink
  have : Fin.tail (fun i => x i * c) = fun i => Fin.tail x i * c := rfl
  rw [this, dot_smul_left]; ring

theorem mink_smul_right (c : K) (x y : Fin (n + 1) → K) :
    mink x (fun i => y i * c) = c * mink x y := by
  rw [mink_comm, mink_smul_left, mink_comm]

theorem mink_sub_smul (x y : Fin (n + 1) → K) (s : K) :
    mink (fun i => x i - y i * s) (fun i => x i - y i * s)
      = mink x x - 2 * s * mink x y + s ^ 2 * mink y y := by
  unfold mink
  have : Fin.tail (fun i => x i - y i * s) = fun i => Fin.tail x i - (fun j => Fin.tail y j * s) i := rfl
  rw [this]
  have h := nsq_sub (Fin.tail x) (fun j => Fin.tail y j * s)
  unfold nsq at h
  rw [h, dot_smul_right, dot_smul_left, dot_smul_right]
  ring

theorem mink_ofKlein (k l : Fin n → K) : mink (ofKlein k) (ofKlein l) = -1 + dot k l := by
  simp [mink, ofKlein]

theorem one_sub_nsq_p2k (p : Fin n → K) (h : 1 + nsq p ≠ 0) :
    1 - nsq (p2k p) = ((1 - nsq p) / (1 + nsq p)) ^ 2 := by
  unfold p2k; rw [nsq_smul]; field_simp; ring

theorem klein_ofKlein (k : Fin n → K) : klein (ofKlein k) = k := by
  funext i; simp [klein, ofKlein]

theorem ofKlein_klein (x : Fin (n + 1) → K) (h : x 0 ≠ 0) :
    ofKlein (klein x) = fun i => x i / x 0 := by
  funext i
  refine Fin.cases ?_ (fun j => ?_) i
  · simp [ofKlein, h]
  · simp [ofKlein, klein]

end field

section ordered
variable {K : Type*} [Field K] [LinearOrder K] [IsStrictOrderedRing K] {n : ℕ}

theorem nsq_nonneg (x : Fin n → K) : 0 ≤ nsq x := by
  unfold nsq dot
  exact Finset.sum_nonneg fun i _ => mul_self_nonneg (x i)

/-- what the theorems assume of the supplied square root (true of `Real.sqrt`, and of the
exact rational roots the correspondence generator supplies) -/
def IsSqrt (r : K → K) : Prop := ∀ x, 0 ≤ x → 0 ≤ r x ∧ r x * r x = x

theorem IsSqrt.sq {r : K → K} (hr : IsSqrt r) {a : K} (ha : 0 ≤ a) : r (a ^ 2) = a := by
  obtain ⟨h0, h1⟩ := hr (a ^ 2) (sq_nonneg a)
  have : (r (a ^ 2) - a) * (r (a ^ 2) + a) = 0 := by
    have : (r (a ^ 2) - a) * (r (a ^ 2) + a) = r (a ^ 2) * r (a ^ 2) - a ^ 2 := by ring
    rw [this, h1]; ring
  rcases mul_eq_zero.1 this with h | h
  · linarith
  · have : r (a ^ 2) = 0 := by linarith
    have : a = 0 := by linarith
    simp_all

theorem IsSqrt.zero {r : K → K} (hr : IsSqrt r) : r 0 = 0 := by
  have := hr.sq (le_refl (0 : K)); simpa using this

theorem IsSqrt.pos {r : K → K} (hr : IsSqrt r) {a : K} (ha : 0 < a) : 0 < r a := by
  obtain ⟨h0, h1⟩ := hr a ha.le
  rcases h0.lt_or_eq with h | h
  · exact h
  · rw [← h] at h1; simp at h1; linarith

/-- reverse Cauchy–Schwarz for timelike vectors, every dimension -/
theorem reverse_cs (x y : Fin (n + 1) → K) (_hx : mink x x < 0) (hy : mink y y < 0) :
    mink x x * mink y y ≤ mink x y ^ 2 := by
  have hy0 : y 0 ≠ 0 := by
    intro h
    have : mink y y = nsq (Fin.tail y) := by unfold mink nsq; rw [h]; ring
    linarith [nsq_nonneg (Fin.tail y)]
  have hz : 0 ≤ mink (fun i => x i - y i * (x 0 / y 0)) (fun i => x i - y i * (x 0 / y 0)) := by
    unfold mink
    have h0 : x 0 - y 0 * (x 0 / y 0) = 0 := by field_simp; ring
    simp only [h0, mul_zero, neg_zero, zero_add]
    exact nsq_nonneg _
  rw [mink_sub_smul] at hz
  generalize x 0 / y 0 = s at hz
  nlinarith [sq_nonneg (s * mink y y - mink x y), mul_nonneg hz (neg_nonneg.2 hy.le)]

/-- the Minkowski form is positive semidefinite on the orthogonal complement of a timelike vector -/
theorem nonneg_of_orth_timelike (u y : Fin (n + 1) → K) (hy : mink y y < 0) (h : mink u y = 0) :
    0 ≤ mink u u := by
  by_contra hu
  push_neg at hu
  have := reverse_cs u y hu hy
  rw [h] at this
  nlinarith [mul_pos_of_neg_of_neg hu hy]

theorem coshDist_timelike {r : K → K} (hr : IsSqrt r) (x y : Fin (n + 1) → K)
    (hx : mink x x < 0) (hy : mink y y < 0) :
    coshDist r x y = |mink x y| / (r (-mink x x) * r (-mink y y)) := by
  have hx' := hr.pos (neg_pos.2 hx)
  have hy' := hr.pos (neg_pos.2 hy)
  unfold coshDist normalize
  rw [abs_of_neg hx, abs_of_neg hy, if_neg hx'.ne', if_neg hy'.ne']
  have e1 : (fun i => x i / r (-mink x x)) = fun i => x i * (1 / r (-mink x x)) := by
    funext i; field_simp
  have e2 : (fun i => y i / r (-mink y y)) = fun i => y i * (1 / r (-mink y y)) := by
    funext i; field_simp
  rw [e1, e2, mink_smul_left, mink_smul_right, abs_mul, abs_mul,
    abs_of_pos (by positivity : 0 < 1 / r (-mink x x)),
    abs_of_pos (by positivity : 0 < 1 / r (-mink y y))]
  field_simp

/-- `cosh d ≥ 1` for interior points: the `arccosh` argument never needs the clamp in
exact arithmetic -/
theorem one_le_coshDist {r : K → K} (hr : IsSqrt r) (x y : Fin (n + 1) → K)
    (hx : mink x x < 0) (hy : mink y y < 0) : 1 ≤ coshDist r x y := by
  have hx' := hr.pos (neg_pos.2 hx)
  have hy' := hr.pos (neg_pos.2 hy)
  rw [coshDist_timelike hr x y hx hy, le_div_iff₀ (by positivity), one_mul]
  have h1 := (hr _ (neg_pos.2 hx).le).2
  have h2 := (hr _ (neg_pos.2 hy).le).2
  have hcs := reverse_cs x y hx hy
  have hsq : (r (-mink x x) * r (-mink y y)) ^ 2 ≤ |mink x y| ^ 2 := by
    rw [sq_abs]
    calc (r (-mink x x) * r (-mink y y)) ^ 2
        = (r (-mink x x) * r (-mink x x)) * (r (-mink y y) * r (-mink y y)) := by ring
      _ = mink x x * mink y y := by rw [h1, h2]; ring
      _ ≤ _ := hcs
  exact (pow_le_pow_iff_left₀ (by positivity) (abs_nonneg _) two_ne_zero).1 hsq

theorem coshDist_self {r : K → K} (hr : IsSqrt r) (x : Fin (n + 1) → K) (hx : mink x x < 0) :
    coshDist r x x = 1 := by
  have hx' := hr.pos (neg_pos.2 hx)
  rw [coshDist_timelike hr x x hx hx, abs_of_neg hx, (hr _ (neg_pos.2 hx).le).2]
  exact div_self (neg_ne_zero.2 hx.ne)

theorem coshDist_comm (r : K → K) (x y : Fin (n + 1) → K) : coshDist r x y = coshDist r y x := by
  unfold coshDist; rw [mink_comm]

end ordered
end GT
