/-
Coherence lemmas for the FSA model, part 3: `recurrent` — the pruning loop terminates within
`#vertices + 1` rounds, keeps the invariant, and ends in the greatest sub-automaton without dead
ends.
-/
import GT.Lemmas.FSADel

set_option linter.unusedSectionVars false
set_option linter.unusedSimpArgs false

namespace GT.FSA
variable {V L : Type} [DecidableEq V] [DecidableEq L]
open Dict

/-- the test `len(_out_dict[v]) == 0` of `recurrent` on a well-formed automaton: no outgoing edge -/
theorem outRow_empty_iff {s : FSA V L} (hs : s.WF) {v : V} {row : Dict V (List L)}
    (hrow : s.out.get? v = some row) : row.length = 0 ↔ ¬ ∃ l w, s.step v l = some w := by
  constructor
  · intro h0 ⟨l, w, hst⟩
    obtain ⟨ls, hls, -⟩ := (hs.1.label v l w).1 hst
    rw [og_def, hrow] at hls
    have : row = [] := List.length_eq_zero_iff.1 h0
    subst this; simp at hls
  · intro hne
    cases row with
    | nil => rfl
    | cons e r =>
      exfalso; apply hne
      obtain ⟨w, ls⟩ := e
      have hog : s.og v w = some ls := by rw [og_def, hrow]; simp [get?_cons]
      have hls : ls ≠ [] := hs.2 v w ls hog
      obtain ⟨l, hl⟩ := List.exists_mem_of_ne_nil ls hls
      exact ⟨l, w, (hs.1.label v l w).2 ⟨ls, hog, hl⟩⟩

/-- the test `len(_in_dict[v]) == 0`: no incoming edge -/
theorem innRow_empty_iff {s : FSA V L} (hs : s.WF) (v : V) :
    (s.inn.getOr v []).length = 0 ↔ ¬ ∃ l u, s.step u l = some v := by
  constructor
  · intro h0 ⟨l, u, hst⟩
    obtain ⟨ls, hls, -⟩ := (hs.1.label u l v).1 hst
    rw [hs.1.io, ig_def] at hls
    have : s.inn.getOr v [] = [] := List.length_eq_zero_iff.1 h0
    simp only [Dict.getOr] at this
    cases hi : s.inn.get? v with
    | none => simp [hi] at hls
    | some r => simp [hi] at this; subst this; simp [hi] at hls
  · intro hne
    simp only [Dict.getOr]
    cases hi : s.inn.get? v with
    | none => rfl
    | some row =>
      cases row with
      | nil => rfl
      | cons e r =>
        exfalso; apply hne
        obtain ⟨u, ls⟩ := e
        have hig : s.ig v u = some ls := by rw [ig_def, hi]; simp [get?_cons]
        rw [← hs.1.io] at hig
        have hls : ls ≠ [] := hs.2 u v ls hig
        obtain ⟨l, hl⟩ := List.exists_mem_of_ne_nil ls hls
        exact ⟨l, u, (hs.1.label u l v).2 ⟨ls, hig, hl⟩⟩

/-- the union of all vertex sets without dead ends has no dead ends -/
theorem SetFSA.noDeadEnds_core (m : SetFSA V L) : m.NoDeadEnds m.core := by
  rintro v ⟨S, hS, hv⟩
  obtain ⟨h1, ⟨l, w, he, hw⟩, ⟨l', u, he', hu⟩⟩ := hS v hv
  exact ⟨h1, ⟨l, w, he, S, hS, hw⟩, ⟨l', u, he', S, hS, hu⟩⟩

/-- … and contains every vertex set without dead ends: it is the greatest one -/
theorem SetFSA.le_core (m : SetFSA V L) {S : V → Prop} (hS : m.NoDeadEnds S) : ∀ v, S v → m.core v :=
  fun _ hv => ⟨S, hS, hv⟩

/-- invariant of the pruning loop relative to the set model `m0` of the automaton it started from -/
structure Pruned (m0 : SetFSA V L) (st : List V) (s : FSA V L) : Prop where
  wf : s.WF
  abs : s.abs = m0.induced (fun v => v ∈ s.out.keys)
  core : ∀ v, m0.core v → v ∈ s.out.keys
  starts : s.starts = st

/-- `v` is a dead end of `s`: the condition under which `recurrent` deletes it -/
def Dead (s : FSA V L) (v : V) : Prop := (¬ ∃ l w, s.step v l = some w) ∨ (¬ ∃ l u, s.step u l = some v)

theorem pruned_delete {m0 : SetFSA V L} {st : List V} {s : FSA V L} (hp : Pruned m0 st s) {v : V}
    (hv : v ∈ s.out.keys) (hd : s.Dead v) :
    ∃ s', s.deleteVertex v = .ok s' ∧ Pruned m0 st s' ∧ s'.out.length < s.out.length ∧
      ∀ a, a ∈ s'.out.keys ↔ a ≠ v ∧ a ∈ s.out.keys := by
  obtain ⟨s', e, w, stt, a, H⟩ := deleteVertex_wf hp.wf hv
  have hk : ∀ a, a ∈ s'.out.keys ↔ a ≠ v ∧ a ∈ s.out.keys := H.mem_out
  have hvcore : ¬ m0.core v := by
    intro hc
    obtain ⟨-, ⟨l, w, he, hw⟩, ⟨l', u, he', hu⟩⟩ := SetFSA.noDeadEnds_core m0 v hc
    have habs := hp.abs
    have e1 : s.abs.edges v l w := by rw [habs]; exact ⟨he, hv, hp.core w hw⟩
    have e2 : s.abs.edges u l' v := by rw [habs]; exact ⟨he', hp.core u hu, hv⟩
    rcases hd with hd | hd
    · exact hd ⟨l, w, e1⟩
    · exact hd ⟨l', u, e2⟩
  refine ⟨s', e, ⟨w, ?_, ?_, by rw [stt, hp.starts]⟩, ?_, hk⟩
  · rw [a, hp.abs]
    apply SetFSA.ext'
    · intro x; simp only [SetFSA.deleteVertex, SetFSA.induced, hk]; grind
    · intro x l y; simp only [SetFSA.deleteVertex, SetFSA.induced, hk]; grind
  · intro x hx; rw [hk]
    exact ⟨fun e => hvcore (e ▸ hx), hp.core x hx⟩
  · have h1 : s'.out.keys.length < s.out.keys.length := by
      have hsub : ∀ a, a ∈ s'.out.keys → a ∈ s.out.keys.erase v := by
        intro a ha
        have := (hk a).1 ha
        exact (List.mem_erase_of_ne this.1).2 this.2
      have hle : s'.out.keys.length ≤ (s.out.keys.erase v).length :=
        List.Nodup.length_le_of_subset w.1.keys.out hsub
      have : (s.out.keys.erase v).length = s.out.keys.length - 1 := List.length_erase_of_mem hv
      have hpos : 0 < s.out.keys.length := List.length_pos_of_mem hv
      omega
    simpa [Dict.keys] using h1

theorem pruneRound_spec {m0 : SetFSA V L} {st : List V} (vs : List V) :
    ∀ (s : FSA V L) (b : Bool), Pruned m0 st s → vs.Nodup → (∀ v ∈ vs, v ∈ s.out.keys) →
    ∃ s' b', pruneRound vs (s, b) = .ok (s', b') ∧ Pruned m0 st s' ∧
      s'.out.length ≤ s.out.length ∧
      (b' = false → b = false ∧ s' = s ∧ ∀ v ∈ vs, ¬ s.Dead v) ∧
      (b' = true → b = false → s'.out.length < s.out.length) := by
  induction vs with
  | nil => intro s b hp _ _; exact ⟨s, b, rfl, hp, Nat.le_refl _, fun h => ⟨h, rfl, by simp⟩, by
      intro h1 h2; rw [h1] at h2; cases h2⟩
  | cons v vs ih =>
    intro s b hp hnd hsub
    simp only [List.nodup_cons] at hnd
    have hv : v ∈ s.out.keys := hsub v (by simp)
    obtain ⟨row, hrow⟩ := (mem_keys_iff _ _).1 hv
    have hdead : (row.length == 0 || (s.inn.getOr v []).length == 0) = true ↔ s.Dead v := by
      simp only [Bool.or_eq_true, beq_iff_eq, outRow_empty_iff hp.wf hrow, innRow_empty_iff hp.wf v, Dead]
    by_cases hd : s.Dead v
    · obtain ⟨s1, e1, p1, hlt, hk⟩ := pruned_delete hp hv hd
      have hsub1 : ∀ a ∈ vs, a ∈ s1.out.keys := by
        intro a ha; rw [hk]
        exact ⟨by rintro rfl; exact hnd.1 ha, hsub a (by simp [ha])⟩
      obtain ⟨s', b', e, p', hle, hf, ht⟩ := ih s1 true p1 hnd.2 hsub1
      refine ⟨s', b', ?_, p', by omega, ?_, ?_⟩
      · simp only [pruneRound, Dict.get, hrow, bind, Except.bind, hdead.2 hd, if_true, e1]; exact e
      · intro hb; have := (hf hb).1; cases this
      · intro _ _; omega
    · have hcond : (row.length == 0 || (s.inn.getOr v []).length == 0) = false := by
        cases hc : (row.length == 0 || (s.inn.getOr v []).length == 0)
        · rfl
        · exact absurd (hdead.1 hc) hd
      obtain ⟨s', b', e, p', hle, hf, ht⟩ := ih s b hp hnd.2 (fun a ha => hsub a (by simp [ha]))
      refine ⟨s', b', ?_, p', hle, ?_, ht⟩
      · simp only [pruneRound, Dict.get, hrow, bind, Except.bind, hcond, Bool.false_eq_true, if_false]
        exact e
      · intro hb
        obtain ⟨h1, h2, h3⟩ := hf hb
        refine ⟨h1, h2, ?_⟩
        intro a ha
        rcases List.mem_cons.1 ha with rfl | ha
        · exact hd
        · exact h3 a ha

theorem recurrentLoop_spec {m0 : SetFSA V L} {st : List V} (fuel : Nat) :
    ∀ (s : FSA V L), Pruned m0 st s → s.out.length < fuel →
    ∃ s', recurrentLoop fuel s = .ok s' ∧ Pruned m0 st s' ∧ ∀ v ∈ s'.out.keys, ¬ s'.Dead v := by
  induction fuel with
  | zero => intro s _ h; omega
  | succ n ih =>
    intro s hp hlt
    obtain ⟨s', b', e, p', hle, hf, ht⟩ :=
      pruneRound_spec (m0 := m0) (st := st) s.out.keys s false hp hp.wf.1.keys.out (fun v hv => hv)
    cases b' with
    | false =>
      obtain ⟨-, rfl, h3⟩ := hf rfl
      exact ⟨s', by simp [recurrentLoop, e, bind, Except.bind, pure, Except.pure], hp, h3⟩
    | true =>
      have hlt' := ht rfl rfl
      obtain ⟨s'', e2, p2, h2⟩ := ih s' p' (by omega)
      exact ⟨s'', by simp only [recurrentLoop, e, bind, Except.bind, if_true]; exact e2, p2, h2⟩

theorem pruned_self {s : FSA V L} (hs : s.WF) : Pruned s.abs s.starts s := by
  refine ⟨hs, ?_, ?_, rfl⟩
  · apply SetFSA.ext'
    · intro v; simp [abs, SetFSA.induced]
    · intro v l w; simp only [abs, SetFSA.induced]
      constructor
      · intro h
        obtain ⟨ls, hls, -⟩ := (hs.1.label v l w).1 h
        refine ⟨h, ?_, hs.1.closed v w ls hls⟩
        obtain ⟨row, hr, -⟩ := (og_some_iff s v w).1 ⟨ls, hls⟩
        exact (mem_keys_iff _ _).2 ⟨row, hr⟩
      · exact fun h => h.1
  · intro v hv
    exact (SetFSA.noDeadEnds_core s.abs v hv).1

/-- `recurrent()`: never raises on a well-formed automaton (in particular the fuel `#vertices + 1`
suffices), keeps it well-formed, and the result is the sub-automaton induced on the greatest vertex
set without dead ends -/
theorem recurrent_spec {s : FSA V L} (hs : s.WF) :
    ∃ s', s.recurrent = .ok s' ∧ s'.WF ∧ s'.starts = s.starts ∧ s'.abs = s.abs.recurrent := by
  obtain ⟨s', e, p, hnd⟩ := recurrentLoop_spec (s.out.length + 1) s (pruned_self hs) (Nat.lt_succ_self _)
  refine ⟨s', e, p.wf, p.starts, ?_⟩
  have hcore : ∀ v, v ∈ s'.out.keys ↔ s.abs.core v := by
    intro v
    constructor
    · intro hv
      refine SetFSA.le_core s.abs (S := fun v => v ∈ s'.out.keys) ?_ v hv
      intro a ha
      have habs := p.abs
      have hva : s'.abs.verts a := ha
      rw [habs] at hva
      have hnd' := hnd a ha
      simp only [Dead, not_or, Classical.not_not] at hnd'
      obtain ⟨⟨l, w, h1⟩, ⟨l', u, h2⟩⟩ := hnd'
      have e1 : s'.abs.edges a l w := h1
      have e2 : s'.abs.edges u l' a := h2
      rw [habs] at e1 e2
      exact ⟨hva.1, ⟨l, w, e1.1, e1.2.2⟩, ⟨l', u, e2.1, e2.2.1⟩⟩
    · exact p.core v
  rw [p.abs]
  apply SetFSA.ext'
  · intro v; simp only [SetFSA.recurrent, SetFSA.induced, hcore]
  · intro v l w; simp only [SetFSA.recurrent, SetFSA.induced, hcore]

end GT.FSA
