/- helper lemmas for `sl2cToSo31` (Hermitian-matrix model of R^(3,1)) -/
import GT.Lemmas.Lie

open Matrix Finset BigOperators

set_option linter.unusedSectionVars false
set_option linter.unusedSimpArgs false
set_option maxHeartbeats 2000000

namespace GT.Lie

namespace Cx
variable {R : Type*} [CommRing R]

/-- complex conjugation as a ring homomorphism -/
def conjHom : Cx R →+* Cx R where
  toFun := conj
  map_one' := by ext <;> simp
  map_mul' a b := by ext <;> simp <;> ring
  map_zero' := by ext <;> simp
  map_add' a b := by ext <;> simp <;> ring

@[simp] theorem conjHom_apply (a : Cx R) : conjHom a = conj a := rfl

/-- the inclusion of the reals as a ring homomorphism -/
def ofRealHom : R →+* Cx R where
  toFun := ofReal
  map_one' := by ext <;> simp
  map_mul' a b := by ext <;> simp
  map_zero' := by ext <;> simp
  map_add' a b := by ext <;> simp

@[simp] theorem ofRealHom_apply (a : R) : ofRealHom a = ofReal a := rfl

end Cx

variable {K : Type*} [Field K]

theorem conjTranspose_mul {ι : Type*} [Fintype ι] (M N : Matrix ι ι (Cx K)) :
    conjTranspose (M * N) = conjTranspose N * conjTranspose M := by
  unfold conjTranspose
  rw [Matrix.transpose_mul]
  exact Matrix.map_mul (f := (Cx.conjHom : Cx K →+* Cx K))

theorem conjTranspose_one {ι : Type*} [Fintype ι] [DecidableEq ι] :
    conjTranspose (1 : Matrix ι ι (Cx K)) = 1 := by
  unfold conjTranspose
  rw [Matrix.transpose_one]
  exact Matrix.map_one (Cx.conjHom : Cx K →+* Cx K) (map_zero _) (map_one _)

theorem hermBasisInv_mul (h2 : (2 : K) ≠ 0) :
    (hermBasisInv : Matrix (Fin 4) (Fin 2 × Fin 2) (Cx K)) * hermBasis = (1 : Matrix (Fin 4) (Fin 4) (Cx K)) := by
  ext i j
  all_goals
    fin_cases i <;> fin_cases j <;>
      simp [hermBasis, hermBasisInv, Matrix.mul_apply, Fintype.sum_prod_type, Fin.sum_univ_succ,
        finProdFinEquiv, Matrix.one_apply] <;> field_simp <;> ring

theorem hermBasis_mul_inv (h2 : (2 : K) ≠ 0) :
    (hermBasis : Matrix (Fin 2 × Fin 2) (Fin 4) (Cx K)) * hermBasisInv
      = (1 : Matrix (Fin 2 × Fin 2) (Fin 2 × Fin 2) (Cx K)) := by
  ext ⟨a, b⟩ ⟨c, d⟩
  all_goals
    fin_cases a <;> fin_cases b <;> fin_cases c <;> fin_cases d <;>
      simp [hermBasis, hermBasisInv, Matrix.mul_apply, Fin.sum_univ_succ,
        finProdFinEquiv, Matrix.one_apply] <;> field_simp <;> ring

/-- the Hermitian action is multiplicative (as complex matrices) -/
theorem sl2cHermActionCx_mul (h2 : (2 : K) ≠ 0) (M N : Matrix (Fin 2) (Fin 2) (Cx K)) :
    sl2cHermActionCx (M * N) = sl2cHermActionCx M * sl2cHermActionCx N := by
  unfold sl2cHermActionCx
  have h := linearMatrixAction_comp (conjLin M (conjTranspose M)) (conjLin N (conjTranspose N))
  have e1 : (fun X => M * N * X * conjTranspose (M * N))
      = fun X => conjLin M (conjTranspose M) (conjLin N (conjTranspose N) X) := by
    funext X
    simp only [conjLin_apply, conjTranspose_mul, Matrix.mul_assoc]
  have hcomp : linearMatrixAction (fun X => M * N * X * conjTranspose (M * N))
      = linearMatrixAction (fun X => M * X * conjTranspose M)
        * linearMatrixAction (fun X => N * X * conjTranspose N) := by
    rw [e1, h]; rfl
  rw [hcomp]
  set LM := linearMatrixAction (fun X => M * X * conjTranspose M) with hLM
  set LN := linearMatrixAction (fun X => N * X * conjTranspose N) with hLN
  have e2 : hermBasisInv (K := K) * LM * hermBasis (K := K)
        * (hermBasisInv (K := K) * LN * hermBasis (K := K))
      = hermBasisInv (K := K) * LM * (hermBasis (K := K) * hermBasisInv (K := K))
          * LN * hermBasis (K := K) := by
    simp only [Matrix.mul_assoc]
  rw [e2, hermBasis_mul_inv h2, Matrix.mul_one]
  simp only [Matrix.mul_assoc]

theorem sl2cHermActionCx_one (h2 : (2 : K) ≠ 0) :
    sl2cHermActionCx (1 : Matrix (Fin 2) (Fin 2) (Cx K)) = 1 := by
  unfold sl2cHermActionCx
  have : (fun X : Matrix (Fin 2) (Fin 2) (Cx K) => 1 * X * conjTranspose 1) = fun X => X := by
    funext X; rw [conjTranspose_one, Matrix.one_mul, Matrix.mul_one]
  rw [this, linearMatrixAction_id, Matrix.mul_one, hermBasisInv_mul h2]

/-- unfold the Hermitian action at concrete indices -/
macro "herm_unfold" : tactic =>
  `(tactic| simp [sl2cHermActionCx, hermBasis, hermBasisInv, linearMatrixAction, Lie.conjTranspose,
      Matrix.mul_apply, Matrix.map_apply, Matrix.transpose_apply, Fintype.sum_prod_type,
      Fin.sum_univ_succ, Matrix.single_apply, finProdFinEquiv])

/-- the Hermitian action is a real matrix: `utils.real` discards nothing -/
theorem sl2cHermActionCx_im (M : Matrix (Fin 2) (Fin 2) (Cx K)) (i j : Fin 4) :
    (sl2cHermActionCx M i j).im = 0 := by
  fin_cases i <;> fin_cases j <;> herm_unfold <;> ring

theorem sl2cHermActionCx_eq (M : Matrix (Fin 2) (Fin 2) (Cx K)) :
    sl2cHermActionCx M = (sl2cHermAction M).map Cx.ofReal := by
  ext i j
  · simp [sl2cHermAction]
  · simp [sl2cHermAction, sl2cHermActionCx_im]

theorem map_re_mul {m : ℕ} (X Y : Matrix (Fin m) (Fin m) (Cx K))
    (hX : ∀ i j, (X i j).im = 0) (hY : ∀ i j, (Y i j).im = 0) :
    (X * Y).map Cx.re = X.map Cx.re * Y.map Cx.re := by
  ext i j
  simp only [Matrix.map_apply, Matrix.mul_apply]
  have : ∀ (s : Finset (Fin m)) (f : Fin m → Cx K), (∑ k ∈ s, f k).re = ∑ k ∈ s, (f k).re := by
    intro s f
    induction s using Finset.induction_on with
    | empty => simp
    | insert a s ha ih => rw [Finset.sum_insert ha, Finset.sum_insert ha, Cx.add_re, ih]
  rw [this]
  refine Finset.sum_congr rfl fun k _ => ?_
  rw [Cx.mul_re, hX, hY]; ring

theorem sl2cHermAction_mul (h2 : (2 : K) ≠ 0) (M N : Matrix (Fin 2) (Fin 2) (Cx K)) :
    sl2cHermAction (M * N) = sl2cHermAction M * sl2cHermAction N := by
  unfold sl2cHermAction
  rw [sl2cHermActionCx_mul h2, map_re_mul _ _ (sl2cHermActionCx_im M) (sl2cHermActionCx_im N)]

theorem sl2cHermAction_one (h2 : (2 : K) ≠ 0) :
    sl2cHermAction (1 : Matrix (Fin 2) (Fin 2) (Cx K)) = 1 := by
  unfold sl2cHermAction
  rw [sl2cHermActionCx_one h2]
  ext i j
  simp [Matrix.one_apply]
  split_ifs <;> simp

/-- the determinant form `x₁x₂ - x₃² - x₄²` (negated) on Hermitian coordinates:
`B2⁻ᵀ · diag(-1,1,1,1) · B2⁻¹` -/
def hermForm : Matrix (Fin 4) (Fin 4) K := !![0, -1 / 2, 0, 0; -1 / 2, 0, 0, 0; 0, 0, 1, 0; 0, 0, 0, 1]

theorem so31Basis_form (h2 : (2 : K) ≠ 0) :
    (so31Basis : Matrix (Fin 4) (Fin 4) K)ᵀ * hermForm * so31Basis = mink31 := by
  ext i j
  fin_cases i <;> fin_cases j <;>
    simp [so31Basis, hermForm, mink31, Matrix.mul_apply, Fin.sum_univ_succ, Matrix.diagonal_apply] <;>
    field_simp <;> ring

theorem so31BasisInv_form (h2 : (2 : K) ≠ 0) :
    (so31BasisInv : Matrix (Fin 4) (Fin 4) K)ᵀ * mink31 * so31BasisInv = hermForm := by
  ext i j
  fin_cases i <;> fin_cases j <;>
    simp [so31BasisInv, hermForm, mink31, Matrix.mul_apply, Fin.sum_univ_succ, Matrix.diagonal_apply] <;>
    field_simp <;> ring

/-- squared modulus of the complex determinant -/
def detNormSq (M : Matrix (Fin 2) (Fin 2) (Cx K)) : K := M.det.re ^ 2 + M.det.im ^ 2

/-- the Hermitian action scales the determinant form by `|det M|²` -/
theorem sl2cHermAction_form (h2 : (2 : K) ≠ 0) (M : Matrix (Fin 2) (Fin 2) (Cx K)) :
    (sl2cHermAction M)ᵀ * hermForm * sl2cHermAction M = detNormSq M • (hermForm : Matrix (Fin 4) (Fin 4) K) := by
  ext i j
  fin_cases i <;> fin_cases j <;>
    simp [sl2cHermAction, hermForm, detNormSq, Matrix.det_fin_two, sl2cHermActionCx, hermBasis,
      hermBasisInv, linearMatrixAction, Lie.conjTranspose, Matrix.mul_apply, Matrix.map_apply,
      Matrix.transpose_apply, Fintype.sum_prod_type, Fin.sum_univ_succ, Matrix.single_apply,
      finProdFinEquiv] <;> field_simp <;> ring

end GT.Lie
