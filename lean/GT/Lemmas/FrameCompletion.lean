import GT.Lemmas.GramSchmidt

open Finset BigOperators Matrix

set_option linter.unusedSectionVars false

namespace GT.GS
open GT.Iso

variable {K : Type*} [Field K] {n : ℕ}

/-- the `F`-orthogonal complement of a set, as a subspace -/
def orthSub (F : Matrix (Fin n) (Fin n) K) (S : Set (Fin n → K)) : Submodule K (Fin n → K) where
  carrier := {u | ∀ p ∈ S, bil F p u = 0}
  add_mem' := by intro a b ha hb p hp; rw [bil_add_right, ha p hp, hb p hp, add_zero]
  zero_mem' := by intro p _; exact bil_zero_right F p
  smul_mem' := by intro c a ha p hp; rw [bil_smul_right, ha p hp, mul_zero]

theorem mem_orthSub {F : Matrix (Fin n) (Fin n) K} {S : Set (Fin n → K)} {u : Fin n → K} :
    u ∈ orthSub F S ↔ ∀ p ∈ S, bil F p u = 0 := Iff.rfl

/-- if every row of `A` is orthogonal to every row of `B`, the same holds after Gram–Schmidt on both -/
theorem gs_cross_orth {F : Matrix (Fin n) (Fin n) K} (hF : Fᵀ = F) (A B : List (Fin n → K))
    (h : ∀ a ∈ A, ∀ b ∈ B, bil F a b = 0) : ∀ a ∈ gs F A, ∀ b ∈ gs F B, bil F a b = 0 := by
  have h1 : ∀ a ∈ gs F A, ∀ b ∈ B, bil F a b = 0 := by
    intro a ha b hb
    have := gs_mem F (orthSub F {b}) A (fun a' ha' => by
      rw [mem_orthSub]; intro p hp
      have : p = b := by simpa using hp
      subst this; rw [bil_comm hF]; exact h a' ha' p hb) a ha
    rw [bil_comm hF]; exact this b (by simp)
  intro a ha b hb
  exact gs_mem F (orthSub F {a}) B (fun b' hb' => by
    rw [mem_orthSub]; intro p hp
    have : p = a := by simpa using hp
    subst this; exact h1 p ha b' hb') b hb a (by simp)

section ordered
variable [LinearOrder K] [IsStrictOrderedRing K]

theorem nsq_eq_zero {x : Fin n → K} (h : nsq x = 0) : x = 0 := by
  unfold nsq dot at h
  have := (Finset.sum_eq_zero_iff_of_nonneg (fun i _ => mul_self_nonneg (x i))).1 h
  funext i
  exact mul_self_eq_zero.1 (this i (Finset.mem_univ i))

/-- the Minkowski form is positive **definite** on the orthogonal complement of a timelike vector -/
theorem pos_of_orth_timelike (u y : Fin (n + 1) → K) (hy : mink y y < 0) (h : mink u y = 0) (hu : u ≠ 0) :
    0 < mink u u := by
  have hy0 : y 0 ≠ 0 := by
    intro h0
    have : mink y y = nsq (Fin.tail y) := by unfold mink nsq; rw [h0]; ring
    linarith [nsq_nonneg (Fin.tail y)]
  set t := u 0 / y 0 with ht
  set w : Fin (n + 1) → K := fun i => u i - y i * t with hw
  have hw0 : w 0 = 0 := by simp only [hw, ht]; field_simp; ring
  have hww : mink w w = nsq (Fin.tail w) := by unfold mink nsq; rw [hw0]; ring
  have hexp : mink w w = mink u u + t ^ 2 * mink y y := by
    rw [hw, mink_sub_smul, h]; ring
  have hnn := nsq_nonneg (Fin.tail w)
  have ht2 : 0 ≤ t ^ 2 := sq_nonneg t
  have hge : 0 ≤ mink u u := by nlinarith
  rcases hge.lt_or_eq with hpos | hzero
  · exact hpos
  · exfalso
    have h1 : nsq (Fin.tail w) + t ^ 2 * (-mink y y) = 0 := by rw [← hww, hexp, ← hzero]; ring
    have h2 : 0 ≤ t ^ 2 * (-mink y y) := mul_nonneg ht2 (by linarith)
    have h3 : nsq (Fin.tail w) = 0 := by linarith
    have h4 : t ^ 2 * (-mink y y) = 0 := by linarith
    have ht0 : t = 0 := by
      rcases mul_eq_zero.1 h4 with h5 | h5
      · exact pow_eq_zero_iff (two_ne_zero) |>.1 h5
      · linarith
    apply hu
    have hwu : w = u := by funext i; simp [hw, ht0]
    funext i
    refine Fin.cases ?_ (fun j => ?_) i
    · rw [← hwu]; exact hw0
    · have := congrFun (nsq_eq_zero h3) j
      rw [hwu] at this; exact this

/-- `find_isometry(minkowski, x :: rest)` under the kernel contract: the unnormalised rows
`gs (x :: rest) ++ gs ker` are pairwise orthogonal, the first is `x` (timelike) and all others
are spacelike -/
theorem frame_gs_spec (x : Fin (n + 1) → K) (rest ker : List (Fin (n + 1) → K))
    (hx : mink x x < 0)
    (hker : ∀ p ∈ x :: rest, ∀ k ∈ ker, mink p k = 0)
    (hnz : ∀ u ∈ gs (minkJ n) (x :: rest) ++ gs (minkJ n) ker, u ≠ 0) :
    ∃ t, gs (minkJ n) (x :: rest) ++ gs (minkJ n) ker = x :: t ∧
      (x :: t).Pairwise (fun a b => mink a b = 0) ∧ ∀ g ∈ t, 0 < mink g g := by
  have hF : (minkJ n : Matrix _ _ K)ᵀ = minkJ n := minkJ_transpose
  -- the head of the Gram–Schmidt output is `x`
  obtain ⟨t1, ht1, _⟩ := gs_append (minkJ n) [x] rest
  have hhead : gs (minkJ n) (x :: rest) = x :: t1 := by
    have : gs (minkJ n) ([x] ++ rest) = gs (minkJ n) (x :: rest) := rfl
    rw [← this, ht1]; rfl
  -- the partial frame: orthogonal, non-null
  have hO1 : Orth (minkJ n) (gs (minkJ n) (x :: rest)) := by
    apply gs_orth_of hF
    intro pre r post hdec hOpre horth
    set u := gsStep (minkJ n) (gs (minkJ n) pre) r with hu
    have humem : u ∈ gs (minkJ n) (x :: rest) := by
      obtain ⟨tail, h1, _⟩ := gs_append (minkJ n) (pre ++ [r]) post
      rw [hdec, show pre ++ r :: post = (pre ++ [r]) ++ post by simp, h1, gs_append_singleton]
      simp [hu]
    cases pre with
    | nil =>
      have hr : r = x := by simpa using (List.cons.inj hdec).1.symm
      have : u = x := by rw [hu, hr]; rfl
      rw [this, bil_minkJ]; exact hx.ne
    | cons p pre' =>
      have hp : p = x := by simpa using (List.cons.inj hdec).1.symm
      obtain ⟨t', ht', _⟩ := gs_append (minkJ n) [p] pre'
      have hxin : x ∈ gs (minkJ n) (p :: pre') := by
        have : gs (minkJ n) ([p] ++ pre') = gs (minkJ n) (p :: pre') := rfl
        rw [← this, ht', hp]; simp [gs, gsStep]
      have h0 := horth x hxin
      rw [bil_minkJ] at h0 ⊢
      exact (pos_of_orth_timelike u x hx h0 (hnz u (List.mem_append_left _ humem))).ne'
  -- the kernel part is orthogonal to the partial frame
  have hcross := gs_cross_orth hF (x :: rest) ker (fun a ha b hb => by rw [bil_minkJ]; exact hker a ha b hb)
  have hxin : x ∈ gs (minkJ n) (x :: rest) := by rw [hhead]; simp
  have hpos2 : ∀ u ∈ gs (minkJ n) ker, 0 < mink u u := by
    intro u hu
    have h0 := hcross x hxin u hu
    rw [bil_minkJ, mink_comm] at h0
    exact pos_of_orth_timelike u x hx h0 (hnz u (List.mem_append_right _ hu))
  have hO2 : Orth (minkJ n) (gs (minkJ n) ker) :=
    gs_orth hF ker (fun u hu => by rw [bil_minkJ]; exact (hpos2 u hu).ne')
  refine ⟨t1 ++ gs (minkJ n) ker, by rw [hhead]; rfl, ?_, ?_⟩
  · have : x :: (t1 ++ gs (minkJ n) ker) = gs (minkJ n) (x :: rest) ++ gs (minkJ n) ker := by rw [hhead]; rfl
    rw [this, List.pairwise_append]
    refine ⟨?_, ?_, ?_⟩
    · exact hO1.1.imp (fun h => by rwa [bil_minkJ] at h)
    · exact hO2.1.imp (fun h => by rwa [bil_minkJ] at h)
    · intro a ha b hb; rw [← bil_minkJ]; exact hcross a ha b hb
  · intro g hg
    rcases List.mem_append.1 hg with hg | hg
    · have hp := hO1.1
      rw [hhead, List.pairwise_cons] at hp
      have h0 := hp.1 g hg
      rw [bil_minkJ, mink_comm] at h0
      exact pos_of_orth_timelike g x hx h0 (hnz g (List.mem_append_left _ (by rw [hhead]; exact List.mem_cons_of_mem _ hg)))
    · exact hpos2 g hg

/-- `find_isometry(minkowski, x :: rest)` under the kernel contract: the rows of the result are
Minkowski-orthonormal with the sign pattern `(−,+,…,+)` -/
theorem findIsometry_rows {r : K → K} (hr : IsSqrt r) (x : Fin (n + 1) → K) (rest ker : List (Fin (n + 1) → K))
    (hx : mink x x < 0)
    (hker : ∀ p ∈ x :: rest, ∀ k ∈ ker, mink p k = 0)
    (hnz : ∀ u ∈ gs (minkJ n) (x :: rest) ++ gs (minkJ n) ker, u ≠ 0)
    (i k : ℕ) (hi : i < (findIsometry r (minkJ n) (x :: rest) ker).length)
    (hk : k < (findIsometry r (minkJ n) (x :: rest) ker).length) :
    mink (findIsometry r (minkJ n) (x :: rest) ker)[i] (findIsometry r (minkJ n) (x :: rest) ker)[k]
      = if i = k then (if i = 0 then -1 else 1) else 0 := by
  obtain ⟨t, hG, hpair, hpos⟩ := frame_gs_spec x rest ker hx hker hnz
  have hL : findIsometry r (minkJ n) (x :: rest) ker = (x :: t).map (normalizeVec r (minkJ n)) := by
    unfold findIsometry indefiniteOrthogonalize normalizeRows
    rw [← List.map_append, hG]
  simp only [hL] at hi hk ⊢
  rw [List.length_map] at hi hk
  rw [List.getElem_map, List.getElem_map, ← bil_minkJ, bil_normalizeVec, bil_minkJ]
  have hsymm : ∀ a b (ha : a < (x :: t).length) (hb : b < (x :: t).length), a ≠ b →
      mink (x :: t)[a] (x :: t)[b] = 0 := by
    intro a b ha hb hab
    rcases Nat.lt_or_gt_of_ne hab with h | h
    · exact (List.pairwise_iff_getElem.1 hpair) a b ha hb h
    · rw [mink_comm]; exact (List.pairwise_iff_getElem.1 hpair) b a hb ha h
  split_ifs with h1 h2
  · subst h1; subst h2
    have := bil_normalizeVec_self hr (minkJ n) x (by rw [bil_minkJ]; exact hx.ne)
    rw [bil_normalizeVec, bil_minkJ, if_neg (not_lt.2 hx.le)] at this
    simpa using this
  · subst h1
    obtain ⟨j, rfl⟩ : ∃ j, i = j + 1 := Nat.exists_eq_succ_of_ne_zero h2
    have hg : (x :: t)[j + 1] ∈ t := by simp
    have hp := hpos _ hg
    have := bil_normalizeVec_self hr (minkJ n) (x :: t)[j + 1] (by rw [bil_minkJ]; exact hp.ne')
    rw [bil_normalizeVec, bil_minkJ, if_pos hp] at this
    exact this
  · rw [hsymm i k hi hk h1, mul_zero]

/-- hence the stacked matrix is an isometry -/
theorem findIsometry_isIso' {r : K → K} (hr : IsSqrt r) (x : Fin (n + 1) → K) (rest ker : List (Fin (n + 1) → K))
    (hx : mink x x < 0)
    (hker : ∀ p ∈ x :: rest, ∀ k ∈ ker, mink p k = 0)
    (hnz : ∀ u ∈ gs (minkJ n) (x :: rest) ++ gs (minkJ n) ker, u ≠ 0)
    (hlen : (findIsometry r (minkJ n) (x :: rest) ker).length = n + 1) :
    IsIso (rowsMatrix (findIsometry r (minkJ n) (x :: rest) ker) hlen) := by
  rw [isIso_iff_rows]
  intro i k
  refine (findIsometry_rows hr x rest ker hx hker hnz i k (by rw [hlen]; exact i.2)
    (by rw [hlen]; exact k.2)).trans ?_
  unfold minkJ
  rw [Matrix.diagonal_apply]
  by_cases hik : i = k
  · subst hik
    simp only [if_true]
    refine Fin.cases ?_ (fun j => ?_) i
    · simp
    · simp
  · have : (i : ℕ) ≠ k := fun h => hik (Fin.ext h)
    rw [if_neg this, if_neg hik]

theorem mink_normalizeVec {r : K → K} (hr : IsSqrt r) (x : Fin (n + 1) → K) :
    ∃ c : K, c ≠ 0 ∧ mink (normalizeVec r (minkJ n) x) (normalizeVec r (minkJ n) x) = c * c * mink x x := by
  refine ⟨nfac r (minkJ n) x, nfac_ne_zero hr _ x, ?_⟩
  rw [← bil_minkJ, bil_normalizeVec, bil_minkJ]

theorem normalizeVec_timelike {r : K → K} (hr : IsSqrt r) (x : Fin (n + 1) → K) (hx : mink x x < 0) :
    mink (normalizeVec r (minkJ n) x) (normalizeVec r (minkJ n) x) < 0 := by
  obtain ⟨c, hc, h⟩ := mink_normalizeVec hr x
  rw [h]; exact mul_neg_of_pos_of_neg (mul_self_pos.2 hc) hx

theorem sheetSign_mul_self (y : Fin (n + 1) → K) : sheetSign y * sheetSign y = 1 := by
  unfold sheetSign; split_ifs <;> ring

theorem sheetSign_ne_zero (y : Fin (n + 1) → K) : sheetSign y ≠ 0 := by
  unfold sheetSign; split_ifs <;> norm_num

/-- changing the sheet of both arguments does not change a Minkowski product -/
theorem mink_sheet_smul (c : K) (hc : c * c = 1) (a b : Fin (n + 1) → K) : mink (c • a) (c • b) = mink a b := by
  rw [← bil_minkJ, bil_smul_left, bil_smul_right, bil_minkJ, ← mul_assoc, hc, one_mul]

/-- the first row of the frame completed by `spacelike_to` is timelike whenever `v` is spacelike -/
theorem spacelikeFrame_timelike {r : K → K} (hr : IsSqrt r) (v : Fin (n + 1) → K) (hv : 0 < mink v v) :
    ∃ t rest, spacelikeFrame r v = t :: rest ∧ mink t t < 0 := by
  unfold spacelikeFrame
  refine ⟨_, _, rfl, ?_⟩
  set vn := normalizeVec r (minkJ n) v with hvn
  obtain ⟨c, hc, h⟩ := mink_normalizeVec hr v
  have hq : 0 < mink vn vn := by rw [h]; exact mul_pos (mul_self_pos.2 hc) hv
  have he : mink (Pi.single 0 1 : Fin (n + 1) → K) (Pi.single 0 1) = -1 := by
    simp [mink, dot, Fin.tail]
  unfold gproj
  rw [← bil_minkJ, bil_sub_left, bil_sub_right, bil_sub_right, bil_smul_left, bil_smul_right, bil_smul_right,
    bil_smul_left]
  simp only [bil_minkJ]
  rw [he, mink_comm vn (Pi.single 0 1)]
  set a := mink (Pi.single 0 1 : Fin (n + 1) → K) vn
  have : -1 - a / mink vn vn * a - (a / mink vn vn * a - a / mink vn vn * (a / mink vn vn * mink vn vn))
      = -1 - a ^ 2 / mink vn vn := by field_simp; ring
  rw [this]
  have : 0 ≤ a ^ 2 / mink vn vn := div_nonneg (sq_nonneg a) hq.le
  linarith

/-- `(Winv ρ W)ᵀ` is an isometry when `ρ` preserves `B` and `(W, Winv)` diagonalises `B` to `J` -/
theorem hyperbolicRepMat_isIso (B W Winv rho : Matrix (Fin (n + 1)) (Fin (n + 1)) K)
    (hB : rhoᵀ * B * rho = B) (hW : Wᵀ * B * W = minkJ n) (hinv : W * Winv = 1) :
    IsIso (hyperbolicRepMat W Winv rho) := by
  have hinv' : Winv * W = 1 := mul_eq_one_comm.1 hinv
  have hBJ : B = Winvᵀ * minkJ n * Winv := by
    rw [← hW]
    have h1 : Winvᵀ * Wᵀ = 1 := by rw [← Matrix.transpose_mul, hinv, Matrix.transpose_one]
    calc B = (Winvᵀ * Wᵀ) * B * (W * Winv) := by rw [h1, hinv, Matrix.one_mul, Matrix.mul_one]
      _ = Winvᵀ * (Wᵀ * B * W) * Winv := by simp only [Matrix.mul_assoc]
  unfold IsIso hyperbolicRepMat
  rw [Matrix.transpose_transpose, Matrix.transpose_mul, Matrix.transpose_mul]
  calc Wᵀ * (rhoᵀ * Winvᵀ) * minkJ n * (Winv * rho * W)
      = Wᵀ * (rhoᵀ * (Winvᵀ * minkJ n * Winv) * rho) * W := by simp only [Matrix.mul_assoc]
    _ = minkJ n := by rw [← hBJ, hB, hW]

end ordered
end GT.GS
