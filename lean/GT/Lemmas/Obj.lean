/-
Replay of the axis-plumbing derivation of `utils.matrix_product` (DESIGN §4 C04) on the
literal model `GT.matrixProduct`, for all outer ranks.  Helper lemmas only.
-/
import GT.Model.Obj
import GT.Lemmas.ND

set_option linter.unusedSectionVars false
set_option linter.unusedSimpArgs false
set_option linter.unusedVariables false

namespace GT.Act
open ND

variable {K : Type} [Inhabited K]

/-! ### `expand_unit_axes`, `squeeze_excess` -/

theorem expandUnitAxes_of_le (a : ND K) {unit new : Nat} (h : new ≤ unit) :
    expandUnitAxes a unit new = a := by simp [expandUnitAxes, h]

theorem shape_expandUnitAxes (a : ND K) {o u : List Nat} {new : Nat} (hs : a.shape = o ++ u)
    (hn : u.length < new) :
    (expandUnitAxes a u.length new).shape = o ++ List.replicate (new - u.length) 1 ++ u := by
  unfold expandUnitAxes
  rw [if_neg (by omega)]
  have hT : a.T.shape = u.reverse ++ o.reverse := by simp [hs]
  have := shape_expandRange a.T hT (new - u.length)
  simp only [List.length_reverse] at this
  rw [shape_T, this]
  simp

theorem get_expandUnitAxes (a : ND K) {o u i x : List Nat} {new : Nat} (hs : a.shape = o ++ u)
    (hn : u.length < new) (hi : Valid o i) (hx : Valid u x) :
    (expandUnitAxes a u.length new).get (i ++ List.replicate (new - u.length) 0 ++ x) =
      a.get (i ++ x) := by
  unfold expandUnitAxes
  rw [if_neg (by omega)]
  have hT : a.T.shape = u.reverse ++ o.reverse := by simp [hs]
  have hsh := shape_expandRange a.T hT (new - u.length)
  have hg := get_expandRange a.T hT (new - u.length) (valid_reverse.2 hx) (valid_reverse.2 hi)
  simp only [List.length_reverse] at hsh hg
  have e : i ++ List.replicate (new - u.length) 0 ++ x =
      (x.reverse ++ List.replicate (new - u.length) 0 ++ i.reverse).reverse := by simp
  rw [e, get_T_rev, hg]
  · have := get_T_rev a (ix := i ++ x) (by rw [hs]; exact hi.append hx)
    simpa using this
  · rw [hsh]
    exact ((valid_reverse.2 hx).append (valid_replicate_one _)).append (valid_reverse.2 hi)

/-- `squeeze_excess(product, 1, 2)` removes exactly the axis that `expand_unit_axes` inserted -/
theorem squeezeExcess_one_two (a : ND K) {b : List Nat} {m : Nat} (hs : a.shape = b ++ [1, m]) :
    (squeezeExcess a 1 2).shape = b ++ [m] ∧
    ∀ bix c, Valid b bix → c < m → (squeezeExcess a 1 2).get (bix ++ [c]) = a.get (bix ++ [0, c]) := by
  have hT : a.T.shape = [m] ++ 1 :: b.reverse := by simp [hs]
  have hsq : squeezeExcess a 1 2 = (a.T.squeeze1 1).T := by
    unfold squeezeExcess
    have h1 : a.T.shape.getD 1 0 = 1 := by rw [hT]; rfl
    have : (List.range' 1 (2 - 1)).filter (fun p => a.T.shape.getD p 0 == 1) = [1] := by
      simp only [Nat.add_one_sub_one, List.range', List.filter_cons, h1, beq_self_eq_true, if_true,
        List.filter_nil]
    simp only [this, squeezeAxes_singleton]
  have hsh := shape_squeeze1 a.T hT
  simp only [List.length_singleton] at hsh
  refine ⟨by rw [hsq, shape_T, hsh]; simp, ?_⟩
  intro bix c hb hc
  rw [hsq]
  have e : bix ++ [c] = ([c] ++ bix.reverse).reverse := by simp
  rw [e, get_T_rev _ (by rw [hsh]; exact Valid.append (by simpa using hc) (valid_reverse.2 hb))]
  have := get_squeeze1 a.T hT (i := [c]) (j := bix.reverse) (by simpa using hc) (valid_reverse.2 hb)
  simp only [List.length_singleton] at this
  rw [this]
  have := get_T_rev a (ix := bix ++ [0, c]) (by rw [hs]; exact hb.append (by simp [hc]))
  simpa using this

/-! ### the outer-product block -/

/-- what `pairExpand` achieves, abstracting from how: the two expanded arrays have batch
shapes `E₁`, `E₂` that broadcast to `O`, and reading them at the broadcast index `bix`
reads the original arrays at units `ι₁ bix`, `ι₂ bix` -/
def PairSpec (r1 r2 r1' r2' : ND K) (Y1 Y2 O : List Nat) (ι1 ι2 : List Nat → List Nat) : Prop :=
  ∃ E1 E2, r1'.shape = E1 ++ Y1 ∧ r2'.shape = E2 ++ Y2 ∧ bcastShape E1 E2 = some O ∧
    ∀ bix, Valid O bix →
      (∀ y, Valid Y1 y → r1'.get (bcIx E1 bix ++ y) = r1.get (ι1 bix ++ y)) ∧
      (∀ y, Valid Y2 y → r2'.get (bcIx E2 bix ++ y) = r2.get (ι2 bix ++ y))

/-- batch shape after "own axes, then `k` ones" (skipped by the guard when there are no own axes) -/
def EA (o : List Nat) (k : Nat) : List Nat := if o = [] then [] else o ++ List.replicate k 1
/-- batch shape after "`k` ones, then own axes" -/
def EB (o : List Nat) (k : Nat) : List Nat := if o = [] then [] else List.replicate k 1 ++ o

theorem expandA_spec (r : ND K) {o Y : List Nat} (k : Nat) (hs : r.shape = o ++ Y) :
    let r' := if o.length > 0 then r.expandRange o.length k else r
    r'.shape = EA o k ++ Y ∧
    ∀ i z y, Valid o i → z.length = k → Valid Y y → r'.get (bcIx (EA o k) (i ++ z) ++ y) = r.get (i ++ y) := by
  intro r'
  by_cases ho : o = []
  · subst ho
    have : r' = r := by simp [r']
    rw [this]
    refine ⟨by simpa [EA] using hs, ?_⟩
    intro i z y hi hz hy
    have : i = [] := valid_nil_iff.1 hi
    simp [EA, this]
  · have hpos : o.length > 0 := List.length_pos_iff.2 ho
    have : r' = r.expandRange o.length k := by simp [r', hpos]
    rw [this]
    refine ⟨by rw [shape_expandRange r hs k]; simp [EA, ho], ?_⟩
    intro i z y hi hz hy
    have e : bcIx (EA o k) (i ++ z) = i ++ List.replicate k 0 := by
      simp only [EA, ho, if_false]
      rw [bcIx_append (by simp [hi.length]) (by simp [hz]), bcIx_self hi, bcIx_ones hz]
    rw [e]
    exact get_expandRange r hs k hi hy

theorem expandB_spec (r : ND K) {o Y : List Nat} (k : Nat) (hs : r.shape = o ++ Y) :
    let r' := if o.length > 0 then r.expandRange 0 k else r
    r'.shape = EB o k ++ Y ∧
    ∀ i z y, Valid o i → z.length = k → Valid Y y → r'.get (bcIx (EB o k) (z ++ i) ++ y) = r.get (i ++ y) := by
  intro r'
  by_cases ho : o = []
  · subst ho
    have : r' = r := by simp [r']
    rw [this]
    refine ⟨by simpa [EB] using hs, ?_⟩
    intro i z y hi hz hy
    have : i = [] := valid_nil_iff.1 hi
    simp [EB, this]
  · have hpos : o.length > 0 := List.length_pos_iff.2 ho
    have : r' = r.expandRange 0 k := by simp [r', hpos]
    rw [this]
    have hs' : r.shape = [] ++ (o ++ Y) := by simpa using hs
    refine ⟨by have := shape_expandRange r hs' k; simp at this; rw [this]; simp [EB, ho], ?_⟩
    intro i z y hi hz hy
    have e : bcIx (EB o k) (z ++ i) = List.replicate k 0 ++ i := by
      simp only [EB, ho, if_false]
      rw [bcIx_append (by simp [hz]) (by simp [hi.length]), bcIx_self hi, bcIx_ones hz]
    rw [e]
    have := get_expandRange r hs' k (i := []) (j := i ++ y) (by simp) (hi.append hy)
    simpa using this

theorem bcast_EA_EB (o1 o2 : List Nat) :
    bcastShape (EA o1 o2.length) (EB o2 o1.length) = some (o1 ++ o2) := by
  by_cases h1 : o1 = [] <;> by_cases h2 : o2 = []
  · subst h1 h2; simp [EA, EB, bcastShape_nil_left]
  · subst h1; simp [EA, EB, h2, bcastShape_nil_left]
  · subst h2; simp [EA, EB, h1, bcastShape_nil_right]
  · simp only [EA, EB, h1, h2, if_false]
    rw [bcastShape_same_length (by simp), bcastZip_append (by simp),
      bcastZip_ones_right, bcastZip_ones_left]
    simp

theorem bcast_EB_EA (o1 o2 : List Nat) :
    bcastShape (EB o1 o2.length) (EA o2 o1.length) = some (o2 ++ o1) :=
  bcastShape_comm_some (bcast_EA_EB o2 o1)

theorem valid_unitIx {mode : Bcast} {o1 o2 O bix : List Nat} (hO : outerShape mode o1 o2 = some O)
    (hv : Valid O bix) : Valid o1 (unitIx1 mode o1 o2 bix) ∧ Valid o2 (unitIx2 mode o1 o2 bix) := by
  cases mode
  · exact ⟨valid_bcIx_left hO hv, valid_bcIx_right hO hv⟩
  · simp only [outerShape, Option.some.injEq] at hO; subst hO
    obtain ⟨i, j, rfl, hi, hj⟩ := hv.split
    simp [unitIx1, unitIx2, ← hi.length, hi, hj]
  · simp only [outerShape, Option.some.injEq] at hO; subst hO
    obtain ⟨j, i, rfl, hj, hi⟩ := hv.split
    simp [unitIx1, unitIx2, ← hj.length, hi, hj]

theorem pairExpand_spec (mode : Bcast) (r1 r2 : ND K) {o1 o2 Y1 Y2 O : List Nat} {large : Nat}
    (h1 : r1.shape = o1 ++ Y1) (h2 : r2.shape = o2 ++ Y2) (hY1 : Y1.length = large)
    (hY2 : Y2.length = large) (hO : outerShape mode o1 o2 = some O) :
    PairSpec r1 r2 (pairExpand mode r1 r2 large).1 (pairExpand mode r1 r2 large).2 Y1 Y2 O
      (unitIx1 mode o1 o2) (unitIx2 mode o1 o2) := by
  have e1 : r1.rank - large = o1.length := by simp [rank, h1, hY1]
  have e2 : r2.rank - large = o2.length := by simp [rank, h2, hY2]
  cases mode
  · -- elementwise
    refine ⟨o1, o2, h1, h2, hO, ?_⟩
    intro bix hv
    exact ⟨fun y hy => rfl, fun y hy => rfl⟩
  · -- pairwise
    simp only [outerShape, Option.some.injEq] at hO; subst hO
    obtain ⟨sA, gA⟩ := expandA_spec r1 o2.length h1
    obtain ⟨sB, gB⟩ := expandB_spec r2 o1.length h2
    refine ⟨EA o1 o2.length, EB o2 o1.length, ?_, ?_, bcast_EA_EB o1 o2, ?_⟩
    · simpa [pairExpand, e1, e2] using sA
    · simpa [pairExpand, e1, e2] using sB
    · intro bix hv
      obtain ⟨i, j, rfl, hi, hj⟩ := hv.split
      have t1 : unitIx1 .pairwise o1 o2 (i ++ j) = i := by simp [unitIx1, ← hi.length]
      have t2 : unitIx2 .pairwise o1 o2 (i ++ j) = j := by simp [unitIx2, ← hi.length]
      rw [t1, t2]
      refine ⟨fun y hy => ?_, fun y hy => ?_⟩
      · simpa [pairExpand, e1, e2] using gA i j y hi hj.length hy
      · simpa [pairExpand, e1, e2] using gB j i y hj hi.length hy
  · -- pairwise_reversed
    simp only [outerShape, Option.some.injEq] at hO; subst hO
    obtain ⟨sB, gB⟩ := expandB_spec r1 o2.length h1
    obtain ⟨sA, gA⟩ := expandA_spec r2 o1.length h2
    refine ⟨EB o1 o2.length, EA o2 o1.length, ?_, ?_, bcast_EB_EA o1 o2, ?_⟩
    · simpa [pairExpand, e1, e2] using sB
    · simpa [pairExpand, e1, e2] using sA
    · intro bix hv
      obtain ⟨j, i, rfl, hj, hi⟩ := hv.split
      have t1 : unitIx1 .pairwiseReversed o1 o2 (j ++ i) = i := by simp [unitIx1, ← hj.length]
      have t2 : unitIx2 .pairwiseReversed o1 o2 (j ++ i) = j := by simp [unitIx2, ← hj.length]
      rw [t1, t2]
      refine ⟨fun y hy => ?_, fun y hy => ?_⟩
      · simpa [pairExpand, e1, e2] using gB i j y hi hj.length hy
      · simpa [pairExpand, e1, e2] using gA j i y hj hi.length hy

/-! ### `@` on the expanded arrays -/

theorem mp_tail [Add K] [Mul K] [Zero K] {r1 r2 r1' r2' : ND K}
    {X1 X2 XB O : List Nat} {p n m : Nat} {ι1 ι2 : List Nat → List Nat}
    (hP : PairSpec r1 r2 r1' r2' (X1 ++ [p, n]) (X2 ++ [n, m]) O ι1 ι2)
    (hX : bcastZip X1 X2 = some XB) :
    ∃ c, matmul r1' r2' = .ok c ∧ c.shape = O ++ XB ++ [p, m] ∧
      ∀ bix xix r cc, Valid O bix → Valid XB xix → r < p → cc < m →
        c.get (bix ++ xix ++ [r, cc]) =
          ((List.range n).map fun j =>
            r1.get (ι1 bix ++ bcIx X1 xix ++ [r, j]) * r2.get (ι2 bix ++ bcIx X2 xix ++ [j, cc])).sum := by
  obtain ⟨E1, E2, s1, s2, hb, hg⟩ := hP
  have s1' : r1'.shape = (E1 ++ X1) ++ [p, n] := by rw [s1]; simp
  have s2' : r2'.shape = (E2 ++ X2) ++ [n, m] := by rw [s2]; simp
  obtain ⟨c, hc, hsh, hget⟩ := matmul_spec r1' r2' s1' s2' (bcastShape_append_tail hb hX)
  refine ⟨c, hc, by rw [hsh], ?_⟩
  intro bix xix r cc hv hx hr hcc
  rw [hget (bix ++ xix) r cc (hv.append hx) hr hcc]
  have hlO := bcastShape_length hb
  have hlX := bcastZip_length hX
  have hE1 : E1.length ≤ bix.length := by rw [hv.length, hlO]; exact Nat.le_max_left _ _
  have hE2 : E2.length ≤ bix.length := by rw [hv.length, hlO]; exact Nat.le_max_right _ _
  rw [bcIx_append hE1 (by rw [hx.length, hlX.1]), bcIx_append hE2 (by rw [hx.length, hlX.1, hlX.2])]
  have hvX := valid_bcIx_zip hX hx
  congr 1
  apply List.map_congr_left
  intro j hj
  have hj' : j < n := by simpa using hj
  have g := hg bix hv
  rw [List.append_assoc, g.1 _ (hvX.1.append (by simp [hr, hj'])),
    List.append_assoc, g.2 _ (hvX.2.append (by simp [hj', hcc]))]
  simp

/-! ### the three unit-rank pairs, all modes at once -/

/-- matrices × matrices -/
theorem mp22 [Add K] [Mul K] [Zero K] (mode : Bcast) (a1 a2 : ND K) {o1 o2 O : List Nat} {p n m : Nat}
    (h1 : a1.shape = o1 ++ [p, n]) (h2 : a2.shape = o2 ++ [n, m])
    (hO : outerShape mode o1 o2 = some O) :
    ∃ c, matrixProduct a1 a2 2 2 mode = .ok c ∧ c.shape = O ++ [p, m] ∧
      ∀ bix r cc, Valid O bix → r < p → cc < m →
        c.get (bix ++ [r, cc]) =
          ((List.range n).map fun j =>
            a1.get (unitIx1 mode o1 o2 bix ++ [r, j]) * a2.get (unitIx2 mode o1 o2 bix ++ [j, cc])).sum := by
  have hP := pairExpand_spec mode a1 a2 (Y1 := [] ++ [p, n]) (Y2 := [] ++ [n, m]) (large := 2)
    (by simpa using h1) (by simpa using h2) rfl rfl hO
  obtain ⟨c, hc, hsh, hget⟩ := mp_tail hP (XB := []) (by simp [bcastZip])
  refine ⟨c, ?_, by simpa using hsh, ?_⟩
  · unfold matrixProduct
    simp only [expandUnitAxes_of_le _ (le_refl 2), Nat.max_self, hc, Nat.lt_irrefl, if_false]
  · intro bix r cc hv hr hcc
    have := hget bix [] r cc hv (by simp) hr hcc
    simpa using this

/-- row vectors × matrices: the inserted unit axis is squeezed out again -/
theorem mp12 [Add K] [Mul K] [Zero K] (mode : Bcast) (a1 a2 : ND K) {o1 o2 O : List Nat} {n m : Nat}
    (h1 : a1.shape = o1 ++ [n]) (h2 : a2.shape = o2 ++ [n, m])
    (hO : outerShape mode o1 o2 = some O) :
    ∃ c, matrixProduct a1 a2 1 2 mode = .ok c ∧ c.shape = O ++ [m] ∧
      ∀ bix cc, Valid O bix → cc < m →
        c.get (bix ++ [cc]) =
          ((List.range n).map fun j =>
            a1.get (unitIx1 mode o1 o2 bix ++ [j]) * a2.get (unitIx2 mode o1 o2 bix ++ [j, cc])).sum := by
  have hs1 := shape_expandUnitAxes a1 (u := [n]) (new := 2) h1 (by simp)
  simp only [List.length_singleton, Nat.add_one_sub_one, List.replicate_one] at hs1
  have hP := pairExpand_spec mode (expandUnitAxes a1 1 2) a2 (o1 := o1) (Y1 := [] ++ [1, n])
    (Y2 := [] ++ [n, m]) (large := 2) (by simpa using hs1) (by simpa using h2) rfl rfl hO
  obtain ⟨c, hc, hsh, hget⟩ := mp_tail hP (XB := []) (by simp [bcastZip])
  have hsh' : c.shape = O ++ [1, m] := by simpa using hsh
  obtain ⟨qs, qg⟩ := squeezeExcess_one_two c hsh'
  refine ⟨squeezeExcess c 1 2, ?_, qs, ?_⟩
  · unfold matrixProduct
    simp only [expandUnitAxes_of_le a2 (show 1 ≤ 2 by omega), show max 1 2 = 2 from rfl, hc,
      show (1 : Nat) < 2 by omega, if_true]
  · intro bix cc hv hcc
    rw [qg bix cc hv hcc]
    have := hget bix [] 0 cc hv (by simp) (by omega) hcc
    simp only [List.append_nil, bcIx_nil] at this
    rw [this]
    congr 1
    apply List.map_congr_left
    intro j hj
    have hj' : j < n := by simpa using hj
    have hvi := (valid_unitIx hO hv).1
    have := get_expandUnitAxes a1 (u := [n]) (new := 2) (x := [j]) h1 (by simp) hvi (by simpa using hj')
    simp only [List.length_singleton, Nat.add_one_sub_one, List.replicate_one, List.append_assoc,
      List.singleton_append] at this
    rw [this]

/-- stacks of rows (polygon edges) × matrices: the matrix gets one extra unit axis and the
vertex axis joins the batch -/
theorem mp32 [Add K] [Mul K] [Zero K] (mode : Bcast) (a1 a2 : ND K) {o1 o2 O : List Nat} {k p n m : Nat}
    (h1 : a1.shape = o1 ++ [k, p, n]) (h2 : a2.shape = o2 ++ [n, m])
    (hO : outerShape mode o1 o2 = some O) :
    ∃ c, matrixProduct a1 a2 3 2 mode = .ok c ∧ c.shape = O ++ [k, p, m] ∧
      ∀ bix v r cc, Valid O bix → v < k → r < p → cc < m →
        c.get (bix ++ [v, r, cc]) =
          ((List.range n).map fun j =>
            a1.get (unitIx1 mode o1 o2 bix ++ [v, r, j]) * a2.get (unitIx2 mode o1 o2 bix ++ [j, cc])).sum := by
  have hs2 := shape_expandUnitAxes a2 (u := [n, m]) (new := 3) h2 (by simp)
  simp only [List.length_cons, List.length_nil, show 3 - (0 + 1 + 1) = 1 from rfl,
    List.replicate_one] at hs2
  have hP := pairExpand_spec mode a1 (expandUnitAxes a2 2 3) (o2 := o2) (Y1 := [k] ++ [p, n])
    (Y2 := [1] ++ [n, m]) (large := 3) (by simpa using h1) (by simpa using hs2) rfl rfl hO
  obtain ⟨c, hc, hsh, hget⟩ := mp_tail hP (XB := [k]) (by simp [bcastZip])
  refine ⟨c, ?_, by simpa using hsh, ?_⟩
  · unfold matrixProduct
    simp only [expandUnitAxes_of_le a1 (show 2 ≤ 3 by omega), show max 3 2 = 3 from rfl, hc,
      show ¬ (3 : Nat) < 2 by omega, if_false]
  · intro bix v r cc hv hvk hr hcc
    have := hget bix [v] r cc hv (by simpa using hvk) hr hcc
    simp only [List.append_assoc, List.singleton_append] at this
    rw [this]
    congr 1
    apply List.map_congr_left
    intro j hj
    have hj' : j < n := by simpa using hj
    have hvi := (valid_unitIx hO hv).2
    have e1 : bcIx [k] [v] = [v] := bcIx_self (by simpa using hvk)
    have e2 : bcIx [1] [v] = [0] := by simp [bcIx]
    have := get_expandUnitAxes a2 (u := [n, m]) (new := 3) (x := [j, cc]) h2 (by simp) hvi
      (by simp [hj', hcc])
    simp only [List.length_cons, List.length_nil, show 3 - (0 + 1 + 1) = 1 from rfl,
      List.replicate_one, List.append_assoc, List.singleton_append] at this
    rw [e1, e2]
    simp only [List.singleton_append]
    rw [this]

end GT.Act
