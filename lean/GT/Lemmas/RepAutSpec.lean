/-
C06, part 1: a memo-free specification `Rep.accSpec` of `_automaton_accepted` (same traversal
order, returning `(word, matrix)` pairs) and the proof that the memoised model `Rep.accepted`
computes exactly `accSpec` whenever the caller-supplied memo dict is correct for the options
in force (`MemoOK`), and leaves a correct memo dict behind.
-/
import GT.Model.RepAut
import GT.Lemmas.Rep

set_option linter.unusedSectionVars false

namespace GT.RepW

/-! ## generic `Except` / `mapM` helpers -/

theorem mapM_ok_iff {α β : Type} (f : α → M? β) :
    ∀ (l : List α) (ys : List β),
      l.mapM f = .ok ys ↔ List.Forall₂ (fun x y => f x = .ok y) l ys
  | [], ys => by
    rw [List.mapM_nil]
    constructor
    · intro h; cases h; exact List.Forall₂.nil
    · intro h; cases h; rfl
  | x :: l, ys => by
    rw [List.mapM_cons]
    cases hx : f x with
    | error e =>
      constructor
      · intro h; cases h
      · intro h; cases h with
        | cons h1 _ => rw [hx] at h1; cases h1
    | ok y =>
      cases hl : l.mapM f with
      | error e =>
        constructor
        · intro h; cases h
        · intro h
          cases h with
          | cons h1 h2 =>
            rw [← mapM_ok_iff f l] at h2
            rw [hl] at h2; cases h2
      | ok ys' =>
        have h2 := (mapM_ok_iff f l ys').1 hl
        constructor
        · intro h
          cases h
          exact List.Forall₂.cons hx h2
        · intro h
          cases h with
          | cons h1 h3 =>
            rw [hx] at h1
            cases h1
            have := (mapM_ok_iff f l _).2 h3
            rw [hl] at this
            cases this
            rfl

namespace Aut
variable {V : Type} [DecidableEq V]

/-- `for adj_state, labels in adj_states.items(): for label in labels` -/
def flatAdj (d : List (V × List String)) : List (V × String) :=
  d.flatMap fun vl => vl.2.map fun l => (vl.1, l)

/-- the flattened `out_dict[v]` (`as_start`; `KeyError` for an unknown state) resp.
`in_dict[v]` (a `defaultdict`) -/
def adj (a : Aut V) (asStart : Bool) (v : V) : M? (List (V × String)) :=
  if asStart then
    match a.outDict? v with
    | some d => .ok (flatAdj d)
    | none => .error "KeyError"
  else .ok (flatAdj (a.inDict v))

end Aut

namespace Rep
variable {V : Type} [DecidableEq V] {n : ℕ} {R : Type} [Inhabited R] [CommRing R]

/-- the `length == 0` answer as `(word, matrix)` pairs -/
def zeroPairs (a : Aut V) (o : AccOpts) (v : V) : List (String × DMat n n R) :=
  if o.asStart || a.starts.contains v then [("", DMat.one)] else []

theorem joinW_simple {ρ : Rep n R} (hp : ρ.parseSimple = true) (a b : String) :
    ρ.joinW a b = a ++ b := by
  simp [joinW, hp]

/-- what one edge `(w, l)` contributes, given the pairs `r` of the neighbour and the edge
element `e` -/
def extendPairs (ρ : Rep n R) (o : AccOpts) (l : String) (e : DMat n n R)
    (r : List (String × DMat n n R)) : List (String × DMat n n R) :=
  r.map fun sM => (if o.asStart then ρ.joinW l sM.1 else ρ.joinW sM.1 l,
                   if o.asStart then e.mul sM.2 else sM.2.mul e)

/-- memo-free specification of `_automaton_accepted` for a given state: the list of
`(word, matrix)` pairs in the order of the Python traversal -/
def accSpec (ρ : Rep n R) (a : Aut V) (o : AccOpts) : Nat → V → M? (List (String × DMat n n R))
  | 0, v => .ok (zeroPairs a o v)
  | k + 1, v => do
    let edges ← a.adj o.asStart v
    let parts ← edges.mapM fun wl => do
      let r ← accSpec ρ a o k wl.1
      let e ← ρ.edgeElt o wl.2
      pure (extendPairs ρ o wl.2 e r)
    pure ((if o.maxlen then zeroPairs a o v else []) ++ parts.flatten)

/-- the specification for an optional state: `None` means "as start, from
`start_vertices[0]`" (and the identity alone for `length == 0`, whatever the automaton) -/
def accSpecO (ρ : Rep n R) (a : Aut V) (o : AccOpts) :
    Nat → Option V → M? (List (String × DMat n n R))
  | k, some v => ρ.accSpec a o k v
  | 0, none => .ok [("", DMat.one)]
  | k + 1, none =>
    match a.starts with
    | s :: _ => ρ.accSpec a { o with asStart := true } (k + 1) s
    | [] => .error "IndexError"

/-- pairs ↦ what Python returns (`with_words` decides whether the words are returned) -/
def toRes (o : AccOpts) (pairs : List (String × DMat n n R)) : AccRes n R :=
  ⟨pairs.map Prod.snd, if o.withWords then pairs.map Prod.fst else []⟩

/-- soundness invariant of the `precomputed` dict for the options `o`: every readable entry
is the correct answer -/
def MemoOK (ρ : Rep n R) (a : Aut V) (o : AccOpts) (memo : Memo V n R) : Prop :=
  ∀ k st r, dget memo (k, st) = some r →
    ∃ pairs, ρ.accSpecO a o k st = .ok pairs ∧ r = toRes o pairs

/-- `x` is what the specification `spec` prescribes: same error, or the same result together
with a memo dict satisfying `P` -/
def Agrees (o : AccOpts) (P : Memo V n R → Prop) (x : M? (AccRes n R × Memo V n R))
    (spec : M? (List (String × DMat n n R))) : Prop :=
  match spec with
  | .ok pairs => ∃ memo', x = .ok (toRes o pairs, memo') ∧ P memo'
  | .error e => x = .error e

theorem memoOK_nil (ρ : Rep n R) (a : Aut V) (o : AccOpts) : MemoOK ρ a o [] := by
  intro k st r h
  cases h

theorem memo_dget_dset {κ ν : Type} [DecidableEq κ] (d : List (κ × ν)) (k k' : κ) (v : ν) :
    dget (dset d k v) k' = if k = k' then some v else dget d k' := by
  induction d with
  | nil =>
    simp only [dset, dget]
  | cons kv d ih =>
    obtain ⟨k0, v0⟩ := kv
    simp only [dset]
    by_cases h0 : k0 = k
    · subst h0
      simp only [if_true, dget]
      by_cases h1 : k0 = k' <;> simp [h1]
    · simp only [if_neg h0, dget, ih]
      by_cases h1 : k0 = k'
      · subst h1
        simp [Ne.symm h0]
      · simp [h1]

theorem memoOK_dset {ρ : Rep n R} {a : Aut V} {o : AccOpts} {memo : Memo V n R}
    (h : MemoOK ρ a o memo) (k : Nat) (st : Option V) (pairs : List (String × DMat n n R))
    (hs : ρ.accSpecO a o k st = .ok pairs) : MemoOK ρ a o (dset memo (k, st) (toRes o pairs)) := by
  intro k' st' r hr
  rw [memo_dget_dset] at hr
  split_ifs at hr with heq
  · cases heq
    cases hr
    exact ⟨pairs, hs, rfl⟩
  · exact h k' st' r hr

theorem toRes_withWords_only (o o' : AccOpts) (h : o.withWords = o'.withWords)
    (pairs : List (String × DMat n n R)) : toRes o pairs = toRes o' pairs := by
  simp only [toRes, h]

/-! ### the loop over the edges -/

/-- the body of the `for adj_state, labels … for label in labels` loop of `acceptedStep` -/
def accBody (ρ : Rep n R) (o : AccOpts)
    (recur : AccOpts → Option V → Memo V n R → M? (AccRes n R × Memo V n R))
    (acc : List (DMat n n R) × List String × Memo V n R) (vl : V × String) :
    M? (List (DMat n n R) × List String × Memo V n R) := do
  let (r, memo') ← recur o (some vl.1) acc.2.2
  let ws := if o.withWords then
      (if o.asStart then r.words.map (ρ.joinW vl.2 ·) else r.words.map (ρ.joinW · vl.2))
    else []
  let e ← ρ.edgeElt o vl.2
  let ms := if o.asStart then r.mats.map (e.mul ·) else r.mats.map (·.mul e)
  pure (acc.1 ++ ms, acc.2.1 ++ ws, memo')

/-- `acceptedStep` for a given state, with the loop body named -/
def stepSome (ρ : Rep n R) (a : Aut V) (o : AccOpts) (length : Nat)
    (recur : AccOpts → Option V → Memo V n R → M? (AccRes n R × Memo V n R))
    (st : V) (memo : Memo V n R) : M? (AccRes n R × Memo V n R) := do
  let edges ← a.adj o.asStart st
  let (mats, words, memo) ← edges.foldlM (ρ.accBody o recur) ([], [], memo)
  let res : AccRes n R :=
    if o.maxlen then
      let z := ρ.acceptedZero a o (some st)
      ⟨z.mats ++ mats, z.words ++ words⟩
    else ⟨mats, words⟩
  pure (res, dset memo (length, some st) res)

theorem acceptedStep_some (ρ : Rep n R) (a : Aut V) (o : AccOpts) (length : Nat)
    (recur : AccOpts → Option V → Memo V n R → M? (AccRes n R × Memo V n R))
    (st : V) (memo : Memo V n R) :
    ρ.acceptedStep a o length recur (some st) memo = ρ.stepSome a o length recur st memo := by
  obtain ⟨ml, ww, as, ew⟩ := o
  unfold acceptedStep stepSome Aut.adj
  cases as
  · rfl
  · dsimp only [pure, Except.pure, bind, Except.bind]
    cases hO : a.outDict? st <;> rfl

theorem acceptedStep_none (ρ : Rep n R) (a : Aut V) (o : AccOpts) (length : Nat)
    (recur : AccOpts → Option V → Memo V n R → M? (AccRes n R × Memo V n R))
    (memo : Memo V n R) :
    ρ.acceptedStep a o length recur none memo =
      match a.starts with
      | s :: _ => ρ.stepSome a { o with asStart := true } length recur s memo
      | [] => .error "IndexError" := by
  cases hs : a.starts with
  | nil => unfold acceptedStep; rw [hs]; rfl
  | cons s t =>
    simp only
    rw [← acceptedStep_some]
    unfold acceptedStep
    rw [hs]


/-- the spec-side loop body -/
def specBody (ρ : Rep n R) (a : Aut V) (o : AccOpts) (k : Nat) (wl : V × String) :
    M? (List (String × DMat n n R)) := do
  let r ← ρ.accSpec a o k wl.1
  let e ← ρ.edgeElt o wl.2
  pure (extendPairs ρ o wl.2 e r)

theorem accSpec_zero (ρ : Rep n R) (a : Aut V) (o : AccOpts) (v : V) :
    ρ.accSpec a o 0 v = .ok (zeroPairs a o v) := rfl

theorem accSpec_succ (ρ : Rep n R) (a : Aut V) (o : AccOpts) (k : Nat) (v : V) :
    ρ.accSpec a o (k + 1) v = (do
      let edges ← a.adj o.asStart v
      let parts ← edges.mapM (ρ.specBody a o k)
      pure ((if o.maxlen then zeroPairs a o v else []) ++ parts.flatten)) := rfl

theorem extendPairs_snd (ρ : Rep n R) (o : AccOpts) (l : String) (e : DMat n n R)
    (r : List (String × DMat n n R)) :
    (extendPairs ρ o l e r).map Prod.snd =
      if o.asStart then (r.map Prod.snd).map (e.mul ·) else (r.map Prod.snd).map (·.mul e) := by
  unfold extendPairs
  cases o.asStart <;> simp [List.map_map, Function.comp_def]

theorem extendPairs_fst (ρ : Rep n R) (o : AccOpts) (l : String) (e : DMat n n R)
    (r : List (String × DMat n n R)) :
    (extendPairs ρ o l e r).map Prod.fst =
      if o.asStart then (r.map Prod.fst).map (ρ.joinW l ·)
      else (r.map Prod.fst).map (ρ.joinW · l) := by
  unfold extendPairs
  cases o.asStart <;> simp [List.map_map, Function.comp_def]

theorem bind_ok {α β : Type} {m : M? α} {f : α → M? β} {y : β} (h : (m >>= f) = .ok y) :
    ∃ x, m = .ok x ∧ f x = .ok y := by
  cases m with
  | error e => cases h
  | ok x => exact ⟨x, rfl, h⟩

theorem specBody_ok {ρ : Rep n R} {a : Aut V} {o : AccOpts} {k : Nat} {wl : V × String}
    {part : List (String × DMat n n R)} (h : ρ.specBody a o k wl = .ok part) :
    ∃ r e, ρ.accSpec a o k wl.1 = .ok r ∧ ρ.edgeElt o wl.2 = .ok e ∧
      part = extendPairs ρ o wl.2 e r := by
  unfold specBody at h
  obtain ⟨r, hr, h⟩ := bind_ok h
  obtain ⟨e, he, h⟩ := bind_ok h
  cases h
  exact ⟨r, e, hr, he, rfl⟩

/-- inversion of the specification at `length > 0` -/
theorem accSpec_succ_ok {ρ : Rep n R} {a : Aut V} {o : AccOpts} {k : Nat} {v : V}
    {pairs : List (String × DMat n n R)} (h : ρ.accSpec a o (k + 1) v = .ok pairs) :
    ∃ edges parts, a.adj o.asStart v = .ok edges ∧
      List.Forall₂ (fun wl part => ρ.specBody a o k wl = .ok part) edges parts ∧
      pairs = (if o.maxlen then zeroPairs a o v else []) ++ parts.flatten := by
  rw [accSpec_succ] at h
  obtain ⟨edges, he, h⟩ := bind_ok h
  obtain ⟨parts, hp, h⟩ := bind_ok h
  cases h
  exact ⟨edges, parts, he, (mapM_ok_iff _ _ _).1 hp, rfl⟩

/-- one round of the loop, given the recursive call's answer -/
theorem accBody_ok (ρ : Rep n R) (o : AccOpts)
    (recur : AccOpts → Option V → Memo V n R → M? (AccRes n R × Memo V n R))
    (ms : List (DMat n n R)) (ws : List String) (memo memo1 : Memo V n R) (w : V) (l : String)
    (r : List (String × DMat n n R)) (e : DMat n n R)
    (hr : recur o (some w) memo = .ok (toRes o r, memo1)) (he : ρ.edgeElt o l = .ok e) :
    ρ.accBody o recur (ms, ws, memo) (w, l) =
      .ok (ms ++ (extendPairs ρ o l e r).map Prod.snd,
           ws ++ (if o.withWords then (extendPairs ρ o l e r).map Prod.fst else []), memo1) := by
  unfold accBody
  simp only [hr, he, bind, Except.bind, pure, Except.pure]
  rw [extendPairs_snd, extendPairs_fst]
  simp only [toRes]
  cases o.withWords <;> cases o.asStart <;> simp

theorem accBody_err1 (ρ : Rep n R) (o : AccOpts)
    (recur : AccOpts → Option V → Memo V n R → M? (AccRes n R × Memo V n R))
    (ms : List (DMat n n R)) (ws : List String) (memo : Memo V n R) (w : V) (l : String)
    (err : Err) (hr : recur o (some w) memo = .error err) :
    ρ.accBody o recur (ms, ws, memo) (w, l) = .error err := by
  unfold accBody
  simp only [hr, bind, Except.bind]

theorem accBody_err2 (ρ : Rep n R) (o : AccOpts)
    (recur : AccOpts → Option V → Memo V n R → M? (AccRes n R × Memo V n R))
    (ms : List (DMat n n R)) (ws : List String) (memo memo1 : Memo V n R) (w : V) (l : String)
    (r : AccRes n R) (err : Err)
    (hr : recur o (some w) memo = .ok (r, memo1)) (he : ρ.edgeElt o l = .error err) :
    ρ.accBody o recur (ms, ws, memo) (w, l) = .error err := by
  unfold accBody
  simp only [hr, he, bind, Except.bind]

/-- loop invariant of the `for … for label in labels` loop: it accumulates exactly the parts
the specification prescribes, threads a sound memo dict, and fails exactly when (and how) the
specification fails. -/
theorem foldlM_agrees (ρ : Rep n R) (a : Aut V) (o : AccOpts) (k : Nat)
    (recur : AccOpts → Option V → Memo V n R → M? (AccRes n R × Memo V n R))
    (hrec : ∀ w memo, MemoOK ρ a o memo →
      Agrees o (MemoOK ρ a o) (recur o (some w) memo) (ρ.accSpec a o k w)) :
    ∀ (edges : List (V × String)) (ms : List (DMat n n R)) (ws : List String)
      (memo : Memo V n R), MemoOK ρ a o memo →
      match edges.mapM (ρ.specBody a o k) with
      | .ok parts => ∃ memo', edges.foldlM (ρ.accBody o recur) (ms, ws, memo) =
            .ok (ms ++ parts.flatten.map Prod.snd,
                 ws ++ (if o.withWords then parts.flatten.map Prod.fst else []), memo')
          ∧ MemoOK ρ a o memo'
      | .error e => edges.foldlM (ρ.accBody o recur) (ms, ws, memo) = .error e
  | [], ms, ws, memo, hm => by
    rw [List.mapM_nil]
    refine ⟨memo, ?_, hm⟩
    cases o.withWords <;> simp [pure, Except.pure]
  | (w, l) :: rest, ms, ws, memo, hm => by
    rw [List.mapM_cons, List.foldlM_cons]
    have h1 := hrec w memo hm
    unfold specBody
    cases hs : ρ.accSpec a o k w with
    | error err =>
      rw [hs] at h1
      simp only [Agrees] at h1
      rw [accBody_err1 ρ o recur ms ws memo w l err h1]
      rfl
    | ok r =>
      rw [hs] at h1
      simp only [Agrees] at h1
      obtain ⟨memo1, hr, hm1⟩ := h1
      cases he : ρ.edgeElt o l with
      | error err =>
        rw [accBody_err2 ρ o recur ms ws memo memo1 w l _ err hr he]
        rfl
      | ok e =>
        rw [accBody_ok ρ o recur ms ws memo memo1 w l r e hr he]
        have ih := foldlM_agrees ρ a o k recur hrec rest
          (ms ++ (extendPairs ρ o l e r).map Prod.snd)
          (ws ++ (if o.withWords then (extendPairs ρ o l e r).map Prod.fst else [])) memo1 hm1
        change match (do
            let ys ← rest.mapM (ρ.specBody a o k)
            pure (extendPairs ρ o l e r :: ys) : M? _) with
          | .ok parts => ∃ memo', rest.foldlM (ρ.accBody o recur)
                (ms ++ (extendPairs ρ o l e r).map Prod.snd,
                 ws ++ (if o.withWords then (extendPairs ρ o l e r).map Prod.fst else []), memo1) =
                .ok (ms ++ parts.flatten.map Prod.snd,
                 ws ++ (if o.withWords then parts.flatten.map Prod.fst else []), memo')
              ∧ MemoOK ρ a o memo'
          | .error err => rest.foldlM (ρ.accBody o recur)
                (ms ++ (extendPairs ρ o l e r).map Prod.snd,
                 ws ++ (if o.withWords then (extendPairs ρ o l e r).map Prod.fst else []), memo1) =
                .error err
        cases hrest : rest.mapM (ρ.specBody a o k) with
        | error err =>
          rw [hrest] at ih
          exact ih
        | ok parts =>
          rw [hrest] at ih
          obtain ⟨memo', hf, hm'⟩ := ih
          refine ⟨memo', ?_, hm'⟩
          rw [hf]
          cases o.withWords <;> simp [List.append_assoc]


theorem acceptedZero_some (ρ : Rep n R) (a : Aut V) (o : AccOpts) (v : V) :
    ρ.acceptedZero a o (some v) = toRes o (zeroPairs a o v) := by
  unfold acceptedZero zeroPairs toRes
  dsimp only
  cases hb : (o.asStart || a.starts.contains v) <;> cases o.withWords <;> simp

theorem acceptedZero_none (ρ : Rep n R) (a : Aut V) (o : AccOpts) :
    ρ.acceptedZero a o none = toRes o [("", DMat.one)] := by
  unfold acceptedZero toRes
  cases o.withWords <;> rfl

/-- the body for `length > 0`, given that the recursive call agrees with the specification -/
theorem stepSome_agrees (ρ : Rep n R) (a : Aut V) (o : AccOpts) (k : Nat)
    (recur : AccOpts → Option V → Memo V n R → M? (AccRes n R × Memo V n R))
    (hrec : ∀ w memo, MemoOK ρ a o memo →
      Agrees o (MemoOK ρ a o) (recur o (some w) memo) (ρ.accSpec a o k w))
    (v : V) (memo : Memo V n R) (hm : MemoOK ρ a o memo) :
    Agrees o (MemoOK ρ a o) (ρ.stepSome a o (k + 1) recur v memo) (ρ.accSpec a o (k + 1) v) := by
  rw [accSpec_succ]
  unfold stepSome
  cases hadj : a.adj o.asStart v with
  | error err => rfl
  | ok edges =>
    have hl := foldlM_agrees ρ a o k recur hrec edges [] [] memo hm
    change Agrees o (MemoOK ρ a o)
      (do
        let x ← edges.foldlM (ρ.accBody o recur) ([], [], memo)
        pure ((if o.maxlen then
            (⟨(ρ.acceptedZero a o (some v)).mats ++ x.1,
              (ρ.acceptedZero a o (some v)).words ++ x.2.1⟩ : AccRes n R)
          else ⟨x.1, x.2.1⟩),
          dset x.2.2 (k + 1, some v) (if o.maxlen then
            (⟨(ρ.acceptedZero a o (some v)).mats ++ x.1,
              (ρ.acceptedZero a o (some v)).words ++ x.2.1⟩ : AccRes n R)
          else ⟨x.1, x.2.1⟩)))
      (do
        let parts ← edges.mapM (ρ.specBody a o k)
        pure ((if o.maxlen then zeroPairs a o v else []) ++ parts.flatten))
    cases hparts : edges.mapM (ρ.specBody a o k) with
    | error err =>
      rw [hparts] at hl
      simp only at hl
      rw [hl]
      rfl
    | ok parts =>
      rw [hparts] at hl
      obtain ⟨memo', hf, hm'⟩ := hl
      rw [hf]
      have hres : (if o.maxlen then
            (⟨(ρ.acceptedZero a o (some v)).mats ++ ([] ++ parts.flatten.map Prod.snd),
              (ρ.acceptedZero a o (some v)).words ++
                ([] ++ if o.withWords then parts.flatten.map Prod.fst else [])⟩ : AccRes n R)
          else ⟨[] ++ parts.flatten.map Prod.snd,
                [] ++ if o.withWords then parts.flatten.map Prod.fst else []⟩) =
          toRes o ((if o.maxlen then zeroPairs a o v else []) ++ parts.flatten) := by
        rw [acceptedZero_some]
        unfold toRes
        cases o.maxlen <;> cases o.withWords <;> simp
      have hspec : ρ.accSpecO a o (k + 1) (some v) =
          .ok ((if o.maxlen then zeroPairs a o v else []) ++ parts.flatten) := by
        show ρ.accSpec a o (k + 1) v = _
        rw [accSpec_succ, hadj]
        show (do
          let parts ← edges.mapM (ρ.specBody a o k)
          pure ((if o.maxlen then zeroPairs a o v else []) ++ parts.flatten) : M? _) = _
        rw [hparts]
        rfl
      refine ⟨dset memo' (k + 1, some v)
        (toRes o ((if o.maxlen then zeroPairs a o v else []) ++ parts.flatten)), ?_,
        memoOK_dset hm' _ _ _ hspec⟩
      show Except.ok _ = Except.ok _
      simp only [hres]

/-- **memo soundness and completeness, given state**: on a memo dict that is correct for the
options `o`, `_automaton_accepted` returns exactly what the memo-free specification
prescribes (same error otherwise) and leaves a correct memo dict behind. -/
theorem accepted_agrees (ρ : Rep n R) (a : Aut V) :
    ∀ (L : Nat) (o : AccOpts) (v : V) (memo : Memo V n R), MemoOK ρ a o memo →
      Agrees o (MemoOK ρ a o) (ρ.accepted a L o (some v) memo) (ρ.accSpec a o L v)
  | 0, o, v, memo, hm => by
    unfold accepted
    rw [accSpec_zero]
    cases hg : dget memo (0, some v) with
    | none => exact ⟨memo, by rw [acceptedZero_some], hm⟩
    | some r =>
      obtain ⟨pairs, hp, hr⟩ := hm 0 (some v) r hg
      change ρ.accSpec a o 0 v = _ at hp
      rw [accSpec_zero] at hp
      cases hp
      exact ⟨memo, by rw [hr], hm⟩
  | k + 1, o, v, memo, hm => by
    unfold accepted
    cases hg : dget memo (k + 1, some v) with
    | none =>
      simp only
      rw [acceptedStep_some]
      exact stepSome_agrees ρ a o k (ρ.accepted a k)
        (fun w memo hm => accepted_agrees ρ a k o w memo hm) v memo hm
    | some r =>
      obtain ⟨pairs, hp, hr⟩ := hm (k + 1) (some v) r hg
      change ρ.accSpec a o (k + 1) v = _ at hp
      rw [hp]
      exact ⟨memo, by rw [hr], hm⟩

/-- the same for `state=None`: the options in force are `as_start=True` -/
theorem accepted_agrees_none (ρ : Rep n R) (a : Aut V) (L : Nat) (o : AccOpts)
    (memo : Memo V n R) (hm : MemoOK ρ a { o with asStart := true } memo) :
    Agrees { o with asStart := true } (MemoOK ρ a { o with asStart := true })
      (ρ.accepted a L o none memo) (ρ.accSpecO a { o with asStart := true } L none) := by
  cases L with
  | zero =>
    unfold accepted
    cases hg : dget memo (0, none) with
    | none =>
      refine ⟨memo, ?_, hm⟩
      simp only
      rw [acceptedZero_none]
      rfl
    | some r =>
      obtain ⟨pairs, hp, hr⟩ := hm 0 none r hg
      rw [hp]
      exact ⟨memo, by rw [hr], hm⟩
  | succ k =>
    unfold accepted
    cases hg : dget memo (k + 1, none) with
    | none =>
      simp only
      rw [acceptedStep_none]
      unfold accSpecO
      cases hs : a.starts with
      | nil => rfl
      | cons s t =>
        exact stepSome_agrees ρ a { o with asStart := true } k (ρ.accepted a k)
          (fun w memo hm => accepted_agrees ρ a k _ w memo hm) s memo hm
    | some r =>
      obtain ⟨pairs, hp, hr⟩ := hm (k + 1) none r hg
      rw [hp]
      exact ⟨memo, by rw [hr], hm⟩


/-! ### corollaries in `→` form -/

theorem Agrees.sound {o : AccOpts} {P : Memo V n R → Prop} {x : M? (AccRes n R × Memo V n R)}
    {spec : M? (List (String × DMat n n R))} (h : Agrees o P x spec)
    {res : AccRes n R} {memo' : Memo V n R} (hx : x = .ok (res, memo')) :
    (∃ pairs, spec = .ok pairs ∧ res = toRes o pairs) ∧ P memo' := by
  cases spec with
  | error e =>
    simp only [Agrees] at h
    rw [h] at hx
    cases hx
  | ok pairs =>
    obtain ⟨m, h1, h2⟩ := h
    rw [h1] at hx
    cases hx
    exact ⟨⟨pairs, rfl, rfl⟩, h2⟩

theorem Agrees.complete {o : AccOpts} {P : Memo V n R → Prop}
    {x : M? (AccRes n R × Memo V n R)}
    {spec : M? (List (String × DMat n n R))} (h : Agrees o P x spec)
    {pairs : List (String × DMat n n R)} (hs : spec = .ok pairs) :
    ∃ memo', x = .ok (toRes o pairs, memo') ∧ P memo' := by
  subst hs
  exact h

theorem Agrees.error {o : AccOpts} {P : Memo V n R → Prop}
    {x : M? (AccRes n R × Memo V n R)}
    {spec : M? (List (String × DMat n n R))} (h : Agrees o P x spec)
    {e : Err} (hs : spec = .error e) : x = .error e := by
  subst hs
  exact h

/-- **memo soundness** (`state` given): a correct `precomputed` dict yields the specified
result and stays correct -/
theorem memo_sound (ρ : Rep n R) (a : Aut V) (L : Nat) (o : AccOpts) (v : V)
    (memo memo' : Memo V n R) (res : AccRes n R) (hm : MemoOK ρ a o memo)
    (h : ρ.accepted a L o (some v) memo = .ok (res, memo')) :
    (∃ pairs, ρ.accSpec a o L v = .ok pairs ∧ res = toRes o pairs) ∧ MemoOK ρ a o memo' :=
  (accepted_agrees ρ a L o v memo hm).sound h

/-- **memo completeness**: whenever the specification has a value, so has the memoised code -/
theorem memo_complete (ρ : Rep n R) (a : Aut V) (L : Nat) (o : AccOpts) (v : V)
    (memo : Memo V n R) (pairs : List (String × DMat n n R)) (hm : MemoOK ρ a o memo)
    (h : ρ.accSpec a o L v = .ok pairs) :
    ∃ memo', ρ.accepted a L o (some v) memo = .ok (toRes o pairs, memo') ∧ MemoOK ρ a o memo' :=
  (accepted_agrees ρ a L o v memo hm).complete h

/-- `state=None` -/
theorem memo_sound_none (ρ : Rep n R) (a : Aut V) (L : Nat) (o : AccOpts)
    (memo memo' : Memo V n R) (res : AccRes n R)
    (hm : MemoOK ρ a { o with asStart := true } memo)
    (h : ρ.accepted a L o none memo = .ok (res, memo')) :
    (∃ pairs, ρ.accSpecO a { o with asStart := true } L none = .ok pairs ∧
        res = toRes o pairs) ∧ MemoOK ρ a { o with asStart := true } memo' :=
  (accepted_agrees_none ρ a L o memo hm).sound h

/-- the empty `precomputed` dict (`precomputed=None`) -/
theorem accepted_nil_agrees (ρ : Rep n R) (a : Aut V) (L : Nat) (o : AccOpts) (v : V) :
    Agrees o (MemoOK ρ a o) (ρ.accepted a L o (some v) []) (ρ.accSpec a o L v) :=
  accepted_agrees ρ a L o v [] (memoOK_nil ρ a o)

theorem accepted_nil (ρ : Rep n R) (a : Aut V) (L : Nat) (o : AccOpts) (v : V)
    (memo' : Memo V n R) (res : AccRes n R)
    (h : ρ.accepted a L o (some v) [] = .ok (res, memo')) :
    (∃ pairs, ρ.accSpec a o L v = .ok pairs ∧ res = toRes o pairs) ∧ MemoOK ρ a o memo' :=
  memo_sound ρ a L o v [] memo' res (memoOK_nil ρ a o) h

/-! ### the public wrapper `automaton_accepted` -/

/-- the options `automaton_accepted` passes down -/
def topOpts (maxlen withWords : Bool) (endState : Option V) (edgeWords : Bool) : AccOpts :=
  ⟨maxlen, withWords, endState.isNone, edgeWords⟩

/-- specification of `automaton_accepted` -/
def topSpec (ρ : Rep n R) (a : Aut V) (L : Nat) (maxlen withWords : Bool)
    (startState endState : Option V) (edgeWords : Bool) : M? (List (String × DMat n n R)) :=
  match startState, endState with
  | some _, some _ => .error "ValueError"
  | _, some e => ρ.accSpec a ⟨maxlen, withWords, false, edgeWords⟩ L e
  | s, none => ρ.accSpecO a ⟨maxlen, withWords, true, edgeWords⟩ L s

/-- **`automaton_accepted`**: for every choice of `start_state` / `end_state` (both:
`ValueError`), `maxlen`, `with_words`, `edge_words` and every correct `precomputed` dict, the
public method returns exactly the specified pairs (or fails exactly like the specification)
and leaves a correct dict behind. -/
theorem automatonAccepted_agrees (ρ : Rep n R) (a : Aut V) (L : Nat) (maxlen withWords : Bool)
    (startState endState : Option V) (memo : Memo V n R) (edgeWords : Bool)
    (hm : MemoOK ρ a (topOpts maxlen withWords endState edgeWords) memo) :
    Agrees (topOpts maxlen withWords endState edgeWords)
      (MemoOK ρ a (topOpts maxlen withWords endState edgeWords))
      (ρ.automatonAccepted a L maxlen withWords startState endState memo edgeWords)
      (ρ.topSpec a L maxlen withWords startState endState edgeWords) := by
  cases endState with
  | some e =>
    cases startState with
    | some s => rfl
    | none => exact accepted_agrees ρ a L _ e memo hm
  | none =>
    cases startState with
    | some s => exact accepted_agrees ρ a L _ s memo hm
    | none => exact accepted_agrees_none ρ a L ⟨maxlen, withWords, true, edgeWords⟩ memo hm

theorem automatonAccepted_both (ρ : Rep n R) (a : Aut V) (L : Nat) (maxlen withWords : Bool)
    (s e : V) (memo : Memo V n R) (edgeWords : Bool) :
    ρ.automatonAccepted a L maxlen withWords (some s) (some e) memo edgeWords =
      .error "ValueError" := rfl

/-- soundness form of `automatonAccepted_agrees` -/
theorem automatonAccepted_sound (ρ : Rep n R) (a : Aut V) (L : Nat) (maxlen withWords : Bool)
    (startState endState : Option V) (memo memo' : Memo V n R) (edgeWords : Bool)
    (res : AccRes n R)
    (hm : MemoOK ρ a (topOpts maxlen withWords endState edgeWords) memo)
    (h : ρ.automatonAccepted a L maxlen withWords startState endState memo edgeWords =
      .ok (res, memo')) :
    (∃ pairs, ρ.topSpec a L maxlen withWords startState endState edgeWords = .ok pairs ∧
      res = toRes (topOpts maxlen withWords endState edgeWords) pairs) ∧
    MemoOK ρ a (topOpts maxlen withWords endState edgeWords) memo' :=
  (automatonAccepted_agrees ρ a L maxlen withWords startState endState memo edgeWords hm).sound h

end Rep
end GT.RepW
