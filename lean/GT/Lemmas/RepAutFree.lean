/-
C06, part 4: `free_automaton` and `freely_reduced_elements`.  For a generating set whose
letters and inverse letters are pairwise distinct, non-empty and on which `invert_gen` is an
involution, the paths of `free_automaton(gs)` from the start state `""` spell exactly the
freely reduced words (`simplify_word(w) == w`), each exactly once.
-/
import Mathlib.Data.List.Nodup
import GT.Lemmas.RepAutLang
import GT.Lemmas.RepAutPairs

set_option linter.unusedSectionVars false

namespace GT.RepW

/-! ## building a dict from distinct fresh keys -/

theorem dset_fresh {κ ν : Type} [DecidableEq κ] :
    ∀ (d : List (κ × ν)) (k : κ) (v : ν), k ∉ d.map Prod.fst → dset d k v = d ++ [(k, v)]
  | [], k, v, _ => rfl
  | (k0, v0) :: d, k, v, h => by
    simp only [List.map_cons, List.mem_cons, not_or] at h
    have h0 : ¬ k0 = k := fun e => h.1 e.symm
    simp only [dset, if_neg h0, List.cons_append]
    rw [dset_fresh d k v h.2]

theorem foldl_dset_fresh {κ ν : Type} [DecidableEq κ] (f : κ → ν) :
    ∀ (ks : List κ) (acc : List (κ × ν)), ks.Nodup → (∀ k ∈ ks, k ∉ acc.map Prod.fst) →
      ks.foldl (fun acc k => dset acc k (f k)) acc = acc ++ ks.map fun k => (k, f k)
  | [], acc, _, _ => by simp
  | k :: ks, acc, hn, hf => by
    rw [List.nodup_cons] at hn
    rw [List.foldl_cons, dset_fresh acc k (f k) (hf k List.mem_cons_self)]
    rw [foldl_dset_fresh f ks _ hn.2]
    · simp
    · intro k' hk'
      simp only [List.map_append, List.map_cons, List.map_nil, List.mem_append,
        List.mem_singleton, not_or]
      refine ⟨hf k' (List.mem_cons_of_mem _ hk'), ?_⟩
      intro e
      exact hn.1 (e ▸ hk')

theorem dget_map_mem {κ ν : Type} [DecidableEq κ] (f : κ → ν) :
    ∀ (ks : List κ) (k : κ), k ∈ ks → dget (ks.map fun k => (k, f k)) k = some (f k)
  | [], k, h => by cases h
  | k0 :: ks, k, h => by
    simp only [List.map_cons, dget]
    by_cases h0 : k0 = k
    · subst h0; simp
    · rw [if_neg h0]
      rw [List.mem_cons] at h
      rcases h with rfl | h
      · exact absurd rfl h0
      · exact dget_map_mem f ks k h

/-! ## the graph of `free_automaton` -/

/-- `generators = list(generating_set) + [invert_gen(g) for g in generating_set]` -/
def freeGens (gs : List Gen) : List Gen := gs ++ gs.map invertGen

/-- what is needed of the generating set -/
structure FreeOK (gs : List Gen) : Prop where
  nodup : (freeGens gs).Nodup
  nonempty : "" ∉ freeGens gs
  invol : ∀ g ∈ freeGens gs, invertGen (invertGen g) = g

/-- `{h: h for h in generators if invert_gen(h) != g}` -/
def freeRow (gens : List Gen) (g : Gen) : List (String × Gen) :=
  (gens.filter fun h => invertGen h ≠ g).map fun h => (h, h)

theorem freeAutomaton_graph {gs : List Gen} (h : FreeOK gs) :
    (freeAutomaton gs).graph = ("" :: freeGens gs).map fun g => (g, freeRow (freeGens gs) g) := by
  have hrow : ∀ g, ((freeGens gs).filter fun h => invertGen h ≠ g).foldl
      (fun acc h => dset acc h h) [] = freeRow (freeGens gs) g := by
    intro g
    have := foldl_dset_fresh (fun h : Gen => h)
      ((freeGens gs).filter fun h => invertGen h ≠ g) [] (h.nodup.filter _)
      (fun k _ hk => by cases hk)
    simpa [freeRow] using this
  have hn : ("" :: freeGens gs).Nodup := List.nodup_cons.2 ⟨h.nonempty, h.nodup⟩
  have := foldl_dset_fresh (fun g : Gen => freeRow (freeGens gs) g) ("" :: freeGens gs) [] hn
    (fun k _ hk => by cases hk)
  change ("" :: freeGens gs).foldl (fun acc g => dset acc g
    (((freeGens gs).filter fun h => invertGen h ≠ g).foldl (fun acc h => dset acc h h) [])) [] = _
  simp only [hrow]
  exact this

theorem freeAutomaton_starts (gs : List Gen) : (freeAutomaton gs).starts = [""] := rfl

theorem freeAutomaton_succs {gs : List Gen} (h : FreeOK gs) (g : Gen)
    (hg : g ∈ "" :: freeGens gs) :
    (freeAutomaton gs).succs g = freeRow (freeGens gs) g := by
  unfold Aut.succs Aut.succs?
  rw [freeAutomaton_graph h, dget_map_mem _ _ g hg]
  rfl

/-! ## letter-level path enumeration -/

/-- concatenation of the letters of a word into a Python string -/
def joinW (w : List Gen) : String := w.foldr (· ++ ·) ""

theorem joinW_nil : joinW [] = "" := rfl
theorem joinW_cons (h : Gen) (w : List Gen) : joinW (h :: w) = h ++ joinW w := rfl

/-- the paths of the free automaton as lists of letters -/
def freePaths (gens : List Gen) : Nat → Gen → List (List Gen)
  | 0, _ => [[]]
  | k + 1, g => (gens.filter fun h => invertGen h ≠ g).flatMap fun h =>
      (freePaths gens k h).map fun w => h :: w

theorem free_pathWords {gs : List Gen} (h : FreeOK gs) : ∀ (k : Nat) (g : Gen),
    g ∈ "" :: freeGens gs →
    (freeAutomaton gs).pathWords k g = (freePaths (freeGens gs) k g).map joinW
  | 0, g, _ => rfl
  | k + 1, g, hg => by
    rw [Aut.pathWords_succ, freeAutomaton_succs h g hg]
    unfold freeRow freePaths
    rw [List.flatMap_map, List.map_flatMap]
    refine List.flatMap_congr fun x hx => ?_
    have hx' : x ∈ "" :: freeGens gs :=
      List.mem_cons_of_mem _ (List.mem_filter.1 hx).1
    rw [free_pathWords h k x hx', List.map_map, List.map_map]
    rfl


/-- `w` spells a path of the free automaton from state `g` -/
def AutFrom (gens : List Gen) : Gen → List Gen → Prop
  | _, [] => True
  | g, h :: w => h ∈ gens ∧ invertGen h ≠ g ∧ AutFrom gens h w

theorem mem_freePaths (gens : List Gen) : ∀ (k : Nat) (g : Gen) (w : List Gen),
    w ∈ freePaths gens k g ↔ w.length = k ∧ AutFrom gens g w
  | 0, g, w => by
    cases w <;> simp [freePaths, AutFrom]
  | k + 1, g, [] => by
    simp [freePaths]
  | k + 1, g, h :: w => by
    simp only [freePaths, List.mem_flatMap, List.mem_filter, List.mem_map, List.cons.injEq,
      List.length_cons, Nat.add_right_cancel_iff, AutFrom, decide_eq_true_eq]
    constructor
    · rintro ⟨h', ⟨hm, hne⟩, w', hw', rfl, rfl⟩
      have := (mem_freePaths gens k h' w').1 hw'
      exact ⟨this.1, hm, by simpa using hne, this.2⟩
    · rintro ⟨hl, hm, hne, ha⟩
      exact ⟨h, ⟨hm, by simpa using hne⟩, w, (mem_freePaths gens k h w).2 ⟨hl, ha⟩, rfl, rfl⟩

theorem freePaths_nodup (gens : List Gen) (hn : gens.Nodup) : ∀ (k : Nat) (g : Gen),
    (freePaths gens k g).Nodup
  | 0, _ => by simp [freePaths]
  | k + 1, g => by
    unfold freePaths
    rw [List.nodup_flatMap]
    refine ⟨fun h _ => (freePaths_nodup gens hn k h).map (fun a b e => (List.cons.inj e).2), ?_⟩
    refine List.Pairwise.imp ?_ (hn.filter _)
    intro a b hab
    show List.Disjoint _ _
    intro w h1 h2
    rw [List.mem_map] at h1 h2
    obtain ⟨w1, _, rfl⟩ := h1
    obtain ⟨w2, _, e⟩ := h2
    exact hab (List.cons.inj e).1.symm

/-! ## freely reduced words -/

/-- `w` has no cancelling pair, the previous letter being `prev` -/
def RedFrom (inv : Gen → Gen) : Option Gen → List Gen → Prop
  | _, [] => True
  | none, l :: w => RedFrom inv (some l) w
  | some t, l :: w => l ≠ inv t ∧ RedFrom inv (some l) w

theorem foldl_simplify_len (inv : Gen → Gen) : ∀ (w st : List Gen),
    (w.foldl (simplifyStep inv) st).length ≤ st.length + w.length
  | [], st => by simp
  | l :: w, st => by
    rw [List.foldl_cons]
    refine (foldl_simplify_len inv w _).trans ?_
    unfold simplifyStep
    cases st with
    | nil => simp; omega
    | cons t rest =>
      simp only
      split_ifs <;> simp <;> omega

theorem foldl_simplify_iff (inv : Gen → Gen) : ∀ (w st : List Gen),
    w.foldl (simplifyStep inv) st = w.reverse ++ st ↔ RedFrom inv st.head? w
  | [], st => by simp [RedFrom]
  | l :: w, [] => by
    rw [List.foldl_cons]
    have : simplifyStep inv [] l = [l] := rfl
    have e : (l :: w).reverse ++ [] = w.reverse ++ [l] := by simp
    rw [this, e, foldl_simplify_iff inv w [l]]
    simp [RedFrom]
  | l :: w, t :: rest => by
    rw [List.foldl_cons]
    by_cases hl : l = inv t
    · have : simplifyStep inv (t :: rest) l = rest := by simp [simplifyStep, hl]
      rw [this]
      simp only [List.head?_cons, RedFrom, hl, ne_eq, not_true_eq_false, false_and, iff_false]
      intro e
      have hlen := foldl_simplify_len inv w rest
      rw [e] at hlen
      simp at hlen
      omega
    · have : simplifyStep inv (t :: rest) l = l :: t :: rest := by simp [simplifyStep, hl]
      have e : (l :: w).reverse ++ t :: rest = w.reverse ++ l :: t :: rest := by simp
      rw [this, e, foldl_simplify_iff inv w (l :: t :: rest)]
      simp [RedFrom, hl]

/-- `simplify_word(w) == w` iff `w` has no cancelling pair of adjacent letters -/
theorem simplifyWord_eq_iff (inv : Gen → Gen) (w : List Gen) :
    simplifyWord inv w = w ↔ RedFrom inv none w := by
  unfold simplifyWord
  have := foldl_simplify_iff inv w []
  rw [List.append_nil, List.head?_nil] at this
  rw [← this]
  constructor
  · intro h
    have := congrArg List.reverse h
    rwa [List.reverse_reverse] at this
  · intro h; rw [h, List.reverse_reverse]

theorem invertGen_ne_empty {gs : List Gen} (h : FreeOK gs) {g : Gen} (hg : g ∈ freeGens gs) :
    invertGen g ≠ "" := by
  intro e
  have := h.invol g hg
  rw [e] at this
  have h0 : invertGen "" = "" := by decide
  rw [h0] at this
  exact h.nonempty (this ▸ hg)

theorem autFrom_some_iff {gs : List Gen} (h : FreeOK gs) : ∀ (w : List Gen) (t : Gen),
    t ∈ freeGens gs →
    (AutFrom (freeGens gs) t w ↔ (∀ g ∈ w, g ∈ freeGens gs) ∧ RedFrom invertGen (some t) w)
  | [], t, _ => by simp [AutFrom, RedFrom]
  | l :: w, t, ht => by
    simp only [AutFrom, RedFrom, List.mem_cons, forall_eq_or_imp]
    constructor
    · rintro ⟨hl, hne, ha⟩
      have := (autFrom_some_iff h w l hl).1 ha
      refine ⟨⟨hl, this.1⟩, ?_, this.2⟩
      intro e
      apply hne
      rw [e, h.invol t ht]
    · rintro ⟨⟨hl, hw⟩, hne, hr⟩
      refine ⟨hl, ?_, (autFrom_some_iff h w l hl).2 ⟨hw, hr⟩⟩
      intro e
      apply hne
      rw [← e, h.invol l hl]

theorem autFrom_start_iff {gs : List Gen} (h : FreeOK gs) (w : List Gen) :
    AutFrom (freeGens gs) "" w ↔ (∀ g ∈ w, g ∈ freeGens gs) ∧ RedFrom invertGen none w := by
  cases w with
  | nil => simp [AutFrom, RedFrom]
  | cons l w =>
    simp only [AutFrom, RedFrom, List.mem_cons, forall_eq_or_imp]
    constructor
    · rintro ⟨hl, _, ha⟩
      have := (autFrom_some_iff h w l hl).1 ha
      exact ⟨⟨hl, this.1⟩, this.2⟩
    · rintro ⟨⟨hl, hw⟩, hr⟩
      exact ⟨hl, invertGen_ne_empty h hl, (autFrom_some_iff h w l hl).2 ⟨hw, hr⟩⟩

/-- **`free_language`** (letter level): a word of `k` letters is spelled by a path of
`free_automaton(gs)` from the start state iff its letters are generators or inverse
generators and it is freely reduced -/
theorem free_language {gs : List Gen} (h : FreeOK gs) (k : Nat) (w : List Gen) :
    w ∈ freePaths (freeGens gs) k "" ↔
      w.length = k ∧ (∀ g ∈ w, g ∈ freeGens gs) ∧ simplifyWord invertGen w = w := by
  rw [mem_freePaths, autFrom_start_iff h, simplifyWord_eq_iff]


/-! ## Python strings -/

/-- generator names are single characters (the `parse_simple` convention) -/
def SingleChar (gens : List Gen) : Prop := ∀ g ∈ gens, ∃ c : Char, g = String.ofList [c]

theorem joinW_toList : ∀ w : List Gen, (joinW w).toList = w.flatMap String.toList
  | [] => by simp [joinW_nil]
  | h :: w => by rw [joinW_cons, String.toList_append, joinW_toList w, List.flatMap_cons]

theorem joinW_parseWord (s : String) : joinW (parseWord true s) = s := by
  apply String.toList_inj.1
  rw [joinW_toList]
  simp [parseWord, List.flatMap_map]

theorem parseWord_length (s : String) : (parseWord true s).length = s.length := by
  simp [parseWord, String.length_toList]

theorem parseWord_joinW : ∀ w : List Gen, (∀ g ∈ w, ∃ c : Char, g = String.ofList [c]) →
    parseWord true (joinW w) = w
  | [], _ => by simp [joinW_nil, parseWord]
  | h :: w, hw => by
    rw [joinW_cons, parseWord_true_append,
      parseWord_joinW w fun g hg => hw g (List.mem_cons_of_mem _ hg)]
    obtain ⟨c, rfl⟩ := hw h List.mem_cons_self
    simp [parseWord]

/-- a Python string that is a freely reduced word in the generators and their inverses -/
def IsReducedWord (gs : List Gen) (s : String) : Prop :=
  (∀ g ∈ parseWord true s, g ∈ freeGens gs) ∧
    simplifyWord invertGen (parseWord true s) = parseWord true s

/-- **`free_language`** (string level): the label words of the paths with `k` edges from the
start state are exactly the freely reduced words of length `k` -/
theorem free_pathWords_mem {gs : List Gen} (h : FreeOK gs) (hs : SingleChar (freeGens gs))
    (k : Nat) (s : String) :
    s ∈ (freeAutomaton gs).pathWords k "" ↔ s.length = k ∧ IsReducedWord gs s := by
  rw [free_pathWords h k "" List.mem_cons_self, List.mem_map, ← parseWord_length]
  unfold IsReducedWord
  constructor
  · rintro ⟨w, hw, rfl⟩
    have hw' := (free_language h k w).1 hw
    rw [parseWord_joinW w fun g hg => hs g (hw'.2.1 g hg)]
    exact hw'
  · intro hw
    exact ⟨parseWord true s, (free_language h k _).2 hw, joinW_parseWord s⟩

/-- … and every such word is listed exactly once -/
theorem free_pathWords_nodup {gs : List Gen} (h : FreeOK gs) (hs : SingleChar (freeGens gs))
    (k : Nat) : ((freeAutomaton gs).pathWords k "").Nodup := by
  rw [free_pathWords h k "" List.mem_cons_self]
  refine List.Nodup.map_on ?_ (freePaths_nodup _ h.nodup k "")
  intro w1 h1 w2 h2 e
  have g1 := ((free_language h k w1).1 h1).2.1
  have g2 := ((free_language h k w2).1 h2).2.1
  rw [← parseWord_joinW w1 fun g hg => hs g (g1 g hg),
    ← parseWord_joinW w2 fun g hg => hs g (g2 g hg), e]

namespace Rep
variable {n : ℕ} {R : Type} [Inhabited R] [CommRing R]

theorem free_startLang_mem {gs : List Gen} (h : FreeOK gs) (hs : SingleChar (freeGens gs))
    (maxlen : Bool) (L : Nat) (s : String) :
    s ∈ startLang (freeAutomaton gs) maxlen L "" ↔
      (if maxlen then s.length ≤ L else s.length = L) ∧ IsReducedWord gs s := by
  unfold startLang
  cases maxlen
  · simp only [Bool.false_eq_true, if_false]
    exact free_pathWords_mem h hs L s
  · simp only [if_true, List.mem_flatMap, List.mem_range, free_pathWords_mem h hs]
    constructor
    · rintro ⟨j, hj, rfl, hr⟩
      exact ⟨by omega, hr⟩
    · rintro ⟨hl, hr⟩
      exact ⟨s.length, by omega, rfl, hr⟩

theorem free_startLang_nodup {gs : List Gen} (h : FreeOK gs) (hs : SingleChar (freeGens gs))
    (maxlen : Bool) (L : Nat) : (startLang (freeAutomaton gs) maxlen L "").Nodup := by
  unfold startLang
  cases maxlen
  · simp only [Bool.false_eq_true, if_false]
    exact free_pathWords_nodup h hs L
  · simp only [if_true]
    rw [List.nodup_flatMap]
    refine ⟨fun j _ => free_pathWords_nodup h hs j, ?_⟩
    refine List.Pairwise.imp ?_ (List.nodup_range (n := L + 1))
    intro i j hij
    show List.Disjoint _ _
    intro s h1 h2
    rw [free_pathWords_mem h hs] at h1 h2
    exact hij (h1.1.symm.trans h2.1)

/-- **`freely_reduced_elements(length, maxlen, with_words=True)`** returns each freely reduced
word of length `= length` (`≤ length` with `maxlen`) exactly once (on a `parse_simple`
representation: the words of a `parse_simple=False` one are `"*"`-joined), and the matrices are, position by position, the images of these words. -/
theorem freelyReducedElements_spec (ρ : Rep n R) (L : Nat) (maxlen : Bool) (res : AccRes n R)
    (hp : ρ.parseSimple = true) (h : ρ.freelyReducedElements L maxlen true = .ok res)
    (hok : FreeOK ρ.asymGens) (hs : SingleChar (freeGens ρ.asymGens)) :
    res.words.Nodup ∧
    (∀ s, s ∈ res.words ↔
      (if maxlen then s.length ≤ L else s.length = L) ∧ IsReducedWord ρ.asymGens s) ∧
    List.Forall₂ (fun s M => ρ.value (parseWord true s) = .ok (DMat.toMatrix M))
      res.words res.mats := by
  unfold freelyReducedElements at h
  obtain ⟨⟨res', memo'⟩, hr, h⟩ := bind_ok h
  cases h
  have hperm := automatonAccepted_words_start ρ hp (freeAutomaton ρ.asymGens) L maxlen none []
    memo' true res' "" rfl (memoOK_nil _ _ _) hr
  refine ⟨hperm.nodup_iff.2 (free_startLang_nodup hok hs maxlen L), ?_, ?_⟩
  · intro s
    rw [hperm.mem_iff]
    exact free_startLang_mem hok hs maxlen L s
  · exact automatonAccepted_pairs ρ _ L maxlen none none [] memo' true res' hp
      (labelOK_of_edgeWords ρ _ hp rfl) (memoOK_nil _ _ _) hr

end Rep
end GT.RepW
