/-
C06, part 4: `free_automaton` and `freely_reduced_elements`.  For a generating set whose
letters and inverse letters are pairwise distinct, non-empty and on which `invert_gen` is an
involution, the paths of `free_automaton(gs)` from the start state `""` spell exactly the
freely reduced words (`simplify_word(w) == w`), each exactly once.
-/
import Mathlib.Data.List.Nodup
import GT.Lemmas.RepAutLang
import GT.Lemmas.RepAutPairs

set_option linter.unusedSectionVars false

namespace GT

/-! ## building a dict from distinct fresh keys -/

theorem dset_fresh {κ ν : Type} [DecidableEq κ] :
    ∀ (d : List (κ × ν)) (k : κ) (v : ν), k ∉ d.map Prod.fst → dset d k v = d ++ [(k, v)]
  | [], k, v, _ => rfl
  | (k0, v0) :: d, k, v, h => by
    simp only [List.map_cons, List.mem_cons, not_or] at h
    have h0 : ¬ k0 = k := fun e => h.1 e.symm
    simp only [dset, if_neg h0, List.cons_append]
    rw [dset_fresh d k v h.2]

theorem foldl_dset_fresh {κ ν : Type} [DecidableEq κ] (f : κ → ν) :
    ∀ (ks : List κ) (acc : List (κ × ν)), ks.Nodup → (∀ k ∈ ks, k ∉ acc.map Prod.fst) →
      ks.foldl (fun acc k => dset acc k (f k)) acc = acc ++ ks.map fun k => (k, f k)
  | [], acc, _, _ => by simp
  | k :: ks, acc, hn, hf => by
    rw [List.nodup_cons] at hn
    rw [List.foldl_cons, dset_fresh acc k (f k) (hf k List.mem_cons_self)]
    rw [foldl_dset_fresh f ks _ hn.2]
    · simp
    · intro k' hk'
      simp only [List.map_append, List.map_cons, List.map_nil, List.mem_append,
        List.mem_singleton, not_or]
      refine ⟨hf k' (List.mem_cons_of_mem _ hk'), ?_⟩
      intro e
      exact hn.1 (e ▸ hk')

theorem dget_map_mem {κ ν : Type} [DecidableEq κ] (f : κ → ν) :
    ∀ (ks : List κ) (k : κ), k ∈ ks → dget (ks.map fun k => (k, f k)) k = some (f k)
  | [], k, h => by cases h
  | k0 :: ks, k, h => by
    simp only [List.map_cons, dget]
    by_cases h0 : k0 = k
    · subst h0; simp
    · rw [if_neg h0]
      rw [List.mem_cons] at h
      rcases h with rfl | h
      · exact absurd rfl h0
      · exact dget_map_mem f ks k h

/-! ## the graph of `free_automaton` -/

/-- `generators = list(generating_set) + [invert_gen(g) for g in generating_set]` -/
def freeGens (gs : List Gen) : List Gen := gs ++ gs.map invertGen

/-- what is needed of the generating set -/
structure FreeOK (gs : List Gen) : Prop where
  nodup : (freeGens gs).Nodup
  nonempty : "" ∉ freeGens gs
  invol : ∀ g ∈ freeGens gs, invertGen (invertGen g) = g

/-- `{h: h for h in generators if invert_gen(h) != g}` -/
def freeRow (gens : List Gen) (g : Gen) : List (String × Gen) :=
  (gens.filter fun h => invertGen h ≠ g).map fun h => (h, h)

theorem freeAutomaton_graph {gs : List Gen} (h : FreeOK gs) :
    (freeAutomaton gs).graph = ("" :: freeGens gs).map fun g => (g, freeRow (freeGens gs) g) := by
  have hrow : ∀ g, ((freeGens gs).filter fun h => invertGen h ≠ g).foldl
      (fun acc h => dset acc h h) [] = freeRow (freeGens gs) g := by
    intro g
    have := foldl_dset_fresh (fun h : Gen => h)
      ((freeGens gs).filter fun h => invertGen h ≠ g) [] (h.nodup.filter _)
      (fun k _ hk => by cases hk)
    simpa [freeRow] using this
  have hn : ("" :: freeGens gs).Nodup := List.nodup_cons.2 ⟨h.nonempty, h.nodup⟩
  have := foldl_dset_fresh (fun g : Gen => freeRow (freeGens gs) g) ("" :: freeGens gs) [] hn
    (fun k _ hk => by cases hk)
  unfold freeAutomaton
  simp only [hrow]
  simpa [freeGens] using this

theorem freeAutomaton_starts (gs : List Gen) : (freeAutomaton gs).starts = [""] := rfl

theorem freeAutomaton_succs {gs : List Gen} (h : FreeOK gs) (g : Gen)
    (hg : g ∈ "" :: freeGens gs) :
    (freeAutomaton gs).succs g = freeRow (freeGens gs) g := by
  unfold Aut.succs Aut.succs?
  rw [freeAutomaton_graph h, dget_map_mem _ _ g hg]
  rfl

/-! ## letter-level path enumeration -/

/-- concatenation of the letters of a word into a Python string -/
def joinW (w : List Gen) : String := w.foldr (· ++ ·) ""

theorem joinW_nil : joinW [] = "" := rfl
theorem joinW_cons (h : Gen) (w : List Gen) : joinW (h :: w) = h ++ joinW w := rfl

/-- the paths of the free automaton as lists of letters -/
def freePaths (gens : List Gen) : Nat → Gen → List (List Gen)
  | 0, _ => [[]]
  | k + 1, g => (gens.filter fun h => invertGen h ≠ g).flatMap fun h =>
      (freePaths gens k h).map fun w => h :: w

theorem free_pathWords {gs : List Gen} (h : FreeOK gs) : ∀ (k : Nat) (g : Gen),
    g ∈ "" :: freeGens gs →
    (freeAutomaton gs).pathWords k g = (freePaths (freeGens gs) k g).map joinW
  | 0, g, _ => rfl
  | k + 1, g, hg => by
    rw [Aut.pathWords_succ, freeAutomaton_succs h g hg]
    unfold freeRow freePaths
    rw [List.flatMap_map, List.map_flatMap]
    refine List.flatMap_congr fun x hx => ?_
    have hx' : x ∈ "" :: freeGens gs :=
      List.mem_cons_of_mem _ (List.mem_filter.1 hx).1
    rw [free_pathWords h k x hx', List.map_map, List.map_map]
    rfl

end GT
