import GT.Model.Rescale
import GT.Lemmas.Charts
import Mathlib.Tactic.FieldSimp
import Mathlib.Tactic.Ring
import Mathlib.Tactic.Linarith
import Mathlib.Tactic.LinearCombination
import Mathlib.Tactic.Positivity

open Finset BigOperators

set_option linter.unusedSectionVars false

namespace GT.Rescale
open GT

section field
variable {K : Type*} [Field K] {n : ℕ}

theorem klein_smul (x : Fin (n + 1) → K) (c : K) (hc : c ≠ 0) :
    klein (fun i => x i * c) = klein x := by
  funext i; unfold klein
  by_cases h : x 0 = 0
  · simp [h]
  · field_simp

theorem affineChart_smul' (k : Fin (n + 1)) (x : Fin (n + 1) → K) (c : K) (hc : c ≠ 0) :
    affineChart k (fun i => x i * c) = affineChart k x := by
  funext i; unfold affineChart
  by_cases h : x k = 0
  · simp [h]
  · field_simp

theorem dot_add_left (x y z : Fin n → K) : dot (fun i => x i + y i) z = dot x z + dot y z := by
  unfold dot; rw [← Finset.sum_add_distrib]; exact Finset.sum_congr rfl fun i _ => by ring

theorem dot_smul_left' (c : K) (x y : Fin n → K) : dot (fun i => c * x i) y = c * dot x y := by
  unfold dot; rw [Finset.mul_sum]; exact Finset.sum_congr rfl fun i _ => by ring

theorem mink_add_left (x y z : Fin (n + 1) → K) :
    mink (fun i => x i + y i) z = mink x z + mink y z := by
  unfold mink
  have : Fin.tail (fun i => x i + y i) = fun i => Fin.tail x i + Fin.tail y i := rfl
  rw [this, dot_add_left]; ring

theorem mink_smul_left' (c : K) (x y : Fin (n + 1) → K) :
    mink (fun i => c * x i) y = c * mink x y := by
  unfold mink
  have : Fin.tail (fun i => c * x i) = fun i => c * Fin.tail x i := rfl
  rw [this, dot_smul_left']; ring

theorem mink_add_right (x y z : Fin (n + 1) → K) :
    mink z (fun i => x i + y i) = mink z x + mink z y := by
  rw [mink_comm, mink_add_left, mink_comm x, mink_comm y]

theorem mink_smul_right' (c : K) (x y : Fin (n + 1) → K) :
    mink x (fun i => c * y i) = c * mink x y := by
  rw [mink_comm, mink_smul_left', mink_comm]

/-- the quadratic of `Segment._compute_aux_data` is the Minkowski norm along the line -/
theorem mink_lineComb (μ : K) (x₁ x₂ : Fin (n + 1) → K) :
    mink (lineComb μ x₁ x₂) (lineComb μ x₁ x₂)
      = segA x₁ x₂ * μ ^ 2 + segB x₁ x₂ * μ + segC x₁ x₂ := by
  have e : lineComb μ x₁ x₂ = fun i => (fun j => μ * x₁ j) i + (fun j => (1 - μ) * x₂ j) i := rfl
  unfold segA segB segC
  rw [e, mink_add_left, mink_add_right, mink_add_right]
  simp only [mink_smul_left', mink_smul_right']
  rw [mink_comm x₂ x₁]
  ring

theorem segDisc_smul (x₁ x₂ : Fin (n + 1) → K) (l₁ l₂ : K) :
    segDisc (fun i => x₁ i * l₁) (fun i => x₂ i * l₂) = (l₁ * l₂) ^ 2 * segDisc x₁ x₂ := by
  unfold segDisc segA segB segC
  simp only [mink_smul_left, mink_smul_right]
  ring

/-- rescaled line combinations are multiples of the original ones -/
theorem lineComb_smul (ν : K) (x₁ x₂ : Fin (n + 1) → K) (l₁ l₂ : K)
    (hE : ν * l₁ + (1 - ν) * l₂ ≠ 0) :
    lineComb ν (fun i => x₁ i * l₁) (fun i => x₂ i * l₂)
      = fun i => lineComb (ν * l₁ / (ν * l₁ + (1 - ν) * l₂)) x₁ x₂ i * (ν * l₁ + (1 - ν) * l₂) := by
  funext i; unfold lineComb; field_simp; ring

end field

section ordered
variable {K : Type*} [Field K] [LinearOrder K] [IsStrictOrderedRing K] {n : ℕ}

theorem quad_root {a b c ρ s : K} (ha : a ≠ 0) (hρ : ρ * ρ = b * b - 4 * a * c)
    (hs : s * s = 1) :
    a * ((-b + s * ρ) / (2 * a)) ^ 2 + b * ((-b + s * ρ) / (2 * a)) + c = 0 := by
  have h2 : (2 : K) ≠ 0 := two_ne_zero
  field_simp
  linear_combination hρ + (ρ * ρ) * hs

theorem quad_roots_only {a b c ρ t : K} (ha : a ≠ 0) (hρ : ρ * ρ = b * b - 4 * a * c)
    (ht : a * t ^ 2 + b * t + c = 0) :
    t = (-b + 1 * ρ) / (2 * a) ∨ t = (-b + (-1) * ρ) / (2 * a) := by
  have h2 : (2 : K) ≠ 0 := two_ne_zero
  have h : (2 * a * t + b - ρ) * (2 * a * t + b + ρ) = 0 := by
    linear_combination (4 * a) * ht - hρ
  rcases mul_eq_zero.1 h with h | h
  · left; field_simp; linear_combination h
  · right; field_simp; linear_combination h

theorem isSqrt_mul_sq {r : K → K} (hr : IsSqrt r) (c t : K) (ht : 0 ≤ t) :
    r (c ^ 2 * t) = |c| * r t := by
  obtain ⟨h0, h1⟩ := hr (c ^ 2 * t) (by positivity)
  obtain ⟨g0, g1⟩ := hr t ht
  have hn : 0 ≤ |c| * r t := mul_nonneg (abs_nonneg _) g0
  have key : (r (c ^ 2 * t) - |c| * r t) * (r (c ^ 2 * t) + |c| * r t) = 0 := by
    have e : (r (c ^ 2 * t) - |c| * r t) * (r (c ^ 2 * t) + |c| * r t)
        = r (c ^ 2 * t) * r (c ^ 2 * t) - (|c| * |c|) * (r t * r t) := by ring
    rw [e, h1, g1, abs_mul_abs_self]; ring
  rcases mul_eq_zero.1 key with h | h
  · linarith
  · linarith

theorem abs_div_abs_self {c : K} (hc : c ≠ 0) : abs (c / abs c) = 1 := by
  rw [abs_div, abs_abs, div_self (abs_ne_zero.2 hc)]

theorem div_abs_mul_self {c : K} (hc : c ≠ 0) : c / abs c * (c / abs c) = 1 := by
  have := abs_ne_zero.2 hc
  field_simp
  exact (sq_abs c).symm

/-- the sign selector of the repaired `unit_tangent_towards` (`where(t > 0, -1, 1)`) -/
theorem sheetSign_eq {t : K} (ht : t ≠ 0) : (if 0 < t then (-1 : K) else 1) = -(t / abs t) := by
  rcases lt_or_gt_of_ne ht with h | h
  · rw [if_neg (not_lt_of_gt h), abs_of_neg h]; field_simp
  · rw [if_pos h, abs_of_pos h]; field_simp

/-- normalisation sees a rescaling only through its sign -/
theorem normalize_smul {r : K → K} (hr : IsSqrt r) (x : Fin (n + 1) → K) (c : K) (hc : c ≠ 0)
    (hx : mink x x ≠ 0) :
    normalize r (fun i => x i * c) = fun i => normalize r x i * (c / |c|) := by
  have hm : |mink (fun i => x i * c) (fun i => x i * c)| = c ^ 2 * |mink x x| := by
    rw [mink_smul_left, mink_smul_right]
    have : c * (c * mink x x) = c ^ 2 * mink x x := by ring
    rw [this, abs_mul, abs_of_nonneg (sq_nonneg c)]
  have hpos : 0 < r |mink x x| := hr.pos (abs_pos.2 hx)
  have hc' : 0 < |c| := abs_pos.2 hc
  unfold normalize
  rw [hm, isSqrt_mul_sq hr c _ (abs_nonneg _), if_neg (mul_pos hc' hpos).ne', if_neg hpos.ne']
  funext i; field_simp

theorem coshDist_smul_generic {r : K → K} (hr : IsSqrt r) (x y : Fin (n + 1) → K) (a b : K)
    (ha : a ≠ 0) (hb : b ≠ 0) (hx : mink x x ≠ 0) (hy : mink y y ≠ 0) :
    coshDist r (fun i => x i * a) (fun i => y i * b) = coshDist r x y := by
  unfold coshDist
  rw [normalize_smul hr x a ha hx, normalize_smul hr y b hb hy, mink_smul_left, mink_smul_right,
    abs_mul, abs_mul, abs_div_abs_self ha, abs_div_abs_self hb]; ring

/-! ### tangent directions -/

theorem projHyp_smul (x v : Fin (n + 1) → K) (a c : K) (ha : a ≠ 0) (hx : mink x x ≠ 0) :
    projHyp (fun i => x i * a) (fun i => v i * c) = fun i => projHyp x v i * c := by
  funext i; unfold projHyp mproj
  simp only [mink_smul_left, mink_smul_right]
  field_simp

theorem projHyp_sub_self (x w : Fin (n + 1) → K) (hx : mink x x ≠ 0) :
    projHyp x (fun i => w i - x i) = projHyp x w := by
  funext i; unfold projHyp mproj
  have : mink (fun i => w i - x i) x = mink w x - mink x x := by
    have := mink_sub_smul w x 1
    unfold mink; unfold mink at this
    have e : Fin.tail (fun i => w i - x i) = fun i => Fin.tail w i - Fin.tail x i := rfl
    rw [e, dot_sub_left]; ring
  rw [this]; field_simp; ring

theorem tangentTowardsPinned_eq (x y : Fin (n + 1) → K) (hx : mink x x ≠ 0) :
    tangentTowardsPinned x y = projHyp x y := projHyp_sub_self x y hx

theorem tangentTowards_eq (x y : Fin (n + 1) → K) (hx : mink x x ≠ 0) :
    tangentTowards x y = fun i => projHyp x y i * (if 0 < mink x y then -1 else 1) := by
  unfold tangentTowards
  rw [projHyp_sub_self x _ hx]
  have := projHyp_smul x y 1 (if 0 < mink x y then (-1 : K) else 1) one_ne_zero hx
  simpa using this

/-- the repaired tangent direction: rescaling either representative only multiplies the
(unnormalised) tangent vector by a scalar of the sign of the base point's factor -/
theorem tangentTowards_smul (x y : Fin (n + 1) → K) (a b : K) (ha : a ≠ 0) (hb : b ≠ 0)
    (hx : mink x x ≠ 0) (hxy : mink x y ≠ 0) :
    tangentTowards (fun i => x i * a) (fun i => y i * b)
      = fun i => tangentTowards x y i * (|b| * (a / |a|)) := by
  have hxa : mink (fun i => x i * a) (fun i => x i * a) ≠ 0 := by
    rw [mink_smul_left, mink_smul_right]; exact mul_ne_zero ha (mul_ne_zero ha hx)
  rw [tangentTowards_eq _ _ hxa, tangentTowards_eq _ _ hx, projHyp_smul x y a b ha hx,
    mink_smul_left, mink_smul_right]
  have hab : a * (b * mink x y) ≠ 0 := mul_ne_zero ha (mul_ne_zero hb hxy)
  rw [sheetSign_eq hab, sheetSign_eq hxy, abs_mul, abs_mul]
  have ha' := abs_ne_zero.2 ha
  have hb' := abs_ne_zero.2 hb
  have hm' := abs_ne_zero.2 hxy
  funext i
  field_simp
  rw [← sq_abs b]

/-! ### ideal endpoints of a segment -/

theorem segNull_smul_aux {r : K → K} (hr : IsSqrt r) (x₁ x₂ : Fin (n + 1) → K) (l₁ l₂ : K)
    (h1 : l₁ ≠ 0) (h2 : l₂ ≠ 0) (ha : segA x₁ x₂ ≠ 0)
    (ha' : segA (fun i => x₁ i * l₁) (fun i => x₂ i * l₂) ≠ 0) (hd : 0 < segDisc x₁ x₂)
    (s : K) (hs : s * s = 1) :
    ∃ t E : K, (t = 1 ∨ t = -1) ∧ E ≠ 0 ∧
      E = segMu r s (fun i => x₁ i * l₁) (fun i => x₂ i * l₂) * l₁
          + (1 - segMu r s (fun i => x₁ i * l₁) (fun i => x₂ i * l₂)) * l₂ ∧
      segMu r s (fun i => x₁ i * l₁) (fun i => x₂ i * l₂) * l₁ / E = segMu r t x₁ x₂ ∧
      segNull r s (fun i => x₁ i * l₁) (fun i => x₂ i * l₂) = fun i => segNull r t x₁ x₂ i * E := by
  set X₁ : Fin (n + 1) → K := fun i => x₁ i * l₁ with hX₁
  set X₂ : Fin (n + 1) → K := fun i => x₂ i * l₂ with hX₂
  have hd' : 0 ≤ segDisc X₁ X₂ := by
    rw [segDisc_smul]; positivity
  have hρ := (hr _ hd.le).2
  have hρ' := (hr _ hd').2
  set μ' := segMu r s X₁ X₂ with hμ'
  have hQ' : segA X₁ X₂ * μ' ^ 2 + segB X₁ X₂ * μ' + segC X₁ X₂ = 0 := by
    rw [hμ']; unfold segMu
    exact quad_root ha' (by rw [hρ']; unfold segDisc; ring) hs
  -- the quadratic of the rescaled pair in terms of the original products
  have hQexp : segA X₁ X₂ * μ' ^ 2 + segB X₁ X₂ * μ' + segC X₁ X₂
      = (μ' * l₁) ^ 2 * mink x₁ x₁ + 2 * (μ' * l₁) * ((1 - μ') * l₂) * mink x₁ x₂
        + ((1 - μ') * l₂) ^ 2 * mink x₂ x₂ := by
    unfold segA segB segC
    simp only [hX₁, hX₂, mink_smul_left, mink_smul_right]; ring
  have hE : μ' * l₁ + (1 - μ') * l₂ ≠ 0 := by
    intro hE
    have hw : (1 - μ') * l₂ = -(μ' * l₁) := by linear_combination hE
    have : (μ' * l₁) ^ 2 * segA x₁ x₂ = 0 := by
      rw [← hQ', hQexp, hw]; unfold segA; ring
    rcases mul_eq_zero.1 this with h | h
    · have hz : μ' * l₁ = 0 := by simpa using h
      have hμ0 : μ' = 0 := by
        rcases mul_eq_zero.1 hz with h | h
        · exact h
        · exact absurd h h1
      rw [hμ0] at hE; simp at hE; exact h2 hE
    · exact ha h
  set E := μ' * l₁ + (1 - μ') * l₂ with hEdef
  have hlc := lineComb_smul μ' x₁ x₂ l₁ l₂ hE
  have hQ : segA x₁ x₂ * (μ' * l₁ / E) ^ 2 + segB x₁ x₂ * (μ' * l₁ / E) + segC x₁ x₂ = 0 := by
    have h1' := mink_lineComb μ' X₁ X₂
    rw [hlc, mink_smul_left, mink_smul_right, mink_lineComb, hQ'] at h1'
    have hEE : E * E ≠ 0 := mul_ne_zero hE hE
    have : E * E * (segA x₁ x₂ * (μ' * l₁ / E) ^ 2 + segB x₁ x₂ * (μ' * l₁ / E) + segC x₁ x₂) = 0 := by
      rw [← h1']; ring
    exact (mul_eq_zero.1 this).resolve_left hEE
  have hroots := quad_roots_only ha (by rw [hρ]; unfold segDisc; ring) hQ
  rcases hroots with h | h
  · refine ⟨1, E, Or.inl rfl, hE, rfl, ?_, ?_⟩
    · unfold segMu; rw [h]
    · unfold segNull; rw [← hμ', hlc]; funext i; unfold segMu; rw [h]
  · refine ⟨-1, E, Or.inr rfl, hE, rfl, ?_, ?_⟩
    · unfold segMu; rw [h]
    · unfold segNull; rw [← hμ', hlc]; funext i; unfold segMu; rw [h]

/-- the map `μ' ↦ μ' l₁ / (μ' l₁ + (1-μ') l₂)` between the two parametrisations is injective -/
theorem param_inj {p q l₁ l₂ : K} (h1 : l₁ ≠ 0) (h2 : l₂ ≠ 0)
    (hp : p * l₁ + (1 - p) * l₂ ≠ 0) (hq : q * l₁ + (1 - q) * l₂ ≠ 0)
    (h : p * l₁ / (p * l₁ + (1 - p) * l₂) = q * l₁ / (q * l₁ + (1 - q) * l₂)) : p = q := by
  rw [div_eq_div_iff hp hq] at h
  have : l₁ * l₂ * (p - q) = 0 := by linear_combination h
  rcases mul_eq_zero.1 this with h | h
  · exact absurd h (mul_ne_zero h1 h2)
  · linear_combination h

end ordered
end GT.Rescale
