/-
Lemmas about the walks and enumerators of the FSA model (`follow`, `accepts`, prefixes,
`enumFixed`, `enumUpTo`).  Only the label view `graph` is involved.
-/
import GT.Lemmas.FSADict

set_option linter.unusedSectionVars false

namespace GT.FSA
variable {V L : Type} [DecidableEq V] [DecidableEq L]

/-- the label view is a dictionary of dictionaries: every row has distinct keys -/
def RowsNodup (s : FSA V L) : Prop := ∀ v row, s.graph.get? v = some row → row.keys.Nodup

/-- every vertex named by the label view (as a target) has a row of its own -/
def Closed (s : FSA V L) : Prop :=
  ∀ v row l w, s.graph.get? v = some row → row.get? l = some w → ∃ row', s.graph.get? w = some row'

@[simp] theorem follow_nil (s : FSA V L) (v : V) : s.follow v [] = some v := rfl

theorem follow_cons (s : FSA V L) (v : V) (l : L) (w : List L) :
    s.follow v (l :: w) = (s.step v l).bind (fun v' => s.follow v' w) := by
  simp only [follow]; cases s.step v l <;> rfl

theorem follow_append (s : FSA V L) (v : V) (u w : List L) :
    s.follow v (u ++ w) = (s.follow v u).bind (fun v' => s.follow v' w) := by
  induction u generalizing v with
  | nil => simp
  | cons l u ih =>
    simp only [List.cons_append, follow_cons]
    cases s.step v l with
    | none => simp
    | some v' => simpa using ih v'

theorem follow_concat (s : FSA V L) (v : V) (u : List L) (l : L) :
    s.follow v (u ++ [l]) = (s.follow v u).bind (fun v' => s.step v' l) := by
  rw [follow_append]
  congr 1; funext v'
  simp only [follow_cons, follow_nil]
  cases s.step v' l <;> rfl

/-- an accepted word has all its prefixes accepted -/
theorem follow_prefix {s : FSA V L} {v : V} {p w : List L} (hp : p <+: w) (h : (s.follow v w).isSome) :
    (s.follow v p).isSome := by
  obtain ⟨t, rfl⟩ := hp
  rw [follow_append] at h
  cases hf : s.follow v p with
  | none => simp [hf] at h
  | some _ => simp

theorem acceptedPrefixFrom_prefix (s : FSA V L) (v : V) (w : List L) : s.acceptedPrefixFrom v w <+: w := by
  induction w generalizing v with
  | nil => simp [acceptedPrefixFrom]
  | cons l w ih =>
    simp only [acceptedPrefixFrom]
    cases s.step v l with
    | none => simp
    | some v' => simpa using ih v'

theorem acceptedPrefixFrom_accepted (s : FSA V L) (v : V) (w : List L) :
    (s.follow v (s.acceptedPrefixFrom v w)).isSome := by
  induction w generalizing v with
  | nil => simp [acceptedPrefixFrom]
  | cons l w ih =>
    simp only [acceptedPrefixFrom]
    cases h : s.step v l with
    | none => simp
    | some v' => simpa [follow_cons, h] using ih v'

theorem acceptedPrefixFrom_longest (s : FSA V L) (v : V) (w p : List L) (hp : p <+: w)
    (h : (s.follow v p).isSome) : p.length ≤ (s.acceptedPrefixFrom v w).length := by
  induction w generalizing v p with
  | nil => simp_all
  | cons l w ih =>
    cases p with
    | nil => simp
    | cons l' p =>
      obtain ⟨rfl, hp'⟩ := List.cons_prefix_cons.1 hp
      simp only [acceptedPrefixFrom]
      rw [follow_cons] at h
      cases hs : s.step v l' with
      | none => simp [hs] at h
      | some v' =>
        simp only [hs, Option.bind_some] at h
        simpa using ih v' p hp' h

theorem acceptedPrefixFrom_eq_self {s : FSA V L} {v : V} {w : List L} (h : (s.follow v w).isSome) :
    s.acceptedPrefixFrom v w = w := by
  have h1 := acceptedPrefixFrom_prefix s v w
  have h2 := acceptedPrefixFrom_longest s v w w (List.prefix_refl w) h
  exact h1.eq_of_length_le h2

theorem rejectedPrefixFrom_eq_none_iff (s : FSA V L) (v : V) (w : List L) :
    s.rejectedPrefixFrom v w = none ↔ (s.follow v w).isSome := by
  induction w generalizing v with
  | nil => simp [rejectedPrefixFrom]
  | cons l w ih =>
    rw [follow_cons]
    simp only [rejectedPrefixFrom]
    cases hs : s.step v l with
    | none => simp
    | some v' => simp [ih v']

theorem rejectedPrefixFrom_of_rejected {s : FSA V L} {v : V} {w r : List L}
    (h : s.rejectedPrefixFrom v w = some r) :
    (∃ l, r = s.acceptedPrefixFrom v w ++ [l]) ∧ r <+: w ∧ s.follow v r = none := by
  induction w generalizing v r with
  | nil => simp [rejectedPrefixFrom] at h
  | cons l w ih =>
    simp only [rejectedPrefixFrom, acceptedPrefixFrom] at h ⊢
    cases hs : s.step v l with
    | none =>
      simp only [hs, Option.some.injEq] at h; subst h
      exact ⟨⟨l, by simp⟩, by simp, by simp [follow_cons, hs]⟩
    | some v' =>
      simp only [hs, Option.map_eq_some_iff] at h
      obtain ⟨r', hr', rfl⟩ := h
      obtain ⟨⟨l', e⟩, hp, hrj⟩ := ih hr'
      exact ⟨⟨l', by simp [e]⟩, by simpa using hp, by simpa [follow_cons, hs] using hrj⟩

/-! ### enumeration -/

theorem extendPaths_ok_iff (s : FSA V L) (ps : List (List L × V)) :
    (∃ xs, s.extendPaths ps = .ok xs) ↔ ∀ p ∈ ps, ∃ row, s.graph.get? p.2 = some row := by
  induction ps with
  | nil => simp [extendPaths]
  | cons p rest ih =>
    obtain ⟨w, v⟩ := p
    simp only [extendPaths, List.mem_cons, forall_eq_or_imp]
    cases hg : s.graph.get? v with
    | none => simp [Dict.get, hg, bind, Except.bind]
    | some row =>
      simp only [Dict.get, hg, bind, Except.bind]
      rw [← ih]
      cases s.extendPaths rest <;> simp [pure, Except.pure]

theorem mem_extendPaths {s : FSA V L} {ps xs : List (List L × V)} (h : s.extendPaths ps = .ok xs)
    (u : List L) (q : V) :
    (u, q) ∈ xs ↔ ∃ w v row l, (w, v) ∈ ps ∧ s.graph.get? v = some row ∧ (l, q) ∈ row ∧ u = w ++ [l] := by
  induction ps generalizing xs with
  | nil => simp [extendPaths] at h; subst h; simp
  | cons p rest ih =>
    obtain ⟨w0, v0⟩ := p
    simp only [extendPaths] at h
    cases hg : s.graph.get? v0 with
    | none => simp [Dict.get, hg, bind, Except.bind] at h
    | some row0 =>
      cases hr : s.extendPaths rest with
      | error e => simp [Dict.get, hg, hr, bind, Except.bind] at h
      | ok tl =>
        simp only [Dict.get, hg, hr, bind, Except.bind, pure, Except.pure, Except.ok.injEq] at h
        subst h
        simp only [List.mem_append, List.mem_map, Prod.mk.injEq, ih hr, List.mem_cons]
        constructor
        · rintro (⟨⟨l, q'⟩, hm, rfl, rfl⟩ | ⟨w, v, row, l, hm, hrow, hl, rfl⟩)
          · exact ⟨w0, v0, row0, l, Or.inl ⟨rfl, rfl⟩, hg, hm, rfl⟩
          · exact ⟨w, v, row, l, Or.inr hm, hrow, hl, rfl⟩
        · rintro ⟨w, v, row, l, (⟨rfl, rfl⟩ | hm), hrow, hl, rfl⟩
          · rw [hg] at hrow; cases hrow
            exact Or.inl ⟨(l, q), hl, rfl, rfl⟩
          · exact Or.inr ⟨w, v, row, l, hm, hrow, hl, rfl⟩

theorem step_eq_some_iff (s : FSA V L) (v : V) (l : L) (q : V) :
    s.step v l = some q ↔ ∃ row, s.graph.get? v = some row ∧ row.get? l = some q := by
  unfold step; cases s.graph.get? v <;> simp

/-- `enumerate_fixed_length_paths(n, start)` lists exactly the pairs `(w, q)` with `|w| = n` and
`follow start w = q` -/
theorem mem_enumFixed {s : FSA V L} (hd : s.RowsNodup) {start : V} {n : Nat} {xs : List (List L × V)}
    (h : s.enumFixed start n = .ok xs) (w : List L) (q : V) :
    (w, q) ∈ xs ↔ w.length = n ∧ s.follow start w = some q := by
  induction n generalizing xs w q with
  | zero =>
    simp only [enumFixed, Except.ok.injEq] at h; subst h
    simp only [List.mem_singleton, Prod.mk.injEq]
    constructor
    · rintro ⟨rfl, rfl⟩; simp
    · rintro ⟨h1, h2⟩
      have : w = [] := List.length_eq_zero_iff.1 h1
      subst this; simp at h2; simp [h2]
  | succ n ih =>
    simp only [enumFixed] at h
    cases hp : s.enumFixed start n with
    | error e => simp [hp, bind, Except.bind] at h
    | ok prev =>
      simp only [hp, bind, Except.bind] at h
      rw [mem_extendPaths h]
      constructor
      · rintro ⟨u, v, row, l, hm, hrow, hl, rfl⟩
        obtain ⟨h1, h2⟩ := (ih hp u v).1 hm
        refine ⟨by simp [h1], ?_⟩
        rw [follow_concat, h2]
        simp only [Option.bind_some]
        rw [step_eq_some_iff]
        exact ⟨row, hrow, Dict.get?_of_mem (hd v row hrow) hl⟩
      · rintro ⟨h1, h2⟩
        obtain ⟨u, l, rfl⟩ : ∃ u l, w = u ++ [l] := by
          rcases List.eq_nil_or_concat w with h | ⟨u, l, h⟩
          · subst h; simp at h1
          · exact ⟨u, l, by simpa using h⟩
        rw [follow_concat] at h2
        cases hu : s.follow start u with
        | none => simp [hu] at h2
        | some v =>
          simp only [hu, Option.bind_some] at h2
          obtain ⟨row, hrow, hl⟩ := (step_eq_some_iff s v l q).1 h2
          exact ⟨u, v, row, l, (ih hp u v).2 ⟨by simpa using h1, hu⟩, hrow, Dict.mem_of_get? hl, rfl⟩

theorem words_nodup_extendPaths {s : FSA V L} (hd : s.RowsNodup) {ps xs : List (List L × V)}
    (h : s.extendPaths ps = .ok xs) (hps : (ps.map Prod.fst).Nodup) : (xs.map Prod.fst).Nodup := by
  induction ps generalizing xs with
  | nil => simp [extendPaths] at h; subst h; simp
  | cons p rest ih =>
    obtain ⟨w0, v0⟩ := p
    simp only [extendPaths] at h
    cases hg : s.graph.get? v0 with
    | none => simp [Dict.get, hg, bind, Except.bind] at h
    | some row0 =>
      cases hr : s.extendPaths rest with
      | error e => simp [Dict.get, hg, hr, bind, Except.bind] at h
      | ok tl =>
        simp only [Dict.get, hg, hr, bind, Except.bind, pure, Except.pure, Except.ok.injEq] at h
        subst h
        simp only [List.map_cons, List.nodup_cons] at hps
        rw [List.map_append, List.nodup_append]
        refine ⟨?_, ih hr hps.2, ?_⟩
        · rw [List.map_map]
          have hk : (row0.map Prod.fst).Nodup := hd v0 row0 hg
          have : (List.map (Prod.fst ∘ fun e : L × V => (w0 ++ [e.1], e.2)) row0) =
              (row0.map Prod.fst).map (fun l => w0 ++ [l]) := by
            simp [List.map_map, Function.comp_def]
          rw [this]
          exact List.Pairwise.map _ (fun a b hab => by simpa using hab) hk
        · intro a ha b hb hab
          simp only [List.mem_map, Prod.exists, exists_and_right, exists_eq_right] at ha hb
          obtain ⟨q, l, q', hl, e1, e2⟩ := ha
          obtain ⟨q2, hb⟩ := hb
          obtain ⟨w, v, row, l2, hm, -, -, e3⟩ := (mem_extendPaths hr b q2).1 hb
          have : w0 = w := (List.append_inj' (hab.trans e3) rfl).1
          subst this
          exact hps.1 (List.mem_map.2 ⟨(w0, v), hm, rfl⟩)

/-- each accepted word is listed exactly once -/
theorem words_nodup_enumFixed {s : FSA V L} (hd : s.RowsNodup) {start : V} {n : Nat}
    {xs : List (List L × V)} (h : s.enumFixed start n = .ok xs) : (xs.map Prod.fst).Nodup := by
  induction n generalizing xs with
  | zero => simp only [enumFixed, Except.ok.injEq] at h; subst h; simp
  | succ n ih =>
    simp only [enumFixed] at h
    cases hp : s.enumFixed start n with
    | error e => simp [hp, bind, Except.bind] at h
    | ok prev =>
      simp only [hp, bind, Except.bind] at h
      exact words_nodup_extendPaths hd h (ih hp)

/-- on a closed label view whose start vertex has a row, the enumeration never raises -/
theorem enumFixed_ok {s : FSA V L} (hd : s.RowsNodup) (hc : s.Closed) {start : V}
    (hs : ∃ row, s.graph.get? start = some row) (n : Nat) : ∃ xs, s.enumFixed start n = .ok xs := by
  induction n with
  | zero => exact ⟨_, rfl⟩
  | succ n ih =>
    obtain ⟨prev, hp⟩ := ih
    have : ∃ xs, s.extendPaths prev = .ok xs := by
      rw [extendPaths_ok_iff]
      rintro ⟨w, q⟩ hm
      obtain ⟨h1, h2⟩ := (mem_enumFixed hd hp w q).1 hm
      clear hm hp
      -- the end of a walk has a row
      suffices H : ∀ (w : List L) (v q : V), (∃ row, s.graph.get? v = some row) → s.follow v w = some q →
          ∃ row, s.graph.get? q = some row from H w start q hs h2
      intro w
      induction w with
      | nil => intro v q hv hf; simp at hf; subst hf; exact hv
      | cons l w ihw =>
        intro v q hv hf
        rw [follow_cons] at hf
        cases hst : s.step v l with
        | none => simp [hst] at hf
        | some v' =>
          simp only [hst, Option.bind_some] at hf
          obtain ⟨row, hrow, hl⟩ := (step_eq_some_iff s v l v').1 hst
          exact ihw v' q (hc v row l v' hrow hl) hf
    obtain ⟨xs, hx⟩ := this
    exact ⟨xs, by simp [enumFixed, hp, bind, Except.bind, hx]⟩

theorem mem_enumUpTo {s : FSA V L} (hd : s.RowsNodup) {start : V} {n : Nat} {xs : List (List L × V)}
    (h : s.enumUpTo start n = .ok xs) (w : List L) (q : V) :
    (w, q) ∈ xs ↔ w.length ≤ n ∧ s.follow start w = some q := by
  induction n generalizing xs with
  | zero =>
    simp only [enumUpTo] at h
    rw [mem_enumFixed hd h]; simp
  | succ n ih =>
    simp only [enumUpTo] at h
    cases ha : s.enumUpTo start n with
    | error e => simp [ha, bind, Except.bind] at h
    | ok a =>
      cases hb : s.enumFixed start (n + 1) with
      | error e => simp [ha, hb, bind, Except.bind] at h
      | ok b =>
        simp only [ha, hb, bind, Except.bind, pure, Except.pure, Except.ok.injEq] at h
        subst h
        rw [List.mem_append, ih ha, mem_enumFixed hd hb]
        constructor
        · rintro (⟨h1, h2⟩ | ⟨h1, h2⟩)
          · exact ⟨by omega, h2⟩
          · exact ⟨by omega, h2⟩
        · rintro ⟨h1, h2⟩
          by_cases e : w.length = n + 1
          · exact Or.inr ⟨e, h2⟩
          · exact Or.inl ⟨by omega, h2⟩

theorem words_nodup_enumUpTo {s : FSA V L} (hd : s.RowsNodup) {start : V} {n : Nat}
    {xs : List (List L × V)} (h : s.enumUpTo start n = .ok xs) : (xs.map Prod.fst).Nodup := by
  induction n generalizing xs with
  | zero => simp only [enumUpTo] at h; exact words_nodup_enumFixed hd h
  | succ n ih =>
    simp only [enumUpTo] at h
    cases ha : s.enumUpTo start n with
    | error e => simp [ha, bind, Except.bind] at h
    | ok a =>
      cases hb : s.enumFixed start (n + 1) with
      | error e => simp [ha, hb, bind, Except.bind] at h
      | ok b =>
        simp only [ha, hb, bind, Except.bind, pure, Except.pure, Except.ok.injEq] at h
        subst h
        rw [List.map_append, List.nodup_append]
        refine ⟨ih ha, words_nodup_enumFixed hd hb, ?_⟩
        intro x hx y hy
        simp only [List.mem_map, Prod.exists, exists_and_right, exists_eq_right] at hx hy
        obtain ⟨q, hq⟩ := hx
        obtain ⟨q', hq'⟩ := hy
        have h1 := ((mem_enumUpTo hd ha x q).1 hq).1
        have h2 := ((mem_enumFixed hd hb y q').1 hq').1
        rintro rfl; omega

end GT.FSA
