/- list context: the `parse_list` loop parses every well-formed rendered list -/
import GT.Lemmas.GapParse

namespace GT.Gap

/-- a bare character is neither whitespace nor any of the list loop's special characters -/
theorem bareChar_facts {c : Char} (h : isBareChar c = true) :
    isWs c = false ∧ c ≠ '"' ∧ c ≠ ',' ∧ c ≠ '[' ∧ c ≠ ']' ∧ c ≠ '(' ∧ c ≠ ')' := by
  simp [isBareChar] at h
  obtain ⟨⟨⟨⟨⟨⟨h1, h2⟩, h3⟩, h4⟩, h5⟩, h6⟩, h7⟩ := h
  exact ⟨by simpa using h1, h2, h3, h4, h5, h6, h7⟩

theorem ws_facts {c : Char} (h : isWs c = true) :
    c ≠ '"' ∧ c ≠ ',' ∧ c ≠ '[' ∧ c ≠ ']' ∧ c ≠ '(' ∧ c ≠ ')' ∧ c ≠ 'r' ∧ c ≠ ':' := by
  simp [isWs] at h
  rcases h with (h | h) | h <;> subst h <;> decide

/-! ### single steps of `listLoop` -/

theorem listLoop_step_ws {f : Nat} {t : List Char} {i : Nat} {c : Char} {more : List Char}
    (h : t.drop i = c :: more) (hc : isWs c = true) (content : List Char) (cur : List GVal) :
    listLoop (f + 1) t i content cur = listLoop f t (i + 1) content cur := by
  obtain ⟨h1, h2, h3, h4, -⟩ := ws_facts hc
  rw [listLoop, hd_of_drop h]
  simp [h1, h2, h3, h4, hc]

theorem listLoop_step_bare {f : Nat} {t : List Char} {i : Nat} {c : Char} {more : List Char}
    (h : t.drop i = c :: more) (hc : isBareChar c = true) (content : List Char) (cur : List GVal) :
    listLoop (f + 1) t i content cur = listLoop f t (i + 1) (content ++ [c]) cur := by
  obtain ⟨h0, h1, h2, h3, h4, -⟩ := bareChar_facts hc
  rw [listLoop, hd_of_drop h]
  simp [h0, h1, h2, h3, h4]

theorem listLoop_skip_ws : ∀ (w : List Char), AllWs w → ∀ (fuel : Nat) (t : List Char) (i : Nat)
    (more content : List Char) (cur : List GVal), t.drop i = w ++ more → 2 * t.length + 2 ≤ fuel + 2 * i →
    listLoop fuel t i content cur = listLoop (fuel - w.length) t (i + w.length) content cur := by
  intro w
  induction w with
  | nil => intros; simp
  | cons c w ih =>
    intro hw fuel t i more content cur h hb
    have hlen := len_of_drop h (by simp)
    obtain ⟨f, rfl⟩ : ∃ f, fuel = f + 1 := ⟨fuel - 1, by simp at hlen; omega⟩
    rw [listLoop_step_ws (more := w ++ more) (by simpa using h) (hw c (by simp))]
    rw [ih (fun d hd => hw d (by simp [hd])) f t (i + 1) more content cur
      (tl_of_drop (by simpa using h)) (by omega)]
    simp only [List.length_cons]
    congr 1 <;> omega

theorem listLoop_scan_bare : ∀ (s : List Char), (∀ c ∈ s, isBareChar c = true) →
    ∀ (fuel : Nat) (t : List Char) (i : Nat) (more content : List Char) (cur : List GVal),
    t.drop i = s ++ more → 2 * t.length + 2 ≤ fuel + 2 * i →
    listLoop fuel t i content cur = listLoop (fuel - s.length) t (i + s.length) (content ++ s) cur := by
  intro s
  induction s with
  | nil => intros; simp
  | cons c s ih =>
    intro hs fuel t i more content cur h hb
    have hlen := len_of_drop h (by simp)
    obtain ⟨f, rfl⟩ : ∃ f, fuel = f + 1 := ⟨fuel - 1, by simp at hlen; omega⟩
    rw [listLoop_step_bare (more := s ++ more) (by simpa using h) (hs c (by simp))]
    rw [ih (fun d hd => hs d (by simp [hd])) f t (i + 1) more (content ++ [c]) cur
      (tl_of_drop (by simpa using h)) (by omega)]
    simp only [List.length_cons, List.append_assoc, List.singleton_append]
    congr 1 <;> omega

end GT.Gap

namespace GT.Gap

/-! ### terminators, quotes -/

theorem listLoop_close_empty {f : Nat} {t : List Char} {i : Nat} {more : List Char}
    (h : t.drop i = ']' :: more) (cur : List GVal) :
    listLoop (f + 1) t i [] cur = .ok (.list cur, i + 1) := by
  rw [listLoop, hd_of_drop h]; simp; rfl

theorem listLoop_close_lit {f : Nat} {t : List Char} {i : Nat} {more : List Char}
    (h : t.drop i = ']' :: more) (cur : List GVal) {s : List Char} {v : GVal}
    (hs : s ≠ []) (hl : literal s = .ok v) :
    listLoop (f + 1) t i s cur = .ok (.list (cur ++ [v]), i + 1) := by
  rw [listLoop, hd_of_drop h]
  have : s.isEmpty = false := by cases s <;> simp_all
  simp [this, hl]; rfl

theorem listLoop_comma_empty {f : Nat} {t : List Char} {i : Nat} {more : List Char}
    (h : t.drop i = ',' :: more) (cur : List GVal) :
    listLoop (f + 1) t i [] cur = listLoop f t (i + 1) [] cur := by
  rw [listLoop, hd_of_drop h]; simp

theorem listLoop_comma_lit {f : Nat} {t : List Char} {i : Nat} {more : List Char}
    (h : t.drop i = ',' :: more) (cur : List GVal) {s : List Char} {v : GVal}
    (hs : s ≠ []) (hl : literal s = .ok v) :
    listLoop (f + 1) t i s cur = listLoop f t (i + 1) [] (cur ++ [v]) := by
  rw [listLoop, hd_of_drop h]
  have : s.isEmpty = false := by cases s <;> simp_all
  simp [this, hl]; rfl

theorem idxOf?_append_cons (s more : List Char) (c : Char) (h : c ∉ s) :
    (s ++ c :: more).idxOf? c = some s.length := by
  induction s with
  | nil => simp [List.idxOf?_cons]
  | cons a s ih =>
    have ha : a ≠ c := fun e => h (by simp [e])
    have hs : c ∉ s := fun e => h (by simp [e])
    simp [List.idxOf?_cons, ha, ih hs]

theorem parseQuote_spec (s more : List Char) (h : '"' ∉ s) :
    parseQuote (s ++ '"' :: more) = .ok (s, s.length + 1) := by
  unfold parseQuote
  rw [idxOf?_append_cons s more '"' h]
  simp; rfl

theorem listLoop_quote {f : Nat} {t : List Char} {i : Nat} {s more : List Char}
    (h : t.drop i = '"' :: (s ++ '"' :: more)) (hs : '"' ∉ s) (content : List Char) (cur : List GVal) :
    listLoop (f + 1) t i content cur = listLoop f t (i + (s.length + 1) + 1) [] (cur ++ [.str s]) := by
  rw [listLoop, hd_of_drop h, tl_of_drop h, parseQuote_spec s more hs]
  simp; rfl

theorem listLoop_open {f : Nat} {t : List Char} {i : Nat} {more : List Char}
    (h : t.drop i = '[' :: more) (content : List Char) (cur : List GVal) {l : GVal} {off : Nat}
    (hp : parseList f more = .ok (l, off)) :
    listLoop (f + 1) t i content cur = listLoop f t (i + off + 1) content (cur ++ [l]) := by
  rw [listLoop, hd_of_drop h, tl_of_drop h, hp]
  simp; rfl

end GT.Gap

namespace GT.Gap

/-! ### the interval regular expression -/

theorem isDigit_ne_minus {c : Char} (h : isDigit c = true) : c ≠ '-' := by
  intro e; subst e; revert h; decide

theorem matchInt_of_ne_minus {c : Char} (r : List Char) (h1 : c ≠ '-') :
    matchInt (c :: r) = matchDigits false (c :: r) := by
  unfold matchInt
  split
  · rename_i heq; simp at heq; exact absurd heq.1 h1
  · rfl

theorem matchInt_none_of_head {c : Char} (r : List Char) (h1 : c ≠ '-') (h2 : isDigit c = false) :
    matchInt (c :: r) = none := by
  rw [matchInt_of_ne_minus r h1]
  simp [matchDigits, h2]

theorem takeWhile_digits (ds more : List Char) (hd : ∀ c ∈ ds, isDigit c = true)
    (hm : ∀ c, more.head? = some c → isDigit c = false) :
    (ds ++ more).takeWhile isDigit = ds := by
  rw [List.takeWhile_append_of_pos (by simpa using hd)]
  cases more with
  | nil => simp
  | cons m more => simp [hm m (by simp)]

theorem matchDigits_spec (neg : Bool) (ds more : List Char) (hne : ds ≠ [])
    (hd : ∀ c ∈ ds, isDigit c = true) (hm : ∀ c, more.head? = some c → isDigit c = false) :
    matchDigits neg (ds ++ more) = some (signedVal neg ds, (signed neg ds).length) := by
  have hne' : ds.isEmpty = false := by cases ds <;> simp_all
  unfold matchDigits
  simp only [takeWhile_digits ds more hd hm, hne']
  cases neg <;> simp [signed, signedVal]

theorem matchInt_signed (neg : Bool) (ds : List Char) (more : List Char) (hne : ds ≠ [])
    (hd : ∀ c ∈ ds, isDigit c = true) (hm : ∀ c, more.head? = some c → isDigit c = false) :
    matchInt (signed neg ds ++ more) = some (signedVal neg ds, (signed neg ds).length) := by
  cases neg with
  | true => simpa [signed, matchInt] using matchDigits_spec true ds more hne hd hm
  | false =>
    obtain ⟨d, ds', rfl⟩ := List.exists_cons_of_ne_nil hne
    have hd0 : d ≠ '-' := isDigit_ne_minus (hd d (by simp))
    simp only [signed, Bool.false_eq_true, if_false, List.cons_append]
    rw [matchInt_of_ne_minus _ hd0]
    exact matchDigits_spec false (d :: ds') more (by simp) hd hm

theorem matchInterval_spec (na nb : Bool) (da db rest : List Char) (ha : da ≠ []) (hb : db ≠ [])
    (hda : ∀ c ∈ da, isDigit c = true) (hdb : ∀ c ∈ db, isDigit c = true) :
    matchInterval (signed na da ++ '.' :: '.' :: (signed nb db ++ ']' :: rest))
      = some (signedVal na da, signedVal nb db, (signed na da).length + 2 + (signed nb db).length + 1) := by
  unfold matchInterval
  rw [matchInt_signed na da _ ha hda (by intro c hc; simp at hc; subst hc; decide)]
  simp only [List.drop_left]
  rw [matchInt_signed nb db _ hb hdb (by intro c hc; simp at hc; subst hc; decide)]
  simp only [List.drop_left]

end GT.Gap

namespace GT.Gap

theorem matchInterval_none_of_matchInt {t : List Char} (h : matchInt t = none) :
    matchInterval t = none := by
  unfold matchInterval; rw [h]

theorem ws_not_digit {c : Char} (h : isWs c = true) : isDigit c = false ∧ c ≠ '-' ∧ c ≠ '.' := by
  simp [isWs] at h
  rcases h with (h | h) | h <;> subst h <;> decide

/-- the character that follows a list item is whitespace, a comma or the closing bracket -/
def SepHead (X : List Char) : Prop := ∃ c X', X = c :: X' ∧ (isWs c = true ∨ c = ',' ∨ c = ']')

theorem sepHead_facts {X : List Char} (h : SepHead X) :
    ∃ c X', X = c :: X' ∧ isDigit c = false ∧ c ≠ '.' ∧ c ≠ '-' := by
  obtain ⟨c, X', rfl, hc⟩ := h
  refine ⟨c, X', rfl, ?_⟩
  rcases hc with hc | rfl | rfl
  · obtain ⟨h1, h2, h3⟩ := ws_not_digit hc; exact ⟨h1, h3, h2⟩
  · decide
  · decide

theorem sepHead_tail (after : List Char) (ha : AllWs after) (rest : SynItems) (post : List Char)
    (hp : AllWs post) (more : List Char) :
    SepHead (after ++ (rest.renderTail ++ (post ++ ']' :: more))) := by
  cases after with
  | cons a after => exact ⟨a, _, rfl, Or.inl (ha a (by simp))⟩
  | nil =>
    cases rest with
    | cons v af r =>
      exact ⟨',', v.render ++ (af ++ r.renderTail) ++ (post ++ ']' :: more),
        by simp [SynItems.renderTail], Or.inr (Or.inl rfl)⟩
    | nil =>
      cases post with
      | cons p post => exact ⟨p, post ++ ']' :: more, by simp [SynItems.renderTail], Or.inl (hp p (by simp))⟩
      | nil => exact ⟨']', more, by simp [SynItems.renderTail], Or.inr (Or.inr rfl)⟩

/-- a well-formed bare token followed by a separator never looks like `a..b]` -/
theorem matchInterval_none_bare (s X : List Char) (hne : s ≠ []) (hm : s.head? ≠ some '-')
    (hl : ∃ v, literal s = .ok v) (hX : SepHead X) : matchInterval (s ++ X) = none := by
  obtain ⟨c0, s', rfl⟩ := List.exists_cons_of_ne_nil hne
  have hc0 : c0 ≠ '-' := by intro e; apply hm; simp [e]
  obtain ⟨x0, X', rfl, hx1, hx2, hx3⟩ := sepHead_facts hX
  by_cases hd : isDigit c0 = true
  · obtain ⟨v, hv⟩ := hl
    unfold literal at hv
    by_cases hf : floatPrefix (c0 :: s') = true
    · -- plain float: digits, a dot, at least one digit
      rw [if_pos hf] at hv
      by_cases hpf : isPlainFloat (c0 :: s') = true
      · unfold isPlainFloat at hpf
        have hsplit := List.takeWhile_append_dropWhile (p := isDigit) (l := c0 :: s')
        generalize hds0 : (c0 :: s').takeWhile isDigit = ds0 at hsplit
        generalize hdr : (c0 :: s').dropWhile isDigit = dr at hsplit hpf
        have hds0_digits : ∀ c ∈ ds0, isDigit c = true := by
          have hall := List.all_takeWhile (p := isDigit) (l := c0 :: s')
          rw [hds0] at hall
          intro c hc; exact (List.all_eq_true.1 hall) c hc
        have hds0_ne : ds0 ≠ [] := by
          rw [← hds0]; simp [hd]
        cases dr with
        | nil => simp at hpf
        | cons dh ds' =>
          by_cases hdh' : dh ≠ '.'
          · have hdh := hdh'
            exfalso
            split at hpf
            · rename_i heq; simp at heq; exact absurd heq.1 hdh
            · cases hpf
          have hdh : dh = '.' := Decidable.not_not.1 hdh'
          subst hdh
          simp at hpf
          obtain ⟨hne', hall⟩ := hpf
          obtain ⟨d, ds'', rfl⟩ := List.exists_cons_of_ne_nil hne'
          have hdd : isDigit d = true := hall d (by simp)
          have hdne : d ≠ '.' := by intro e; subst e; revert hdd; decide
          rw [← hsplit]
          obtain ⟨e0, ds0', rfl⟩ := List.exists_cons_of_ne_nil hds0_ne
          have he0 : e0 ≠ '-' := isDigit_ne_minus (hds0_digits e0 (by simp))
          unfold matchInterval
          have hmi : matchInt ((e0 :: ds0' ++ '.' :: d :: ds'') ++ x0 :: X')
              = some (signedVal false (e0 :: ds0'), (e0 :: ds0').length) := by
            have := matchInt_signed false (e0 :: ds0') ('.' :: d :: ds'' ++ x0 :: X') (by simp)
              hds0_digits (by intro c hc; simp at hc; subst hc; decide)
            simpa [signed] using this
          rw [hmi]
          have hdrop : ((e0 :: ds0' ++ '.' :: d :: ds'') ++ x0 :: X').drop (e0 :: ds0').length
              = '.' :: d :: (ds'' ++ x0 :: X') := by
            rw [List.append_assoc, List.drop_left]; simp
          simp only [hdrop]
          split
          · rename_i heq; simp at heq; exact absurd heq.1 hdne
          · rfl
      · rw [if_neg hpf] at hv; cases hv
    · rw [if_neg hf] at hv
      simp only [hd, if_true] at hv
      by_cases hall : (c0 :: s').all isDigit = true
      · have hdig : ∀ c ∈ c0 :: s', isDigit c = true := by simpa using hall
        unfold matchInterval
        have hmi : matchInt ((c0 :: s') ++ x0 :: X') = some (signedVal false (c0 :: s'), (c0 :: s').length) := by
          have := matchInt_signed false (c0 :: s') (x0 :: X') (by simp) hdig
            (by intro c hc; simp at hc; subst hc; exact hx1)
          simpa [signed] using this
        rw [hmi]
        simp only [List.drop_left]
        split
        · rename_i heq; simp at heq; exact absurd heq.1 hx2
        · rfl
      · rw [if_neg hall] at hv; cases hv
  · apply matchInterval_none_of_matchInt
    simp only [List.cons_append]
    exact matchInt_none_of_head _ hc0 (by simpa using hd)

end GT.Gap

namespace GT.Gap

theorem matchInterval_none_head {c : Char} (r : List Char) (h1 : c ≠ '-') (h2 : isDigit c = false) :
    matchInterval (c :: r) = none :=
  matchInterval_none_of_matchInt (matchInt_none_of_head r h1 h2)

theorem matchInterval_none_ws_then {w : List Char} (hw : AllWs w) {c : Char} (r : List Char)
    (h1 : c ≠ '-') (h2 : isDigit c = false) : matchInterval (w ++ c :: r) = none := by
  cases w with
  | nil => exact matchInterval_none_head r h1 h2
  | cons a w =>
    obtain ⟨g1, g2, -⟩ := ws_not_digit (hw a (by simp))
    exact matchInterval_none_head _ g2 g1

/-- the body of a well-formed list is never mistaken for the interval syntax -/
theorem matchInterval_none_body (items : SynItems) (hw : items.WF) (post : List Char)
    (hp : AllWs post) (more : List Char) :
    matchInterval (items.render ++ (post ++ ']' :: more)) = none := by
  cases items with
  | nil =>
    simp only [SynItems.render, List.nil_append]
    exact matchInterval_none_ws_then hp more (by decide) (by decide)
  | cons v after rest =>
    simp only [SynItems.WF] at hw
    obtain ⟨hv, ha, hr⟩ := hw
    simp only [SynItems.render, List.append_assoc]
    cases v with
    | bare pre s =>
      simp only [Syn.WF] at hv
      obtain ⟨hpre, hne, hbare, hminus, hlit⟩ := hv
      simp only [Syn.render, List.append_assoc]
      cases pre with
      | cons a pre =>
        obtain ⟨g1, g2, -⟩ := ws_not_digit (hpre a (by simp))
        exact matchInterval_none_head _ g2 g1
      | nil =>
        simp only [List.nil_append]
        exact matchInterval_none_bare s _ hne hminus hlit (sepHead_tail after ha rest post hp more)
    | quoted pre s =>
      simp only [Syn.WF] at hv
      simp only [Syn.render, List.append_assoc, List.cons_append]
      exact matchInterval_none_ws_then hv.1 _ (by decide) (by decide)
    | interval pre na da nb db =>
      simp only [Syn.WF] at hv
      simp only [Syn.render, List.append_assoc, List.cons_append]
      exact matchInterval_none_ws_then hv.1 _ (by decide) (by decide)
    | list pre items' post' =>
      simp only [Syn.WF] at hv
      simp only [Syn.render, List.append_assoc, List.cons_append]
      exact matchInterval_none_ws_then hv.1 _ (by decide) (by decide)
    | record pre fields post' =>
      simp only [Syn.WF] at hv
      exact absurd hv.1 (by decide)

end GT.Gap
